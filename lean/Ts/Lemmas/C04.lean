import Ts.Spec.CrcSpec
import Ts.Model.Crc
/-!
# Lemmas for C04 (checksum half)

GF(2)-linearity of the Annex A shift register on `Nat` with `^^^`, the "feed = pre-xor then
zero-feed" lemma for up to 32 bits, injectivity of the zero-input clock, and the list plumbing
needed to state error patterns by bit position.
-/
namespace Ts.CrcSpec
open Ts

/-! ### one clock: bounds and linearity -/

theorem M_eq : M = 2^32 := by decide

theorem bit_mul_xor (u v : Nat) (hu : u ≤ 1) (hv : v ≤ 1) :
    (u ^^^ v) * poly = (u * poly) ^^^ (v * poly) := by
  have : u = 0 ∨ u = 1 := by omega
  have : v = 0 ∨ v = 1 := by omega
  rcases ‹u = 0 ∨ u = 1› with rfl | rfl <;> rcases ‹v = 0 ∨ v = 1› with rfl | rfl <;> simp

theorem shr31_le (c : Nat) (h : c < M) : c >>> 31 ≤ 1 := by
  rw [Nat.shiftRight_eq_div_pow]; unfold M at h; omega

theorem xor_le_one (u v : Nat) (hu : u ≤ 1) (hv : v ≤ 1) : u ^^^ v ≤ 1 := by
  have : u = 0 ∨ u = 1 := by omega
  have : v = 0 ∨ v = 1 := by omega
  rcases ‹u = 0 ∨ u = 1› with rfl | rfl <;> rcases ‹v = 0 ∨ v = 1› with rfl | rfl <;> simp

theorem step_lin (c1 c2 b1 b2 : Nat) (h1 : c1 < M) (h2 : c2 < M) (hb1 : b1 ≤ 1) (hb2 : b2 ≤ 1) :
    step (c1 ^^^ c2) (b1 ^^^ b2) = step c1 b1 ^^^ step c2 b2 := by
  unfold step
  rw [Nat.shiftLeft_xor_distrib, M_eq, Nat.xor_mod_two_pow, Nat.shiftRight_xor_distrib]
  have e : (c1 >>> 31 ^^^ c2 >>> 31) ^^^ (b1 ^^^ b2) = (c1 >>> 31 ^^^ b1) ^^^ (c2 >>> 31 ^^^ b2) := by
    ac_rfl
  rw [e, bit_mul_xor _ _ (xor_le_one _ _ (shr31_le _ h1) hb1) (xor_le_one _ _ (shr31_le _ h2) hb2)]
  ac_rfl

theorem step_lt (c b : Nat) (hb : b ≤ 1) (hc : c < M) : step c b < M := by
  unfold step
  rw [M_eq]
  apply Nat.xor_lt_two_pow
  · exact Nat.mod_lt _ (by decide)
  · have := xor_le_one _ _ (shr31_le _ hc) hb
    have : (c >>> 31 ^^^ b) = 0 ∨ (c >>> 31 ^^^ b) = 1 := by omega
    rcases this with h | h <;> rw [h] <;> decide

theorem step_zero : step 0 0 = 0 := by decide

/-- below `2^31` the zero-input clock is a plain shift: no feedback -/
theorem step_low (c : Nat) (h : c < 2^31) : step c 0 = c * 2 := by
  unfold step
  have : c >>> 31 = 0 := by rw [Nat.shiftRight_eq_div_pow]; omega
  rw [this]; simp [Nat.shiftLeft_eq]; unfold M; omega

theorem xor_eq_add (k x y : Nat) (hy : y < 2^k) : (2^k * x) ^^^ y = 2^k * x + y := by
  apply Nat.eq_of_testBit_eq
  intro i
  rw [Nat.testBit_xor, Nat.testBit_two_pow_mul_add x hy i]
  have h0 : (2^k * x).testBit i = if i < k then false else x.testBit (i - k) := by
    have := Nat.testBit_two_pow_mul_add x (Nat.two_pow_pos k) i
    simpa using this
  rw [h0]
  by_cases h : i < k
  · simp [h]
  · simp only [h, if_false]
    have : y.testBit i = false :=
      Nat.testBit_lt_two_pow (Nat.lt_of_lt_of_le hy (Nat.pow_le_pow_right (by decide) (by omega)))
    simp [this]

/-- feeding bit `b` = xoring `b` into the top stage, then clocking with input 0 -/
theorem step_top (c b : Nat) (hc : c < M) (hb : b ≤ 1) : step c b = step (c ^^^ (b <<< 31)) 0 := by
  have hb31 : b <<< 31 < M := by rw [Nat.shiftLeft_eq]; unfold M; omega
  have l := step_lin c (b <<< 31) 0 0 hc hb31 (by omega) (by omega)
  rw [Nat.xor_zero] at l
  have e1 : step (b <<< 31) 0 = step 0 b := by
    have : b = 0 ∨ b = 1 := by omega
    rcases this with rfl | rfl <;> decide
  have l2 := step_lin c 0 0 b hc (by unfold M; omega) (by omega) hb
  rw [Nat.xor_zero, Nat.zero_xor] at l2
  rw [l, e1, l2]

/-! ### runs -/

/-- every element is a bit -/
def AllBits (bs : List Nat) : Prop := ∀ x ∈ bs, x ≤ 1

theorem AllBits.tail {b : Nat} {bs : List Nat} (h : AllBits (b :: bs)) : AllBits bs :=
  fun x hx => h x (List.mem_cons_of_mem _ hx)
theorem AllBits.head {b : Nat} {bs : List Nat} (h : AllBits (b :: bs)) : b ≤ 1 :=
  h b List.mem_cons_self
theorem AllBits.append {a b : List Nat} (ha : AllBits a) (hb : AllBits b) : AllBits (a ++ b) := by
  intro x hx
  rcases List.mem_append.1 hx with h | h
  · exact ha x h
  · exact hb x h
theorem AllBits.take {a : List Nat} (ha : AllBits a) (n : Nat) : AllBits (a.take n) :=
  fun x hx => ha x (List.mem_of_mem_take hx)
theorem AllBits.drop {a : List Nat} (ha : AllBits a) (n : Nat) : AllBits (a.drop n) :=
  fun x hx => ha x (List.mem_of_mem_drop hx)

@[simp] theorem run_nil (c : Nat) : run c [] = c := rfl
@[simp] theorem run_cons (c b : Nat) (bs : List Nat) : run c (b :: bs) = run (step c b) bs := rfl
theorem run_append (c : Nat) (a b : List Nat) : run c (a ++ b) = run (run c a) b := by
  unfold run; rw [List.foldl_append]

theorem run_lt (c : Nat) (bs : List Nat) (hc : c < M) (hb : AllBits bs) : run c bs < M := by
  induction bs generalizing c with
  | nil => exact hc
  | cons b bs ih => exact ih _ (step_lt _ _ hb.head hc) hb.tail

/-- `n` clocks with input 0 -/
def iter0 : Nat → Nat → Nat
  | 0, c => c
  | n+1, c => iter0 n (step c 0)

theorem iter0_lt (n c : Nat) (hc : c < M) : iter0 n c < M := by
  induction n generalizing c with
  | zero => exact hc
  | succ n ih => exact ih _ (step_lt _ _ (by omega) hc)

theorem iter0_zero (n : Nat) : iter0 n 0 = 0 := by
  induction n with
  | zero => rfl
  | succ n ih => rw [iter0, step_zero, ih]

theorem iter0_succ' (n c : Nat) : iter0 (n+1) c = step (iter0 n c) 0 := by
  induction n generalizing c with
  | zero => rfl
  | succ n ih => rw [iter0, ih]; rfl

theorem iter0_add (a b c : Nat) : iter0 (a + b) c = iter0 b (iter0 a c) := by
  induction a generalizing c with
  | zero => simp [iter0]
  | succ a ih => rw [Nat.succ_add, iter0, ih]; rfl

theorem iter0_lin (n c1 c2 : Nat) (h1 : c1 < M) (h2 : c2 < M) :
    iter0 n (c1 ^^^ c2) = iter0 n c1 ^^^ iter0 n c2 := by
  induction n generalizing c1 c2 with
  | zero => rfl
  | succ n ih =>
    rw [iter0, iter0, iter0]
    have := step_lin c1 c2 0 0 h1 h2 (by omega) (by omega)
    rw [Nat.xor_zero] at this
    rw [this]
    exact ih _ _ (step_lt _ _ (by omega) h1) (step_lt _ _ (by omega) h2)

theorem iter0_low (n c : Nat) (h : c * 2^n < M) : iter0 n c = c * 2^n := by
  induction n generalizing c with
  | zero => simp [iter0]
  | succ n ih =>
    rw [Nat.pow_succ] at h
    have h2 : 0 < 2^n := Nat.two_pow_pos n
    have hc : c < 2^31 := by
      have : c * 2 ≤ c * (2^n * 2) := Nat.mul_le_mul_left _ (by omega)
      unfold M at h; omega
    rw [iter0, step_low c hc, ih]
    · rw [Nat.pow_succ, Nat.mul_assoc, Nat.mul_comm 2]
    · rw [Nat.mul_assoc, Nat.mul_comm 2]; exact h

/-- the number spelled by a bit list, most significant first -/
def val : List Nat → Nat
  | [] => 0
  | b :: bs => b * 2^bs.length + val bs

theorem val_lt (bs : List Nat) (h : AllBits bs) : val bs < 2^bs.length := by
  induction bs with
  | nil => simp [val]
  | cons b bs ih =>
    have := ih h.tail
    have hb := h.head
    simp only [val, List.length_cons, Nat.pow_succ]
    have : b * 2^bs.length ≤ 1 * 2^bs.length := Nat.mul_le_mul_right _ hb
    omega

theorem val_append (a b : List Nat) : val (a ++ b) = val a * 2^b.length + val b := by
  induction a with
  | nil => simp [val]
  | cons x a ih =>
    simp only [List.cons_append, val, ih, List.length_append, Nat.pow_add, Nat.add_mul]
    rw [Nat.mul_assoc]; omega

theorem val_ne_zero (bs : List Nat) (j : Nat) (h : bs.getD j 0 = 1) : val bs ≠ 0 := by
  induction bs generalizing j with
  | nil => simp at h
  | cons b bs ih =>
    cases j with
    | zero =>
      simp only [List.getD_cons_zero] at h
      subst h
      simp only [val]
      have := Nat.two_pow_pos bs.length
      omega
    | succ j =>
      simp only [List.getD_cons_succ] at h
      have := ih j h
      simp only [val]; omega

theorem run_zeros (c : Nat) (zs : List Nat) (hz : ∀ j, zs.getD j 0 = 0) :
    run c zs = iter0 zs.length c := by
  induction zs generalizing c with
  | nil => rfl
  | cons z zs ih =>
    have h0 : z = 0 := by simpa using hz 0
    subst h0
    rw [run_cons, List.length_cons, iter0]
    exact ih _ (fun j => by simpa using hz (j+1))

/-- **feed lemma**: clocking in up to 32 bits `w` equals xoring them into the top of the register
and clocking in as many zeros -/
theorem run_feed (w : List Nat) (c : Nat) (hw : AllBits w) (hl : w.length ≤ 32) (hc : c < M) :
    run c w = iter0 w.length (c ^^^ (val w <<< (32 - w.length))) := by
  induction w generalizing c with
  | nil => simp [val, iter0]
  | cons b w ih =>
    have hb := hw.head
    have hv := val_lt w hw.tail
    simp only [List.length_cons] at hl
    rw [run_cons, ih _ hw.tail (by omega) (step_lt _ _ hb hc), List.length_cons, iter0]
    congr 1
    -- step c b ^^^ (val w <<< (32-k)) = step (c ^^^ (val (b::w) <<< (31-k))) 0
    have hk : 32 - w.length = (31 - w.length) + 1 := by omega
    have hlow : val w <<< (31 - w.length) < 2^31 := by
      rw [Nat.shiftLeft_eq]
      have : val w * 2^(31 - w.length) < 2^w.length * 2^(31 - w.length) :=
        Nat.mul_lt_mul_of_pos_right hv (Nat.two_pow_pos _)
      rw [← Nat.pow_add] at this
      have e : w.length + (31 - w.length) = 31 := by omega
      rw [e] at this; exact this
    have e1 : val w <<< (32 - w.length) = step (val w <<< (31 - w.length)) 0 := by
      rw [step_low _ hlow, hk, Nat.shiftLeft_succ, Nat.mul_comm]
    have e2 : val (b :: w) <<< (32 - (w.length + 1)) = (b <<< 31) ^^^ (val w <<< (31 - w.length)) := by
      have e3 : 32 - (w.length + 1) = 31 - w.length := by omega
      rw [e3]
      simp only [val, Nat.shiftLeft_eq]
      rw [Nat.add_mul, Nat.mul_assoc, ← Nat.pow_add]
      have e : w.length + (31 - w.length) = 31 := by omega
      rw [e, Nat.mul_comm b, xor_eq_add 31 b _ (by simpa [Nat.shiftLeft_eq] using hlow)]
    have hb31 : b <<< 31 < M := by rw [Nat.shiftLeft_eq]; unfold M; omega
    have hcb : c ^^^ (b <<< 31) < M := by
      rw [M_eq] at *; exact Nat.xor_lt_two_pow hc hb31
    rw [e2, ← Nat.xor_assoc]
    have l := step_lin (c ^^^ (b <<< 31)) (val w <<< (31 - w.length)) 0 0 hcb
      (by unfold M; omega) (by omega) (by omega)
    rw [Nat.xor_zero] at l
    rw [l, ← step_top c b hc hb, e1]

/-! ### the zero-input clock is injective (the polynomial has constant term 1) -/

/-- inverse of the zero-input clock on `[0, 2^32)` -/
def unstep (r : Nat) : Nat := ((r ^^^ ((r % 2) * poly)) / 2) + (r % 2) * 2^31

theorem unstep_step (c : Nat) (hc : c < M) : unstep (step c 0) = c := by
  have hdec : c = 2^31 * (c >>> 31) + c % 2^31 := by
    rw [Nat.shiftRight_eq_div_pow]; omega
  have ht := shr31_le c hc
  have hlo : c % 2^31 < 2^31 := Nat.mod_lt _ (by decide)
  have hs : step c 0 = ((c % 2^31) * 2) ^^^ ((c >>> 31) * poly) := by
    unfold step
    rw [Nat.xor_zero, Nat.shiftLeft_eq]
    congr 1
    unfold M; omega
  rw [hs]
  have : c >>> 31 = 0 ∨ c >>> 31 = 1 := by omega
  rcases this with h | h
  · rw [h] at hdec ⊢
    simp only [Nat.zero_mul, Nat.xor_zero, unstep]
    have : (c % 2^31 * 2) % 2 = 0 := by omega
    rw [this]; simp; omega
  · rw [h] at hdec ⊢
    simp only [Nat.one_mul, unstep]
    have hodd : ((c % 2^31 * 2) ^^^ poly) % 2 = 1 := by
      have := Nat.xor_mod_two_pow (a := c % 2^31 * 2) (b := poly) (n := 1)
      simp only [Nat.pow_one] at this
      rw [this]
      have e1 : (c % 2^31 * 2) % 2 = 0 := by omega
      have e2 : poly % 2 = 1 := by decide
      rw [e1, e2]; rfl
    rw [hodd, Nat.one_mul, Nat.xor_assoc, Nat.xor_self, Nat.xor_zero]
    omega

theorem step0_inj (c1 c2 : Nat) (h1 : c1 < M) (h2 : c2 < M) (h : step c1 0 = step c2 0) : c1 = c2 := by
  rw [← unstep_step c1 h1, ← unstep_step c2 h2, h]

theorem iter0_inj (n c1 c2 : Nat) (h1 : c1 < M) (h2 : c2 < M) (h : iter0 n c1 = iter0 n c2) :
    c1 = c2 := by
  induction n generalizing c1 c2 with
  | zero => exact h
  | succ n ih =>
    rw [iter0, iter0] at h
    exact step0_inj _ _ h1 h2 (ih _ _ (step_lt _ _ (by omega) h1) (step_lt _ _ (by omega) h2) h)

theorem iter0_ne_zero (n c : Nat) (hc : c < M) (h : c ≠ 0) : iter0 n c ≠ 0 := by
  intro h0
  rw [← iter0_zero n] at h0
  exact h (iter0_inj n c 0 hc (by unfold M; omega) h0)

theorem eq_of_xor_eq_zero (a b : Nat) (h : a ^^^ b = 0) : a = b := by
  have : a ^^^ (a ^^^ b) = b := by rw [← Nat.xor_assoc, Nat.xor_self, Nat.zero_xor]
  rw [h, Nat.xor_zero] at this; exact this

/-! ### bytes as bits -/

theorem byteBits_length (d : Nat) : (byteBits d).length = 8 := by simp [byteBits]

theorem byteBits_allBits (d : Nat) : AllBits (byteBits d) := by
  intro x hx
  simp only [byteBits, List.mem_map] at hx
  obtain ⟨k, _, rfl⟩ := hx
  omega

theorem val_byteBits_fin : ∀ d : Fin 256, val (byteBits d.val) = d.val := by decide +kernel
theorem val_byteBits (d : Nat) (h : d < 256) : val (byteBits d) = d := val_byteBits_fin ⟨d, h⟩

theorem byteBits_getD (d i : Nat) (h : i < 8) : (byteBits d).getD i 0 = (d >>> (7 - i)) % 2 := by
  simp [byteBits, List.getD_eq_getElem?_getD, List.getElem?_range h]

@[simp] theorem bits_nil : bits [] = [] := rfl
@[simp] theorem bits_cons (a : UInt8) (m : Bytes) : bits (a :: m) = byteBits a.toNat ++ bits m := by
  simp [bits]
theorem bits_append (a b : Bytes) : bits (a ++ b) = bits a ++ bits b := by
  simp [bits]

theorem bits_length (m : Bytes) : (bits m).length = 8 * m.length := by
  induction m with
  | nil => rfl
  | cons a m ih => rw [bits_cons, List.length_append, byteBits_length, ih, List.length_cons]; omega

theorem bits_allBits (m : Bytes) : AllBits (bits m) := by
  induction m with
  | nil => intro x hx; simp at hx
  | cons a m ih => rw [bits_cons]; exact (byteBits_allBits _).append ih

theorem crcFrom_nil (c : Nat) : crcFrom c [] = c := rfl
theorem crcFrom_cons (c : Nat) (a : UInt8) (m : Bytes) :
    crcFrom c (a :: m) = crcFrom (run c (byteBits a.toNat)) m := by
  unfold crcFrom; rw [bits_cons, run_append]
theorem crcFrom_append (c : Nat) (a b : Bytes) : crcFrom c (a ++ b) = crcFrom (crcFrom c a) b := by
  unfold crcFrom; rw [bits_append, run_append]
theorem crcFrom_lt (c : Nat) (m : Bytes) (hc : c < M) : crcFrom c m < M :=
  run_lt c _ hc (bits_allBits m)

theorem shl24_lt (x : Nat) (h : x < 256) : x <<< 24 < M := by
  rw [Nat.shiftLeft_eq]; unfold M; omega

/-- one byte, table-free: xor it into the top byte, clock 8 zeros -/
theorem run_byte (c d : Nat) (hc : c < M) (hd : d < 256) :
    run c (byteBits d) = iter0 8 (c ^^^ (d <<< 24)) := by
  have := run_feed (byteBits d) c (byteBits_allBits d) (by rw [byteBits_length]; omega) hc
  rw [byteBits_length, val_byteBits d hd] at this
  exact this

theorem xor_lt_M (a b : Nat) (ha : a < M) (hb : b < M) : a ^^^ b < M := by
  rw [M_eq] at *; exact Nat.xor_lt_two_pow ha hb

theorem run_byte_lin (c1 c2 d1 d2 : Nat) (h1 : c1 < M) (h2 : c2 < M) (hd1 : d1 < 256) (hd2 : d2 < 256) :
    run (c1 ^^^ c2) (byteBits (d1 ^^^ d2)) = run c1 (byteBits d1) ^^^ run c2 (byteBits d2) := by
  have hx : d1 ^^^ d2 < 256 := Nat.xor_lt_two_pow (n := 8) hd1 hd2
  have hc : c1 ^^^ c2 < M := xor_lt_M _ _ h1 h2
  have a1 : c1 ^^^ (d1 <<< 24) < M := xor_lt_M _ _ h1 (shl24_lt d1 hd1)
  have a2 : c2 ^^^ (d2 <<< 24) < M := xor_lt_M _ _ h2 (shl24_lt d2 hd2)
  rw [run_byte _ _ hc hx, run_byte _ _ h1 hd1, run_byte _ _ h2 hd2, ← iter0_lin 8 _ _ a1 a2,
    Nat.shiftLeft_xor_distrib]
  generalize d1 <<< 24 = x1
  generalize d2 <<< 24 = x2
  congr 1
  ac_rfl

/-- linearity over whole byte strings -/
theorem crcFrom_xor (m e : Bytes) (c1 c2 : Nat) (hl : e.length = m.length) (h1 : c1 < M) (h2 : c2 < M) :
    crcFrom (c1 ^^^ c2) (xorBytes m e) = crcFrom c1 m ^^^ crcFrom c2 e := by
  induction m generalizing e c1 c2 with
  | nil =>
    cases e with
    | nil => rfl
    | cons _ _ => simp at hl
  | cons a m ih =>
    cases e with
    | nil => simp at hl
    | cons b e =>
      simp only [List.length_cons, Nat.add_right_cancel_iff] at hl
      have : xorBytes (a :: m) (b :: e) = (a ^^^ b) :: xorBytes m e := rfl
      rw [this, crcFrom_cons, crcFrom_cons, crcFrom_cons, UInt8.toNat_xor,
        run_byte_lin _ _ _ _ h1 h2 (UInt8.toNat_lt a) (UInt8.toNat_lt b)]
      exact ih e _ _ hl (run_lt _ _ h1 (byteBits_allBits _)) (run_lt _ _ h2 (byteBits_allBits _))

/-! ### the model's table step -/

theorem model_step (c d : Nat) (hc : c < M) (hd : d < 256)
    (hS : Ts.Gen.crcIdxShift = 24) (hK : Ts.Gen.crcIdxMask = 0xFF) (hU : Ts.Gen.crcUpdShift = 8)
    (htab : ∀ i : Fin 256, Ts.Gen.crcTable[i.val]? = some (run 0 (byteBits i.val))) :
    Ts.Crc.step c d = .ok (run c (byteBits d)) := by
  have hhi : c >>> 24 < 256 := by rw [Nat.shiftRight_eq_div_pow]; unfold M at hc; omega
  have hx : (c >>> 24) ^^^ d < 256 := Nat.xor_lt_two_pow (n := 8) hhi hd
  have hlo : c % 2^24 < 2^24 := Nat.mod_lt _ (by decide)
  have hmask : ((c >>> 24) ^^^ d) &&& 255 = (c >>> 24) ^^^ d := by
    have := Nat.and_two_pow_sub_one_eq_mod ((c >>> 24) ^^^ d) 8
    rw [show (2^8 - 1 : Nat) = 255 from rfl] at this
    rw [this]; exact Nat.mod_eq_of_lt hx
  have ht : Ts.Crc.tableAt ((c >>> 24) ^^^ d) = .ok (run 0 (byteBits ((c >>> 24) ^^^ d))) := by
    unfold Ts.Crc.tableAt; rw [htab ⟨_, hx⟩]
  have e8 : (c <<< 8) % Ts.Crc.M = iter0 8 (c % 2^24) := by
    rw [iter0_low 8 _ (by unfold M; omega), Nat.shiftLeft_eq]
    unfold Ts.Crc.M; omega
  have hdec : c = ((c >>> 24) <<< 24) ^^^ (c % 2^24) := by
    rw [Nat.shiftLeft_eq, Nat.mul_comm, xor_eq_add 24 _ _ hlo, Nat.shiftRight_eq_div_pow]; omega
  have hmodel : Ts.Crc.step c d = .ok (((c <<< 8) % Ts.Crc.M) ^^^ run 0 (byteBits ((c >>> 24) ^^^ d))) := by
    unfold Ts.Crc.step
    rw [hS, hK, hU]
    show (Ts.Crc.tableAt (((c >>> 24) ^^^ d) &&& 255) >>= fun t => pure (((c <<< 8) % Ts.Crc.M) ^^^ t)) = _
    rw [hmask, ht]
    rfl
  have key : iter0 8 (c % 2^24) ^^^ run 0 (byteBits ((c >>> 24) ^^^ d)) = run c (byteBits d) := by
    rw [run_byte 0 _ (by unfold M; omega) hx, Nat.zero_xor, run_byte c d hc hd,
      ← iter0_lin 8 _ _ (by unfold M; omega) (shl24_lt _ hx), Nat.shiftLeft_xor_distrib]
    generalize hA : (c >>> 24) <<< 24 = A at hdec ⊢
    generalize d <<< 24 = D
    generalize c % 2^24 = L at hdec ⊢
    rw [hdec]
    apply congrArg (iter0 8)
    ac_rfl
  rw [hmodel, e8, key]

attribute [local irreducible] Ts.Crc.step in
theorem sum32From_cons (c : Nat) (a : UInt8) (m : Bytes) :
    Ts.Crc.sum32From c (a :: m) = (Ts.Crc.step c a.toNat >>= fun c' => Ts.Crc.sum32From c' m) := rfl

theorem model_sum32From (data : Bytes) (c : Nat) (hc : c < M)
    (hS : Ts.Gen.crcIdxShift = 24) (hK : Ts.Gen.crcIdxMask = 0xFF) (hU : Ts.Gen.crcUpdShift = 8)
    (htab : ∀ i : Fin 256, Ts.Gen.crcTable[i.val]? = some (run 0 (byteBits i.val))) :
    Ts.Crc.sum32From c data = .ok (crcFrom c data) := by
  induction data generalizing c with
  | nil => rfl
  | cons a m ih =>
    rw [sum32From_cons, model_step c a.toNat hc (UInt8.toNat_lt a) hS hK hU htab, crcFrom_cons, R.ok_bind]
    exact ih _ (run_lt _ _ hc (byteBits_allBits _))

/-! ### a section followed by its CRC -/

theorem bits_be32 (v : Nat) (hv : v < M) :
    (bits (be32 v)).length = 32 ∧ val (bits (be32 v)) = v := by
  constructor
  · rw [bits_length]; rfl
  · simp only [be32, bits_cons, bits_nil, List.append_nil, val_append, List.length_append,
      byteBits_length, UInt8.toNat_ofNat']
    rw [val_byteBits _ (Nat.mod_lt _ (by decide)), val_byteBits _ (Nat.mod_lt _ (by decide)),
      val_byteBits _ (Nat.mod_lt _ (by decide)), val_byteBits _ (Nat.mod_lt _ (by decide))]
    simp only [Nat.shiftRight_eq_div_pow]
    unfold M at hv
    omega

theorem crcFrom_be32_self (c : Nat) (hc : c < M) : crcFrom c (be32 c) = 0 := by
  obtain ⟨hl, hv⟩ := bits_be32 c hc
  unfold crcFrom
  rw [run_feed _ c (bits_allBits _) (by omega) hc, hl, hv]
  simp [iter0_zero]

/-! ### bit positions -/

theorem getD_drop (L : List Nat) (n j : Nat) : (L.drop n).getD j 0 = L.getD (n + j) 0 := by
  simp [List.getD_eq_getElem?_getD, List.getElem?_drop]
theorem getD_take_lt (L : List Nat) (n j : Nat) (h : j < n) : (L.take n).getD j 0 = L.getD j 0 := by
  simp [List.getD_eq_getElem?_getD, h]
theorem getD_take_ge (L : List Nat) (n j : Nat) (h : n ≤ j) : (L.take n).getD j 0 = 0 := by
  have : ¬ j < n := by omega
  simp [List.getD_eq_getElem?_getD, List.getElem?_take, this]
theorem getD_ge (L : List Nat) (j : Nat) (h : L.length ≤ j) : L.getD j 0 = 0 := by
  simp [List.getD_eq_getElem?_getD, List.getElem?_eq_none h]
theorem getD_append_lt (A B : List Nat) (j : Nat) (h : j < A.length) : (A ++ B).getD j 0 = A.getD j 0 := by
  simp [List.getD_eq_getElem?_getD, List.getElem?_append_left h]
theorem getD_append_ge (A B : List Nat) (j : Nat) (h : A.length ≤ j) :
    (A ++ B).getD j 0 = B.getD (j - A.length) 0 := by
  simp [List.getD_eq_getElem?_getD, List.getElem?_append_right h]

theorem getD_le_one (L : List Nat) (hL : AllBits L) (j : Nat) : L.getD j 0 ≤ 1 := by
  by_cases h : j < L.length
  · have : L.getD j 0 = L[j] := by simp [List.getD_eq_getElem?_getD, h]
    rw [this]; exact hL _ (List.getElem_mem h)
  · rw [getD_ge L j (by omega)]; omega

theorem byteD_nil (k : Nat) : byteD [] k = 0 := by simp [byteD]
theorem byteD_cons_zero (a : UInt8) (m : Bytes) : byteD (a :: m) 0 = a.toNat := by simp [byteD]
theorem byteD_cons_succ (a : UInt8) (m : Bytes) (k : Nat) : byteD (a :: m) (k+1) = byteD m k := by
  simp [byteD]

/-- element `i` of the bit list is bit `7 - i%8` of byte `i/8` -/
theorem bits_getD (e : Bytes) (i : Nat) : (bits e).getD i 0 = bitAt e i := by
  induction e generalizing i with
  | nil => simp [bitAt, byteD_nil]
  | cons a e ih =>
    rw [bits_cons]
    by_cases h : i < 8
    · rw [getD_append_lt _ _ _ (by rw [byteBits_length]; exact h), byteBits_getD _ _ h]
      unfold bitAt
      have e1 : i / 8 = 0 := by omega
      have e2 : i % 8 = i := by omega
      rw [e1, e2, byteD_cons_zero]
    · rw [getD_append_ge _ _ _ (by rw [byteBits_length]; omega), byteBits_length, ih]
      unfold bitAt
      have e1 : i / 8 = (i - 8) / 8 + 1 := by omega
      have e2 : i % 8 = (i - 8) % 8 := by omega
      rw [e1, e2, byteD_cons_succ]

/-! ### error patterns at bit-list level -/

theorem run0_skip (L : List Nat) (n : Nat) (hz : ∀ j, j < n → L.getD j 0 = 0) :
    run 0 L = run 0 (L.drop n) := by
  induction n generalizing L with
  | zero => rfl
  | succ n ih =>
    cases L with
    | nil => rfl
    | cons x L =>
      have hx : x = 0 := by simpa using hz 0 (by omega)
      subst hx
      rw [run_cons, step_zero, List.drop_succ_cons]
      exact ih L (fun j hj => by simpa using hz (j+1) (by omega))

theorem run_skip (L : List Nat) (n c : Nat) (hn : n ≤ L.length) (hz : ∀ j, j < n → L.getD j 0 = 0) :
    run c L = run (iter0 n c) (L.drop n) := by
  induction n generalizing L c with
  | zero => rfl
  | succ n ih =>
    cases L with
    | nil => simp at hn
    | cons x L =>
      have hx : x = 0 := by simpa using hz 0 (by omega)
      subst hx
      rw [run_cons, List.drop_succ_cons, iter0]
      exact ih L _ (by simpa using hn) (fun j hj => by simpa using hz (j+1) (by omega))

/-- a nonzero error pattern confined to a window of 32 bit positions leaves a nonzero register -/
theorem burst_run (L : List Nat) (hL : AllBits L) (s : Nat) (hne : ∃ i, L.getD i 0 = 1)
    (hwin : ∀ i, L.getD i 0 = 1 → s ≤ i ∧ i < s + 32) : run 0 L ≠ 0 := by
  obtain ⟨i, hi⟩ := hne
  have hzero : ∀ j, ¬ (s ≤ j ∧ j < s + 32) → L.getD j 0 = 0 := by
    intro j hj
    have := getD_le_one L hL j
    have h01 : L.getD j 0 = 0 ∨ L.getD j 0 = 1 := by omega
    rcases h01 with h | h
    · exact h
    · exact absurd (hwin j h) hj
  obtain ⟨hi1, hi2⟩ := hwin i hi
  rw [run0_skip L s (fun j hj => hzero j (by omega))]
  have hsplit := List.take_append_drop 32 (L.drop s)
  rw [← hsplit, run_append]
  have hWl : ((L.drop s).take 32).length ≤ 32 := List.length_take_le _ _
  have hWb : AllBits ((L.drop s).take 32) := (hL.drop s).take 32
  rw [run_feed _ 0 hWb hWl (by unfold M; omega), Nat.zero_xor]
  have hv0 : val ((L.drop s).take 32) ≠ 0 := by
    apply val_ne_zero _ (i - s)
    rw [getD_take_lt _ _ _ (by omega), getD_drop]
    have : s + (i - s) = i := by omega
    rw [this]; exact hi
  have hvlt := val_lt _ hWb
  generalize hW : (L.drop s).take 32 = W at *
  have hc1 : val W <<< (32 - W.length) < M := by
    rw [Nat.shiftLeft_eq]
    have : val W * 2^(32 - W.length) < 2^W.length * 2^(32 - W.length) :=
      Nat.mul_lt_mul_of_pos_right hvlt (Nat.two_pow_pos _)
    rw [← Nat.pow_add] at this
    have e : W.length + (32 - W.length) = 32 := by omega
    rw [e] at this; unfold M; omega
  have hc0 : val W <<< (32 - W.length) ≠ 0 := by
    rw [Nat.shiftLeft_eq]
    have := Nat.two_pow_pos (32 - W.length)
    exact Nat.mul_ne_zero hv0 (by omega)
  have hr := iter0_ne_zero W.length _ hc1 hc0
  have hrl := iter0_lt W.length _ hc1
  rw [run_zeros _ ((L.drop s).drop 32)]
  · exact iter0_ne_zero _ _ hrl hr
  · intro j
    rw [getD_drop, getD_drop]
    exact hzero _ (by omega)

/-! ### two isolated bits -/

def T31 : Nat := 2147483648

/-- `ordLoop n c`: none of the next `n` zero-input clockings of `c` hits `2^31` -/
def ordLoop : Nat → Nat → Bool
  | 0, _ => true
  | n+1, c => match step c 0 with
    | 0 => true
    | c'+1 => (c'+1 != T31) && ordLoop n (c'+1)

theorem ordLoop_sound (n c : Nat) (h : ordLoop n c = true) :
    ∀ k, 1 ≤ k → k ≤ n → iter0 k c ≠ T31 := by
  induction n generalizing c with
  | zero => intro k h1 h2; omega
  | succ n ih =>
    intro k h1 h2
    obtain ⟨k', rfl⟩ : ∃ k', k = k' + 1 := ⟨k - 1, by omega⟩
    rw [iter0]
    unfold ordLoop at h
    cases hs : step c 0 with
    | zero => rw [iter0_zero]; decide
    | succ c' =>
      rw [hs] at h
      simp only [Bool.and_eq_true, bne_iff_ne, ne_eq] at h
      cases k' with
      | zero => exact h.1
      | succ k'' => exact ih _ h.2 (k''+1) (by omega) (by omega)

theorem step_T31 : step T31 0 = poly := by decide
theorem step_zero_one : step 0 1 = poly := by decide

/-- exactly two set bits `k = q - p` positions apart: nonzero register provided `x^k ≠ 1 (mod g)`,
here in the form "`k` zero-input clocks do not map `2^31` to itself" -/
theorem double_run (L : List Nat) (hL : AllBits L) (p q : Nat) (hpq : p < q)
    (hp : L.getD p 0 = 1) (hq : L.getD q 0 = 1) (honly : ∀ i, L.getD i 0 = 1 → i = p ∨ i = q)
    (hord : iter0 (q - p) T31 ≠ T31) : run 0 L ≠ 0 := by
  have hzero : ∀ j, j ≠ p → j ≠ q → L.getD j 0 = 0 := by
    intro j h1 h2
    have := getD_le_one L hL j
    have h01 : L.getD j 0 = 0 ∨ L.getD j 0 = 1 := by omega
    rcases h01 with h | h
    · exact h
    · rcases honly j h with h | h <;> contradiction
  have hqlen : q < L.length := by
    apply Classical.byContradiction; intro hn
    rw [getD_ge L q (by omega)] at hq; omega
  rw [run0_skip L p (fun j hj => hzero j (by omega) (by omega))]
  -- first set bit
  cases hD : L.drop p with
  | nil =>
    have := congrArg List.length hD
    simp at this; omega
  | cons x D =>
    have hDg : ∀ j, D.getD j 0 = L.getD (p + 1 + j) 0 := by
      intro j
      have := getD_drop L p (j+1)
      rw [hD, List.getD_cons_succ] at this
      rw [this]; congr 1; omega
    have hx : x = 1 := by
      have := getD_drop L p 0
      rw [hD, List.getD_cons_zero, Nat.add_zero, hp] at this; exact this
    subst hx
    have hDlen : D.length = L.length - p - 1 := by
      have := congrArg List.length hD
      simp at this; omega
    rw [run_cons, step_zero_one, ← step_T31]
    -- k-1 zeros
    have hk : q - p = (q - p - 1) + 1 := by omega
    rw [run_skip D (q - p - 1) _ (by omega) (fun j hj => by rw [hDg]; exact hzero _ (by omega) (by omega))]
    have e1 : iter0 (q - p - 1) (step T31 0) = iter0 (q - p) T31 := by
      conv => rhs; rw [hk, iter0]
    rw [e1]
    -- second set bit
    cases hE : D.drop (q - p - 1) with
    | nil =>
      have := congrArg List.length hE
      simp at this; omega
    | cons y E =>
      have hy : y = 1 := by
        have := getD_drop D (q - p - 1) 0
        rw [hE, List.getD_cons_zero, Nat.add_zero, hDg] at this
        have e : p + 1 + (q - p - 1) = q := by omega
        rw [e, hq] at this; exact this
      subst hy
      have hEz : ∀ j, E.getD j 0 = 0 := by
        intro j
        have := getD_drop D (q - p - 1) (j+1)
        rw [hE, List.getD_cons_succ, hDg] at this
        rw [this]; exact hzero _ (by omega) (by omega)
      have hT : T31 < M := by decide
      have hlt : iter0 (q - p) T31 < M := iter0_lt _ _ hT
      rw [run_cons, run_zeros _ E hEz, step_top _ 1 hlt (by omega)]
      apply iter0_ne_zero
      · exact step_lt _ _ (by omega) (xor_lt_M _ _ hlt (by decide))
      · have h0 := iter0_ne_zero 1 (iter0 (q - p) T31 ^^^ 1 <<< 31) (xor_lt_M _ _ hlt (by decide))
          (fun h => hord (eq_of_xor_eq_zero _ _ h))
        exact h0

/-! ### concrete error patterns -/

theorem xor_ne_self (a b : Nat) (hb : b ≠ 0) : a ^^^ b ≠ a := by
  intro h
  have : a ^^^ (a ^^^ b) = b := by rw [← Nat.xor_assoc, Nat.xor_self, Nat.zero_xor]
  rw [h, Nat.xor_self] at this
  exact hb this.symm

theorem xorBytes_length (m e : Bytes) (hl : e.length = m.length) : (xorBytes m e).length = m.length := by
  simp [xorBytes, List.length_zipWith, hl]

theorem singleBit_length (n p : Nat) : (singleBit n p).length = n := by simp [singleBit]

theorem byteD_singleBit (n p k : Nat) :
    byteD (singleBit n p) k = if k < n ∧ k = p / 8 then (128 >>> (p % 8)) % 256 else 0 := by
  unfold byteD singleBit
  rw [List.getD_eq_getElem?_getD, List.getElem?_map]
  by_cases hk : k < n
  · rw [List.getElem?_range hk]
    by_cases h2 : k = p / 8
    · have hc : k < n ∧ k = p / 8 := ⟨hk, h2⟩
      rw [if_pos hc]; simp [h2]
    · have hc : ¬ (k < n ∧ k = p / 8) := fun hh => h2 hh.2
      rw [if_neg hc]; simp [h2]
  · rw [List.getElem?_eq_none (by simpa using hk)]
    simp [hk]

theorem bit_of_mask_fin : ∀ a b : Fin 8,
    ((((128 >>> a.val) % 256) >>> (7 - b.val)) % 2) = if a = b then 1 else 0 := by decide

theorem bitAt_singleBit (n p i : Nat) (hp : p < 8 * n) :
    bitAt (singleBit n p) i = if i = p then 1 else 0 := by
  unfold bitAt
  rw [byteD_singleBit]
  by_cases h : i / 8 = p / 8
  · have h1 : i / 8 < n ∧ i / 8 = p / 8 := ⟨by omega, h⟩
    rw [if_pos h1]
    have := bit_of_mask_fin ⟨p % 8, Nat.mod_lt _ (by decide)⟩ ⟨i % 8, Nat.mod_lt _ (by decide)⟩
    simp only [Fin.mk.injEq] at this
    rw [this]
    by_cases h2 : i = p
    · subst h2; simp
    · have : ¬ p % 8 = i % 8 := by omega
      simp [h2, this]
  · have h1 : ¬ (i / 8 < n ∧ i / 8 = p / 8) := fun hh => h hh.2
    have h2 : ¬ i = p := fun hh => h (by rw [hh])
    rw [if_neg h1, if_neg h2]
    simp

theorem bitAt_le_one (e : Bytes) (i : Nat) : bitAt e i ≤ 1 := by unfold bitAt; omega

theorem byteD_xorBytes (a b : Bytes) (hl : b.length = a.length) (k : Nat) :
    byteD (xorBytes a b) k = byteD a k ^^^ byteD b k := by
  induction a generalizing b k with
  | nil =>
    cases b with
    | nil => simp [xorBytes, byteD_nil]
    | cons _ _ => simp at hl
  | cons x a ih =>
    cases b with
    | nil => simp at hl
    | cons y b =>
      have : xorBytes (x :: a) (y :: b) = (x ^^^ y) :: xorBytes a b := rfl
      rw [this]
      cases k with
      | zero => simp [byteD_cons_zero]
      | succ k =>
        rw [byteD_cons_succ, byteD_cons_succ, byteD_cons_succ]
        exact ih b (by simpa using hl) k

theorem bitAt_xorBytes (a b : Bytes) (hl : b.length = a.length) (i : Nat) :
    bitAt (xorBytes a b) i = bitAt a i ^^^ bitAt b i := by
  unfold bitAt
  rw [byteD_xorBytes a b hl, Nat.shiftRight_xor_distrib]
  have := Nat.xor_mod_two_pow (a := byteD a (i / 8) >>> (7 - i % 8)) (b := byteD b (i / 8) >>> (7 - i % 8)) (n := 1)
  simpa using this

theorem byte_has_bit_fin : ∀ b : Fin 256, b.val ≠ 0 → ∃ j : Fin 8, (b.val >>> (7 - j.val)) % 2 = 1 := by
  decide +kernel

theorem bitAt_cons_lt (a : UInt8) (e : Bytes) (j : Nat) (h : j < 8) :
    bitAt (a :: e) j = (a.toNat >>> (7 - j)) % 2 := by
  unfold bitAt
  have e1 : j / 8 = 0 := by omega
  have e2 : j % 8 = j := by omega
  rw [e1, e2, byteD_cons_zero]

theorem bitAt_cons_add (a : UInt8) (e : Bytes) (i : Nat) : bitAt (a :: e) (i + 8) = bitAt e i := by
  unfold bitAt
  have e1 : (i + 8) / 8 = i / 8 + 1 := by omega
  have e2 : (i + 8) % 8 = i % 8 := by omega
  rw [e1, e2, byteD_cons_succ]

/-- a pattern with a nonzero byte has a set bit -/
theorem exists_bit_of_nonzero (e : Bytes) (h : ∃ b ∈ e, b ≠ 0) : ∃ i, bitAt e i = 1 := by
  induction e with
  | nil => obtain ⟨b, hb, _⟩ := h; simp at hb
  | cons a e ih =>
    by_cases ha : a = 0
    · obtain ⟨b, hb, hb0⟩ := h
      rcases List.mem_cons.1 hb with rfl | hb
      · exact absurd ha hb0
      · obtain ⟨i, hi⟩ := ih ⟨b, hb, hb0⟩
        exact ⟨i + 8, by rw [bitAt_cons_add]; exact hi⟩
    · have hne : a.toNat ≠ 0 := by
        intro h0; apply ha
        exact UInt8.toNat_inj.1 (by simpa using h0)
      obtain ⟨j, hj⟩ := byte_has_bit_fin ⟨a.toNat, UInt8.toNat_lt a⟩ hne
      exact ⟨j.val, by rw [bitAt_cons_lt _ _ _ j.isLt]; exact hj⟩

/-! ### the finite order obligation: `x^k ≢ 1 (mod g)` for `1 ≤ k < 2^16` -/

theorem ordLoop_ok : ordLoop 65535 T31 = true := by decide +kernel

theorem order_gt_2_16 (k : Nat) (h1 : 1 ≤ k) (h2 : k < 65536) : iter0 k T31 ≠ T31 :=
  ordLoop_sound 65535 T31 ordLoop_ok k h1 (by omega)

end Ts.CrcSpec
