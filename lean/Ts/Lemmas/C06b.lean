import Ts.Lemmas.Demux
import Ts.Lemmas.DemuxB
import Ts.Model.App
/-!
# Lemmas for the trace-level forms of C06 / C07

* `logSem sem`: ANY handler semantics wrapped so that every call of `consume` is recorded
  (`(handler state it was called on, packet)`) in an extra context component; `pushSpec_logSem`:
  the wrapped run is the original run plus the list `deliveries sem tc pks`.
* `deliveries_packets`, `deliveries_split`: that list is exactly the non-flagged packets, in order,
  each paired with the handler registered for its PID when it arrives.
* `OthersKeep`, `OwnMeets`, `CtxIrrelevant`, `get_eq_along`: run-relative interleaving independence.
* `chunkAt`, `pktAt`, `framePure_chunks_eq`: `frame` as a `filterMap` over the chunk indices.
-/
namespace Ts.Demux
open Ts Ts.Spec

variable {H C : Type}

/-! ### the logging wrapper -/

/-- `sem` with every `consume` call recorded: the context gets a second component, the list of
`(handler state consume was called on, packet it was given)`, oldest first.  `consume` and
`construct` behave exactly as in `sem` on the first component (and panic exactly when `sem` does);
`construct` does not touch the log. -/
def logSem (sem : Sem H C) : Sem H (C × List (H × Pk)) where
  consume h cl pk :=
    match sem.consume h cl.1 pk with
    | .panic s => .panic s
    | .ok (h', c', chg) => .ok (h', (c', cl.2 ++ [(h, pk)]), chg)
  construct cl pid :=
    match sem.construct cl.1 pid with
    | .panic s => .panic s
    | .ok (h, c') => .ok (h, (c', cl.2))

/-- the handler registered for `pid` at the moment a packet of that PID arrives in state `tc`:
the content of slot `pid` after lookup-or-construct (`none` only if `construct` panics) -/
def registeredFor (sem : Sem H C) (tc : Tab H × C) (pid : Nat) : Option H :=
  match ensure sem tc.1 tc.2 pid with
  | .ok (t1, _) => t1.get pid
  | .panic _ => none

/-- what one step delivers: nothing for a flagged packet, otherwise the packet to the handler
registered for its PID -/
def stepDeliveries (sem : Sem H C) (tc : Tab H × C) (pk : Pk) : List (H × Pk) :=
  if pk.flagged then []
  else match registeredFor sem tc pk.pid with
    | some h => [(h, pk)]
    | none => []

/-- the delivery sequence of a run of `pushSpec sem tc pks` (up to the first panic) -/
def deliveries (sem : Sem H C) : Tab H × C → List Pk → List (H × Pk)
  | _, [] => []
  | tc, pk :: pks =>
    stepDeliveries sem tc pk ++
      (match specStep sem tc pk with
       | .ok tc' => deliveries sem tc' pks
       | .panic _ => [])

theorem ensure_logSem (sem : Sem H C) (t : Tab H) (c : C) (l : List (H × Pk)) (pid : Nat) :
    ensure (logSem sem) t (c, l) pid = (ensure sem t c pid >>= fun r => R.ok (r.1, (r.2, l))) := by
  unfold ensure
  cases hc : t.contains pid with
  | true => rfl
  | false =>
    simp only [Bool.false_eq_true, if_false]
    show ((logSem sem).construct (c, l) pid >>= _) = _
    unfold logSem
    simp only []
    cases sem.construct c pid with
    | panic s => rfl
    | ok r => rfl

theorem specStep_logSem (sem : Sem H C) (t : Tab H) (c : C) (l : List (H × Pk)) (pk : Pk) :
    specStep (logSem sem) (t, (c, l)) pk =
      (specStep sem (t, c) pk >>= fun r => R.ok (r.1, (r.2, l ++ stepDeliveries sem (t, c) pk))) := by
  rw [specStep_eq, specStep_eq, ensure_logSem]
  unfold stepDeliveries registeredFor
  cases hE : ensure sem t c pk.pid with
  | panic s => rfl
  | ok r =>
    obtain ⟨t1, c1⟩ := r
    simp only [R.ok_bind]
    cases hf : pk.flagged with
    | true => simp only [if_true, List.append_nil, R.ok_bind]
    | false =>
      simp only [Bool.false_eq_true, if_false]
      cases hg : t1.get pk.pid with
      | none => rfl
      | some h =>
        simp only []
        show ((logSem sem).consume h (c1, l) pk >>= _) = _
        unfold logSem
        simp only []
        cases sem.consume h c1 pk with
        | panic s => rfl
        | ok x => rfl

/-- the wrapped run = the original run, plus the delivery sequence appended to the log -/
theorem pushSpec_logSem (sem : Sem H C) : ∀ (pks : List Pk) (t : Tab H) (c : C) (l : List (H × Pk)),
    pushSpec (logSem sem) (t, (c, l)) pks =
      (pushSpec sem (t, c) pks >>= fun r => R.ok (r.1, (r.2, l ++ deliveries sem (t, c) pks))) := by
  intro pks
  induction pks with
  | nil => intro t c l; simp only [pushSpec_nil, deliveries, List.append_nil, R.ok_bind]
  | cons pk pks ih =>
    intro t c l
    rw [pushSpec_cons, pushSpec_cons, specStep_logSem]
    unfold deliveries
    cases hs : specStep sem (t, c) pk with
    | panic s => rfl
    | ok r =>
      obtain ⟨t1, c1⟩ := r
      simp only [R.ok_bind]
      rw [ih, List.append_assoc]

/-- on a successful step an unflagged packet is delivered to exactly one handler -/
theorem stepDeliveries_of_ok (sem : Sem H C) (tc tc' : Tab H × C) (pk : Pk)
    (h : specStep sem tc pk = .ok tc') :
    (pk.flagged = true ∧ stepDeliveries sem tc pk = []) ∨
    (pk.flagged = false ∧ ∃ hd, registeredFor sem tc pk.pid = some hd ∧
      stepDeliveries sem tc pk = [(hd, pk)]) := by
  obtain ⟨t, c⟩ := tc
  unfold stepDeliveries
  cases hf : pk.flagged with
  | true => exact Or.inl ⟨rfl, by simp⟩
  | false =>
    refine Or.inr ⟨rfl, ?_⟩
    simp only [Bool.false_eq_true, if_false]
    rw [specStep_eq] at h
    unfold registeredFor
    cases hE : ensure sem t c pk.pid with
    | panic s => rw [hE] at h; cases h
    | ok r =>
      obtain ⟨t1, c1⟩ := r
      have hc := ensure_contains sem t c pk.pid t1 c1 hE
      obtain ⟨hd, hh⟩ := (Tab.contains_eq_true_iff _ _).1 hc
      exact ⟨hd, hh, by simp only [hh]⟩

/-- the packets delivered by a successful run are exactly the unflagged ones, in stream order -/
theorem deliveries_packets (sem : Sem H C) : ∀ (pks : List Pk) (tc tc' : Tab H × C),
    pushSpec sem tc pks = .ok tc' →
    (deliveries sem tc pks).map (·.2) = pks.filter (fun pk => !pk.flagged) := by
  intro pks
  induction pks with
  | nil => intro tc tc' _; rfl
  | cons pk pks ih =>
    intro tc tc' h
    rw [pushSpec_cons] at h
    unfold deliveries
    cases hs : specStep sem tc pk with
    | panic s => rw [hs] at h; cases h
    | ok tc1 =>
      rw [hs] at h
      simp only [R.ok_bind] at h
      simp only [List.map_append]
      rw [ih tc1 tc' h]
      rcases stepDeliveries_of_ok sem tc tc1 pk hs with ⟨hf, hd⟩ | ⟨hf, hd, _, hd'⟩
      · rw [hd, List.filter_cons_of_neg (by simp [hf])]; rfl
      · rw [hd', List.filter_cons_of_pos (by simp [hf])]; rfl

/-- the delivery sequence of a run over `pre ++ pk :: post`, split at `pk` -/
theorem deliveries_split (sem : Sem H C) : ∀ (pre : List Pk) (pk : Pk) (post : List Pk)
    (tc tc' : Tab H × C), pk.flagged = false →
    pushSpec sem tc (pre ++ pk :: post) = .ok tc' →
    ∃ tck tck' hd, pushSpec sem tc pre = .ok tck ∧ registeredFor sem tck pk.pid = some hd ∧
      specStep sem tck pk = .ok tck' ∧
      deliveries sem tc (pre ++ pk :: post) =
        deliveries sem tc pre ++ (hd, pk) :: deliveries sem tck' post := by
  intro pre
  induction pre with
  | nil =>
    intro pk post tc tc' hf h
    rw [List.nil_append, pushSpec_cons] at h
    cases hs : specStep sem tc pk with
    | panic s => rw [hs] at h; cases h
    | ok tc1 =>
      rcases stepDeliveries_of_ok sem tc tc1 pk hs with ⟨hf', _⟩ | ⟨_, hd, hr, hd'⟩
      · rw [hf] at hf'; cases hf'
      · refine ⟨tc, tc1, hd, rfl, hr, hs, ?_⟩
        simp only [List.nil_append, deliveries, hs, hd']
        rfl
  | cons x pre ih =>
    intro pk post tc tc' hf h
    rw [List.cons_append, pushSpec_cons] at h
    cases hs : specStep sem tc x with
    | panic s => rw [hs] at h; cases h
    | ok tc1 =>
      rw [hs] at h
      simp only [R.ok_bind] at h
      obtain ⟨tck, tck', hd, h1, h2, h3, h4⟩ := ih pk post tc1 tc' hf h
      refine ⟨tck, tck', hd, ?_, h2, h3, ?_⟩
      · rw [pushSpec_cons, hs]; exact h1
      · simp only [List.cons_append, deliveries, hs]
        rw [h4, List.append_assoc]

/-! ### run-relative interleaving independence -/

/-- along the run `pushSpec sem tc pks` (up to the first panic), no step on a packet whose PID is
not `p` changes slot `p` -/
def OthersKeep (sem : Sem H C) (p : Nat) : Tab H × C → List Pk → Prop
  | _, [] => True
  | tc, pk :: pks =>
    match specStep sem tc pk with
    | .panic _ => True
    | .ok tc' => (pk.pid ≠ p → tc'.1.get p = tc.1.get p) ∧ OthersKeep sem p tc' pks

/-- along the run `pushSpec sem tc pks` (up to the first panic), whenever a packet of PID `p`
arrives slot `p` is occupied, and if the packet is not flagged the handler met satisfies `P` -/
def OwnMeets (sem : Sem H C) (p : Nat) (P : H → Prop) : Tab H × C → List Pk → Prop
  | _, [] => True
  | tc, pk :: pks =>
    (pk.pid = p → ∃ h, tc.1.get p = some h ∧ (pk.flagged = false → P h)) ∧
    match specStep sem tc pk with
    | .panic _ => True
    | .ok tc' => OwnMeets sem p P tc' pks

/-- for handler state `h`: the handler state and the queued changes `consume` returns are the same
for packet `pk` in any context and packet `pk'` in any context (the returned contexts may differ) -/
def ConsumeAgrees (sem : Sem H C) (h : H) (pk pk' : Pk) : Prop :=
  ∀ c c' r r', sem.consume h c pk = .ok r → sem.consume h c' pk' = .ok r' →
    r.1 = r'.1 ∧ r.2.2 = r'.2.2

/-- for handler state `h` and packet `pk`, the handler state and the queued changes `consume`
returns do not depend on the context it is given (the returned context may) -/
def CtxIrrelevant (sem : Sem H C) (h : H) (pk : Pk) : Prop := ConsumeAgrees sem h pk pk

/-- a packet with its stream offset erased -/
def Pk.noOff (pk : Pk) : Pk := { pk with off := 0 }

theorem Pk.noOff_flagged (a b : Pk) (h : a.noOff = b.noOff) : a.flagged = b.flagged := by
  unfold Pk.noOff at h
  injection h with _ _ _ h4 h5
  unfold Pk.flagged
  rw [h4, h5]

theorem othersKeep_nil (sem : Sem H C) (p : Nat) (tc : Tab H × C) : OthersKeep sem p tc [] := by
  unfold OthersKeep; trivial

theorem othersKeep_cons_iff (sem : Sem H C) (p : Nat) (tc : Tab H × C) (pk : Pk) (pks : List Pk) :
    OthersKeep sem p tc (pk :: pks) ↔
      (match specStep sem tc pk with
       | .panic _ => True
       | .ok tc' => (pk.pid ≠ p → tc'.1.get p = tc.1.get p) ∧ OthersKeep sem p tc' pks) := Iff.rfl

theorem ownMeets_nil (sem : Sem H C) (p : Nat) (P : H → Prop) (tc : Tab H × C) :
    OwnMeets sem p P tc [] := by
  unfold OwnMeets; trivial

theorem ownMeets_cons_iff (sem : Sem H C) (p : Nat) (P : H → Prop) (tc : Tab H × C) (pk : Pk)
    (pks : List Pk) :
    OwnMeets sem p P tc (pk :: pks) ↔
      ((pk.pid = p → ∃ h, tc.1.get p = some h ∧ (pk.flagged = false → P h)) ∧
       (match specStep sem tc pk with
        | .panic _ => True
        | .ok tc' => OwnMeets sem p P tc' pks)) := Iff.rfl

-- The two predicates are Prop-valued recursive functions; on a CONCRETE packet list the elaborator
-- would evaluate the whole run when it normalises such a Prop (looking for binders).  They are
-- therefore sealed; use `othersKeep_nil/_cons_iff`, `ownMeets_nil/_cons_iff`.
attribute [irreducible] OthersKeep OwnMeets

theorem othersKeep_cons (sem : Sem H C) (p : Nat) (tc tc' : Tab H × C) (pk : Pk) (pks : List Pk)
    (hs : specStep sem tc pk = .ok tc') (hK : OthersKeep sem p tc (pk :: pks)) :
    (pk.pid ≠ p → tc'.1.get p = tc.1.get p) ∧ OthersKeep sem p tc' pks := by
  rw [othersKeep_cons_iff, hs] at hK
  exact hK

theorem ownMeets_cons (sem : Sem H C) (p : Nat) (P : H → Prop) (tc tc' : Tab H × C) (pk : Pk)
    (pks : List Pk) (hs : specStep sem tc pk = .ok tc') (hM : OwnMeets sem p P tc (pk :: pks)) :
    (pk.pid = p → ∃ h, tc.1.get p = some h ∧ (pk.flagged = false → P h)) ∧
      OwnMeets sem p P tc' pks := by
  rw [ownMeets_cons_iff, hs] at hM
  exact hM

/-- a run over packets none of which has PID `p`, no step of which changes slot `p` -/
theorem get_of_others_only (sem : Sem H C) (p : Nat) : ∀ (pks : List Pk) (tc tc' : Tab H × C),
    pks.filter (fun pk => pk.pid == p) = [] → OthersKeep sem p tc pks →
    pushSpec sem tc pks = .ok tc' → tc'.1.get p = tc.1.get p := by
  intro pks
  induction pks with
  | nil => intro tc tc' _ _ h; cases h; rfl
  | cons pk pks ih =>
    intro tc tc' hfil hK h
    rw [pushSpec_cons] at h
    cases hs : specStep sem tc pk with
    | panic s => rw [hs] at h; cases h
    | ok tc1 =>
      rw [hs] at h
      simp only [R.ok_bind] at h
      obtain ⟨k1, k2⟩ := othersKeep_cons sem p tc tc1 pk pks hs hK
      by_cases hp : pk.pid = p
      · rw [List.filter_cons_of_pos (by simp [hp])] at hfil; cases hfil
      · rw [List.filter_cons_of_neg (by simp [hp])] at hfil
        rw [ih tc1 tc' hfil k2 h, k1 hp]

/-- one step on packets `pk`, `pk'` of the same PID and flags in two states whose slot holds the same
handler `h` (on which `consume` agrees for the two packets unless they are flagged): the slot
agrees afterwards -/
theorem step_own_agree (sem : Sem H C) (pk pk' : Pk) (h : H) (t1 t2 : Tab H) (c1 c2 : C)
    (tc1' tc2' : Tab H × C) (hpid : pk'.pid = pk.pid) (hfl : pk'.flagged = pk.flagged)
    (hg1 : t1.get pk.pid = some h) (hg2 : t2.get pk.pid = some h)
    (hI : pk.flagged = false → ConsumeAgrees sem h pk pk')
    (hs1 : specStep sem (t1, c1) pk = .ok tc1') (hs2 : specStep sem (t2, c2) pk' = .ok tc2') :
    tc1'.1.get pk.pid = tc2'.1.get pk.pid := by
  have hc1 := (Tab.contains_eq_true_iff t1 pk.pid).2 ⟨h, hg1⟩
  have hg2' : t2.get pk'.pid = some h := by rw [hpid]; exact hg2
  have hc2 := (Tab.contains_eq_true_iff t2 pk'.pid).2 ⟨h, hg2'⟩
  cases hf : pk.flagged with
  | true =>
    rw [specStep_flagged_of_contains sem t1 c1 pk hc1 hf] at hs1
    rw [specStep_flagged_of_contains sem t2 c2 pk' hc2 (by rw [hfl]; exact hf)] at hs2
    cases hs1; cases hs2
    rw [hg1, hg2]
  | false =>
    rw [specStep_consume_of_contains sem t1 c1 pk h hc1 hf hg1] at hs1
    rw [specStep_consume_of_contains sem t2 c2 pk' h hc2 (by rw [hfl]; exact hf) hg2'] at hs2
    cases hk1 : sem.consume h c1 pk with
    | panic s => rw [hk1] at hs1; cases hs1
    | ok r1 =>
      cases hk2 : sem.consume h c2 pk' with
      | panic s => rw [hk2] at hs2; cases hs2
      | ok r2 =>
        rw [hk1] at hs1; rw [hk2] at hs2
        simp only [R.ok_bind] at hs1 hs2
        cases hs1; cases hs2
        obtain ⟨e1, e2⟩ := hI hf c1 c2 r1 r2 hk1 hk2
        simp only []
        rw [e1, e2, hpid]
        apply get_applyChanges_congr
        rw [Tab.get_insert_self, Tab.get_insert_self]

/-- RUN-RELATIVE INTERLEAVING INDEPENDENCE, general form: the own packets of the two runs are
compared through `key` (see `Props.C06.interleaving_independent_along` and `…_mod_off`) -/
theorem get_eq_along {K : Type} (sem : Sem H C) (p : Nat) (P : H → Prop) (key : Pk → K)
    (hkey : ∀ a b, key a = key b → a.flagged = b.flagged)
    (hP : ∀ h pk pk', P h → pk.pid = p → pk.flagged = false → key pk = key pk' →
      ConsumeAgrees sem h pk pk') :
    ∀ (xs ys : List Pk) (tc1 tc2 tc1' tc2' : Tab H × C),
      tc1.1.get p = tc2.1.get p →
      (xs.filter (fun pk => pk.pid == p)).map key = (ys.filter (fun pk => pk.pid == p)).map key →
      OthersKeep sem p tc1 xs → OthersKeep sem p tc2 ys → OwnMeets sem p P tc1 xs →
      pushSpec sem tc1 xs = .ok tc1' → pushSpec sem tc2 ys = .ok tc2' →
      tc1'.1.get p = tc2'.1.get p := by
  intro xs
  induction xs with
  | nil =>
    intro ys tc1 tc2 tc1' tc2' hg hfil _ hK2 _ hr1 hr2
    cases hr1
    have hfil' : ys.filter (fun pk => pk.pid == p) = [] := by
      simp only [List.filter_nil, List.map_nil] at hfil
      exact List.map_eq_nil_iff.1 hfil.symm
    rw [get_of_others_only sem p ys tc2 tc2' hfil' hK2 hr2, hg]
  | cons x xs ih =>
    intro ys tc1 tc2 tc1' tc2' hg hfil hK1 hK2 hM hr1 hr2
    rw [pushSpec_cons] at hr1
    cases hs : specStep sem tc1 x with
    | panic s => rw [hs] at hr1; cases hr1
    | ok tc1m =>
      rw [hs] at hr1
      simp only [R.ok_bind] at hr1
      obtain ⟨k1, k2⟩ := othersKeep_cons sem p tc1 tc1m x xs hs hK1
      obtain ⟨m1, m2⟩ := ownMeets_cons sem p P tc1 tc1m x xs hs hM
      by_cases hp : x.pid = p
      · rw [List.filter_cons_of_pos (by simp [hp]), List.map_cons] at hfil
        obtain ⟨h, hh, hPh⟩ := m1 hp
        -- peel the packets of other PIDs off `ys` until the counterpart of `x` is reached
        clear hK1 hM k1
        induction ys generalizing tc2 with
        | nil => cases hfil
        | cons y ys ihy =>
          rw [pushSpec_cons] at hr2
          cases hs2 : specStep sem tc2 y with
          | panic s => rw [hs2] at hr2; cases hr2
          | ok tc2m =>
            rw [hs2] at hr2
            simp only [R.ok_bind] at hr2
            obtain ⟨j1, j2⟩ := othersKeep_cons sem p tc2 tc2m y ys hs2 hK2
            by_cases hq : y.pid = p
            · rw [List.filter_cons_of_pos (by simp [hq]), List.map_cons] at hfil
              injection hfil with e1 e2
              subst hp
              obtain ⟨t1, c1⟩ := tc1
              obtain ⟨t2, c2⟩ := tc2
              have hstep := step_own_agree sem x y h t1 t2 c1 c2 tc1m tc2m hq (hkey _ _ e1).symm hh
                (by rw [← hg]; exact hh) (fun hf => hP h x y (hPh hf) rfl hf e1) hs hs2
              exact ih ys tc1m tc2m tc1' tc2' hstep e2 k2 j2 m2 hr1 hr2
            · rw [List.filter_cons_of_neg (by simp [hq])] at hfil
              exact ihy tc2m (by rw [j1 hq]; exact hg) hfil j2 hr2
      · rw [List.filter_cons_of_neg (by simp [hp])] at hfil
        exact ih ys tc1m tc2 tc1' tc2' (by rw [k1 hp]; exact hg) hfil k2 hK2 m2 hr1 hr2

/-! ### Boolean checkers for the run-relative predicates (for evaluation on concrete runs) -/

/-- `OthersKeep`, decided with a sound Boolean comparison `eqb` of slot contents (and requiring the
run not to panic) -/
def othersKeepB (sem : Sem H C) (eqb : Option H → Option H → Bool) (p : Nat) :
    Tab H × C → List Pk → Bool
  | _, [] => true
  | tc, pk :: pks =>
    match specStep sem tc pk with
    | .panic _ => false
    | .ok tc' => (pk.pid == p || eqb (tc'.1.get p) (tc.1.get p)) && othersKeepB sem eqb p tc' pks

/-- `OwnMeets`, decided with a Boolean predicate on handlers -/
def ownMeetsB (sem : Sem H C) (pb : H → Bool) (p : Nat) : Tab H × C → List Pk → Bool
  | _, [] => true
  | tc, pk :: pks =>
    (pk.pid != p || (match tc.1.get p with | some h => pk.flagged || pb h | none => false)) &&
    match specStep sem tc pk with
    | .panic _ => false
    | .ok tc' => ownMeetsB sem pb p tc' pks

theorem othersKeep_of_check (sem : Sem H C) (eqb : Option H → Option H → Bool)
    (heq : ∀ a b, eqb a b = true → a = b) (p : Nat) : ∀ (pks : List Pk) (tc : Tab H × C),
    othersKeepB sem eqb p tc pks = true → OthersKeep sem p tc pks := by
  intro pks
  induction pks with
  | nil => intro tc _; exact othersKeep_nil sem p tc
  | cons pk pks ih =>
    intro tc h
    unfold othersKeepB at h
    rw [othersKeep_cons_iff]
    cases hs : specStep sem tc pk with
    | panic s => trivial
    | ok tc' =>
      rw [hs] at h
      simp only [Bool.and_eq_true, Bool.or_eq_true, beq_iff_eq] at h
      refine ⟨fun hp => ?_, ih tc' h.2⟩
      rcases h.1 with e | e
      · exact absurd e hp
      · exact heq _ _ e

theorem ownMeets_of_check (sem : Sem H C) (pb : H → Bool) (P : H → Prop)
    (hpb : ∀ h, pb h = true → P h) (p : Nat) : ∀ (pks : List Pk) (tc : Tab H × C),
    ownMeetsB sem pb p tc pks = true → OwnMeets sem p P tc pks := by
  intro pks
  induction pks with
  | nil => intro tc _; exact ownMeets_nil sem p P tc
  | cons pk pks ih =>
    intro tc h
    unfold ownMeetsB at h
    rw [ownMeets_cons_iff]
    simp only [Bool.and_eq_true, Bool.or_eq_true, bne_iff_ne, ne_eq] at h
    refine ⟨fun hp => ?_, ?_⟩
    · rcases h.1 with e | e
      · exact absurd hp e
      · cases hg : tc.1.get p with
        | none => rw [hg] at e; cases e
        | some hd =>
          rw [hg] at e
          simp only [Bool.or_eq_true] at e
          refine ⟨hd, rfl, fun hf => ?_⟩
          rcases e with e | e
          · rw [hf] at e; cases e
          · exact hpb hd e
    · cases hs : specStep sem tc pk with
      | panic s => trivial
      | ok tc' =>
        have h2 := h.2
        rw [hs] at h2
        exact ih tc' h2

/-! ### the application's PES slots are context-irrelevant -/

/-- a PES handler of the concrete application: its next state is `PesFilter.consume` of its filter
state and the packet BYTES, it queues no change; the context only receives the callbacks -/
theorem pes_consumeAgrees (tag : Nat) (f : PesFilter.F) (pk pk' : Pk) (hb : pk.bytes = pk'.bytes) :
    ConsumeAgrees App.sem (.pes tag f) pk pk' := by
  intro c c' r r' h1 h2
  have key : ∀ (pk : Pk) (c : App.Ctx) (r : App.Handler × App.Ctx × List (Change App.Handler)),
      App.sem.consume (.pes tag f) c pk = .ok r →
      ∃ f' evs, PesFilter.consume f pk.bytes = .ok (f', evs) ∧ r.1 = .pes tag f' ∧ r.2.2 = [] := by
    intro pk c r h
    have h : App.consume (.pes tag f) c pk = .ok r := h
    unfold App.consume at h
    simp only [] at h
    cases hk : PesFilter.consume f pk.bytes with
    | panic s => rw [hk] at h; cases h
    | ok x =>
      obtain ⟨f', evs⟩ := x
      rw [hk] at h
      simp only [R.ok_bind] at h
      cases he : App.esEvents c.cfg.touch tag pk.bytes pk.off c evs with
      | panic s => rw [he] at h; cases h
      | ok c1 =>
        rw [he] at h
        simp only [R.ok_bind, R.pure_eq] at h
        cases h
        exact ⟨f', evs, rfl, rfl, rfl⟩
  obtain ⟨f1, e1, a1, a2, a3⟩ := key pk c r h1
  obtain ⟨f2, e2, b1, b2, b3⟩ := key pk' c' r' h2
  rw [← hb, a1] at b1
  injection b1 with b1
  injection b1 with b1 _
  subst b1
  exact ⟨by rw [a2, b2], by rw [a3, b3]⟩

theorem pes_ctxIrrelevant (tag : Nat) (f : PesFilter.F) (pk : Pk) :
    CtxIrrelevant App.sem (.pes tag f) pk := pes_consumeAgrees tag f pk pk rfl

/-- Boolean test: the handler is a PES handler -/
def isPesHandler : App.Handler → Bool
  | .pes _ _ => true
  | _ => false

/-- a sound Boolean comparison of slot contents, complete on empty and PES slots -/
def slotEqb : Option App.Handler → Option App.Handler → Bool
  | none, none => true
  | some (.pes a f), some (.pes b g) => a == b && decide (f = g)
  | _, _ => false

theorem slotEqb_sound (a b : Option App.Handler) (h : slotEqb a b = true) : a = b := by
  unfold slotEqb at h
  split at h
  · rfl
  · simp only [Bool.and_eq_true, beq_iff_eq, decide_eq_true_eq] at h
    rw [h.1, h.2]
  · cases h

/-! ### `frame` as a `filterMap` over the chunk indices -/

/-- the `k`-th 188-byte chunk of `buf`: bytes `buf[188k .. 188k+188)` -/
def chunkAt (buf : Bytes) (k : Nat) : Bytes := (buf.drop (188 * k)).take 188

/-- the packet `push` makes of the `k`-th chunk of `buf` (`base` = bytes pushed before), if its
first byte is the sync byte: header fields read bit by bit (`readBits`, ISO/IEC 13818-1 2.4.3.2) -/
def pktAt (buf : Bytes) (base k : Nat) : Option Pk :=
  let ch := chunkAt buf k
  if byteD ch 0 = 0x47 then
    some { bytes := ch, off := base + 188 * k, pid := readBits ch 11 13,
           tei := readBits ch 8 1 == 1, scrambled := readBits ch 24 2 != 0 }
  else none

theorem chunkAt_length (buf : Bytes) (k : Nat) (hk : k < buf.length / 188) :
    (chunkAt buf k).length = 188 := by
  unfold chunkAt
  rw [List.length_take, List.length_drop]
  have : 188 * (k + 1) ≤ buf.length := by
    have := Nat.mul_le_mul_left 188 (Nat.succ_le_of_lt hk)
    have := Nat.mul_div_le buf.length 188
    omega
  omega

theorem chunkAt_drop (buf : Bytes) (k : Nat) : chunkAt (buf.drop 188) k = chunkAt buf (k + 1) := by
  unfold chunkAt
  rw [List.drop_drop]
  have : 188 + 188 * k = 188 * (k + 1) := by omega
  rw [this]

theorem pkOf_eq_pktAt (buf : Bytes) (base k : Nat) (hk : k < buf.length / 188) :
    pkOf (chunkAt buf k) (base + 188 * k) = pktAt buf base k := by
  unfold pkOf pktAt
  simp only []
  rw [(Props.C12.scrambling_exact (chunkAt buf k) (chunkAt_length buf k hk)).2.2]

theorem filterMap_congr' {α β : Type} (f g : α → Option β) : ∀ (l : List α),
    (∀ x ∈ l, f x = g x) → l.filterMap f = l.filterMap g := by
  intro l
  induction l with
  | nil => intro _; rfl
  | cons a l ih =>
    intro h
    rw [List.filterMap_cons, List.filterMap_cons, h a List.mem_cons_self,
      ih (fun x hx => h x (List.mem_cons_of_mem _ hx))]

theorem framePure_chunks_aux : ∀ (n : Nat) (buf : Bytes) (base : Nat), buf.length / 188 = n →
    framePure (chunks buf) base =
      (List.range n).filterMap (fun k => pkOf (chunkAt buf k) (base + 188 * k)) := by
  intro n
  induction n with
  | zero =>
    intro buf base h
    rw [chunks_short buf (by omega)]; rfl
  | succ n ih =>
    intro buf base h
    have hl : ¬ buf.length < 188 := by
      intro hlt
      rw [Nat.div_eq_of_lt hlt] at h; cases h
    rw [chunks_eq buf]
    simp only [hl, if_false]
    have hd : (buf.drop 188).length / 188 = n := by rw [List.length_drop]; omega
    have e0 : chunkAt buf 0 = buf.take 188 := by unfold chunkAt; simp
    rw [List.range_succ_eq_map, List.filterMap_cons, List.filterMap_map]
    have hrest : framePure (chunks (buf.drop 188)) (base + 188) =
        List.filterMap ((fun k => pkOf (chunkAt buf k) (base + 188 * k)) ∘ Nat.succ) (List.range n) := by
      rw [ih (buf.drop 188) (base + 188) hd]
      apply filterMap_congr'
      intro k _
      simp only [Function.comp]
      rw [chunkAt_drop]
      have : base + 188 + 188 * k = base + 188 * (k + 1) := by omega
      rw [this]
    unfold framePure
    rw [hrest, e0]
    simp only [Nat.mul_zero, Nat.add_zero]
    cases pkOf (List.take 188 buf) base <;> rfl

/-- the packets of `frame buf base`: the chunks with a sync byte, in order -/
theorem framePure_chunks_eq (buf : Bytes) (base : Nat) :
    framePure (chunks buf) base = (List.range (buf.length / 188)).filterMap (pktAt buf base) := by
  rw [framePure_chunks_aux _ buf base rfl]
  apply filterMap_congr'
  intro k hk
  exact pkOf_eq_pktAt buf base k (List.mem_range.1 hk)

/-- the bytes after the last whole chunk play no role -/
theorem chunkAt_take (buf : Bytes) (k : Nat) (hk : k < buf.length / 188) :
    chunkAt (buf.take (188 * (buf.length / 188))) k = chunkAt buf k := by
  unfold chunkAt
  have : 188 * (k + 1) ≤ 188 * (buf.length / 188) := Nat.mul_le_mul_left 188 (Nat.succ_le_of_lt hk)
  rw [List.drop_take, List.take_take]
  congr 1
  omega

end Ts.Demux
