import Ts.Model.PesFilter
import Ts.Props.C12
import Ts.Spec.Protocol
/-!
# Helper lemmas for C08 / C09 (PES filter state machine)

1. total characterisation of every fallible call `consume` makes on a 188-byte packet, so that
   `consume f p = .ok (stepPure f (summary of p))` with `stepPure` a pure case analysis;
2. facts about `stepPure` by exhaustive case split;
3. structural lemmas about `run`.
-/
namespace Ts.Lemmas.C08
open Ts Ts.Packet Ts.PesFilter Ts.Spec Ts.Spec.Protocol Ts.Props.C12

/-! ### `PesHeader::from_bytes` is total -/

/-- the six fixed bytes are present and start with the start-code prefix `00 00 01` -/
def hdrOk (b : Bytes) : Bool :=
  decide (6 ≤ b.length) && (byteD b 0 == 0 && (byteD b 1 == 0 && byteD b 2 == 1))

theorem pfx_eq_one (a b c : Nat) (_ha : a < 256) (hb : b < 256) (hc : c < 256) :
    ((a <<< 16) ||| (b <<< 8) ||| c) = 1 ↔ (a = 0 ∧ b = 0 ∧ c = 1) := by
  rw [Nat.shiftLeft_eq, Nat.shiftLeft_eq,
    or_eq_add 16 (Nat.dvd_mul_left _ _) (by omega),
    or_eq_add 8 (by omega) (by omega)]
  omega

theorem headerFromBytes_eq (b : Bytes) :
    Pes.headerFromBytes b = .ok (if hdrOk b then some b else none) := by
  unfold Pes.headerFromBytes Pes.HDR_FIXED hdrOk
  by_cases h : b.length < 6
  · have h' : ¬ 6 ≤ b.length := by omega
    simp [h, h']
  · have h' : 6 ≤ b.length := by omega
    rw [if_neg h, byteAt_ok b 0 (by omega), byteAt_ok b 1 (by omega), byteAt_ok b 2 (by omega)]
    simp only [R.ok_bind, R.pure_eq]
    have e := pfx_eq_one (byteD b 0) (byteD b 1) (byteD b 2) (byteD_lt b 0) (byteD_lt b 1) (byteD_lt b 2)
    by_cases hp : (byteD b 0 <<< 16 ||| byteD b 1 <<< 8 ||| byteD b 2) = 1
    · have ⟨h0, h1, h2⟩ := e.mp hp
      simp [h', h0, h1, h2]
    · have hne : ¬ (byteD b 0 = 0 ∧ byteD b 1 = 0 ∧ byteD b 2 = 1) := fun x => hp (e.mpr x)
      have hb : (byteD b 0 == 0 && (byteD b 1 == 0 && byteD b 2 == 1)) = false := by
        cases hx : (byteD b 0 == 0 && (byteD b 1 == 0 && byteD b 2 == 1)) with
        | false => rfl
        | true => simp at hx; exact absurd hx hne
      simp [hp, hb]

theorem hdrOk_iff (b : Bytes) :
    hdrOk b = true ↔ 6 ≤ b.length ∧ byteD b 0 = 0 ∧ byteD b 1 = 0 ∧ byteD b 2 = 1 := by
  simp [hdrOk]

/-! ### the packet summary `consume` depends on -/

def usOf (p : Bytes) : Bool := readBits p 9 1 == 1
def hpOf (p : Bytes) : Bool := hasPayload (byteD p 3)
def ccOf (p : Bytes) : Nat := readBits p 28 4
def payOf (p : Bytes) : Option (Nat × Nat) :=
  (splitSpec (hasAf (byteD p 3)) (hasPayload (byteD p 3)) (byteD p 4)).2
def hdrOf (p : Bytes) : Bool :=
  match payOf p with
  | some r => hdrOk (rangeBytes p r)
  | none => false

/-- `is_continuous` as a pure function of the stored counter, the payload flag and the counter -/
def continuous (fc : Option Nat) (hp : Bool) (n : Nat) : Bool :=
  match fc with
  | some c => if hp then follows n c else n == c
  | none => true

theorem isContinuous_eq (f : F) (p : Bytes) (h : p.length = 188) :
    isContinuous f p = .ok (continuous f.cc (hpOf p) (ccOf p)) := by
  unfold isContinuous continuous hpOf ccOf
  cases hc : f.cc with
  | none => rfl
  | some c =>
    simp only [byte3, byteAt_ok p 3 (by omega), cc_exact p h, R.ok_bind, R.pure_eq]
    cases hasPayload (byteD p 3) <;> rfl

/-- `consume` on already-decoded inputs -/
def stepPure (f : F) (us hp : Bool) (n : Nat) (pay : Option (Nat × Nat)) (hdr : Bool) : F × List Ev :=
  let cont := continuous f.cc hp n
  let st1 := if !cont then (if f.st != .begin then St.ignoreRest else f.st) else f.st
  let ev1 := if !cont then [Ev.ccErr] else []
  if us then
    let ev2 := if st1 == .started then [Ev.endPkt] else if st1 == .begin then [Ev.start] else []
    match pay with
    | some r =>
      if hdr then (⟨some n, .started⟩, ev1 ++ ev2 ++ [Ev.beginPkt r.1 r.2])
      else (⟨some n, .ignoreRest⟩, ev1 ++ ev2)
    | none => (⟨some n, .ignoreRest⟩, ev1 ++ ev2)
  else
    match st1 with
    | .started =>
      match pay with
      | some r => if r.2 != 0 then (⟨some n, st1⟩, ev1 ++ [Ev.cont r.1 r.2]) else (⟨some n, st1⟩, ev1)
      | none => (⟨some n, st1⟩, ev1)
    | _ => (⟨some n, st1⟩, ev1)

def stepOf (f : F) (p : Bytes) : F × List Ev :=
  stepPure f (usOf p) (hpOf p) (ccOf p) (payOf p) (hdrOf p)

theorem consume_eq (f : F) (p : Bytes) (h : p.length = 188) : consume f p = .ok (stepOf f p) := by
  unfold consume stepOf stepPure
  rw [isContinuous_eq f p h, cc_exact p h, pusi_exact p h, payload_exact p h, pid_exact p h]
  simp only [R.ok_bind, R.pure_eq]
  unfold hdrOf
  show _ = R.ok (if usOf p = true then _ else _)
  unfold usOf payOf
  generalize continuous f.cc (hpOf p) (ccOf p) = b
  generalize (splitSpec (hasAf (byteD p 3)) (hasPayload (byteD p 3)) (byteD p 4)).2 = pay
  generalize (readBits p 9 1 == 1) = us
  rcases pay with _ | r
  · cases us <;> cases b <;> cases hst : f.st <;> simp [ccOf]
  · cases hh : hdrOk (rangeBytes p r) <;> cases us <;> cases b <;> cases hst : f.st <;>
      simp [headerFromBytes_eq, hh, ccOf] <;> split <;> rfl

theorem consume_eq' (f : F) (p : Bytes) (h : p.length = 188) :
    consume f p = .ok ((stepOf f p).1, (stepOf f p).2) := consume_eq f p h

theorem consume_inv {f f' : F} {p : Bytes} {evs : List Ev} (h : p.length = 188)
    (hc : consume f p = .ok (f', evs)) : f' = (stepOf f p).1 ∧ evs = (stepOf f p).2 := by
  rw [consume_eq f p h] at hc
  injection hc with hc
  rw [hc]; exact ⟨rfl, rfl⟩

/-! ### the abstraction to protocol states -/

def abs : St → PState
  | .begin => .notStarted
  | .started => .open_
  | .ignoreRest => .idle

theorem abs_open_iff (s : St) : abs s = .open_ ↔ s = .started := by cases s <;> simp [abs]

/-! ### facts about the pure step, by exhaustive case split -/

section pure
variable (f : F) (us hp : Bool) (n : Nat) (pay : Option (Nat × Nat)) (hdr : Bool)

theorem stepPure_accepts :
    accepts (abs f.st) (stepPure f us hp n pay hdr).2 = some (abs (stepPure f us hp n pay hdr).1.st) := by
  unfold stepPure
  generalize continuous f.cc hp n = b
  rcases f with ⟨fc, st⟩
  cases b <;> cases st <;> cases us <;> rcases pay with _ | r <;> cases hdr <;>
    simp [accepts, protoStep, abs] <;> split <;> simp [accepts, protoStep]

theorem stepPure_cc : (stepPure f us hp n pay hdr).1.cc = some n := by
  unfold stepPure
  generalize continuous f.cc hp n = b
  rcases f with ⟨fc, st⟩
  cases b <;> cases st <;> cases us <;> rcases pay with _ | r <;> cases hdr <;>
    simp <;> split <;> simp

theorem stepPure_ccErr_mem :
    Ev.ccErr ∈ (stepPure f us hp n pay hdr).2 ↔ continuous f.cc hp n = false := by
  unfold stepPure
  generalize continuous f.cc hp n = b
  rcases f with ⟨fc, st⟩
  cases b <;> cases st <;> cases us <;> rcases pay with _ | r <;> cases hdr <;>
    simp <;> split <;> simp

theorem stepPure_ccErr_not_tail : Ev.ccErr ∉ (stepPure f us hp n pay hdr).2.tail := by
  unfold stepPure
  generalize continuous f.cc hp n = b
  rcases f with ⟨fc, st⟩
  cases b <;> cases st <;> cases us <;> rcases pay with _ | r <;> cases hdr <;>
    simp <;> split <;> simp

theorem stepPure_begin_mem (o l : Nat) :
    Ev.beginPkt o l ∈ (stepPure f us hp n pay hdr).2 ↔ (us = true ∧ pay = some (o, l) ∧ hdr = true) := by
  unfold stepPure
  generalize continuous f.cc hp n = b
  rcases f with ⟨fc, st⟩
  cases b <;> cases st <;> cases us <;> rcases pay with _ | ⟨r1, r2⟩ <;> cases hdr <;>
    simp <;> (try split) <;> (try simp) <;> omega

theorem stepPure_cont_mem (o l : Nat) :
    Ev.cont o l ∈ (stepPure f us hp n pay hdr).2 ↔
      (us = false ∧ pay = some (o, l) ∧ l ≠ 0 ∧ f.st = .started ∧ continuous f.cc hp n = true) := by
  unfold stepPure
  generalize continuous f.cc hp n = b
  rcases f with ⟨fc, st⟩
  cases b <;> cases st <;> cases us <;> rcases pay with _ | ⟨r1, r2⟩ <;> cases hdr <;>
    simp <;> (try split) <;> (try simp) <;> omega

theorem stepPure_started_iff :
    (stepPure f us hp n pay hdr).1.st = .started ↔
      ((us = true ∧ pay.isSome = true ∧ hdr = true) ∨
       (us = false ∧ f.st = .started ∧ continuous f.cc hp n = true)) := by
  unfold stepPure
  generalize continuous f.cc hp n = b
  rcases f with ⟨fc, st⟩
  cases b <;> cases st <;> cases us <;> rcases pay with _ | r <;> cases hdr <;>
    simp <;> split <;> simp

/-- the state only leaves `begin` on a unit start -/
theorem stepPure_begin_iff :
    (stepPure f us hp n pay hdr).1.st = .begin ↔ (us = false ∧ f.st = .begin) := by
  unfold stepPure
  generalize continuous f.cc hp n = b
  rcases f with ⟨fc, st⟩
  cases b <;> cases st <;> cases us <;> rcases pay with _ | r <;> cases hdr <;>
    simp <;> split <;> simp

end pure

/-! ### continuity -/

theorem follows_iff (n c : Nat) : follows n c = true ↔ n = (c + 1) % 16 := by
  unfold follows
  have : (c + 1) &&& 0b1111 = (c + 1) % 16 := Nat.and_two_pow_sub_one_eq_mod (c + 1) 4
  rw [this, beq_iff_eq]
  exact eq_comm

theorem continuous_false_iff (fc : Option Nat) (hp : Bool) (n : Nat) :
    continuous fc hp n = false ↔ ∃ c, fc = some c ∧ n ≠ (if hp = true then (c + 1) % 16 else c) := by
  cases fc with
  | none => simp [continuous]
  | some c =>
    cases hp
    · simp [continuous]
    · have := follows_iff n c
      cases hf : follows n c <;> simp [continuous, hf] <;> simp [hf] at this <;> exact this

theorem hpOf_eq (p : Bytes) : hpOf p = (readBits p 27 1 == 1) := (afc_exact p).2

theorem ccOf_lt (p : Bytes) : ccOf p < 16 := cc_lt_16 p

/-! ### `run` is total on 188-byte packets and equals a pure fold -/

def runPure (f : F) : List Bytes → F × List (List Ev)
  | [] => (f, [])
  | p :: ps => ((runPure (stepOf f p).1 ps).1, (stepOf f p).2 :: (runPure (stepOf f p).1 ps).2)

theorem run_eq (f : F) (ps : List Bytes) (h : ∀ p ∈ ps, p.length = 188) :
    run f ps = .ok (runPure f ps) := by
  induction ps generalizing f with
  | nil => rfl
  | cons p ps ih =>
    have hp : p.length = 188 := h p (by simp)
    have ih' := ih (stepOf f p).1 (fun q hq => h q (List.mem_cons_of_mem _ hq))
    simp only [run, consume_eq f p hp, R.ok_bind, ih', R.pure_eq, runPure]

theorem run_eq' (f : F) (ps : List Bytes) (h : ∀ p ∈ ps, p.length = 188) :
    run f ps = .ok ((runPure f ps).1, (runPure f ps).2) := run_eq f ps h

theorem run_inv {f f' : F} {ps : List Bytes} {evss : List (List Ev)} (h : ∀ p ∈ ps, p.length = 188)
    (hr : run f ps = .ok (f', evss)) : f' = (runPure f ps).1 ∧ evss = (runPure f ps).2 := by
  rw [run_eq f ps h] at hr
  injection hr with hr
  rw [hr]; exact ⟨rfl, rfl⟩

theorem runPure_append (f : F) (a b : List Bytes) :
    runPure f (a ++ b) = ((runPure (runPure f a).1 b).1, (runPure f a).2 ++ (runPure (runPure f a).1 b).2) := by
  induction a generalizing f with
  | nil => rfl
  | cons p ps ih => simp only [List.cons_append, runPure, ih]

theorem runPure_length (f : F) (ps : List Bytes) : (runPure f ps).2.length = ps.length := by
  induction ps generalizing f with
  | nil => rfl
  | cons p ps ih => simp [runPure, ih]

theorem stepOf_accepts (f : F) (p : Bytes) :
    accepts (abs f.st) (stepOf f p).2 = some (abs (stepOf f p).1.st) := stepPure_accepts ..

theorem runPure_accepts (f : F) (ps : List Bytes) :
    accepts (abs f.st) (runPure f ps).2.flatten = some (abs (runPure f ps).1.st) := by
  induction ps generalizing f with
  | nil => rfl
  | cons p ps ih =>
    simp only [runPure, List.flatten_cons, accepts_append, stepOf_accepts, Option.bind_some, ih]

/-- the events of packet `k` are those of one step from the state reached after `k` packets -/
theorem runPure_getElem? (f : F) (ps : List Bytes) (k : Nat) (p : Bytes) (hk : ps[k]? = some p) :
    (runPure f ps).2[k]? = some (stepOf (runPure f (ps.take k)).1 p).2 := by
  induction ps generalizing f k with
  | nil => simp at hk
  | cons q qs ih =>
    cases k with
    | zero => simp at hk; subst hk; simp [runPure]
    | succ k =>
      simp at hk
      simp only [runPure, List.getElem?_cons_succ, List.take_succ_cons]
      exact ih _ k hk

theorem runPure_snoc_cc (f : F) (a : List Bytes) (q : Bytes) :
    (runPure f (a ++ [q])).1.cc = some (ccOf q) := by
  rw [runPure_append]
  simp only [runPure, stepOf]
  exact stepPure_cc ..

/-- the counter stored after `j+1` packets is the counter of packet `j` -/
theorem runPure_take_succ_cc (f : F) (ps : List Bytes) (j : Nat) (q : Bytes) (hj : ps[j]? = some q) :
    (runPure f (ps.take (j + 1))).1.cc = some (ccOf q) := by
  have hlt : j < ps.length := by
    rcases Nat.lt_or_ge j ps.length with h | h
    · exact h
    · rw [List.getElem?_eq_none h] at hj; cases hj
  have : ps.take (j + 1) = ps.take j ++ [q] := by
    rw [List.take_add_one, hj]; rfl
  rw [this]; exact runPure_snoc_cc ..

/-- quarantine over a run: from a state with no open packet, packets without unit start never open
one and deliver no continuation data -/
theorem runPure_quarantine (f : F) (ps : List Bytes) (hst : f.st ≠ .started)
    (hus : ∀ p ∈ ps, usOf p = false) :
    (∀ o l, Ev.cont o l ∉ (runPure f ps).2.flatten) ∧ (runPure f ps).1.st ≠ .started := by
  induction ps generalizing f with
  | nil => simp [runPure, hst]
  | cons p ps ih =>
    have hp : usOf p = false := hus p (by simp)
    have h1 : (stepOf f p).1.st ≠ .started := by
      intro h
      rcases (stepPure_started_iff ..).mp h with ⟨hu, _⟩ | ⟨_, hs, _⟩
      · rw [hp] at hu; cases hu
      · exact hst hs
    have ⟨h2, h3⟩ := ih (stepOf f p).1 h1 (fun q hq => hus q (List.mem_cons_of_mem _ hq))
    refine ⟨?_, h3⟩
    intro o l hm
    simp only [runPure, List.flatten_cons, List.mem_append] at hm
    rcases hm with hm | hm
    · exact hst ((stepPure_cont_mem ..).mp hm).2.2.2.1
    · exact h2 o l hm

/-! ### the recognised header, in terms of the packet's own bytes -/

theorem payOf_sound {p : Bytes} {o l : Nat} (h : payOf p = some (o, l)) : 1 ≤ l ∧ o + l = 188 ∧ 4 ≤ o :=
  (split_sound (hasAf (byteD p 3)) (hasPayload (byteD p 3)) (byteD p 4)).2.1 (o, l) h

theorem payloadRange_eq (p : Bytes) (h : p.length = 188) : payloadRange p = .ok (payOf p) :=
  payload_exact p h

theorem hdrOk_range (p : Bytes) (o l : Nat) (h : o + l ≤ p.length) :
    hdrOk (rangeBytes p (o, l)) = true ↔
      (6 ≤ l ∧ byteD p o = 0 ∧ byteD p (o + 1) = 0 ∧ byteD p (o + 2) = 1) := by
  rw [hdrOk_iff]
  have hlen : (rangeBytes p (o, l)).length = l := by
    simp only [rangeBytes, List.length_take, List.length_drop]; omega
  rw [hlen]
  by_cases h6 : 6 ≤ l
  · simp only [rangeBytes, byteD_take _ l 0 (by omega), byteD_take _ l 1 (by omega),
      byteD_take _ l 2 (by omega), byteD_drop, Nat.add_zero]
  · simp [h6]

theorem headerFromBytes_some_iff (b : Bytes) :
    Pes.headerFromBytes b = .ok (some b) ↔ hdrOk b = true := by
  rw [headerFromBytes_eq]
  cases hdrOk b <;> simp

theorem usOf_true_iff (p : Bytes) : usOf p = true ↔ readBits p 9 1 = 1 := by simp [usOf]
theorem usOf_false_iff (p : Bytes) : usOf p = false ↔ readBits p 9 1 ≠ 1 := by simp [usOf]

/-- decidable equality on results, for the concrete `decide` examples only -/
scoped instance instDecEqR {α : Type} [DecidableEq α] : DecidableEq (R α)
  | .ok a, .ok b => if h : a = b then isTrue (h ▸ rfl) else isFalse (fun e => h (R.ok.inj e))
  | .panic s, .panic t => if h : s = t then isTrue (h ▸ rfl) else isFalse (fun e => h (R.panic.inj e))
  | .ok _, .panic _ => isFalse (fun e => nomatch e)
  | .panic _, .ok _ => isFalse (fun e => nomatch e)

/-! ### concrete packets for the `decide` examples -/

/-- a concrete transport packet: sync byte, flags byte `b1` (0x40 = unit start), PID low byte 0,
byte 3 `b3` (0x10 = payload flag, 0x20 = adaptation-field flag, low nibble = continuity counter),
the bytes `pay` following the 4-byte header, then `ff` stuffing up to 188 bytes -/
def mkPkt (b1 b3 : UInt8) (pay : List UInt8) : Bytes :=
  [0x47, b1, 0x00, b3] ++ pay ++ List.replicate (184 - pay.length) 0xff

/-- a PES header start: `00 00 01`, stream id `e0`, length 0 -/
def pesStart : List UInt8 := [0, 0, 1, 0xe0, 0, 0]

end Ts.Lemmas.C08
