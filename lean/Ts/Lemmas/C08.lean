import Ts.Model.PesFilter
import Ts.Props.C12
import Ts.Spec.Protocol
/-!
# Helper lemmas for C08 / C09 (PES filter state machine)

1. total characterisation of every fallible call `consume` makes on a 188-byte packet, so that
   `consume f p = .ok (stepPure f (summary of p))` with `stepPure` a pure case analysis;
2. facts about `stepPure` by exhaustive case split;
3. structural lemmas about `run`.
-/
namespace Ts.Lemmas.C08
open Ts Ts.Packet Ts.PesFilter Ts.Spec Ts.Spec.Protocol Ts.Props.C12

/-! ### `PesHeader::from_bytes` is total -/

/-- the six fixed bytes are present and start with the start-code prefix `00 00 01` -/
def hdrOk (b : Bytes) : Bool :=
  decide (6 ≤ b.length) && (byteD b 0 == 0 && (byteD b 1 == 0 && byteD b 2 == 1))

theorem pfx_eq_one (a b c : Nat) (ha : a < 256) (hb : b < 256) (hc : c < 256) :
    ((a <<< 16) ||| (b <<< 8) ||| c) = 1 ↔ (a = 0 ∧ b = 0 ∧ c = 1) := by
  rw [Nat.shiftLeft_eq, Nat.shiftLeft_eq,
    or_eq_add 16 (Nat.dvd_mul_left _ _) (by omega),
    or_eq_add 8 (by omega) (by omega)]
  omega

theorem headerFromBytes_eq (b : Bytes) :
    Pes.headerFromBytes b = .ok (if hdrOk b then some b else none) := by
  unfold Pes.headerFromBytes Pes.HDR_FIXED hdrOk
  by_cases h : b.length < 6
  · have h' : ¬ 6 ≤ b.length := by omega
    simp [h, h']
  · have h' : 6 ≤ b.length := by omega
    rw [if_neg h, byteAt_ok b 0 (by omega), byteAt_ok b 1 (by omega), byteAt_ok b 2 (by omega)]
    simp only [R.ok_bind, R.pure_eq]
    have e := pfx_eq_one (byteD b 0) (byteD b 1) (byteD b 2) (byteD_lt b 0) (byteD_lt b 1) (byteD_lt b 2)
    by_cases hp : (byteD b 0 <<< 16 ||| byteD b 1 <<< 8 ||| byteD b 2) = 1
    · have ⟨h0, h1, h2⟩ := e.mp hp
      simp [hp, h', h0, h1, h2]
    · have hne : ¬ (byteD b 0 = 0 ∧ byteD b 1 = 0 ∧ byteD b 2 = 1) := fun x => hp (e.mpr x)
      have hb : (byteD b 0 == 0 && (byteD b 1 == 0 && byteD b 2 == 1)) = false := by
        cases hx : (byteD b 0 == 0 && (byteD b 1 == 0 && byteD b 2 == 1)) with
        | false => rfl
        | true => simp at hx; exact absurd hx hne
      simp [hp, hb]

theorem hdrOk_iff (b : Bytes) :
    hdrOk b = true ↔ 6 ≤ b.length ∧ byteD b 0 = 0 ∧ byteD b 1 = 0 ∧ byteD b 2 = 1 := by
  simp [hdrOk]

/-! ### the packet summary `consume` depends on -/

def usOf (p : Bytes) : Bool := readBits p 9 1 == 1
def hpOf (p : Bytes) : Bool := hasPayload (byteD p 3)
def ccOf (p : Bytes) : Nat := readBits p 28 4
def payOf (p : Bytes) : Option (Nat × Nat) :=
  (splitSpec (hasAf (byteD p 3)) (hasPayload (byteD p 3)) (byteD p 4)).2
def hdrOf (p : Bytes) : Bool :=
  match payOf p with
  | some r => hdrOk (rangeBytes p r)
  | none => false

/-- `is_continuous` as a pure function of the stored counter, the payload flag and the counter -/
def continuous (fc : Option Nat) (hp : Bool) (n : Nat) : Bool :=
  match fc with
  | some c => if hp then follows n c else n == c
  | none => true

theorem isContinuous_eq (f : F) (p : Bytes) (h : p.length = 188) :
    isContinuous f p = .ok (continuous f.cc (hpOf p) (ccOf p)) := by
  unfold isContinuous continuous hpOf ccOf
  cases hc : f.cc with
  | none => rfl
  | some c =>
    simp only [byte3, byteAt_ok p 3 (by omega), cc_exact p h, R.ok_bind, R.pure_eq]
    cases hasPayload (byteD p 3) <;> rfl

/-- `consume` on already-decoded inputs -/
def stepPure (f : F) (us hp : Bool) (n : Nat) (pay : Option (Nat × Nat)) (hdr : Bool) : F × List Ev :=
  let cont := continuous f.cc hp n
  let st1 := if !cont then (if f.st != .begin then St.ignoreRest else f.st) else f.st
  let ev1 := if !cont then [Ev.ccErr] else []
  if us then
    let ev2 := if st1 == .started then [Ev.endPkt] else if st1 == .begin then [Ev.start] else []
    match pay with
    | some r =>
      if hdr then (⟨some n, .started⟩, ev1 ++ ev2 ++ [Ev.beginPkt r.1 r.2])
      else (⟨some n, .ignoreRest⟩, ev1 ++ ev2)
    | none => (⟨some n, .ignoreRest⟩, ev1 ++ ev2)
  else
    match st1 with
    | .started =>
      match pay with
      | some r => if r.2 != 0 then (⟨some n, st1⟩, ev1 ++ [Ev.cont r.1 r.2]) else (⟨some n, st1⟩, ev1)
      | none => (⟨some n, st1⟩, ev1)
    | _ => (⟨some n, st1⟩, ev1)

def stepOf (f : F) (p : Bytes) : F × List Ev :=
  stepPure f (usOf p) (hpOf p) (ccOf p) (payOf p) (hdrOf p)

theorem consume_eq (f : F) (p : Bytes) (h : p.length = 188) : consume f p = .ok (stepOf f p) := by
  unfold consume stepOf stepPure
  rw [isContinuous_eq f p h, cc_exact p h, pusi_exact p h, payload_exact p h, pid_exact p h]
  simp only [R.ok_bind, R.pure_eq]
  unfold hdrOf
  show _ = R.ok (if usOf p = true then _ else _)
  unfold usOf payOf
  generalize continuous f.cc (hpOf p) (ccOf p) = b
  generalize (splitSpec (hasAf (byteD p 3)) (hasPayload (byteD p 3)) (byteD p 4)).2 = pay
  generalize (readBits p 9 1 == 1) = us
  cases us <;> cases b <;> cases hst : f.st <;> cases pay <;>
    simp [headerFromBytes_eq, ccOf] <;> split <;> simp_all

end Ts.Lemmas.C08
