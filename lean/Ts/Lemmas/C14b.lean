import Ts.Lemmas.C14
/-!
Helper lemmas for C14 (PES header), part 2: slices, and per-field value lemmas
(code masks/shifts = `readBits` fields at the cursor).
-/
namespace Ts.Lemmas.C14
open Ts Ts.Spec Ts.Spec.PesSpec

/-! ### slices -/

theorem limit_le (c : Bytes) : limit c ≤ c.length := Nat.min_le_right _ _
theorem limit_le_hdl (c : Bytes) : limit c ≤ 3 + byteD c 2 := by
  unfold limit; rw [hdl_eq]; exact Nat.min_le_left _ _

theorem byteD_slice (c : Bytes) (a n i : Nat) (hi : i < n) :
    byteD ((c.drop a).take n) i = byteD c (a + i) := by
  rw [byteD_take _ _ _ hi, byteD_drop]

theorem length_slice (c : Bytes) (a n : Nat) (h : a + n ≤ c.length) :
    ((c.drop a).take n).length = n := by
  simp; omega

theorem byteAt_slice (c : Bytes) (a n i : Nat) (h : a + n ≤ c.length) (hi : i < n) :
    byteAt ((c.drop a).take n) i = .ok (byteD c (a + i)) := by
  rw [byteAt_ok _ i (by rw [length_slice c a n h]; exact hi), byteD_slice _ _ _ _ hi]

theorem headerSlice_eq (c : Bytes) (h3 : 3 ≤ c.length) (a n : Nat) :
    Pes.headerSlice c a (a + n) =
      .ok (if a + n ≤ limit c then .ok ((c.drop a).take n) else .error .notEnoughData) := by
  unfold Pes.headerSlice Pes.hdl limit
  rw [byteAt_ok c 2 (by omega), hdl_eq]
  simp only [R.ok_bind, Pes.FIXED]
  by_cases h1 : a + n > byteD c 2 + 3
  · have : ¬ a + n ≤ min (3 + byteD c 2) c.length := by omega
    simp [h1, this]
  · by_cases h2 : a + n > c.length
    · have : ¬ a + n ≤ min (3 + byteD c 2) c.length := by omega
      simp [h1, h2, this]
    · have : a + n ≤ min (3 + byteD c 2) c.length := by omega
      rw [sliceR_ok c a n (by omega)]
      simp [h1, h2, this]

/-! ### multi-byte bit fields -/

/-- 15 bits = a whole byte, then the top 7 bits of the next -/
theorem rb_8_7 (c : Bytes) (pos i : Nat) (hp : pos = 8 * i) :
    readBits c pos 15 = byteD c i * 2 ^ 7 + byteD c (i + 1) / 2 := by
  have e := readBits_add c pos 8 7
  rw [rb_byte c pos i hp, rb c (pos + 8) (i + 1) 0 7 (by omega) (by omega)] at e
  have := byteD_lt c (i + 1)
  simp only [Nat.reduceAdd] at e
  rw [e]; omega

/-- 15 bits = the low 2 bits of a byte, a whole byte, the top 5 bits of the next -/
theorem rb_2_8_5 (c : Bytes) (pos i : Nat) (hp : pos = 8 * i + 6) :
    readBits c pos 15 = (byteD c i % 4) * 2 ^ 13 + byteD c (i + 1) * 2 ^ 5 + byteD c (i + 2) / 8 := by
  have e1 := readBits_add c pos 2 13
  have e2 := readBits_add c (pos + 2) 8 5
  rw [rb_byte c (pos + 2) (i + 1) (by omega), rb c (pos + 2 + 8) (i + 2) 0 5 (by omega) (by omega)] at e2
  rw [rb c pos i 6 2 hp (by omega)] at e1
  have := byteD_lt c (i + 2)
  simp only [Nat.reduceAdd] at e1 e2
  rw [e1, e2]
  simp only [Nat.reduceSub, Nat.reducePow, Nat.div_one]
  omega

/-- 9 bits = the low 2 bits of a byte, then the top 7 bits of the next -/
theorem rb_2_7 (c : Bytes) (pos i : Nat) (hp : pos = 8 * i + 6) :
    readBits c pos 9 = (byteD c i % 4) * 2 ^ 7 + byteD c (i + 1) / 2 := by
  have e1 := readBits_add c pos 2 7
  rw [rb c pos i 6 2 hp (by omega), rb c (pos + 2) (i + 1) 0 7 (by omega) (by omega)] at e1
  have := byteD_lt c (i + 1)
  simp only [Nat.reduceAdd] at e1
  rw [e1]
  simp only [Nat.reduceSub, Nat.reducePow, Nat.div_one]
  omega

/-- 22 bits = the low 7 bits of a byte, a whole byte, the top 7 bits of the next -/
theorem rb_7_8_7 (c : Bytes) (pos i : Nat) (hp : pos = 8 * i + 1) :
    readBits c pos 22 = (byteD c i % 128) * 2 ^ 15 + byteD c (i + 1) * 2 ^ 7 + byteD c (i + 2) / 2 := by
  have e1 := readBits_add c pos 7 15
  have e2 := rb_8_7 c (pos + 7) (i + 1) (by omega)
  rw [rb c pos i 1 7 hp (by omega), e2, show i + 1 + 1 = i + 2 from rfl] at e1
  simp only [Nat.reduceAdd] at e1
  rw [e1]
  simp only [Nat.reduceSub, Nat.reducePow, Nat.div_one]
  omega

/-- 16 bits = two whole bytes -/
theorem rb_8_8 (c : Bytes) (pos i : Nat) (hp : pos = 8 * i) :
    readBits c pos 16 = byteD c i * 256 + byteD c (i + 1) := by
  have e := readBits_add c pos 8 8
  rw [rb_byte c pos i hp, rb_byte c (pos + 8) (i + 1) (by omega)] at e
  simp only [Nat.reduceAdd] at e
  rw [e]

/-- 24 bits = three whole bytes -/
theorem rb_8_8_8 (c : Bytes) (pos i : Nat) (hp : pos = 8 * i) :
    readBits c pos 24 = byteD c i * 65536 + byteD c (i + 1) * 256 + byteD c (i + 2) := by
  have e := readBits_add c pos 8 16
  rw [rb_byte c pos i hp, rb_8_8 c (pos + 8) (i + 1) (by omega), show i + 1 + 1 = i + 2 from rfl] at e
  simp only [Nat.reduceAdd] at e
  rw [e]; omega

/-! ### time stamps -/

/-- the outcome of `Timestamp::from_bytes` on five bytes, as arithmetic -/
def tsOfBytes (b0 b1 b2 b3 b4 : Nat) : Time.TsRes :=
  if b0 % 2 = 0 then .error (.markerBitNotSet 7)
  else if b2 % 2 = 0 then .error (.markerBitNotSet 23)
  else if b4 % 2 = 0 then .error (.markerBitNotSet 39)
  else .ok ((b0 / 2 % 8) * 2 ^ 30 + (b1 * 2 ^ 7 + b2 / 2) * 2 ^ 15 + (b3 * 2 ^ 7 + b4 / 2))

theorem tsVal_arith (b0 b1 b2 b3 b4 : Nat) (h0 : b0 < 256) (h1 : b1 < 256) (h2 : b2 < 256)
    (h3 : b3 < 256) (h4 : b4 < 256) :
    Time.tsVal b0 b1 b2 b3 b4 =
      (b0 / 2 % 8) * 2 ^ 30 + (b1 * 2 ^ 7 + b2 / 2) * 2 ^ 15 + (b3 * 2 ^ 7 + b4 / 2) := by
  unfold Time.tsVal
  rw [and_0e b0 h0, and_fe b2 h2]
  simp only [Nat.shiftLeft_eq, Nat.shiftRight_eq_div_pow]
  simp (disch := omega) only [or_eq_add 7, or_eq_add 15, or_eq_add 22, or_eq_add 30]
  omega

theorem checkMarker_eq (s : Bytes) (bit i : Nat) (hb : bit = 8 * i + 7) (hi : i < s.length) :
    Time.checkMarkerBit s bit =
      .ok (if byteD s i % 2 = 1 then .ok () else .error (.markerBitNotSet bit)) := by
  subst hb
  unfold Time.checkMarkerBit
  have e1 : (8 * i + 7) / 8 = i := by omega
  have e2 : (8 * i + 7) % 8 = 7 := by omega
  simp only [e1, e2, Nat.sub_self, Nat.shiftLeft_zero]
  rw [byteAt_ok s i hi]
  have := and_01 (byteD s i) (byteD_lt s i)
  simp only [R.ok_bind, this]
  by_cases h : byteD s i % 2 = 1 <;> simp [h]

theorem fromBytes_eq (s : Bytes) (h : 5 ≤ s.length) :
    Time.fromBytes s =
      .ok (tsOfBytes (byteD s 0) (byteD s 1) (byteD s 2) (byteD s 3) (byteD s 4)) := by
  unfold Time.fromBytes tsOfBytes
  rw [checkMarker_eq s 7 0 (by omega) (by omega), checkMarker_eq s 23 2 (by omega) (by omega),
    checkMarker_eq s 39 4 (by omega) (by omega)]
  rw [byteAt_ok s 0 (by omega), byteAt_ok s 1 (by omega), byteAt_ok s 2 (by omega),
    byteAt_ok s 3 (by omega), byteAt_ok s 4 (by omega)]
  simp only [R.ok_bind]
  have tv := tsVal_arith _ _ _ _ _ (byteD_lt s 0) (byteD_lt s 1) (byteD_lt s 2) (byteD_lt s 3) (byteD_lt s 4)
  have m0 : byteD s 0 % 2 = 0 ∨ byteD s 0 % 2 = 1 := by omega
  have m2 : byteD s 2 % 2 = 0 ∨ byteD s 2 % 2 = 1 := by omega
  have m4 : byteD s 4 % 2 = 0 ∨ byteD s 4 % 2 = 1 := by omega
  rcases m0 with m0 | m0 <;> rcases m2 with m2 | m2 <;> rcases m4 with m4 | m4 <;>
    simp [m0, m2, m4, tv]

theorem timestampAt_eq (c : Bytes) (a : Nat) :
    tsRes (timestampAt c a) =
      tsOfBytes (byteD c a) (byteD c (a + 1)) (byteD c (a + 2)) (byteD c (a + 3)) (byteD c (a + 4)) := by
  unfold timestampAt tsOfBytes
  rw [rb c (8 * a + 7) a 7 1 (by omega) (by omega), rb c (8 * a + 23) (a + 2) 7 1 (by omega) (by omega),
    rb c (8 * a + 39) (a + 4) 7 1 (by omega) (by omega), rb c (8 * a + 4) a 4 3 (by omega) (by omega),
    rb_8_7 c (8 * a + 8) (a + 1) (by omega), rb_8_7 c (8 * a + 24) (a + 3) (by omega)]
  simp only [Nat.reduceSub, Nat.reducePow, Nat.div_one]
  have m0 : byteD c a % 2 = 0 ∨ byteD c a % 2 = 1 := by omega
  have m2 : byteD c (a + 2) % 2 = 0 ∨ byteD c (a + 2) % 2 = 1 := by omega
  have m4 : byteD c (a + 4) % 2 = 0 ∨ byteD c (a + 4) % 2 = 1 := by omega
  rcases m0 with m0 | m0 <;> rcases m2 with m2 | m2 <;> rcases m4 with m4 | m4 <;>
    simp [m0, m2, m4, tsRes]

/-- `Timestamp::from_bytes` on the 5 bytes at the cursor -/
theorem ts_at (c : Bytes) (a n : Nat) (h : a + n ≤ c.length) (hn : 5 ≤ n) :
    Time.fromBytes ((c.drop a).take n) = .ok (tsRes (timestampAt c a)) := by
  rw [fromBytes_eq _ (by rw [length_slice c a n h]; exact hn), timestampAt_eq]
  rw [byteD_slice c a n 0 (by omega), byteD_slice c a n 1 (by omega), byteD_slice c a n 2 (by omega),
    byteD_slice c a n 3 (by omega), byteD_slice c a n 4 (by omega)]
  rfl

/-! ### ESCR -/

theorem escrBase_arith (s0 s1 s2 s3 s4 : Nat) (h0 : s0 < 256) (h1 : s1 < 256) (h2 : s2 < 256)
    (h3 : s3 < 256) (h4 : s4 < 256) :
    Pes.escrBase s0 s1 s2 s3 s4 =
      (s0 / 8 % 8) * 2 ^ 30 + ((s0 % 4) * 2 ^ 13 + s1 * 2 ^ 5 + s2 / 8) * 2 ^ 15
        + ((s2 % 4) * 2 ^ 13 + s3 * 2 ^ 5 + s4 / 8) := by
  unfold Pes.escrBase
  rw [and_38 s0 h0, and_03 s0 h0, and_f8 s2 h2, and_03 s2 h2, and_f8 s4 h4]
  simp only [Nat.shiftLeft_eq, Nat.shiftRight_eq_div_pow]
  simp (disch := omega) only [or_eq_add 30, or_eq_add 28, or_eq_add 20, or_eq_add 15, or_eq_add 13,
    or_eq_add 5]
  omega

theorem escrExt_arith (s4 s5 : Nat) (h4 : s4 < 256) (h5 : s5 < 256) :
    Pes.escrExt s4 s5 = (s4 % 4) * 2 ^ 7 + s5 / 2 := by
  unfold Pes.escrExt
  rw [and_03 s4 h4, and_fe s5 h5]
  simp only [Nat.shiftLeft_eq, Nat.shiftRight_eq_div_pow]
  simp (disch := omega) only [or_eq_add 7]
  omega

theorem escrAt_eq (c : Bytes) (a : Nat) :
    escrAt c a =
      { base := (byteD c a / 8 % 8) * 2 ^ 30
          + ((byteD c a % 4) * 2 ^ 13 + byteD c (a + 1) * 2 ^ 5 + byteD c (a + 2) / 8) * 2 ^ 15
          + ((byteD c (a + 2) % 4) * 2 ^ 13 + byteD c (a + 3) * 2 ^ 5 + byteD c (a + 4) / 8)
        ext := (byteD c (a + 4) % 4) * 2 ^ 7 + byteD c (a + 5) / 2 } := by
  unfold escrAt
  rw [rb c (8 * a + 2) a 2 3 (by omega) (by omega), rb_2_8_5 c (8 * a + 6) a (by omega),
    rb_2_8_5 c (8 * a + 22) (a + 2) (by omega), rb_2_7 c (8 * a + 38) (a + 4) (by omega)]

theorem crefFromParts_ok (b e : Nat) (hb : b < 2 ^ 33) (he : e < 2 ^ 9) :
    Time.crefFromParts b e = .ok ⟨b, e⟩ := by
  unfold Time.crefFromParts assertR
  have e1 : (1 <<< 33 : Nat) = 2 ^ 33 := by rw [Nat.shiftLeft_eq, Nat.one_mul]
  have e2 : (1 <<< 9 : Nat) = 2 ^ 9 := by rw [Nat.shiftLeft_eq, Nat.one_mul]
  rw [e1, e2]
  simp only [decide_eq_true hb, decide_eq_true he, if_true, R.ok_bind, R.pure_eq]

/-- the ESCR decode at the cursor never trips `ClockRef::from_parts`' assertions -/
theorem escr_val (c : Bytes) (a : Nat) :
    Time.crefFromParts
        (Pes.escrBase (byteD c a) (byteD c (a + 1)) (byteD c (a + 2)) (byteD c (a + 3)) (byteD c (a + 4)))
        (Pes.escrExt (byteD c (a + 4)) (byteD c (a + 5))) = .ok (escrConv (escrAt c a)) := by
  have h0 := byteD_lt c a; have h1 := byteD_lt c (a + 1); have h2 := byteD_lt c (a + 2)
  have h3 := byteD_lt c (a + 3); have h4 := byteD_lt c (a + 4); have h5 := byteD_lt c (a + 5)
  rw [escrBase_arith _ _ _ _ _ h0 h1 h2 h3 h4, escrExt_arith _ _ h4 h5, escrAt_eq]
  apply crefFromParts_ok
  · omega
  · omega

/-! ### ES_rate -/

theorem esRateVal_arith (s0 s1 s2 : Nat) (h0 : s0 < 256) (h1 : s1 < 256) (h2 : s2 < 256) :
    Pes.esRateVal s0 s1 s2 = (s0 % 128) * 2 ^ 15 + s1 * 2 ^ 7 + s2 / 2 := by
  unfold Pes.esRateVal
  rw [and_7f s0 h0, and_fe s2 h2]
  simp only [Nat.shiftLeft_eq, Nat.shiftRight_eq_div_pow]
  simp (disch := omega) only [or_eq_add 15, or_eq_add 7]
  omega

theorem esRate_val (c : Bytes) (a : Nat) :
    Pes.esRateVal (byteD c a) (byteD c (a + 1)) (byteD c (a + 2)) = esRateAt c a := by
  rw [esRateVal_arith _ _ _ (byteD_lt c a) (byteD_lt c (a + 1)) (byteD_lt c (a + 2))]
  unfold esRateAt
  rw [rb_7_8_7 c (8 * a + 1) a rfl]

theorem esRateAt_lt (c : Bytes) (a : Nat) : esRateAt c a < 1 <<< 22 := by
  have := readBits_lt c (8 * a + 1) 22
  unfold esRateAt
  simp only [Nat.shiftLeft_eq]; omega

/-! ### trick mode -/

/-- the spec's reading of the trick-mode byte, on the byte value -/
def trickArith (b : Nat) : TrickVal :=
  match b / 2 ^ (8 - 0 - 3) % 2 ^ 3 with
  | 0 => .fastForward (b / 2 ^ (8 - 3 - 2) % 2 ^ 2) (b / 2 ^ (8 - 5 - 1) % 2 ^ 1 == 1) (b / 2 ^ (8 - 6 - 2) % 2 ^ 2)
  | 1 => .slowMotion (b / 2 ^ (8 - 3 - 5) % 2 ^ 5)
  | 2 => .freezeFrame (b / 2 ^ (8 - 3 - 2) % 2 ^ 2) (b / 2 ^ (8 - 5 - 3) % 2 ^ 3)
  | 3 => .fastReverse (b / 2 ^ (8 - 3 - 2) % 2 ^ 2) (b / 2 ^ (8 - 5 - 1) % 2 ^ 1 == 1) (b / 2 ^ (8 - 6 - 2) % 2 ^ 2)
  | 4 => .slowReverse (b / 2 ^ (8 - 3 - 5) % 2 ^ 5)
  | k => .reserved k

theorem trickAt_eq (c : Bytes) (p : Nat) : trickAt c p = trickArith (byteD c p) := by
  unfold trickAt trickArith
  rw [rb c (8 * p) p 0 3 (by omega) (by omega), rb c (8 * p + 3) p 3 2 rfl (by omega),
    rb c (8 * p + 5) p 5 1 rfl (by omega), rb c (8 * p + 6) p 6 2 rfl (by omega),
    rb c (8 * p + 3) p 3 5 rfl (by omega), rb c (8 * p + 5) p 5 3 rfl (by omega)]
  rfl

/-- on every byte value, the code's decode (incl. `from_id`, which never panics) is the spec's -/
theorem tbl_trick : ∀ b : Fin 256,
    okVal (Pes.trickOfByte b.val) = some (trickConv (trickArith b.val)) := by decide +kernel

theorem trick_val (c : Bytes) (p : Nat) :
    Pes.trickOfByte (byteD c p) = .ok (trickConv (trickAt c p)) := by
  rw [trickAt_eq]
  exact eq_ok_of_okVal (tbl_trick ⟨byteD c p, byteD_lt c p⟩)

/-! ### additional copy info, CRC -/

theorem tbl_aci : ∀ b : Fin 256,
    (b.val &&& 0b1000_0000 == 0) = (b.val / 2 ^ (8 - 0 - 1) % 2 ^ 1 == 0) ∧
    b.val &&& 0b0111_1111 = b.val / 2 ^ (8 - 1 - 7) % 2 ^ 7 := by decide +kernel

theorem aci_val (c : Bytes) (p : Nat) :
    (if byteD c p &&& 0b1000_0000 == 0 then (Except.error Pes.PesErr.markerBitNotSet : Pes.Res Nat)
      else .ok (byteD c p &&& 0b0111_1111)) = copyInfoRes (.present (copyInfoAt c p)) := by
  have t := tbl_aci ⟨byteD c p, byteD_lt c p⟩
  simp only at t
  unfold copyInfoAt
  rw [rb c (8 * p) p 0 1 (by omega) (by omega), rb c (8 * p + 1) p 1 7 rfl (by omega), t.1, t.2]
  by_cases h : byteD c p / 2 ^ (8 - 0 - 1) % 2 ^ 1 = 0 <;> simp [h, copyInfoRes]

theorem crc_val (c : Bytes) (p : Nat) :
    (byteD c p <<< 8) ||| byteD c (p + 1) = crcAt c p := by
  unfold crcAt
  rw [rb_8_8 c (8 * p) p rfl, Nat.shiftLeft_eq]
  exact or_eq_add 8 (Nat.dvd_mul_left _ _) (byteD_lt c (p + 1))

end Ts.Lemmas.C14
