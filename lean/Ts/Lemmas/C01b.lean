import Ts.Lemmas.C01
import Ts.Props.C03
import Ts.Props.C04
import Ts.Props.C08
/-!
# C01 helper lemmas, part 2: handler invariant, section handlers, elementary-stream callbacks

* `SynInv`: while a section is being buffered its `section_syntax_indicator` is set; together with
  `PsiInvFull` this gives: every delivery of `Psi.consume Psi.table` has the syntax bit set
  (discharging `assert!(header.section_syntax_indicator)` in the CRC layer).
* `HInv`: the handler invariant.
* `patSection` / `pmtSection` are total on ARBITRARY section bytes of at least 12 bytes.
* `runDeliveries`, `beginInfo`, `esEvents` are total.
-/
namespace Ts.Lemmas.C01
open Ts Ts.Psi Ts.Spec Ts.Spec.SectionMux Ts.Lemmas.C03 Ts.Demux Ts.App

/-! ### syntax bit of buffered / delivered sections -/

/-- while `Buffering`, the buffered header has `section_syntax_indicator = 1` -/
def SynInv (s : St) : Prop := ∀ n, s.remaining = some n → hdrSyn s.buf = true

theorem synInv_of_none (s : St) (h : s.remaining = none) : SynInv s := by
  intro n hn; rw [h] at hn; cases hn

theorem synInv_congr (s s' : St) (hb : s'.buf = s.buf) (hr : s'.remaining = s.remaining)
    (h : SynInv s) : SynInv s' := by
  intro n hn; rw [hr] at hn; rw [hb]; exact h n hn

theorem synInv_init : SynInv {} := synInv_of_none _ rfl

theorem bufContSpec_syn (kind : Kind) (s : St) (data : Bytes) (hi : PsiInv kind s) (hy : SynInv s) :
    SynInv (bufContSpec s data).1 ∧ ∀ d ∈ (bufContSpec s data).2, hdrSyn d.bytes = true := by
  unfold bufContSpec
  cases hr : s.remaining with
  | none => exact ⟨hy, by simp⟩
  | some n =>
    obtain ⟨_, h1, _⟩ := hi n hr
    have h3 := minHeader_ge kind
    have hb := hy n hr
    by_cases hle : n ≤ data.length
    · simp only [hle, if_true]
      refine ⟨synInv_of_none _ rfl, ?_⟩
      intro d hd
      simp only [List.mem_singleton] at hd
      subst hd
      show hdrSyn (s.buf ++ List.take n data) = true
      rw [hdrSyn_append _ _ (by omega)]; exact hb
    · simp only [hle, if_false]
      refine ⟨?_, by simp⟩
      intro m _
      show hdrSyn (s.buf ++ data) = true
      rw [hdrSyn_append _ _ (by omega)]; exact hb

theorem contSpec_syn (cfg : Psi.Cfg) (kind : Kind) (s : St) (data : Bytes) (hi : PsiInv kind s)
    (hy : SynInv s) :
    SynInv (contSpec cfg s data).1 ∧ ∀ d ∈ (contSpec cfg s data).2, hdrSyn d.bytes = true := by
  unfold contSpec
  split
  · exact ⟨hy, by simp⟩
  · split
    · exact ⟨hy, by simp⟩
    · exact bufContSpec_syn kind s data hi hy

theorem bufStartSpec_syn (s : St) (data : Bytes) (off : Nat) (hd : hdrSyn data = true) :
    SynInv (bufStartSpec s data off).1 ∧ ∀ d ∈ (bufStartSpec s data off).2, hdrSyn d.bytes = true := by
  unfold bufStartSpec
  by_cases hle : hdrLen data + 3 ≤ data.length
  · simp only [hle, if_true]
    refine ⟨synInv_of_none _ rfl, ?_⟩
    intro d hm
    simp only [List.mem_singleton] at hm
    subst hm
    show hdrSyn (data.take (hdrLen data + 3)) = true
    rw [hdrSyn_take _ _ (by omega)]; exact hd
  · simp only [hle, if_false]
    refine ⟨?_, by simp⟩
    intro m _
    exact hd

theorem startSpec_syn (cfg : Psi.Cfg) (hss : cfg.sectionSyntax = true) (s : St) (data : Bytes) (off : Nat)
    (hy : SynInv s) :
    SynInv (startSpec cfg s data off).1 ∧ ∀ d ∈ (startSpec cfg s data off).2, hdrSyn d.bytes = true := by
  unfold startSpec
  by_cases hok : startOk cfg data = true
  · obtain ⟨h0, _, _⟩ := (startOk_iff cfg data).1 hok
    rw [hss] at h0
    simp only [hok, if_true]
    unfold dedupStartSpec
    split
    · split
      · exact ⟨synInv_congr s _ rfl rfl hy, by simp⟩
      · exact bufStartSpec_syn _ data off h0
    · exact bufStartSpec_syn _ data off h0
  · simp only [hok]
    exact ⟨synInv_congr s _ rfl rfl hy, by simp⟩

theorem consumeSpec_syn (cfg : Psi.Cfg) (hss : cfg.sectionSyntax = true) (s : St) (us : Bool) (pk : Bytes)
    (off : Nat) (hi : PsiInv (kindOf cfg) s) (hy : SynInv s) :
    SynInv (consumeSpec cfg s us pk off).1 ∧
      ∀ d ∈ (consumeSpec cfg s us pk off).2, hdrSyn d.bytes = true := by
  unfold consumeSpec
  cases us
  · simp only [Bool.false_eq_true, if_false]
    exact contSpec_syn cfg _ s pk hi hy
  · simp only [if_true]
    split
    · exact ⟨synInv_of_none _ (procReset_remaining cfg s), by simp⟩
    · have hr1 : SynInv (if 0 < byteD pk 0 then contSpec cfg s ((pk.drop 1).take (byteD pk 0)) else (s, [])).1
          ∧ ∀ d ∈ (if 0 < byteD pk 0 then contSpec cfg s ((pk.drop 1).take (byteD pk 0)) else (s, [])).2,
              hdrSyn d.bytes = true := by
        split
        · exact contSpec_syn cfg _ s _ hi hy
        · exact ⟨hy, by simp⟩
      split
      · exact ⟨synInv_of_none _ (procReset_remaining cfg _), hr1.2⟩
      · have hs := startSpec_syn cfg hss
          (if 0 < byteD pk 0 then contSpec cfg s ((pk.drop 1).take (byteD pk 0)) else (s, [])).1
          ((pk.drop 1).drop (byteD pk 0)) (off + 1 + byteD pk 0) hr1.1
        refine ⟨hs.1, ?_⟩
        intro d hd
        rcases List.mem_append.1 hd with hd | hd
        · exact hr1.2 d hd
        · exact hs.2 d hd

theorem syn_bit_of_hdrSyn (b : Bytes) (h : hdrSyn b = true) : byteD b 1 &&& 0b1000_0000 ≠ 0 := by
  unfold hdrSyn at h
  rw [← and_80 _ (byteD_lt b 1)] at h
  simpa using h

/-- **PAT / PMT section reassembly is total on arbitrary packets**, keeps the invariants, and every
section it hands to the CRC layer has the syntax bit set, 3..1024 bytes -/
theorem consume_table_total (s : St) (hs : PsiInvFull .syntax s) (hy : SynInv s)
    (p : Bytes) (hp : p.length = 188) :
    ∃ s' ds, Psi.consume Psi.table s p = .ok (s', ds) ∧ PsiInvFull .syntax s' ∧ SynInv s'
      ∧ ds.length ≤ 2
      ∧ ∀ d ∈ ds, byteD d.bytes 1 &&& 0b1000_0000 ≠ 0 ∧ 3 ≤ d.bytes.length ∧ d.bytes.length ≤ 1024 := by
  rw [consume_eq_plOf Psi.table s p hp]
  cases hq : plOf p with
  | none => exact ⟨s, [], rfl, hs, hy, by simp, by simp⟩
  | some q =>
    have hsz := plOf_size p hp q hq
    have hd := consumeSpec_deliveries Psi.table s q.us q.bytes q.off hs
    have hsy := consumeSpec_syn Psi.table rfl s q.us q.bytes q.off hs.1 hy
    refine ⟨_, _, consumePayload_eq Psi.table cfgOk_table s q.us q.bytes q.off hsz.1 hs.1,
      consumeSpec_invFull Psi.table s _ _ _ hs, hsy.1, hd.1, ?_⟩
    intro d hdm
    have h1 := hd.2 d hdm
    exact ⟨syn_bit_of_hdrSyn _ (hsy.2 d hdm), by have := h1.2; omega, h1.1⟩

/-! ### the CRC layer -/

/-- `CrcCheckWholeSectionSyntaxPayloadParser::section` never panics on a section with the syntax
bit set (either build), and lets through only sections of at least 12 bytes -/
theorem crcPass_total (bp : Bool) (data : Bytes) (hs : byteD data 1 &&& 0b1000_0000 ≠ 0)
    (hl : 3 ≤ data.length) :
    ∃ b, Psi.crcPass bp data = .ok b ∧ (b = true → 12 ≤ data.length) := by
  unfold Psi.crcPass
  rw [byteAt_ok data 1 (by omega)]
  have : (byteD data 1 &&& 0b1000_0000 != 0) = true := by simp [hs]
  simp only [R.ok_bind, assertR, this, if_true, Psi.COMMON, Psi.TSH]
  by_cases h12 : data.length < 3 + 5 + 4
  · exact ⟨false, by simp [h12], by intro h; cases h⟩
  · simp only [h12, if_false]
    cases bp
    · rw [Props.C04.sum32_eq_bitserial]
      exact ⟨_, rfl, fun _ => by omega⟩
    · exact ⟨true, rfl, fun _ => by omega⟩

/-! ### the handler invariant -/

/-- PAT / PMT handlers carry a section-reassembly state satisfying the buffer invariants;
PES filters and recorders need nothing (C08: the PES filter is total in every state) -/
def HInv : Handler → Prop
  | .pat s _ => PsiInvFull .syntax s ∧ SynInv s
  | .pmt _ _ s _ => PsiInvFull .syntax s ∧ SynInv s
  | .pes _ _ => True
  | .recorder _ => True

/-- a queued change is fine if the handler it inserts satisfies the invariant -/
def ChgOk : Change Handler → Prop
  | .insert _ h => HInv h
  | .remove _ => True

theorem psi_init_ok : PsiInvFull .syntax ({} : St) ∧ SynInv ({} : St) :=
  ⟨psiInvFull_of_none _ _ rfl, synInv_init⟩

/-- fresh handlers satisfy the invariant -/
theorem construct_hinv (c : Ctx) (req : Req) : HInv (construct c req).1 := by
  unfold construct
  split
  · exact psi_init_ok
  · trivial
  · exact psi_init_ok
  · trivial
  · simp only []
    split <;> trivial

theorem construct_cfg (c : Ctx) (req : Req) : (construct c req).2.cfg = c.cfg := by
  unfold construct
  split <;> try rfl
  simp only []
  split <;> rfl

theorem foldl_inv {α β : Type} (P : β → Prop) (f : β → α → β) (hf : ∀ b a, P b → P (f b a))
    (l : List α) : ∀ b, P b → P (l.foldl f b) := by
  induction l with
  | nil => intro b h; exact h
  | cons a l ih => intro b h; exact ih _ (hf b a h)

/-- the `insert` half of `new_table`: every queued handler is a freshly constructed one -/
theorem fold_ok {α : Type} (f : Ctx × List (Change Handler) → α → Ctx × List (Change Handler))
    (hf : ∀ acc e, ∃ p req,
      f acc e = ((construct acc.1 req).2, acc.2 ++ [Change.insert p (construct acc.1 req).1]))
    (l : List α) (c : Ctx) : ∀ ch ∈ (l.foldl f (c, [])).2, ChgOk ch := by
  apply foldl_inv (fun (acc : Ctx × List (Change Handler)) => ∀ ch ∈ acc.2, ChgOk ch)
  · intro acc e hacc ch hch
    obtain ⟨p, req, he⟩ := hf acc e
    rw [he] at hch
    rcases List.mem_append.1 hch with hch | hch
    · exact hacc ch hch
    · simp only [List.mem_singleton] at hch
      subst hch
      exact construct_hinv _ _
  · simp

theorem chgOk_append {a b : List (Change Handler)} (ha : ∀ ch ∈ a, ChgOk ch) (hb : ∀ ch ∈ b, ChgOk ch) :
    ∀ ch ∈ a ++ b, ChgOk ch := by
  intro ch hch
  rcases List.mem_append.1 hch with hch | hch
  · exact ha ch hch
  · exact hb ch hch

/-- the `remove` half of `new_table`: `Pid::new` holds for every PID of the 8192-bit set -/
theorem outdated_removes (reg seen : List Nat) :
    (outdated reg seen).mapM (fun p => do let q ← Tables.pidNew p; pure (Change.remove (H := Handler) q))
      = .ok ((outdated reg seen).map (fun p => Change.remove p)) := by
  apply mapM_ok
  intro p hp
  unfold outdated at hp
  have := (List.mem_filter.1 hp).1
  rw [List.mem_range] at this
  rw [Lemmas.C16.pidNew_ok p (by omega)]
  rfl

theorem removes_ok (l : List Nat) : ∀ ch ∈ l.map (fun p => Change.remove (H := Handler) p), ChgOk ch := by
  intro ch hch
  obtain ⟨p, _, rfl⟩ := List.mem_map.1 hch
  trivial

/-! ### PAT / PMT section handlers on ARBITRARY section bytes -/

theorem patSection_total (c : Ctx) (reg : List Nat) (data : Bytes) (h12 : 12 ≤ data.length) :
    ∃ c' reg' chg, patSection c reg data = .ok (c', reg', chg) ∧ ∀ ch ∈ chg, ChgOk ch := by
  unfold patSection
  have hsub : subR data.length 4 = .ok (data.length - 4) := by
    unfold subR; rw [if_pos (by omega)]
  have hsl : sliceR data 8 (data.length - 4) = .ok ((data.drop 8).take (data.length - 4 - 8)) := by
    have := sliceR_ok data 8 (data.length - 4 - 8) (by omega)
    rwa [show 8 + (data.length - 4 - 8) = data.length - 4 by omega] at this
  simp only [hsub, R.ok_bind, hsl, byteAt_ok data 0 (by omega)]
  split
  · exact ⟨c, reg, [], rfl, by simp⟩
  · rw [(Props.C16.pat_entries _).1]
    simp only [R.ok_bind, outdated_removes]
    exact ⟨_, _, _, rfl, chgOk_append (fold_ok _ (fun acc e => ⟨_, _, rfl⟩) _ _) (removes_ok _)⟩

theorem pmtSection_total (c : Ctx) (pmtPid : Nat) (reg : List Nat) (data : Bytes) (h12 : 12 ≤ data.length) :
    ∃ c' reg' chg, pmtSection c pmtPid reg data = .ok (c', reg', chg) ∧ ∀ ch ∈ chg, ChgOk ch := by
  unfold pmtSection
  have hsub : subR data.length 4 = .ok (data.length - 4) := by
    unfold subR; rw [if_pos (by omega)]
  have hsl : sliceR data 8 (data.length - 4) = .ok ((data.drop 8).take (data.length - 4 - 8)) := by
    have := sliceR_ok data 8 (data.length - 4 - 8) (by omega)
    rwa [show 8 + (data.length - 4 - 8) = data.length - 4 by omega] at this
  simp only [hsub, R.ok_bind, hsl, Props.C16.pmt_accept_iff]
  generalize (data.drop 8).take (data.length - 4 - 8) = body
  by_cases hacc : TableSpec.specPmtAccept body
  · simp only [if_pos hacc, byteAt_ok data 0 (by omega), R.ok_bind]
    split
    · exact ⟨c, reg, [], rfl, by simp⟩
    · obtain ⟨f1, _, _, f4⟩ := Props.C16.pmt_fields body hacc
      obtain ⟨es, _, _, hs, _⟩ := Props.C16.pmt_streams_tile body hacc
      simp only [hs, f1, f4, R.ok_bind, outdated_removes]
      by_cases ht : c.cfg.touch = true
      · simp only [ht, if_true, touchPmt_ok body hacc, R.ok_bind]
        exact ⟨_, _, _, rfl, chgOk_append (fold_ok _ (fun acc e => ⟨_, _, rfl⟩) _ _) (removes_ok _)⟩
      · simp only [ht]
        exact ⟨_, _, _, rfl, chgOk_append (fold_ok _ (fun acc e => ⟨_, _, rfl⟩) _ _) (removes_ok _)⟩
  · simp only [if_neg hacc]
    exact ⟨c, reg, [], rfl, by simp⟩

/-- the CRC gate followed by a total table processor is total -/
theorem runDeliveries_total
    (sect : Ctx → List Nat → Bytes → R (Ctx × List Nat × List (Change Handler)))
    (hsect : ∀ c reg data, 12 ≤ data.length →
      ∃ c' reg' chg, sect c reg data = .ok (c', reg', chg) ∧ ∀ ch ∈ chg, ChgOk ch) :
    ∀ (ds : List Delivery) (c : Ctx) (reg : List Nat),
      (∀ d ∈ ds, byteD d.bytes 1 &&& 0b1000_0000 ≠ 0 ∧ 3 ≤ d.bytes.length) →
      ∃ c' reg' chg, runDeliveries sect c reg ds = .ok (c', reg', chg) ∧ ∀ ch ∈ chg, ChgOk ch := by
  intro ds
  induction ds with
  | nil => intro c reg _; exact ⟨c, reg, [], rfl, by simp⟩
  | cons d ds ih =>
    intro c reg h
    obtain ⟨hd1, hd2⟩ := h d (List.mem_cons_self ..)
    have hrest := fun d' hm => h d' (List.mem_cons_of_mem _ hm)
    obtain ⟨b, hb, hb12⟩ := crcPass_total c.cfg.bypassCrc d.bytes hd1 hd2
    unfold runDeliveries
    simp only [hb, R.ok_bind]
    cases b
    · simp only [Bool.false_eq_true, if_false]
      exact ih c reg hrest
    · simp only [if_true]
      obtain ⟨c1, reg1, chg1, h1, hc1⟩ := hsect c reg d.bytes (hb12 rfl)
      obtain ⟨c2, reg2, chg2, h2, hc2⟩ := ih c1 reg1 hrest
      simp only [h1, R.ok_bind, h2]
      refine ⟨_, _, _, rfl, ?_⟩
      intro ch hch
      rcases List.mem_append.1 hch with hch | hch
      · exact hc1 ch hch
      · exact hc2 ch hch

/-! ### elementary-stream callbacks -/

theorem beginInfo_total (p : Bytes) (base o l : Nat) (h6 : 6 ≤ (Packet.rangeBytes p (o, l)).length) :
    ∃ bi, beginInfo p base o l = .ok bi := by
  unfold beginInfo
  simp only [Props.C14.stream_id_exact _ h6, Props.C14.packet_length_exact _ h6,
    Props.C14.contents_kind _ h6, R.ok_bind]
  generalize Packet.rangeBytes p (o, l) = h at h6 ⊢
  by_cases hin : readBits h 24 8 ∈ PesSpec.noHeaderIds
  · simp only [if_pos hin]; exact ⟨_, rfl⟩
  · simp only [if_neg hin]
    by_cases hacc : PesSpec.parsedAccepted (h.drop 6)
    · simp only [if_pos hacc]
      have hpb : Pes.parsedFromBytes (h.drop 6) = .ok (some (h.drop 6)) := by
        rw [Props.C14.parsed_accept_iff, if_pos hacc]
      obtain ⟨_, _, _, b2, _⟩ := Props.C14.pes_fields_exact_accepted _ hpb
      simp only [Lemmas.C14.ptsDts_exact _ hacc.1, b2, R.ok_bind]
      exact ⟨_, rfl⟩
    · simp only [if_neg hacc]; exact ⟨_, rfl⟩

theorem esEvents_total (touch : Bool) (tag : Nat) (p : Bytes) (base : Nat) :
    ∀ (evs : List PesFilter.Ev) (c : Ctx),
      (∀ o l, PesFilter.Ev.beginPkt o l ∈ evs → 6 ≤ (Packet.rangeBytes p (o, l)).length) →
      ∃ c', esEvents touch tag p base c evs = .ok c' := by
  intro evs
  induction evs with
  | nil => intro c _; exact ⟨c, rfl⟩
  | cons e es ih =>
    intro c h
    have hrest := fun o l hm => h o l (List.mem_cons_of_mem _ hm)
    unfold esEvents
    cases e with
    | start => simp only [R.pure_eq, R.ok_bind]; exact ih _ hrest
    | cont o l => simp only [R.pure_eq, R.ok_bind]; exact ih _ hrest
    | endPkt => simp only [R.pure_eq, R.ok_bind]; exact ih _ hrest
    | ccErr => simp only [R.pure_eq, R.ok_bind]; exact ih _ hrest
    | beginPkt o l =>
      have h6 := h o l (List.mem_cons_self ..)
      obtain ⟨bi, hbi⟩ := beginInfo_total p base o l h6
      simp only [hbi, R.ok_bind, R.pure_eq]
      cases touch
      · simp only [Bool.false_eq_true, if_false, R.ok_bind]
        exact ih _ hrest
      · simp only [if_true, touchPesHeader_ok _ h6, R.ok_bind]
        exact ih _ hrest

/-- every `begin_packet` callback of the PES filter carries an accepted (≥ 6 bytes) PES header -/
theorem begin_len (f f' : PesFilter.F) (p : Bytes) (evs : List PesFilter.Ev) (hp : p.length = 188)
    (hc : PesFilter.consume f p = .ok (f', evs)) (o l : Nat) (hm : PesFilter.Ev.beginPkt o l ∈ evs) :
    6 ≤ (Packet.rangeBytes p (o, l)).length := by
  have := ((Props.C08.begin_iff f f' p evs o l hp hc).1 hm).2.2
  rw [Props.C14.header_accept_iff] at this
  by_cases hh : 6 ≤ (Packet.rangeBytes p (o, l)).length ∧ readBits (Packet.rangeBytes p (o, l)) 0 24 = 1
  · exact hh.1
  · rw [if_neg hh] at this; cases this

end Ts.Lemmas.C01
