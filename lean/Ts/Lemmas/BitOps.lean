import Ts.Basic
/-! Helper lemmas: byte masks / shifts as arithmetic (all kernel-checked; finite facts by `decide +kernel`). -/
namespace Ts

theorem or_eq_add {x y : Nat} (k : Nat) (hx : 2^k ∣ x) (hy : y < 2^k) : x ||| y = x + y := by
  obtain ⟨c, rfl⟩ := hx
  rw [Nat.mul_comm, ← Nat.shiftLeft_eq, Nat.shiftLeft_add_eq_or_of_lt hy]

/-- lift a fact checked on all 256 byte values -/
theorem byte_forall {P : Nat → Prop} (h : ∀ b : Fin 256, P b.val) (b : Nat) (hb : b < 256) : P b :=
  h ⟨b, hb⟩

theorem and_80_fin : ∀ b : Fin 256, (b.val &&& 0b1000_0000 != 0) = (b.val / 128 % 2 == 1) := by decide +kernel
theorem and_80 (b : Nat) (h : b < 256) : (b &&& 0b1000_0000 != 0) = (b / 128 % 2 == 1) := and_80_fin ⟨b, h⟩
theorem and_40_fin : ∀ b : Fin 256, (b.val &&& 0b0100_0000 != 0) = (b.val / 64 % 2 == 1) := by decide +kernel
theorem and_40 (b : Nat) (h : b < 256) : (b &&& 0b0100_0000 != 0) = (b / 64 % 2 == 1) := and_40_fin ⟨b, h⟩
theorem and_20_fin : ∀ b : Fin 256, (b.val &&& 0b0010_0000 != 0) = (b.val / 32 % 2 == 1) := by decide +kernel
theorem and_20 (b : Nat) (h : b < 256) : (b &&& 0b0010_0000 != 0) = (b / 32 % 2 == 1) := and_20_fin ⟨b, h⟩
theorem and_10_fin : ∀ b : Fin 256, (b.val &&& 0b0001_0000 != 0) = (b.val / 16 % 2 == 1) := by decide +kernel
theorem and_10 (b : Nat) (h : b < 256) : (b &&& 0b0001_0000 != 0) = (b / 16 % 2 == 1) := and_10_fin ⟨b, h⟩
theorem and_08_fin : ∀ b : Fin 256, (b.val &&& 0b0000_1000 != 0) = (b.val / 8 % 2 == 1) := by decide +kernel
theorem and_08 (b : Nat) (h : b < 256) : (b &&& 0b0000_1000 != 0) = (b / 8 % 2 == 1) := and_08_fin ⟨b, h⟩
theorem and_04_fin : ∀ b : Fin 256, (b.val &&& 0b0000_0100 != 0) = (b.val / 4 % 2 == 1) := by decide +kernel
theorem and_04 (b : Nat) (h : b < 256) : (b &&& 0b0000_0100 != 0) = (b / 4 % 2 == 1) := and_04_fin ⟨b, h⟩
theorem and_02_fin : ∀ b : Fin 256, (b.val &&& 0b0000_0010 != 0) = (b.val / 2 % 2 == 1) := by decide +kernel
theorem and_02 (b : Nat) (h : b < 256) : (b &&& 0b0000_0010 != 0) = (b / 2 % 2 == 1) := and_02_fin ⟨b, h⟩
theorem and_01_fin : ∀ b : Fin 256, (b.val &&& 0b0000_0001 != 0) = (b.val % 2 == 1) := by decide +kernel
theorem and_01 (b : Nat) (h : b < 256) : (b &&& 0b0000_0001 != 0) = (b % 2 == 1) := and_01_fin ⟨b, h⟩
theorem and_c0_fin : ∀ b : Fin 256, (b.val &&& 0b1100_0000 != 0) = (b.val / 64 != 0) := by decide +kernel
theorem and_c0 (b : Nat) (h : b < 256) : (b &&& 0b1100_0000 != 0) = (b / 64 != 0) := and_c0_fin ⟨b, h⟩
theorem and_1f_fin : ∀ b : Fin 256, b.val &&& 0b0001_1111 = b.val % 32 := by decide +kernel
theorem and_1f (b : Nat) (h : b < 256) : b &&& 0b0001_1111 = b % 32 := and_1f_fin ⟨b, h⟩
theorem and_0f_fin : ∀ b : Fin 256, b.val &&& 0b0000_1111 = b.val % 16 := by decide +kernel
theorem and_0f (b : Nat) (h : b < 256) : b &&& 0b0000_1111 = b % 16 := and_0f_fin ⟨b, h⟩
theorem and_3f_fin : ∀ b : Fin 256, b.val &&& 0b0011_1111 = b.val % 64 := by decide +kernel
theorem and_3f (b : Nat) (h : b < 256) : b &&& 0b0011_1111 = b % 64 := and_3f_fin ⟨b, h⟩
theorem and_7f_fin : ∀ b : Fin 256, b.val &&& 0b0111_1111 = b.val % 128 := by decide +kernel
theorem and_7f (b : Nat) (h : b < 256) : b &&& 0b0111_1111 = b % 128 := and_7f_fin ⟨b, h⟩
theorem and_03_fin : ∀ b : Fin 256, b.val &&& 0b0000_0011 = b.val % 4 := by decide +kernel
theorem and_03 (b : Nat) (h : b < 256) : b &&& 0b0000_0011 = b % 4 := and_03_fin ⟨b, h⟩
theorem and_07_fin : ∀ b : Fin 256, b.val &&& 0b0000_0111 = b.val % 8 := by decide +kernel
theorem and_07 (b : Nat) (h : b < 256) : b &&& 0b0000_0111 = b % 8 := and_07_fin ⟨b, h⟩
theorem and_0e_fin : ∀ b : Fin 256, b.val &&& 0b0000_1110 = (b.val / 2 % 8) * 2 := by decide +kernel
theorem and_0e (b : Nat) (h : b < 256) : b &&& 0b0000_1110 = (b / 2 % 8) * 2 := and_0e_fin ⟨b, h⟩
theorem and_fe_fin : ∀ b : Fin 256, b.val &&& 0b1111_1110 = (b.val / 2) * 2 := by decide +kernel
theorem and_fe (b : Nat) (h : b < 256) : b &&& 0b1111_1110 = (b / 2) * 2 := and_fe_fin ⟨b, h⟩
theorem and_f8_fin : ∀ b : Fin 256, b.val &&& 0b1111_1000 = (b.val / 8) * 8 := by decide +kernel
theorem and_f8 (b : Nat) (h : b < 256) : b &&& 0b1111_1000 = (b / 8) * 8 := and_f8_fin ⟨b, h⟩
theorem and_38_fin : ∀ b : Fin 256, b.val &&& 0b0011_1000 = (b.val / 8 % 8) * 8 := by decide +kernel
theorem and_38 (b : Nat) (h : b < 256) : b &&& 0b0011_1000 = (b / 8 % 8) * 8 := and_38_fin ⟨b, h⟩
theorem shr6_fin : ∀ b : Fin 256, b.val >>> 6 = b.val / 64 := by decide +kernel
theorem shr6 (b : Nat) (h : b < 256) : b >>> 6 = b / 64 := shr6_fin ⟨b, h⟩

end Ts
