import Ts.Props.C03
import Ts.Props.C04
import Ts.Lemmas.Demux
/-!
# C10 / C11 helper lemmas, part 1: the de-duplication layer of the `Psi.table` chain

* `versionOf` (the standard's 5-bit `version_number` field) = what `tshVersion` computes.
* `Quiescent v s`: the state right after version `v` was delivered, and while its repetitions pass.
* `RepPayload v q`: `q` is one payload of a re-transmission of a version-`v` section.
* `rep_step` / `rep_run`: in a quiescent state every repetition payload delivers nothing and keeps
  the state quiescent, the inner buffer untouched.
* `table_applied`: C03's reassembly pushed through the dedup layer.
* `table_blocked`: a start whose version equals `lastVersion` never delivers the section (F2 core).
-/
namespace Ts.Lemmas.C10
open Ts Ts.Psi Ts.Spec Ts.Spec.SectionMux Ts.Lemmas.C03

/-! ### the version field -/

/-- `version_number`: 5 bits at bit offset 42 (byte 5, after 2 reserved bits) -/
def versionOf (S : Bytes) : Nat := readBits S 42 5

/-- what the model's `tshVersion` computes, on the whole section -/
def verField (d : Bytes) : Nat := (byteD d 5 >>> 1) &&& 0b0001_1111

theorem verField_fin : ∀ b : Fin 256, (b.val >>> 1) &&& 0b0001_1111 = b.val / 2 % 32 := by decide +kernel

theorem versionOf_eq (S : Bytes) : versionOf S = verField S := by
  unfold versionOf verField
  have r := readBits_sub S 5 2 5 (by omega)
  have e : 8 * 5 + 2 = 42 := rfl
  rw [e] at r
  rw [r, verField_fin ⟨byteD S 5, byteD_lt S 5⟩]

theorem versionOf_lt (S : Bytes) : versionOf S < 32 := readBits_lt S 42 5

/-- the model's `tshVersion` on the table-syntax header of `d` returns `versionOf d` -/
theorem tshVersion_eq (d : Bytes) (h : 8 ≤ d.length) : tshVersion (d.drop 3) = .ok (versionOf d) := by
  rw [versionOf_eq]
  unfold tshVersion verField
  have h5 : (5 ≤ d.length - 3) := by omega
  rw [byteAt_ok _ 2 (by rw [List.length_drop]; omega), byteD_drop]
  simp [assertR, TSH, h5]

theorem verField_share (S tail : Bytes) (k : Nat) (hk : 6 ≤ k) (hkS : k ≤ S.length) :
    verField (S.take k ++ tail) = verField S := by
  unfold verField
  rw [byteD_append_left _ _ 5 (by simp; omega), byteD_take _ _ _ (by omega)]

/-! ### quiescent states, repetition payloads -/

/-- right after version `v` was delivered (and while its repetitions pass): the dedup layer
remembers `v`, the buffer layer is `Complete` -/
def Quiescent (v : Nat) (s : St) : Prop := s.lastVersion = some v ∧ s.remaining = none

/-- `q` is one payload of a re-transmission of a well-formed section-syntax section with
version `v`: any continuation payload, or the unit-start payload of some well-formed packetisation -/
def RepPayload (v : Nat) (q : Pl) : Prop :=
  q.us = false ∨
  ∃ S m, WellFormedSection .syntax S ∧ 8 ≤ S.length ∧ versionOf S = v ∧ WellFormedMux .syntax S m
    ∧ q.us = true ∧ q.bytes = m.first S

/-- a 188-byte packet of a repetition: no payload at all (adaptation field only), or its payload
view (C12/C03d `plOf`) is a repetition payload -/
def RepPacket (v : Nat) (p : Bytes) : Prop :=
  p.length = 188 ∧ ∀ q, plOf p = some q → RepPayload v q

theorem quiescent_inv (v : Nat) (s : St) (h : Quiescent v s) : PsiInv .syntax s :=
  psiInv_of_none _ _ h.2

/-! ### header facts of the first share of a well-formed section -/

theorem startOk_table_eq (d : Bytes) : startOk Psi.table d = startOk Psi.rawSection d := rfl

theorem share_startOk (S : Bytes) (hS : WellFormedSection .syntax S) (k : Nat) (tail : Bytes)
    (hk : k ≤ S.length) (hmin : 8 ≤ (S.take k ++ tail).length)
    (hcase : k = S.length ∨ (k < S.length ∧ tail = [])) :
    startOk Psi.table (S.take k ++ tail) = true := by
  obtain ⟨h3, hlenS, hmax, hsyn⟩ := hS
  have hk3 : 3 ≤ k := by
    rcases hcase with h | ⟨_, ht⟩
    · omega
    · subst ht; simp at hmin; omega
  obtain ⟨e1, e2⟩ := hdr_of_share S tail k hk3 hk
  rw [startOk_iff, e1, e2]
  refine ⟨?_, hmin, ?_⟩
  · have := wf_syn .syntax S ⟨h3, hlenS, hmax, hsyn⟩
    exact this
  · rw [sectionLength_eq] at hmax; exact hmax

theorem share_version (S : Bytes) (k : Nat) (tail : Bytes) (h8 : 8 ≤ S.length)
    (hk : k ≤ S.length) (hmin : 8 ≤ (S.take k ++ tail).length)
    (hcase : k = S.length ∨ (k < S.length ∧ tail = [])) :
    verField (S.take k ++ tail) = versionOf S := by
  have hk6 : 6 ≤ k := by
    rcases hcase with h | ⟨_, ht⟩
    · omega
    · subst ht; simp at hmin; omega
  rw [verField_share S tail k hk6 hk, versionOf_eq]

/-! ### start on the `table` chain -/

/-- accepted start whose version equals the remembered one: nothing is started, nothing delivered -/
theorem startSpec_table_same (s : St) (d : Bytes) (off : Nat) (hok : startOk Psi.table d = true)
    (hv : s.lastVersion = some (verField d)) :
    startSpec Psi.table s d off = ({ s with ignoreRest := false, dedupIgnore := true }, []) := by
  unfold startSpec dedupStartSpec
  have hd : Psi.table.dedup = true := rfl
  have hb : (s.lastVersion == some (byteD d 5 >>> 1 &&& 31)) = true := by
    rw [hv]; simp [verField]
  simp only [hok, if_true, hd, hb]

/-- accepted start with a different version: the raw chain's start on the updated dedup state -/
theorem startSpec_table_diff (s : St) (d : Bytes) (off : Nat) (hok : startOk Psi.table d = true)
    (hv : s.lastVersion ≠ some (verField d)) :
    startSpec Psi.table s d off
      = startSpec Psi.rawSection { s with dedupIgnore := false, lastVersion := some (verField d) } d off := by
  have hok' : startOk Psi.rawSection d = true := hok
  unfold startSpec dedupStartSpec
  have hd : Psi.table.dedup = true := rfl
  have hd' : Psi.rawSection.dedup = false := rfl
  have hb : (s.lastVersion == some (byteD d 5 >>> 1 &&& 31)) = false := by
    have : ¬ s.lastVersion = some (byteD d 5 >>> 1 &&& 31) := hv
    simp [this]
  simp only [hok, hok', if_true, hd, hd', hb, Bool.false_eq_true, if_false, verField]

/-- every accepted start records the version of the section that starts — before anything is
known about its completeness or CRC -/
theorem startSpec_records (s : St) (d : Bytes) (off : Nat) (hok : startOk Psi.table d = true) :
    (startSpec Psi.table s d off).1.lastVersion = some (verField d) := by
  by_cases hv : s.lastVersion = some (verField d)
  · rw [startSpec_table_same s d off hok hv]; exact hv
  · have hok' : startOk Psi.rawSection d = true := hok
    rw [startSpec_table_diff s d off hok hv]
    have hd' : Psi.rawSection.dedup = false := rfl
    unfold startSpec dedupStartSpec bufStartSpec
    simp only [hok', if_true, hd', Bool.false_eq_true, if_false]
    by_cases hle : hdrLen d + 3 ≤ d.length <;> simp [hle]

/-! ### continuation payloads never touch the dedup layer's memory -/

theorem contSpec_lastVersion (cfg : Cfg) (s : St) (p : Bytes) :
    (contSpec cfg s p).1.lastVersion = s.lastVersion := by
  unfold contSpec bufContSpec
  split
  · rfl
  · split
    · rfl
    · cases s.remaining with
      | none => rfl
      | some n => simp only; split <;> rfl

theorem runCont_lastVersion (cfg : Cfg) (ps : List Bytes) : ∀ (s : St),
    (runCont cfg s ps).1.lastVersion = s.lastVersion := by
  induction ps with
  | nil => intro s; rfl
  | cons p ps ih => intro s; simp only [runCont]; rw [ih, contSpec_lastVersion]

theorem preSpec_lastVersion (cfg : Cfg) (s : St) (pre : Bytes) :
    (preSpec cfg s pre).1.lastVersion = s.lastVersion := by
  unfold preSpec; split
  · rfl
  · exact contSpec_lastVersion cfg s pre

/-- while the dedup layer ignores, continuation payloads do nothing at all -/
theorem contSpec_table_ignoring (s : St) (p : Bytes) (h : s.dedupIgnore = true) :
    contSpec Psi.table s p = (s, []) := by
  unfold contSpec
  simp [Psi.table, h]

theorem runCont_table_ignoring (s : St) (ps : List Bytes) (h : s.dedupIgnore = true) :
    runCont Psi.table s ps = (s, []) := by
  induction ps with
  | nil => rfl
  | cons p ps ih => simp only [runCont, contSpec_table_ignoring s p h, ih, List.append_nil]

theorem preSpec_idle (cfg : Cfg) (s : St) (pre : Bytes) (h : s.remaining = none) :
    preSpec cfg s pre = (s, []) := by
  unfold preSpec; split
  · rfl
  · exact contSpec_idle cfg s pre (Or.inl h)

theorem preSpec_at_most_one_table (s : St) (hs : PsiInv .syntax s) (pre : Bytes) :
    (preSpec Psi.table s pre).2.length ≤ 1 := by
  unfold preSpec; split
  · simp
  · exact (contSpec_deliveries_weak Psi.table .syntax s pre hs).1

/-! ### the first payload of a well-formed packetisation -/

theorem first_length (S : Bytes) (m : Mux) :
    (m.first S).length = 1 + m.pre.length + (S.take m.k ++ m.tailBytes).length := by
  simp only [Mux.first, List.length_cons, List.length_append]; omega

/-- unit-start payload of a well-formed packetisation, seen by the `table` chain -/
theorem consumeSpec_first_table (S : Bytes) (m : Mux) (hm : WellFormedMux .syntax S m)
    (s : St) (off : Nat) :
    consumeSpec Psi.table s true (m.first S) off
      = ((startSpec Psi.table (preSpec Psi.table s m.pre).1 (S.take m.k ++ m.tailBytes)
            (off + 1 + m.pre.length)).1,
         (preSpec Psi.table s m.pre).2 ++
           (startSpec Psi.table (preSpec Psi.table s m.pre).1 (S.take m.k ++ m.tailBytes)
             (off + 1 + m.pre.length)).2) := by
  obtain ⟨hk, hmin, hsz, hcase, hrsz⟩ := hm
  have hfl := first_length S m
  have h8 : minHeader .syntax = 8 := rfl
  rw [h8] at hmin
  exact consumeSpec_first Psi.table s m.pre (S.take m.k ++ m.tailBytes) off
    (by have := hsz.2; omega) (by omega)

theorem mux_case (S : Bytes) (m : Mux) (hm : WellFormedMux .syntax S m) :
    m.k ≤ S.length ∧ 8 ≤ (S.take m.k ++ m.tailBytes).length
      ∧ (m.k = S.length ∨ (m.k < S.length ∧ m.tailBytes = [])) := by
  obtain ⟨hk, hmin, hsz, hcase, hrsz⟩ := hm
  refine ⟨hk, hmin, ?_⟩
  rcases hcase with h | ⟨h1, h2, _⟩
  · exact Or.inl h
  · exact Or.inr ⟨h1, h2⟩

/-! ### C10 core: repetitions in a quiescent state -/

/-- unit-start payload of a same-version section in ANY state that remembers that version:
only the pointer bytes can deliver; the dedup layer starts ignoring -/
theorem first_same_version (S : Bytes) (hS : WellFormedSection .syntax S) (h8 : 8 ≤ S.length)
    (m : Mux) (hm : WellFormedMux .syntax S m) (s : St) (off : Nat)
    (hv : s.lastVersion = some (versionOf S)) :
    consumeSpec Psi.table s true (m.first S) off
      = ({ (preSpec Psi.table s m.pre).1 with ignoreRest := false, dedupIgnore := true },
         (preSpec Psi.table s m.pre).2) := by
  obtain ⟨hk, hmin, hcase⟩ := mux_case S m hm
  rw [consumeSpec_first_table S m hm s off]
  have hok := share_startOk S hS m.k m.tailBytes hk hmin hcase
  have hver := share_version S m.k m.tailBytes h8 hk hmin hcase
  rw [startSpec_table_same _ _ _ hok (by rw [preSpec_lastVersion, hver]; exact hv)]
  simp

/-- one repetition payload in a quiescent state: no delivery, still quiescent, buffer untouched -/
theorem rep_step_spec (v : Nat) (s : St) (hq : Quiescent v s) (q : Pl) (hr : RepPayload v q) :
    ∃ s', consumeSpec Psi.table s q.us q.bytes q.off = (s', [])
      ∧ Quiescent v s' ∧ s'.buf = s.buf ∧ s'.dedupIgnore = (q.us || s.dedupIgnore) := by
  rcases hr with hus | ⟨S, m, hS, h8, hver, hm, hus, hb⟩
  · refine ⟨s, ?_, hq, rfl, by simp [hus]⟩
    rw [hus]
    unfold consumeSpec
    simp only [Bool.false_eq_true, if_false]
    exact contSpec_idle _ _ _ (Or.inl hq.2)
  · rw [hus, hb, first_same_version S hS h8 m hm s q.off (by rw [hver]; exact hq.1)]
    rw [preSpec_idle _ _ _ hq.2]
    exact ⟨_, rfl, ⟨hq.1, hq.2⟩, rfl, by simp⟩

theorem rep_step (v : Nat) (s : St) (hq : Quiescent v s) (q : Pl) (hr : RepPayload v q)
    (hne : 1 ≤ q.bytes.length) :
    ∃ s', consumePayload Psi.table s q.us q.bytes q.off = .ok (s', [])
      ∧ Quiescent v s' ∧ s'.buf = s.buf := by
  obtain ⟨s', h1, h2, h3, _⟩ := rep_step_spec v s hq q hr
  refine ⟨s', ?_, h2, h3⟩
  rw [consumePayload_eq Psi.table cfgOk_table s q.us q.bytes q.off hne (quiescent_inv v s hq), h1]

/-- any number of repetition payloads (any number of repetitions, each spanning any number of
packets): no delivery at all -/
theorem rep_run (v : Nat) (qs : List Pl) : ∀ (s : St), Quiescent v s →
    (∀ q ∈ qs, RepPayload v q ∧ 1 ≤ q.bytes.length) →
    ∃ s', runPl Psi.table s qs = .ok (s', []) ∧ Quiescent v s' ∧ s'.buf = s.buf := by
  induction qs with
  | nil => intro s hq _; exact ⟨s, rfl, hq, rfl⟩
  | cons q qs ih =>
    intro s hq hall
    obtain ⟨hr, hne⟩ := hall q (List.mem_cons_self ..)
    obtain ⟨s1, h1, hq1, hb1⟩ := rep_step v s hq q hr hne
    obtain ⟨s2, h2, hq2, hb2⟩ := ih s1 hq1 (fun q' hq' => hall q' (List.mem_cons_of_mem _ hq'))
    refine ⟨s2, ?_, hq2, by rw [hb2, hb1]⟩
    simp only [runPl, h1, R.ok_bind, h2]
    rfl

/-- the payloads of one well-formed packetisation are repetition payloads -/
theorem mux_payloads_rep (S : Bytes) (hS : WellFormedSection .syntax S) (h8 : 8 ≤ S.length)
    (m : Mux) (hm : WellFormedMux .syntax S m) (off : Nat) (rest : List Pl)
    (hus : ∀ q ∈ rest, q.us = false) (hrest : rest.map (·.bytes) = m.rest) :
    ∀ q ∈ (⟨true, m.first S, off⟩ :: rest : List Pl),
      RepPayload (versionOf S) q ∧ 1 ≤ q.bytes.length := by
  intro q hq
  rcases List.mem_cons.1 hq with e | e
  · subst e
    exact ⟨Or.inr ⟨S, m, hS, h8, rfl, hm, rfl, rfl⟩, hm.2.2.1.1⟩
  · have : q.bytes ∈ m.rest := by rw [← hrest]; exact List.mem_map_of_mem e
    exact ⟨Or.inl (hus q e), (hm.2.2.2.2 _ this).1⟩

/-! ### C10/C11 core: a new version is applied -/

/-- C03's `section_reassembled` pushed through the dedup layer: from any state satisfying the
buffer invariant whose remembered version differs, a well-formed transmission is delivered exactly
once (after at most one delivery completed by the pointer bytes), and the state is quiescent -/
theorem table_applied (S : Bytes) (hS : WellFormedSection .syntax S) (h8 : 8 ≤ S.length)
    (m : Mux) (hm : WellFormedMux .syntax S m)
    (s : St) (hs : PsiInv .syntax s) (hv : s.lastVersion ≠ some (versionOf S))
    (off : Nat) (rest : List Pl) (hus : ∀ q ∈ rest, q.us = false)
    (hrest : rest.map (·.bytes) = m.rest) :
    ∃ sfin,
      runPl Psi.table s (⟨true, m.first S, off⟩ :: rest)
        = .ok (sfin, (preSpec Psi.table s m.pre).2
                      ++ [⟨S, if m.k = S.length then some (off + 1 + m.pre.length) else none⟩])
      ∧ Quiescent (versionOf S) sfin ∧ sfin.ignoreRest = false ∧ sfin.dedupIgnore = false := by
  obtain ⟨hk, hmin, hcase⟩ := mux_case S m hm
  have hsizes := fun q hq => (mux_payloads_rep S hS h8 m hm off rest hus hrest q hq).2
  rw [runPl_eq Psi.table cfgOk_table _ s hs hsizes]
  simp only [runSpec]
  rw [runSpec_cont _ _ _ hus, hrest, consumeSpec_first_table S m hm s off]
  have hok := share_startOk S hS m.k m.tailBytes hk hmin hcase
  have hver := share_version S m.k m.tailBytes h8 hk hmin hcase
  rw [startSpec_table_diff _ _ _ hok (by rw [preSpec_lastVersion, hver]; exact hv), hver]
  have hstart := startSpec_wf .syntax S hS
    { (preSpec Psi.table s m.pre).1 with dedupIgnore := false, lastVersion := some (versionOf S) }
    m.k m.tailBytes (off + 1 + m.pre.length) hk hmin hcase
  simp only [cfgOf] at hstart
  rw [hstart]
  by_cases hkS : m.k = S.length
  · simp only [hkS, if_true]
    rw [runCont_idle _ _ _ (Or.inl rfl)]
    simp only [List.append_nil]
    exact ⟨_, rfl, ⟨rfl, rfl⟩, rfl, rfl⟩
  · simp only [hkS, if_false]
    rcases hm.2.2.2.1 with h | ⟨h1, h2, h3⟩
    · exact absurd h hkS
    · have := reassemble Psi.table (some (versionOf S)) false (by rfl) S m.extra m.conts m.k h1 h3
      unfold Mux.rest
      rw [this]
      simp only [List.append_nil]
      exact ⟨_, rfl, ⟨rfl, rfl⟩, rfl, rfl⟩

/-! ### F2 core: a start with the remembered version is never delivered -/

/-- from ANY state that remembers version `v` (buffer abandoned, complete, ignoring, …) a
well-formed transmission of a version-`v` section delivers only what its pointer bytes complete of
the previous buffer — never the section itself -/
theorem table_blocked (S : Bytes) (hS : WellFormedSection .syntax S) (h8 : 8 ≤ S.length)
    (m : Mux) (hm : WellFormedMux .syntax S m)
    (s : St) (hs : PsiInv .syntax s) (hv : s.lastVersion = some (versionOf S))
    (off : Nat) (rest : List Pl) (hus : ∀ q ∈ rest, q.us = false)
    (hrest : rest.map (·.bytes) = m.rest) :
    ∃ sfin,
      runPl Psi.table s (⟨true, m.first S, off⟩ :: rest) = .ok (sfin, (preSpec Psi.table s m.pre).2)
      ∧ sfin.lastVersion = some (versionOf S) ∧ sfin.dedupIgnore = true := by
  have hsizes := fun q hq => (mux_payloads_rep S hS h8 m hm off rest hus hrest q hq).2
  rw [runPl_eq Psi.table cfgOk_table _ s hs hsizes]
  simp only [runSpec]
  rw [runSpec_cont _ _ _ hus, hrest, first_same_version S hS h8 m hm s off hv]
  rw [runCont_table_ignoring _ _ rfl]
  simp only [List.append_nil]
  exact ⟨_, rfl, by rw [← hv]; exact preSpec_lastVersion _ _ _, rfl⟩

end Ts.Lemmas.C10
