import Ts.Lemmas.Projb
/-!
# Helper lemmas for C09 at the application level

* `esEvList_count_ccErr`, `esAll_counts`: the application events recorded for a packet's callbacks
  contain `.esCcErr tag` exactly as often as the callbacks contain `.ccErr`;
* `count_ccErr_proj`: the shared trace and the projection on `τ` contain `.esCcErr τ` equally often;
* `no_cont_after_ccErr`: acceptor lemma — in an accepted trace a `cont` after a `ccErr` is
  preceded by a `beginPkt` lying after that `ccErr`;
* `runPure_take_succ`, `started_needs_begin`: the filter reaches `started` from a non-`started`
  state only through a packet that emits `beginPkt`;
* `specStep_new_pes_fresh`: a PES handler whose tag did not exist before a dispatcher step is, after
  the step, in its initial state `{}`.
-/
namespace Ts.Lemmas.C09b
open Ts Ts.Demux Ts.App Ts.Lemmas.Proj Ts.Spec.Protocol
open Ts.Lemmas.C19 (R.bind_eq_ok R.ok_inj)
open Ts.Lemmas.C08 (stepOf stepPure runPure usOf hpOf ccOf payOf hdrOf continuous)

/-! ### counting `esCcErr` -/

theorem esEvList_count_ccErr (touch : Bool) (tag : Nat) (p : Bytes) (base : Nat) :
    ∀ (evs : List PesFilter.Ev) (l : List Ev), esEvList touch tag p base evs = .ok l →
      l.count (Ev.esCcErr tag) = evs.count PesFilter.Ev.ccErr := by
  intro evs
  induction evs with
  | nil =>
    intro l h
    have := R.ok_inj h
    subst this
    rfl
  | cons e es ih =>
    intro l h
    unfold esEvList at h
    obtain ⟨a, ha, h⟩ := R.bind_eq_ok h
    obtain ⟨rest, hrest, h⟩ := R.bind_eq_ok h
    have := R.ok_inj h
    subst this
    have key : (a == Ev.esCcErr tag) = (e == PesFilter.Ev.ccErr) := by
      cases e with
      | start => have := R.ok_inj ha; subst this; rfl
      | endPkt => have := R.ok_inj ha; subst this; rfl
      | ccErr => have := R.ok_inj ha; subst this; rw [beq_self_eq_true, beq_self_eq_true]
      | cont o l => have := R.ok_inj ha; subst this; rfl
      | beginPkt o l =>
        obtain ⟨bi, _, ha⟩ := R.bind_eq_ok ha
        cases touch with
        | false => have := R.ok_inj ha; subst this; rfl
        | true =>
          simp only [if_true] at ha
          obtain ⟨_, _, ha⟩ := R.bind_eq_ok ha
          have := R.ok_inj ha; subst this; rfl
    rw [List.count_cons, List.count_cons, ih rest hrest, key]

/-- block by block: `outs` has one block per packet, and block `k` contains `.esCcErr tag` as often
as the callbacks of packet `k` contain `.ccErr` -/
theorem esAll_counts (touch : Bool) (tag : Nat) : ∀ (pks : List Pk) (evss : List (List PesFilter.Ev))
    (outs : List (List Ev)), pks.length = evss.length → esAll touch tag pks evss = .ok outs →
    outs.map (List.count (Ev.esCcErr tag)) = evss.map (List.count PesFilter.Ev.ccErr) := by
  intro pks
  induction pks with
  | nil =>
    intro evss outs hl h
    cases evss with
    | nil => have := R.ok_inj h; subst this; rfl
    | cons _ _ => simp at hl
  | cons pk pks ih =>
    intro evss outs hl h
    cases evss with
    | nil => simp at hl
    | cons evs evss =>
      rw [esAll_cons] at h
      obtain ⟨a, ha, h⟩ := R.bind_eq_ok h
      obtain ⟨rest, hrest, h⟩ := R.bind_eq_ok h
      have := R.ok_inj h
      subst this
      simp only [List.map_cons, List.cons.injEq]
      exact ⟨esEvList_count_ccErr _ _ _ _ _ _ ha,
        ih evss rest (by simpa using hl) hrest⟩

/-- `.esCcErr τ` is tagged `τ`, so the projection loses none of them -/
theorem count_ccErr_proj (τ : Nat) (c : Ctx) :
    (proj τ c).count (Ev.esCcErr τ) = c.trace.count (Ev.esCcErr τ) := by
  unfold proj
  rw [List.count_eq_countP, List.count_eq_countP, List.countP_filter, List.countP_reverse]
  apply List.countP_congr
  intro e _
  cases e <;> simp [tagOf]

/-! ### the acceptor -/

/-- in a trace accepted from ANY state, continuation data after a `ccErr` is preceded by a
`beginPkt` that lies after that `ccErr`, with nothing but continuation data in between -/
theorem no_cont_after_ccErr {s s' : PState} {pre mid post : List PesFilter.Ev} {o l : Nat}
    (h : accepts s (pre ++ .ccErr :: (mid ++ .cont o l :: post)) = some s') :
    ∃ m1 o' l' m2, mid = m1 ++ .beginPkt o' l' :: m2 ∧ ∀ x ∈ m2, isCont x := by
  obtain ⟨m, _, hpost⟩ := accepts_append_some h
  obtain ⟨m', hm', hrest⟩ := accepts_cons_some hpost
  exact cont_end_preceded_by_begin hrest (step_ccErr hm').1 (Or.inl ⟨o, l, rfl⟩)

/-! ### the filter reaches `started` only through `beginPkt` -/

theorem runPure_take_succ (f : PesFilter.F) (ps : List Bytes) (n : Nat) (p : Bytes)
    (hn : ps[n]? = some p) :
    (runPure f (ps.take (n + 1))).1 = (stepOf (runPure f (ps.take n)).1 p).1 := by
  have : ps.take (n + 1) = ps.take n ++ [p] := by
    rw [List.take_add_one, hn]; rfl
  rw [this, Ts.Lemmas.C08.runPure_append]
  rfl

/-- if the state after `a` packets is not `started` and the state after `b ≥ a` packets is, some
packet `i` with `a ≤ i < b` emitted `beginPkt` (so it is a unit start with a recognised header) -/
theorem started_needs_begin (f : PesFilter.F) (ps : List Bytes) (a : Nat) :
    ∀ b, a ≤ b → (runPure f (ps.take a)).1.st ≠ .started →
      (runPure f (ps.take b)).1.st = .started →
      ∃ i q o l, a ≤ i ∧ i < b ∧ ps[i]? = some q ∧ usOf q = true ∧
        PesFilter.Ev.beginPkt o l ∈ (stepOf (runPure f (ps.take i)).1 q).2 := by
  intro b
  induction b with
  | zero =>
    intro hab h1 h2
    have : a = 0 := by omega
    subst this
    exact absurd h2 h1
  | succ b ih =>
    intro hab h1 h2
    by_cases hba : a = b + 1
    · subst hba; exact absurd h2 h1
    · have hab' : a ≤ b := by omega
      cases hq : ps[b]? with
      | none =>
        have hlen : ps.length ≤ b := by
          rcases Nat.lt_or_ge b ps.length with x | x
          · rw [List.getElem?_eq_getElem x] at hq; cases hq
          · exact x
        rw [List.take_of_length_le (by omega)] at h2
        rw [← List.take_of_length_le hlen] at h2
        obtain ⟨i, q, o, l, x1, x2, x3⟩ := ih hab' h1 h2
        exact ⟨i, q, o, l, x1, by omega, x3⟩
      | some q =>
        rw [runPure_take_succ f ps b q hq] at h2
        rcases (Ts.Lemmas.C08.stepPure_started_iff ..).mp h2 with ⟨hu, hp, hh⟩ | ⟨_, hs, _⟩
        · cases hpay : payOf q with
          | none => rw [hpay] at hp; cases hp
          | some r =>
            refine ⟨b, q, r.1, r.2, hab', Nat.lt_succ_self _, hq, hu, ?_⟩
            exact (Ts.Lemmas.C08.stepPure_begin_mem ..).mpr ⟨hu, hpay, hh⟩
        · obtain ⟨i, q', o, l, x1, x2, x3⟩ := ih hab' h1 hs
          exact ⟨i, q', o, l, x1, by omega, x3⟩

/-! ### new consumer instances start in the initial state -/

theorem construct_byPid_not_pes (c : Ctx) (pid σ : Nat) (f : PesFilter.F) :
    (construct c (.byPid pid)).1 ≠ .pes σ f := by
  unfold construct
  cases pid <;> simp

/-- `ensure` installs no PES handler -/
theorem ensure_pes_old (t : Tab Handler) (c : Ctx) (pid : Nat) (t1 : Tab Handler) (c1 : Ctx)
    (h : ensure App.sem t c pid = .ok (t1, c1)) (q σ : Nat) (f : PesFilter.F)
    (hg : t1.get q = some (.pes σ f)) : t.get q = some (.pes σ f) := by
  rcases ensure_cases t c pid t1 c1 h with ⟨_, e1, _⟩ | ⟨_, e1, _⟩
  · subst e1; exact hg
  · subst e1
    rw [Tab.get_insert] at hg
    split at hg
    · injection hg with hg
      exact absurd hg (construct_byPid_not_pes c pid σ f)
    · exact hg

/-- ONE dispatcher step, ANY packet: a PES handler found in the table after the step under a tag that
did not exist before the step (`c.nextTag ≤ τ'`) is in its initial state `{}` — a replacement never
inherits the counter or the state of the handler it replaces -/
theorem specStep_new_pes_fresh (t : Tab Handler) (c : Ctx) (pk : Pk) (t' : Tab Handler) (c' : Ctx)
    (hi : TagInv (t, c)) (h : specStep App.sem (t, c) pk = .ok (t', c'))
    (q τ' : Nat) (f' : PesFilter.F) (hg : t'.get q = some (.pes τ' f')) (hnew : c.nextTag ≤ τ') :
    f' = {} := by
  have hold : ∀ f0, t.get q ≠ some (.pes τ' f0) := by
    intro f0 hx
    have : τ' < c.nextTag := hi.1.1 q _ τ' hx rfl
    omega
  rw [specStep_eq] at h
  obtain ⟨r, hE, h⟩ := R.bind_eq_ok h
  obtain ⟨t1, c1⟩ := r
  dsimp only at h
  split at h
  · have := R.ok_inj h
    simp only [Prod.mk.injEq] at this
    rw [← this.1] at hg
    exact absurd (ensure_pes_old t c pk.pid t1 c1 hE q τ' f' hg) (hold f')
  · cases hgq : t1.get pk.pid with
    | none => rw [hgq] at h; cases h
    | some hd =>
      rw [hgq] at h
      dsimp only at h
      obtain ⟨x, hx, h⟩ := R.bind_eq_ok h
      obtain ⟨h', c2, chg⟩ := x
      have := R.ok_inj h
      simp only [Prod.mk.injEq] at this
      obtain ⟨e1, e2⟩ := this
      subst e1 e2
      obtain ⟨⟨_, _, hfp⟩, _, hkind⟩ := consume_facts hd c1 pk h' c2 chg hx
      rcases get_applyChanges_cases chg _ q _ hg with y | y
      · rw [Tab.get_insert] at y
        split at y
        · rename_i e
          injection y with y
          obtain ⟨f0, hf0⟩ := hkind τ' f' y
          subst hf0 e
          exact absurd (ensure_pes_old t c pk.pid t1 c1 hE pk.pid τ' f0 hgq) (hold f0)
        · exact absurd (ensure_pes_old t c pk.pid t1 c1 hE q τ' f' y) (hold f')
      · exact hfp _ y q τ' f' rfl

end Ts.Lemmas.C09b
