import Ts.Lemmas.C05Hd
import Ts.Lemmas.C05HRun
/-!
# C05 over whole histories — helper lemmas, part 5

* the `F10` / `F10c` probes (shared elementary PID), evaluated by the kernel and cut into a history
* `Current` / `currentOf` / `CollisionFreeNow`: the tables IN FORCE after a history and their
  disjointness; `routed_by_current_pmt_aux`: the invariant behind `routed_by_current_pmt`
* `collisionFreeNowAll_of_collisionFree`: the global condition implies the per-prefix one
* `CtxEq`, `consume_table_uniform`, `pushSpec_interleaved`, `sim_run_I`: elementary-stream packets
  interleaved with the packets of one table (`RealisesI`)
-/
namespace Ts.Lemmas.C05He
open Ts Ts.Tables Ts.App Ts.Demux Ts.Spec Ts.Spec.TableSpec Ts.Spec.Routing Ts.Spec.RoutingHistory
open Ts.Spec.SectionMux Ts.Lemmas.C03 Ts.Lemmas.C10 Ts.Lemmas.C05 Ts.Lemmas.C05Run Ts.Lemmas.C05H
open Ts.Lemmas.C05HRun

/-! ### the F10 probe: bytes -/

/-- PAT version 0 with TWO programs: 1 → 0x100, 2 → 0x110 -/
def pat2V0 : Bytes :=
  [0x47, 0x40, 0x00, 0x10, 0x00, 0x00, 0xb0, 0x11, 0x00, 0x01, 0xc1, 0x00, 0x00, 0x00, 0x01, 0xe1, 0x00,
   0x00, 0x02, 0xe1, 0x10, 0x07, 0x73, 0x21, 0x0a] ++ List.replicate 163 0xff

/-- PMT version 0 of program 2 on PID 0x110: the SAME streams as program 1 (0x1b on 0x101, 0x0f on
0x102, PCR PID 0x101) -/
def pmt2V0 : Bytes :=
  [0x47, 0x41, 0x10, 0x10, 0x00, 0x02, 0xb0, 0x17, 0x00, 0x02, 0xc1, 0x00, 0x00, 0xe1, 0x01, 0xf0, 0x00,
   0x1b, 0xe1, 0x01, 0xf0, 0x00, 0x0f, 0xe1, 0x02, 0xf0, 0x00, 0x19, 0x41, 0xa1, 0xf5] ++ List.replicate 157 0xff

/-- a unit-start packet on PID 0x102 carrying the start of a PES packet (stream id 0xc0) -/
def probeA : Bytes :=
  [0x47, 0x41, 0x02, 0x10, 0x00, 0x00, 0x01, 0xc0, 0x00, 0x00, 0x80, 0x00, 0x00] ++ List.replicate 175 0x55

/-- `F10 demux b0t0 …` of `/tmp/pr/f10.txt` (known finding F10 in `/verif/known_findings.json`):
PAT v0 {1 → 0x100, 2 → 0x110}, PMT(0x100) v0 {0x101, 0x102}, PMT(0x110) v0 {0x101, 0x102},
PMT(0x100) v1 {0x101}, a packet on 0x102 -/
def f10Bytes : Bytes := pat2V0 ++ pmtV0 ++ pmt2V0 ++ pmtV1 ++ probeA

/-- `F10c`: the control, without PMT(0x100) v1 -/
def f10cBytes : Bytes := pat2V0 ++ pmtV0 ++ pmt2V0 ++ probeA

/-- the `construct` callbacks up to and including PMT(0x110) v0 (both probes) -/
def constructsShared : List (Req × Nat) :=
  [(.byPid 0, 0), (.pmt 0x100 1, 1), (.pmt 0x110 2, 2),
   (.stream 0x100 0x1b 0x101 0x101 [] [], 3), (.stream 0x100 0x0f 0x102 0x101 [] [], 4),
   (.stream 0x110 0x1b 0x101 0x101 [] [], 5), (.stream 0x110 0x0f 0x102 0x101 [] [], 6)]

/-- the elementary-stream callbacks in the trace, oldest first: (tag, constructor) -/
def esTags (c : Ctx) : List (Nat × Nat) :=
  c.trace.reverse.filterMap fun e => match e with
    | .esStart t => some (t, 0) | .esBegin t _ => some (t, 1) | .esCont t _ _ => some (t, 2)
    | .esEnd t => some (t, 3) | .esCcErr t => some (t, 4) | _ => none

/-- F10, after the four tables: PMT(0x100) v1 — applied by the instance that applied v0 — removed
0x102 although program 2's PMT (applied in between, tag 6) lists it: the slot is EMPTY -/
theorem f10_tables : observe (runApp {} [pat2V0 ++ pmtV0 ++ pmt2V0 ++ pmtV1]) = some
    { constructs := constructsShared ++ [(.stream 0x100 0x1b 0x101 0x101 [] [], 7)],
      pkts := [],
      slot100 := .pmt 0x100 1 [0x101], slot101 := .pes 7, slot102 := .empty,
      slot110 := .pmt 0x110 2 [0x101, 0x102] } := by
  decide +kernel

/-- … and the packet on 0x102 is offered to the application as an unknown PID (`ByPid 0x102`, tag 8)
and recorded by that recorder (byte offset 752) — exactly the Rust output of the probe -/
theorem f10_run : observe (runApp {} [f10Bytes]) = some
    { constructs := constructsShared ++ [(.stream 0x100 0x1b 0x101 0x101 [] [], 7), (.byPid 0x102, 8)],
      pkts := [(8, 752)],
      slot100 := .pmt 0x100 1 [0x101], slot101 := .pes 7, slot102 := .recorder 8,
      slot110 := .pmt 0x110 2 [0x101, 0x102] } := by
  decide +kernel

/-- control: without PMT(0x100) v1 the packet is consumed by the PES filter with tag 6 that program
2's PMT installed; no `ByPid` request -/
theorem f10c_run : observe (runApp {} [f10cBytes]) = some
    { constructs := constructsShared, pkts := [],
      slot100 := .pmt 0x100 1 [0x101, 0x102], slot101 := .pes 5, slot102 := .pes 6,
      slot110 := .pmt 0x110 2 [0x101, 0x102] } := by
  decide +kernel

theorem esTags_some (r : R (Tab Handler × Ctx)) (l : List (Nat × Nat))
    (h : (match r with | .ok (_, c) => some (esTags c) | .panic _ => none) = some l) :
    ∃ t c, r = .ok (t, c) ∧ esTags c = l := by
  cases r with
  | panic s => cases h
  | ok tc =>
    obtain ⟨t, c⟩ := tc
    simp only [Option.some.injEq] at h
    exact ⟨t, c, rfl, h⟩

def esTagsOf (r : R (Tab Handler × Ctx)) : Option (List (Nat × Nat)) :=
  match r with | .ok (_, c) => some (esTags c) | .panic _ => none

theorem esTagsOf_some (r : R (Tab Handler × Ctx)) (l : List (Nat × Nat)) (h : esTagsOf r = some l) :
    ∃ t c, r = .ok (t, c) ∧ esTags c = l := by
  cases r with
  | panic s => cases h
  | ok tc =>
    obtain ⟨t, c⟩ := tc
    simp only [esTagsOf, Option.some.injEq] at h
    exact ⟨t, c, rfl, h⟩

/-- control: the elementary-stream callbacks are `start_stream` (tag 6, when the probe packet
arrives) and `begin_packet` (tag 6) — the probe packet is consumed by program 2's handler -/
theorem f10c_es : esTagsOf (runApp {} [f10cBytes]) = some [(6, 0), (6, 1)] := by decide +kernel

/-- F10: NO elementary-stream callback at all — the probe packet reaches no PES consumer -/
theorem f10_es : esTagsOf (runApp {} [f10Bytes]) = some [] := by decide +kernel

/-! ### the F10 probe as a history -/

/-- PAT version 0, two programs -/
def patS2 : Bytes :=
  [0x00, 0xb0, 0x11, 0x00, 0x01, 0xc1, 0x00, 0x00, 0x00, 0x01, 0xe1, 0x00, 0x00, 0x02, 0xe1, 0x10,
   0x07, 0x73, 0x21, 0x0a]

/-- PMT version 0 of program 2 (body = `body0`) -/
def pmt2S0 : Bytes :=
  [0x02, 0xb0, 0x17, 0x00, 0x02, 0xc1, 0x00, 0x00, 0xe1, 0x01, 0xf0, 0x00, 0x1b, 0xe1, 0x01, 0xf0, 0x00,
   0x0f, 0xe1, 0x02, 0xf0, 0x00, 0x19, 0x41, 0xa1, 0xf5]

def pat2 : List PatEntry := [.program 1 0x100, .program 2 0x110]

/-- PAT {1 → 0x100, 2 → 0x110}; PMT(0x100) v0 {0x101, 0x102}; PMT(0x110) v0 {0x101, 0x102};
PMT(0x100) v1 {0x101} -/
def sharedHist : List Event :=
  [.patApplied 0 pat2, .pmtApplied 0x100 0 body0, .pmtApplied 0x110 0 body0, .pmtApplied 0x100 1 body1]

/-- … followed by the probe packet on 0x102 -/
def sharedHistP : List Event := sharedHist ++ [.esPacket 0x102]

def f10Pks : List Pk :=
  [⟨pat2V0, 0, 0, false, false⟩, ⟨pmtV0, 188, 0x100, false, false⟩, ⟨pmt2V0, 376, 0x110, false, false⟩,
   ⟨pmtV1, 564, 0x100, false, false⟩, ⟨probeA, 752, 0x102, false, false⟩]

theorem f10_frame : Demux.frame f10Bytes 0 = .ok f10Pks := by decide +kernel

theorem shared_wf : WF initRoute sharedHist := by decide +kernel
theorem sharedP_wf : WF initRoute sharedHistP := by decide +kernel
theorem shared_not_cf : ¬ CollisionFree sharedHist := by decide +kernel

theorem tx_pat2 (off : Nat) : Transmits 0 patS2 [⟨pat2V0, off, 0, false, false⟩] :=
  transmits_one 0 patS2 _ (by decide +kernel) (by decide +kernel) (by decide +kernel)
    ⟨rfl, rfl, by show pat2V0.length = 188; decide +kernel⟩ (by decide +kernel)
    (by show plOf pat2V0 = _; decide +kernel)

theorem tx_pmt2_0 (off : Nat) : Transmits 0x110 pmt2S0 [⟨pmt2V0, off, 0x110, false, false⟩] :=
  transmits_one 0x110 pmt2S0 _ (by decide +kernel) (by decide +kernel) (by decide +kernel)
    ⟨rfl, rfl, by show pmt2V0.length = 188; decide +kernel⟩ (by decide +kernel)
    (by show plOf pmt2V0 = _; decide +kernel)

theorem re_pat2 (r : Route) (off : Nat) :
    RealisesEv r (.patApplied 0 pat2) [⟨pat2V0, off, 0, false, false⟩] :=
  ⟨patS2, tx_pat2 off, by decide +kernel, by decide +kernel, by decide +kernel⟩

theorem re_pmt2_0 (r : Route) (off : Nat) :
    RealisesEv r (.pmtApplied 0x110 0 body0) [⟨pmt2V0, off, 0x110, false, false⟩] :=
  ⟨pmt2S0, tx_pmt2_0 off, by decide +kernel, by decide +kernel, by decide +kernel, by decide +kernel⟩

theorem re_probeA (r : Route) (off : Nat) :
    RealisesEv r (.esPacket 0x102) [⟨probeA, off, 0x102, false, false⟩] :=
  ⟨_, rfl, rfl, by show probeA.length = 188; decide +kernel⟩

theorem f10_realises : Realises initRoute sharedHistP f10Pks :=
  Realises.cons (re_pat2 _ 0) (Realises.cons (re_pmt0 _ 188) (Realises.cons (re_pmt2_0 _ 376)
    (Realises.cons (re_pmt1 _ 564) (Realises.cons (re_probeA _ 752) (Realises.nil _)))))

/-- after the four tables 0x102 is un-routed; 0x110 still remembers {0x101, 0x102} -/
theorem shared_slots :
    (run initRoute sharedHist).slots 0x102 = none ∧
    (run initRoute sharedHist).slots 0x101 = some (.stream 0x100 0x1b 0x101 0x101 [] [], 7) ∧
    (run initRoute sharedHist).slots 0x110 = some (.pmt 0x110 2, 2) ∧
    ((run initRoute sharedHist).pmt 0x110).streams = [⟨0x1b, 0x101, []⟩, ⟨0x0f, 0x102, []⟩] ∧
    (run initRoute sharedHistP).slots 0x102 = some (.byPid 0x102, 8) := by decide +kernel

theorem sharedP_requests : historyRequests initRoute sharedHistP =
    [.pmt 0x100 1, .pmt 0x110 2, .stream 0x100 0x1b 0x101 0x101 [] [], .stream 0x100 0x0f 0x102 0x101 [] [],
     .stream 0x110 0x1b 0x101 0x101 [] [], .stream 0x110 0x0f 0x102 0x101 [] [],
     .stream 0x100 0x1b 0x101 0x101 [] [], .byPid 0x102] := by decide +kernel

/-! ### the tables in force -/

theorem curFrom_cons (T : Current) (ev : Event) (evs : List Event) :
    curFrom T (ev :: evs) = curFrom (stepCurrent T ev) evs := rfl

theorem curFrom_append (T : Current) (a b : List Event) : curFrom T (a ++ b) = curFrom (curFrom T a) b := by
  unfold curFrom; rw [List.foldl_append]

theorem mem_progPids (es : List PatEntry) (p : Nat) :
    p ∈ progPids es ↔ ∃ e ∈ es, isProgram e = true ∧ e.pid = p := by
  unfold progPids
  rw [List.mem_map]
  constructor
  · rintro ⟨e, he, hp⟩
    rw [List.mem_filter] at he
    exact ⟨e, he.1, he.2, hp⟩
  · rintro ⟨e, he, h1, hp⟩
    exact ⟨e, List.mem_filter.2 ⟨he, h1⟩, hp⟩

theorem progPids_sub (es : List PatEntry) (p : Nat) (h : p ∈ progPids es) : p ∈ es.map PatEntry.pid := by
  obtain ⟨e, he, -, hp⟩ := (mem_progPids es p).1 h
  exact List.mem_map.2 ⟨e, he, hp⟩

/-- the invariant tying the abstract route to the tables in force -/
structure Agree (r : Route) (T : Current) : Prop where
  pat : r.patEntries = T.pat
  bound : ∀ e ∈ r.patEntries, e.pid ≤ 0x1fff
  /-- a PID routed to a PMT handler is announced as a program-map PID by the current PAT -/
  prog : ∀ p a b tag, r.slots p = some (.pmt a b, tag) → p ∈ progPids r.patEntries
  /-- what the current handler instance on an announced program-map PID remembers is part of the PMT
  in force on that PID -/
  inst : ∀ p ∈ progPids T.pat, ∀ s ∈ (r.pmt p).streams, ∃ b, (p, b) ∈ T.pmt ∧ s ∈ streamsOf b
  /-- every PID listed by a PMT in force is routed by the request of its (last) entry -/
  routed : ∀ p body, (p, body) ∈ T.pmt → ∀ q req, lastFor (pmtReqs p body) q = some req →
    ∃ tag, r.slots q = some (req, tag)

theorem agree_init : Agree initRoute ⟨[], []⟩ := by
  refine ⟨rfl, fun e he => (by cases he), ?_, fun p hp => (by cases hp), fun p body h => (by cases h)⟩
  intro p a b tag h
  simp only [initRoute] at h
  split at h <;> cases h

theorem stream_of_lastFor {p : Nat} {body : Bytes} {q : Nat} {req : Req}
    (h : lastFor (pmtReqs p body) q = some req) : ∃ s ∈ streamsOf body, s.pid = q := by
  have := mem_pids_of_lastFor h
  rw [pmtReqs_pids] at this
  exact List.mem_map.1 this

theorem agree_pat (r : Route) (T : Current) (ver : Nat) (es : List PatEntry) (h : Agree r T)
    (hwf : wfEv r (.patApplied ver es)) (hc : CollisionFreeNow T)
    (hc' : CollisionFreeNow (stepCurrent T (.patApplied ver es))) :
    Agree (stepRoute r (.patApplied ver es)) (stepCurrent T (.patApplied ver es)) := by
  obtain ⟨-, -, hes⟩ := hwf
  refine ⟨rfl, fun e he => (hes e he).1, ?_, ?_, ?_⟩
  · intro p a b tag hs
    show p ∈ progPids es
    rw [stepRoute_pat_slots] at hs
    unfold applied at hs
    cases hl : lastFor (tagged r.reqs.length (patRequests es)) p with
    | some x =>
      rw [hl] at hs
      simp only [Option.some.injEq] at hs
      subst hs
      obtain ⟨hm, -, -⟩ := tagged_mem _ _ _ _ _ (lastFor_mem _ _ _ hl)
      unfold patRequests at hm
      obtain ⟨e, he, hee⟩ := List.mem_map.1 hm
      simp only [Prod.mk.injEq] at hee
      obtain ⟨e1, e2⟩ := hee
      cases e with
      | program pn pid => exact (mem_progPids es p).2 ⟨_, he, rfl, e1⟩
      | network pid => cases e2
    | none =>
      rw [hl] at hs
      simp only at hs
      split at hs
      · cases hs
      · rename_i hno
        exfalso
        apply hno
        have hp := h.prog p a b tag hs
        have hreg := progPids_sub _ _ hp
        obtain ⟨e, he, hep⟩ := List.mem_map.1 hreg
        have hb := h.bound e he
        exact ⟨by rw [← hep]; omega, hreg, lastFor_none _ _ hl⟩
  · intro p hp s hs
    exfalso
    have hp' : p ∈ progPids es := hp
    obtain ⟨e, he, hprog, hep⟩ := (mem_progPids es p).1 hp'
    rw [stepRoute_pat_pmt] at hs
    cases hl : lastFor (tagged r.reqs.length (patRequests es)) p with
    | none =>
      have := lastFor_none _ _ hl
      rw [tagged_pids, patRequests_pids] at this
      exact this (List.mem_map.2 ⟨e, he, hep⟩)
    | some x =>
      obtain ⟨req, tag⟩ := x
      obtain ⟨hm, -, -⟩ := tagged_mem _ _ _ _ _ (lastFor_mem _ _ _ hl)
      unfold patRequests at hm
      obtain ⟨e', he', hee⟩ := List.mem_map.1 hm
      simp only [Prod.mk.injEq] at hee
      obtain ⟨e1, e2⟩ := hee
      have hk : isProgram e' = isProgram e := hc'.1 e' he' e he (by rw [e1, hep])
      rw [hprog] at hk
      cases e' with
      | network pid => cases hk
      | program pn pid =>
        subst e2
        rw [hl] at hs
        simp only [patRequest] at hs
        cases hs
  · intro p body hm q req hq
    have hm' : (p, body) ∈ T.pmt.filter fun x => decide (x.1 ∈ progPids es) := hm
    rw [List.mem_filter] at hm'
    obtain ⟨hmT, -⟩ := hm'
    obtain ⟨tag, hs⟩ := h.routed p body hmT q req hq
    obtain ⟨s, hs1, hs2⟩ := stream_of_lastFor hq
    refine ⟨tag, ?_⟩
    rw [slot_kept r q (.patApplied ver es) ⟨?_, ?_⟩]; exact hs
    · intro hmem
      obtain ⟨e, he, heq⟩ := List.mem_map.1 hmem
      exact hc'.2.1 (p, body) hm s hs1 e he (by rw [hs2, heq])
    · intro hmem
      obtain ⟨e, he, heq⟩ := List.mem_map.1 hmem
      rw [h.pat] at he
      exact hc.2.1 (p, body) hmT s hs1 e he (by rw [hs2, heq])

theorem agree_pmt (r : Route) (T : Current) (p0 ver : Nat) (b : Bytes) (h : Agree r T)
    (hwf : wfEv r (.pmtApplied p0 ver b)) (hc : CollisionFreeNow T)
    (hc' : CollisionFreeNow (stepCurrent T (.pmtApplied p0 ver b))) :
    Agree (stepRoute r (.pmtApplied p0 ver b)) (stepCurrent T (.pmtApplied p0 ver b)) := by
  obtain ⟨hrt, -, -⟩ := hwf
  obtain ⟨prog0, tag0, hs0⟩ := (pmtRouted_iff r p0).1 hrt
  have hp0 : p0 ∈ progPids T.pat := by rw [← h.pat]; exact h.prog p0 _ _ _ hs0
  refine ⟨h.pat, h.bound, ?_, ?_, ?_⟩
  · intro p a b' tag hs
    show p ∈ progPids r.patEntries
    rw [stepRoute_pmt_slots] at hs
    unfold applied at hs
    cases hl : lastFor (tagged r.reqs.length (pmtReqs p0 b)) p with
    | some x =>
      rw [hl] at hs
      simp only [Option.some.injEq] at hs
      subst hs
      obtain ⟨hm, -, -⟩ := tagged_mem _ _ _ _ _ (lastFor_mem _ _ _ hl)
      unfold pmtReqs pmtRequests at hm
      obtain ⟨e, -, hee⟩ := List.mem_map.1 hm
      simp only [Prod.mk.injEq, streamRequest] at hee
      cases hee.2
    | none =>
      rw [hl] at hs
      simp only at hs
      split at hs
      · cases hs
      · exact h.prog p a b' tag hs
  · intro p hp s hs
    have hp' : p ∈ progPids T.pat := hp
    rw [stepRoute_pmt_pmt] at hs
    by_cases e : p = p0
    · rw [if_pos e] at hs
      subst e
      exact ⟨b, List.mem_cons_self, hs⟩
    · rw [if_neg e] at hs
      obtain ⟨b1, hb1, hs1⟩ := h.inst p hp' s hs
      exact ⟨b1, List.mem_cons_of_mem _ (List.mem_filter.2 ⟨hb1, by simpa using e⟩), hs1⟩
  · intro p body hm q req hq
    have hm' : (p, body) ∈ (p0, b) :: T.pmt.filter fun x => decide (x.1 ≠ p0) := hm
    rcases List.mem_cons.1 hm' with e | hmf
    · simp only [Prod.mk.injEq] at e
      obtain ⟨rfl, rfl⟩ := e
      have hlt := lastFor_tagged (pmtReqs p body) r.reqs.length q
      rw [hq] at hlt
      cases hl : lastFor (tagged r.reqs.length (pmtReqs p body)) q with
      | none => rw [hl] at hlt; cases hlt
      | some a =>
        rw [hl] at hlt
        simp only [Option.map_some, Option.some.injEq] at hlt
        refine ⟨a.2, ?_⟩
        rw [stepRoute_pmt_slots]; unfold applied; rw [hl, hlt]
    · rw [List.mem_filter] at hmf
      obtain ⟨hmT, hne⟩ := hmf
      have hne' : p ≠ p0 := by simpa using hne
      obtain ⟨tag, hs⟩ := h.routed p body hmT q req hq
      obtain ⟨s, hs1, hs2⟩ := stream_of_lastFor hq
      refine ⟨tag, ?_⟩
      rw [slot_kept r q (.pmtApplied p0 ver b) ⟨?_, ?_⟩]; exact hs
      · intro hmem
        obtain ⟨s', hs', heq⟩ := List.mem_map.1 hmem
        exact hne' (hc'.2.2 (p, body) hm (p0, b) List.mem_cons_self s hs1 s' hs' (by rw [hs2, heq]))
      · intro hmem
        obtain ⟨s', hs', heq⟩ := List.mem_map.1 hmem
        obtain ⟨b1, hb1, hs1'⟩ := h.inst p0 hp0 s' hs'
        exact hne' (hc.2.2 (p, body) hmT (p0, b1) hb1 s hs1 s' hs1' (by rw [hs2, heq]))

theorem agree_es (r : Route) (T : Current) (q' : Nat) (h : Agree r T) :
    Agree (stepRoute r (.esPacket q')) T := by
  cases hq : r.slots q' with
  | some x =>
    have : stepRoute r (.esPacket q') = r := by simp only [stepRoute, hq]
    rw [this]; exact h
  | none =>
    have : stepRoute r (.esPacket q') =
        { r with slots := fun q => if q = q' then some (.byPid q', r.reqs.length) else r.slots q,
                 reqs := r.reqs ++ [.byPid q'] } := by simp only [stepRoute, hq]
    rw [this]
    refine ⟨h.pat, h.bound, ?_, h.inst, ?_⟩
    · intro p a b tag hs
      simp only at hs
      by_cases e : p = q'
      · rw [if_pos e] at hs; cases hs
      · rw [if_neg e] at hs; exact h.prog p a b tag hs
    · intro p body hm q req hq'
      obtain ⟨tag, hs⟩ := h.routed p body hm q req hq'
      refine ⟨tag, ?_⟩
      simp only
      by_cases e : q = q'
      · rw [e, hq] at hs; cases hs
      · rw [if_neg e]; exact hs

theorem agree_step (r : Route) (T : Current) (ev : Event) (h : Agree r T) (hwf : wfEv r ev)
    (hc : CollisionFreeNow T) (hc' : CollisionFreeNow (stepCurrent T ev)) :
    Agree (stepRoute r ev) (stepCurrent T ev) := by
  cases ev with
  | patApplied ver es => exact agree_pat r T ver es h hwf hc hc'
  | pmtApplied p ver b => exact agree_pmt r T p ver b h hwf hc hc'
  | esPacket q => exact agree_es r T q h
  | repetition q => exact h

theorem agree_run : ∀ (evs : List Event) (r : Route) (T : Current), Agree r T → WF r evs →
    (∀ k, CollisionFreeNow (curFrom T (evs.take k))) → Agree (run r evs) (curFrom T evs) := by
  intro evs
  induction evs with
  | nil => intro r T h _ _; exact h
  | cons ev evs ih =>
    intro r T h hwf hcf
    obtain ⟨hw1, hw2⟩ := hwf
    exact ih _ _ (agree_step r T ev h hw1 (hcf 0) (hcf 1)) hw2 (fun k => hcf (k + 1))

/-- a PID listed by a PMT in force is routed by the request of its (last) entry -/
theorem routed_by_current_pmt (evs : List Event) (hwf : WF initRoute evs) (hcf : CollisionFreeNowAll evs)
    (p : Nat) (body : Bytes) (hm : (p, body) ∈ (currentOf evs).pmt) (q : Nat) (req : Req)
    (hq : lastFor (pmtReqs p body) q = some req) :
    ∃ tag, (run initRoute evs).slots q = some (req, tag) :=
  (agree_run evs initRoute ⟨[], []⟩ agree_init hwf hcf).routed p body hm q req hq


/-- the PMT in force on `p` stays in force over events that neither apply a PMT on `p` nor apply a PAT
not announcing `p` as a program-map PID -/
theorem cur_keeps (p : Nat) (body : Bytes) : ∀ (post : List Event) (T : Current), (p, body) ∈ T.pmt →
    (∀ ev ∈ post, (∀ v b, ev ≠ .pmtApplied p v b) ∧ ∀ v es, ev = .patApplied v es → p ∈ progPids es) →
    (p, body) ∈ (curFrom T post).pmt := by
  intro post
  induction post with
  | nil => intro T h _; exact h
  | cons ev post ih =>
    intro T h hall
    rw [curFrom_cons]
    refine ih _ ?_ (fun ev' hm => hall ev' (List.mem_cons_of_mem _ hm))
    obtain ⟨h1, h2⟩ := hall ev List.mem_cons_self
    cases ev with
    | patApplied v es =>
      exact List.mem_filter.2 ⟨h, by simpa using h2 v es rfl⟩
    | pmtApplied p' v b =>
      have hne : p ≠ p' := fun e => h1 v b (by rw [e])
      exact List.mem_cons_of_mem _ (List.mem_filter.2 ⟨h, by simpa using hne⟩)
    | esPacket q => exact h
    | repetition q => exact h

theorem cur_after_pmt (pre post : List Event) (p ver : Nat) (body : Bytes)
    (hpost : ∀ ev ∈ post, (∀ v b, ev ≠ .pmtApplied p v b) ∧ ∀ v es, ev = .patApplied v es → p ∈ progPids es) :
    (p, body) ∈ (currentOf (pre ++ .pmtApplied p ver body :: post)).pmt := by
  unfold currentOf
  rw [curFrom_append, curFrom_cons]
  exact cur_keeps p body post _ List.mem_cons_self hpost

/-! ### the global condition implies the per-prefix one -/

def CurWithin (P : List PatEntry) (E : List (Nat × Nat)) (T : Current) : Prop :=
  (∀ e ∈ T.pat, e ∈ P) ∧ (∀ x ∈ T.pmt, ∀ s ∈ streamsOf x.2, (x.1, s.pid) ∈ E)

theorem curWithin_step (P : List PatEntry) (E : List (Nat × Nat)) (T : Current) (ev : Event)
    (h : CurWithin P E T) (he : EvWithin P E ev) : CurWithin P E (stepCurrent T ev) := by
  cases ev with
  | patApplied v es =>
    refine ⟨he, ?_⟩
    intro x hx
    exact h.2 x (List.mem_filter.1 hx).1
  | pmtApplied p v b =>
    refine ⟨h.1, ?_⟩
    intro x hx s hs
    rcases List.mem_cons.1 hx with e | hx'
    · subst e; exact he s hs
    · exact h.2 x (List.mem_filter.1 hx').1 s hs
  | esPacket q => exact h
  | repetition q => exact h

theorem curWithin_run (P : List PatEntry) (E : List (Nat × Nat)) : ∀ (evs : List Event) (T : Current),
    CurWithin P E T → (∀ ev ∈ evs, EvWithin P E ev) → CurWithin P E (curFrom T evs) := by
  intro evs
  induction evs with
  | nil => intro T h _; exact h
  | cons ev evs ih =>
    intro T h hall
    exact ih _ (curWithin_step P E T ev h (hall ev List.mem_cons_self))
      (fun ev' hm => hall ev' (List.mem_cons_of_mem _ hm))

/-- global collision-freedom of a history implies collision-freedom of the tables in force after
every prefix -/
theorem collisionFreeNowAll_of_collisionFree (evs : List Event) (h : CollisionFree evs) :
    CollisionFreeNowAll evs := by
  intro k
  obtain ⟨-, -, hc3, hc4, hc5⟩ := h
  have hw := curWithin_run (patEntriesOf evs) (esPairsOf evs) (evs.take k) ⟨[], []⟩
    ⟨fun e he => (by cases he), fun x hx => (by cases hx)⟩
    (fun ev hm => evWithin_of_mem evs ev (List.mem_of_mem_take hm))
  refine ⟨?_, ?_, ?_⟩
  · intro e he e' he' hp
    exact hc3 e (hw.1 e he) e' (hw.1 e' he') hp
  · intro x hx s hs e he
    exact hc4 _ (hw.2 x hx s hs) e (hw.1 e he)
  · intro x hx y hy s hs s' hs' hp
    exact hc5 _ (hw.2 x hx s hs) _ (hw.2 y hy s' hs') hp

/-- only the prefixes up to the length matter (a decidable form) -/
theorem collisionFreeNowAll_iff (evs : List Event) :
    CollisionFreeNowAll evs ↔ ∀ k ≤ evs.length, CollisionFreeNow (currentOf (evs.take k)) := by
  constructor
  · intro h k _; exact h k
  · intro h k
    by_cases hk : k ≤ evs.length
    · exact h k hk
    · rw [List.take_of_length_le (by omega)]
      have := h evs.length (Nat.le_refl _)
      rwa [List.take_length] at this

instance (evs : List Event) : Decidable (CollisionFreeNowAll evs) :=
  decidable_of_iff _ (collisionFreeNowAll_iff evs).symm

/-! ### a history that is NOT `CollisionFree` but collision-free NOW after every prefix:
PID 0x102 moves from program 1 to program 2 -/

/-- PMT body of program 2: PCR PID 0x102, 0x0f on 0x102 -/
def bodyM : Bytes := [0xe1, 0x02, 0xf0, 0x00, 0x0f, 0xe1, 0x02, 0xf0, 0x00]

def pmt2SM : Bytes :=
  [0x02, 0xb0, 0x12, 0x00, 0x02, 0xc1, 0x00, 0x00, 0xe1, 0x02, 0xf0, 0x00, 0x0f, 0xe1, 0x02, 0xf0, 0x00,
   0x3f, 0x44, 0xc7, 0xfb]

def pmt2VM : Bytes := [0x47, 0x41, 0x10, 0x10, 0x00] ++ pmt2SM ++ List.replicate 162 0xff

/-- PAT {1 → 0x100, 2 → 0x110}; PMT(0x100) v0 {0x101, 0x102}; PMT(0x100) v1 {0x101} (same instance:
0x102 is removed); PMT(0x110) v0 {0x102}; a unit-start packet on 0x102 -/
def movedBytes : Bytes := pat2V0 ++ pmtV0 ++ pmtV1 ++ pmt2VM ++ probeA

def movedHist : List Event :=
  [.patApplied 0 pat2, .pmtApplied 0x100 0 body0, .pmtApplied 0x100 1 body1, .pmtApplied 0x110 0 bodyM,
   .esPacket 0x102]

def movedPks : List Pk :=
  [⟨pat2V0, 0, 0, false, false⟩, ⟨pmtV0, 188, 0x100, false, false⟩, ⟨pmtV1, 376, 0x100, false, false⟩,
   ⟨pmt2VM, 564, 0x110, false, false⟩, ⟨probeA, 752, 0x102, false, false⟩]

theorem streams_bodyM : streamsOf bodyM = [⟨0x0f, 0x102, []⟩] := by decide +kernel
theorem moved_frame : Demux.frame movedBytes 0 = .ok movedPks := by decide +kernel
theorem moved_wf : WF initRoute movedHist := by decide +kernel
theorem moved_not_cf : ¬ CollisionFree movedHist := by decide +kernel
theorem moved_cfn : CollisionFreeNowAll movedHist := by decide +kernel

theorem tx_pmt2_M (off : Nat) : Transmits 0x110 pmt2SM [⟨pmt2VM, off, 0x110, false, false⟩] :=
  transmits_one 0x110 pmt2SM _ (by decide +kernel) (by decide +kernel) (by decide +kernel)
    ⟨rfl, rfl, by show pmt2VM.length = 188; decide +kernel⟩ (by decide +kernel)
    (by show plOf pmt2VM = _; decide +kernel)

theorem re_pmt2_M (r : Route) (off : Nat) :
    RealisesEv r (.pmtApplied 0x110 0 bodyM) [⟨pmt2VM, off, 0x110, false, false⟩] :=
  ⟨pmt2SM, tx_pmt2_M off, by decide +kernel, by decide +kernel, by decide +kernel, by decide +kernel⟩

theorem moved_realises : Realises initRoute movedHist movedPks :=
  Realises.cons (re_pat2 _ 0) (Realises.cons (re_pmt0 _ 188) (Realises.cons (re_pmt1 _ 376)
    (Realises.cons (re_pmt2_M _ 564) (Realises.cons (re_probeA _ 752) (Realises.nil _)))))

/-- the whole model on these bytes: 0x102 holds the PES filter with tag 6 built for program 2's
stream request; no `ByPid` request; nothing recorded -/
theorem moved_run : observe (runApp {} [movedBytes]) = some
    { constructs := [(.byPid 0, 0), (.pmt 0x100 1, 1), (.pmt 0x110 2, 2),
        (.stream 0x100 0x1b 0x101 0x101 [] [], 3), (.stream 0x100 0x0f 0x102 0x101 [] [], 4),
        (.stream 0x100 0x1b 0x101 0x101 [] [], 5), (.stream 0x110 0x0f 0x102 0x102 [] [], 6)],
      pkts := [],
      slot100 := .pmt 0x100 1 [0x101], slot101 := .pes 5, slot102 := .pes 6,
      slot110 := .pmt 0x110 2 [0x102] } := by
  decide +kernel

/-- … and the probe packet produces `start_stream` and `begin_packet` with tag 6 only -/
theorem moved_es : esTagsOf (runApp {} [movedBytes]) = some [(6, 0), (6, 1)] := by decide +kernel

/-! ### F7 with a unit-start probe packet: the stale handler's tag shows in the callbacks -/

/-- the F7 history (`Ts.Lemmas.C05Run.f7Bytes`) with the unit-start probe packet `probeA` -/
def f7aBytes : Bytes := patV0 ++ pmtV0 ++ Ts.Lemmas.C05Run.patV1 ++ pmtV1 ++ probeA

theorem f7a_run : observe (runApp {} [f7aBytes]) = some
    { constructs := constructsV0 ++ [(.pmt 0x100 1, 4), (.pmt 0x110 2, 5), (.stream 0x100 0x1b 0x101 0x101 [] [], 6)],
      pkts := [],
      slot100 := .pmt 0x100 1 [0x101], slot101 := .pes 6, slot102 := .pes 3, slot110 := .pmt 0x110 2 [] } := by
  decide +kernel

/-- the probe packet on 0x102 — a PID the PMT in force no longer lists — produces `start_stream` and
`begin_packet` callbacks carrying tag 3, the tag of the handler PMT v0 installed -/
theorem f7a_es : esTagsOf (runApp {} [f7aBytes]) = some [(3, 0), (3, 1)] := by decide +kernel

/-! ### interleaving: table handlers do not look at the trace -/

/-- two contexts that agree on everything a table handler and the simulation relation look at:
configuration, tag counter, the `construct` events (other trace events may differ) -/
structure CtxEq (c1 c2 : Ctx) : Prop where
  cfg : c2.cfg = c1.cfg
  tag : c2.nextTag = c1.nextTag
  log : constructs c2 = constructs c1

theorem ctxEq_refl (c : Ctx) : CtxEq c c := ⟨rfl, rfl, rfl⟩

theorem ctxEq_trans {a b c : Ctx} (h1 : CtxEq a b) (h2 : CtxEq b c) : CtxEq a c :=
  ⟨h2.cfg.trans h1.cfg, h2.tag.trans h1.tag, h2.log.trans h1.log⟩

theorem ctxEq_ctxAfter (c1 c2 : Ctx) (reqs : List (Nat × Req)) (h : CtxEq c1 c2) :
    CtxEq (ctxAfter c1 reqs) (ctxAfter c2 reqs) := by
  refine ⟨h.cfg, ?_, ?_⟩
  · show c2.nextTag + reqs.length = c1.nextTag + reqs.length
    rw [h.tag]
  · rw [constructs_ctxAfter, constructs_ctxAfter, h.log, h.tag]

/-- a section processor whose result depends on the context only through `CtxEq` -/
def SectU (sect : Ctx → List Nat → Bytes → R (Ctx × List Nat × List (Change Handler))) : Prop :=
  ∀ c1 c2 reg data, 12 ≤ data.length → CtxEq c1 c2 → ∀ c1' reg' chg,
    sect c1 reg data = .ok (c1', reg', chg) →
    ∃ c2', sect c2 reg data = .ok (c2', reg', chg) ∧ CtxEq c1' c2'

theorem patSection_uniform : SectU patSection := by
  intro c1 c2 reg data hl heq c1' reg' chg h
  rw [patSection_eq c1 reg data hl] at h
  rw [patSection_eq c2 reg data hl]
  by_cases ht : byteD data 0 ≠ 0
  · rw [if_pos ht] at h ⊢
    simp only [R.ok.injEq, Prod.mk.injEq] at h
    obtain ⟨rfl, rfl, rfl⟩ := h
    exact ⟨c2, rfl, heq⟩
  · rw [if_neg ht] at h ⊢
    simp only [R.ok.injEq, Prod.mk.injEq] at h
    obtain ⟨rfl, rfl, rfl⟩ := h
    refine ⟨_, ?_, ctxEq_ctxAfter c1 c2 _ heq⟩
    simp only [heq.tag]

theorem pmtSection_uniform (pid : Nat) : SectU (fun c r d => pmtSection c pid r d) := by
  intro c1 c2 reg data hl heq c1' reg' chg h
  simp only at h ⊢
  rw [pmtSection_eq c1 pid reg data hl] at h
  rw [pmtSection_eq c2 pid reg data hl]
  simp only at h ⊢
  by_cases ha : ¬ specPmtAccept ((data.drop 8).take (data.length - 12))
  · rw [if_pos ha] at h ⊢
    simp only [R.ok.injEq, Prod.mk.injEq] at h
    obtain ⟨rfl, rfl, rfl⟩ := h
    exact ⟨c2, rfl, heq⟩
  · rw [if_neg ha] at h ⊢
    by_cases ht : byteD data 0 ≠ 2
    · rw [if_pos ht] at h ⊢
      simp only [R.ok.injEq, Prod.mk.injEq] at h
      obtain ⟨rfl, rfl, rfl⟩ := h
      exact ⟨c2, rfl, heq⟩
    · rw [if_neg ht] at h ⊢
      simp only [R.ok.injEq, Prod.mk.injEq] at h
      obtain ⟨rfl, rfl, rfl⟩ := h
      refine ⟨_, ?_, ctxEq_ctxAfter c1 c2 _ heq⟩
      simp only [heq.tag]

theorem runDeliveries_uniform (sect : Ctx → List Nat → Bytes → R (Ctx × List Nat × List (Change Handler)))
    (hU : SectU sect) : ∀ (ds : List Psi.Delivery) (c1 c2 : Ctx) (reg : List Nat), CtxEq c1 c2 →
    ∀ c1' reg' chg, runDeliveries sect c1 reg ds = .ok (c1', reg', chg) →
    ∃ c2', runDeliveries sect c2 reg ds = .ok (c2', reg', chg) ∧ CtxEq c1' c2' := by
  intro ds
  induction ds with
  | nil =>
    intro c1 c2 reg heq c1' reg' chg h
    simp only [runDeliveries, R.ok.injEq, Prod.mk.injEq] at h
    obtain ⟨rfl, rfl, rfl⟩ := h
    exact ⟨c2, rfl, heq⟩
  | cons d ds ih =>
    intro c1 c2 reg heq c1' reg' chg h
    simp only [runDeliveries] at h ⊢
    rw [heq.cfg]
    cases hcp : Psi.crcPass c1.cfg.bypassCrc d.bytes with
    | panic m => rw [hcp] at h; cases h
    | ok b =>
      rw [hcp] at h
      simp only [R.ok_bind] at h ⊢
      cases b with
      | false =>
        simp only [Bool.false_eq_true, if_false] at h ⊢
        exact ih c1 c2 reg heq c1' reg' chg h
      | true =>
        simp only [if_true] at h ⊢
        have hl := crcPass_true_len _ _ hcp
        cases hs : sect c1 reg d.bytes with
        | panic m => rw [hs] at h; cases h
        | ok r1 =>
          obtain ⟨ca, rega, chga⟩ := r1
          rw [hs] at h
          simp only [R.ok_bind] at h
          obtain ⟨cb, hsb, heqb⟩ := hU c1 c2 reg d.bytes hl heq ca rega chga hs
          rw [hsb]
          simp only [R.ok_bind]
          cases hr : runDeliveries sect ca rega ds with
          | panic m => rw [hr] at h; cases h
          | ok r2 =>
            obtain ⟨cc, regc, chgc⟩ := r2
            rw [hr] at h
            simp only [R.ok_bind, R.pure_eq, R.ok.injEq, Prod.mk.injEq] at h
            obtain ⟨rfl, rfl, rfl⟩ := h
            obtain ⟨cd, hrd, heqd⟩ := ih ca cb rega heqb cc regc chgc hr
            rw [hrd]
            exact ⟨cd, rfl, heqd⟩

/-- PAT / PMT handlers -/
inductive TableH : Handler → Prop where
  | pat (s : Psi.St) (reg : List Nat) : TableH (.pat s reg)
  | pmt (pid prog : Nat) (s : Psi.St) (reg : List Nat) : TableH (.pmt pid prog s reg)

/-- ONE `consume` of a table handler: new handler state and queued changes do not depend on the
trace; the resulting contexts agree again -/
theorem consume_table_uniform (h : Handler) (ht : TableH h) (c1 c2 : Ctx) (pk : Pk) (heq : CtxEq c1 c2)
    (h' : Handler) (c1' : Ctx) (chg : List (Change Handler))
    (hc : App.consume h c1 pk = .ok (h', c1', chg)) :
    TableH h' ∧ ∃ c2', App.consume h c2 pk = .ok (h', c2', chg) ∧ CtxEq c1' c2' := by
  cases ht with
  | pat s reg =>
    cases hP : Psi.consume Psi.table s pk.bytes with
    | panic m => simp only [App.consume, hP] at hc; cases hc
    | ok r =>
      obtain ⟨s', ds⟩ := r
      rw [consume_pat_eq s s' reg c1 pk ds hP] at hc
      rw [consume_pat_eq s s' reg c2 pk ds hP]
      cases hr : runDeliveries patSection c1 reg ds with
      | panic m => rw [hr] at hc; cases hc
      | ok r1 =>
        obtain ⟨ca, rega, chga⟩ := r1
        rw [hr] at hc
        simp only [R.ok_bind, R.ok.injEq, Prod.mk.injEq] at hc
        obtain ⟨rfl, rfl, rfl⟩ := hc
        obtain ⟨cb, hrb, heqb⟩ := runDeliveries_uniform patSection patSection_uniform ds c1 c2 reg heq _ _ _ hr
        rw [hrb]
        exact ⟨TableH.pat _ _, cb, rfl, heqb⟩
  | pmt pid prog s reg =>
    cases hP : Psi.consume Psi.table s pk.bytes with
    | panic m => simp only [App.consume, hP] at hc; cases hc
    | ok r =>
      obtain ⟨s', ds⟩ := r
      rw [consume_pmt_eq pid prog s s' reg c1 pk ds hP] at hc
      rw [consume_pmt_eq pid prog s s' reg c2 pk ds hP]
      cases hr : runDeliveries (fun c r d => pmtSection c pid r d) c1 reg ds with
      | panic m => rw [hr] at hc; cases hc
      | ok r1 =>
        obtain ⟨ca, rega, chga⟩ := r1
        rw [hr] at hc
        simp only [R.ok_bind, R.ok.injEq, Prod.mk.injEq] at hc
        obtain ⟨rfl, rfl, rfl⟩ := hc
        obtain ⟨cb, hrb, heqb⟩ := runDeliveries_uniform _ (pmtSection_uniform pid) ds c1 c2 reg heq _ _ _ hr
        rw [hrb]
        exact ⟨TableH.pmt _ _ _ _, cb, rfl, heqb⟩

/-- **the packets of ONE PID `p` (a table handler) with packets on PES-held PIDs interleaved.**
`own`: the packets of PID `p`; `pks`: `own` with unflagged 188-byte packets on PIDs in `F` inserted;
every PID in `F` holds a PES filter; `consumeAll` over `own` alone (in context `c`) succeeds with
changes touching neither `p` nor `F`.  Then the dispatcher's run over `pks` — started in ANY context
agreeing with `c` — succeeds; the final context agrees with the one of `consumeAll`; slot `p` holds
the final handler; slots outside `F ∪ {p}` are as if all queued changes had been applied to the
original table; slots in `F` still hold a PES filter with the same tag. -/
theorem pushSpec_interleaved (p : Nat) (F : Nat → Prop) (hpF : ¬ F p) :
    ∀ (own pks : List Pk),
    Interleaves (fun pk => pk.flagged = false ∧ pk.bytes.length = 188 ∧ F pk.pid) own pks →
    ∀ (t : Tab Handler) (c ct : Ctx) (h h' : Handler) (c' : Ctx) (chg : List (Change Handler)),
    (∀ pk ∈ own, pk.pid = p ∧ pk.flagged = false) →
    TableH h → t.get p = some h → CtxEq c ct →
    (∀ q, F q → ∃ tag f, t.get q = some (.pes tag f)) →
    consumeAll h c own = .ok (h', c', chg) →
    (∀ ch ∈ chg, ch.pid ≠ p ∧ ¬ F ch.pid) →
    ∃ t2 c2, pushSpec App.sem (t, ct) pks = .ok (t2, c2) ∧ CtxEq c' c2 ∧ t2.get p = some h' ∧
      (∀ q, q ≠ p → ¬ F q → t2.get q = (applyChanges t chg).get q) ∧
      (∀ q, F q → ∃ tag f f', t.get q = some (.pes tag f) ∧ t2.get q = some (.pes tag f')) := by
  intro own pks hint
  induction hint with
  | nil =>
    intro t c ct h h' c' chg _ _ hg heq hF hc _
    rw [(Ts.Props.C11.consumeAll_iff h c ⟨[], 0, 0, false, false⟩ []).1] at hc
    simp only [R.ok.injEq, Prod.mk.injEq] at hc
    obtain ⟨rfl, rfl, rfl⟩ := hc
    refine ⟨t, ct, rfl, heq, hg, fun q _ _ => rfl, ?_⟩
    intro q hq
    obtain ⟨tag, f, e⟩ := hF q hq
    exact ⟨tag, f, f, e, e⟩
  | @own o pks' pk _ ih =>
    intro t c ct h h' c' chg hall hT hg heq hF hc hno
    obtain ⟨hp, hf⟩ := hall pk List.mem_cons_self
    rw [(Ts.Props.C11.consumeAll_iff h c pk o).2] at hc
    cases h1 : App.consume h c pk with
    | panic m => rw [h1] at hc; cases hc
    | ok r1 =>
      obtain ⟨h1', c1, chg1⟩ := r1
      rw [h1] at hc
      simp only [R.ok_bind] at hc
      cases h2 : consumeAll h1' c1 o with
      | panic m => rw [h2] at hc; cases hc
      | ok r2 =>
        obtain ⟨h2', c2, chg2⟩ := r2
        rw [h2] at hc
        simp only [R.ok_bind, R.ok.injEq, Prod.mk.injEq] at hc
        obtain ⟨rfl, rfl, rfl⟩ := hc
        obtain ⟨hT1, ct1, h1t, heq1⟩ := consume_table_uniform h hT c ct pk heq h1' c1 chg1 h1
        have hg' : t.get pk.pid = some h := by rw [hp]; exact hg
        have hstep : specStep App.sem (t, ct) pk = .ok (applyChanges (t.insert pk.pid h1') chg1, ct1) := by
          rw [specStep_consume_of_contains App.sem t ct pk h (contains_of_get t pk.pid h hg') hf hg']
          show (App.consume h ct pk >>= _) = _
          rw [h1t]; rfl
        have hno1 : ∀ ch ∈ chg1, ch.pid ≠ p ∧ ¬ F ch.pid := fun ch hm => hno ch (List.mem_append_left _ hm)
        have hno2 : ∀ ch ∈ chg2, ch.pid ≠ p ∧ ¬ F ch.pid := fun ch hm => hno ch (List.mem_append_right _ hm)
        have hg1 : (applyChanges (t.insert pk.pid h1') chg1).get p = some h1' := by
          rw [get_applyChanges_untouched chg1 _ p (fun ch hm => (hno1 ch hm).1), hp, Tab.get_insert_self]
        have hF1 : ∀ q, F q → (applyChanges (t.insert pk.pid h1') chg1).get q = t.get q := by
          intro q hq
          rw [get_applyChanges_untouched chg1 _ q (fun ch hm e => (hno1 ch hm).2 (by rw [e]; exact hq)), hp,
            Tab.get_insert_ne _ _ _ _ (fun e => hpF (by rw [← e]; exact hq))]
        obtain ⟨t2, cf, hrun, heqf, hgp, hother, hFf⟩ := ih _ c1 ct1 h1' h2' c2 chg2
          (fun pk' hm => hall pk' (List.mem_cons_of_mem _ hm)) hT1 hg1 heq1
          (fun q hq => by rw [hF1 q hq]; exact hF q hq) h2 hno2
        refine ⟨t2, cf, ?_, heqf, hgp, ?_, ?_⟩
        · rw [pushSpec_cons, hstep]; exact hrun
        · intro q hq hnF
          rw [hother q hq hnF, ← applyChanges_append]
          apply get_applyChanges_congr
          rw [hp]; exact Tab.get_insert_ne _ _ _ _ hq
        · intro q hq
          obtain ⟨tag, f, f', e1, e2⟩ := hFf q hq
          rw [hF1 q hq] at e1
          exact ⟨tag, f, f', e1, e2⟩
  | @foreign o pks' pk hfor _ ih =>
    intro t c ct h h' c' chg hall hT hg heq hF hc hno
    obtain ⟨hf, hl, hFq⟩ := hfor
    obtain ⟨tag, f, hgq⟩ := hF pk.pid hFq
    have hqp : pk.pid ≠ p := fun e => hpF (by rw [← e]; exact hFq)
    obtain ⟨f', ct1, hcons, e1, e2, e3⟩ := consume_pes tag f ct pk hl
    have hstep : specStep App.sem (t, ct) pk = .ok (t.insert pk.pid (.pes tag f'), ct1) := by
      rw [specStep_consume_of_contains App.sem t ct pk _ (contains_of_get t pk.pid _ hgq) hf hgq]
      show (App.consume (.pes tag f) ct pk >>= _) = _
      rw [hcons]; rfl
    have heq1 : CtxEq c ct1 := ⟨e1.trans heq.cfg, e2.trans heq.tag, e3.trans heq.log⟩
    obtain ⟨t2, cf, hrun, heqf, hgp, hother, hFf⟩ := ih (t.insert pk.pid (.pes tag f')) c ct1 h h' c' chg hall hT
      (by rw [Tab.get_insert_ne _ _ _ _ (fun e => hqp e.symm)]; exact hg) heq1
      (fun q hq => by
        by_cases e : q = pk.pid
        · rw [e, Tab.get_insert_self]; exact ⟨tag, f', rfl⟩
        · rw [Tab.get_insert_ne _ _ _ _ e]; exact hF q hq) hc hno
    refine ⟨t2, cf, ?_, heqf, hgp, ?_, ?_⟩
    · rw [pushSpec_cons, hstep]; exact hrun
    · intro q hq hnF
      rw [hother q hq hnF]
      apply get_applyChanges_congr
      exact Tab.get_insert_ne _ _ _ _ (fun e => hnF (by rw [e]; exact hFq))
    · intro q hq
      obtain ⟨tag', f1, f2, a1, a2⟩ := hFf q hq
      by_cases e : q = pk.pid
      · rw [e, Tab.get_insert_self] at a1
        simp only [Option.some.injEq, Handler.pes.injEq] at a1
        obtain ⟨rfl, rfl⟩ := a1
        rw [e]
        exact ⟨tag, f, f2, hgq, by rw [← e]; exact a2⟩
      · rw [Tab.get_insert_ne _ _ _ _ e] at a1
        exact ⟨tag', f1, f2, a1, a2⟩
/-! ### interleaving: one table event, whole histories -/

theorem sim_transfer (r : Route) (t1 t2 : Tab Handler) (c1 c2 : Ctx) (F : Nat → Prop)
    (hsim : Sim r t1 c1) (heq : CtxEq c1 c2)
    (hsame : ∀ q, ¬ F q → t2.get q = t1.get q)
    (hF : ∀ q, F q → SlotRel r q (r.slots q) (t2.get q)) : Sim r t2 c2 :=
  { script := by rw [heq.cfg]; exact hsim.script
    tag := by rw [heq.tag]; exact hsim.tag
    log := by rw [heq.log]; exact hsim.log
    slots := fun q => by
      by_cases h : F q
      · exact hF q h
      · rw [hsame q h]; exact hsim.slots q
    pat0 := hsim.pat0
    pmtSelf := hsim.pmtSelf }

theorem pes_of_routed {r : Route} {t : Tab Handler} {c : Ctx} (hsim : Sim r t c) {q : Nat}
    (h : pesRouted r q) :
    ∃ pp st a pcr d1 d2 tag f, r.slots q = some (.stream pp st a pcr d1 d2, tag) ∧ isPes st = true ∧
      t.get q = some (.pes tag f) := by
  obtain ⟨pp, st, a, pcr, d1, d2, tag, hs, hp⟩ := h
  have := hsim.slots q
  rw [hs] at this
  simp only [SlotRel, hp, if_true] at this
  obtain ⟨f, hf⟩ := this
  exact ⟨pp, st, a, pcr, d1, d2, tag, f, hs, hp, hf⟩

/-- the PIDs that may be interleaved with the packets of `ev` -/
def FPid (r : Route) (ev : Event) (q : Nat) : Prop := pesRouted r q ∧ Unnamed r q ev

theorem quiet_of_unnamed (r : Route) (q : Nat) (ev : Event) (h : Unnamed r q ev) : Quiet r q ev := by
  cases ev with
  | patApplied v es => exact h
  | pmtApplied p v b => exact h
  | esPacket p => exact h.elim
  | repetition p => exact h.elim

/-- after the event the slots of the interleaved PIDs still satisfy the relation -/
theorem slotRel_foreign {r : Route} {t : Tab Handler} {c : Ctx} (hsim : Sim r t c) (ev : Event) (q : Nat)
    (hq : FPid r ev q) (o : Option Handler)
    (ho : ∃ tag f f', t.get q = some (.pes tag f) ∧ o = some (.pes tag f')) :
    SlotRel (stepRoute r ev) q ((stepRoute r ev).slots q) o := by
  obtain ⟨pp, st, a, pcr, d1, d2, tag, f, hs, hp, hg⟩ := pes_of_routed hsim hq.1
  obtain ⟨tag', f1, f', e1, e2⟩ := ho
  rw [hg] at e1
  simp only [Option.some.injEq, Handler.pes.injEq] at e1
  obtain ⟨rfl, rfl⟩ := e1
  rw [slot_kept r q ev (quiet_of_unnamed r q ev hq.2), hs, e2]
  simp only [SlotRel, hp, if_true]
  exact ⟨f', rfl⟩

theorem interleaves_mono {F G : Pk → Prop} (h : ∀ pk, F pk → G pk) {own pks : List Pk}
    (hi : Interleaves F own pks) : Interleaves G own pks := by
  induction hi with
  | nil => exact .nil
  | own pk _ ih => exact .own pk ih
  | foreign pk hf _ ih => exact .foreign pk (h pk hf) ih

theorem interleaves_none {F : Pk → Prop} (h : ∀ pk, ¬ F pk) {own pks : List Pk}
    (hi : Interleaves F own pks) : pks = own := by
  induction hi with
  | nil => rfl
  | own pk _ ih => rw [ih]
  | foreign pk hf _ _ => exact (h pk hf).elim

theorem interleaves_self (F : Pk → Prop) : ∀ (l : List Pk), Interleaves F l l
  | [] => .nil
  | pk :: l => .own pk (interleaves_self F l)

/-- the `consumeAll` of the PAT handler over the packets of one PAT event (first half of `sim_pat`) -/
theorem pat_consumeAll (r : Route) (t : Tab Handler) (c : Ctx) (ver : Nat) (es : List PatEntry) (own : List Pk)
    (hsim : Sim r t c) (hwf : wfEv r (.patApplied ver es)) (hre : RealisesEv r (.patApplied ver es) own) :
    ∃ s sfin body, t.get 0 = some (.pat s (r.patEntries.map PatEntry.pid)) ∧
      (∀ pk ∈ own, pk.pid = 0 ∧ pk.flagged = false) ∧ specPat body = es ∧
      consumeAll (.pat s (r.patEntries.map PatEntry.pid)) c own =
        .ok (.pat sfin ((specPat body).map PatEntry.pid), ctxAfter c (patRequests (specPat body)),
          patChanges c (r.patEntries.map PatEntry.pid) body) := by
  obtain ⟨hrouted, hver, hes⟩ := hwf
  obtain ⟨tag0, hslot0⟩ := (patRouted_iff r).1 hrouted
  have h0 := hsim.slots 0
  rw [hslot0] at h0
  obtain ⟨-, s, ht0, hidle⟩ := h0
  obtain ⟨S, htx, htid, hv, hpat⟩ := hre
  subst hv
  obtain ⟨m, off, rest, hm, hview, hus, hrest⟩ := htx.mux
  have hvne : s.lastVersion ≠ some (versionOf S) := by rw [hidle.1]; exact hver
  obtain ⟨sfin, hq, hall⟩ := Ts.Props.C11.damage_then_new_version_applied_partial_pat S htx.wf htx.len
    htx.crc m hm s (psiInv_of_none _ _ hidle.2) hvne (r.patEntries.map PatEntry.pid) c own
    (fun pk hm => (htx.pkts pk hm).2.2) off rest hview hus hrest
  rw [preSpec_idle _ _ _ hidle.2] at hall
  simp only [runDeliveries, R.ok_bind, patSection_tid0 c _ S htx.len htid, List.nil_append] at hall
  exact ⟨s, sfin, sectionBody S, ht0, fun pk hm => ⟨(htx.pkts pk hm).1, (htx.pkts pk hm).2.1⟩, hpat, hall⟩

theorem pmt_consumeAll (r : Route) (t : Tab Handler) (c : Ctx) (p ver : Nat) (body : Bytes) (own : List Pk)
    (hsim : Sim r t c) (hwf : wfEv r (.pmtApplied p ver body))
    (hre : RealisesEv r (.pmtApplied p ver body) own) :
    ∃ prog s sfin, t.get p = some (.pmt p prog s ((r.pmt p).streams.map StreamInfo.pid)) ∧
      (∀ pk ∈ own, pk.pid = p ∧ pk.flagged = false) ∧
      consumeAll (.pmt p prog s ((r.pmt p).streams.map StreamInfo.pid)) c own =
        .ok (.pmt p prog sfin ((streamsOf body).map StreamInfo.pid), ctxAfter c (pmtReqs p body),
          pmtChanges c p ((r.pmt p).streams.map StreamInfo.pid) body) := by
  obtain ⟨hrouted, hver, hss⟩ := hwf
  obtain ⟨prog, tag0, hslotp⟩ := (pmtRouted_iff r p).1 hrouted
  have h0 := hsim.slots p
  rw [hslotp] at h0
  obtain ⟨s, htp, hidle⟩ := h0
  obtain ⟨S, htx, htid, hv, hbody, hacc⟩ := hre
  subst hv hbody
  obtain ⟨m, off, rest, hm, hview, hus, hrest⟩ := htx.mux
  have hvne : s.lastVersion ≠ some (versionOf S) := by rw [hidle.1]; exact hver
  obtain ⟨sfin, hq, hall⟩ := Ts.Props.C11.damage_then_new_version_applied_partial_pmt p prog S htx.wf htx.len
    htx.crc m hm s (psiInv_of_none _ _ hidle.2) hvne ((r.pmt p).streams.map StreamInfo.pid) c own
    (fun pk hm => (htx.pkts pk hm).2.2) off rest hview hus hrest
  rw [preSpec_idle _ _ _ hidle.2] at hall
  simp only [runDeliveries, R.ok_bind, pmtSection_tid2 c p _ S htx.len hacc htid, List.nil_append] at hall
  exact ⟨prog, s, sfin, htp, fun pk hm => ⟨(htx.pkts pk hm).1, (htx.pkts pk hm).2.1⟩, hall⟩

/-- one PAT event with foreign packets interleaved -/
theorem sim_pat_I (r : Route) (t : Tab Handler) (c : Ctx) (ver : Nat) (es : List PatEntry) (pks : List Pk)
    (hsim : Sim r t c) (hwf : wfEv r (.patApplied ver es)) (hre : RealisesEvI r (.patApplied ver es) pks) :
    ∃ t' c', pushSpec App.sem (t, c) pks = .ok (t', c') ∧ Sim (stepRoute r (.patApplied ver es)) t' c' := by
  obtain ⟨own, hown, hint⟩ := hre
  obtain ⟨t1, c1, hrun1, hsim1⟩ := sim_pat r t c ver es own hsim hwf hown
  obtain ⟨s, sfin, body, hg0, hpk, hbody, hall⟩ := pat_consumeAll r t c ver es own hsim hwf hown
  subst hbody
  obtain ⟨tag0, hslot0⟩ := (patRouted_iff r).1 hwf.1
  have hpF : ¬ FPid r (.patApplied ver (specPat body)) 0 := by
    rintro ⟨⟨pp, st, a, pcr, d1, d2, tag, hs, -⟩, -⟩
    rw [hslot0] at hs; cases hs
  have hno : ∀ ch ∈ patChanges c (r.patEntries.map PatEntry.pid) body,
      ch.pid ≠ 0 ∧ ¬ FPid r (.patApplied ver (specPat body)) ch.pid := by
    intro ch hch
    unfold patChanges at hch
    rcases List.mem_append.1 hch with h | h
    · obtain ⟨x, hx, rfl⟩ := List.mem_map.1 h
      have : x.1 ∈ (built c.nextTag (patRequests (specPat body))).map (·.1) := List.mem_map.2 ⟨x, hx, rfl⟩
      rw [built_pids, patRequests_pids] at this
      refine ⟨?_, fun hF => hF.2.1 this⟩
      obtain ⟨e, he, hep⟩ := List.mem_map.1 this
      show x.1 ≠ 0
      rw [← hep]; exact (hwf.2.2 e he).2
    · obtain ⟨q, hq', rfl⟩ := List.mem_map.1 h
      have := ((mem_outdated _ _ _).1 hq').2.1
      refine ⟨?_, fun hF => hF.2.2 this⟩
      obtain ⟨e, he, hep⟩ := List.mem_map.1 this
      show q ≠ 0
      rw [← hep]; exact hsim.pat0 e he
  obtain ⟨t1', hrun1', hg1, hother1⟩ := pushSpec_same_pid 0 own t c _ _ _ _ hpk hg0 hall
    (fun ch hm => (hno ch hm).1)
  rw [hrun1] at hrun1'
  simp only [R.ok.injEq, Prod.mk.injEq] at hrun1'
  obtain ⟨rfl, rfl⟩ := hrun1'
  obtain ⟨t2, c2, hrun2, heq2, hg2, hother2, hF2⟩ := pushSpec_interleaved 0
    (FPid r (.patApplied ver (specPat body))) hpF own pks
    (interleaves_mono (fun pk h => ⟨h.1, h.2.1, h.2.2.1, h.2.2.2⟩) hint) t c c _ _ _ _ hpk (TableH.pat _ _) hg0
    (ctxEq_refl c)
    (fun q hq => by
      obtain ⟨_, _, _, _, _, _, tag, f, -, -, hg⟩ := pes_of_routed hsim hq.1
      exact ⟨tag, f, hg⟩) hall hno
  refine ⟨t2, c2, hrun2, sim_transfer _ t1 t2 _ c2 (FPid r (.patApplied ver (specPat body))) hsim1 heq2 ?_ ?_⟩
  · intro q hnF
    by_cases hq0 : q = 0
    · rw [hq0, hg2, hg1]
    · rw [hother2 q hq0 hnF, hother1 q hq0]
  · intro q hq
    exact slotRel_foreign hsim _ q hq _ (by
      obtain ⟨tag, f, f', a1, a2⟩ := hF2 q hq
      exact ⟨tag, f, f', a1, a2⟩)

/-- one PMT event with foreign packets interleaved -/
theorem sim_pmt_I (r : Route) (t : Tab Handler) (c : Ctx) (p ver : Nat) (body : Bytes) (pks : List Pk)
    (hsim : Sim r t c) (hwf : wfEv r (.pmtApplied p ver body))
    (hre : RealisesEvI r (.pmtApplied p ver body) pks) :
    ∃ t' c', pushSpec App.sem (t, c) pks = .ok (t', c') ∧ Sim (stepRoute r (.pmtApplied p ver body)) t' c' := by
  obtain ⟨own, hown, hint⟩ := hre
  obtain ⟨t1, c1, hrun1, hsim1⟩ := sim_pmt r t c p ver body own hsim hwf hown
  obtain ⟨prog, s, sfin, hgp, hpk, hall⟩ := pmt_consumeAll r t c p ver body own hsim hwf hown
  obtain ⟨prog0, tag0, hslotp⟩ := (pmtRouted_iff r p).1 hwf.1
  have hpF : ¬ FPid r (.pmtApplied p ver body) p := by
    rintro ⟨⟨pp, st, a, pcr, d1, d2, tag, hs, -⟩, -⟩
    rw [hslotp] at hs; cases hs
  have hno : ∀ ch ∈ pmtChanges c p ((r.pmt p).streams.map StreamInfo.pid) body,
      ch.pid ≠ p ∧ ¬ FPid r (.pmtApplied p ver body) ch.pid := by
    intro ch hch
    unfold pmtChanges at hch
    rcases List.mem_append.1 hch with h | h
    · obtain ⟨x, hx, rfl⟩ := List.mem_map.1 h
      have : x.1 ∈ (built c.nextTag (pmtReqs p body)).map (·.1) := List.mem_map.2 ⟨x, hx, rfl⟩
      rw [built_pids, pmtReqs_pids] at this
      refine ⟨?_, fun hF => hF.2.1 this⟩
      obtain ⟨e, he, hep⟩ := List.mem_map.1 this
      show x.1 ≠ p
      rw [← hep]; exact (hwf.2.2 e he).2
    · obtain ⟨q, hq', rfl⟩ := List.mem_map.1 h
      have := ((mem_outdated _ _ _).1 hq').2.1
      refine ⟨?_, fun hF => hF.2.2 this⟩
      obtain ⟨e, he, hep⟩ := List.mem_map.1 this
      show q ≠ p
      rw [← hep]; exact hsim.pmtSelf p e he
  obtain ⟨t1', hrun1', hg1, hother1⟩ := pushSpec_same_pid p own t c _ _ _ _ hpk hgp hall
    (fun ch hm => (hno ch hm).1)
  rw [hrun1] at hrun1'
  simp only [R.ok.injEq, Prod.mk.injEq] at hrun1'
  obtain ⟨rfl, rfl⟩ := hrun1'
  obtain ⟨t2, c2, hrun2, heq2, hg2, hother2, hF2⟩ := pushSpec_interleaved p
    (FPid r (.pmtApplied p ver body)) hpF own pks
    (interleaves_mono (fun pk h => ⟨h.1, h.2.1, h.2.2.1, h.2.2.2⟩) hint) t c c _ _ _ _ hpk
    (TableH.pmt _ _ _ _) hgp (ctxEq_refl c)
    (fun q hq => by
      obtain ⟨_, _, _, _, _, _, tag, f, -, -, hg⟩ := pes_of_routed hsim hq.1
      exact ⟨tag, f, hg⟩) hall hno
  refine ⟨t2, c2, hrun2, sim_transfer _ t1 t2 _ c2 (FPid r (.pmtApplied p ver body)) hsim1 heq2 ?_ ?_⟩
  · intro q hnF
    by_cases hqp : q = p
    · rw [hqp, hg2, hg1]
    · rw [hother2 q hqp hnF, hother1 q hqp]
  · intro q hq
    exact slotRel_foreign hsim _ q hq _ (hF2 q hq)

theorem sim_step_I (r : Route) (t : Tab Handler) (c : Ctx) (ev : Event) (pks : List Pk)
    (hsim : Sim r t c) (hwf : wfEv r ev) (hre : RealisesEvI r ev pks) :
    ∃ t' c', pushSpec App.sem (t, c) pks = .ok (t', c') ∧ Sim (stepRoute r ev) t' c' := by
  cases ev with
  | patApplied ver es => exact sim_pat_I r t c ver es pks hsim hwf hre
  | pmtApplied p ver body => exact sim_pmt_I r t c p ver body pks hsim hwf hre
  | esPacket p =>
    obtain ⟨own, hown, hint⟩ := hre
    rw [interleaves_none (fun pk h => h.2.2.2) hint]
    exact sim_es r t c p own hsim hwf hown
  | repetition p =>
    obtain ⟨own, hown, hint⟩ := hre
    rw [interleaves_none (fun pk h => h.2.2.2) hint]
    exact sim_rep r t c p own hsim hwf hown

theorem sim_run_I {r : Route} {evs : List Event} {pks : List Pk} (hre : RealisesI r evs pks) :
    ∀ (t : Tab Handler) (c : Ctx), Sim r t c → WF r evs →
      ∃ t' c', pushSpec App.sem (t, c) pks = .ok (t', c') ∧ Sim (run r evs) t' c' := by
  induction hre with
  | nil r => intro t c hsim _; exact ⟨t, c, rfl, hsim⟩
  | cons hev _ ih =>
    intro t c hsim hwf
    obtain ⟨t1, c1, h1, hsim1⟩ := sim_step_I _ t c _ _ hsim hwf.1 hev
    obtain ⟨t2, c2, h2, hsim2⟩ := ih t1 c1 hsim1 hwf.2
    refine ⟨t2, c2, ?_, hsim2⟩
    rw [pushSpec_append_aux, h1]; exact h2

/-- contiguous realisations are interleaved realisations -/
theorem realisesI_of_realises {r : Route} {evs : List Event} {pks : List Pk} (h : Realises r evs pks) :
    RealisesI r evs pks := by
  induction h with
  | nil r => exact .nil r
  | cons hev _ ih => exact .cons ⟨_, hev, interleaves_self _ _⟩ ih

end Ts.Lemmas.C05He
