import Ts.Lemmas.C05He
/-!
# C05 over whole histories — helper lemmas, part 6 (after the second review, DESIGN 8.1b)

* the case lines `sharedSameVer`, `sharedDiffVer`, `cniNext`, `twoSectionPat` of
  `/tmp/pr/rev2d_cases.txt` as byte lists, and the whole model evaluated on them by the kernel
* `PatRouted` / `routed_by_current_pat`: a PID listed by the PAT in force is routed by the request of
  its last entry, under collision-freedom of the tables IN FORCE only
* `ProgInv`: a PID routed to a PMT handler with program number `b` is listed by the current PAT as
  the PMT PID of program `b`
* `DistinctPmtPids`: consequences used by `routed_by_latest_pmt_of_program`
-/
namespace Ts.Lemmas.C05Hf
open Ts Ts.Tables Ts.App Ts.Demux Ts.Spec Ts.Spec.TableSpec Ts.Spec.Routing Ts.Spec.RoutingHistory
open Ts.Spec.SectionMux Ts.Lemmas.C03 Ts.Lemmas.C10 Ts.Lemmas.C05 Ts.Lemmas.C05Run Ts.Lemmas.C05H
open Ts.Lemmas.C05HRun Ts.Lemmas.C05He

/-! ### the case lines of `/tmp/pr/rev2d_cases.txt`: sections and packets -/

/-- one unit-start transport packet (`pointer_field = 0`) carrying the whole section `sec`; `h1 h2 h3`
are the three header bytes after the sync byte (PID, `payload_unit_start_indicator`, continuity
counter); 0xff stuffing -/
def psiPkt (h1 h2 h3 : UInt8) (sec : Bytes) : Bytes :=
  [0x47, h1, h2, h3, 0x00] ++ sec ++ List.replicate (183 - sec.length) 0xff

/-- PAT version 0 whose two entries name the SAME PMT PID: program 1 → 0x100, program 2 → 0x100 -/
def secPatShared : Bytes :=
  [0x00, 0xb0, 0x11, 0x00, 0x01, 0xc1, 0x00, 0x00, 0x00, 0x01, 0xe1, 0x00, 0x00, 0x02, 0xe1, 0x00,
   0x4b, 0x62, 0xfa, 0x7a]

/-- PMT of program 1 (`table_id_extension` 1), version 0: PCR PID 0x101, 0x1b on 0x101 -/
def secPmtA : Bytes :=
  [0x02, 0xb0, 0x12, 0x00, 0x01, 0xc1, 0x00, 0x00, 0xe1, 0x01, 0xf0, 0x00, 0x1b, 0xe1, 0x01, 0xf0, 0x00,
   0x4f, 0xc4, 0x3d, 0x1b]

/-- PMT of program 2 (`table_id_extension` 2), version 0: PCR PID 0x201, 0x1b on 0x201 -/
def secPmtB0 : Bytes :=
  [0x02, 0xb0, 0x12, 0x00, 0x02, 0xc1, 0x00, 0x00, 0xe2, 0x01, 0xf0, 0x00, 0x1b, 0xe2, 0x01, 0xf0, 0x00,
   0x00, 0x5e, 0x8b, 0xd0]

/-- the same PMT of program 2 with `version_number` 1 -/
def secPmtB1 : Bytes :=
  [0x02, 0xb0, 0x12, 0x00, 0x02, 0xc3, 0x00, 0x00, 0xe2, 0x01, 0xf0, 0x00, 0x1b, 0xe2, 0x01, 0xf0, 0x00,
   0x0f, 0xb3, 0x4d, 0xdc]

/-- PMT of program 1, version 1, `current_next_indicator = 0` (a NEXT table): 0x1b on 0x102 -/
def secPmtNext : Bytes :=
  [0x02, 0xb0, 0x12, 0x00, 0x01, 0xc2, 0x00, 0x00, 0xe1, 0x02, 0xf0, 0x00, 0x1b, 0xe1, 0x02, 0xf0, 0x00,
   0xa9, 0x54, 0x88, 0xc6]

/-- PAT version 0, `section_number` 0 of `last_section_number` 1: program 1 → 0x100 -/
def secPat2a : Bytes :=
  [0x00, 0xb0, 0x0d, 0x00, 0x01, 0xc1, 0x00, 0x01, 0x00, 0x01, 0xe1, 0x00, 0xa1, 0xf4, 0x39, 0xf0]

/-- PAT version 0, `section_number` 1 of `last_section_number` 1: program 2 → 0x110 -/
def secPat2b : Bytes :=
  [0x00, 0xb0, 0x0d, 0x00, 0x01, 0xc1, 0x01, 0x01, 0x00, 0x02, 0xe1, 0x10, 0xf4, 0xa4, 0x1a, 0x71]

/-- unit-start packet on PID `0x100 * hi + 1` with a 154-byte adaptation field and the start of a PES
packet (stream id 0xe0) followed by 20 bytes `fill`; continuity counter 0 -/
def esStart (hi fill : UInt8) : Bytes :=
  [0x47, 0x40 + hi, 0x01, 0x30, 0x9a, 0x00] ++ List.replicate 153 0xff ++
    [0x00, 0x00, 0x01, 0xe0, 0x00, 0x17, 0x80, 0x00, 0x00] ++ List.replicate 20 fill

/-- continuation packet on PID `0x100 * hi + 1` with a 153-byte adaptation field and 30 bytes `fill`;
continuity counter `cc` -/
def esCont (hi cc fill : UInt8) : Bytes :=
  [0x47, hi, 0x01, 0x30 + cc, 0x99, 0x00] ++ List.replicate 152 0xff ++ List.replicate 30 fill

/-- `sharedSameVer demux b0t0 …`: PAT {1 → 0x100, 2 → 0x100}; on 0x100 the PMT of program 1 (v0) and
the PMT of program 2 (v0); elementary packets on 0x101, 0x201, 0x101, 0x201 -/
def sameBytes : Bytes :=
  psiPkt 0x40 0x00 0x10 secPatShared ++ psiPkt 0x41 0x00 0x10 secPmtA ++ psiPkt 0x41 0x00 0x11 secPmtB0 ++
  esStart 1 0x61 ++ esStart 2 0x62 ++ esCont 1 1 0x41 ++ esCont 2 1 0x42

/-- `sharedDiffVer demux b0t0 …`: the same with program 2's PMT at version 1, then both PMTs repeated
(program 1's v0, program 2's v1), elementary packets after each -/
def diffBytes : Bytes :=
  psiPkt 0x40 0x00 0x10 secPatShared ++ psiPkt 0x41 0x00 0x10 secPmtA ++ psiPkt 0x41 0x00 0x11 secPmtB1 ++
  esStart 1 0x61 ++ esStart 2 0x62 ++
  psiPkt 0x41 0x00 0x12 secPmtA ++ esCont 1 1 0x41 ++ esCont 2 1 0x42 ++
  psiPkt 0x41 0x00 0x13 secPmtB1 ++ esCont 1 2 0x41 ++ esCont 2 2 0x42

/-- `cniNext demux b0t0 …`: PAT {1 → 0x100} (= `patV0`); PMT v0 {0x101}; a packet on 0x101; the NEXT
PMT v1 (`current_next_indicator = 0`) {0x102}; a packet on 0x101 -/
def cniBytes : Bytes :=
  patV0 ++ psiPkt 0x41 0x00 0x10 secPmtA ++ esStart 1 0x61 ++ psiPkt 0x41 0x00 0x11 secPmtNext ++
  esCont 1 1 0x41

/-- `twoSectionPat demux b0t0 …`: the two sections of a PAT v0 ({1 → 0x100}, {2 → 0x110}); PMT of
program 1 on 0x100; PMT of program 2 on 0x110; a packet on 0x201 -/
def twoSecBytes : Bytes :=
  psiPkt 0x40 0x00 0x10 secPat2a ++ psiPkt 0x40 0x00 0x11 secPat2b ++ psiPkt 0x41 0x00 0x10 secPmtA ++
  psiPkt 0x41 0x10 0x10 secPmtB0 ++ esStart 2 0x61

/-- the four byte strings have the lengths of the case lines (7, 11, 5, 5 packets) and start as
printed there -/
theorem case_lengths : sameBytes.length = 7 * 188 ∧ diffBytes.length = 11 * 188 ∧
    cniBytes.length = 5 * 188 ∧ twoSecBytes.length = 5 * 188 := by decide +kernel

/-! ### observing a run at chosen PIDs -/

structure ObsAt where
  constructs : List (Req × Nat)
  pkts : List (Nat × Nat)
  es : List (Nat × Nat)
  slots : List Slot
  deriving DecidableEq, Repr

/-- `construct` callbacks, recorded packets (tag, byte offset), elementary-stream callbacks
(tag, kind), and the slots of `pids` -/
def observeAt (pids : List Nat) : R (Tab Handler × Ctx) → Option ObsAt
  | .ok (t, c) => some ⟨constructs c, pkts c, esTags c, pids.map fun p => slotOf (t.get p)⟩
  | .panic _ => none

theorem observeAt_some (pids : List Nat) (r : R (Tab Handler × Ctx)) (o : ObsAt)
    (h : observeAt pids r = some o) :
    ∃ t c, r = .ok (t, c) ∧ constructs c = o.constructs ∧ pkts c = o.pkts ∧ esTags c = o.es ∧
      (pids.map fun p => slotOf (t.get p)) = o.slots := by
  cases r with
  | panic s => cases h
  | ok tc =>
    obtain ⟨t, c⟩ := tc
    simp only [observeAt, Option.some.injEq] at h
    subst h
    exact ⟨t, c, rfl, rfl, rfl, rfl, rfl⟩

theorem slot_pat (o : Option Handler) (reg : List Nat) (h : slotOf o = .pat reg) :
    ∃ s, o = some (.pat s reg) := by
  cases o with
  | none => cases h
  | some hd =>
    cases hd <;> simp [slotOf] at h
    subst h
    exact ⟨_, rfl⟩

/-! ### the whole model on the four case lines (kernel evaluation; one `push` of the whole buffer)

Identical to the Rust harness output quoted in the work package:
`sharedSameVer` → `… C:stream:256:27:257…>3 … C:bypid:513>4 P:4@752`;
`cniNext` → `C:stream…258>3 C:bypid:257>4`; `twoSectionPat` → `C:bypid:272>3 … C:bypid:513>4`. -/

/-- `sharedSameVer`: slots 0, 0x100, 0x101, 0x201.  Program 2's PMT (same `version_number` as program
1's, same PID) is de-duplicated: no stream request for 0x201 is ever made; the two packets on 0x201 are
offered as `ByPid(0x201)` (tag 4) and recorded at offsets 752 and 1128.  The PMT filter on 0x100 is the
one requested for program 2 (the LAST PAT entry naming 0x100), and it applied program 1's PMT. -/
theorem same_run : observeAt [0, 0x100, 0x101, 0x201] (runApp {} [sameBytes]) = some
    { constructs := [(.byPid 0, 0), (.pmt 0x100 1, 1), (.pmt 0x100 2, 2),
        (.stream 0x100 0x1b 0x101 0x101 [] [], 3), (.byPid 0x201, 4)],
      pkts := [(4, 752), (4, 1128)],
      es := [(3, 0), (3, 1), (3, 2)],
      slots := [.pat [0x100, 0x100], .pmt 0x100 2 [0x101], .pes 3, .recorder 4] } := by
  decide +kernel

/-- `sharedDiffVer`: the two PMTs (versions 0 and 1) are applied ALTERNATELY by the one PMT filter on
0x100, and each application removes the other program's elementary-stream handler: stream 0x101
(tag 3); stream 0x201 (4) — 0x101 removed, its next packet is `ByPid(0x101)` (5, offset 564);
stream 0x101 again (6) — 0x201 removed, `ByPid(0x201)` (7, offset 1316); stream 0x201 again (8) —
`ByPid(0x101)` (9, offset 1692). -/
theorem diff_run : observeAt [0, 0x100, 0x101, 0x201] (runApp {} [diffBytes]) = some
    { constructs := [(.byPid 0, 0), (.pmt 0x100 1, 1), (.pmt 0x100 2, 2),
        (.stream 0x100 0x1b 0x101 0x101 [] [], 3), (.stream 0x100 0x1b 0x201 0x201 [] [], 4),
        (.byPid 0x101, 5), (.stream 0x100 0x1b 0x101 0x101 [] [], 6), (.byPid 0x201, 7),
        (.stream 0x100 0x1b 0x201 0x201 [] [], 8), (.byPid 0x101, 9)],
      pkts := [(5, 564), (7, 1316), (9, 1692)],
      es := [(4, 0), (4, 1)],
      slots := [.pat [0x100, 0x100], .pmt 0x100 2 [0x201], .recorder 9, .pes 8] } := by
  decide +kernel

/-- `cniNext`: slots 0, 0x100, 0x101, 0x102.  The PMT with `current_next_indicator = 0` (version 1,
listing 0x102 only) is applied AT ONCE: stream request for 0x102 (tag 3), 0x101 removed — the next
packet on 0x101 is offered as `ByPid(0x101)` (tag 4) and recorded (offset 752). -/
theorem cni_run : observeAt [0, 0x100, 0x101, 0x102] (runApp {} [cniBytes]) = some
    { constructs := [(.byPid 0, 0), (.pmt 0x100 1, 1), (.stream 0x100 0x1b 0x101 0x101 [] [], 2),
        (.stream 0x100 0x1b 0x102 0x102 [] [], 3), (.byPid 0x101, 4)],
      pkts := [(4, 752)],
      es := [(2, 0), (2, 1)],
      slots := [.pat [0x100], .pmt 0x100 1 [0x102], .recorder 4, .pes 3] } := by
  decide +kernel

/-- `twoSectionPat`: slots 0, 0x100, 0x110, 0x101, 0x201.  Section 1 of the two-section PAT (same
`version_number` as section 0) is de-duplicated: program 2 never gets a PMT handler — the packet
carrying its PMT on 0x110 is offered as `ByPid(0x110)` (tag 3, recorded at 564) and its elementary
stream as `ByPid(0x201)` (tag 4, recorded at 752). -/
theorem twoSec_run : observeAt [0, 0x100, 0x110, 0x101, 0x201] (runApp {} [twoSecBytes]) = some
    { constructs := [(.byPid 0, 0), (.pmt 0x100 1, 1), (.stream 0x100 0x1b 0x101 0x101 [] [], 2),
        (.byPid 0x110, 3), (.byPid 0x201, 4)],
      pkts := [(3, 564), (4, 752)],
      es := [],
      slots := [.pat [0x100], .pmt 0x100 1 [0x101], .recorder 3, .pes 2, .recorder 4] } := by
  decide +kernel

/-! ### the case lines as histories -/

/-- the PAT whose two programs share the PMT PID 0x100 -/
def patShared : List PatEntry := [.program 1 0x100, .program 2 0x100]

/-- PMT body of program 1: PCR PID 0x101, 0x1b on 0x101 -/
def bodyA : Bytes := [0xe1, 0x01, 0xf0, 0x00, 0x1b, 0xe1, 0x01, 0xf0, 0x00]

/-- PMT body of program 2: PCR PID 0x201, 0x1b on 0x201 -/
def bodyB : Bytes := [0xe2, 0x01, 0xf0, 0x00, 0x1b, 0xe2, 0x01, 0xf0, 0x00]

/-- body of the NEXT PMT of program 1: PCR PID 0x102, 0x1b on 0x102 -/
def bodyN : Bytes := [0xe1, 0x02, 0xf0, 0x00, 0x1b, 0xe1, 0x02, 0xf0, 0x00]

theorem streams_bodyA : streamsOf bodyA = [⟨0x1b, 0x101, []⟩] := by decide +kernel
theorem streams_bodyB : streamsOf bodyB = [⟨0x1b, 0x201, []⟩] := by decide +kernel

/-- `sharedSameVer` as a history: PAT; PMT of program 1 applied; the packet carrying the PMT of
program 2 is a REPETITION in the sense of C10 (same PID, same `version_number`); four elementary
packets -/
def hSame : List Event :=
  [.patApplied 0 patShared, .pmtApplied 0x100 0 bodyA, .repetition 0x100,
   .esPacket 0x101, .esPacket 0x201, .esPacket 0x101, .esPacket 0x201]

/-- `sharedDiffVer` as a history: both sections are applied, alternately, as versions 0, 1, 0, 1 of
"the" PMT on 0x100 -/
def hDiff : List Event :=
  [.patApplied 0 patShared, .pmtApplied 0x100 0 bodyA, .pmtApplied 0x100 1 bodyB,
   .esPacket 0x101, .esPacket 0x201, .pmtApplied 0x100 0 bodyA, .esPacket 0x101, .esPacket 0x201,
   .pmtApplied 0x100 1 bodyB, .esPacket 0x101, .esPacket 0x201]

/-- `cniNext` as a history: the next table is just another applied version -/
def hCni : List Event :=
  [.patApplied 0 [.program 1 0x100], .pmtApplied 0x100 0 bodyA, .esPacket 0x101,
   .pmtApplied 0x100 1 bodyN, .esPacket 0x101]

/-- `twoSectionPat` as a history: section 1 of the PAT is a repetition on PID 0 -/
def hTwoSec : List Event :=
  [.patApplied 0 [.program 1 0x100], .repetition 0, .pmtApplied 0x100 0 bodyA,
   .esPacket 0x110, .esPacket 0x201]

def samePks : List Pk :=
  [⟨psiPkt 0x40 0x00 0x10 secPatShared, 0, 0, false, false⟩,
   ⟨psiPkt 0x41 0x00 0x10 secPmtA, 188, 0x100, false, false⟩,
   ⟨psiPkt 0x41 0x00 0x11 secPmtB0, 376, 0x100, false, false⟩,
   ⟨esStart 1 0x61, 564, 0x101, false, false⟩, ⟨esStart 2 0x62, 752, 0x201, false, false⟩,
   ⟨esCont 1 1 0x41, 940, 0x101, false, false⟩, ⟨esCont 2 1 0x42, 1128, 0x201, false, false⟩]

def diffPks : List Pk :=
  [⟨psiPkt 0x40 0x00 0x10 secPatShared, 0, 0, false, false⟩,
   ⟨psiPkt 0x41 0x00 0x10 secPmtA, 188, 0x100, false, false⟩,
   ⟨psiPkt 0x41 0x00 0x11 secPmtB1, 376, 0x100, false, false⟩,
   ⟨esStart 1 0x61, 564, 0x101, false, false⟩, ⟨esStart 2 0x62, 752, 0x201, false, false⟩,
   ⟨psiPkt 0x41 0x00 0x12 secPmtA, 940, 0x100, false, false⟩,
   ⟨esCont 1 1 0x41, 1128, 0x101, false, false⟩, ⟨esCont 2 1 0x42, 1316, 0x201, false, false⟩,
   ⟨psiPkt 0x41 0x00 0x13 secPmtB1, 1504, 0x100, false, false⟩,
   ⟨esCont 1 2 0x41, 1692, 0x101, false, false⟩, ⟨esCont 2 2 0x42, 1880, 0x201, false, false⟩]

def cniPks : List Pk :=
  [⟨patV0, 0, 0, false, false⟩, ⟨psiPkt 0x41 0x00 0x10 secPmtA, 188, 0x100, false, false⟩,
   ⟨esStart 1 0x61, 376, 0x101, false, false⟩,
   ⟨psiPkt 0x41 0x00 0x11 secPmtNext, 564, 0x100, false, false⟩,
   ⟨esCont 1 1 0x41, 752, 0x101, false, false⟩]

def twoSecPks : List Pk :=
  [⟨psiPkt 0x40 0x00 0x10 secPat2a, 0, 0, false, false⟩,
   ⟨psiPkt 0x40 0x00 0x11 secPat2b, 188, 0, false, false⟩,
   ⟨psiPkt 0x41 0x00 0x10 secPmtA, 376, 0x100, false, false⟩,
   ⟨psiPkt 0x41 0x10 0x10 secPmtB0, 564, 0x110, false, false⟩,
   ⟨esStart 2 0x61, 752, 0x201, false, false⟩]

theorem same_frame : Demux.frame sameBytes 0 = .ok samePks := by decide +kernel
theorem diff_frame : Demux.frame diffBytes 0 = .ok diffPks := by decide +kernel
theorem cni_frame : Demux.frame cniBytes 0 = .ok cniPks := by decide +kernel
theorem twoSec_frame : Demux.frame twoSecBytes 0 = .ok twoSecPks := by decide +kernel

/-- all the decidable side conditions of a one-packet PAT transmission at once -/
theorem re_pat_one (r : Route) (b : Bytes) (off : Nat) (S : Bytes) (ver : Nat) (es : List PatEntry)
    (h : WellFormedSection .syntax S ∧ 12 ≤ S.length ∧ Ts.CrcSpec.crc S = 0 ∧
      b.length = 188 ∧ WellFormedMux .syntax S (muxOf S) ∧
      plOf b = some ⟨true, (muxOf S).first S, 4⟩ ∧
      byteD S 0 = 0 ∧ versionOf S = ver ∧ specPat (sectionBody S) = es) :
    RealisesEv r (.patApplied ver es) [⟨b, off, 0, false, false⟩] := by
  obtain ⟨h1, h2, h3, h4, h5, h6, h7, h8, h9⟩ := h
  exact ⟨S, transmits_one 0 S _ h1 h2 h3 ⟨rfl, rfl, h4⟩ h5 h6, h7, h8, h9⟩

/-- … of a one-packet PMT transmission -/
theorem re_pmt_one (r : Route) (p : Nat) (b : Bytes) (off : Nat) (S : Bytes) (ver : Nat) (body : Bytes)
    (h : WellFormedSection .syntax S ∧ 12 ≤ S.length ∧ Ts.CrcSpec.crc S = 0 ∧
      b.length = 188 ∧ WellFormedMux .syntax S (muxOf S) ∧
      plOf b = some ⟨true, (muxOf S).first S, 4⟩ ∧
      byteD S 0 = 2 ∧ versionOf S = ver ∧ sectionBody S = body ∧ specPmtAccept body) :
    RealisesEv r (.pmtApplied p ver body) [⟨b, off, p, false, false⟩] := by
  obtain ⟨h1, h2, h3, h4, h5, h6, h7, h8, h9, h10⟩ := h
  exact ⟨S, transmits_one p S _ h1 h2 h3 ⟨rfl, rfl, h4⟩ h5 h6, h7, h8, h9, h10⟩

/-- a one-packet transmission of a section with `version_number = v` is a repetition packet of
version `v` (C10) -/
theorem rep_of_section (v : Nat) (pk S : Bytes)
    (h : pk.length = 188 ∧ plOf pk = some ⟨true, (muxOf S).first S, 4⟩ ∧ WellFormedSection .syntax S ∧
      8 ≤ S.length ∧ versionOf S = v ∧ WellFormedMux .syntax S (muxOf S)) : RepPacket v pk := by
  obtain ⟨h1, h2, h3, h4, h5, h6⟩ := h
  refine ⟨h1, ?_⟩
  intro q hq
  rw [h2] at hq
  cases hq
  exact Or.inr ⟨S, muxOf S, h3, h4, h5, h6, rfl, rfl⟩

theorem re_es (r : Route) (p : Nat) (b : Bytes) (off : Nat) (h : b.length = 188) :
    RealisesEv r (.esPacket p) [⟨b, off, p, false, false⟩] := ⟨_, rfl, rfl, h⟩

theorem same_wf : WF initRoute hSame := by decide +kernel
theorem diff_wf : WF initRoute hDiff := by decide +kernel
theorem cni_wf : WF initRoute hCni := by decide +kernel
theorem twoSec_wf : WF initRoute hTwoSec := by decide +kernel

theorem re_patShared (r : Route) :
    RealisesEv r (.patApplied 0 patShared) [⟨psiPkt 0x40 0x00 0x10 secPatShared, 0, 0, false, false⟩] :=
  re_pat_one r _ 0 secPatShared 0 patShared (by decide +kernel)

theorem re_pmtA (r : Route) (off : Nat) :
    RealisesEv r (.pmtApplied 0x100 0 bodyA) [⟨psiPkt 0x41 0x00 0x10 secPmtA, off, 0x100, false, false⟩] :=
  re_pmt_one r 0x100 _ off secPmtA 0 bodyA (by decide +kernel)

/-- the packet carrying program 2's PMT (version 0) is a repetition packet of version 0 on 0x100 -/
theorem pmtB0_rep : RepPacket 0 (psiPkt 0x41 0x00 0x11 secPmtB0) :=
  rep_of_section 0 _ secPmtB0 (by decide +kernel)

/-- section 1 of the two-section PAT is a repetition packet of version 0 on PID 0 -/
theorem pat2b_rep : RepPacket 0 (psiPkt 0x40 0x00 0x11 secPat2b) :=
  rep_of_section 0 _ secPat2b (by decide +kernel)

/-- the `sharedSameVer` bytes REALISE `hSame`: in the spec's vocabulary program 2's PMT is a
repetition -/
theorem same_realises : Realises initRoute hSame samePks := by
  refine Realises.cons (re_patShared _) (Realises.cons (re_pmtA _ 188)
    (Realises.cons (pks1 := [⟨psiPkt 0x41 0x00 0x11 secPmtB0, 376, 0x100, false, false⟩]) ?_
    (Realises.cons (re_es _ 0x101 (esStart 1 0x61) 564 (by decide +kernel))
    (Realises.cons (re_es _ 0x201 (esStart 2 0x62) 752 (by decide +kernel))
    (Realises.cons (re_es _ 0x101 (esCont 1 1 0x41) 940 (by decide +kernel))
    (Realises.cons (re_es _ 0x201 (esCont 2 1 0x42) 1128 (by decide +kernel))
    (Realises.nil _)))))))
  refine ⟨_, rfl, rfl, Or.inr ?_⟩
  have : tableVersion (stepRoute (stepRoute initRoute (.patApplied 0 patShared))
      (.pmtApplied 0x100 0 bodyA)) 0x100 = some 0 := by decide +kernel
  rw [this]
  exact pmtB0_rep

/-- the `sharedDiffVer` bytes realise `hDiff` -/
theorem diff_realises : Realises initRoute hDiff diffPks :=
  Realises.cons (re_patShared _) (Realises.cons (re_pmtA _ 188)
    (Realises.cons (re_pmt_one _ 0x100 (psiPkt 0x41 0x00 0x11 secPmtB1) 376 secPmtB1 1 bodyB (by decide +kernel))
    (Realises.cons (re_es _ 0x101 (esStart 1 0x61) 564 (by decide +kernel))
    (Realises.cons (re_es _ 0x201 (esStart 2 0x62) 752 (by decide +kernel))
    (Realises.cons (re_pmt_one _ 0x100 (psiPkt 0x41 0x00 0x12 secPmtA) 940 secPmtA 0 bodyA (by decide +kernel))
    (Realises.cons (re_es _ 0x101 (esCont 1 1 0x41) 1128 (by decide +kernel))
    (Realises.cons (re_es _ 0x201 (esCont 2 1 0x42) 1316 (by decide +kernel))
    (Realises.cons (re_pmt_one _ 0x100 (psiPkt 0x41 0x00 0x13 secPmtB1) 1504 secPmtB1 1 bodyB (by decide +kernel))
    (Realises.cons (re_es _ 0x101 (esCont 1 2 0x41) 1692 (by decide +kernel))
    (Realises.cons (re_es _ 0x201 (esCont 2 2 0x42) 1880 (by decide +kernel))
    (Realises.nil _)))))))))))

/-- the `cniNext` bytes realise `hCni`: `Transmits` does not look at `current_next_indicator` -/
theorem cni_realises : Realises initRoute hCni cniPks :=
  Realises.cons (re_pat0 _ 0) (Realises.cons (re_pmtA _ 188)
    (Realises.cons (re_es _ 0x101 (esStart 1 0x61) 376 (by decide +kernel))
    (Realises.cons (re_pmt_one _ 0x100 (psiPkt 0x41 0x00 0x11 secPmtNext) 564 secPmtNext 1 bodyN (by decide +kernel))
    (Realises.cons (re_es _ 0x101 (esCont 1 1 0x41) 752 (by decide +kernel))
    (Realises.nil _)))))

/-- the `twoSectionPat` bytes realise `hTwoSec`: section 1 (same `version_number`) is a repetition -/
theorem twoSec_realises : Realises initRoute hTwoSec twoSecPks := by
  refine Realises.cons
    (re_pat_one _ (psiPkt 0x40 0x00 0x10 secPat2a) 0 secPat2a 0 [.program 1 0x100] (by decide +kernel))
    (Realises.cons (pks1 := [⟨psiPkt 0x40 0x00 0x11 secPat2b, 188, 0, false, false⟩]) ?_
    (Realises.cons (re_pmtA _ 376)
    (Realises.cons (re_es _ 0x110 (psiPkt 0x41 0x10 0x10 secPmtB0) 564 (by decide +kernel))
    (Realises.cons (re_es _ 0x201 (esStart 2 0x61) 752 (by decide +kernel))
    (Realises.nil _)))))
  refine ⟨_, rfl, rfl, Or.inr ?_⟩
  have : tableVersion (stepRoute initRoute (.patApplied 0 [.program 1 0x100])) 0 = some 0 := by
    decide +kernel
  rw [this]
  exact pat2b_rep

/-- the abstract states reached by `hSame` and by the prefixes of `hDiff` -/
theorem same_slots :
    (run initRoute hSame).slots 0x100 = some (.pmt 0x100 2, 2) ∧
    (run initRoute hSame).slots 0x101 = some (.stream 0x100 0x1b 0x101 0x101 [] [], 3) ∧
    (run initRoute hSame).slots 0x201 = some (.byPid 0x201, 4) ∧
    ((run initRoute hSame).pmt 0x100).streams = [⟨0x1b, 0x101, []⟩] := by decide +kernel

theorem diff_slots :
    (run initRoute (hDiff.take 3)).slots 0x101 = none ∧
    (run initRoute (hDiff.take 3)).slots 0x201 = some (.stream 0x100 0x1b 0x201 0x201 [] [], 4) ∧
    (run initRoute (hDiff.take 6)).slots 0x101 = some (.stream 0x100 0x1b 0x101 0x101 [] [], 6) ∧
    (run initRoute (hDiff.take 6)).slots 0x201 = none ∧
    (run initRoute (hDiff.take 9)).slots 0x101 = none ∧
    (run initRoute (hDiff.take 9)).slots 0x201 = some (.stream 0x100 0x1b 0x201 0x201 [] [], 8) ∧
    (run initRoute hDiff).slots 0x101 = some (.byPid 0x101, 9) ∧
    (run initRoute hDiff).slots 0x201 = some (.stream 0x100 0x1b 0x201 0x201 [] [], 8) := by
  decide +kernel

theorem same_requests : historyRequests initRoute hSame =
    [.pmt 0x100 1, .pmt 0x100 2, .stream 0x100 0x1b 0x101 0x101 [] [], .byPid 0x201] := by
  decide +kernel

theorem same_cf : CollisionFree hSame ∧ CollisionFreeNowAll hSame ∧ ¬ DistinctPmtPidsAll hSame := by
  decide +kernel

theorem diff_cf : CollisionFree hDiff ∧ CollisionFreeNowAll hDiff ∧ ¬ DistinctPmtPidsAll hDiff := by
  decide +kernel

/-! ### a PAT with a network entry (non-vacuity of the NIT clause) -/

/-- PAT version 0: network entry → 0x10, program 1 → 0x100 (a section built for this check, not a case
line; CRC-32 computed by the bit-serial specification) -/
def secPatNit : Bytes :=
  [0x00, 0xb0, 0x11, 0x00, 0x01, 0xc1, 0x00, 0x00, 0x00, 0x00, 0xe0, 0x10, 0x00, 0x01, 0xe1, 0x00,
   0x9e, 0xa6, 0x64, 0x96]

def patNit : List PatEntry := [.network 0x10, .program 1 0x100]

theorem re_patNit (r : Route) :
    RealisesEv r (.patApplied 0 patNit) [⟨psiPkt 0x40 0x00 0x10 secPatNit, 0, 0, false, false⟩] :=
  re_pat_one r _ 0 secPatNit 0 patNit (by decide +kernel)

theorem nit_wf : WF initRoute [.patApplied 0 patNit] ∧ CollisionFreeNowAll [.patApplied 0 patNit] := by
  decide +kernel

/-! ### the PAT in force -/

theorem run_patEntries : ∀ (evs : List Event) (r : Route) (T : Current), r.patEntries = T.pat →
    (run r evs).patEntries = (curFrom T evs).pat := by
  intro evs
  induction evs with
  | nil => intro r T h; exact h
  | cons ev evs ih =>
    intro r T h
    rw [run_cons, curFrom_cons]
    apply ih
    cases ev with
    | patApplied v es => rfl
    | pmtApplied p v b => exact h
    | esPacket q => cases hq : r.slots q <;> simp only [stepRoute, hq] <;> exact h
    | repetition q => exact h

theorem cur_pat_kept : ∀ (post : List Event) (T : Current),
    (∀ ev ∈ post, ∀ v es, ev ≠ .patApplied v es) → (curFrom T post).pat = T.pat := by
  intro post
  induction post with
  | nil => intro T _; rfl
  | cons ev post ih =>
    intro T h
    rw [curFrom_cons, ih _ (fun ev' hm => h ev' (List.mem_cons_of_mem _ hm))]
    cases ev with
    | patApplied v es => exact absurd rfl (h _ List.mem_cons_self v es)
    | pmtApplied p v b => rfl
    | esPacket q => rfl
    | repetition q => rfl

/-- the PAT in force after `pre ++ PAT(es) :: post`, when `post` applies no PAT, is `es` -/
theorem cur_pat_after (pre post : List Event) (ver : Nat) (es : List PatEntry)
    (hlast : ∀ ev ∈ post, ∀ v es', ev ≠ .patApplied v es') :
    (currentOf (pre ++ .patApplied ver es :: post)).pat = es := by
  unfold currentOf
  rw [curFrom_append, curFrom_cons, cur_pat_kept post _ hlast]
  rfl

/-- what holds of the PAT in force and of every PAT applied afterwards holds of the PAT in force
afterwards -/
theorem cur_pat_pred (P : List PatEntry → Prop) : ∀ (post : List Event) (T : Current), P T.pat →
    (∀ ev ∈ post, ∀ v es, ev = .patApplied v es → P es) → P (curFrom T post).pat := by
  intro post
  induction post with
  | nil => intro T h _; exact h
  | cons ev post ih =>
    intro T h hall
    rw [curFrom_cons]
    refine ih _ ?_ (fun ev' hm => hall ev' (List.mem_cons_of_mem _ hm))
    cases ev with
    | patApplied v es => exact hall _ List.mem_cons_self v es rfl
    | pmtApplied p v b => exact h
    | esPacket q => exact h
    | repetition q => exact h

/-- an entry listed by the PAT in force and by every PAT applied afterwards is listed by the PAT in
force afterwards -/
theorem cur_pat_mem (e : PatEntry) (post : List Event) (T : Current) (h : e ∈ T.pat)
    (hall : ∀ ev ∈ post, ∀ v es, ev = .patApplied v es → e ∈ es) : e ∈ (curFrom T post).pat :=
  cur_pat_pred (fun es => e ∈ es) post T h hall

theorem entry_of_lastFor {es : List PatEntry} {q : Nat} {req : Req}
    (h : lastFor (patRequests es) q = some req) : ∃ e ∈ es, e.pid = q ∧ req = patRequest e := by
  have := lastFor_mem _ _ _ h
  unfold patRequests at this
  obtain ⟨e, he, hee⟩ := List.mem_map.1 this
  simp only [Prod.mk.injEq] at hee
  exact ⟨e, he, hee.1, hee.2.symm⟩

/-! ### the positive clause for the PAT under collision-freedom of the tables in force -/

/-- every PID listed by the PAT in force is routed by the request of its (last) entry -/
def PatRouted (r : Route) (T : Current) : Prop :=
  ∀ q req, lastFor (patRequests T.pat) q = some req → ∃ tag, r.slots q = some (req, tag)

theorem patRouted_step (r : Route) (T : Current) (ev : Event) (h : Agree r T) (hp : PatRouted r T)
    (hwf : wfEv r ev) (hc : CollisionFreeNow T) (hc' : CollisionFreeNow (stepCurrent T ev)) :
    PatRouted (stepRoute r ev) (stepCurrent T ev) := by
  cases ev with
  | patApplied ver es =>
    intro q req hq
    have hq' : lastFor (patRequests es) q = some req := hq
    have hlt := lastFor_tagged (patRequests es) r.reqs.length q
    rw [hq'] at hlt
    cases hl : lastFor (tagged r.reqs.length (patRequests es)) q with
    | none => rw [hl] at hlt; cases hlt
    | some a =>
      rw [hl] at hlt
      simp only [Option.map_some, Option.some.injEq] at hlt
      refine ⟨a.2, ?_⟩
      rw [stepRoute_pat_slots]; unfold applied; rw [hl, hlt]
  | pmtApplied p0 ver b =>
    obtain ⟨hrt, -, -⟩ := hwf
    obtain ⟨prog0, tag0, hs0⟩ := (pmtRouted_iff r p0).1 hrt
    have hp0 : p0 ∈ progPids T.pat := by rw [← h.pat]; exact h.prog p0 _ _ _ hs0
    intro q req hq
    have hq' : lastFor (patRequests T.pat) q = some req := hq
    obtain ⟨tag, hs⟩ := hp q req hq'
    obtain ⟨e, he, heq, -⟩ := entry_of_lastFor hq'
    refine ⟨tag, ?_⟩
    rw [slot_kept r q (.pmtApplied p0 ver b) ⟨?_, ?_⟩]; exact hs
    · intro hmem
      obtain ⟨s, hs1, hsq⟩ := List.mem_map.1 hmem
      exact hc'.2.1 (p0, b) List.mem_cons_self s hs1 e he (by rw [hsq, heq])
    · intro hmem
      obtain ⟨s, hs1, hsq⟩ := List.mem_map.1 hmem
      obtain ⟨b1, hb1, hs1'⟩ := h.inst p0 hp0 s hs1
      exact hc.2.1 (p0, b1) hb1 s hs1' e he (by rw [hsq, heq])
  | esPacket q' =>
    intro q req hq
    have hq' : lastFor (patRequests T.pat) q = some req := hq
    obtain ⟨tag, hs⟩ := hp q req hq'
    refine ⟨tag, ?_⟩
    rw [slot_kept r q (.esPacket q') (fun _ hn => by rw [hs] at hn; cases hn)]; exact hs
  | repetition q' => exact hp

theorem patRouted_run : ∀ (evs : List Event) (r : Route) (T : Current), Agree r T → PatRouted r T →
    WF r evs → (∀ k, CollisionFreeNow (curFrom T (evs.take k))) →
    PatRouted (run r evs) (curFrom T evs) := by
  intro evs
  induction evs with
  | nil => intro r T _ h _ _; exact h
  | cons ev evs ih =>
    intro r T h hp hwf hcf
    obtain ⟨hw1, hw2⟩ := hwf
    exact ih _ _ (agree_step r T ev h hw1 (hcf 0) (hcf 1))
      (patRouted_step r T ev h hp hw1 (hcf 0) (hcf 1)) hw2 (fun k => hcf (k + 1))

/-- a PID listed by the PAT in force is routed by the request of its (last) entry -/
theorem routed_by_current_pat (evs : List Event) (hwf : WF initRoute evs) (hcf : CollisionFreeNowAll evs)
    (q : Nat) (req : Req) (hq : lastFor (patRequests (currentOf evs).pat) q = some req) :
    ∃ tag, (run initRoute evs).slots q = some (req, tag) :=
  patRouted_run evs initRoute ⟨[], []⟩ agree_init (by intro q req h; cases h) hwf hcf q req hq

/-! ### a PMT handler's program number is the one the current PAT announces for its PID -/

structure ProgInv (r : Route) : Prop where
  bound : ∀ e ∈ r.patEntries, e.pid ≤ 0x1fff
  /-- a PID routed by `Pmt(a, b)` is that PID (`a = p`) and the current PAT lists program `b` on it -/
  prog : ∀ p a b tag, r.slots p = some (.pmt a b, tag) → a = p ∧ PatEntry.program b p ∈ r.patEntries

theorem progInv_init : ProgInv initRoute := by
  refine ⟨fun e he => (by cases he), ?_⟩
  intro p a b tag h
  simp only [initRoute] at h
  split at h <;> cases h

theorem progInv_step (r : Route) (ev : Event) (h : ProgInv r) (hwf : wfEv r ev) :
    ProgInv (stepRoute r ev) := by
  cases ev with
  | patApplied ver es =>
    obtain ⟨-, -, hes⟩ := hwf
    refine ⟨fun e he => (hes e he).1, ?_⟩
    intro p a b tag hs
    show a = p ∧ PatEntry.program b p ∈ es
    rw [stepRoute_pat_slots] at hs
    unfold applied at hs
    cases hl : lastFor (tagged r.reqs.length (patRequests es)) p with
    | some x =>
      rw [hl] at hs
      simp only [Option.some.injEq] at hs
      subst hs
      obtain ⟨hm, -, -⟩ := tagged_mem _ _ _ _ _ (lastFor_mem _ _ _ hl)
      unfold patRequests at hm
      obtain ⟨e, he, hee⟩ := List.mem_map.1 hm
      simp only [Prod.mk.injEq] at hee
      obtain ⟨e1, e2⟩ := hee
      cases e with
      | program pn pid =>
        simp only [patRequest, Req.pmt.injEq] at e2
        obtain ⟨rfl, rfl⟩ := e2
        have e1' : p = pid := e1.symm
        subst e1'
        exact ⟨rfl, he⟩
      | network pid => cases e2
    | none =>
      rw [hl] at hs
      simp only at hs
      split at hs
      · cases hs
      · rename_i hno
        exfalso
        apply hno
        obtain ⟨-, hmem⟩ := h.prog p a b tag hs
        have hb := h.bound _ hmem
        have hb' : p ≤ 0x1fff := hb
        exact ⟨by omega, List.mem_map.2 ⟨_, hmem, rfl⟩, lastFor_none _ _ hl⟩
  | pmtApplied p0 ver b0 =>
    refine ⟨h.bound, ?_⟩
    intro p a b tag hs
    show a = p ∧ PatEntry.program b p ∈ r.patEntries
    rw [stepRoute_pmt_slots] at hs
    unfold applied at hs
    cases hl : lastFor (tagged r.reqs.length (pmtReqs p0 b0)) p with
    | some x =>
      rw [hl] at hs
      simp only [Option.some.injEq] at hs
      subst hs
      obtain ⟨hm, -, -⟩ := tagged_mem _ _ _ _ _ (lastFor_mem _ _ _ hl)
      unfold pmtReqs pmtRequests at hm
      obtain ⟨e, -, hee⟩ := List.mem_map.1 hm
      simp only [Prod.mk.injEq, streamRequest] at hee
      cases hee.2
    | none =>
      rw [hl] at hs
      simp only at hs
      split at hs
      · cases hs
      · exact h.prog p a b tag hs
  | esPacket q' =>
    cases hq : r.slots q' with
    | some x =>
      have : stepRoute r (.esPacket q') = r := by simp only [stepRoute, hq]
      rw [this]; exact h
    | none =>
      have : stepRoute r (.esPacket q') =
          { r with slots := fun q => if q = q' then some (.byPid q', r.reqs.length) else r.slots q,
                   reqs := r.reqs ++ [.byPid q'] } := by simp only [stepRoute, hq]
      rw [this]
      refine ⟨h.bound, ?_⟩
      intro p a b tag hs
      simp only at hs
      by_cases e : p = q'
      · rw [if_pos e] at hs; cases hs
      · rw [if_neg e] at hs; exact h.prog p a b tag hs
  | repetition q' => exact h

theorem progInv_run : ∀ (evs : List Event) (r : Route), ProgInv r → WF r evs → ProgInv (run r evs) := by
  intro evs
  induction evs with
  | nil => intro r h _; exact h
  | cons ev evs ih =>
    intro r h hwf
    exact ih _ (progInv_step r ev h hwf.1) hwf.2

/-! ### `DistinctPmtPids` -/

theorem distinctAll_append : ∀ (a b : List Event),
    DistinctPmtPidsAll (a ++ b) ↔ DistinctPmtPidsAll a ∧ DistinctPmtPidsAll b := by
  intro a
  induction a with
  | nil => intro b; exact ⟨fun h => ⟨trivial, h⟩, fun h => h.2⟩
  | cons ev a ih =>
    intro b
    cases ev with
    | patApplied v es =>
      show (DistinctPmtPids es ∧ DistinctPmtPidsAll (a ++ b)) ↔ _
      rw [ih b]
      exact ⟨fun ⟨h1, h2, h3⟩ => ⟨⟨h1, h2⟩, h3⟩, fun ⟨⟨h1, h2⟩, h3⟩ => ⟨h1, h2, h3⟩⟩
    | pmtApplied p v body => exact ih b
    | esPacket q => exact ih b
    | repetition q => exact ih b

theorem distinctAll_iff : ∀ (evs : List Event),
    DistinctPmtPidsAll evs ↔ ∀ v es, Event.patApplied v es ∈ evs → DistinctPmtPids es := by
  intro evs
  induction evs with
  | nil => exact ⟨fun _ v es h => (by cases h), fun _ => trivial⟩
  | cons ev evs ih =>
    have hrest : (∀ v es, Event.patApplied v es ∈ evs → DistinctPmtPids es) →
        DistinctPmtPidsAll evs := ih.2
    cases ev with
    | patApplied v0 es0 =>
      constructor
      · rintro ⟨h1, h2⟩ v es hm
        rcases List.mem_cons.1 hm with e | hm'
        · cases e; exact h1
        · exact ih.1 h2 v es hm'
      · intro h
        exact ⟨h v0 es0 List.mem_cons_self, hrest fun v es hm => h v es (List.mem_cons_of_mem _ hm)⟩
    | pmtApplied p v0 body =>
      constructor
      · intro h v es hm
        rcases List.mem_cons.1 hm with e | hm'
        · cases e
        · exact ih.1 h v es hm'
      · intro h
        exact hrest fun v es hm => h v es (List.mem_cons_of_mem _ hm)
    | esPacket q =>
      constructor
      · intro h v es hm
        rcases List.mem_cons.1 hm with e | hm'
        · cases e
        · exact ih.1 h v es hm'
      · intro h
        exact hrest fun v es hm => h v es (List.mem_cons_of_mem _ hm)
    | repetition q =>
      constructor
      · intro h v es hm
        rcases List.mem_cons.1 hm with e | hm'
        · cases e
        · exact ih.1 h v es hm'
      · intro h
        exact hrest fun v es hm => h v es (List.mem_cons_of_mem _ hm)

/-- the PAT in force satisfies `DistinctPmtPids` when every applied PAT does -/
theorem distinct_cur : ∀ (evs : List Event) (T : Current), DistinctPmtPids T.pat →
    DistinctPmtPidsAll evs → DistinctPmtPids (curFrom T evs).pat := by
  intro evs
  induction evs with
  | nil => intro T h _; exact h
  | cons ev evs ih =>
    intro T h hall
    rw [curFrom_cons]
    cases ev with
    | patApplied v es => exact ih _ hall.1 hall.2
    | pmtApplied p v body => exact ih _ h hall
    | esPacket q => exact ih _ h hall
    | repetition q => exact ih _ h hall

theorem distinct_currentOf (evs : List Event) (h : DistinctPmtPidsAll evs) :
    DistinctPmtPids (currentOf evs).pat :=
  distinct_cur evs ⟨[], []⟩ (fun e he => (by cases he)) h

/-- under `DistinctPmtPids`, every entry naming the PMT PID of program `n` is the entry of program `n` -/
theorem distinct_entry {es : List PatEntry} (hd : DistinctPmtPids es) {n p : Nat}
    (hm : PatEntry.program n p ∈ es) {e : PatEntry} (he : e ∈ es) (hp : e.pid = p) :
    e = .program n p := by
  have := hd e he _ hm hp
  cases e with
  | network q => cases this
  | program n' p' =>
    simp only [progNum, Option.some.injEq] at this
    have hp' : p' = p := hp
    rw [this, hp']

theorem pmtPidOf_mem : ∀ {es : List PatEntry} {n p : Nat}, pmtPidOf es n = some p →
    PatEntry.program n p ∈ es := by
  intro es
  induction es with
  | nil => intro n p h; cases h
  | cons e es ih =>
    intro n p h
    unfold pmtPidOf at h
    rw [List.findSome?_cons] at h
    cases e with
    | network q => exact List.mem_cons_of_mem _ (ih h)
    | program n' p' =>
      simp only at h
      by_cases hn : n' = n
      · rw [if_pos hn] at h
        simp only [Option.some.injEq] at h
        rw [hn, h]; exact List.mem_cons_self
      · rw [if_neg hn] at h
        exact List.mem_cons_of_mem _ (ih h)

theorem progPids_of_program {es : List PatEntry} {n p : Nat} (h : PatEntry.program n p ∈ es) :
    p ∈ progPids es := (mem_progPids es p).2 ⟨_, h, rfl, rfl⟩

/-- **the per-program reading.**  History `pre ++ PMT(p) :: post`, well-formed, every applied PAT with
`DistinctPmtPids`; the PAT in force when the PMT was applied lists program `n` on `p`, and so does
every PAT applied afterwards.  Then: the PAT in force at the end lists program `n` on `p`; every entry
of it naming `p` is that entry; the PMT was consumed by a handler requested as `Pmt(p, n)`. -/
theorem of_program_aux (pre post : List Event) (n p ver : Nat) (body : Bytes)
    (hwf : WF initRoute (pre ++ .pmtApplied p ver body :: post))
    (hd : DistinctPmtPidsAll (pre ++ .pmtApplied p ver body :: post))
    (hprog : PatEntry.program n p ∈ (currentOf pre).pat)
    (hkeep : ∀ ev ∈ post, ∀ v es, ev = .patApplied v es → PatEntry.program n p ∈ es) :
    PatEntry.program n p ∈ (currentOf (pre ++ .pmtApplied p ver body :: post)).pat ∧
    (∀ e ∈ (currentOf (pre ++ .pmtApplied p ver body :: post)).pat, e.pid = p → e = .program n p) ∧
    ∃ tag, (run initRoute pre).slots p = some (.pmt p n, tag) := by
  have hmem : PatEntry.program n p ∈ (currentOf (pre ++ .pmtApplied p ver body :: post)).pat := by
    unfold currentOf
    rw [curFrom_append, curFrom_cons]
    exact cur_pat_mem _ post _ hprog hkeep
  refine ⟨hmem, fun e he hp => distinct_entry (distinct_currentOf _ hd) hmem he hp, ?_⟩
  obtain ⟨hwf1, hwf2⟩ := (wf_append pre _ initRoute).1 hwf
  obtain ⟨hrt, -, -⟩ := hwf2.1
  obtain ⟨prog0, tag0, hs0⟩ := (pmtRouted_iff _ p).1 hrt
  obtain ⟨-, hm0⟩ := (progInv_run pre initRoute progInv_init hwf1).prog p _ _ _ hs0
  rw [run_patEntries pre initRoute ⟨[], []⟩ rfl] at hm0
  have hd1 := distinct_currentOf pre ((distinctAll_append pre _).1 hd).1
  have := distinct_entry hd1 hprog hm0 rfl
  simp only [PatEntry.program.injEq, and_true] at this
  exact ⟨tag0, by rw [hs0, this]⟩

/-- under `DistinctPmtPids`, the PMT PID of a program listed by the PAT in force is routed to a PMT
handler requested with THAT program number -/
theorem pmt_slot_of_program (evs : List Event) (hwf : WF initRoute evs) (hcf : CollisionFreeNowAll evs)
    (hd : DistinctPmtPidsAll evs) (n p : Nat) (hm : PatEntry.program n p ∈ (currentOf evs).pat) :
    ∃ tag, (run initRoute evs).slots p = some (.pmt p n, tag) := by
  cases hl : lastFor (patRequests (currentOf evs).pat) p with
  | none =>
    exfalso
    apply lastFor_none _ _ hl
    rw [patRequests_pids]
    exact List.mem_map.2 ⟨_, hm, rfl⟩
  | some req =>
    obtain ⟨e, he, hep, hreq⟩ := entry_of_lastFor hl
    have := distinct_entry (distinct_currentOf evs hd) hm he hep
    subst this
    subst hreq
    exact routed_by_current_pat evs hwf hcf p _ hl

/-- a PMT handler built by a PAT is fresh (no version, nothing registered) until a PMT is applied on
its PID (or a later PAT rebuilds it) -/
theorem fresh_after_pat (r0 : Route) (post : List Event) (ver : Nat) (es : List PatEntry) (q a b : Nat)
    (hlast : ∀ ev ∈ post, ∀ v es', ev ≠ .patApplied v es')
    (hno : ∀ ev ∈ post, ∀ v body, ev ≠ .pmtApplied q v body)
    (hq : lastFor (patRequests es) q = some (.pmt a b)) :
    ((run r0 (.patApplied ver es :: post)).pmt q).ver = none ∧
    ((run r0 (.patApplied ver es :: post)).pmt q).streams = [] := by
  rw [run_cons, pmt_inst_kept_run q post _
    (fun ev hm => ⟨hno ev hm, fun v es' e => absurd e (hlast ev hm v es')⟩), stepRoute_pat_pmt]
  have hlt := lastFor_tagged (patRequests es) r0.reqs.length q
  rw [hq] at hlt
  cases hl : lastFor (tagged r0.reqs.length (patRequests es)) q with
  | none => rw [hl] at hlt; cases hlt
  | some x =>
    rw [hl] at hlt
    obtain ⟨req, tag⟩ := x
    simp only [Option.map_some, Option.some.injEq] at hlt
    subst hlt
    exact ⟨rfl, rfl⟩

end Ts.Lemmas.C05Hf
