import Ts.Model.App
import Ts.Props.C12
import Ts.Props.C13
import Ts.Props.C14
import Ts.Props.C16
import Ts.Props.C17
/-!
# C01 helper lemmas, part 1: "touch everything" is total

`App.touchPacket`, `touchAf`, `touchPesHeader`, `touchParsed`, `touchPmt`, `touchDescs` model the
accessor calls and `Debug` renderings made by application callbacks.  Each is `R.ok ()` on every
value the library can hand out (C12, C13, C14, C16, C17 supply the per-accessor facts).
-/
namespace Ts.Lemmas.C01
open Ts Ts.Spec

/-! ### the panic monad is lawful; `mapM` / `forM` of total functions are total -/

instance : LawfulMonad R := LawfulMonad.mk' R
  (id_map := by intro α x; cases x <;> rfl)
  (pure_bind := by intros; rfl)
  (bind_assoc := by intro α β γ x f g; cases x <;> rfl)

theorem mapM_ok {α β : Type} (f : α → R β) (g : α → β) (l : List α) (h : ∀ a ∈ l, f a = .ok (g a)) :
    l.mapM f = .ok (l.map g) := by
  induction l with
  | nil => rfl
  | cons a l ih =>
    rw [List.mapM_cons, h a (List.mem_cons_self ..), ih (fun b hb => h b (List.mem_cons_of_mem _ hb))]
    rfl

theorem forM_ok {α : Type} (f : α → R Unit) (l : List α) (h : ∀ a ∈ l, f a = .ok ()) :
    l.forM f = .ok () := by
  induction l with
  | nil => rfl
  | cons a l ih =>
    rw [List.forM, h a (List.mem_cons_self ..)]
    exact ih (fun b hb => h b (List.mem_cons_of_mem _ hb))

theorem isOk_exists {α : Type} {x : R α} (h : x.isOk = true) : ∃ v, x = .ok v := by
  cases x with
  | ok v => exact ⟨v, rfl⟩
  | panic s => cases h

/-! ### adaptation field -/

theorem touchAf_ok (af : Bytes) (hne : af ≠ []) : App.touchAf af = .ok () := by
  obtain ⟨h1, h2, h3⟩ := Props.C13.indicators_exact af hne
  unfold App.touchAf
  rw [Props.C13.af_new_ok af hne]
  simp only [R.ok_bind, h1, h2, h3, Props.C13.pcr_exact af hne, Props.C13.opcr_exact af hne,
    Props.C13.splice_exact af hne, Props.C13.private_exact af hne]
  cases he : Af.extension af with
  | panic s => rw [Props.C13.extension_exact af hne] at he; cases he
  | ok r =>
    cases r with
    | error e => rfl
    | ok e =>
      have hne' := Props.C13.extension_nonempty af hne e he
      simp only [R.ok_bind, Props.C13.ltw_exact e hne', Props.C13.piecewise_exact e hne',
        Props.C13.seamless_exact e hne']
      rfl

/-! ### PES header -/

open Ts.Spec.PesSpec Ts.Lemmas.C14 in
/-- an ESCR the model yields satisfies `ClockRef`'s invariant (33-bit base, 9-bit extension) -/
theorem escr_bounds (c : Bytes) (cr : Time.ClockRef)
    (h : resOf escrConv (parse c).escr = .ok cr) : cr.base < 2 ^ 33 ∧ cr.ext < 2 ^ 9 := by
  rw [parse_escr] at h
  unfold fieldAt at h
  split at h
  · cases h
  · split at h
    · simp only [resOf, Except.ok.injEq] at h
      subst h
      generalize curEscr (flagsOf c) = a
      rw [escrAt_eq]
      have h0 := byteD_lt c a; have h1 := byteD_lt c (a + 1); have h2 := byteD_lt c (a + 2)
      have h3 := byteD_lt c (a + 3); have h4 := byteD_lt c (a + 4); have h5 := byteD_lt c (a + 5)
      simp only [escrConv]
      constructor <;> omega
    · cases h

open Ts.Spec.PesSpec Ts.Lemmas.C14 in
/-- an ES_rate the model yields is a 22-bit value -/
theorem esRate_bound (c : Bytes) (v : Nat) (h : resOf id (parse c).esRate = .ok v) : v < 2 ^ 22 := by
  rw [parse_esRate] at h
  unfold fieldAt at h
  split at h
  · cases h
  · split at h
    · simp only [resOf, Except.ok.injEq, id] at h
      subst h
      have := esRateAt_lt c (curEsRate (flagsOf c))
      simp only [Nat.shiftLeft_eq, Nat.one_mul] at this
      exact this
    · cases h

/-- `u64::from(ClockRef)` never overflows: `base * 300 + ext < 2^64` -/
theorem crefTo27MHz_ok (cr : Time.ClockRef) (hb : cr.base < 2 ^ 33) (he : cr.ext < 2 ^ 9) :
    Time.crefTo27MHz cr = .ok (cr.base * 300 + cr.ext) := by
  unfold Time.crefTo27MHz assertR
  have : cr.base * 300 + cr.ext < 2 ^ 64 := by omega
  simp only [decide_eq_true this, if_true, R.ok_bind, R.pure_eq]

open Ts.Spec.PesSpec Ts.Lemmas.C14 in
theorem touchParsed_ok (c : Bytes) (hacc : parsedAccepted c) : App.touchParsed c = .ok () := by
  have h3 : 3 ≤ c.length := hacc.1
  obtain ⟨a1, a2, a3, a4, a5, a6, a7, a8, a9, _, _⟩ := Props.C14.pes_fields_exact_partial c h3
  have hpb : Pes.parsedFromBytes c = .ok (some c) := by
    rw [Props.C14.parsed_accept_iff, if_pos hacc]
  obtain ⟨_, b1, _, b2, _⟩ := Props.C14.pes_fields_exact_accepted c hpb
  unfold App.touchParsed
  simp only [a1, a2, a3, a4, a5, a6, a7, a8, a9, b1, b2, Props.C14.copyright_pinned c h3, R.ok_bind]
  have fin : ∀ v, resOf id (parse c).esRate = .ok v →
      (do assertR (decide (v * 50 < 2 ^ 32)) "attempt to multiply with overflow"; pure () : R Unit)
        = .ok () := by
    intro v hR
    have hv : v * 50 < 2 ^ 32 := by have := esRate_bound c v hR; omega
    simp only [assertR, decide_eq_true hv, if_true, R.ok_bind, R.pure_eq]
  split
  · rename_i cr hE
    obtain ⟨hb, he⟩ := escr_bounds c cr hE
    simp only [crefTo27MHz_ok cr hb he, R.ok_bind]
    split
    · rename_i v hR; exact fin v hR
    · rfl
  · split
    · rename_i v hR; exact fin v hR
    · rfl

theorem touchPesHeader_ok (h : Bytes) (h6 : 6 ≤ h.length) : App.touchPesHeader h = .ok () := by
  unfold App.touchPesHeader
  rw [Props.C14.stream_id_exact h h6, Props.C14.packet_length_exact h h6,
    Props.C14.contents_kind h h6]
  simp only [R.ok_bind]
  split
  · rename_i x c heq
    by_cases hin : readBits h 24 8 ∈ PesSpec.noHeaderIds
    · rw [if_pos hin] at heq; cases heq
    · rw [if_neg hin] at heq
      by_cases hacc : PesSpec.parsedAccepted (h.drop 6)
      · rw [if_pos hacc] at heq
        injection heq with heq; injection heq with heq
        subst heq
        exact touchParsed_ok _ hacc
      · rw [if_neg hacc] at heq
        injection heq with heq; cases heq
  · rfl

/-! ### transport packet -/

open Ts.Packet Ts.Props.C12 in
theorem touchPacket_ok (p : Bytes) (hp : p.length = 188) : App.touchPacket p = .ok () := by
  unfold App.touchPacket Packet.af Packet.payload
  rw [tei_exact p hp, pusi_exact p hp, prio_exact p hp, pid_exact p hp, cc_exact p hp,
    af_exact p hp, payload_exact p hp]
  simp only [R.ok_bind]
  obtain ⟨s1, s2, _⟩ := split_sound (hasAf (byteD p 3)) (hasPayload (byteD p 3)) (byteD p 4)
  generalize splitSpec (hasAf (byteD p 3)) (hasPayload (byteD p 3)) (byteD p 4) = sp at s1 s2
  obtain ⟨sa, sb⟩ := sp
  simp only at s1 s2 ⊢
  have e2 : (match sb with
        | some r => (pure (some (rangeBytes p r)) : R (Option Bytes))
        | none => pure none) >>= (fun x => match x with
        | some pl => (do
            match ← Pes.headerFromBytes pl with
            | some h => App.touchPesHeader h
            | none => pure () : R Unit)
        | none => pure ()) = .ok () := by
    cases sb with
    | none => rfl
    | some r =>
      simp only [R.pure_eq, R.ok_bind]
      rw [Props.C14.header_accept_iff]
      by_cases hh : 6 ≤ (rangeBytes p r).length ∧ readBits (rangeBytes p r) 0 24 = 1
      · simp only [if_pos hh, R.ok_bind]
        exact touchPesHeader_ok _ hh.1
      · simp only [if_neg hh, R.ok_bind]
  cases sa with
  | none => simp only [R.pure_eq, R.ok_bind]; exact e2
  | some r =>
    obtain ⟨_, h2, h3⟩ := s1 r rfl
    have hne : rangeBytes p r ≠ [] := by
      intro e
      have : (rangeBytes p r).length = r.2 := by unfold rangeBytes; simp; omega
      rw [e] at this; simp at this; omega
    simp only [R.pure_eq, R.ok_bind, touchAf_ok _ hne]
    exact e2

/-! ### descriptors -/

open Ts.Tables Ts.Spec.TableSpec in
theorem touchDescItem_classify (d : Nat × Bytes) : App.touchDescItem (classify d) = .ok () := by
  obtain ⟨tag, payload⟩ := d
  unfold classify
  by_cases hl : payload.length < typedMinLength tag
  · simp only [hl, if_true]; rfl
  · simp only [hl, if_false]
    unfold App.touchDescItem
    by_cases h5 : tag = 5
    · subst h5
      have : 4 ≤ payload.length := by simp only [typedMinLength] at hl; omega
      simp [Lemmas.C17.regFields_eq payload this]
    by_cases h10 : tag = 10
    · subst h10
      obtain ⟨items, hi, _⟩ := Props.C17.languages_exact payload
      simp [hi]
    by_cases h14 : tag = 14
    · subst h14
      have : 3 ≤ payload.length := by simp only [typedMinLength] at hl; omega
      simp [Lemmas.C17.maxBitrate_eq payload this]
    by_cases h40 : tag = 40
    · subst h40
      have : 4 ≤ payload.length := by simp only [typedMinLength] at hl; omega
      simp [Lemmas.C17.avcFields_eq payload this]
    simp [h5, h10, h14, h40]

open Ts.Tables Ts.Spec.TableSpec in
/-- `Debug` of a descriptor loop: total on EVERY byte string -/
theorem touchDescs_ok (b : Bytes) : App.touchDescs b = .ok () := by
  unfold App.touchDescs descIterAll
  rw [Lemmas.C17.descIter_eq _ b (Nat.lt_succ_self _)]
  simp only [R.ok_bind]
  apply forM_ok
  intro item hi
  unfold specDescItems at hi
  rcases List.mem_append.1 hi with hi | hi
  · obtain ⟨d, _, rfl⟩ := List.mem_map.1 hi
    exact touchDescItem_classify d
  · unfold trailingItems at hi
    split at hi
    · cases hi
    · split at hi <;> (simp only [List.mem_singleton] at hi; subst hi; rfl)

/-! ### PMT -/

open Ts.Tables Ts.Spec.TableSpec in
/-- `format!("{:?}", pmt)` for every body `PmtSection::from_bytes` accepts -/
theorem touchPmt_ok (sect : Bytes) (h : specPmtAccept sect) : App.touchPmt sect = .ok () := by
  obtain ⟨f1, _, _, f4⟩ := Props.C16.pmt_fields sect h
  obtain ⟨es, _, _, hs, _⟩ := Props.C16.pmt_streams_tile sect h
  unfold App.touchPmt
  simp only [f1, f4, hs, R.ok_bind, touchDescs_ok]
  exact forM_ok _ _ (fun s _ => rfl)

open Ts.Tables Ts.Spec.TableSpec in
theorem touchPmt_ok' (body sect : Bytes) (h : pmtFromBytes body = .ok (some sect)) :
    App.touchPmt sect = .ok () := by
  rw [Props.C16.pmt_accept_iff] at h
  by_cases ha : specPmtAccept body
  · rw [if_pos ha] at h
    cases h
    exact touchPmt_ok _ ha
  · rw [if_neg ha] at h; cases h

end Ts.Lemmas.C01
