import Ts.Model.App
import Ts.Props.C03
import Ts.Lemmas.Proj
/-!
# C04 helper lemmas, part 2: the CRC gate at handler, dispatcher-step and stream level

(`Ts.Lemmas.C01b` and `Ts.Lemmas.C10` import `Ts.Props.C04`, so the few facts about the syntax bit
of delivered sections that are needed here are re-proved locally instead of imported.)

* Part A — `GateInv`: the section-reassembly invariant under which every section that
  `Psi.consume Psi.table` delivers has `section_syntax_indicator = 1` and at least 3 bytes
  (so `Psi.crcPass` cannot hit its `assert!`), and its preservation.
* Part B — `Verified`, `patRequests`, `pmtRequests`, `GatedEv`: with the CRC check compiled in,
  every `construct` event a PAT / PMT handler appends to the trace is one of the requests computed
  from a delivered section that passed the gate; lifted through `specStep` and `pushSpec`
  (`StepEv`, `pushSpec_gated`: the delivery is kept).  `VerifiedReq`, `push_gated`, `pushAll_gated`
  are the weak forms that forget the delivery (see the warning at `VerifiedReq`); the lift to whole
  runs that keeps it is in `Ts.Lemmas.C04c`.

Nothing here uses any fact about the checksum function: `Verified S` literally says
`Crc.sum32 S = .ok 0`.  `Ts.Props.C04` turns that into the Annex A bit-serial CRC.
-/
namespace Ts.Lemmas.C04b
open Ts Ts.Psi Ts.Spec Ts.Spec.SectionMux Ts.Lemmas.C03 Ts.Demux Ts.App Ts.Lemmas.Proj
open Ts.Lemmas.C19 (R.bind_eq_ok R.ok_inj)

/-! ## Part A: the syntax bit and minimum length of delivered sections -/

/-- while `Buffering`, the buffered header has `section_syntax_indicator = 1` -/
def SynInv (s : St) : Prop := ∀ n, s.remaining = some n → hdrSyn s.buf = true

/-- the state invariant of a PAT / PMT section reassembler that the CRC layer relies on -/
def GateInv (s : St) : Prop := PsiInv .syntax s ∧ SynInv s

/-- what the CRC layer needs of a delivery not to panic -/
def SynOk (d : Delivery) : Prop := hdrSyn d.bytes = true ∧ 3 ≤ d.bytes.length

theorem synInv_of_none (s : St) (h : s.remaining = none) : SynInv s := by
  intro n hn; rw [h] at hn; cases hn

theorem synInv_congr (s s' : St) (hb : s'.buf = s.buf) (hr : s'.remaining = s.remaining)
    (h : SynInv s) : SynInv s' := by
  intro n hn; rw [hr] at hn; rw [hb]; exact h n hn

theorem gateInv_init : GateInv {} := ⟨psiInv_of_none _ _ rfl, synInv_of_none _ rfl⟩

theorem bufContSpec_syn (kind : Kind) (s : St) (data : Bytes) (hi : PsiInv kind s) (hy : SynInv s) :
    SynInv (bufContSpec s data).1 ∧ ∀ d ∈ (bufContSpec s data).2, SynOk d := by
  unfold bufContSpec
  cases hr : s.remaining with
  | none => exact ⟨hy, by simp⟩
  | some n =>
    obtain ⟨_, h1, _⟩ := hi n hr
    have h3 := minHeader_ge kind
    have hb := hy n hr
    by_cases hle : n ≤ data.length
    · simp only [hle, if_true]
      refine ⟨synInv_of_none _ rfl, ?_⟩
      intro d hd
      simp only [List.mem_singleton] at hd
      subst hd
      refine ⟨?_, ?_⟩
      · show hdrSyn (s.buf ++ List.take n data) = true
        rw [hdrSyn_append _ _ (by omega)]; exact hb
      · show 3 ≤ (s.buf ++ List.take n data).length
        rw [List.length_append]; omega
    · simp only [hle, if_false]
      refine ⟨?_, by simp⟩
      intro m _
      show hdrSyn (s.buf ++ data) = true
      rw [hdrSyn_append _ _ (by omega)]; exact hb

theorem contSpec_syn (cfg : Psi.Cfg) (kind : Kind) (s : St) (data : Bytes) (hi : PsiInv kind s)
    (hy : SynInv s) :
    SynInv (contSpec cfg s data).1 ∧ ∀ d ∈ (contSpec cfg s data).2, SynOk d := by
  unfold contSpec
  split
  · exact ⟨hy, by simp⟩
  · split
    · exact ⟨hy, by simp⟩
    · exact bufContSpec_syn kind s data hi hy

theorem bufStartSpec_syn (s : St) (data : Bytes) (off : Nat) (hd : hdrSyn data = true) :
    SynInv (bufStartSpec s data off).1 ∧ ∀ d ∈ (bufStartSpec s data off).2, SynOk d := by
  unfold bufStartSpec
  by_cases hle : hdrLen data + 3 ≤ data.length
  · simp only [hle, if_true]
    refine ⟨synInv_of_none _ rfl, ?_⟩
    intro d hm
    simp only [List.mem_singleton] at hm
    subst hm
    refine ⟨?_, ?_⟩
    · show hdrSyn (data.take (hdrLen data + 3)) = true
      rw [hdrSyn_take _ _ (by omega)]; exact hd
    · show 3 ≤ (data.take (hdrLen data + 3)).length
      rw [List.length_take]; omega
  · simp only [hle, if_false]
    refine ⟨?_, by simp⟩
    intro m _
    exact hd

theorem startSpec_syn (cfg : Psi.Cfg) (hss : cfg.sectionSyntax = true) (s : St) (data : Bytes) (off : Nat)
    (hy : SynInv s) :
    SynInv (startSpec cfg s data off).1 ∧ ∀ d ∈ (startSpec cfg s data off).2, SynOk d := by
  unfold startSpec
  by_cases hok : startOk cfg data = true
  · obtain ⟨h0, _, _⟩ := (startOk_iff cfg data).1 hok
    rw [hss] at h0
    simp only [hok, if_true]
    unfold dedupStartSpec
    split
    · split
      · exact ⟨synInv_congr s _ rfl rfl hy, by simp⟩
      · exact bufStartSpec_syn _ data off h0
    · exact bufStartSpec_syn _ data off h0
  · simp only [hok]
    exact ⟨synInv_congr s _ rfl rfl hy, by simp⟩

theorem consumeSpec_syn (cfg : Psi.Cfg) (hss : cfg.sectionSyntax = true) (s : St) (us : Bool) (pk : Bytes)
    (off : Nat) (hi : PsiInv (kindOf cfg) s) (hy : SynInv s) :
    SynInv (consumeSpec cfg s us pk off).1 ∧ ∀ d ∈ (consumeSpec cfg s us pk off).2, SynOk d := by
  unfold consumeSpec
  cases us
  · simp only [Bool.false_eq_true, if_false]
    exact contSpec_syn cfg _ s pk hi hy
  · simp only [if_true]
    split
    · exact ⟨synInv_of_none _ (procReset_remaining cfg s), by simp⟩
    · have hr1 : SynInv (if 0 < byteD pk 0 then contSpec cfg s ((pk.drop 1).take (byteD pk 0)) else (s, [])).1
          ∧ ∀ d ∈ (if 0 < byteD pk 0 then contSpec cfg s ((pk.drop 1).take (byteD pk 0)) else (s, [])).2,
              SynOk d := by
        split
        · exact contSpec_syn cfg _ s _ hi hy
        · exact ⟨hy, by simp⟩
      split
      · exact ⟨synInv_of_none _ (procReset_remaining cfg _), hr1.2⟩
      · have hs := startSpec_syn cfg hss
          (if 0 < byteD pk 0 then contSpec cfg s ((pk.drop 1).take (byteD pk 0)) else (s, [])).1
          ((pk.drop 1).drop (byteD pk 0)) (off + 1 + byteD pk 0) hr1.1
        refine ⟨hs.1, ?_⟩
        intro d hd
        rcases List.mem_append.1 hd with hd | hd
        · exact hr1.2 d hd
        · exact hs.2 d hd

theorem syn_bit_of_hdrSyn (b : Bytes) (h : hdrSyn b = true) : byteD b 1 &&& 0b1000_0000 ≠ 0 := by
  unfold hdrSyn at h
  rw [← and_80 _ (byteD_lt b 1)] at h
  simpa using h

/-- **the side condition of the CRC layer is an invariant of PAT / PMT section reassembly**: from a
state satisfying `GateInv`, ANY 188-byte packet on which `Psi.consume Psi.table` returns leaves a
state satisfying `GateInv`, and every section it delivers has the syntax bit set and ≥ 3 bytes -/
theorem consume_table_gateInv (s : St) (hs : GateInv s) (p : Bytes) (hp : p.length = 188)
    (s' : St) (ds : List Delivery) (hP : Psi.consume Psi.table s p = .ok (s', ds)) :
    GateInv s' ∧ ∀ d ∈ ds, byteD d.bytes 1 &&& 0b1000_0000 ≠ 0 ∧ 3 ≤ d.bytes.length := by
  rw [consume_eq_plOf Psi.table s p hp] at hP
  cases hq : plOf p with
  | none =>
    rw [hq] at hP
    have := R.ok_inj hP
    simp only [Prod.mk.injEq] at this
    rw [← this.1, ← this.2]
    exact ⟨hs, by simp⟩
  | some q =>
    rw [hq] at hP
    have hsz := plOf_size p hp q hq
    have hsy := consumeSpec_syn Psi.table rfl s q.us q.bytes q.off hs.1 hs.2
    have hinv := consumeSpec_inv Psi.table s q.us q.bytes q.off hs.1
    dsimp only at hP
    rw [consumePayload_eq Psi.table cfgOk_table s q.us q.bytes q.off hsz.1 hs.1] at hP
    have := R.ok_inj hP
    rw [this] at hsy hinv
    refine ⟨⟨hinv, hsy.1⟩, ?_⟩
    intro d hdm
    exact ⟨syn_bit_of_hdrSyn _ (hsy.2 d hdm).1, (hsy.2 d hdm).2⟩

/-! ## Part B: every PAT / PMT handler request comes from a section that passed the CRC layer -/

theorem byteAt_inv (b : Bytes) (i v : Nat) (h : byteAt b i = .ok v) : i < b.length ∧ v = byteD b i := by
  by_cases hi : i < b.length
  · rw [byteAt_ok b i hi] at h; exact ⟨hi, (R.ok_inj h).symm⟩
  · unfold byteAt at h
    rw [List.getElem?_eq_none (by omega)] at h; cases h

/-- what `Psi.crcPass false` (the CRC layer with the check compiled in) lets through: at least the
12 bytes of header + CRC, `section_syntax_indicator = 1`, and the model of `mpegts_crc::sum32`
returns 0 on the WHOLE section -/
def Verified (S : Bytes) : Prop :=
  12 ≤ S.length ∧ byteD S 1 &&& 0b1000_0000 ≠ 0 ∧ Crc.sum32 S = .ok 0

theorem verified_of_crcPass (S : Bytes) (h : Psi.crcPass false S = .ok true) : Verified S := by
  unfold Psi.crcPass at h
  obtain ⟨b1, hb1, h⟩ := R.bind_eq_ok h
  obtain ⟨hlt, hb⟩ := byteAt_inv S 1 b1 hb1
  subst hb
  obtain ⟨_, ha, h⟩ := R.bind_eq_ok h
  have hsyn : byteD S 1 &&& 0b1000_0000 ≠ 0 := by
    unfold assertR at ha
    split at ha
    · rename_i hc; simpa using hc
    · cases ha
  by_cases h12 : S.length < Psi.COMMON + Psi.TSH + 4
  · rw [if_pos h12] at h
    cases (R.ok_inj h)
  · rw [if_neg h12] at h
    simp only [Bool.false_eq_true, if_false] at h
    obtain ⟨c, hc, h⟩ := R.bind_eq_ok h
    have h0 : (c == 0) = true := R.ok_inj h
    have : c = 0 := by simpa using h0
    subst this
    simp only [Psi.COMMON, Psi.TSH] at h12
    exact ⟨by omega, hsyn, hc⟩

/-- converse (not needed for the gate, shows `Verified` is exactly the pass condition) -/
theorem crcPass_of_verified (S : Bytes) (h : Verified S) : Psi.crcPass false S = .ok true := by
  obtain ⟨h12, hsyn, hc⟩ := h
  unfold Psi.crcPass
  rw [byteAt_ok S 1 (by omega)]
  have : (byteD S 1 &&& 0b1000_0000 != 0) = true := by simp [hsyn]
  have h12' : ¬ S.length < 3 + 5 + 4 := by omega
  simp only [R.ok_bind, assertR, this, if_true, Psi.COMMON, Psi.TSH, h12', if_false,
    Bool.false_eq_true, hc]
  rfl

/-- the table body `&data[8 .. data.len() - 4]` the processors look at -/
def secBody (S : Bytes) : Bytes := (S.drop 8).take (S.length - 4 - 8)

def patReqOf : Tables.PatEntry → Req
  | .program pn pid => Req.pmt pid pn
  | .network pid => Req.nit pid

/-- the handler requests `PatProcessor::new_table` makes for the section `S` (none unless
`table_id = 0`), in order -/
def patRequests (S : Bytes) : List Req :=
  if byteD S 0 = 0 then
    match Tables.patProgramsAll (secBody S) with
    | .ok es => es.map patReqOf
    | .panic _ => []
  else []

/-- the handler requests `PmtProcessor::new_table` on PID `pmtPid` makes for the section `S` (none
unless `table_id = 2` and `PmtSection::from_bytes` accepts), in order -/
def pmtRequests (pmtPid : Nat) (S : Bytes) : List Req :=
  if byteD S 0 = 2 then
    match Tables.pmtFromBytes (secBody S) with
    | .ok (some sect) =>
      match Tables.pmtStreams sect, Tables.pmtPcrPid sect, Tables.pmtDescriptorBytes sect with
      | .ok ss, .ok pcr, .ok pd =>
        ss.map (fun s => Req.stream pmtPid s.streamType s.pid pcr s.descBytes pd)
      | _, _, _ => []
    | _ => []
  else []

/-- `e` is a handler request for one of `L` -/
def IsReq (L : List Req) (e : Ev) : Prop := ∃ req tag, e = Ev.construct req tag ∧ req ∈ L

theorem construct_emits_isReq (L : List Req) (c : Ctx) (req : Req) (h : req ∈ L) :
    Emits (IsReq L) c (construct c req).2 := by
  rw [construct_ctx]
  exact ⟨rfl, Nat.le_succ _, [.construct req c.nextTag], rfl, by
    intro e he; simp only [List.mem_singleton] at he; subst he; exact ⟨req, _, rfl, h⟩⟩

theorem foldl_construct_emits {α : Type} (req : α → Req) (pidOf : α → Nat)
    (g : Ctx × List (Change Handler) → α → Ctx × List (Change Handler))
    (hg : ∀ acc e, g acc e = ((construct acc.1 (req e)).2,
      acc.2 ++ [Change.insert (pidOf e) (construct acc.1 (req e)).1]))
    (L : List Req) (c0 : Ctx) : ∀ (es : List α) (acc : Ctx × List (Change Handler)),
      (∀ e ∈ es, req e ∈ L) → Emits (IsReq L) c0 acc.1 → Emits (IsReq L) c0 (es.foldl g acc).1 := by
  intro es
  induction es with
  | nil => intro acc _ h; exact h
  | cons e es ih =>
    intro acc hL h
    rw [List.foldl_cons]
    refine ih (g acc e) (fun x hx => hL x (List.mem_cons_of_mem _ hx)) ?_
    rw [hg]
    exact emits_trans h (construct_emits_isReq L acc.1 (req e) (hL e List.mem_cons_self))

theorem section_slices (data : Bytes) (end_ : Nat) (body : Bytes) (h1 : subR data.length 4 = .ok end_)
    (h2 : sliceR data 8 end_ = .ok body) : body = secBody data := by
  unfold subR at h1
  split at h1
  · have := R.ok_inj h1; subst this
    unfold sliceR at h2
    split at h2
    · cases h2
    · split at h2
      · cases h2
      · exact (R.ok_inj h2).symm
  · cases h1

/-- `PatProcessor`: the events appended for a section are requests computed from that section -/
theorem patSection_gated (c : Ctx) (reg : List Nat) (data : Bytes) (c' : Ctx) (reg' : List Nat)
    (chg : List (Change Handler)) (h : patSection c reg data = .ok (c', reg', chg)) :
    Emits (IsReq (patRequests data)) c c' := by
  unfold patSection at h
  dsimp only at h
  obtain ⟨end_, he, h⟩ := R.bind_eq_ok h
  obtain ⟨body, hbd, h⟩ := R.bind_eq_ok h
  obtain ⟨tid, htid, h⟩ := R.bind_eq_ok h
  have hbody := section_slices data end_ body he hbd
  obtain ⟨_, htid'⟩ := byteAt_inv data 0 tid htid
  split at h
  · have := R.ok_inj h
    simp only [Prod.mk.injEq] at this
    rw [← this.1]
    exact emits_refl _ _
  · rename_i hne
    have ht0 : byteD data 0 = 0 := by rw [← htid']; simpa using hne
    obtain ⟨entries, hent, h⟩ := R.bind_eq_ok h
    obtain ⟨rem, _, h⟩ := R.bind_eq_ok h
    have := R.ok_inj h
    simp only [Prod.mk.injEq] at this
    obtain ⟨e1, _, _⟩ := this
    have hreq : patRequests data = entries.map patReqOf := by
      unfold patRequests
      rw [if_pos ht0, ← hbody, hent]
    rw [← e1, hreq]
    exact foldl_construct_emits patReqOf Tables.PatEntry.pid _
      (fun _ e => by cases e <;> rfl) _ c entries (c, [])
      (fun e he => List.mem_map.2 ⟨e, he, rfl⟩) (emits_refl _ _)

theorem pmtFromBytes_some (b sect : Bytes) (h : Tables.pmtFromBytes b = .ok (some sect)) : sect = b := by
  unfold Tables.pmtFromBytes at h
  split at h
  · cases (R.ok_inj h)
  · obtain ⟨_, _, h⟩ := R.bind_eq_ok h
    obtain ⟨_, _, h⟩ := R.bind_eq_ok h
    dsimp only at h
    split at h
    · cases (R.ok_inj h)
    · have := R.ok_inj h
      injection this with this
      exact this.symm

/-- `PmtProcessor`: the events appended for a section are requests computed from that section -/
theorem pmtSection_gated (c : Ctx) (pmtPid : Nat) (reg : List Nat) (data : Bytes) (c' : Ctx)
    (reg' : List Nat) (chg : List (Change Handler))
    (h : pmtSection c pmtPid reg data = .ok (c', reg', chg)) :
    Emits (IsReq (pmtRequests pmtPid data)) c c' := by
  unfold pmtSection at h
  dsimp only at h
  obtain ⟨end_, he, h⟩ := R.bind_eq_ok h
  obtain ⟨body, hbd, h⟩ := R.bind_eq_ok h
  have hbody := section_slices data end_ body he hbd
  obtain ⟨r, hr, h⟩ := R.bind_eq_ok h
  have triv : ∀ {x : Ctx × List Nat × List (Change Handler)},
      x = (c, reg, []) → R.ok x = R.ok (c', reg', chg) →
      Emits (IsReq (pmtRequests pmtPid data)) c c' := by
    intro x hx h
    subst hx
    have := R.ok_inj h
    simp only [Prod.mk.injEq] at this
    rw [← this.1]
    exact emits_refl _ _
  cases r with
  | none => exact triv rfl h
  | some sect =>
    dsimp only at h
    obtain ⟨tid, htid, h⟩ := R.bind_eq_ok h
    obtain ⟨_, htid'⟩ := byteAt_inv data 0 tid htid
    split at h
    · exact triv rfl h
    · rename_i hne
      have ht2 : byteD data 0 = 2 := by rw [← htid']; simpa using hne
      obtain ⟨streams, hst, h⟩ := R.bind_eq_ok h
      obtain ⟨pcr, hpcr, h⟩ := R.bind_eq_ok h
      obtain ⟨progDesc, hpd, h⟩ := R.bind_eq_ok h
      have hreq : pmtRequests pmtPid data
          = streams.map (fun s => Req.stream pmtPid s.streamType s.pid pcr s.descBytes progDesc) := by
        unfold pmtRequests
        rw [if_pos ht2, ← hbody, hr]
        simp only [hst, hpcr, hpd]
      split at h
      case' isTrue => obtain ⟨_, _, h⟩ := R.bind_eq_ok h
      all_goals (
        obtain ⟨rem, _, h⟩ := R.bind_eq_ok h
        have := R.ok_inj h
        simp only [Prod.mk.injEq] at this
        obtain ⟨e1, _, _⟩ := this
        rw [← e1, hreq]
        exact foldl_construct_emits
          (fun s : Tables.StreamInfo => Req.stream pmtPid s.streamType s.pid pcr s.descBytes progDesc)
          Tables.StreamInfo.pid _ (fun _ _ => rfl) _ c streams (c, [])
          (fun e he => List.mem_map.2 ⟨e, he, rfl⟩) (emits_refl _ _))

/-- **the gate**: with the check compiled in, every event the table processor appends while the
deliveries `ds` are run is attributed (`Q`) to a delivery of `ds` that satisfies `Verified` -/
theorem runDeliveries_gated
    (sect : Ctx → List Nat → Bytes → R (Ctx × List Nat × List (Change Handler)))
    (Q : Bytes → Ev → Prop)
    (hsect : ∀ c reg d c' reg' chg, sect c reg d = .ok (c', reg', chg) → Emits (Q d) c c') :
    ∀ (ds : List Psi.Delivery) (c : Ctx) (reg : List Nat) (c' : Ctx) (reg' : List Nat)
      (chg : List (Change Handler)), c.cfg.bypassCrc = false →
      runDeliveries sect c reg ds = .ok (c', reg', chg) →
      Emits (fun e => ∃ d ∈ ds, Verified d.bytes ∧ Q d.bytes e) c c' := by
  intro ds
  induction ds with
  | nil =>
    intro c reg c' reg' chg _ h
    have := R.ok_inj h
    simp only [Prod.mk.injEq] at this
    rw [← this.1]
    exact emits_refl _ _
  | cons d ds ih =>
    intro c reg c' reg' chg hb h
    unfold runDeliveries at h
    rw [hb] at h
    obtain ⟨b, hpass, h⟩ := R.bind_eq_ok h
    split at h
    · rename_i hbt
      subst hbt
      obtain ⟨r1, h1, h⟩ := R.bind_eq_ok h
      obtain ⟨c1, reg1, chg1⟩ := r1
      dsimp only at h
      obtain ⟨r2, h2, h⟩ := R.bind_eq_ok h
      obtain ⟨c2, reg2, chg2⟩ := r2
      have := R.ok_inj h
      simp only [Prod.mk.injEq] at this
      rw [← this.1]
      have hv := verified_of_crcPass d.bytes hpass
      have e1 := hsect _ _ _ _ _ _ h1
      have hb1 : c1.cfg.bypassCrc = false := by rw [e1.1]; exact hb
      refine emits_trans
        (emits_mono (fun e he => ⟨d, List.mem_cons_self, hv, he⟩) e1)
        (emits_mono (fun e he => ?_) (ih _ _ _ _ _ hb1 h2))
      obtain ⟨d', hd', x⟩ := he
      exact ⟨d', List.mem_cons_of_mem _ hd', x⟩
    · refine emits_mono (fun e he => ?_) (ih _ _ _ _ _ hb h)
      obtain ⟨d', hd', x⟩ := he
      exact ⟨d', List.mem_cons_of_mem _ hd', x⟩

/-! ### one `consume` of any handler -/

/-- the events handler `h` may append while consuming packet `pk`, check compiled in: a PAT / PMT
handler only appends requests computed from a section that its own reassembler delivers on this
very packet and that satisfies `Verified`; PES filters and recorders never append a request -/
def GatedEv (h : Handler) (pk : Pk) (e : Ev) : Prop :=
  match h with
  | .pat s _ => ∃ s' ds d, Psi.consume Psi.table s pk.bytes = .ok (s', ds) ∧ d ∈ ds
      ∧ Verified d.bytes ∧ IsReq (patRequests d.bytes) e
  | .pmt pid _ s _ => ∃ s' ds d, Psi.consume Psi.table s pk.bytes = .ok (s', ds) ∧ d ∈ ds
      ∧ Verified d.bytes ∧ IsReq (pmtRequests pid d.bytes) e
  | .pes _ _ => ∀ req tag, e ≠ Ev.construct req tag
  | .recorder _ => ∀ req tag, e ≠ Ev.construct req tag

theorem scriptChanges_emits : ∀ (ops : List ScriptOp) (c : Ctx),
    Emits (fun e => ∀ req tag, e ≠ Ev.construct req tag) c (scriptChanges c ops).1 := by
  intro ops
  induction ops with
  | nil => intro c; exact emits_refl _ _
  | cons op ops ih =>
    intro c
    cases op with
    | ins pid =>
      have a := ih ({ c with nextTag := c.nextTag + 1 }.emit (.scriptIns pid c.nextTag))
      simp only [scriptChanges]
      have e0 : Emits (fun e => ∀ req tag, e ≠ Ev.construct req tag) c
          ({ c with nextTag := c.nextTag + 1 }.emit (.scriptIns pid c.nextTag)) :=
        ⟨rfl, Nat.le_succ _, [.scriptIns pid c.nextTag], rfl, by
          intro e he; simp only [List.mem_singleton] at he; subst he; intro _ _ hh; cases hh⟩
      exact emits_trans e0 a
    | rem pid =>
      have a := ih (c.emit (.scriptRem pid))
      simp only [scriptChanges]
      exact emits_trans (emits_emit _ _ _ (by intro _ _ hh; cases hh)) a

theorem consume_gated (h : Handler) (c : Ctx) (pk : Pk) (h' : Handler) (c' : Ctx)
    (chg : List (Change Handler)) (hb : c.cfg.bypassCrc = false)
    (hc : App.consume h c pk = .ok (h', c', chg)) : Emits (GatedEv h pk) c c' := by
  cases h with
  | pat s reg =>
    unfold App.consume at hc
    dsimp only at hc
    obtain ⟨r1, h1, hc⟩ := R.bind_eq_ok hc
    obtain ⟨s', ds⟩ := r1
    dsimp only at hc
    obtain ⟨r2, h2, hc⟩ := R.bind_eq_ok hc
    obtain ⟨c2, reg2, chg2⟩ := r2
    have := R.ok_inj hc
    simp only [Prod.mk.injEq] at this
    rw [← this.2.1]
    refine emits_mono (fun e he => ?_)
      (runDeliveries_gated patSection (fun d => IsReq (patRequests d)) patSection_gated
        ds c reg c2 reg2 chg2 hb h2)
    obtain ⟨d, hd, hv, hq⟩ := he
    exact ⟨s', ds, d, h1, hd, hv, hq⟩
  | pmt pid prog s reg =>
    unfold App.consume at hc
    dsimp only at hc
    obtain ⟨r1, h1, hc⟩ := R.bind_eq_ok hc
    obtain ⟨s', ds⟩ := r1
    dsimp only at hc
    obtain ⟨r2, h2, hc⟩ := R.bind_eq_ok hc
    obtain ⟨c2, reg2, chg2⟩ := r2
    have := R.ok_inj hc
    simp only [Prod.mk.injEq] at this
    rw [← this.2.1]
    refine emits_mono (fun e he => ?_)
      (runDeliveries_gated (fun c r d => pmtSection c pid r d) (fun d => IsReq (pmtRequests pid d))
        (fun c r d => pmtSection_gated c pid r d) ds c reg c2 reg2 chg2 hb h2)
    obtain ⟨d, hd, hv, hq⟩ := he
    exact ⟨s', ds, d, h1, hd, hv, hq⟩
  | pes tag f =>
    refine emits_mono (fun e he => ?_) (consume_facts _ c pk h' c' chg hc).1.1
    intro req t hh
    subst hh
    simp only [EvBy, tagOf] at he
    cases he.1
  | recorder tag =>
    unfold App.consume at hc
    dsimp only at hc
    have key : (match c.cfg.script.lookup (pk.off / 188) with
        | some ops => pure (Handler.recorder tag, (scriptChanges (c.emit (.pkt tag pk.off)) ops).1,
            (scriptChanges (c.emit (.pkt tag pk.off)) ops).2)
        | none => pure (Handler.recorder tag, c.emit (.pkt tag pk.off), [])) = R.ok (h', c', chg) := by
      split at hc
      · obtain ⟨_, _, hc⟩ := R.bind_eq_ok hc
        exact hc
      · exact hc
    clear hc
    have e0 : Emits (GatedEv (.recorder tag) pk) c (c.emit (.pkt tag pk.off)) :=
      emits_emit _ _ _ (by intro _ _ hh; cases hh)
    cases hl : c.cfg.script.lookup (pk.off / 188) with
    | none =>
      rw [hl] at key
      have := R.ok_inj key
      simp only [Prod.mk.injEq] at this
      rw [← this.2.1]
      exact e0
    | some ops =>
      rw [hl] at key
      have := R.ok_inj key
      simp only [Prod.mk.injEq] at this
      rw [← this.2.1]
      exact emits_trans e0 (scriptChanges_emits ops _)

/-! ### one dispatcher step, then any number of them -/

/-- the events ONE dispatcher step on packet `pk` from state `(t, c)` may append: the `ByPid`
request for the packet's own PID (lookup-or-construct), or an event allowed (`GatedEv`) to the
handler serving `pk.pid` in this step — the one registered before the step, or the one just
constructed for the `ByPid` request -/
def StepEv (t : Tab Handler) (c : Ctx) (pk : Pk) (e : Ev) : Prop :=
  (∃ tag, e = Ev.construct (.byPid pk.pid) tag) ∨
  ∃ h0, (t.get pk.pid = some h0 ∨ (t.get pk.pid = none ∧ h0 = (construct c (.byPid pk.pid)).1))
    ∧ GatedEv h0 pk e

theorem specStep_gated (t : Tab Handler) (c : Ctx) (pk : Pk) (t' : Tab Handler) (c' : Ctx)
    (hb : c.cfg.bypassCrc = false) (h : specStep App.sem (t, c) pk = .ok (t', c')) :
    Emits (StepEv t c pk) c c' := by
  rw [specStep_eq] at h
  obtain ⟨r, hE, h⟩ := R.bind_eq_ok h
  obtain ⟨t1, c1⟩ := r
  have hcases := ensure_cases t c pk.pid t1 c1 hE
  have he1 : Emits (StepEv t c pk) c c1 := by
    rcases hcases with ⟨_, _, e2⟩ | ⟨_, _, e2⟩
    · rw [e2]; exact emits_refl _ _
    · rw [e2, construct_ctx]
      exact ⟨rfl, Nat.le_succ _, [.construct (.byPid pk.pid) c.nextTag], rfl, by
        intro e he; simp only [List.mem_singleton] at he; subst he; exact Or.inl ⟨_, rfl⟩⟩
  have hb1 : c1.cfg.bypassCrc = false := by rw [he1.1]; exact hb
  dsimp only at h
  split at h
  · have := R.ok_inj h
    simp only [Prod.mk.injEq] at this
    rw [← this.2]
    exact he1
  · cases hg : t1.get pk.pid with
    | none => rw [hg] at h; cases h
    | some hd =>
      rw [hg] at h
      dsimp only at h
      obtain ⟨x, hx, h⟩ := R.bind_eq_ok h
      obtain ⟨h', c2, chg⟩ := x
      have := R.ok_inj h
      simp only [Prod.mk.injEq] at this
      rw [← this.2]
      refine emits_trans he1 (emits_mono (fun e he => ?_) (consume_gated hd c1 pk h' c2 chg hb1 hx))
      refine Or.inr ⟨hd, ?_, he⟩
      rcases hcases with ⟨_, e1, _⟩ | ⟨hn, e1, _⟩
      · subst e1; exact Or.inl hg
      · subst e1
        rw [Tab.get_insert_self] at hg
        injection hg with hg
        exact Or.inr ⟨hn, hg.symm⟩

/-- an event that, if it is a handler request, is a `ByPid` request or one of the requests
computed from SOME byte string satisfying `Verified`.
WEAK: `S` is existentially quantified and not tied to any delivery of any reassembler, and the
processors do not read the CRC bytes, so any request computable from a string of ≥ 12 bytes with
the syntax bit set is also computable from a `Verified` one (`Ts.Props.C04.reseal`).  `VerifiedReq`,
`push_gated` and `pushAll_gated` therefore do not by themselves express that the CRC gate works;
the statements that do are `StepEv` / `GatedEv` (the section is a delivery `d ∈ ds` of the serving
handler's reassembler on that very packet): `pushSpec_gated`, and for whole runs
`Ts.Lemmas.C04c.runApp_history`, `Ts.Props.C04.requests_from_verified_delivery`. -/
def VerifiedReq (e : Ev) : Prop :=
  ∀ req tag, e = Ev.construct req tag → (∃ p, req = Req.byPid p) ∨
    ∃ S, Verified S ∧ (req ∈ patRequests S ∨ ∃ pid, req ∈ pmtRequests pid S)

theorem verifiedReq_of_gatedEv (h : Handler) (pk : Pk) (e : Ev) (hg : GatedEv h pk e) : VerifiedReq e := by
  intro req tag he
  cases h with
  | pat s reg =>
    obtain ⟨_, _, d, _, _, hv, r, t, hr, hm⟩ := hg
    rw [he] at hr; injection hr with hr _; subst hr
    exact Or.inr ⟨d.bytes, hv, Or.inl hm⟩
  | pmt pid prog s reg =>
    obtain ⟨_, _, d, _, _, hv, r, t, hr, hm⟩ := hg
    rw [he] at hr; injection hr with hr _; subst hr
    exact Or.inr ⟨d.bytes, hv, Or.inr ⟨pid, hm⟩⟩
  | pes σ f => exact absurd he (hg req tag)
  | recorder σ => exact absurd he (hg req tag)

theorem verifiedReq_of_stepEv (t : Tab Handler) (c : Ctx) (pk : Pk) (e : Ev) (h : StepEv t c pk e) :
    VerifiedReq e := by
  rcases h with ⟨tag, he⟩ | ⟨h0, _, hg⟩
  · intro req tag' he'
    rw [he] at he'; injection he' with he' _
    exact Or.inl ⟨pk.pid, he'.symm⟩
  · exact verifiedReq_of_gatedEv h0 pk e hg

/-- the history form over a packet list: every appended event was appended by the dispatcher step
on some packet `pk` of the list, from the state reached after the packets before it -/
theorem pushSpec_gated : ∀ (pks : List Pk) (tc tc' : Tab Handler × Ctx), tc.2.cfg.bypassCrc = false →
    pushSpec App.sem tc pks = .ok tc' →
    Emits (fun e => ∃ pre pk post t1 c1, pks = pre ++ pk :: post ∧
      pushSpec App.sem tc pre = .ok (t1, c1) ∧ StepEv t1 c1 pk e) tc.2 tc'.2 := by
  intro pks
  induction pks with
  | nil =>
    intro tc tc' _ h
    have := R.ok_inj h
    rw [← this]; exact emits_refl _ _
  | cons pk pks ih =>
    intro tc tc' hb h
    rw [pushSpec_cons] at h
    obtain ⟨tc1, h1, h⟩ := R.bind_eq_ok h
    obtain ⟨t, c⟩ := tc
    obtain ⟨t1, c1⟩ := tc1
    have a := specStep_gated t c pk t1 c1 hb h1
    have hb1 : c1.cfg.bypassCrc = false := by rw [a.1]; exact hb
    refine emits_trans (emits_mono (fun e he => ?_) a) (emits_mono (fun e he => ?_) (ih (t1, c1) tc' hb1 h))
    · exact ⟨[], pk, pks, t, c, rfl, rfl, he⟩
    · obtain ⟨pre, pk', post, t2, c2, e1, e2, e3⟩ := he
      refine ⟨pk :: pre, pk', post, t2, c2, by rw [e1]; rfl, ?_, e3⟩
      rw [pushSpec_cons, h1]; exact e2

theorem push_gated (tc : Tab Handler × Ctx) (buf : Bytes) (base : Nat) (tc' : Tab Handler × Ctx)
    (hb : tc.2.cfg.bypassCrc = false) (h : push App.sem tc buf base = .ok tc') :
    Emits VerifiedReq tc.2 tc'.2 := by
  unfold push at h
  obtain ⟨pks, _, h⟩ := R.bind_eq_ok h
  rw [pushModel_eq_pushSpec] at h
  refine emits_mono (fun e he => ?_) (pushSpec_gated pks tc tc' hb h)
  obtain ⟨_, pk, _, t1, c1, _, _, hs⟩ := he
  exact verifiedReq_of_stepEv t1 c1 pk e hs

theorem pushAll_gated : ∀ (bufs : List Bytes) (tc : Tab Handler × Ctx) (base : Nat)
    (tc' : Tab Handler × Ctx), tc.2.cfg.bypassCrc = false → pushAll App.sem tc bufs base = .ok tc' →
    Emits VerifiedReq tc.2 tc'.2 := by
  intro bufs
  induction bufs with
  | nil =>
    intro tc base tc' _ h
    have := R.ok_inj h
    rw [← this]; exact emits_refl _ _
  | cons b bs ih =>
    intro tc base tc' hb h
    unfold pushAll at h
    obtain ⟨tc1, h1, h⟩ := R.bind_eq_ok h
    have a := push_gated tc b base tc1 hb h1
    have hb1 : tc1.2.cfg.bypassCrc = false := by rw [a.1]; exact hb
    exact emits_trans a (ih tc1 _ tc' hb1 h)

/-- the context `Demultiplex::new` leaves: exactly the `ByPid(0)` request -/
theorem init_trace (cfg : App.Cfg) :
    (App.init cfg).2.trace = [Ev.construct (.byPid 0) 0] ∧ (App.init cfg).2.cfg = cfg := ⟨rfl, rfl⟩

end Ts.Lemmas.C04b
