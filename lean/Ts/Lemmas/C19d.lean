import Ts.Lemmas.C19c
import Ts.Spec.RoutingHistory
/-!
# C19 helper definitions and evaluated probes, part 4: the input-level steady state and F14

* `LegalMux` (a copy of `Ts.Lemmas.C10.LegalMux`, which lives downstream of `Ts.Props.C19` in the
  import order): `WellFormedMux` WITHOUT "the starting packet carries the 8-byte fixed header".
* `TransmitsAnyCut`: the packets of one COMPLETE transmission of a section, cut anywhere.
* `appliedOn`, `LastTableOn`, `tablePid` (copies of the C10 vocabulary), `CopyOf`: "the section `S` is a
  copy of the table last applied on PID `p` in the history".
* `frameAll`: the packets of successive pushes.
* `StableInput`: the input-level steady-state hypothesis of `Ts.Props.C19.C19_steady_full`.
* the probe F14 / F14c (`/verif/known_findings.json`, `/tmp/pr/f14.txt`) as byte lists and their
  evaluation by the kernel.
* `repPacket_of_transmits`: every packet of a transmission in a `WellFormedMux` packetisation is a C10
  repetition packet (used by the bridge `C19_steady_gap_transmissions`).
* the two-packet PAT of the "fits in one transport packet" counter-reading.
-/
namespace Ts.Lemmas.C19d
open Ts Ts.Demux Ts.Lemmas.C19
open Ts.Lemmas.C03 (Pl plOf)
open Ts.Spec.SectionMux (Kind WellFormedSection WellFormedMux Mux PayloadSize Carries minHeader)
open Ts.Spec.RoutingHistory (Event Route initRoute run WF Realises RealisesEv Transmits patRouted pmtRouted)
open Ts.Spec.TableSpec (specPat specPmtAccept)
open Ts.Spec.Routing (sectionBody)
open Ts.Tables (PatEntry)

/-! ### packetisations that may cut the section anywhere -/

/-- `WellFormedMux` WITHOUT its second clause (`minHeader kind ≤ …`): the section may be cut at any
byte, in particular inside its first 3 (common header) or first 8 (table-syntax header) bytes.
(Same definition as `Ts.Lemmas.C10.LegalMux`.) -/
def LegalMux (S : Bytes) (m : Mux) : Prop :=
  m.k ≤ S.length ∧ PayloadSize (m.first S)
  ∧ (m.k = S.length ∨ (m.k < S.length ∧ m.tailBytes = [] ∧ Carries (S.drop m.k) m.conts))
  ∧ (∀ c ∈ m.rest, PayloadSize c)

instance (S : Bytes) (m : Mux) : Decidable (LegalMux S m) := by unfold LegalMux; infer_instance

theorem wellFormedMux_iff_legal (kind : Kind) (S : Bytes) (m : Mux) :
    WellFormedMux kind S m ↔ (LegalMux S m ∧ minHeader kind ≤ (S.take m.k ++ m.tailBytes).length) := by
  unfold WellFormedMux LegalMux
  constructor
  · rintro ⟨a, b, c, d, e⟩; exact ⟨⟨a, c, d, e⟩, b⟩
  · rintro ⟨⟨a, c, d, e⟩, b⟩; exact ⟨a, b, c, d, e⟩

/-- `pks` are the packets of ONE complete transmission of the section `S` on PID `pid`, in a
packetisation satisfying `P`: every packet is an unflagged 188-byte packet of that PID; their payload
views (`plOf`; packets without payload contribute nothing) are the unit-start payload
`pointer_field :: pre ++ S.take k ++ tail` followed by the continuation payloads of the packetisation.
Compare `Spec.RoutingHistory.Transmits` (= `P := WellFormedMux .syntax` plus conditions on `S`). -/
structure TransmitsWith (P : Bytes → Mux → Prop) (pid : Nat) (S : Bytes) (pks : List Pk) : Prop where
  pkts : ∀ pk ∈ pks, pk.pid = pid ∧ pk.flagged = false ∧ pk.bytes.length = 188
  mux : ∃ m off rest, P S m ∧
    (pks.map (·.bytes)).filterMap plOf = ⟨true, m.first S, off⟩ :: rest ∧
    (∀ q ∈ rest, q.us = false) ∧ rest.map (·.bytes) = m.rest

/-- one complete transmission in ANY packetisation (`LegalMux`: the continuation payloads carry
`S.drop k`; no minimum first share) -/
abbrev TransmitsAnyCut (pid : Nat) (S : Bytes) (pks : List Pk) : Prop := TransmitsWith LegalMux pid S pks

theorem TransmitsWith.mono {P Q : Bytes → Mux → Prop} (h : ∀ S m, P S m → Q S m) {pid : Nat} {S : Bytes}
    {pks : List Pk} (t : TransmitsWith P pid S pks) : TransmitsWith Q pid S pks := by
  obtain ⟨a, m, off, rest, b, c⟩ := t
  exact ⟨a, m, off, rest, h S m b, c⟩

/-- Boolean form of `TransmitsAnyCut` for a GIVEN packetisation `m` (for kernel evaluation) -/
def txCheck (pid : Nat) (S : Bytes) (m : Mux) (pks : List Pk) : Bool :=
  pks.all (fun pk => pk.pid == pid && !pk.flagged && pk.bytes.length == 188)
  && decide (LegalMux S m)
  && match (pks.map (·.bytes)).filterMap plOf with
     | [] => false
     | q :: rest => q.us && q.bytes == m.first S && rest.all (fun q => !q.us)
         && rest.map (·.bytes) == m.rest

/-- soundness of `txCheck`, for any packetisation predicate `P` that holds of the given `m` -/
theorem txCheck_sound_with {P : Bytes → Mux → Prop} (pid : Nat) (S : Bytes) (m : Mux) (pks : List Pk)
    (hP : P S m) (h : txCheck pid S m pks = true) : TransmitsWith P pid S pks := by
  unfold txCheck at h
  simp only [Bool.and_eq_true, List.all_eq_true, beq_iff_eq, Bool.not_eq_true', decide_eq_true_eq] at h
  obtain ⟨⟨h1, _⟩, h3⟩ := h
  refine ⟨fun pk hm => ⟨(h1 pk hm).1.1, (h1 pk hm).1.2, (h1 pk hm).2⟩, ?_⟩
  cases hl : (pks.map (·.bytes)).filterMap plOf with
  | nil => rw [hl] at h3; cases h3
  | cons q rest =>
    rw [hl] at h3
    simp only [Bool.and_eq_true, List.all_eq_true, beq_iff_eq, Bool.not_eq_true'] at h3
    obtain ⟨⟨⟨a, b⟩, c⟩, d⟩ := h3
    refine ⟨m, q.off, rest, hP, ?_, c, d⟩
    congr 1
    cases q with
    | mk us bytes off =>
      simp only at a b
      rw [a, b]

theorem txCheck_legal (pid : Nat) (S : Bytes) (m : Mux) (pks : List Pk)
    (h : txCheck pid S m pks = true) : LegalMux S m := by
  unfold txCheck at h
  simp only [Bool.and_eq_true, decide_eq_true_eq] at h
  exact h.1.2

theorem txCheck_sound (pid : Nat) (S : Bytes) (m : Mux) (pks : List Pk)
    (h : txCheck pid S m pks = true) : TransmitsAnyCut pid S pks :=
  txCheck_sound_with pid S m pks (txCheck_legal pid S m pks h) h

/-! ### "the table last applied on PID `p`" as a function of the history -/

/-- the version an event APPLIES on PID `p`: a PAT version on PID 0, a PMT version on `p ≠ 0`
(same definition as `Ts.Lemmas.C10.appliedOn`) -/
def appliedOn (p : Nat) : Event → Option Nat
  | .patApplied v _ => if p = 0 then some v else none
  | .pmtApplied q v _ => if p ≠ 0 ∧ q = p then some v else none
  | _ => none

/-- `ev` is the LAST event of the history `evs` that applies a table on PID `p` -/
def LastTableOn (p : Nat) (evs : List Event) (ev : Event) : Prop :=
  ∃ pre post, evs = pre ++ ev :: post ∧ (appliedOn p ev).isSome = true ∧ ∀ e ∈ post, appliedOn p e = none

/-- after the history, `p` carries tables: PID 0 is routed to the PAT filter / `p ≠ 0` is routed to a
PMT filter requested for program-map PID `p` (same definition as `Ts.Lemmas.C10.tablePid`) -/
def tablePid (r : Route) (p : Nat) : Bool := if p = 0 then patRouted r else pmtRouted r p

/-- the section `S` is a copy of the table the event applied: an intact section-syntax section
(well-formed, at least 12 bytes, CRC-32 verifies) with the event's `table_id`, `version_number` and
contents (PAT: the program loop; PMT: the whole body) — exactly what `RealisesEv` asks of the
section whose transmission realises the event -/
def CopyOf (S : Bytes) : Event → Prop
  | .patApplied v es =>
      WellFormedSection .syntax S ∧ 12 ≤ S.length ∧ Ts.CrcSpec.crc S = 0
      ∧ byteD S 0 = 0 ∧ Ts.Lemmas.C10.versionOf S = v ∧ specPat (sectionBody S) = es
  | .pmtApplied _ v body =>
      WellFormedSection .syntax S ∧ 12 ≤ S.length ∧ Ts.CrcSpec.crc S = 0
      ∧ byteD S 0 = 2 ∧ Ts.Lemmas.C10.versionOf S = v ∧ sectionBody S = body ∧ specPmtAccept body
  | _ => False

theorem copyOf_version (S : Bytes) (ev : Event) (p v : Nat) (h : CopyOf S ev) (ha : appliedOn p ev = some v) :
    WellFormedSection .syntax S ∧ 12 ≤ S.length ∧ Ts.Lemmas.C10.versionOf S = v := by
  cases ev with
  | patApplied v' es =>
    obtain ⟨a, b, _, _, e, _⟩ := h
    simp only [appliedOn] at ha
    split at ha
    · injection ha with ha; exact ⟨a, b, by rw [e, ha]⟩
    · cases ha
  | pmtApplied q v' body =>
    obtain ⟨a, b, _, _, e, _⟩ := h
    simp only [appliedOn] at ha
    split at ha
    · injection ha with ha; exact ⟨a, b, by rw [e, ha]⟩
    · cases ha
  | esPacket _ => exact h.elim
  | repetition _ => exact h.elim

/-! ### the packets of successive pushes -/

/-- the packets of successive `push` calls, in order (`base` = bytes pushed before the first) -/
def frameAll : List Bytes → Nat → R (List Pk)
  | [], _ => .ok []
  | b :: bs, base =>
    frame b base >>= fun a => frameAll bs (base + b.length) >>= fun r => .ok (a ++ r)

/-- **The input-level steady-state hypothesis**, for packetisations satisfying `P`.  `evs`: the
history the warm-up realises; `tbl p`: the section current on table PID `p`; `t`: the filter table
after the warm-up; `pks`: ALL packets of the steady pushes, in order.
* `handled`: every PID occurring in the steady pushes has a handler after the warm-up;
* `tables`: for every PID `p` occurring in the steady pushes that carries tables after the history
  (`tablePid`): `tbl p` is a copy (`CopyOf`) of the table LAST applied on `p` in the history, and the
  packets of PID `p` — whatever is interleaved between them on other PIDs — are, in order, the
  packets of complete transmissions of `tbl p`, any number of them, each in a packetisation
  satisfying `P`. -/
structure StableInputWith (P : Bytes → Mux → Prop) (evs : List Event) (tbl : Nat → Bytes)
    (t : Tab App.Handler) (pks : List Pk) : Prop where
  handled : ∀ pk ∈ pks, t.contains pk.pid = true
  tables : ∀ pk ∈ pks, tablePid (run initRoute evs) pk.pid = true →
    (∃ ev, LastTableOn pk.pid evs ev ∧ CopyOf (tbl pk.pid) ev)
    ∧ ∃ txs : List (List Pk), pks.filter (fun x => x.pid == pk.pid) = txs.flatten
        ∧ ∀ tx ∈ txs, TransmitsWith P pk.pid (tbl pk.pid) tx

/-- … in ANY packetisation (`LegalMux`: no minimum first share): the hypothesis of
`Ts.Props.C19.C19_steady_full` -/
abbrev StableInput (evs : List Event) (tbl : Nat → Bytes) (t : Tab App.Handler) (pks : List Pk) : Prop :=
  StableInputWith LegalMux evs tbl t pks

theorem StableInputWith.mono {P Q : Bytes → Mux → Prop} (h : ∀ S m, P S m → Q S m) {evs : List Event}
    {tbl : Nat → Bytes} {t : Tab App.Handler} {pks : List Pk} (s : StableInputWith P evs tbl t pks) :
    StableInputWith Q evs tbl t pks := by
  refine ⟨s.handled, fun pk hpk ht => ?_⟩
  obtain ⟨a, txs, b, c⟩ := s.tables pk hpk ht
  exact ⟨a, txs, b, fun tx hm => (c tx hm).mono h⟩

/-! ### the probe F14 (`F14 steady b0t0 <warm> <st1> <st2> <st3>`), packet by packet

Every packet is written as its distinguishing bytes followed by `List.replicate` stuffing; the pushes
`f14Warm`, `f14St1`, `f14St2`, `f14St3` (control: `f14cSt2`) are byte for byte the four hex strings of
the first (second) line of `/tmp/pr/f14.txt` (checked outside the kernel by `hexOfBytes`). -/

/-- PAT section, version 0: program 1 → PMT PID 0x100 -/
def patSecV0 : Bytes :=
  [0x00, 0xb0, 0x0d, 0x00, 0x01, 0xc1, 0x00, 0x00, 0x00, 0x01, 0xe1, 0x00, 0xe8, 0xf9, 0x5e, 0x7d]

/-- PMT section of program 1, version 0: PCR PID 0x101, one stream: H.264 (0x1b) on 0x101 -/
def pmtSecV0 : Bytes :=
  [0x02, 0xb0, 0x12, 0x00, 0x01, 0xc1, 0x00, 0x00, 0xe1, 0x01, 0xf0, 0x00, 0x1b, 0xe1, 0x01, 0xf0, 0x00,
   0x4f, 0xc4, 0x3d, 0x1b]

/-- body of `pmtSecV0` (bytes `[8, len-4)`) -/
def pmtBodyV0 : Bytes := [0xe1, 0x01, 0xf0, 0x00, 0x1b, 0xe1, 0x01, 0xf0, 0x00]

/-- one packet on PID 0, unit start, `pointer_field = 0`, continuity counter `cc`, carrying `sec` -/
def patPktCc (cc : Nat) (sec : Bytes) : Bytes :=
  [0x47, 0x40, 0x00, UInt8.ofNat (0x10 + cc), 0x00] ++ sec ++ List.replicate (183 - sec.length) 0xff

/-- the same on PID 0x100 -/
def pmtPktCc (cc : Nat) (sec : Bytes) : Bytes :=
  [0x47, 0x41, 0x00, UInt8.ofNat (0x10 + cc), 0x00] ++ sec ++ List.replicate (183 - sec.length) 0xff

/-- PID 0x101, unit start: a PES header (stream id 0xe0, unbounded length, no optional fields)
followed by payload bytes -/
def esStartPkt : Bytes :=
  [0x47, 0x41, 0x01, 0x10, 0x00, 0x00, 0x01, 0xe0, 0x00, 0x00, 0x80, 0x00, 0x00] ++ List.replicate 175 0x55

/-- PID 0x101, continuation of that PES packet, continuity counter `cc` -/
def esContCc (cc : Nat) : Bytes := [0x47, 0x01, 0x01, UInt8.ofNat (0x10 + cc)] ++ List.replicate 184 0x66

/-- **the straddling start** (PID 0, unit start, cc 2): `pointer_field = 181`, 181 stuffing bytes,
then only the first TWO bytes `00 b0` of PAT version 0 — its 3-byte header straddles two packets -/
def straddlePkt : Bytes :=
  [0x47, 0x40, 0x00, 0x12, 0xb5] ++ List.replicate 181 0xff ++ [0x00, 0xb0]

/-- the continuation packet carrying the remaining 14 bytes of that PAT (PID 0, cc 3) -/
def straddleTailPkt : Bytes :=
  [0x47, 0x00, 0x00, 0x13] ++ patSecV0.drop 2 ++ List.replicate 170 0xff

/-- warm-up push: PAT v0, PMT v0, start of a PES packet on 0x101 -/
def f14Warm : Bytes := patPktCc 0 patSecV0 ++ pmtPktCc 0 pmtSecV0 ++ esStartPkt

/-- steady push 1: ES continuation, PAT v0, PMT v0 -/
def f14St1 : Bytes := esContCc 1 ++ patPktCc 1 patSecV0 ++ pmtPktCc 1 pmtSecV0

/-- steady push 2: ES continuation, PAT v0 with its header straddling two packets, PAT v0, PMT v0,
ES continuation -/
def f14St2 : Bytes :=
  esContCc 2 ++ straddlePkt ++ straddleTailPkt ++ patPktCc 4 patSecV0 ++ pmtPktCc 2 pmtSecV0 ++ esContCc 3

/-- steady push 3: ES continuation, PAT v0, PMT v0 -/
def f14St3 : Bytes := esContCc 4 ++ patPktCc 5 patSecV0 ++ pmtPktCc 3 pmtSecV0

/-- control F14c, steady push 2: the straddling transmission replaced by two ordinary PAT v0 packets -/
def f14cSt2 : Bytes :=
  esContCc 2 ++ patPktCc 2 patSecV0 ++ patPktCc 3 patSecV0 ++ patPktCc 4 patSecV0 ++ pmtPktCc 2 pmtSecV0
    ++ esContCc 3

/-- the `i`-th 188-byte packet of the run, on PID `pid`, not flagged -/
def pkAt (b : Bytes) (i pid : Nat) : Pk := ⟨b, 188 * i, pid, false, false⟩

/-- the three warm-up packets -/
def f14WarmPks : List Pk :=
  [pkAt (patPktCc 0 patSecV0) 0 0, pkAt (pmtPktCc 0 pmtSecV0) 1 0x100, pkAt esStartPkt 2 0x101]

/-- the twelve packets of the three steady pushes -/
def f14SteadyPks : List Pk :=
  [pkAt (esContCc 1) 3 0x101, pkAt (patPktCc 1 patSecV0) 4 0, pkAt (pmtPktCc 1 pmtSecV0) 5 0x100,
   pkAt (esContCc 2) 6 0x101, pkAt straddlePkt 7 0, pkAt straddleTailPkt 8 0,
   pkAt (patPktCc 4 patSecV0) 9 0, pkAt (pmtPktCc 2 pmtSecV0) 10 0x100, pkAt (esContCc 3) 11 0x101,
   pkAt (esContCc 4) 12 0x101, pkAt (patPktCc 5 patSecV0) 13 0, pkAt (pmtPktCc 3 pmtSecV0) 14 0x100]

/-- the history the warm-up realises: PAT v0 {1 → 0x100}, PMT v0 on 0x100, a packet on 0x101 -/
def f14Hist : List Event :=
  [.patApplied 0 [.program 1 0x100], .pmtApplied 0x100 0 pmtBodyV0, .esPacket 0x101]

/-- the table current on each table PID of the probe -/
def f14Tbl (p : Nat) : Bytes := if p = 0 then patSecV0 else pmtSecV0

/-- the straddling packetisation of PAT v0: 181 pointer bytes, 2 section bytes in the first payload,
the other 14 in one continuation payload -/
def straddleMux : Mux :=
  ⟨List.replicate 181 0xff, 2, [], [patSecV0.drop 2 ++ List.replicate 170 0xff], []⟩

/-! #### the warm-up realises its history -/

theorem f14_wf : WF initRoute f14Hist := by decide +kernel

/-- a section carried whole by one unit-start packet with `pointer_field = 0` -/
theorem transmits_one (pid : Nat) (S : Bytes) (pk : Pk)
    (h1 : WellFormedSection .syntax S) (h2 : 12 ≤ S.length) (h3 : Ts.CrcSpec.crc S = 0)
    (h4 : pk.pid = pid ∧ pk.flagged = false ∧ pk.bytes.length = 188)
    (h5 : WellFormedMux .syntax S (Ts.Lemmas.C10.muxOf S))
    (h6 : plOf pk.bytes = some ⟨true, (Ts.Lemmas.C10.muxOf S).first S, 4⟩) : Transmits pid S [pk] :=
  { wf := h1, len := h2, crc := h3
    pkts := fun pk' hm => by rw [List.mem_singleton.1 hm]; exact h4
    mux := ⟨Ts.Lemmas.C10.muxOf S, 4, [], h5, by simp [h6], by simp, rfl⟩ }

theorem f14_realises : Realises initRoute f14Hist f14WarmPks := by
  have tx0 : Transmits 0 patSecV0 [pkAt (patPktCc 0 patSecV0) 0 0] :=
    transmits_one 0 patSecV0 _ (by decide +kernel) (by decide +kernel) (by decide +kernel)
      ⟨rfl, rfl, by show (patPktCc 0 patSecV0).length = 188; decide +kernel⟩ (by decide +kernel)
      (by show plOf (patPktCc 0 patSecV0) = _; decide +kernel)
  have tx1 : Transmits 0x100 pmtSecV0 [pkAt (pmtPktCc 0 pmtSecV0) 1 0x100] :=
    transmits_one 0x100 pmtSecV0 _ (by decide +kernel) (by decide +kernel) (by decide +kernel)
      ⟨rfl, rfl, by show (pmtPktCc 0 pmtSecV0).length = 188; decide +kernel⟩ (by decide +kernel)
      (by show plOf (pmtPktCc 0 pmtSecV0) = _; decide +kernel)
  have e0 : ∀ r, RealisesEv r (.patApplied 0 [.program 1 0x100]) [pkAt (patPktCc 0 patSecV0) 0 0] :=
    fun _ => ⟨patSecV0, tx0, by decide +kernel, by decide +kernel, by decide +kernel⟩
  have e1 : ∀ r, RealisesEv r (.pmtApplied 0x100 0 pmtBodyV0) [pkAt (pmtPktCc 0 pmtSecV0) 1 0x100] :=
    fun _ => ⟨pmtSecV0, tx1, by decide +kernel, by decide +kernel, by decide +kernel, by decide +kernel⟩
  have e2 : ∀ r, RealisesEv r (.esPacket 0x101) [pkAt esStartPkt 2 0x101] :=
    fun _ => ⟨_, rfl, rfl, by show esStartPkt.length = 188; decide +kernel⟩
  exact Realises.cons (e0 _) (Realises.cons (e1 _) (Realises.cons (e2 _) (Realises.nil _)))

/-! #### the steady pushes satisfy the input-level hypothesis -/

theorem f14_copies :
    CopyOf patSecV0 (.patApplied 0 [.program 1 0x100])
    ∧ CopyOf pmtSecV0 (.pmtApplied 0x100 0 pmtBodyV0) := by
  refine ⟨⟨?_, ?_, ?_, ?_, ?_, ?_⟩, ⟨?_, ?_, ?_, ?_, ?_, ?_, ?_⟩⟩ <;> decide +kernel

/-- the packets of PID 0 in the steady pushes are FOUR complete transmissions of PAT v0 (the second
one in the straddling packetisation), those of PID 0x100 three complete transmissions of PMT v0 -/
theorem f14_transmissions :
    f14SteadyPks.filter (fun x => x.pid == 0)
      = [[pkAt (patPktCc 1 patSecV0) 4 0], [pkAt straddlePkt 7 0, pkAt straddleTailPkt 8 0],
         [pkAt (patPktCc 4 patSecV0) 9 0], [pkAt (patPktCc 5 patSecV0) 13 0]].flatten
    ∧ txCheck 0 patSecV0 (Ts.Lemmas.C10.muxOf patSecV0) [pkAt (patPktCc 1 patSecV0) 4 0] = true
    ∧ txCheck 0 patSecV0 straddleMux [pkAt straddlePkt 7 0, pkAt straddleTailPkt 8 0] = true
    ∧ txCheck 0 patSecV0 (Ts.Lemmas.C10.muxOf patSecV0) [pkAt (patPktCc 4 patSecV0) 9 0] = true
    ∧ txCheck 0 patSecV0 (Ts.Lemmas.C10.muxOf patSecV0) [pkAt (patPktCc 5 patSecV0) 13 0] = true
    ∧ f14SteadyPks.filter (fun x => x.pid == 0x100)
      = [[pkAt (pmtPktCc 1 pmtSecV0) 5 0x100], [pkAt (pmtPktCc 2 pmtSecV0) 10 0x100],
         [pkAt (pmtPktCc 3 pmtSecV0) 14 0x100]].flatten
    ∧ txCheck 0x100 pmtSecV0 (Ts.Lemmas.C10.muxOf pmtSecV0) [pkAt (pmtPktCc 1 pmtSecV0) 5 0x100] = true
    ∧ txCheck 0x100 pmtSecV0 (Ts.Lemmas.C10.muxOf pmtSecV0) [pkAt (pmtPktCc 2 pmtSecV0) 10 0x100] = true
    ∧ txCheck 0x100 pmtSecV0 (Ts.Lemmas.C10.muxOf pmtSecV0) [pkAt (pmtPktCc 3 pmtSecV0) 14 0x100] = true := by
  decide +kernel

/-- which PIDs of the probe carry tables after the warm-up history -/
theorem f14_tablePids :
    tablePid (run initRoute f14Hist) 0 = true ∧ tablePid (run initRoute f14Hist) 0x100 = true
    ∧ tablePid (run initRoute f14Hist) 0x101 = false := by decide +kernel

theorem f14_pids : ∀ pk ∈ f14SteadyPks, pk.pid = 0 ∨ pk.pid = 0x100 ∨ pk.pid = 0x101 := by decide +kernel

/-- the only packetisation used that is not a `WellFormedMux` is the straddling one -/
theorem straddleMux_legal :
    LegalMux patSecV0 straddleMux ∧ ¬ WellFormedMux .syntax patSecV0 straddleMux
    ∧ WellFormedMux .syntax patSecV0 (Ts.Lemmas.C10.muxOf patSecV0)
    ∧ WellFormedMux .syntax pmtSecV0 (Ts.Lemmas.C10.muxOf pmtSecV0) := by decide +kernel

/-- **the steady pushes of F14 satisfy `StableInput`** for every table in which their PIDs have
handlers -/
theorem f14_stable (t : Tab App.Handler) (ht : ∀ pk ∈ f14SteadyPks, t.contains pk.pid = true) :
    StableInput f14Hist f14Tbl t f14SteadyPks := by
  obtain ⟨c0, c1⟩ := f14_copies
  obtain ⟨a0, a1, a2, a3, a4, b0, b1, b2, b3⟩ := f14_transmissions
  refine ⟨ht, ?_⟩
  intro pk hpk htab
  rcases f14_pids pk hpk with e | e | e
  · rw [e]
    refine ⟨⟨_, ⟨[], _, rfl, rfl, ?_⟩, c0⟩, _, a0, ?_⟩
    · intro ev he
      simp only [List.mem_cons, List.not_mem_nil, or_false] at he
      rcases he with rfl | rfl <;> rfl
    · intro tx hm
      simp only [List.mem_cons, List.not_mem_nil, or_false] at hm
      rcases hm with rfl | rfl | rfl | rfl
      · exact txCheck_sound _ _ _ _ a1
      · exact txCheck_sound _ _ _ _ a2
      · exact txCheck_sound _ _ _ _ a3
      · exact txCheck_sound _ _ _ _ a4
  · rw [e]
    refine ⟨⟨_, ⟨[_], _, rfl, rfl, ?_⟩, c1⟩, _, b0, ?_⟩
    · intro ev he
      simp only [List.mem_cons, List.not_mem_nil, or_false] at he
      subst he; rfl
    · intro tx hm
      simp only [List.mem_cons, List.not_mem_nil, or_false] at hm
      rcases hm with rfl | rfl | rfl
      · exact txCheck_sound _ _ _ _ b1
      · exact txCheck_sound _ _ _ _ b2
      · exact txCheck_sound _ _ _ _ b3
  · rw [e, f14_tablePids.2.2] at htab
    cases htab

/-! #### the control F14c satisfies the hypothesis WITH the minimum-first-share clause -/

/-- the twelve packets of the three steady pushes of the control -/
def f14cSteadyPks : List Pk :=
  [pkAt (esContCc 1) 3 0x101, pkAt (patPktCc 1 patSecV0) 4 0, pkAt (pmtPktCc 1 pmtSecV0) 5 0x100,
   pkAt (esContCc 2) 6 0x101, pkAt (patPktCc 2 patSecV0) 7 0, pkAt (patPktCc 3 patSecV0) 8 0,
   pkAt (patPktCc 4 patSecV0) 9 0, pkAt (pmtPktCc 2 pmtSecV0) 10 0x100, pkAt (esContCc 3) 11 0x101,
   pkAt (esContCc 4) 12 0x101, pkAt (patPktCc 5 patSecV0) 13 0, pkAt (pmtPktCc 3 pmtSecV0) 14 0x100]

theorem f14c_transmissions :
    f14cSteadyPks.filter (fun x => x.pid == 0)
      = [[pkAt (patPktCc 1 patSecV0) 4 0], [pkAt (patPktCc 2 patSecV0) 7 0], [pkAt (patPktCc 3 patSecV0) 8 0],
         [pkAt (patPktCc 4 patSecV0) 9 0], [pkAt (patPktCc 5 patSecV0) 13 0]].flatten
    ∧ txCheck 0 patSecV0 (Ts.Lemmas.C10.muxOf patSecV0) [pkAt (patPktCc 1 patSecV0) 4 0] = true
    ∧ txCheck 0 patSecV0 (Ts.Lemmas.C10.muxOf patSecV0) [pkAt (patPktCc 2 patSecV0) 7 0] = true
    ∧ txCheck 0 patSecV0 (Ts.Lemmas.C10.muxOf patSecV0) [pkAt (patPktCc 3 patSecV0) 8 0] = true
    ∧ txCheck 0 patSecV0 (Ts.Lemmas.C10.muxOf patSecV0) [pkAt (patPktCc 4 patSecV0) 9 0] = true
    ∧ txCheck 0 patSecV0 (Ts.Lemmas.C10.muxOf patSecV0) [pkAt (patPktCc 5 patSecV0) 13 0] = true
    ∧ f14cSteadyPks.filter (fun x => x.pid == 0x100)
      = [[pkAt (pmtPktCc 1 pmtSecV0) 5 0x100], [pkAt (pmtPktCc 2 pmtSecV0) 10 0x100],
         [pkAt (pmtPktCc 3 pmtSecV0) 14 0x100]].flatten
    ∧ (∀ pk ∈ f14cSteadyPks, pk.pid = 0 ∨ pk.pid = 0x100 ∨ pk.pid = 0x101) := by
  decide +kernel

theorem f14c_stable (t : Tab App.Handler) (ht : ∀ pk ∈ f14cSteadyPks, t.contains pk.pid = true) :
    StableInputWith (WellFormedMux .syntax) f14Hist f14Tbl t f14cSteadyPks := by
  obtain ⟨c0, c1⟩ := f14_copies
  obtain ⟨_, _, _, _, _, _, b1, b2, b3⟩ := f14_transmissions
  obtain ⟨a0, a1, a2, a3, a4, a5, b0, hp⟩ := f14c_transmissions
  obtain ⟨_, _, w0, w1⟩ := straddleMux_legal
  refine ⟨ht, ?_⟩
  intro pk hpk htab
  rcases hp pk hpk with e | e | e
  · rw [e]
    refine ⟨⟨_, ⟨[], _, rfl, rfl, ?_⟩, c0⟩, _, a0, ?_⟩
    · intro ev he
      simp only [List.mem_cons, List.not_mem_nil, or_false] at he
      rcases he with rfl | rfl <;> rfl
    · intro tx hm
      simp only [List.mem_cons, List.not_mem_nil, or_false] at hm
      rcases hm with rfl | rfl | rfl | rfl | rfl
      · exact txCheck_sound_with _ _ _ _ w0 a1
      · exact txCheck_sound_with _ _ _ _ w0 a2
      · exact txCheck_sound_with _ _ _ _ w0 a3
      · exact txCheck_sound_with _ _ _ _ w0 a4
      · exact txCheck_sound_with _ _ _ _ w0 a5
  · rw [e]
    refine ⟨⟨_, ⟨[_], _, rfl, rfl, ?_⟩, c1⟩, _, b0, ?_⟩
    · intro ev he
      simp only [List.mem_cons, List.not_mem_nil, or_false] at he
      subst he; rfl
    · intro tx hm
      simp only [List.mem_cons, List.not_mem_nil, or_false] at hm
      rcases hm with rfl | rfl | rfl
      · exact txCheck_sound_with _ _ _ _ w1 b1
      · exact txCheck_sound_with _ _ _ _ w1 b2
      · exact txCheck_sound_with _ _ _ _ w1 b3
  · rw [e, f14_tablePids.2.2] at htab
    cases htab

/-- Boolean form of "the table agrees with the history `f14Hist`": PAT filter on PID 0 and PMT filter
on PID 0x100, both quiescent at version 0; a PES filter on PID 0x101 -/
def f14AgreeB (t : Tab App.Handler) : Bool :=
  (match t.get 0 with
   | some (.pat s _) => s.lastVersion == some 0 && s.remaining == none
   | _ => false)
  && (match t.get 0x100 with
   | some (.pmt _ _ s _) => s.lastVersion == some 0 && s.remaining == none
   | _ => false)
  && (match t.get 0x101 with
   | some (.pes _ _) => true
   | _ => false)

theorem f14AgreeB_sound (t : Tab App.Handler) (h : f14AgreeB t = true) :
    (∃ hd, t.get 0 = some hd ∧ Ts.Lemmas.C10.QuiescentH 0 hd)
    ∧ (∃ hd, t.get 0x100 = some hd ∧ Ts.Lemmas.C10.QuiescentH 0 hd)
    ∧ (∃ hd, t.get 0x101 = some hd ∧ psiOf hd = none) := by
  unfold f14AgreeB at h
  simp only [Bool.and_eq_true] at h
  obtain ⟨⟨h0, h1⟩, h2⟩ := h
  refine ⟨?_, ?_, ?_⟩
  · cases hg : t.get 0 with
    | none => rw [hg] at h0; cases h0
    | some hd =>
      rw [hg] at h0
      cases hd with
      | pat s reg =>
        simp only [Bool.and_eq_true, beq_iff_eq] at h0
        exact ⟨_, rfl, h0.1, h0.2⟩
      | pmt _ _ _ _ => cases h0
      | pes _ _ => cases h0
      | recorder _ => cases h0
  · cases hg : t.get 0x100 with
    | none => rw [hg] at h1; cases h1
    | some hd =>
      rw [hg] at h1
      cases hd with
      | pmt a b s reg =>
        simp only [Bool.and_eq_true, beq_iff_eq] at h1
        exact ⟨_, rfl, h1.1, h1.2⟩
      | pat _ _ => cases h1
      | pes _ _ => cases h1
      | recorder _ => cases h1
  · cases hg : t.get 0x101 with
    | none => rw [hg] at h2; cases h2
    | some hd =>
      rw [hg] at h2
      cases hd with
      | pes tag f => exact ⟨_, rfl, rfl⟩
      | pat _ _ => cases h2
      | pmt _ _ _ _ => cases h2
      | recorder _ => cases h2

theorem f14_versions : Ts.Lemmas.C10.versionOf patSecV0 = 0 ∧ Ts.Lemmas.C10.versionOf pmtSecV0 = 0 := by
  decide +kernel

/-! #### evaluation of the whole model on the probe and its control -/

/-- `match r with | .ok a => f a | .panic _ => false` -/
def chk {α : Type} (r : R α) (f : α → Bool) : Bool :=
  match r with
  | .ok a => f a
  | .panic _ => false

theorem chk_ok {α : Type} (r : R α) (f : α → Bool) (h : chk r f = true) :
    ∃ a, r = .ok a ∧ f a = true := by
  cases r with
  | ok a => exact ⟨a, rfl, h⟩
  | panic s => cases h

/-- handlers constructed so far (`nextTag` is bumped by every `construct`) and table slots -/
def tagLen (tc : Tab App.Handler × App.Ctx) : Nat × Nat := (tc.2.nextTag, tc.1.length)

/-- does any step of `push(buf)` from `tc` reach an allocating operation of the model? -/
def pushMayAlloc (tc : Tab App.Handler × App.Ctx) (buf : Bytes) (base : Nat) : Bool :=
  chk (frame buf base) fun pks => runMayAlloc tc pks

/-- everything `C19_steady_full_false` needs about the run of F14, as one Boolean: framing; the state
after the warm-up (3 handlers constructed: PAT, PMT, PES) and after each steady push; every steady
PID has a handler after the warm-up; which pushes have a `mayAlloc` step -/
def f14Check : Bool :=
  chk (frameAll [f14Warm] 0) fun pks0 =>
  chk (frameAll [f14Warm, f14St1, f14St2, f14St3] 0) fun pall =>
  chk (App.runApp {} [f14Warm]) fun tc0 =>
  chk (App.runApp {} [f14Warm, f14St1]) fun tc1 =>
  chk (App.runApp {} [f14Warm, f14St1, f14St2]) fun tc2 =>
  chk (App.runApp {} [f14Warm, f14St1, f14St2, f14St3]) fun tc3 =>
    pks0 == f14WarmPks && pall == f14WarmPks ++ f14SteadyPks
    && tagLen tc0 == (3, 258) && tagLen tc1 == (3, 258) && tagLen tc2 == (5, 258) && tagLen tc3 == (5, 258)
    && f14SteadyPks.all (fun pk => tc0.1.contains pk.pid)
    && !pushMayAlloc tc0 f14St1 564 && pushMayAlloc tc1 f14St2 1128 && !pushMayAlloc tc2 f14St3 2256

set_option maxRecDepth 100000 in
theorem f14Check_true : f14Check = true := by decide +kernel

/-- the control: same pushes with the straddling transmission replaced by ordinary repetitions -/
def f14cCheck : Bool :=
  chk (frameAll [f14Warm, f14St1, f14cSt2, f14St3] 0) fun pall =>
  chk (App.runApp {} [f14Warm]) fun tc0 =>
  chk (App.runApp {} [f14Warm, f14St1]) fun tc1 =>
  chk (App.runApp {} [f14Warm, f14St1, f14cSt2]) fun tc2 =>
  chk (App.runApp {} [f14Warm, f14St1, f14cSt2, f14St3]) fun tc3 =>
    pall == f14WarmPks ++ f14cSteadyPks
    && tagLen tc0 == (3, 258) && tagLen tc1 == (3, 258) && tagLen tc2 == (3, 258) && tagLen tc3 == (3, 258)
    && !pushMayAlloc tc0 f14St1 564 && !pushMayAlloc tc1 f14cSt2 1128 && !pushMayAlloc tc2 f14St3 2256
    && f14AgreeB tc0.1 && tc0.2.cfg.script.isEmpty

set_option maxRecDepth 100000 in
theorem f14cCheck_true : f14cCheck = true := by decide +kernel

/-! ### the bridge from transmissions in `WellFormedMux` packetisations to `Steady` -/

/-- every packet of a complete transmission of a well-formed section-syntax section `S` (≥ 8 bytes)
in a `WellFormedMux` packetisation is a C10 repetition packet of `S`'s version -/
theorem repPacket_of_transmits (pid : Nat) (S : Bytes) (tx : List Pk)
    (hS : WellFormedSection .syntax S) (h8 : 8 ≤ S.length)
    (h : TransmitsWith (WellFormedMux .syntax) pid S tx) :
    ∀ pk ∈ tx, Ts.Lemmas.C10.RepPacket (Ts.Lemmas.C10.versionOf S) pk.bytes := by
  obtain ⟨hp, m, off, rest, hm, hl, hus, _⟩ := h
  intro pk hpk
  refine ⟨(hp pk hpk).2.2, ?_⟩
  intro q hq
  have hmem : q ∈ (tx.map (·.bytes)).filterMap plOf :=
    List.mem_filterMap.2 ⟨pk.bytes, List.mem_map_of_mem hpk, hq⟩
  rw [hl] at hmem
  rcases List.mem_cons.1 hmem with e | e
  · subst e
    exact Or.inr ⟨S, m, hS, h8, rfl, hm, rfl, rfl⟩
  · exact Or.inl (hus q e)

/-- **input level ⇒ `Steady`.**  The input-level hypothesis WITH the minimum-first-share clause
(`WellFormedMux .syntax`), 188-byte packets, and agreement of the table after the warm-up with the
history on the steady PIDs — a PID that carries tables holds a PAT/PMT handler quiescent at the
version of the current table (the handler INSTANCE in the slot is the one that applied it), any other
PID holds a handler without section filter (PES filter or recorder) — give `Steady t pks`. -/
theorem steady_of_stable (evs : List Event) (tbl : Nat → Bytes) (t : Tab App.Handler) (pks : List Pk)
    (hin : StableInputWith (WellFormedMux .syntax) evs tbl t pks)
    (hlen : ∀ pk ∈ pks, pk.bytes.length = 188)
    (hagree : ∀ pk ∈ pks,
      (tablePid (run initRoute evs) pk.pid = true
        ∧ ∃ h, t.get pk.pid = some h ∧ Ts.Lemmas.C10.QuiescentH (Ts.Lemmas.C10.versionOf (tbl pk.pid)) h)
      ∨ (tablePid (run initRoute evs) pk.pid = false ∧ ∃ h, t.get pk.pid = some h ∧ psiOf h = none)) :
    Steady t pks := by
  intro pk hpk
  rcases hagree pk hpk with ⟨htab, h, hg, hq⟩ | ⟨_, h, hg, hn⟩
  · obtain ⟨⟨ev, ⟨pre, post, _, hsome, _⟩, hcopy⟩, txs, hfl, htx⟩ := hin.tables pk hpk htab
    obtain ⟨v, hv⟩ := Option.isSome_iff_exists.1 hsome
    obtain ⟨hS, h12, _⟩ := copyOf_version _ ev pk.pid v hcopy hv
    have hmem : pk ∈ pks.filter (fun x => x.pid == pk.pid) :=
      List.mem_filter.2 ⟨hpk, by simp⟩
    rw [hfl] at hmem
    obtain ⟨tx, htxm, hpktx⟩ := List.mem_flatten.1 hmem
    have hrep := repPacket_of_transmits pk.pid _ tx hS (by omega) (htx tx htxm) pk hpktx
    exact steadyPk_of_c10 t pk _ h hg hq hrep
  · refine ⟨hlen pk hpk, (Tab.contains_eq_true_iff t pk.pid).2 ⟨h, hg⟩, ?_⟩
    intro h' s hg' hs
    rw [hg] at hg'
    injection hg' with hg'
    subst hg'
    rw [hn] at hs
    cases hs

/-! ### successive pushes -/

theorem frame_total (b : Bytes) (base : Nat) : ∃ a, frame b base = .ok a := ⟨_, frame_eq_pure b base⟩

theorem frameAll_cons_ok (b : Bytes) (bs : List Bytes) (base : Nat) (pks : List Pk)
    (h : frameAll (b :: bs) base = .ok pks) :
    ∃ a r, frame b base = .ok a ∧ frameAll bs (base + b.length) = .ok r ∧ pks = a ++ r := by
  unfold frameAll at h
  obtain ⟨a, h1, h⟩ := R.bind_eq_ok h
  obtain ⟨r, h2, h⟩ := R.bind_eq_ok h
  exact ⟨a, r, h1, h2, (R.ok_inj h).symm⟩

theorem frameAll_total : ∀ (bs : List Bytes) (base : Nat), ∃ pks, frameAll bs base = .ok pks := by
  intro bs
  induction bs with
  | nil => intro base; exact ⟨[], rfl⟩
  | cons b bs ih =>
    intro base
    obtain ⟨a, ha⟩ := frame_total b base
    obtain ⟨r, hr⟩ := ih (base + b.length)
    exact ⟨a ++ r, by unfold frameAll; rw [ha, R.ok_bind, hr, R.ok_bind]⟩

theorem frameAll_append : ∀ (a b : List Bytes) (base : Nat) (pa pb : List Pk),
    frameAll a base = .ok pa → frameAll b (base + (a.map List.length).sum) = .ok pb →
    frameAll (a ++ b) base = .ok (pa ++ pb) := by
  intro a
  induction a with
  | nil =>
    intro b base pa pb ha hb
    have := R.ok_inj ha
    subst this
    simpa using hb
  | cons x a ih =>
    intro b base pa pb ha hb
    obtain ⟨p1, r1, h1, h2, e⟩ := frameAll_cons_ok x a base pa ha
    subst e
    have hb' : frameAll b (base + x.length + (a.map List.length).sum) = .ok pb := by
      simpa [List.map_cons, List.sum_cons, Nat.add_assoc] using hb
    have := ih b (base + x.length) r1 pb h2 hb'
    show frameAll (x :: (a ++ b)) base = _
    unfold frameAll
    rw [h1, R.ok_bind, this, R.ok_bind, List.append_assoc]

/-- the packets of every single push are among the packets of all pushes -/
theorem frameAll_mem : ∀ (bs : List Bytes) (base : Nat) (pks : List Pk), frameAll bs base = .ok pks →
    ∀ b ∈ bs, ∃ base' a, frame b base' = .ok a ∧ ∀ pk ∈ a, pk ∈ pks := by
  intro bs
  induction bs with
  | nil => intro base pks _ b hb; cases hb
  | cons x bs ih =>
    intro base pks h b hb
    obtain ⟨a, r, h1, h2, e⟩ := frameAll_cons_ok x bs base pks h
    subst e
    rcases List.mem_cons.1 hb with rfl | hb
    · exact ⟨base, a, h1, fun pk hm => List.mem_append_left _ hm⟩
    · obtain ⟨base', a', h3, h4⟩ := ih _ r h2 b hb
      exact ⟨base', a', h3, fun pk hm => List.mem_append_right _ (h4 pk hm)⟩

theorem frameAll_len : ∀ (bs : List Bytes) (base : Nat) (pks : List Pk), frameAll bs base = .ok pks →
    ∀ pk ∈ pks, pk.bytes.length = 188 := by
  intro bs
  induction bs with
  | nil =>
    intro base pks h pk hm
    have := R.ok_inj h
    subst this
    cases hm
  | cons x bs ih =>
    intro base pks h pk hm
    obtain ⟨a, r, h1, h2, e⟩ := frameAll_cons_ok x bs base pks h
    subst e
    rcases List.mem_append.1 hm with hm | hm
    · exact (frame_pk_props x base a h1 pk hm).2.2.2.2.1
    · exact ih _ r h2 pk hm

theorem pushAll_append {H C : Type} (sem : Sem H C) (a b : List Bytes) : ∀ (tc : Tab H × C) (base : Nat),
    pushAll sem tc (a ++ b) base =
      (pushAll sem tc a base >>= fun tc' => pushAll sem tc' b (base + (a.map List.length).sum)) := by
  induction a with
  | nil =>
    intro tc base
    simp only [List.nil_append, pushAll, R.ok_bind, List.map_nil, List.sum_nil, Nat.add_zero]
  | cons x a ih =>
    intro tc base
    simp only [List.cons_append, pushAll, List.map_cons, List.sum_cons]
    cases push sem tc x base with
    | panic m => rfl
    | ok tc1 =>
      simp only [R.ok_bind]
      rw [ih tc1 (base + x.length), Nat.add_assoc]

/-! ### a section that fits one transport packet but is SPLIT over two -/

/-- PID 0, unit start, `pointer_field = 170`, 170 stuffing bytes, then the first 13 bytes of the
16-byte PAT v0 -/
def splitPkt1 : Bytes :=
  [0x47, 0x40, 0x00, 0x10, 0xaa] ++ List.replicate 170 0xff ++ patSecV0.take 13

/-- PID 0, continuation: the last 3 bytes of PAT v0, then stuffing -/
def splitPkt2 : Bytes :=
  [0x47, 0x00, 0x00, 0x11] ++ patSecV0.drop 13 ++ List.replicate 181 0xff

/-- the packetisation: 170 pointer bytes, 13 section bytes in the first payload, 3 in a continuation -/
def splitMux : Mux := ⟨List.replicate 170 0xff, 13, [], [patSecV0.drop 13 ++ List.replicate 181 0xff], []⟩

/-- the filter state between the two packets: 13 bytes buffered, 3 owed -/
def splitMid : Psi.St := { buf := patSecV0.take 13, remaining := some 3, lastVersion := some 0 }

theorem split_facts :
    splitPkt1.length = 188 ∧ splitPkt2.length = 188
    ∧ plOf splitPkt1 = some ⟨true, splitMux.first patSecV0, 4⟩
    ∧ plOf splitPkt2 = some ⟨false, patSecV0.drop 13 ++ List.replicate 181 0xff, 4⟩
    ∧ WellFormedSection .syntax patSecV0 ∧ patSecV0.length = 16
    ∧ WellFormedMux .syntax patSecV0 splitMux
    ∧ WellFormedMux .syntax patSecV0 (Ts.Lemmas.C10.muxOf patSecV0) := by decide +kernel

/-- the `Psi.table` chain (PAT/PMT filters) and the raw section-syntax chain on the two packets, from
a fresh state: nothing after the first packet, the whole section — flagged NOT in place — after the
second -/
theorem split_consume :
    Psi.consume Psi.table {} splitPkt1 = .ok (splitMid, [])
    ∧ Psi.consume Psi.table splitMid splitPkt2
        = .ok ({ buf := patSecV0, remaining := none, lastVersion := some 0 }, [⟨patSecV0, none⟩])
    ∧ Psi.consume Psi.rawSection {} splitPkt1 = .ok ({ splitMid with lastVersion := none }, [])
    ∧ Psi.consume Psi.rawSection { splitMid with lastVersion := none } splitPkt2
        = .ok ({ buf := patSecV0, remaining := none }, [⟨patSecV0, none⟩]) := by decide +kernel

end Ts.Lemmas.C19d
