import Ts.Lemmas.C05H
import Ts.Props.C05
/-!
# C05 over whole histories — helper lemmas, part 2: the simulation

* `SlotRel`, `Sim`: the relation between the abstract routing state (`Spec.RoutingHistory.Route`) and
  the dispatcher's table + application context
* `sim_pat`, `sim_pmt`, `sim_es`, `sim_rep`: one event = the table change of its packets
* `sim_run`: induction over histories; `sim_init`
-/
namespace Ts.Lemmas.C05H
open Ts Ts.Tables Ts.App Ts.Demux Ts.Spec Ts.Spec.TableSpec Ts.Spec.Routing Ts.Spec.RoutingHistory
open Ts.Spec.SectionMux Ts.Lemmas.C03 Ts.Lemmas.C10 Ts.Lemmas.C05 Ts.Lemmas.C05Run

/-! ### projections of `stepRoute` -/

theorem stepRoute_pat_slots (r : Route) (ver : Nat) (es : List PatEntry) :
    (stepRoute r (.patApplied ver es)).slots =
      applied r.slots (tagged r.reqs.length (patRequests es)) (r.patEntries.map PatEntry.pid) := rfl

theorem stepRoute_pat_pmt (r : Route) (ver : Nat) (es : List PatEntry) (p : Nat) :
    (stepRoute r (.patApplied ver es)).pmt p =
      match lastFor (tagged r.reqs.length (patRequests es)) p with
      | some (.pmt _ _, tag) => ⟨tag, none, []⟩
      | _ => r.pmt p := rfl

theorem stepRoute_pat_reqs (r : Route) (ver : Nat) (es : List PatEntry) :
    (stepRoute r (.patApplied ver es)).reqs = r.reqs ++ (patRequests es).map (·.2) := rfl

theorem stepRoute_pmt_slots (r : Route) (p ver : Nat) (body : Bytes) :
    (stepRoute r (.pmtApplied p ver body)).slots =
      applied r.slots (tagged r.reqs.length (pmtReqs p body)) ((r.pmt p).streams.map StreamInfo.pid) := rfl

theorem stepRoute_pmt_pmt (r : Route) (p ver : Nat) (body : Bytes) (q : Nat) :
    (stepRoute r (.pmtApplied p ver body)).pmt q =
      if q = p then { r.pmt p with ver := some ver, streams := streamsOf body } else r.pmt q := rfl

theorem stepRoute_pmt_reqs (r : Route) (p ver : Nat) (body : Bytes) :
    (stepRoute r (.pmtApplied p ver body)).reqs = r.reqs ++ (pmtReqs p body).map (·.2) := rfl

theorem stepRoute_reqs (r : Route) (ev : Event) : (stepRoute r ev).reqs = r.reqs ++ eventRequests r ev := by
  cases ev with
  | patApplied ver es => rfl
  | pmtApplied p ver body => rfl
  | esPacket p =>
    simp only [stepRoute, eventRequests]
    cases r.slots p <;> simp
  | repetition p => simp [stepRoute, eventRequests]

theorem run_reqs : ∀ (evs : List Event) (r : Route), (run r evs).reqs = r.reqs ++ historyRequests r evs := by
  intro evs
  induction evs with
  | nil => intro r; simp [run, historyRequests]
  | cons ev evs ih =>
    intro r
    show (run (stepRoute r ev) evs).reqs = _
    rw [ih, stepRoute_reqs, historyRequests, List.append_assoc]

theorem run_cons (r : Route) (ev : Event) (evs : List Event) : run r (ev :: evs) = run (stepRoute r ev) evs := rfl

theorem run_append (r : Route) (a b : List Event) : run r (a ++ b) = run (run r a) b := by
  unfold run; rw [List.foldl_append]

/-! ### which kind of handler a PID is routed to -/

theorem patRouted_iff (r : Route) : patRouted r = true ↔ ∃ tag, r.slots 0 = some (.byPid 0, tag) := by
  unfold patRouted
  split
  · rename_i tag h; exact ⟨fun _ => ⟨tag, h⟩, fun _ => rfl⟩
  · rename_i h
    constructor
    · intro h'; cases h'
    · rintro ⟨tag, h'⟩; exact absurd h' (h tag)

theorem pmtRouted_iff (r : Route) (p : Nat) :
    pmtRouted r p = true ↔ ∃ prog tag, r.slots p = some (.pmt p prog, tag) := by
  unfold pmtRouted
  split
  · rename_i q prog tag h
    constructor
    · intro e
      have : q = p := by simpa using e
      subst this
      exact ⟨prog, tag, h⟩
    · rintro ⟨prog', tag', h'⟩
      rw [h] at h'
      cases h'
      simp
  · rename_i h
    constructor
    · intro h'; cases h'
    · rintro ⟨prog, tag, h'⟩; exact absurd h' (h p prog tag)

/-! ### the simulation relation -/

structure Sim (r : Route) (t : Tab Handler) (c : Ctx) : Prop where
  script : c.cfg.script = []
  tag : c.nextTag = r.reqs.length
  log : constructs c = r.reqs.zipIdx
  slots : ∀ p, SlotRel r p (r.slots p) (t.get p)
  pat0 : ∀ e ∈ r.patEntries, e.pid ≠ 0
  pmtSelf : ∀ p, ∀ s ∈ (r.pmt p).streams, s.pid ≠ p

/-- the relation of one slot depends on the abstract state only through the PAT instance (slot 0)
and the PMT instance of that slot -/
theorem slotRel_congr {r r' : Route} {p : Nat} {a : Option (Req × Nat)} {o : Option Handler}
    (h : SlotRel r p a o)
    (hpat : p = 0 → r'.patEntries = r.patEntries ∧ r'.patVersion = r.patVersion)
    (hpmt : r'.pmt p = r.pmt p) : SlotRel r' p a o := by
  rcases a with _ | ⟨req, tag⟩
  · exact h
  · rcases req with (_ | n) | ⟨a, b⟩ | x | ⟨pp, st, q, pcr, d1, d2⟩
    · simp only [SlotRel] at h ⊢
      obtain ⟨h0, s, hs, hi⟩ := h
      obtain ⟨e1, e2⟩ := hpat h0
      exact ⟨h0, s, by rw [e1]; exact hs, by rw [e2]; exact hi⟩
    · exact h
    · simp only [SlotRel] at h ⊢
      rw [hpmt]; exact h
    · exact h
    · exact h

/-- a freshly built handler satisfies the relation of its request -/
theorem slotRel_fresh (r : Route) (p : Nat) (req : Req) (tag : Nat) (h0 : req ≠ .byPid 0)
    (hpmt : ∀ a b, req = .pmt a b → (r.pmt p).ver = none ∧ (r.pmt p).streams = []) :
    SlotRel r p (some (req, tag)) (some (handlerFor req tag)) := by
  rcases req with (_ | n) | ⟨a, b⟩ | x | ⟨pp, st, q, pcr, d1, d2⟩
  · exact absurd rfl h0
  · rfl
  · obtain ⟨e1, e2⟩ := hpmt a b rfl
    simp only [SlotRel, handlerFor]
    exact ⟨{}, by rw [e2]; rfl, by rw [e1]; exact ⟨rfl, rfl⟩⟩
  · rfl
  · simp only [SlotRel, handlerFor]
    by_cases hp : isPes st = true
    · simp only [hp, if_true]; exact ⟨{}, rfl⟩
    · have hp' : isPes st = false := by simpa using hp
      simp [hp']

theorem applied_untouched {α : Type} (f : Nat → Option α) (listed : List (Nat × α)) (reg : List Nat) (p : Nat)
    (h1 : p ∉ listed.map (·.1)) (h2 : p ∉ reg) : applied f listed reg p = f p := by
  unfold applied
  rw [(lastFor_none_iff listed p).2 h1]
  simp only
  rw [if_neg (fun h => h2 h.2.1)]

/-- the slots other than the table handler's own, after one table is applied -/
theorem slots_after_table (r r' : Route) (t t' : Tab Handler) (n : Nat) (reqs : List (Nat × Req))
    (reg : List Nat) (q : Nat)
    (hs' : r'.slots q = applied r.slots (tagged n reqs) reg q)
    (ht' : t'.get q = applied t.get (built n reqs) reg q)
    (hold : SlotRel r q (r.slots q) (t.get q))
    (hnew : ∀ req tag, lastFor (tagged n reqs) q = some (req, tag) →
      SlotRel r' q (some (req, tag)) (some (handlerFor req tag)))
    (hkeep : lastFor (tagged n reqs) q = none → ∀ a o, SlotRel r q a o → SlotRel r' q a o) :
    SlotRel r' q (r'.slots q) (t'.get q) := by
  rw [hs', ht', built_eq_tagged]
  unfold applied
  rw [lastFor_map (fun x : Req × Nat => handlerFor x.1 x.2)]
  have hp : ((tagged n reqs).map fun x => (x.1, handlerFor x.2.1 x.2.2)).map (·.1) = (tagged n reqs).map (·.1) := by
    rw [List.map_map]; rfl
  rw [hp]
  cases hl : lastFor (tagged n reqs) q with
  | some x =>
    obtain ⟨req, tag⟩ := x
    exact hnew req tag hl
  | none =>
    simp only [Option.map_none]
    by_cases ho : Outdated reg ((tagged n reqs).map (·.1)) q
    · rw [if_pos ho, if_pos ho]; rfl
    · rw [if_neg ho, if_neg ho]; exact hkeep hl _ _ hold

/-- replacing the handler of one slot by one satisfying the same relation, in a context that made
no request -/
theorem sim_update (r : Route) (t t' : Tab Handler) (c c' : Ctx) (p : Nat) (hsim : Sim r t c)
    (hcfg : c'.cfg = c.cfg) (htag : c'.nextTag = c.nextTag) (hlog : constructs c' = constructs c)
    (hp : SlotRel r p (r.slots p) (t'.get p)) (hq : ∀ q, q ≠ p → t'.get q = t.get q) : Sim r t' c' :=
  { script := by rw [hcfg]; exact hsim.script
    tag := by rw [htag]; exact hsim.tag
    log := by rw [hlog]; exact hsim.log
    slots := fun q => by
      by_cases e : q = p
      · subst e; exact hp
      · rw [hq q e]; exact hsim.slots q
    pat0 := hsim.pat0
    pmtSelf := hsim.pmtSelf }

/-! ### a PAT version -/

theorem sim_pat (r : Route) (t : Tab Handler) (c : Ctx) (ver : Nat) (es : List PatEntry) (pks : List Pk)
    (hsim : Sim r t c) (hwf : wfEv r (.patApplied ver es)) (hre : RealisesEv r (.patApplied ver es) pks) :
    ∃ t' c', pushSpec App.sem (t, c) pks = .ok (t', c') ∧ Sim (stepRoute r (.patApplied ver es)) t' c' := by
  obtain ⟨hrouted, hver, hes⟩ := hwf
  obtain ⟨tag0, hslot0⟩ := (patRouted_iff r).1 hrouted
  have h0 := hsim.slots 0
  rw [hslot0] at h0
  obtain ⟨-, s, ht0, hidle⟩ := h0
  obtain ⟨S, htx, htid, hv, hpat⟩ := hre
  subst hv hpat
  obtain ⟨m, off, rest, hm, hview, hus, hrest⟩ := htx.mux
  have hvne : s.lastVersion ≠ some (versionOf S) := by rw [hidle.1]; exact hver
  obtain ⟨sfin, hq, hall⟩ := Ts.Props.C11.damage_then_new_version_applied_partial_pat S htx.wf htx.len
    htx.crc m hm s (psiInv_of_none _ _ hidle.2) hvne (r.patEntries.map PatEntry.pid) c pks
    (fun pk hm => (htx.pkts pk hm).2.2) off rest hview hus hrest
  rw [preSpec_idle _ _ _ hidle.2] at hall
  simp only [runDeliveries, R.ok_bind, patSection_tid0 c _ S htx.len htid, List.nil_append] at hall
  -- the queue does not touch PID 0
  have hno : ∀ ch ∈ patChanges c (r.patEntries.map PatEntry.pid) (sectionBody S), ch.pid ≠ 0 := by
    intro ch hch
    unfold patChanges at hch
    rcases List.mem_append.1 hch with h | h
    · obtain ⟨x, hx, rfl⟩ := List.mem_map.1 h
      have : x.1 ∈ (built c.nextTag (patRequests (specPat (sectionBody S)))).map (·.1) :=
        List.mem_map.2 ⟨x, hx, rfl⟩
      rw [built_pids, patRequests_pids] at this
      obtain ⟨e, he, hep⟩ := List.mem_map.1 this
      show x.1 ≠ 0
      rw [← hep]; exact (hes e he).2
    · obtain ⟨q, hq', rfl⟩ := List.mem_map.1 h
      have := ((mem_outdated _ _ _).1 hq').2.1
      obtain ⟨e, he, hep⟩ := List.mem_map.1 this
      show q ≠ 0
      rw [← hep]; exact hsim.pat0 e he
  obtain ⟨t', hrun, hg0, hother⟩ := pushSpec_same_pid 0 pks t c _ _ _ _
    (fun pk hm => ⟨(htx.pkts pk hm).1, (htx.pkts pk hm).2.1⟩) ht0 hall hno
  refine ⟨t', _, hrun, ?_⟩
  have hzero : (0 : Nat) ∉ (patRequests (specPat (sectionBody S))).map (·.1) := by
    rw [patRequests_pids]
    intro hm
    obtain ⟨e, he, hep⟩ := List.mem_map.1 hm
    exact (hes e he).2 hep
  refine { script := hsim.script, tag := ?_, log := ?_, slots := ?_, pat0 := fun e he => (hes e he).2,
           pmtSelf := ?_ }
  · rw [stepRoute_pat_reqs]
    simp only [ctxAfter, List.length_append, List.length_map]
    rw [hsim.tag]
  · rw [stepRoute_pat_reqs, constructs_ctxAfter, hsim.log, hsim.tag, zipIdx_snoc]
  · intro q
    by_cases hq0 : q = 0
    · subst hq0
      rw [stepRoute_pat_slots, applied_untouched _ _ _ _ (by rw [tagged_pids]; exact hzero)
        (fun hm => by obtain ⟨e, he, hep⟩ := List.mem_map.1 hm; exact hsim.pat0 e he hep), hslot0, hg0]
      exact ⟨rfl, sfin, rfl, hq⟩
    · refine slots_after_table r _ t t' r.reqs.length (patRequests (specPat (sectionBody S)))
        (r.patEntries.map PatEntry.pid) q (by rw [stepRoute_pat_slots]) ?_ (hsim.slots q) ?_ ?_
      · rw [hother q hq0, ← hsim.tag]
        exact (Ts.Props.C05.routing_after_pat t c _ (sectionBody S)).1 q
      · intro req tag hl
        have hmem := (tagged_mem _ _ _ _ _ (lastFor_mem _ _ _ hl)).1
        unfold patRequests at hmem
        obtain ⟨e, -, hee⟩ := List.mem_map.1 hmem
        simp only [Prod.mk.injEq] at hee
        obtain ⟨-, rfl⟩ := hee
        apply slotRel_fresh
        · cases e <;> simp [patRequest]
        · intro a b hab
          rw [stepRoute_pat_pmt, hl, hab]
          exact ⟨rfl, rfl⟩
      · intro hl a o hrel
        refine slotRel_congr hrel (fun e => absurd e hq0) ?_
        rw [stepRoute_pat_pmt, hl]
  · intro p st hst
    rw [stepRoute_pat_pmt] at hst
    split at hst
    · cases hst
    · exact hsim.pmtSelf p st hst

/-! ### a PMT version -/

theorem pmtReqs_pids (p : Nat) (body : Bytes) :
    (pmtReqs p body).map (·.1) = (streamsOf body).map StreamInfo.pid := pmtRequests_pids _ _ _ _

theorem sim_pmt (r : Route) (t : Tab Handler) (c : Ctx) (p ver : Nat) (body : Bytes) (pks : List Pk)
    (hsim : Sim r t c) (hwf : wfEv r (.pmtApplied p ver body))
    (hre : RealisesEv r (.pmtApplied p ver body) pks) :
    ∃ t' c', pushSpec App.sem (t, c) pks = .ok (t', c') ∧ Sim (stepRoute r (.pmtApplied p ver body)) t' c' := by
  obtain ⟨hrouted, hver, hss⟩ := hwf
  obtain ⟨prog, tag0, hslotp⟩ := (pmtRouted_iff r p).1 hrouted
  have h0 := hsim.slots p
  rw [hslotp] at h0
  obtain ⟨s, htp, hidle⟩ := h0
  obtain ⟨S, htx, htid, hv, hbody, hacc⟩ := hre
  subst hv hbody
  obtain ⟨m, off, rest, hm, hview, hus, hrest⟩ := htx.mux
  have hvne : s.lastVersion ≠ some (versionOf S) := by rw [hidle.1]; exact hver
  obtain ⟨sfin, hq, hall⟩ := Ts.Props.C11.damage_then_new_version_applied_partial_pmt p prog S htx.wf htx.len
    htx.crc m hm s (psiInv_of_none _ _ hidle.2) hvne ((r.pmt p).streams.map StreamInfo.pid) c pks
    (fun pk hm => (htx.pkts pk hm).2.2) off rest hview hus hrest
  rw [preSpec_idle _ _ _ hidle.2] at hall
  simp only [runDeliveries, R.ok_bind, pmtSection_tid2 c p _ S htx.len hacc htid, List.nil_append] at hall
  have hno : ∀ ch ∈ pmtChanges c p ((r.pmt p).streams.map StreamInfo.pid) (sectionBody S), ch.pid ≠ p := by
    intro ch hch
    unfold pmtChanges at hch
    rcases List.mem_append.1 hch with h | h
    · obtain ⟨x, hx, rfl⟩ := List.mem_map.1 h
      have : x.1 ∈ (built c.nextTag (pmtReqs p (sectionBody S))).map (·.1) := List.mem_map.2 ⟨x, hx, rfl⟩
      rw [built_pids, pmtReqs_pids] at this
      obtain ⟨e, he, hep⟩ := List.mem_map.1 this
      show x.1 ≠ p
      rw [← hep]; exact (hss e he).2
    · obtain ⟨q, hq', rfl⟩ := List.mem_map.1 h
      have := ((mem_outdated _ _ _).1 hq').2.1
      obtain ⟨e, he, hep⟩ := List.mem_map.1 this
      show q ≠ p
      rw [← hep]; exact hsim.pmtSelf p e he
  obtain ⟨t', hrun, hgp, hother⟩ := pushSpec_same_pid p pks t c _ _ _ _
    (fun pk hm => ⟨(htx.pkts pk hm).1, (htx.pkts pk hm).2.1⟩) htp hall hno
  refine ⟨t', _, hrun, ?_⟩
  have hself : p ∉ (pmtReqs p (sectionBody S)).map (·.1) := by
    rw [pmtReqs_pids]
    intro hm
    obtain ⟨e, he, hep⟩ := List.mem_map.1 hm
    exact (hss e he).2 hep
  refine { script := hsim.script, tag := ?_, log := ?_, slots := ?_, pat0 := hsim.pat0, pmtSelf := ?_ }
  · rw [stepRoute_pmt_reqs]
    simp only [ctxAfter, List.length_append, List.length_map]
    rw [hsim.tag]; rfl
  · rw [stepRoute_pmt_reqs]
    show constructs (ctxAfter c (pmtReqs p (sectionBody S))) = _
    rw [constructs_ctxAfter, hsim.log, hsim.tag, zipIdx_snoc]
  · intro q
    by_cases hqp : q = p
    · subst hqp
      rw [stepRoute_pmt_slots, applied_untouched _ _ _ _ (by rw [tagged_pids]; exact hself)
        (fun hm => by obtain ⟨e, he, hep⟩ := List.mem_map.1 hm; exact hsim.pmtSelf q e he hep), hslotp, hgp]
      refine ⟨sfin, ?_, ?_⟩
      · rw [stepRoute_pmt_pmt, if_pos rfl]
      · rw [stepRoute_pmt_pmt, if_pos rfl]; exact hq
    · refine slots_after_table r _ t t' r.reqs.length (pmtReqs p (sectionBody S))
        ((r.pmt p).streams.map StreamInfo.pid) q (by rw [stepRoute_pmt_slots]) ?_ (hsim.slots q) ?_ ?_
      · rw [hother q hqp, ← hsim.tag]
        exact (Ts.Props.C05.routing_after_pmt t c p _ (sectionBody S)).1 q
      · intro req tag hl
        have hmem := (tagged_mem _ _ _ _ _ (lastFor_mem _ _ _ hl)).1
        unfold pmtReqs pmtRequests at hmem
        obtain ⟨e, -, hee⟩ := List.mem_map.1 hmem
        simp only [Prod.mk.injEq] at hee
        obtain ⟨-, rfl⟩ := hee
        apply slotRel_fresh
        · simp [streamRequest]
        · intro a b hab; simp [streamRequest] at hab
      · intro hl a o hrel
        refine slotRel_congr hrel (fun _ => ⟨rfl, rfl⟩) ?_
        rw [stepRoute_pmt_pmt, if_neg hqp]
  · intro q st hst
    rw [stepRoute_pmt_pmt] at hst
    by_cases hqp : q = p
    · rw [if_pos hqp] at hst
      rw [hqp]; exact (hss st hst).2
    · rw [if_neg hqp] at hst
      exact hsim.pmtSelf q st hst

end Ts.Lemmas.C05H
