import Ts.Spec.PesMux
import Ts.Lemmas.C08
import Ts.Lemmas.C15
import Ts.Props.C14
import Ts.Props.C15
import Ts.Model.App
/-!
# Helper lemmas for C02 (PES payload conservation), part 1

1. the plan's view of a transport packet (`tpPayload`, … of `Ts/Spec/PesMux.lean`) is the packet
   summary of C08, so `PesFilter.consume` on a plan packet is `stepOf` with known inputs;
2. induction over the continuation packets (`conts_run`), one plan (`plan_runPure`), a stream of
   plans (`stream_runPure`);
3. the shape of `encodePes` and what the decoder (`Pes.*`, `App.beginInfo`) reads from it
   (`beginInfo_of_take`), reusing C14 (`contents_kind`, `parsed_accept_iff`,
   `pes_fields_exact_accepted`, `packet_length_exact`) and C15 (`ts_roundtrip`).
-/
namespace Ts.Lemmas.C02
open Ts Ts.Packet Ts.PesFilter Ts.Spec Ts.Spec.PesMux Ts.Lemmas.C08 Ts.Props.C12

/-! ### the plan's view of a transport packet = the packet summary of C08 -/

theorem tpPusi_eq (p : Bytes) : tpPusi p = usOf p := rfl
theorem tpCc_eq (p : Bytes) : tpCc p = ccOf p := rfl
theorem tpPayloadFlag_eq (p : Bytes) : tpPayloadFlag p = hpOf p := (hpOf_eq p).symm

theorem tpPayload_eq (p : Bytes) : tpPayload p = payOf p := by
  unfold tpPayload payOf tpAfFlag tpPayloadFlag tpAfLen
  have h : readBits p 32 8 = byteD p 4 := readBits_byte p 4
  rw [(afc_exact p).1, (afc_exact p).2, h]

theorem payOf_some_hp {p : Bytes} {r : Nat × Nat} (h : payOf p = some r) : hpOf p = true := by
  unfold payOf at h; unfold hpOf
  cases h1 : hasAf (byteD p 3) <;> cases h2 : hasPayload (byteD p 3) <;> simp [h1, h2, splitSpec] at h ⊢

theorem payOf_none_of_hp {p : Bytes} (h : hpOf p = false) : payOf p = none := by
  unfold hpOf at h; unfold payOf
  cases h1 : hasAf (byteD p 3) <;> simp [h, splitSpec]

theorem continuous_first (fc : Option Nat) (n : Nat) (h : ∀ c ∈ fc, n = (c + 1) % 16) :
    continuous fc true n = true := by
  cases fc with
  | none => rfl
  | some c =>
    simp only [continuous, if_true]
    exact (follows_iff n c).mpr (h c rfl)

/-- the packet that starts a PES packet -/
theorem stepOf_first (f : F) (p : Bytes) (o l : Nat)
    (hus : usOf p = true) (hpay : payOf p = some (o, l)) (hhdr : hdrOk (rangeBytes p (o, l)) = true)
    (hcc : ∀ c ∈ f.cc, ccOf p = (c + 1) % 16) :
    stepOf f p = (⟨some (ccOf p), .started⟩, openEvs f.st ++ [Ev.beginPkt o l]) := by
  have hhp := payOf_some_hp hpay
  have hcont := continuous_first f.cc (ccOf p) hcc
  have hdr : hdrOf p = true := by unfold hdrOf; rw [hpay]; exact hhdr
  rcases f with ⟨fc, st⟩
  unfold stepOf stepPure
  simp only [hhp, hcont, hus, hpay, hdr]
  cases st <;> rfl

theorem stepOf_cont_payload (c : Nat) (p : Bytes) (o l : Nat)
    (hus : usOf p = false) (hpay : payOf p = some (o, l)) (hcc : ccOf p = (c + 1) % 16) :
    stepOf ⟨some c, .started⟩ p = (⟨some (ccOf p), .started⟩, [Ev.cont o l]) := by
  have hhp := payOf_some_hp hpay
  have hcont := continuous_first (some c) (ccOf p) (fun c' h => by cases h; exact hcc)
  have hl : (l != 0) = true := by have := (payOf_sound hpay).1; simp; omega
  unfold stepOf stepPure
  simp only [hhp, hcont, hus, hpay, hl]
  rfl

theorem stepOf_cont_nopayload (c : Nat) (p : Bytes)
    (hus : usOf p = false) (hhp : hpOf p = false) (hcc : ccOf p = c) :
    stepOf ⟨some c, .started⟩ p = (⟨some c, .started⟩, []) := by
  subst hcc
  have hpay := payOf_none_of_hp hhp
  have hcont : continuous (some (ccOf p)) false (ccOf p) = true := by simp [continuous]
  unfold stepOf stepPure
  simp only [hhp, hcont, hus, hpay]
  rfl
/-! ### the continuation packets -/

/-- counter of the last packet of a list, `c` if there is none -/
def lastCcL (c : Nat) : List Bytes → Nat
  | [] => c
  | p :: ps => lastCcL (tpCc p) ps

theorem getLast_cc (ps : List Bytes) : ∀ (a : Bytes) (h : a :: ps ≠ []),
    tpCc ((a :: ps).getLast h) = lastCcL (tpCc a) ps := by
  induction ps with
  | nil => intro a h; rfl
  | cons q qs ih =>
    intro a h
    simp only [List.getLast_cons_cons, lastCcL]
    exact ih q _

theorem lastCc_eq (pl : Plan) : pl.lastCc = lastCcL (tpCc pl.first) pl.conts :=
  getLast_cc pl.conts pl.first _

theorem tpPayloadBytes_of_some {p : Bytes} {r : Nat × Nat} (h : tpPayload p = some r) :
    tpPayloadBytes p = rangeBytes p r := by
  unfold tpPayloadBytes; rw [h]

theorem tpPayloadBytes_of_none {p : Bytes} (h : tpPayload p = none) : tpPayloadBytes p = [] := by
  unfold tpPayloadBytes; rw [h]

theorem contEvs_bytes (p : Bytes) : ((contEvs p).map (evBytes p)).flatten = tpPayloadBytes p := by
  unfold contEvs tpPayloadBytes
  rcases tpPayload p with _ | ⟨o, l⟩ <;> simp [evBytes]

theorem delivered_conts (ps : List Bytes) :
    delivered ps (ps.map contEvs) = (ps.map tpPayloadBytes).flatten := by
  induction ps with
  | nil => rfl
  | cons p ps ih => simp only [List.map_cons, delivered, contEvs_bytes, ih, List.flatten_cons]

/-- running the filter over well-formed continuation packets: per packet exactly `contEvs`, no
continuity error, still `started`, counter of the last packet; the slices concatenate to `rest` -/
theorem conts_run (ps : List Bytes) : ∀ (rest : Bytes) (c : Nat), Conts rest c ps →
    runPure ⟨some c, .started⟩ ps = (⟨some (lastCcL c ps), .started⟩, ps.map contEvs)
    ∧ (ps.map tpPayloadBytes).flatten = rest ∧ (∀ p ∈ ps, p.length = 188) := by
  induction ps with
  | nil =>
    intro rest c h
    simp only [Conts] at h
    subst h
    exact ⟨rfl, rfl, by simp⟩
  | cons p ps ih =>
    intro rest c h
    simp only [Conts] at h
    obtain ⟨h188, hus, hcase⟩ := h
    rw [tpPusi_eq] at hus
    rcases hcase with ⟨hsome, hsl, hcc, hrest⟩ | ⟨hpf, _, hcc, hrest⟩
    · obtain ⟨⟨o, l⟩, hr⟩ := Option.isSome_iff_exists.1 hsome
      have hpay : payOf p = some (o, l) := by rw [← tpPayload_eq]; exact hr
      obtain ⟨ih1, ih2, ih3⟩ := ih _ _ hrest
      have hstep := stepOf_cont_payload c p o l hus hpay hcc
      refine ⟨?_, ?_, ?_⟩
      · simp only [runPure, hstep, List.map_cons, lastCcL]
        rw [← tpCc_eq, ih1]
        simp only [contEvs, hr]
      · simp only [List.map_cons, List.flatten_cons, ih2]
        have e := List.take_append_drop (tpPayloadBytes p).length rest
        rw [← hsl] at e
        exact e
      · intro q hq
        rcases List.mem_cons.1 hq with e | e
        · rw [e]; exact h188
        · exact ih3 q e
    · rw [tpPayloadFlag_eq] at hpf
      have hpay : tpPayload p = none := by rw [tpPayload_eq]; exact payOf_none_of_hp hpf
      obtain ⟨ih1, ih2, ih3⟩ := ih _ _ hrest
      have hstep := stepOf_cont_nopayload c p hus hpf hcc
      refine ⟨?_, ?_, ?_⟩
      · simp only [runPure, hstep, List.map_cons, lastCcL]
        rw [hcc, ih1]
        simp only [contEvs, hpay]
      · simp only [List.map_cons, List.flatten_cons, ih2, tpPayloadBytes_of_none hpay, List.nil_append]
      · intro q hq
        rcases List.mem_cons.1 hq with e | e
        · rw [e]; exact h188
        · exact ih3 q e
/-! ### the shape of `encodePes` -/

theorem fixed6_length (pk : PesPkt) : pk.fixed6.length = 6 := rfl

theorem encodePes_length (pk : PesPkt) :
    (encodePes pk).length = headerLen pk + pk.payload.length := by
  unfold encodePes headerLen
  simp only [List.length_append, fixed6_length]
  omega

/-- the first `k` bytes, when the header is inside: the whole header, then payload bytes -/
theorem take_encode (pk : PesPkt) (k : Nat) (hk : headerLen pk ≤ k) :
    (encodePes pk).take k = pk.fixed6 ++ (pk.optHeader ++ pk.payload.take (k - headerLen pk)) := by
  unfold encodePes headerLen at *
  rw [List.take_append, List.take_of_length_le (by rw [fixed6_length]; omega),
    List.take_append, List.take_of_length_le (by rw [fixed6_length]; omega), fixed6_length,
    Nat.sub_sub]

theorem drop_encode (pk : PesPkt) (k : Nat) (hk : headerLen pk ≤ k) :
    (encodePes pk).drop k = pk.payload.drop (k - headerLen pk) := by
  unfold encodePes headerLen at *
  rw [List.drop_append, List.drop_of_length_le (by rw [fixed6_length]; omega),
    List.drop_append, List.drop_of_length_le (by rw [fixed6_length]; omega), fixed6_length,
    Nat.sub_sub]
  rfl

open Ts.Lemmas.C15 in
theorem hdrOk_fixed6 (pk : PesPkt) (x : Bytes) : hdrOk (pk.fixed6 ++ x) = true := by
  rw [hdrOk_iff]
  refine ⟨by simp [fixed6_length], ?_, ?_, ?_⟩
  · exact byteD_cons_zero _ _
  · show byteD (_ :: _ :: _) 1 = 0
    rw [byteD_cons_succ, byteD_cons_zero]; rfl
  · show byteD (_ :: _ :: _ :: _) 2 = 1
    rw [byteD_cons_succ, byteD_cons_succ, byteD_cons_zero]; rfl

/-! ### one plan -/

/-- the facts about the first packet of a well-formed plan, in the vocabulary of C08 -/
theorem first_facts (pes : PesPkt) (pl : Plan) (h : WellFormedPlan pes pl) :
    ∃ o l, tpPayload pl.first = some (o, l) ∧ payOf pl.first = some (o, l) ∧ pl.k = l
      ∧ o + l = 188 ∧ rangeBytes pl.first (o, l) = (encodePes pes).take l ∧ headerLen pes ≤ l
      ∧ l ≤ (encodePes pes).length := by
  obtain ⟨h188, _, hsome, hbytes, hk, _⟩ := h
  obtain ⟨⟨o, l⟩, hr⟩ := Option.isSome_iff_exists.1 hsome
  have hpay : payOf pl.first = some (o, l) := by rw [← tpPayload_eq]; exact hr
  have hs := payOf_sound hpay
  have hb : tpPayloadBytes pl.first = rangeBytes pl.first (o, l) := tpPayloadBytes_of_some hr
  have hlen : (rangeBytes pl.first (o, l)).length = l := by
    simp only [rangeBytes, List.length_take, List.length_drop]; omega
  have hkl : pl.k = l := by unfold Plan.k; rw [hb, hlen]
  rw [hkl] at hk hbytes
  rw [hb] at hbytes
  refine ⟨o, l, hr, hpay, hkl, hs.2.1, hbytes, hk, ?_⟩
  have := congrArg List.length hbytes
  rw [hlen, List.length_take] at this
  omega

/-- MAIN LEMMA: the pure run over one well-formed plan -/
theorem plan_runPure (pes : PesPkt) (pl : Plan) (f : F) (h : WellFormedPlan pes pl)
    (hcc : ∀ c ∈ f.cc, tpCc pl.first = (c + 1) % 16) :
    runPure f pl.packets = (⟨some pl.lastCc, .started⟩, planEvs f.st pl)
    ∧ (∀ p ∈ pl.packets, p.length = 188)
    ∧ delivered pl.packets (planEvs f.st pl) = encodePes pes := by
  obtain ⟨o, l, hr, hpay, hkl, hol, hbytes, hk, hle⟩ := first_facts pes pl h
  obtain ⟨h188, hus, _, _, _, hconts⟩ := h
  rw [hkl] at hconts
  rw [tpPusi_eq] at hus
  have hhdr : hdrOk (rangeBytes pl.first (o, l)) = true := by
    rw [hbytes, take_encode pes l hk]; exact hdrOk_fixed6 _ _
  have hstep := stepOf_first f pl.first o l hus hpay hhdr hcc
  obtain ⟨c1, c2, c3⟩ := conts_run pl.conts _ _ hconts
  have hfe : firstEvs f.st pl.first = openEvs f.st ++ [Ev.beginPkt o l] := by
    unfold firstEvs; rw [hr]
  refine ⟨?_, ?_, ?_⟩
  · simp only [Plan.packets, runPure, hstep, planEvs, hfe]
    rw [← tpCc_eq, c1, lastCc_eq]
  · intro p hp
    rcases List.mem_cons.1 hp with e | e
    · rw [e]; exact h188
    · exact c3 p e
  · simp only [Plan.packets, planEvs, delivered, hfe, delivered_conts, c2]
    have : ((openEvs f.st ++ [Ev.beginPkt o l]).map (evBytes pl.first)).flatten
        = rangeBytes pl.first (o, l) := by
      cases f.st <;> simp [openEvs, evBytes]
    rw [this, hbytes]
    exact List.take_append_drop _ _
/-! ### the optional header, as the decoder sees it -/

open Ts.Lemmas.C15 (byteD_cons_zero byteD_cons_succ)
open Ts.Lemmas.C14 (ptsDtsSize curExt flagsOfByte)
open Ts.Spec.PesSpec (parsedAccepted)
open Ts.Spec.TimeSpec (encodeTs)

theorem ofNat_toNat (n : Nat) (h : n < 256) : (UInt8.ofNat n).toNat = n := by
  rw [UInt8.toNat_ofNat']; omega

/-- where the fixed-size optional fields end, for every flags byte the encoder can produce -/
theorem tbl_curExt : ∀ pd : Fin 4, ∀ fl : Fin 64,
    curExt (flagsOfByte (pd.val * 64 + fl.val)) = 3 + ptsDtsSize pd.val + optFieldsLen fl.val := by
  decide +kernel

theorem tsBytes_length (pk : PesPkt) : pk.tsBytes.length = ptsDtsSize pk.ptsDtsFlags := by
  unfold PesPkt.tsBytes PesPkt.ptsDtsFlags
  rcases pk.pts with _ | p <;> rcases pk.dts with _ | d <;> rfl

theorem ptsDtsFlags_lt (pk : PesPkt) : pk.ptsDtsFlags < 4 := by
  unfold PesPkt.ptsDtsFlags
  rcases pk.pts with _ | p <;> rcases pk.dts with _ | d <;> simp

/-- the optional header followed by anything, in cons form -/
def optC (pk : PesPkt) (y : Bytes) : Bytes :=
  UInt8.ofNat (0x80 + pk.low6) :: UInt8.ofNat (pk.ptsDtsFlags * 64 + pk.flags6) :: UInt8.ofNat pk.hdl
    :: (pk.tsBytes ++ (pk.optExtra ++ y))

theorem optHeader_append (pk : PesPkt) (hn : ¬ pk.noHeader) (y : Bytes) :
    pk.optHeader ++ y = optC pk y := by
  unfold PesPkt.optHeader optC
  simp only [hn, if_false, List.cons_append, List.nil_append, List.append_assoc]

theorem optHeader_length (pk : PesPkt) (hn : ¬ pk.noHeader) : pk.optHeader.length = 3 + pk.hdl := by
  unfold PesPkt.optHeader PesPkt.hdl
  simp only [hn, if_false, List.length_append, List.length_cons, List.length_nil]

theorem optC_length (pk : PesPkt) (y : Bytes) : (optC pk y).length = 3 + pk.hdl + y.length := by
  unfold optC PesPkt.hdl
  simp only [List.length_cons, List.length_append]; omega

theorem optC_drop3 (pk : PesPkt) (y : Bytes) :
    (optC pk y).drop 3 = pk.tsBytes ++ (pk.optExtra ++ y) := rfl

section
variable (pk : PesPkt) (hw : pk.WF) (y : Bytes)
include hw

theorem optC_b0 : byteD (optC pk y) 0 = 0x80 + pk.low6 := by
  obtain ⟨_, _, h3, _⟩ := hw
  unfold optC; rw [byteD_cons_zero, ofNat_toNat _ (by omega)]

theorem optC_b1 : byteD (optC pk y) 1 = pk.ptsDtsFlags * 64 + pk.flags6 := by
  obtain ⟨_, _, _, h4, _⟩ := hw
  have := ptsDtsFlags_lt pk
  unfold optC; rw [byteD_cons_succ, byteD_cons_zero, ofNat_toNat _ (by omega)]

theorem optC_b2 : byteD (optC pk y) 2 = pk.hdl := by
  obtain ⟨_, _, _, _, _, _, _, h8, _⟩ := hw
  unfold optC; rw [byteD_cons_succ, byteD_cons_succ, byteD_cons_zero, ofNat_toNat _ h8]

theorem optC_accepted : parsedAccepted (optC pk y) := by
  rw [Ts.Lemmas.C14.parsedAccepted_iff, optC_b0 pk hw, optC_b1 pk hw, optC_b2 pk hw, optC_length pk]
  obtain ⟨_, _, h3, h4, _, _, _, _, h9, _⟩ := hw
  have ht := tbl_curExt ⟨pk.ptsDtsFlags, ptsDtsFlags_lt pk⟩ ⟨pk.flags6, h4⟩
  simp only at ht
  rw [ht, ← tsBytes_length]
  unfold PesPkt.hdl
  refine ⟨by omega, by omega, by omega, by omega⟩

theorem optC_payloadOffset : Pes.payloadOffset (optC pk y) = .ok (3 + pk.hdl) := by
  have hacc := optC_accepted pk hw y
  have h := (Ts.Props.C14.pes_fields_exact_accepted (optC pk y)
    (by rw [Ts.Props.C14.parsed_accept_iff, if_pos hacc])).2.2.2.1
  rw [h, Ts.Lemmas.C14.hdl_eq, optC_b2 pk hw]

theorem optC_flags : Pes.ptsDtsFlags (byteD (optC pk y) 1) = pk.ptsDtsFlags := by
  rw [optC_b1 pk hw]
  obtain ⟨_, _, _, h4, _⟩ := hw
  unfold Pes.ptsDtsFlags
  rw [Nat.shiftRight_eq_div_pow]; omega

theorem optC_limit : Ts.Spec.PesSpec.limit (optC pk y) = 3 + pk.hdl := by
  unfold Ts.Spec.PesSpec.limit
  rw [Ts.Lemmas.C14.hdl_eq, optC_b2 pk hw, optC_length pk]
  omega

end
/-- what `begin_packet`'s header reports as PTS/DTS for a header-bearing PES packet -/
def expectedPtsDts (pk : PesPkt) : Pes.Res Pes.PtsDts :=
  match pk.pts, pk.dts with
  | some p, some d => .ok (.both (.ok p) (.ok d))
  | some p, none => .ok (.ptsOnly (.ok p))
  | none, _ => .error .fieldNotPresent

/-! `Pes.ptsDts` on abstract bytes whose time-stamp fields are the encoder's -/

theorem ptsDts_none (c : Bytes) (h3 : 3 ≤ c.length) (hfl : Pes.ptsDtsFlags (byteD c 1) = 0) :
    Pes.ptsDts c = .ok (.error .fieldNotPresent) := by
  unfold Pes.ptsDts Pes.flagsByte
  rw [byteAt_ok _ 1 (by omega)]
  simp only [R.ok_bind, hfl]
  rfl

theorem ptsDts_ptsOnly (c z : Bytes) (p : Nat) (hp : p < 2 ^ 33) (h3 : 3 ≤ c.length)
    (hfl : Pes.ptsDtsFlags (byteD c 1) = 2) (hlim : 3 + 5 ≤ Ts.Spec.PesSpec.limit c)
    (hd : c.drop 3 = encodeTs 2 p ++ z) :
    Pes.ptsDts c = .ok (.ok (.ptsOnly (.ok p))) := by
  unfold Pes.ptsDts Pes.flagsByte Pes.ptsDtsEnd
  rw [byteAt_ok _ 1 (by omega)]
  simp only [R.ok_bind, hfl]
  have hs := Ts.Lemmas.C14.headerSlice_eq c h3 3 5
  simp only [Pes.FIXED, Pes.TIMESTAMP_SIZE]
  rw [hs, if_pos hlim]
  simp only [R.ok_bind]
  rw [hd, List.take_left' (Ts.Lemmas.C15.encodeTs_length 2 p),
    (Ts.Props.C15.ts_roundtrip p hp).1 2 (by omega)]
  rfl

theorem ptsDts_both_aux (c z a b : Bytes) (ra rb : Time.TsRes) (h3 : 3 ≤ c.length)
    (hfl : Pes.ptsDtsFlags (byteD c 1) = 3) (hlim : 3 + 10 ≤ Ts.Spec.PesSpec.limit c)
    (hd : c.drop 3 = (a ++ b) ++ z) (hla : a.length = 5) (hlb : b.length = 5)
    (ha : Time.fromBytes a = .ok ra) (hb : Time.fromBytes b = .ok rb) :
    Pes.ptsDts c = .ok (.ok (.both ra rb)) := by
  unfold Pes.ptsDts Pes.flagsByte Pes.ptsDtsEnd
  rw [byteAt_ok _ 1 (by omega)]
  simp only [R.ok_bind, hfl]
  have hs := Ts.Lemmas.C14.headerSlice_eq c h3 3 10
  simp only [Pes.FIXED, Pes.TIMESTAMP_SIZE]
  rw [hs, if_pos hlim]
  simp only [R.ok_bind]
  have hl10 : (a ++ b).length = 10 := by rw [List.length_append, hla, hlb]
  rw [hd, List.take_left' hl10, sliceTo_ok _ 5 (by rw [hl10]; omega), sliceFrom_ok _ 5 (by rw [hl10]; omega)]
  simp only [R.ok_bind]
  rw [List.take_left' hla, List.drop_left' hla, ha, hb]
  rfl

theorem ptsDts_both (c z : Bytes) (p d : Nat) (hp : p < 2 ^ 33) (hdv : d < 2 ^ 33) (h3 : 3 ≤ c.length)
    (hfl : Pes.ptsDtsFlags (byteD c 1) = 3) (hlim : 3 + 10 ≤ Ts.Spec.PesSpec.limit c)
    (hd : c.drop 3 = (encodeTs 3 p ++ encodeTs 1 d) ++ z) :
    Pes.ptsDts c = .ok (.ok (.both (.ok p) (.ok d))) :=
  ptsDts_both_aux c z _ _ _ _ h3 hfl hlim hd (Ts.Lemmas.C15.encodeTs_length 3 p)
    (Ts.Lemmas.C15.encodeTs_length 1 d) ((Ts.Props.C15.ts_roundtrip p hp).1 3 (by omega))
    ((Ts.Props.C15.ts_roundtrip d hdv).1 1 (by omega))

theorem optC_ptsDts (pk : PesPkt) (hw : pk.WF) (y : Bytes) :
    Pes.ptsDts (optC pk y) = .ok (expectedPtsDts pk) := by
  have hlen := optC_length pk y
  have h3 : 3 ≤ (optC pk y).length := by omega
  have hfl := optC_flags pk hw y
  have hlim := optC_limit pk hw y
  have hd3 := optC_drop3 pk y
  obtain ⟨_, _, _, _, hp, hd, hdp, _⟩ := hw
  generalize optC pk y = c at *
  unfold expectedPtsDts
  unfold PesPkt.ptsDtsFlags at hfl
  unfold PesPkt.hdl at hlim
  unfold PesPkt.tsBytes at hlim hd3
  rcases hpts : pk.pts with _ | p
  · rcases hdts : pk.dts with _ | d
    · rw [hpts] at hfl
      exact ptsDts_none c h3 hfl
    · rw [hpts, hdts] at hdp; simp at hdp
  · have hpv : p < 2 ^ 33 := hp p (by rw [hpts]; rfl)
    rcases hdts : pk.dts with _ | d
    · rw [hpts, hdts] at hfl hlim hd3
      exact ptsDts_ptsOnly c _ p hpv h3 hfl
        (by rw [hlim, Ts.Lemmas.C15.encodeTs_length]; omega) hd3
    · have hdv : d < 2 ^ 33 := hd d (by rw [hdts]; rfl)
      rw [hpts, hdts] at hfl hlim hd3
      have hl10 : (encodeTs 3 p ++ encodeTs 1 d).length = 10 := rfl
      exact ptsDts_both c _ p d hpv hdv h3 hfl (by rw [hlim, hl10]; omega) hd3
/-! ### `begin_packet`: what the header reports -/

theorem byteD_fixed6_3 (pk : PesPkt) (hs : pk.sid < 256) (x : Bytes) : byteD (pk.fixed6 ++ x) 3 = pk.sid := by
  show byteD (_ :: _ :: _ :: _ :: _) 3 = _
  rw [byteD_cons_succ, byteD_cons_succ, byteD_cons_succ, byteD_cons_zero, ofNat_toNat _ hs]

theorem byteD_fixed6_4 (pk : PesPkt) (x : Bytes) : byteD (pk.fixed6 ++ x) 4 = pk.len / 256 % 256 := by
  show byteD (_ :: _ :: _ :: _ :: _ :: _) 4 = _
  rw [byteD_cons_succ, byteD_cons_succ, byteD_cons_succ, byteD_cons_succ, byteD_cons_zero,
    UInt8.toNat_ofNat']

theorem byteD_fixed6_5 (pk : PesPkt) (x : Bytes) : byteD (pk.fixed6 ++ x) 5 = pk.len % 256 % 256 := by
  show byteD (_ :: _ :: _ :: _ :: _ :: _ :: _) 5 = _
  rw [byteD_cons_succ, byteD_cons_succ, byteD_cons_succ, byteD_cons_succ, byteD_cons_succ,
    byteD_cons_zero, UInt8.toNat_ofNat']

/-- the report expected from `begin_packet` for the PES packet `pk` whose first `l` bytes are at
offset `o` of the transport packet that is at offset `base` of the stream -/
def expectedBegin (pk : PesPkt) (base o l : Nat) : App.BeginInfo :=
  { sid := pk.sid, len := pk.len
    kind := if pk.noHeader then 0 else 1
    ptsDts := if pk.noHeader then none else some (expectedPtsDts pk)
    pl := some (base + o + headerLen pk, l - headerLen pk) }

theorem beginInfo_of_header (pk : PesPkt) (hw : pk.WF) (p : Bytes) (base o l : Nat) (y : Bytes)
    (hl : l = headerLen pk + y.length)
    (hh : rangeBytes p (o, l) = pk.fixed6 ++ (pk.optHeader ++ y)) :
    App.beginInfo p base o l = .ok (expectedBegin pk base o l) := by
  have hlen : (pk.fixed6 ++ (pk.optHeader ++ y)).length = l := by
    rw [hl]; unfold headerLen; simp only [List.length_append, fixed6_length]; omega
  have h6 : 6 ≤ (pk.fixed6 ++ (pk.optHeader ++ y)).length := by
    rw [List.length_append, fixed6_length]; omega
  unfold App.beginInfo
  simp only [hh]
  have hsid : Pes.streamId (pk.fixed6 ++ (pk.optHeader ++ y)) = .ok pk.sid := by
    unfold Pes.streamId; rw [byteAt_ok _ 3 (by omega), byteD_fixed6_3 pk hw.1]
  have hplen : Pes.pesPacketLength (pk.fixed6 ++ (pk.optHeader ++ y)) = .ok pk.len := by
    rw [Ts.Props.C14.packet_length_exact _ h6, Ts.Lemmas.C14.rb_8_8 _ 32 4 rfl, byteD_fixed6_4, byteD_fixed6_5]
    have := hw.2.1
    congr 1; omega
  rw [hsid, hplen, Ts.Props.C14.contents_kind _ h6, Ts.Lemmas.C14.rb_byte _ 24 3 rfl,
    byteD_fixed6_3 pk hw.1, List.drop_left' (fixed6_length pk)]
  simp only [R.ok_bind]
  unfold expectedBegin
  by_cases hn : pk.noHeader
  · have hn' : pk.sid ∈ PesSpec.noHeaderIds := hn
    have hoh : pk.optHeader = [] := by unfold PesPkt.optHeader; simp only [hn, if_true]
    have hhl : headerLen pk = 6 := by unfold headerLen; rw [hoh]; rfl
    simp only [hn, hn', if_true, hoh, List.nil_append, R.pure_eq, Pes.HDR_FIXED, hhl]
    congr 4; omega
  · have hn' : ¬ pk.sid ∈ PesSpec.noHeaderIds := hn
    have hhl : headerLen pk = 6 + (3 + pk.hdl) := by unfold headerLen; rw [optHeader_length pk hn]
    simp only [hn, hn', if_false]
    rw [optHeader_append pk hn y, if_pos (optC_accepted pk hw y)]
    simp only [optC_ptsDts pk hw y, optC_payloadOffset pk hw y, R.ok_bind, R.pure_eq, Pes.HDR_FIXED,
      optC_length pk y, hhl]
    congr 4
    · omega
    · omega

/-- on a packet whose payload holds the first `l` bytes of `encodePes pk`, header inside -/
theorem beginInfo_of_take (pk : PesPkt) (hw : pk.WF) (p : Bytes) (base o l : Nat)
    (hk : headerLen pk ≤ l) (hle : l ≤ (encodePes pk).length)
    (hh : rangeBytes p (o, l) = (encodePes pk).take l) :
    App.beginInfo p base o l = .ok (expectedBegin pk base o l) := by
  rw [take_encode pk l hk] at hh
  refine beginInfo_of_header pk hw p base o l _ ?_ hh
  rw [encodePes_length] at hle
  rw [List.length_take]; omega

/-- the bytes of the exposed payload range -/
theorem exposed_bytes (p : Bytes) (o l h : Nat) :
    rangeBytes p (o + h, l - h) = (rangeBytes p (o, l)).drop h := by
  simp only [rangeBytes, List.drop_take, List.drop_drop]

theorem exposed_of_take (pk : PesPkt) (p : Bytes) (o l : Nat) (hk : headerLen pk ≤ l)
    (hh : rangeBytes p (o, l) = (encodePes pk).take l) :
    rangeBytes p (o + headerLen pk, l - headerLen pk) = pk.payload.take (l - headerLen pk) := by
  rw [exposed_bytes, hh, take_encode pk l hk, ← List.append_assoc]
  exact List.drop_left' (by unfold headerLen; rw [List.length_append, fixed6_length])
/-! ### the harness' "touch every accessor" pass over a PES header is total -/

section touch
open Ts.Spec.PesSpec Ts.Lemmas.C14

theorem escrAt_lt (c : Bytes) (p : Nat) : (escrAt c p).base < 2 ^ 33 ∧ (escrAt c p).ext < 2 ^ 9 := by
  unfold escrAt
  have h1 := readBits_lt c (8 * p + 2) 3
  have h2 := readBits_lt c (8 * p + 6) 15
  have h3 := readBits_lt c (8 * p + 22) 15
  have h4 := readBits_lt c (8 * p + 38) 9
  simp only
  omega

theorem escr_present (c : Bytes) (v : EscrVal) (h : (parse c).escr = .present v) :
    Time.crefTo27MHz (escrConv v) = .ok (v.base * 300 + v.ext) := by
  rw [parse_escr] at h
  unfold fieldAt at h
  have ⟨hb, he⟩ := escrAt_lt c (curEscr (flagsOf c))
  split at h
  · cases h
  · split at h
    · injection h with h
      subst h
      exact Ts.Props.C15.cref_27mhz _ hb he
    · cases h

theorem esRate_present (c : Bytes) (v : Nat) (h : (parse c).esRate = .present v) : v * 50 < 2 ^ 32 := by
  rw [parse_esRate] at h
  unfold fieldAt at h
  have hb := readBits_lt c (8 * curEsRate (flagsOf c) + 1) 22
  split at h
  · cases h
  · split at h
    · injection h with h
      subst h
      unfold esRateAt; omega
    · cases h

theorem touchParsed_ok (c : Bytes) (hacc : Pes.parsedFromBytes c = .ok (some c)) :
    App.touchParsed c = .ok () := by
  obtain ⟨hpa, hext, _, hpo, _⟩ := Ts.Props.C14.pes_fields_exact_accepted c hacc
  have h3 : 3 ≤ c.length := hpa.1
  obtain ⟨a1, a2, a3, a4, a5, a6, a7, a8, a9, _, _⟩ := Ts.Props.C14.pes_fields_exact_partial c h3
  have hE := escr_present c
  have hR := esRate_present c
  unfold App.touchParsed
  rw [a1, a2, Ts.Props.C14.copyright_pinned c h3, a3, a4, a5, a6, a7, a8, a9, hext, hpo]
  simp only [R.ok_bind]
  cases he : (parse c).escr <;> simp only [resOf]
  all_goals try rw [hE _ he]
  all_goals try simp only [R.ok_bind]
  all_goals (cases hr : (parse c).esRate <;> simp only [id])
  all_goals try simp only [assertR, hR _ hr, decide_true, if_true, R.ok_bind]
  all_goals rfl

theorem touchPesHeader_ok (h : Bytes) (h6 : 6 ≤ h.length) : App.touchPesHeader h = .ok () := by
  unfold App.touchPesHeader
  rw [Ts.Props.C14.stream_id_exact h h6, Ts.Props.C14.packet_length_exact h h6,
    Ts.Props.C14.contents_kind h h6]
  simp only [R.ok_bind]
  by_cases hn : readBits h 24 8 ∈ noHeaderIds
  · simp only [hn, if_true]; rfl
  · simp only [hn, if_false]
    by_cases hp : parsedAccepted (h.drop 6)
    · simp only [hp, if_true]
      exact touchParsed_ok _ (by rw [Ts.Props.C14.parsed_accept_iff, if_pos hp])
    · simp only [hp, if_false]; rfl

end touch

/-! ### the application's events for one packet -/

open Ts.App in
/-- the application events for what precedes a `begin_packet` -/
def esOpen (tag : Nat) : St → List App.Ev
  | .begin => [.esStart tag]
  | .started => [.esEnd tag]
  | .ignoreRest => []

open Ts.App in
theorem esEvents_first (touch : Bool) (pk : PesPkt) (hw : pk.WF) (p : Bytes) (base o l tag : Nat)
    (c : Ctx) (st : St)
    (hk : headerLen pk ≤ l) (hle : l ≤ (encodePes pk).length)
    (hh : rangeBytes p (o, l) = (encodePes pk).take l) :
    esEvents touch tag p base c (openEvs st ++ [.beginPkt o l]) =
      .ok (((esOpen tag st).foldl Ctx.emit c).emit (.esBegin tag (expectedBegin pk base o l))) := by
  have hb := beginInfo_of_take pk hw p base o l hk hle hh
  have ht : touchPesHeader (rangeBytes p (o, l)) = .ok () := by
    refine touchPesHeader_ok _ ?_
    rw [hh, List.length_take]
    unfold headerLen at hk
    omega
  cases st <;> cases touch <;> simp [openEvs, esOpen, esEvents, hb, ht]

open Ts.App in
theorem esEvents_cont (touch : Bool) (p : Bytes) (base tag : Nat) (c : Ctx) :
    esEvents touch tag p base c (contEvs p) =
      .ok (match tpPayload p with
           | some (o, l) => c.emit (.esCont tag (base + o) l)
           | none => c) := by
  unfold contEvs
  rcases tpPayload p with _ | ⟨o, l⟩ <;> simp [esEvents]

/-! ### a stream of PES packets -/

theorem delivered_append (a b : List Bytes) (ea eb : List (List Ev)) (h : a.length = ea.length) :
    delivered (a ++ b) (ea ++ eb) = delivered a ea ++ delivered b eb := by
  induction a generalizing ea with
  | nil =>
    cases ea with
    | nil => rfl
    | cons e es => simp at h
  | cons p ps ih =>
    cases ea with
    | nil => simp at h
    | cons e es =>
      simp only [List.cons_append, delivered, List.append_assoc]
      rw [ih es (by simpa using h)]

theorem planEvs_length (st : St) (pl : Plan) : (planEvs st pl).length = pl.packets.length := by
  simp [planEvs, Plan.packets]

/-- all transport packets of a stream, in order -/
def streamPackets (s : List (PesPkt × Plan)) : List Bytes := s.flatMap (fun x => x.2.packets)

/-- the filter state after a stream: unchanged if the stream is empty, otherwise `started` with
the counter of the very last packet -/
def streamFinal : F → List (PesPkt × Plan) → F
  | f, [] => f
  | _, (_, pl) :: rest => streamFinal ⟨some pl.lastCc, .started⟩ rest

theorem stream_runPure (s : List (PesPkt × Plan)) : ∀ (f : F), PesStream f.cc s →
    runPure f (streamPackets s) = (streamFinal f s, streamEvs f.st (s.map (·.2)))
    ∧ (∀ p ∈ streamPackets s, p.length = 188)
    ∧ delivered (streamPackets s) (streamEvs f.st (s.map (·.2))) = (s.map (fun x => encodePes x.1)).flatten := by
  induction s with
  | nil => intro f _; exact ⟨rfl, by simp [streamPackets], rfl⟩
  | cons x rest ih =>
    intro f h
    obtain ⟨pes, pl⟩ := x
    simp only [PesStream] at h
    obtain ⟨_, hwf, hcc, hrest⟩ := h
    obtain ⟨r1, r2, r3⟩ := plan_runPure pes pl f hwf hcc
    obtain ⟨i1, i2, i3⟩ := ih ⟨some pl.lastCc, .started⟩ hrest
    have hsp : streamPackets ((pes, pl) :: rest) = pl.packets ++ streamPackets rest := by
      simp [streamPackets]
    refine ⟨?_, ?_, ?_⟩
    · rw [hsp, runPure_append, r1]
      simp only [i1, List.map_cons, streamEvs, streamFinal]
    · intro p hp
      rw [hsp] at hp
      rcases List.mem_append.1 hp with e | e
      · exact r2 p e
      · exact i2 p e
    · rw [hsp]
      simp only [List.map_cons, streamEvs, List.flatten_cons]
      rw [delivered_append _ _ _ _ (planEvs_length f.st pl).symm, r3, i3]

end Ts.Lemmas.C02
