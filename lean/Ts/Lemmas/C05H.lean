import Ts.Spec.RoutingHistory
import Ts.Lemmas.C05
import Ts.Lemmas.C05Run
import Ts.Lemmas.C10b
import Ts.Lemmas.C19
import Ts.Props.C11
import Ts.Lemmas.C01c
/-!
# C05 over whole histories — helper lemmas, part 1

* list lemmas: `tagged` vs `built`, `lastFor` under a map, `constructs` of a context
* `pushSpec_same_pid`: a run of packets of ONE PID through the dispatcher = the successive
  `consume` calls of that PID's handler (`consumeAll`), provided the handler queues no change for
  its own PID
* one-packet lemmas for recorders, elementary-stream handlers and idle table handlers
-/
namespace Ts.Lemmas.C05H
open Ts Ts.Tables Ts.App Ts.Demux Ts.Spec Ts.Spec.TableSpec Ts.Spec.Routing Ts.Spec.RoutingHistory
open Ts.Spec.SectionMux Ts.Lemmas.C03 Ts.Lemmas.C10 Ts.Lemmas.C05 Ts.Lemmas.C05Run

/-! ### `tagged`, `built`, `lastFor` -/

theorem tagged_pids : ∀ (l : List (Nat × Req)) (n : Nat), (tagged n l).map (·.1) = l.map (·.1) := by
  intro l
  induction l with
  | nil => intro _; rfl
  | cons x rest ih => intro n; obtain ⟨p, q⟩ := x; simp [tagged, ih]

theorem built_eq_tagged : ∀ (l : List (Nat × Req)) (n : Nat),
    built n l = (tagged n l).map fun x => (x.1, handlerFor x.2.1 x.2.2) := by
  intro l
  induction l with
  | nil => intro _; rfl
  | cons x rest ih => intro n; obtain ⟨p, q⟩ := x; simp [tagged, built, ih]

theorem tagged_mem : ∀ (l : List (Nat × Req)) (n p : Nat) (q : Req) (t : Nat),
    (p, (q, t)) ∈ tagged n l → (p, q) ∈ l ∧ n ≤ t ∧ t < n + l.length := by
  intro l
  induction l with
  | nil => intro n p q t h; cases h
  | cons x rest ih =>
    intro n p q t h
    obtain ⟨p0, q0⟩ := x
    simp only [tagged, List.mem_cons, Prod.mk.injEq] at h
    rcases h with ⟨rfl, rfl, rfl⟩ | h
    · exact ⟨List.mem_cons_self, Nat.le_refl _, by simp⟩
    · obtain ⟨h1, h2, h3⟩ := ih _ _ _ _ h
      exact ⟨List.mem_cons_of_mem _ h1, by omega, by simp only [List.length_cons]; omega⟩

theorem tagged_reqs : ∀ (l : List (Nat × Req)) (n : Nat),
    (tagged n l).map (fun x => x.2) = (l.map (·.2)).zipIdx n := by
  intro l
  induction l with
  | nil => intro _; rfl
  | cons x rest ih => intro n; obtain ⟨p, q⟩ := x; simp [tagged, ih, List.zipIdx_cons]

theorem lastFor_map {α β : Type} (f : α → β) (l : List (Nat × α)) (p : Nat) :
    lastFor (l.map fun x => (x.1, f x.2)) p = (lastFor l p).map f := by
  unfold lastFor
  rw [← List.map_reverse, List.find?_map]
  cases h : l.reverse.find? ((fun x : Nat × β => x.1 == p) ∘ fun x : Nat × α => (x.1, f x.2)) with
  | none =>
    have : l.reverse.find? (fun x => x.1 == p) = none := h
    rw [this]; rfl
  | some a =>
    have : l.reverse.find? (fun x => x.1 == p) = some a := h
    rw [this]; rfl

theorem lastFor_mem {α : Type} (l : List (Nat × α)) (p : Nat) (a : α) (h : lastFor l p = some a) :
    (p, a) ∈ l := by
  obtain ⟨pre, post, e, -⟩ := lastFor_some l p a h
  rw [e]; simp

theorem lastFor_none_iff {α : Type} (l : List (Nat × α)) (p : Nat) :
    lastFor l p = none ↔ p ∉ l.map (·.1) := by
  constructor
  · exact lastFor_none l p
  · intro h
    cases hl : lastFor l p with
    | none => rfl
    | some a => exact absurd (List.mem_map.2 ⟨_, lastFor_mem l p a hl, rfl⟩) h

/-! ### the `construct` callbacks recorded in a context -/

def isConstruct : Ev → Option (Req × Nat)
  | .construct r t => some (r, t)
  | _ => none

theorem constructs_eq (c : Ctx) : constructs c = c.trace.reverse.filterMap isConstruct := rfl

theorem constructs_append (c c' : Ctx) (out : List Ev) (h : c'.trace = out ++ c.trace) :
    constructs c' = constructs c ++ out.reverse.filterMap isConstruct := by
  rw [constructs_eq, constructs_eq, h, List.reverse_append, List.filterMap_append]

theorem constructs_silent (c c' : Ctx) (out : List Ev) (h : c'.trace = out ++ c.trace)
    (hs : ∀ e ∈ out, isConstruct e = none) : constructs c' = constructs c := by
  rw [constructs_append c c' out h]
  have : out.reverse.filterMap isConstruct = [] := by
    rw [List.filterMap_eq_nil_iff]
    intro e he
    exact hs e (List.mem_reverse.1 he)
  rw [this, List.append_nil]

theorem constructEvents_constructs : ∀ (reqs : List (Nat × Req)) (n : Nat),
    (constructEvents n reqs).filterMap isConstruct = (reqs.map (·.2)).zipIdx n := by
  intro reqs
  induction reqs with
  | nil => intro _; rfl
  | cons x rest ih =>
    intro n
    obtain ⟨p, q⟩ := x
    simp [constructEvents, isConstruct, ih, List.zipIdx_cons]

theorem constructs_ctxAfter (c : Ctx) (reqs : List (Nat × Req)) :
    constructs (ctxAfter c reqs) = constructs c ++ (reqs.map (·.2)).zipIdx c.nextTag := by
  rw [constructs_append c (ctxAfter c reqs) (constructEvents c.nextTag reqs).reverse rfl,
    List.reverse_reverse, constructEvents_constructs]

theorem zipIdx_snoc {α : Type} (l l' : List α) :
    (l ++ l').zipIdx = l.zipIdx ++ l'.zipIdx l.length := by
  rw [List.zipIdx_append]; simp

/-! ### a run of packets of one PID -/

/-- packets of ONE PID `p`, none flagged, slot `p` holding `h`: if the successive `consume` calls
(`consumeAll`) succeed and queue no change for `p` itself, the dispatcher's run succeeds with the
same context, slot `p` holds the final handler state, and every other slot is as if all queued
changes had been applied to the original table -/
theorem pushSpec_same_pid (p : Nat) : ∀ (pks : List Pk) (t : Tab Handler) (c : Ctx) (h h' : Handler)
    (c' : Ctx) (chg : List (Change Handler)),
    (∀ pk ∈ pks, pk.pid = p ∧ pk.flagged = false) →
    t.get p = some h →
    consumeAll h c pks = .ok (h', c', chg) →
    (∀ ch ∈ chg, ch.pid ≠ p) →
    ∃ t', pushSpec App.sem (t, c) pks = .ok (t', c') ∧ t'.get p = some h' ∧
      ∀ q, q ≠ p → t'.get q = (applyChanges t chg).get q := by
  intro pks
  induction pks with
  | nil =>
    intro t c h h' c' chg _ hg hc _
    rw [(Ts.Props.C11.consumeAll_iff h c ⟨[], 0, 0, false, false⟩ []).1] at hc
    simp only [R.ok.injEq, Prod.mk.injEq] at hc
    obtain ⟨rfl, rfl, rfl⟩ := hc
    exact ⟨t, rfl, hg, fun q _ => rfl⟩
  | cons pk pks ih =>
    intro t c h h' c' chg hall hg hc hno
    obtain ⟨hp, hf⟩ := hall pk List.mem_cons_self
    rw [(Ts.Props.C11.consumeAll_iff h c pk pks).2] at hc
    cases h1 : App.consume h c pk with
    | panic m => rw [h1] at hc; cases hc
    | ok r1 =>
      obtain ⟨h1', c1, chg1⟩ := r1
      rw [h1] at hc
      simp only [R.ok_bind] at hc
      cases h2 : consumeAll h1' c1 pks with
      | panic m => rw [h2] at hc; cases hc
      | ok r2 =>
        obtain ⟨h2', c2, chg2⟩ := r2
        rw [h2] at hc
        simp only [R.ok_bind, R.ok.injEq, Prod.mk.injEq] at hc
        obtain ⟨rfl, rfl, rfl⟩ := hc
        have hg' : t.get pk.pid = some h := by rw [hp]; exact hg
        have hstep : specStep App.sem (t, c) pk = .ok (applyChanges (t.insert pk.pid h1') chg1, c1) := by
          rw [specStep_consume_of_contains App.sem t c pk h (contains_of_get t pk.pid h hg') hf hg']
          show (App.consume h c pk >>= _) = _
          rw [h1]; rfl
        have hno1 : ∀ ch ∈ chg1, ch.pid ≠ p := fun ch hm => hno ch (List.mem_append_left _ hm)
        have hno2 : ∀ ch ∈ chg2, ch.pid ≠ p := fun ch hm => hno ch (List.mem_append_right _ hm)
        have hg1 : (applyChanges (t.insert pk.pid h1') chg1).get p = some h1' := by
          rw [get_applyChanges_untouched chg1 _ p hno1, hp, Tab.get_insert_self]
        obtain ⟨t', hrun, hgp, hother⟩ := ih _ c1 h1' h2' c2 chg2
          (fun pk' hm => hall pk' (List.mem_cons_of_mem _ hm)) hg1 h2 hno2
        refine ⟨t', ?_, hgp, ?_⟩
        · rw [pushSpec_cons, hstep]; exact hrun
        · intro q hq
          rw [hother q hq, ← applyChanges_append]
          apply get_applyChanges_congr
          rw [hp]; exact Tab.get_insert_ne _ _ _ _ hq

/-! ### single packets -/

/-- a recorder (no script): records the packet, queues nothing -/
theorem consume_recorder (tag : Nat) (c : Ctx) (pk : Pk) (hs : c.cfg.script = [])
    (hl : pk.bytes.length = 188) :
    App.consume (.recorder tag) c pk = .ok (.recorder tag, c.emit (.pkt tag pk.off), []) := by
  simp only [App.consume, hs, List.lookup]
  cases c.cfg.touch
  · rfl
  · simp only [if_true, Ts.Lemmas.C01.touchPacket_ok _ hl, R.ok_bind]; rfl

/-- an elementary-stream handler: same instance, nothing queued, no request, tag counter and
configuration untouched -/
theorem consume_pes (tag : Nat) (f : PesFilter.F) (c : Ctx) (pk : Pk) (hl : pk.bytes.length = 188) :
    ∃ f' c', App.consume (.pes tag f) c pk = .ok (.pes tag f', c', []) ∧ c'.cfg = c.cfg ∧
      c'.nextTag = c.nextTag ∧ constructs c' = constructs c := by
  obtain ⟨h', c', chg, h1, -, -⟩ := Ts.Lemmas.C01.consume_total (.pes tag f) c pk trivial hl
  obtain ⟨out, f', e1, e2, h2, h3, h4, h5⟩ := Ts.Lemmas.C19.pes_consume_events tag f c pk h' c' chg hl h1
  subst e1 e2
  refine ⟨f', c', h1, h5, h4, constructs_silent c c' out h2 ?_⟩
  intro e he
  have := h3 e he
  cases e <;> first | rfl | exact this.elim

theorem idle_quiescent (v : Nat) (s : Psi.St) : Idle (some v) s ↔ Quiescent v s := Iff.rfl

/-- one packet that cannot complete a new section, through an idle section filter -/
theorem psi_rep_packetO (ov : Option Nat) (s : Psi.St) (hi : Idle ov s) (p : Bytes) (hp : RepPacketO ov p) :
    ∃ s', Psi.consume Psi.table s p = .ok (s', []) ∧ Idle ov s' := by
  cases ov with
  | some v =>
    obtain ⟨s', h1, h2, -⟩ := psi_rep_packet v s hi p hp
    exact ⟨s', h1, h2⟩
  | none =>
    obtain ⟨hl, hr⟩ := hp
    rw [consume_eq_plOf Psi.table s p hl]
    cases hpl : plOf p with
    | none => exact ⟨s, rfl, hi⟩
    | some q =>
      have hus := hr q hpl
      refine ⟨s, ?_, hi⟩
      show consumePayload Psi.table s q.us q.bytes q.off = _
      rw [consumePayload_eq Psi.table cfgOk_table s q.us q.bytes q.off (plOf_size p hl q hpl).1
        (psiInv_of_none _ _ hi.2), hus]
      unfold consumeSpec
      simp only [Bool.false_eq_true, if_false]
      rw [contSpec_idle _ _ _ (Or.inl hi.2)]

end Ts.Lemmas.C05H
