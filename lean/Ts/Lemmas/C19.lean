import Ts.Model.App
import Ts.Props.C12
import Ts.Lemmas.C03d
import Ts.Lemmas.C08
import Ts.Lemmas.DemuxB
/-!
# C19 helper lemmas, part 1: every delivered slice is a sub-slice of the pushed buffer

* `R.bind_eq_ok`: inversion of a successful bind in the panic monad.
* `frame_pk_props`: every packet `frame buf base` yields sits at an aligned offset inside
  `[base, base + buf.length)` and its bytes are literally that window of `buf`.
* `pes_consume_events`: the events a `.pes` handler appends to the context trace only expose
  ranges inside the payload of the packet being consumed.
* `consumeSpec_origin`: every whole-section delivery is either started (and completed) in this
  packet — then it is delivered in place, as a window of the packet — or completed by a
  continuation of a buffered section — then it is delivered from the reassembly buffer.
-/
namespace Ts.Lemmas.C19
open Ts Ts.Demux

/-! ### the panic monad -/

theorem R.bind_eq_ok {α β : Type} {x : R α} {f : α → R β} {b : β} (h : (x >>= f) = .ok b) :
    ∃ a, x = .ok a ∧ f a = .ok b := by
  cases x with
  | ok a => exact ⟨a, rfl, h⟩
  | panic s => cases h

theorem R.ok_inj {α : Type} {a b : α} (h : (R.ok a : R α) = .ok b) : a = b := by
  injection h

/-! ### framing: offsets and bytes of the packets `push` iterates over -/

theorem chunks_getElem? : ∀ (i : Nat) (b ch : Bytes), (chunks b)[i]? = some ch →
    ch = (b.drop (188 * i)).take 188 ∧ 188 * i + 188 ≤ b.length := by
  intro i
  induction i with
  | zero =>
    intro b ch h
    rw [chunks_eq] at h
    split at h
    · simp at h
    · simp only [List.getElem?_cons_zero, Option.some.injEq] at h
      subst h
      refine ⟨by simp, by omega⟩
  | succ i ih =>
    intro b ch h
    rw [chunks_eq] at h
    split at h
    · simp at h
    · simp only [List.getElem?_cons_succ] at h
      obtain ⟨h1, h2⟩ := ih _ _ h
      rw [List.drop_drop] at h1
      rw [List.length_drop] at h2
      refine ⟨?_, by omega⟩
      rw [h1]
      have : 188 * (i + 1) = 188 + 188 * i := by omega
      rw [this]

theorem framePure_mem : ∀ (chs : List Bytes) (off : Nat) (pk : Pk), pk ∈ framePure chs off →
    ∃ i, chs[i]? = some pk.bytes ∧ pk.off = off + 188 * i ∧ pk.pid = Spec.readBits pk.bytes 11 13
      ∧ byteD pk.bytes 0 = 0x47 := by
  intro chs
  induction chs with
  | nil => intro off pk h; simp [framePure] at h
  | cons ch chs ih =>
    intro off pk h
    have hrec : pk ∈ framePure chs (off + 188) →
        ∃ i, (ch :: chs)[i]? = some pk.bytes ∧ pk.off = off + 188 * i
          ∧ pk.pid = Spec.readBits pk.bytes 11 13 ∧ byteD pk.bytes 0 = 0x47 := by
      intro hm
      obtain ⟨i, h1, h2, h3, h4⟩ := ih (off + 188) pk hm
      exact ⟨i + 1, by simpa using h1, by omega, h3, h4⟩
    unfold framePure at h
    cases hk : pkOf ch off with
    | none => rw [hk] at h; exact hrec h
    | some pk0 =>
      rw [hk] at h
      have h' : pk = pk0 ∨ pk ∈ framePure chs (off + 188) := by simpa using h
      rcases h' with e | e
      · subst e
        unfold pkOf at hk
        split at hk
        · rename_i hs
          injection hk with hk
          subst hk
          exact ⟨0, rfl, by simp, rfl, hs⟩
        · cases hk
      · exact hrec e

/-- every packet produced by `frame buf base` lies inside the pushed buffer, at a packet-aligned
offset, carries exactly the 188 bytes of `buf` at that offset, and has a 13-bit PID -/
theorem frame_pk_props (buf : Bytes) (base : Nat) (pks : List Pk) (h : frame buf base = .ok pks) :
    ∀ pk ∈ pks, base ≤ pk.off ∧ pk.off + 188 ≤ base + buf.length ∧ (pk.off - base) % 188 = 0
      ∧ pk.bytes = (buf.drop (pk.off - base)).take 188 ∧ pk.bytes.length = 188
      ∧ pk.pid ≤ 0x1fff ∧ byteD pk.bytes 0 = 0x47 := by
  rw [frame_eq_pure] at h
  have h := R.ok_inj h
  subst h
  intro pk hpk
  obtain ⟨i, h1, h2, h3, h4⟩ := framePure_mem _ _ _ hpk
  obtain ⟨h5, h6⟩ := chunks_getElem? i buf pk.bytes h1
  have hsub : pk.off - base = 188 * i := by omega
  refine ⟨by omega, by omega, by rw [hsub]; omega, by rw [hsub]; exact h5, ?_, ?_, h4⟩
  · rw [h5, List.length_take, List.length_drop]; omega
  · rw [h3]; exact Props.C12.pid_le_max _

/-- a window of a framed packet is a window of the pushed buffer -/
theorem window_of_window (buf : Bytes) (a b l : Nat) (h : b + l ≤ 188) :
    (((buf.drop a).take 188).drop b).take l = (buf.drop (a + b)).take l := by
  rw [List.drop_take, List.take_take, List.drop_drop]
  congr 1
  omega

/-! ### elementary-stream callbacks -/

/-- the slice an application event exposes (global range), if any -/
def evRange : App.Ev → Option (Nat × Nat)
  | .esBegin _ bi => bi.pl
  | .esCont _ off len => some (off, len)
  | _ => none

/-- shape of the events a `.pes tag` handler may emit for the packet at global offset `pkoff` -/
def EvInPacket (tag pkoff : Nat) : App.Ev → Prop
  | .esStart t => t = tag
  | .esEnd t => t = tag
  | .esCcErr t => t = tag
  | .esCont t off len => t = tag ∧ pkoff + 4 ≤ off ∧ off + len = pkoff + 188 ∧ 0 < len
  | .esBegin t bi => t = tag ∧ ∀ o l, bi.pl = some (o, l) → pkoff + 4 ≤ o ∧ o + l ≤ pkoff + 188
  | _ => False

theorem parsedFromBytes_some (b c : Bytes) (h : Pes.parsedFromBytes b = .ok (some c)) : c = b := by
  unfold Pes.parsedFromBytes at h
  split at h
  · cases h
  · obtain ⟨b0, _, h⟩ := R.bind_eq_ok h
    dsimp only at h
    split at h
    · cases h
    · obtain ⟨hd, _, h⟩ := R.bind_eq_ok h
      split at h
      · obtain ⟨_, _, h⟩ := R.bind_eq_ok h; cases h
      · obtain ⟨f, _, h⟩ := R.bind_eq_ok h
        obtain ⟨ce, _, h⟩ := R.bind_eq_ok h
        split at h
        · obtain ⟨_, _, h⟩ := R.bind_eq_ok h; cases h
        · have := R.ok_inj h
          injection this with this
          exact this.symm

theorem sliceFrom_eq_ok (b r : Bytes) (n : Nat) (h : sliceFrom b n = .ok r) : n ≤ b.length ∧ r = b.drop n := by
  unfold sliceFrom at h
  split at h
  · cases h
  · exact ⟨by omega, (R.ok_inj h).symm⟩

theorem payloadOffset_ok (c : Bytes) (o : Nat) (h : Pes.payloadOffset c = .ok o) : o ≤ c.length := by
  unfold Pes.payloadOffset at h
  obtain ⟨hd, _, h⟩ := R.bind_eq_ok h
  obtain ⟨r, hr, h⟩ := R.bind_eq_ok h
  have := R.ok_inj h
  subst this
  exact (sliceFrom_eq_ok _ _ _ hr).1

theorem contents_ok (hb : Bytes) (ct : Pes.Contents) (h : Pes.contents hb = .ok ct) :
    6 ≤ hb.length ∧ (∀ rest, ct = .payload rest → rest = hb.drop 6)
      ∧ (∀ c, ct = .parsed (some c) → c = hb.drop 6) := by
  unfold Pes.contents at h
  obtain ⟨rest, hr, h⟩ := R.bind_eq_ok h
  obtain ⟨hl, hrest⟩ := sliceFrom_eq_ok _ _ _ hr
  obtain ⟨sid, _, h⟩ := R.bind_eq_ok h
  refine ⟨hl, ?_, ?_⟩
  · intro r e
    split at h
    · obtain ⟨c, _, h⟩ := R.bind_eq_ok h
      have := R.ok_inj h; subst this; cases e
    · have := R.ok_inj h; subst this
      injection e with e; rw [← e, hrest]; rfl
  · intro c e
    split at h
    · obtain ⟨c', hc', h⟩ := R.bind_eq_ok h
      have := R.ok_inj h; subst this
      injection e with e
      subst e
      rw [parsedFromBytes_some _ _ hc', hrest]; rfl
    · have := R.ok_inj h; subst this; cases e

/-- `begin_packet`: the exposed PES payload lies inside the transport packet's payload -/
theorem beginInfo_pl (p : Bytes) (base o l : Nat) (bi : App.BeginInfo) (hp : p.length = 188)
    (hol : o + l = 188) (h : App.beginInfo p base o l = .ok bi) :
    ∀ a n, bi.pl = some (a, n) → base + o + 6 ≤ a ∧ a + n = base + 188 := by
  have hlen : (Packet.rangeBytes p (o, l)).length = l := by
    simp only [Packet.rangeBytes, List.length_take, List.length_drop]; omega
  unfold App.beginInfo at h
  obtain ⟨sid, _, h⟩ := R.bind_eq_ok h
  obtain ⟨len, _, h⟩ := R.bind_eq_ok h
  obtain ⟨ct, hct, h⟩ := R.bind_eq_ok h
  obtain ⟨h6, hpay, hpar⟩ := contents_ok _ _ hct
  rw [hlen] at h6
  intro a n hpl
  cases ct with
  | payload rest =>
    have hr := hpay rest rfl
    have := R.ok_inj h
    subst this
    simp only [Option.some.injEq, Prod.mk.injEq] at hpl
    obtain ⟨e1, e2⟩ := hpl
    subst e1 e2
    rw [hr, List.length_drop, hlen]
    simp only [Pes.HDR_FIXED]
    omega
  | parsed c =>
    cases c with
    | none =>
      have := R.ok_inj h
      subst this
      cases hpl
    | some c =>
      have hc := hpar c rfl
      obtain ⟨pd, _, h⟩ := R.bind_eq_ok h
      obtain ⟨po, hpo, h⟩ := R.bind_eq_ok h
      have hle := payloadOffset_ok _ _ hpo
      have := R.ok_inj h
      subst this
      simp only [Option.some.injEq, Prod.mk.injEq] at hpl
      obtain ⟨e1, e2⟩ := hpl
      subst e1 e2
      have hcl : c.length = l - 6 := by rw [hc, List.length_drop, hlen]
      simp only [Pes.HDR_FIXED]
      omega

/-- ranges reported by the PES filter for the current packet -/
def PEvOk : PesFilter.Ev → Prop
  | .beginPkt o l => 4 ≤ o ∧ o + l = 188
  | .cont o l => 4 ≤ o ∧ o + l = 188 ∧ 0 < l
  | _ => True

theorem esEvents_trace (touch : Bool) (tag : Nat) (p : Bytes) (base : Nat) (hp : p.length = 188) :
    ∀ (evs : List PesFilter.Ev) (c c' : App.Ctx), (∀ e ∈ evs, PEvOk e) →
      App.esEvents touch tag p base c evs = .ok c' →
      ∃ out, c'.trace = out ++ c.trace ∧ (∀ e ∈ out, EvInPacket tag base e)
        ∧ c'.nextTag = c.nextTag ∧ c'.cfg = c.cfg := by
  intro evs
  induction evs with
  | nil =>
    intro c c' _ h
    have := R.ok_inj h
    subst this
    exact ⟨[], rfl, by simp, rfl, rfl⟩
  | cons e es ih =>
    intro c c' hok h
    unfold App.esEvents at h
    obtain ⟨c1, h1, h⟩ := R.bind_eq_ok h
    have hrest := fun e' he' => hok e' (List.mem_cons_of_mem _ he')
    have key : ∃ ev, c1 = c.emit ev ∧ EvInPacket tag base ev := by
      have he := hok e List.mem_cons_self
      cases e with
      | start => exact ⟨_, (R.ok_inj h1).symm, rfl⟩
      | endPkt => exact ⟨_, (R.ok_inj h1).symm, rfl⟩
      | ccErr => exact ⟨_, (R.ok_inj h1).symm, rfl⟩
      | cont o l =>
        refine ⟨_, (R.ok_inj h1).symm, rfl, ?_⟩
        simp only [PEvOk] at he
        omega
      | beginPkt o l =>
        simp only [PEvOk] at he
        obtain ⟨bi, hbi, h1⟩ := R.bind_eq_ok h1
        have h1' : c1 = c.emit (.esBegin tag bi) := by
          cases touch with
          | false => exact (R.ok_inj h1).symm
          | true =>
            simp only [if_true] at h1
            obtain ⟨_, _, h1⟩ := R.bind_eq_ok h1
            exact (R.ok_inj h1).symm
        refine ⟨_, h1', rfl, ?_⟩
        intro a n hpl
        have := beginInfo_pl p base o l bi hp he.2 hbi a n hpl
        omega
    obtain ⟨ev, hc1, hev⟩ := key
    obtain ⟨out, ho1, ho2, ho3, ho4⟩ := ih c1 c' hrest h
    subst hc1
    refine ⟨out ++ [ev], ?_, ?_, ?_, ?_⟩
    · rw [ho1]; simp [App.Ctx.emit]
    · intro e' he'
      rcases List.mem_append.1 he' with h' | h'
      · exact ho2 e' h'
      · simp only [List.mem_singleton] at h'; subst h'; exact hev
    · rw [ho3]; rfl
    · rw [ho4]; rfl

theorem stepOf_evs_ok (f : PesFilter.F) (p : Bytes) : ∀ e ∈ (C08.stepOf f p).2, PEvOk e := by
  intro e he
  cases e with
  | start => trivial
  | endPkt => trivial
  | ccErr => trivial
  | beginPkt o l =>
    have := ((C08.stepPure_begin_mem ..).1 he).2.1
    have := C08.payOf_sound this
    simp only [PEvOk]; omega
  | cont o l =>
    have := ((C08.stepPure_cont_mem ..).1 he).2.1
    have := C08.payOf_sound this
    simp only [PEvOk]; omega

/-- what a `.pes` handler does with one 188-byte packet, as far as the application can see:
appends events whose slices lie in this packet's payload; queues no change; constructs nothing -/
theorem pes_consume_events (tag : Nat) (f : PesFilter.F) (c : App.Ctx) (pk : Pk)
    (h' : App.Handler) (c' : App.Ctx) (chg : List (Change App.Handler))
    (hlen : pk.bytes.length = 188)
    (h : App.consume (.pes tag f) c pk = .ok (h', c', chg)) :
    ∃ out f', h' = .pes tag f' ∧ chg = [] ∧ c'.trace = out ++ c.trace
      ∧ (∀ e ∈ out, EvInPacket tag pk.off e) ∧ c'.nextTag = c.nextTag ∧ c'.cfg = c.cfg := by
  unfold App.consume at h
  simp only [] at h
  obtain ⟨r, hr, h⟩ := R.bind_eq_ok h
  obtain ⟨f', evs⟩ := r
  obtain ⟨c1, hc1, h⟩ := R.bind_eq_ok h
  have := R.ok_inj h
  simp only [Prod.mk.injEq] at this
  obtain ⟨e1, e2, e3⟩ := this
  subst e1 e2 e3
  obtain ⟨_, hevs⟩ := C08.consume_inv hlen hr
  have hok : ∀ e ∈ evs, PEvOk e := by rw [hevs]; exact stepOf_evs_ok f pk.bytes
  obtain ⟨out, h1, h2, h3, h4⟩ := esEvents_trace _ tag pk.bytes pk.off hlen evs c c1 hok hc1
  exact ⟨out, f', rfl, rfl, h1, h2, h3, h4⟩

/-! ### whole-section deliveries: in place vs. from the reassembly buffer -/

theorem bufContSpec_mem (s : Psi.St) (data : Bytes) (d : Psi.Delivery)
    (h : d ∈ (C03.bufContSpec s data).2) :
    ∃ n, s.remaining = some n ∧ n ≤ data.length ∧ d = ⟨s.buf ++ data.take n, none⟩ := by
  unfold C03.bufContSpec at h
  cases hr : s.remaining with
  | none => rw [hr] at h; simp at h
  | some n =>
    rw [hr] at h
    simp only [] at h
    split at h
    · rename_i hle
      simp only [List.mem_singleton] at h
      exact ⟨n, rfl, hle, h⟩
    · simp at h

theorem contSpec_mem (cfg : Psi.Cfg) (s : Psi.St) (data : Bytes) (d : Psi.Delivery)
    (h : d ∈ (C03.contSpec cfg s data).2) :
    s.ignoreRest = false ∧ (cfg.dedup && s.dedupIgnore) = false ∧
    ∃ n, s.remaining = some n ∧ n ≤ data.length ∧ d = ⟨s.buf ++ data.take n, none⟩ := by
  unfold C03.contSpec at h
  split at h
  · simp at h
  · split at h
    · simp at h
    · rename_i h1 h2
      exact ⟨by simpa using h1, by simpa using h2, bufContSpec_mem s data d h⟩

theorem bufStartSpec_mem (s : Psi.St) (data : Bytes) (off : Nat) (d : Psi.Delivery)
    (h : d ∈ (C03.bufStartSpec s data off).2) :
    C03.hdrLen data + 3 ≤ data.length ∧ d = ⟨data.take (C03.hdrLen data + 3), some off⟩ := by
  unfold C03.bufStartSpec at h
  split at h
  · rename_i hle
    simp only [List.mem_singleton] at h
    exact ⟨hle, h⟩
  · simp at h

theorem startSpec_mem (cfg : Psi.Cfg) (s : Psi.St) (data : Bytes) (off : Nat) (d : Psi.Delivery)
    (h : d ∈ (C03.startSpec cfg s data off).2) :
    C03.startOk cfg data = true ∧ C03.hdrLen data + 3 ≤ data.length
      ∧ d = ⟨data.take (C03.hdrLen data + 3), some off⟩ := by
  unfold C03.startSpec at h
  split at h
  · rename_i hok
    refine ⟨hok, ?_⟩
    unfold C03.dedupStartSpec at h
    split at h
    · split at h
      · simp at h
      · exact bufStartSpec_mem _ data off d h
    · exact bufStartSpec_mem _ data off d h
  · simp at h

/-- `d` is a section that STARTS in the unit-start payload `pk` (at packet offset `off`) and whose
`3 + section_length` bytes are all present in it: it is delivered in place, at
`off + 1 + pointer_field` -/
def StartedHere (cfg : Psi.Cfg) (pk : Bytes) (off : Nat) (d : Psi.Delivery) : Prop :=
  let ptr := byteD pk 0
  let ns := (pk.drop 1).drop ptr
  C03.startOk cfg ns = true ∧ 3 + C03.hdrLen ns ≤ ns.length
    ∧ d = ⟨ns.take (3 + C03.hdrLen ns), some (off + 1 + ptr)⟩

/-- `d` is a buffered section completed by the continuation bytes `data` -/
def CompletedBy (s : Psi.St) (data : Bytes) (d : Psi.Delivery) : Prop :=
  ∃ n, s.remaining = some n ∧ n ≤ data.length ∧ d = ⟨s.buf ++ data.take n, none⟩

/-- the continuation bytes of a payload: all of it, or the `pointer_field` bytes of a unit start -/
def contBytes (us : Bool) (pk : Bytes) : Bytes :=
  if us then (pk.drop 1).take (byteD pk 0) else pk

theorem consumeSpec_origin (cfg : Psi.Cfg) (s : Psi.St) (us : Bool) (pk : Bytes) (off : Nat) :
    ∀ d ∈ (C03.consumeSpec cfg s us pk off).2,
      (us = true ∧ StartedHere cfg pk off d) ∨ CompletedBy s (contBytes us pk) d := by
  intro d hd
  unfold C03.consumeSpec at hd
  cases us with
  | false =>
    simp only [Bool.false_eq_true, if_false] at hd
    exact Or.inr (contSpec_mem cfg s pk d hd).2.2
  | true =>
    simp only [if_true] at hd
    split at hd
    · simp at hd
    · have hr1 : ∀ d ∈ (if 0 < byteD pk 0 then C03.contSpec cfg s ((pk.drop 1).take (byteD pk 0))
          else (s, [])).2, CompletedBy s (contBytes true pk) d := by
        intro d hd
        split at hd
        · exact (contSpec_mem cfg s _ d hd).2.2
        · simp at hd
      split at hd
      · exact Or.inr (hr1 d hd)
      · simp only [List.mem_append] at hd
        rcases hd with hd | hd
        · exact Or.inr (hr1 d hd)
        · obtain ⟨h1, h2, h3⟩ := startSpec_mem cfg _ _ _ d hd
          refine Or.inl ⟨rfl, h1, by omega, ?_⟩
          rw [h3, Nat.add_comm]

/-- the payload view of a 188-byte packet is the tail of the packet from the payload offset -/
theorem plOf_bytes (p : Bytes) (h : p.length = 188) (q : C03.Pl) (hq : C03.plOf p = some q) :
    q.bytes = p.drop q.off := by
  have hsz := C03.plOf_size p h q hq
  unfold C03.plOf at hq
  cases hr : (Props.C12.splitSpec (Packet.hasAf (byteD p 3)) (Packet.hasPayload (byteD p 3)) (byteD p 4)).2 with
  | none => rw [hr] at hq; cases hq
  | some r =>
    rw [hr] at hq
    simp only [Option.some.injEq] at hq
    subst hq
    simp only [Packet.rangeBytes] at hsz ⊢
    apply List.take_of_length_le
    rw [List.length_drop]
    have := hsz.2.2.1
    simp only [List.length_take, List.length_drop] at this
    omega

/-- an in-place delivery is a window of the packet -/
theorem startedHere_window (cfg : Psi.Cfg) (p : Bytes) (h : p.length = 188) (q : C03.Pl)
    (hq : C03.plOf p = some q) (d : Psi.Delivery) (hd : StartedHere cfg q.bytes q.off d) :
    d.inplace = some (q.off + 1 + byteD q.bytes 0)
      ∧ d.bytes = (p.drop (q.off + 1 + byteD q.bytes 0)).take d.bytes.length
      ∧ q.off + 1 + byteD q.bytes 0 + d.bytes.length ≤ 188
      ∧ d.bytes.length = 3 + C03.hdrLen d.bytes := by
  obtain ⟨_, hfit, hd⟩ := hd
  have hb := plOf_bytes p h q hq
  have hns : (q.bytes.drop 1).drop (byteD q.bytes 0) = p.drop (q.off + 1 + byteD q.bytes 0) := by
    rw [hb, List.drop_drop, List.drop_drop, Nat.add_assoc]
  rw [hns] at hfit hd
  have hl : d.bytes.length = 3 + C03.hdrLen (p.drop (q.off + 1 + byteD q.bytes 0)) := by
    rw [hd]; simp only [List.length_take]; omega
  refine ⟨by rw [hd], ?_, ?_, ?_⟩
  · rw [hl, hd]
  · rw [hl]; rw [List.length_drop] at hfit; omega
  · rw [hl, hd]
    simp only []
    rw [C03.hdrLen_take _ _ (by omega)]

end Ts.Lemmas.C19
