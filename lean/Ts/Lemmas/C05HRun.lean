import Ts.Lemmas.C05Hd
/-!
# C05 over whole histories — the concrete histories used for non-vacuity

Packets: the generator's `F7control` / `F7` probes (`/verif/harness/target/release/harness gen probes
quick 1`, lines `F7control demux b0t0 …` and `F7 demux b0t0 …`), i.e. `Ts.Lemmas.C05Run.ctlBytes` /
`f7Bytes`.  Here they are framed into packets (`Demux.frame`, evaluated by the kernel), cut into the
events of a history, and `Realises` / `WF` / `CollisionFree` are established for them — by kernel
evaluation of the small decidable side conditions (section well-formedness, CRC-32 by the bit-serial
specification, payload views), NOT of the whole model.
-/
namespace Ts.Lemmas.C05HRun
open Ts Ts.Tables Ts.App Ts.Demux Ts.Spec Ts.Spec.TableSpec Ts.Spec.Routing Ts.Spec.RoutingHistory
open Ts.Spec.SectionMux Ts.Lemmas.C03 Ts.Lemmas.C10 Ts.Lemmas.C05Run Ts.Lemmas.C05H

/-! ### the sections carried by the packets -/

/-- PAT version 0: program 1 → 0x100 -/
def patS0 : Bytes :=
  [0x00, 0xb0, 0x0d, 0x00, 0x01, 0xc1, 0x00, 0x00, 0x00, 0x01, 0xe1, 0x00, 0xe8, 0xf9, 0x5e, 0x7d]

/-- PAT version 1: program 1 → 0x100, program 2 → 0x110 -/
def patS1 : Bytes :=
  [0x00, 0xb0, 0x11, 0x00, 0x01, 0xc3, 0x00, 0x00, 0x00, 0x01, 0xe1, 0x00, 0x00, 0x02, 0xe1, 0x10,
   0xf0, 0xeb, 0x33, 0x61]

/-- PMT version 0 (program 1): PCR PID 0x101, 0x1b on 0x101, 0x0f on 0x102 -/
def pmtS0 : Bytes :=
  [0x02, 0xb0, 0x17, 0x00, 0x01, 0xc1, 0x00, 0x00, 0xe1, 0x01, 0xf0, 0x00, 0x1b, 0xe1, 0x01, 0xf0, 0x00,
   0x0f, 0xe1, 0x02, 0xf0, 0x00, 0x9e, 0x28, 0xc6, 0xdd]

/-- PMT version 1 (program 1): only 0x1b on 0x101 -/
def pmtS1 : Bytes :=
  [0x02, 0xb0, 0x12, 0x00, 0x01, 0xc3, 0x00, 0x00, 0xe1, 0x01, 0xf0, 0x00, 0x1b, 0xe1, 0x01, 0xf0, 0x00,
   0x40, 0x29, 0xfb, 0x17]

def body0 : Bytes := [0xe1, 0x01, 0xf0, 0x00, 0x1b, 0xe1, 0x01, 0xf0, 0x00, 0x0f, 0xe1, 0x02, 0xf0, 0x00]
def body1 : Bytes := [0xe1, 0x01, 0xf0, 0x00, 0x1b, 0xe1, 0x01, 0xf0, 0x00]

theorem streams_body0 : streamsOf body0 = [⟨0x1b, 0x101, []⟩, ⟨0x0f, 0x102, []⟩] := by decide +kernel
theorem streams_body1 : streamsOf body1 = [⟨0x1b, 0x101, []⟩] := by decide +kernel

/-! ### the packets -/

def pkPat0 : Pk := ⟨patV0, 0, 0, false, false⟩

/-- control history: PAT v0, PMT v0, PMT v1, probe on 0x102 -/
def ctlPks : List Pk :=
  [pkPat0, ⟨pmtV0, 188, 0x100, false, false⟩, ⟨pmtV1, 376, 0x100, false, false⟩,
   ⟨probe, 564, 0x102, false, false⟩]

/-- F7 history: PAT v0, PMT v0, PAT v1, PMT v1, probe on 0x102 -/
def f7Pks : List Pk :=
  [pkPat0, ⟨pmtV0, 188, 0x100, false, false⟩, ⟨Ts.Lemmas.C05Run.patV1, 376, 0, false, false⟩,
   ⟨pmtV1, 564, 0x100, false, false⟩, ⟨probe, 752, 0x102, false, false⟩]

/-- the control history with PAT v0 re-transmitted after PMT v0 -/
def repPks : List Pk :=
  [pkPat0, ⟨pmtV0, 188, 0x100, false, false⟩, ⟨patV0, 376, 0, false, false⟩,
   ⟨pmtV1, 564, 0x100, false, false⟩, ⟨probe, 752, 0x102, false, false⟩]

/-- `Demultiplex::push`'s framing of the generator's bytes yields exactly these packets -/
theorem ctl_frame : Demux.frame ctlBytes 0 = .ok ctlPks := by decide +kernel
theorem f7_frame : Demux.frame f7Bytes 0 = .ok f7Pks := by decide +kernel

/-! ### the histories -/

def ctlHist : List Event :=
  [.patApplied 0 [.program 1 0x100], .pmtApplied 0x100 0 body0, .pmtApplied 0x100 1 body1, .esPacket 0x102]

def f7Hist : List Event :=
  [.patApplied 0 [.program 1 0x100], .pmtApplied 0x100 0 body0,
   .patApplied 1 [.program 1 0x100, .program 2 0x110], .pmtApplied 0x100 1 body1, .esPacket 0x102]

def repHist : List Event :=
  [.patApplied 0 [.program 1 0x100], .pmtApplied 0x100 0 body0, .repetition 0,
   .pmtApplied 0x100 1 body1, .esPacket 0x102]

/-- a PAT that drops its only program after the PMT was applied -/
def dropHist : List Event :=
  [.patApplied 0 [.program 1 0x100], .pmtApplied 0x100 0 body0, .patApplied 1 []]

theorem ctl_wf : WF initRoute ctlHist := by decide +kernel
theorem f7_wf : WF initRoute f7Hist := by decide +kernel
theorem rep_wf : WF initRoute repHist := by decide +kernel
theorem drop_wf : WF initRoute dropHist := by decide +kernel
theorem ctl_cf : CollisionFree ctlHist := by decide +kernel
theorem f7_cf : CollisionFree f7Hist := by decide +kernel
theorem drop_cf : CollisionFree dropHist := by decide +kernel

/-! ### one-packet transmissions -/

/-- a section carried whole by one unit-start packet with `pointer_field = 0` -/
theorem transmits_one (pid : Nat) (S : Bytes) (pk : Pk)
    (h1 : WellFormedSection .syntax S) (h2 : 12 ≤ S.length) (h3 : Ts.CrcSpec.crc S = 0)
    (h4 : pk.pid = pid ∧ pk.flagged = false ∧ pk.bytes.length = 188)
    (h5 : WellFormedMux .syntax S (muxOf S))
    (h6 : plOf pk.bytes = some ⟨true, (muxOf S).first S, 4⟩) : Transmits pid S [pk] :=
  { wf := h1, len := h2, crc := h3
    pkts := fun pk' hm => by rw [List.mem_singleton.1 hm]; exact h4
    mux := ⟨muxOf S, 4, [], h5, by simp [h6], by simp, rfl⟩ }

theorem tx_pat0 (off : Nat) : Transmits 0 patS0 [⟨patV0, off, 0, false, false⟩] :=
  transmits_one 0 patS0 _ (by decide +kernel) (by decide +kernel) (by decide +kernel)
    ⟨rfl, rfl, by show patV0.length = 188; decide +kernel⟩ (by decide +kernel)
    (by show plOf patV0 = _; decide +kernel)

theorem tx_pat1 (off : Nat) : Transmits 0 patS1 [⟨Ts.Lemmas.C05Run.patV1, off, 0, false, false⟩] :=
  transmits_one 0 patS1 _ (by decide +kernel) (by decide +kernel) (by decide +kernel)
    ⟨rfl, rfl, by show Ts.Lemmas.C05Run.patV1.length = 188; decide +kernel⟩ (by decide +kernel)
    (by show plOf Ts.Lemmas.C05Run.patV1 = _; decide +kernel)

theorem tx_pmt0 (off : Nat) : Transmits 0x100 pmtS0 [⟨pmtV0, off, 0x100, false, false⟩] :=
  transmits_one 0x100 pmtS0 _ (by decide +kernel) (by decide +kernel) (by decide +kernel)
    ⟨rfl, rfl, by show pmtV0.length = 188; decide +kernel⟩ (by decide +kernel)
    (by show plOf pmtV0 = _; decide +kernel)

theorem tx_pmt1 (off : Nat) : Transmits 0x100 pmtS1 [⟨pmtV1, off, 0x100, false, false⟩] :=
  transmits_one 0x100 pmtS1 _ (by decide +kernel) (by decide +kernel) (by decide +kernel)
    ⟨rfl, rfl, by show pmtV1.length = 188; decide +kernel⟩ (by decide +kernel)
    (by show plOf pmtV1 = _; decide +kernel)

theorem re_pat0 (r : Route) (off : Nat) :
    RealisesEv r (.patApplied 0 [.program 1 0x100]) [⟨patV0, off, 0, false, false⟩] :=
  ⟨patS0, tx_pat0 off, by decide +kernel, by decide +kernel, by decide +kernel⟩

theorem re_pat1 (r : Route) (off : Nat) :
    RealisesEv r (.patApplied 1 [.program 1 0x100, .program 2 0x110]) [⟨Ts.Lemmas.C05Run.patV1, off, 0, false, false⟩] :=
  ⟨patS1, tx_pat1 off, by decide +kernel, by decide +kernel, by decide +kernel⟩

theorem re_pmt0 (r : Route) (off : Nat) :
    RealisesEv r (.pmtApplied 0x100 0 body0) [⟨pmtV0, off, 0x100, false, false⟩] :=
  ⟨pmtS0, tx_pmt0 off, by decide +kernel, by decide +kernel, by decide +kernel, by decide +kernel⟩

theorem re_pmt1 (r : Route) (off : Nat) :
    RealisesEv r (.pmtApplied 0x100 1 body1) [⟨pmtV1, off, 0x100, false, false⟩] :=
  ⟨pmtS1, tx_pmt1 off, by decide +kernel, by decide +kernel, by decide +kernel, by decide +kernel⟩

theorem re_probe (r : Route) (off : Nat) :
    RealisesEv r (.esPacket 0x102) [⟨probe, off, 0x102, false, false⟩] :=
  ⟨_, rfl, rfl, by show probe.length = 188; decide +kernel⟩

/-- the re-transmitted PAT v0 packet is a repetition packet of version 0 (C10) -/
theorem patV0_rep : RepPacket 0 patV0 := by
  refine ⟨by decide +kernel, ?_⟩
  intro q hq
  have : plOf patV0 = some ⟨true, (muxOf patS0).first patS0, 4⟩ := by decide +kernel
  rw [this] at hq
  cases hq
  exact Or.inr ⟨patS0, muxOf patS0, by decide +kernel, by decide +kernel, by decide +kernel,
    by decide +kernel, rfl, rfl⟩

/-! ### `Realises` -/

theorem ctl_realises : Realises initRoute ctlHist ctlPks :=
  Realises.cons (re_pat0 _ 0) (Realises.cons (re_pmt0 _ 188) (Realises.cons (re_pmt1 _ 376)
    (Realises.cons (re_probe _ 564) (Realises.nil _))))

theorem f7_realises : Realises initRoute f7Hist f7Pks :=
  Realises.cons (re_pat0 _ 0) (Realises.cons (re_pmt0 _ 188) (Realises.cons (re_pat1 _ 376)
    (Realises.cons (re_pmt1 _ 564) (Realises.cons (re_probe _ 752) (Realises.nil _)))))

theorem rep_realises : Realises initRoute repHist repPks := by
  refine Realises.cons (re_pat0 _ 0) (Realises.cons (re_pmt0 _ 188)
    (Realises.cons (pks1 := [⟨patV0, 376, 0, false, false⟩]) ?_
    (Realises.cons (re_pmt1 _ 564) (Realises.cons (re_probe _ 752) (Realises.nil _)))))
  refine ⟨⟨patV0, 376, 0, false, false⟩, rfl, rfl, Or.inr ?_⟩
  have : tableVersion (stepRoute (stepRoute initRoute (.patApplied 0 [.program 1 0x100]))
      (.pmtApplied 0x100 0 body0)) 0 = some 0 := by decide +kernel
  rw [this]
  exact patV0_rep

/-! ### the abstract states reached -/

/-- control: 0x102 was un-routed by PMT v1 (same instance) and re-offered `ByPid` (tag 5) -/
theorem ctl_slots :
    (run initRoute ctlHist).slots 0 = some (.byPid 0, 0) ∧
    (run initRoute ctlHist).slots 0x100 = some (.pmt 0x100 1, 1) ∧
    (run initRoute ctlHist).slots 0x101 = some (.stream 0x100 0x1b 0x101 0x101 [] [], 4) ∧
    (run initRoute ctlHist).slots 0x102 = some (.byPid 0x102, 5) ∧
    (run initRoute ctlHist).slots 0x110 = none ∧
    (run initRoute ctlHist).patVersion = some 0 ∧
    ((run initRoute ctlHist).pmt 0x100).ver = some 1 ∧
    ((run initRoute ctlHist).pmt 0x100).gen = 1 ∧
    ((run initRoute ctlHist).pmt 0x100).streams = [⟨0x1b, 0x101, []⟩] := by decide +kernel

theorem ctl_requests : historyRequests initRoute ctlHist =
    [.pmt 0x100 1, .stream 0x100 0x1b 0x101 0x101 [] [], .stream 0x100 0x0f 0x102 0x101 [] [],
     .stream 0x100 0x1b 0x101 0x101 [] [], .byPid 0x102] := by decide +kernel

/-- F7: 0x102 is still routed by the stream request of PMT v0 (tag 3) after PMT v1 dropped it -/
theorem f7_slots :
    (run initRoute f7Hist).slots 0x100 = some (.pmt 0x100 1, 4) ∧
    (run initRoute f7Hist).slots 0x101 = some (.stream 0x100 0x1b 0x101 0x101 [] [], 6) ∧
    (run initRoute f7Hist).slots 0x102 = some (.stream 0x100 0x0f 0x102 0x101 [] [], 3) ∧
    (run initRoute f7Hist).slots 0x110 = some (.pmt 0x110 2, 5) ∧
    ((run initRoute f7Hist).pmt 0x100).gen = 4 ∧
    ((run initRoute f7Hist).pmt 0x100).streams = [⟨0x1b, 0x101, []⟩] := by decide +kernel

theorem f7_requests : historyRequests initRoute f7Hist =
    [.pmt 0x100 1, .stream 0x100 0x1b 0x101 0x101 [] [], .stream 0x100 0x0f 0x102 0x101 [] [],
     .pmt 0x100 1, .pmt 0x110 2, .stream 0x100 0x1b 0x101 0x101 [] []] := by decide +kernel

/-- a PAT dropping program 1 un-routes the PMT PID but not the program's elementary streams -/
theorem drop_slots :
    (run initRoute dropHist).slots 0x100 = none ∧
    (run initRoute dropHist).slots 0x101 = some (.stream 0x100 0x1b 0x101 0x101 [] [], 2) ∧
    (run initRoute dropHist).slots 0x102 = some (.stream 0x100 0x0f 0x102 0x101 [] [], 3) := by
  decide +kernel

end Ts.Lemmas.C05HRun
