import Ts.Lemmas.BitOps
import Ts.Spec.Bits
import Ts.Spec.TimeSpec
import Ts.Model.Time
/-! Helper lemmas for C15 (timestamps and clock references). -/
namespace Ts.Lemmas.C15
open Ts Ts.Time Ts.Spec Ts.Spec.TimeSpec

/-! ### code side: masks and shifts to arithmetic -/

theorem tsVal_arith (b0 b1 b2 b3 b4 : Nat) (h0 : b0 < 256) (h1 : b1 < 256) (h2 : b2 < 256)
    (h3 : b3 < 256) (h4 : b4 < 256) :
    tsVal b0 b1 b2 b3 b4 = (b0 / 2 % 8) * 2^30 + b1 * 2^22 + (b2 / 2) * 2^15 + b3 * 2^7 + b4 / 2 := by
  unfold tsVal
  rw [and_0e b0 h0, and_fe b2 h2]
  simp only [Nat.shiftLeft_eq, Nat.shiftRight_eq_div_pow]
  simp (disch := omega) only [or_eq_add 7, or_eq_add 15, or_eq_add 22, or_eq_add 30]
  omega

/-! ### spec side: `uimsbf` fields to the same arithmetic -/

theorem field_hi (buf : Bytes) : readBits buf 4 3 = byteD buf 0 / 2 % 8 := by
  have r := readBits_sub buf 0 4 3 (by omega)
  simpa using r

theorem field_mid (buf : Bytes) : readBits buf 8 15 = byteD buf 1 * 2^7 + byteD buf 2 / 2 := by
  have e : readBits buf 8 15 = readBits buf 8 8 * 2^7 + readBits buf (8 + 8) 7 := readBits_add buf 8 8 7
  have r1 := readBits_byte buf 1
  have r2 := readBits_sub buf 2 0 7 (by omega)
  simp only [Nat.mul_one, Nat.add_zero] at r1 r2
  rw [e, r1, r2]
  have := byteD_lt buf 2
  omega

theorem field_lo (buf : Bytes) : readBits buf 24 15 = byteD buf 3 * 2^7 + byteD buf 4 / 2 := by
  have e : readBits buf 24 15 = readBits buf 24 8 * 2^7 + readBits buf (24 + 8) 7 := readBits_add buf 24 8 7
  have r1 := readBits_byte buf 3
  have r2 := readBits_sub buf 4 0 7 (by omega)
  simp only [Nat.add_zero] at r1 r2
  rw [e, r1, r2]
  have := byteD_lt buf 4
  omega

theorem field_prefix (buf : Bytes) : readBits buf 0 4 = byteD buf 0 / 16 := by
  have r := readBits_sub buf 0 0 4 (by omega)
  simp only [Nat.mul_zero, Nat.add_zero] at r
  rw [r]
  have := byteD_lt buf 0
  omega

/-- the marker bit that is the least significant bit of byte `i` -/
theorem field_marker (buf : Bytes) (i : Nat) : readBits buf (8 * i + 7) 1 = byteD buf i % 2 := by
  have r := readBits_sub buf i 7 1 (by omega)
  simpa using r

/-! ### the marker checks and `from_bytes` -/

theorem checkMarkerBit_lsb (buf : Bytes) (i : Nat) (h : i < buf.length) :
    checkMarkerBit buf (8*i+7) =
      .ok (if readBits buf (8*i+7) 1 = 0 then .error (.markerBitNotSet (8*i+7)) else .ok ()) := by
  unfold checkMarkerBit
  have e1 : (8*i+7)/8 = i := by omega
  have e2 : (8*i+7)%8 = 7 := by omega
  rw [e1, e2]
  simp only []
  rw [byteAt_ok buf i h, field_marker]
  have m := and_01 (byteD buf i) (byteD_lt buf i)
  have hm : (1 <<< (7 - 7) : Nat) = 0b0000_0001 := by decide
  simp only [R.ok_bind, R.pure_eq, hm, m]
  have := Nat.mod_two_eq_zero_or_one (byteD buf i)
  rcases this with h0 | h1
  · simp [h0]
  · simp [h1]

theorem fromBytes_exact (buf : Bytes) (h : 5 ≤ buf.length) :
    fromBytes buf = .ok (
      if readBits buf 7 1 = 0 then .error (.markerBitNotSet 7)
      else if readBits buf 23 1 = 0 then .error (.markerBitNotSet 23)
      else if readBits buf 39 1 = 0 then .error (.markerBitNotSet 39)
      else .ok (readBits buf 4 3 * 2^30 + readBits buf 8 15 * 2^15 + readBits buf 24 15)) := by
  unfold fromBytes
  have m7 := checkMarkerBit_lsb buf 0 (by omega)
  have m23 := checkMarkerBit_lsb buf 2 (by omega)
  have m39 := checkMarkerBit_lsb buf 4 (by omega)
  simp only [Nat.mul_zero, Nat.zero_add, Nat.reduceMul, Nat.reduceAdd] at m7 m23 m39
  rw [m7, m23, m39]
  rw [byteAt_ok buf 0 (by omega), byteAt_ok buf 1 (by omega), byteAt_ok buf 2 (by omega),
    byteAt_ok buf 3 (by omega), byteAt_ok buf 4 (by omega)]
  simp only [R.ok_bind, R.pure_eq]
  rw [tsVal_arith _ _ _ _ _ (byteD_lt buf 0) (byteD_lt buf 1) (byteD_lt buf 2) (byteD_lt buf 3) (byteD_lt buf 4)]
  rw [field_hi, field_mid, field_lo]
  by_cases c7 : readBits buf 7 1 = 0
  · simp only [c7, if_true]
  · by_cases c23 : readBits buf 23 1 = 0
    · simp only [c7, c23, if_true, if_false]
    · by_cases c39 : readBits buf 39 1 = 0
      · simp only [c7, c23, c39, if_true, if_false]
      · simp only [c7, c23, c39, if_false]
        have e : byteD buf 0 / 2 % 8 * 2 ^ 30 + byteD buf 1 * 2 ^ 22 + byteD buf 2 / 2 * 2 ^ 15 + byteD buf 3 * 2 ^ 7
            + byteD buf 4 / 2 = byteD buf 0 / 2 % 8 * 2 ^ 30 + (byteD buf 1 * 2 ^ 7 + byteD buf 2 / 2) * 2 ^ 15 +
                (byteD buf 3 * 2 ^ 7 + byteD buf 4 / 2) := by omega
        rw [e]

/-! ### short buffers, prefix check -/

theorem byteAt_short (buf : Bytes) (i : Nat) (h : buf.length ≤ i) :
    byteAt buf i = .panic "index out of bounds" := by
  unfold byteAt
  rw [List.getElem?_eq_none h]

theorem checkMarkerBit_short (buf : Bytes) (n : Nat) (h : buf.length ≤ n / 8) :
    checkMarkerBit buf n = .panic "index out of bounds" := by
  unfold checkMarkerBit
  simp only []
  rw [byteAt_short buf _ h]
  rfl

/-- `from_bytes` can only deliver a value after reading byte 4 (the third marker check): on a
buffer shorter than 5 bytes it errors or panics, it never yields a timestamp -/
theorem fromBytes_ok_len (buf : Bytes) (v : Nat) (h : fromBytes buf = .ok (.ok v)) : 5 ≤ buf.length := by
  by_cases hl : 5 ≤ buf.length
  · exact hl
  · exfalso
    have h39 := checkMarkerBit_short buf 39 (by omega)
    unfold fromBytes at h
    rw [h39] at h
    rcases h7 : checkMarkerBit buf 7 with (⟨⟨e⟩ | ⟨⟨⟩⟩⟩ | s) <;> rw [h7] at h <;> simp only [R.ok_bind, R.panic_bind, R.pure_eq] at h
    · cases h
    · rcases h23 : checkMarkerBit buf 23 with (⟨⟨e⟩ | ⟨⟨⟩⟩⟩ | s) <;> rw [h23] at h <;> simp only [R.ok_bind, R.panic_bind] at h
      · cases h
      · cases h
      · cases h
    · cases h

theorem checkPrefix_ok (buf : Bytes) (e : Nat) (he : e ≤ 15) (h : 1 ≤ buf.length) :
    checkPrefix buf e =
      .ok (if readBits buf 0 4 = e then .ok () else .error (.incorrectPrefix e (readBits buf 0 4))) := by
  unfold checkPrefix
  rw [byteAt_ok buf 0 (by omega), field_prefix]
  have hs : byteD buf 0 >>> 4 = byteD buf 0 / 16 := by rw [Nat.shiftRight_eq_div_pow]
  have ha : assertR (decide (e ≤ 0b1111)) "assert!(expected <= 0b1111)" = .ok () := by
    simp [assertR, he]
  rw [ha]
  simp only [R.ok_bind, R.pure_eq, hs]
  by_cases c : byteD buf 0 / 16 = e
  · simp [c]
  · simp [c]

/-! ### the encoder of the specification, byte by byte -/

theorem byteD_cons_zero (x : UInt8) (l : Bytes) : byteD (x :: l) 0 = x.toNat := by
  simp [byteD]
theorem byteD_cons_succ (x : UInt8) (l : Bytes) (i : Nat) : byteD (x :: l) (i+1) = byteD l i := by
  simp [byteD]

theorem beByte_toNat (w k i : Nat) : (beByte w k i).toNat = w / 2 ^ (8 * (k - 1 - i)) % 256 := by
  unfold beByte
  rw [UInt8.toNat_ofNat']
  omega

/-- the five bytes of `encodeTs`, with anything after them -/
theorem encodeTs_bytes (pfx v : Nat) (rest : Bytes) :
    let buf := encodeTs pfx v ++ rest
    byteD buf 0 = tsWord pfx v / 2^32 % 256 ∧ byteD buf 1 = tsWord pfx v / 2^24 % 256 ∧
    byteD buf 2 = tsWord pfx v / 2^16 % 256 ∧ byteD buf 3 = tsWord pfx v / 2^8 % 256 ∧
    byteD buf 4 = tsWord pfx v % 256 := by
  simp only [encodeTs, List.cons_append, List.nil_append]
  refine ⟨?_, ?_, ?_, ?_, ?_⟩
  · rw [byteD_cons_zero, beByte_toNat]
  · rw [byteD_cons_succ, byteD_cons_zero, beByte_toNat]
  · rw [byteD_cons_succ, byteD_cons_succ, byteD_cons_zero, beByte_toNat]
  · rw [byteD_cons_succ, byteD_cons_succ, byteD_cons_succ, byteD_cons_zero, beByte_toNat]
  · rw [byteD_cons_succ, byteD_cons_succ, byteD_cons_succ, byteD_cons_succ, byteD_cons_zero, beByte_toNat]
    simp

theorem tsWord_arith (pfx v : Nat) (hp : pfx < 16) (hv : v < 2^33) :
    tsWord pfx v = (pfx * 16 + v / 2^30 * 2 + 1) * 2^32 + (v / 2^15 % 2^15 * 2 + 1) * 2^16 + (v % 2^15 * 2 + 1) := by
  unfold tsWord cat
  simp only []
  omega

theorem bytes_arith (pfx hi mid lo w : Nat) (hp : pfx < 16) (hh : hi < 8) (hm : mid < 2^15) (hl : lo < 2^15)
    (hw : w = (pfx * 16 + hi * 2 + 1) * 2^32 + (mid * 2 + 1) * 2^16 + (lo * 2 + 1)) :
    w / 2^32 % 256 = pfx * 16 + hi * 2 + 1 ∧ w / 2^24 % 256 = mid / 2^7 ∧
    w / 2^16 % 256 = mid % 2^7 * 2 + 1 ∧ w / 2^8 % 256 = lo / 2^7 ∧ w % 256 = lo % 2^7 * 2 + 1 := by
  subst hw
  refine ⟨?_, ?_, ?_, ?_, ?_⟩ <;> omega

theorem roundtrip_arith (pfx v w b0 b1 b2 b3 b4 : Nat) (hp : pfx < 16) (hv : v < 2^33)
    (hw : w = (pfx * 16 + v / 2^30 * 2 + 1) * 2^32 + (v / 2^15 % 2^15 * 2 + 1) * 2^16 + (v % 2^15 * 2 + 1))
    (h0 : b0 = w / 2^32 % 256) (h1 : b1 = w / 2^24 % 256) (h2 : b2 = w / 2^16 % 256)
    (h3 : b3 = w / 2^8 % 256) (h4 : b4 = w % 256) :
    b0 % 2 = 1 ∧ b2 % 2 = 1 ∧ b4 % 2 = 1 ∧ b0 / 16 = pfx ∧
    (b0 / 2 % 8) * 2^30 + (b1 * 2^7 + b2 / 2) * 2^15 + (b3 * 2^7 + b4 / 2) = v := by
  obtain ⟨e0, e1, e2, e3, e4⟩ := bytes_arith pfx (v / 2^30) (v / 2^15 % 2^15) (v % 2^15) w hp (by omega) (by omega) (by omega) hw
  rw [← h0] at e0; rw [← h1] at e1; rw [← h2] at e2; rw [← h3] at e3; rw [← h4] at e4
  clear hw h0 h1 h2 h3 h4
  subst e0 e1 e2 e3 e4
  refine ⟨?_, ?_, ?_, ?_, ?_⟩ <;> omega

/-! ### ClockRef -/

theorem crefBase_arith (d0 d1 d2 d3 d4 : Nat) (_h0 : d0 < 256) (h1 : d1 < 256) (h2 : d2 < 256)
    (h3 : d3 < 256) (h4 : d4 < 256) :
    (d0 <<< 25) ||| (d1 <<< 17) ||| (d2 <<< 9) ||| (d3 <<< 1) ||| (d4 >>> 7)
      = d0 * 2^25 + d1 * 2^17 + d2 * 2^9 + d3 * 2 + d4 / 128 := by
  simp only [Nat.shiftLeft_eq, Nat.shiftRight_eq_div_pow]
  simp (disch := omega) only [or_eq_add 1, or_eq_add 9, or_eq_add 17, or_eq_add 25]

theorem crefExt_arith (d4 d5 : Nat) (h5 : d5 < 256) :
    ((d4 &&& 0b1) <<< 8) ||| d5 = d4 % 2 * 2^8 + d5 := by
  rw [Nat.and_one_is_mod, Nat.shiftLeft_eq]
  exact or_eq_add 8 (Nat.dvd_mul_left _ _) h5

theorem field_pcrBase (d : Bytes) :
    readBits d 0 33 = byteD d 0 * 2^25 + byteD d 1 * 2^17 + byteD d 2 * 2^9 + byteD d 3 * 2 + byteD d 4 / 128 := by
  have e1 : readBits d 0 33 = readBits d 0 32 * 2^1 + readBits d (0 + 32) 1 := readBits_add d 0 32 1
  have e2 : readBits d 0 32 = readBits d 0 24 * 2^8 + readBits d (0 + 24) 8 := readBits_add d 0 24 8
  have e3 : readBits d 0 24 = readBits d 0 16 * 2^8 + readBits d (0 + 16) 8 := readBits_add d 0 16 8
  have e4 : readBits d 0 16 = readBits d 0 8 * 2^8 + readBits d (0 + 8) 8 := readBits_add d 0 8 8
  have r0 := readBits_byte d 0
  have r1 := readBits_byte d 1
  have r2 := readBits_byte d 2
  have r3 := readBits_byte d 3
  have r4 := readBits_sub d 4 0 1 (by omega)
  simp only [Nat.mul_zero, Nat.mul_one, Nat.add_zero, Nat.zero_add, Nat.reduceMul] at e1 e2 e3 e4 r0 r1 r2 r3 r4
  rw [e1, e2, e3, e4, r0, r1, r2, r3, r4]
  have := byteD_lt d 4
  omega

theorem field_pcrExt (d : Bytes) : readBits d 39 9 = byteD d 4 % 2 * 2^8 + byteD d 5 := by
  have e : readBits d 39 9 = readBits d 39 1 * 2^8 + readBits d (39 + 1) 8 := readBits_add d 39 1 8
  have r1 := field_marker d 4
  have r2 := readBits_byte d 5
  simp only [Nat.reduceMul, Nat.reduceAdd] at e r1 r2
  rw [e, r1, r2]

theorem crefFromSlice_ok (d : Bytes) (h : 6 ≤ d.length) :
    crefFromSlice d = .ok ⟨readBits d 0 33, readBits d 39 9⟩ := by
  unfold crefFromSlice
  rw [byteAt_ok d 0 (by omega), byteAt_ok d 1 (by omega), byteAt_ok d 2 (by omega),
    byteAt_ok d 3 (by omega), byteAt_ok d 4 (by omega), byteAt_ok d 5 (by omega)]
  simp only [R.ok_bind, R.pure_eq]
  rw [crefBase_arith _ _ _ _ _ (byteD_lt d 0) (byteD_lt d 1) (byteD_lt d 2) (byteD_lt d 3) (byteD_lt d 4),
    crefExt_arith _ _ (byteD_lt d 5), field_pcrBase, field_pcrExt]

/-! ### round trip, prefix wrappers, range -/

theorem encodeTs_length (pfx v : Nat) : (encodeTs pfx v).length = 5 := rfl

/-- decoding the specification's encoding, with anything after the five bytes: the three markers
are set, the prefix field is `pfx`, the value fields give `v` -/
theorem encodeTs_fields (pfx v : Nat) (rest : Bytes) (hp : pfx < 16) (hv : v < 2^33) :
    readBits (encodeTs pfx v ++ rest) 7 1 = 1 ∧ readBits (encodeTs pfx v ++ rest) 23 1 = 1 ∧
    readBits (encodeTs pfx v ++ rest) 39 1 = 1 ∧ readBits (encodeTs pfx v ++ rest) 0 4 = pfx ∧
    readBits (encodeTs pfx v ++ rest) 4 3 * 2^30 + readBits (encodeTs pfx v ++ rest) 8 15 * 2^15
      + readBits (encodeTs pfx v ++ rest) 24 15 = v := by
  obtain ⟨e0, e1, e2, e3, e4⟩ := encodeTs_bytes pfx v rest
  obtain ⟨a0, a2, a4, ap, av⟩ := roundtrip_arith pfx v _ _ _ _ _ _ hp hv (tsWord_arith pfx v hp hv) e0 e1 e2 e3 e4
  have m7 := field_marker (encodeTs pfx v ++ rest) 0
  have m23 := field_marker (encodeTs pfx v ++ rest) 2
  have m39 := field_marker (encodeTs pfx v ++ rest) 4
  simp only [Nat.mul_zero, Nat.zero_add, Nat.reduceMul, Nat.reduceAdd] at m7 m23 m39
  rw [m7, m23, m39, field_prefix, field_hi, field_mid, field_lo]
  exact ⟨a0, a2, a4, ap, av⟩

theorem fromBytes_encode (pfx v : Nat) (rest : Bytes) (hp : pfx < 16) (hv : v < 2^33) :
    fromBytes (encodeTs pfx v ++ rest) = .ok (.ok v) := by
  have hl : 5 ≤ (encodeTs pfx v ++ rest).length := by
    rw [List.length_append, encodeTs_length]; omega
  obtain ⟨a7, a23, a39, _, av⟩ := encodeTs_fields pfx v rest hp hv
  rw [fromBytes_exact _ hl, a7, a23, a39, av]
  rfl

theorem fromPts_unfold (buf : Bytes) (h : 1 ≤ buf.length) :
    fromPtsBytes buf = (if readBits buf 0 4 = 2 then fromBytes buf
      else .ok (.error (.incorrectPrefix 2 (readBits buf 0 4)))) := by
  unfold fromPtsBytes
  rw [checkPrefix_ok buf 2 (by omega) h]
  by_cases c : readBits buf 0 4 = 2
  · simp only [c, if_true, R.ok_bind]
  · simp only [c, if_false, R.ok_bind, R.pure_eq]

theorem fromDts_unfold (buf : Bytes) (h : 1 ≤ buf.length) :
    fromDtsBytes buf = (if readBits buf 0 4 = 1 then fromBytes buf
      else .ok (.error (.incorrectPrefix 1 (readBits buf 0 4)))) := by
  unfold fromDtsBytes
  rw [checkPrefix_ok buf 1 (by omega) h]
  by_cases c : readBits buf 0 4 = 1
  · simp only [c, if_true, R.ok_bind]
  · simp only [c, if_false, R.ok_bind, R.pure_eq]

theorem checkPrefix_short (buf : Bytes) (e : Nat) (h : buf.length = 0) : (checkPrefix buf e).isOk = false := by
  unfold checkPrefix
  rw [byteAt_short buf 0 (by omega)]
  unfold assertR
  split <;> rfl

theorem fromPts_ok_imp (buf : Bytes) (v : Nat) (h : fromPtsBytes buf = .ok (.ok v)) :
    fromBytes buf = .ok (.ok v) := by
  by_cases hl : 1 ≤ buf.length
  · rw [fromPts_unfold buf hl] at h
    split at h
    · exact h
    · cases h
  · exfalso
    have := checkPrefix_short buf 0b0010 (by omega)
    unfold fromPtsBytes at h
    rcases hc : checkPrefix buf 0b0010 with (⟨⟨e⟩ | ⟨⟨⟩⟩⟩ | s) <;> rw [hc] at h this
    · cases this
    · cases this
    · cases h

theorem fromDts_ok_imp (buf : Bytes) (v : Nat) (h : fromDtsBytes buf = .ok (.ok v)) :
    fromBytes buf = .ok (.ok v) := by
  by_cases hl : 1 ≤ buf.length
  · rw [fromDts_unfold buf hl] at h
    split at h
    · exact h
    · cases h
  · exfalso
    have := checkPrefix_short buf 0b0001 (by omega)
    unfold fromDtsBytes at h
    rcases hc : checkPrefix buf 0b0001 with (⟨⟨e⟩ | ⟨⟨⟩⟩⟩ | s) <;> rw [hc] at h this
    · cases this
    · cases this
    · cases h

theorem fromBytes_range (buf : Bytes) (v : Nat) (h : fromBytes buf = .ok (.ok v)) : v < 2^33 := by
  have hl := fromBytes_ok_len buf v h
  rw [fromBytes_exact buf hl] at h
  have b1 := readBits_lt buf 4 3
  have b2 := readBits_lt buf 8 15
  have b3 := readBits_lt buf 24 15
  split at h
  · cases h
  · split at h
    · cases h
    · split at h
      · cases h
      · injection h with h; injection h with h
        omega

end Ts.Lemmas.C15
