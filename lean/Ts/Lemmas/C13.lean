import Ts.Basic
import Ts.Spec.Bits
import Ts.Spec.AfSpec
import Ts.Lemmas.BitOps
import Ts.Model.Af
/-!
# Helper lemmas for C13 (adaptation field / extension accessors = sequential cursor parser)

* flag lemmas: the model's mask tests = the spec's `readBits` flag bits;
* decode lemmas: the model's mask/shift value expressions = `uimsbf` fields of the bytes read;
* slice / `readN` lemmas and *bridging* lemmas: "slice at offset `a` then decode" (model) =
  "read at cursor `a`" (spec).
-/
namespace Ts.Lemmas.C13
open Ts Ts.Spec Ts.Spec.AfSpec Ts.Time Ts.Af

/-! ### flags -/

theorem bit_of_byte0 (buf : Bytes) (o : Nat) (h : o + 1 ≤ 8) :
    readBits buf o 1 = byteD buf 0 / 2 ^ (8 - o - 1) % 2 := by
  have := readBits_sub buf 0 o 1 h
  simpa using this

theorem disc_flag (buf : Bytes) : (readBits buf 0 1 == 1) = (byteD buf 0 &&& 0b1000_0000 != 0) := by
  rw [bit_of_byte0 buf 0 (by omega), and_80 _ (byteD_lt buf 0)]
theorem rai_flag (buf : Bytes) : (readBits buf 1 1 == 1) = (byteD buf 0 &&& 0b0100_0000 != 0) := by
  rw [bit_of_byte0 buf 1 (by omega), and_40 _ (byteD_lt buf 0)]
theorem espi_fin : ∀ b : Fin 256, (b.val &&& 0b10_0000) >>> 5 = b.val / 32 % 2 := by decide +kernel
theorem espi_val (buf : Bytes) : readBits buf 2 1 = (byteD buf 0 &&& 0b10_0000) >>> 5 := by
  rw [bit_of_byte0 buf 2 (by omega)]
  exact (espi_fin ⟨byteD buf 0, byteD_lt buf 0⟩).symm
theorem pcr_flag (buf : Bytes) : (readBits buf 3 1 == 1) = pcrFlag (byteD buf 0) := by
  rw [bit_of_byte0 buf 3 (by omega)]; unfold pcrFlag; rw [and_10 _ (byteD_lt buf 0)]
theorem opcr_flag (buf : Bytes) : (readBits buf 4 1 == 1) = opcrFlag (byteD buf 0) := by
  rw [bit_of_byte0 buf 4 (by omega)]; unfold opcrFlag; rw [and_08 _ (byteD_lt buf 0)]
theorem splice_flag (buf : Bytes) : (readBits buf 5 1 == 1) = spliceFlag (byteD buf 0) := by
  rw [bit_of_byte0 buf 5 (by omega)]; unfold spliceFlag; rw [and_04 _ (byteD_lt buf 0)]
theorem priv_flag (buf : Bytes) : (readBits buf 6 1 == 1) = privFlag (byteD buf 0) := by
  rw [bit_of_byte0 buf 6 (by omega)]; unfold privFlag; rw [and_02 _ (byteD_lt buf 0)]
theorem ext_flag (buf : Bytes) : (readBits buf 7 1 == 1) = extFlag (byteD buf 0) := by
  rw [bit_of_byte0 buf 7 (by omega)]; unfold extFlag; rw [and_01 _ (byteD_lt buf 0)]
  simp
theorem ltw_flag (e : Bytes) : (readBits e 0 1 == 1) = ltwFlag (byteD e 0) := by
  rw [bit_of_byte0 e 0 (by omega)]; unfold ltwFlag; rw [and_80 _ (byteD_lt e 0)]
theorem piecewise_flag (e : Bytes) : (readBits e 1 1 == 1) = piecewiseFlag (byteD e 0) := by
  rw [bit_of_byte0 e 1 (by omega)]; unfold piecewiseFlag; rw [and_40 _ (byteD_lt e 0)]
theorem seamless_flag (e : Bytes) : (readBits e 2 1 == 1) = seamlessFlag (byteD e 0) := by
  rw [bit_of_byte0 e 2 (by omega)]; unfold seamlessFlag; rw [and_20 _ (byteD_lt e 0)]

/-! ### `ClockRef::from_slice` = (33-bit base at bit 0, 9-bit extension at bit 39) -/

theorem base_arith (d0 d1 d2 d3 d4 : Nat) (h1 : d1 < 256) (h2 : d2 < 256) (h3 : d3 < 256) (h4 : d4 < 256) :
    (d0 <<< 25) ||| (d1 <<< 17) ||| (d2 <<< 9) ||| (d3 <<< 1) ||| (d4 >>> 7)
      = (((d0 * 2^8 + d1) * 2^8 + d2) * 2^8 + d3) * 2 + d4 / 128 := by
  simp only [Nat.shiftLeft_eq, Nat.shiftRight_eq_div_pow]
  have a1 : d0 * 2^25 ||| d1 * 2^17 = d0 * 2^25 + d1 * 2^17 := or_eq_add 25 (Nat.dvd_mul_left _ _) (by omega)
  rw [a1]
  have a2 : (d0 * 2^25 + d1 * 2^17) ||| d2 * 2^9 = d0 * 2^25 + d1 * 2^17 + d2 * 2^9 := or_eq_add 17 (by omega) (by omega)
  rw [a2]
  have a3 : (d0 * 2^25 + d1 * 2^17 + d2 * 2^9) ||| d3 * 2^1 = d0 * 2^25 + d1 * 2^17 + d2 * 2^9 + d3 * 2^1 := or_eq_add 9 (by omega) (by omega)
  rw [a3]
  have a4 : (d0 * 2^25 + d1 * 2^17 + d2 * 2^9 + d3 * 2^1) ||| d4 / 2^7 = d0 * 2^25 + d1 * 2^17 + d2 * 2^9 + d3 * 2^1 + d4 / 2^7 := or_eq_add 1 (by omega) (by omega)
  rw [a4]
  omega

theorem cref_decode (d : Bytes) (h : 6 ≤ d.length) : crefFromSlice d = .ok (clockOf d) := by
  unfold crefFromSlice clockOf
  rw [byteAt_ok d 0 (by omega), byteAt_ok d 1 (by omega), byteAt_ok d 2 (by omega),
    byteAt_ok d 3 (by omega), byteAt_ok d 4 (by omega), byteAt_ok d 5 (by omega)]
  simp only [R.ok_bind, R.pure_eq]
  have e1 : readBits d 0 33 = (((readBits d (8*0) 8 * 2^8 + readBits d (8*1) 8) * 2^8 + readBits d (8*2) 8) * 2^8
      + readBits d (8*3) 8) * 2^1 + readBits d (8*4+0) 1 := by
    rw [show (33:Nat) = 8 + 8 + 8 + 8 + 1 from rfl, readBits_add, readBits_add, readBits_add, readBits_add]
  have e2 : readBits d 39 9 = readBits d (8*4+7) 1 * 2^8 + readBits d (8*5) 8 := by
    rw [show (9:Nat) = 1 + 8 from rfl, readBits_add]
  rw [e1, e2]
  simp only [readBits_byte, readBits_sub d 4 0 1 (by omega), readBits_sub d 4 7 1 (by omega)]
  have := byteD_lt d 1; have := byteD_lt d 2; have := byteD_lt d 3; have := byteD_lt d 4; have := byteD_lt d 5
  rw [base_arith _ _ _ _ _ (by assumption) (by assumption) (by assumption) (by assumption)]
  rw [Nat.and_one_is_mod, Nat.shiftLeft_eq, or_eq_add 8 (Nat.dvd_mul_left _ _) (by assumption)]
  have x1 : byteD d 4 / 2 ^ (8 - 0 - 1) % 2 ^ 1 = byteD d 4 / 128 := by omega
  have x2 : byteD d 4 / 2 ^ (8 - 7 - 1) % 2 ^ 1 = byteD d 4 % 2 := by omega
  rw [x1, x2]

/-! ### `Timestamp::from_bytes` = markers 7/23/39 and the 3+15+15 bit value -/

theorem marker_decode (d : Bytes) (i : Nat) (h : i < d.length) :
    checkMarkerBit d (8*i+7) =
      .ok (if readBits d (8*i+7) 1 ≠ 1 then .error (.markerBitNotSet (8*i+7)) else .ok ()) := by
  unfold checkMarkerBit
  have e1 : (8*i+7)/8 = i := by omega
  have e2 : (8*i+7)%8 = 7 := by omega
  simp only [e1, e2]
  rw [byteAt_ok d i h, readBits_sub d i 7 1 (by omega)]
  have m := and_01 (byteD d i) (byteD_lt d i)
  have s : (1 <<< (7 - 7) : Nat) = 0b0000_0001 := by decide
  simp only [R.ok_bind, R.pure_eq, s, m]
  have x : byteD d i / 2 ^ (8 - 7 - 1) % 2 ^ 1 = byteD d i % 2 := by omega
  rw [x]
  by_cases hb : byteD d i % 2 = 1 <;> simp [hb]

theorem tsVal_arith (b0 b1 b2 b3 b4 : Nat) (h0 : b0 < 256) (h1 : b1 < 256) (h2 : b2 < 256) (h3 : b3 < 256)
    (h4 : b4 < 256) :
    tsVal b0 b1 b2 b3 b4 = (b0 / 2 % 8) * 2^30 + (b1 * 2^7 + b2 / 2) * 2^15 + (b3 * 2^7 + b4 / 2) := by
  unfold tsVal
  rw [and_0e b0 h0, and_fe b2 h2]
  simp only [Nat.shiftLeft_eq, Nat.shiftRight_eq_div_pow]
  have a1 : b0 / 2 % 8 * 2 * 2^29 ||| b1 * 2^22 = b0 / 2 % 8 * 2 * 2^29 + b1 * 2^22 :=
    or_eq_add 30 (by omega) (by omega)
  rw [a1]
  have a2 : (b0 / 2 % 8 * 2 * 2^29 + b1 * 2^22) ||| b2 / 2 * 2 * 2^14
      = b0 / 2 % 8 * 2 * 2^29 + b1 * 2^22 + b2 / 2 * 2 * 2^14 := or_eq_add 22 (by omega) (by omega)
  rw [a2]
  have a3 : (b0 / 2 % 8 * 2 * 2^29 + b1 * 2^22 + b2 / 2 * 2 * 2^14) ||| b3 * 2^7
      = b0 / 2 % 8 * 2 * 2^29 + b1 * 2^22 + b2 / 2 * 2 * 2^14 + b3 * 2^7 := or_eq_add 15 (by omega) (by omega)
  rw [a3]
  have a4 : (b0 / 2 % 8 * 2 * 2^29 + b1 * 2^22 + b2 / 2 * 2 * 2^14 + b3 * 2^7) ||| b4 / 2^1
      = b0 / 2 % 8 * 2 * 2^29 + b1 * 2^22 + b2 / 2 * 2 * 2^14 + b3 * 2^7 + b4 / 2^1 :=
    or_eq_add 7 (by omega) (by omega)
  rw [a4]
  omega

theorem dts_bits (d : Bytes) :
    readBits d 4 3 * 2 ^ 30 + readBits d 8 15 * 2 ^ 15 + readBits d 24 15
      = (byteD d 0 / 2 % 8) * 2^30 + (byteD d 1 * 2^7 + byteD d 2 / 2) * 2^15 + (byteD d 3 * 2^7 + byteD d 4 / 2) := by
  have e1 : readBits d 4 3 = byteD d 0 / 2 % 8 := by
    have := readBits_sub d 0 4 3 (by omega); simpa using this
  have e2 : readBits d 8 15 = readBits d (8*1) 8 * 2^7 + readBits d (8*2+0) 7 := by
    rw [show (15:Nat) = 8 + 7 from rfl, readBits_add]
  have e3 : readBits d 24 15 = readBits d (8*3) 8 * 2^7 + readBits d (8*4+0) 7 := by
    rw [show (15:Nat) = 8 + 7 from rfl, readBits_add]
  rw [e1, e2, e3]
  simp only [readBits_byte, readBits_sub d 2 0 7 (by omega), readBits_sub d 4 0 7 (by omega)]
  have := byteD_lt d 2; have := byteD_lt d 4
  have x1 : byteD d 2 / 2 ^ (8 - 0 - 7) % 2 ^ 7 = byteD d 2 / 2 := by omega
  have x2 : byteD d 4 / 2 ^ (8 - 0 - 7) % 2 ^ 7 = byteD d 4 / 2 := by omega
  rw [x1, x2]

/-- `Timestamp::from_bytes` on (at least) five bytes, against the spec's marker/value reading -/
theorem fromBytes_decode (d : Bytes) (h : 5 ≤ d.length) :
    fromBytes d = .ok (match seamlessOf d with
      | .error n => .error (.markerBitNotSet n)
      | .ok v => .ok v.2) := by
  unfold fromBytes seamlessOf
  have m0 := marker_decode d 0 (by omega)
  have m2 := marker_decode d 2 (by omega)
  have m4 := marker_decode d 4 (by omega)
  simp only [Nat.mul_zero, Nat.zero_add, Nat.reduceMul, Nat.reduceAdd] at m0 m2 m4
  rw [m0, m2, m4]
  by_cases h7 : readBits d 7 1 = 1
  · by_cases h23 : readBits d 23 1 = 1
    · by_cases h39 : readBits d 39 1 = 1
      · simp only [h7, h23, h39, ne_eq, not_true_eq_false, if_false, R.ok_bind]
        rw [byteAt_ok d 0 (by omega), byteAt_ok d 1 (by omega), byteAt_ok d 2 (by omega),
          byteAt_ok d 3 (by omega), byteAt_ok d 4 (by omega)]
        simp only [R.ok_bind, R.pure_eq]
        rw [tsVal_arith _ _ _ _ _ (byteD_lt d 0) (byteD_lt d 1) (byteD_lt d 2) (byteD_lt d 3) (byteD_lt d 4),
          dts_bits]
      · simp [h7, h23, h39]
    · simp [h7, h23]
  · simp [h7]

theorem splice_type_bits (d : Bytes) : byteD d 0 >>> 4 = readBits d 0 4 := by
  have := readBits_sub d 0 0 4 (by omega)
  simp only [Nat.mul_zero, Nat.add_zero] at this
  rw [this, Nat.shiftRight_eq_div_pow]
  have := byteD_lt d 0
  omega

/-! ### slices and `readN` -/

theorem slice_ok (buf : Bytes) (a n : Nat) (h : a + n ≤ buf.length) :
    Af.slice buf a (a + n) = .ok (.ok ((buf.drop a).take n)) := by
  unfold Af.slice
  have h1 : ¬ (a + n > buf.length) := by omega
  rw [if_neg h1, sliceR_ok buf a n h]; rfl

theorem slice_short (buf : Bytes) (a n : Nat) (h : ¬ a + n ≤ buf.length) :
    Af.slice buf a (a + n) = .ok (.error .notEnoughData) := by
  unfold Af.slice
  have h1 : a + n > buf.length := by omega
  rw [if_pos h1]

theorem readN_ok (buf : Bytes) (a n : Nat) (h : a + n ≤ buf.length) :
    readN buf a n = some ((buf.drop a).take n) := by simp [readN, h]
theorem readN_short (buf : Bytes) (a n : Nat) (h : ¬ a + n ≤ buf.length) : readN buf a n = none := by
  simp [readN, h]

theorem len_take_drop (buf : Bytes) (a n : Nat) (h : a + n ≤ buf.length) :
    ((buf.drop a).take n).length = n := by simp; omega

theorem byteD_take_drop (buf : Bytes) (a n i : Nat) (h : i < n) :
    byteD ((buf.drop a).take n) i = byteD buf (a + i) := by
  rw [byteD_take _ _ _ h, byteD_drop]

theorem flags_ok (buf : Bytes) (hne : buf ≠ []) : flags buf = .ok (byteD buf 0) :=
  byteAt_ok buf 0 (List.length_pos_iff.mpr hne)

/-! ### bridging: PCR / OPCR -/
theorem clock_at (buf : Bytes) (a : Nat) :
    (do match ← Af.slice buf a (a + PCR_SIZE) with
        | .ok s => do let c ← crefFromSlice s; pure (Except.ok c)
        | .error e => pure (Except.error e) : R (Res ClockRef))
      = .ok (toRes ((ofOpt (readN buf a 6)).map clockOf)) := by
  show (do match ← Af.slice buf a (a + 6) with
        | .ok s => do let c ← crefFromSlice s; pure (Except.ok c)
        | .error e => pure (Except.error e) : R (Res ClockRef)) = _
  by_cases h : a + 6 ≤ buf.length
  · rw [slice_ok _ _ _ h, readN_ok _ _ _ h]
    simp only [R.ok_bind]
    rw [cref_decode _ (by rw [len_take_drop _ _ _ h]; omega)]
    rfl
  · rw [slice_short _ _ _ h, readN_short _ _ _ h]; rfl

theorem clock_field (buf : Bytes) (flag : Bool) (a : Nat) :
    (if flag = true then
        (do match ← Af.slice buf a (a + PCR_SIZE) with
            | .ok s => do let c ← crefFromSlice s; pure (Except.ok c)
            | .error e => pure (Except.error e))
      else pure (Except.error AfErr.fieldNotPresent) : R (Res ClockRef))
      = .ok (toRes ((optElem flag buf a 6).1.map clockOf)) := by
  cases flag
  · rfl
  · simp only [if_true]; exact clock_at buf a

/-! ### bridging: splice_countdown -/
theorem byte_at (buf : Bytes) (a : Nat) :
    (do match ← Af.slice buf a (a + 1) with
        | .ok s => do let v ← byteAt s 0; pure (Except.ok v)
        | .error e => pure (Except.error e) : R (Res Nat))
      = .ok (toRes ((ofOpt (readN buf a 1)).map (fun b => readBits b 0 8))) := by
  by_cases h : a + 1 ≤ buf.length
  · rw [slice_ok _ _ _ h, readN_ok _ _ _ h]
    simp only [R.ok_bind]
    rw [byteAt_ok _ 0 (by rw [len_take_drop _ _ _ h]; omega)]
    have := readBits_byte (List.take 1 (List.drop a buf)) 0
    simp only [Nat.mul_zero] at this
    simp only [R.ok_bind, R.pure_eq, ofOpt, Field.map, toRes, this]
  · rw [slice_short _ _ _ h, readN_short _ _ _ h]; rfl

theorem byte_field (buf : Bytes) (flag : Bool) (a : Nat) :
    (if flag = true then
        (do match ← Af.slice buf a (a + 1) with
            | .ok s => do let v ← byteAt s 0; pure (Except.ok v)
            | .error e => pure (Except.error e))
      else pure (Except.error AfErr.fieldNotPresent) : R (Res Nat))
      = .ok (toRes ((optElem flag buf a 1).1.map (fun b => readBits b 0 8))) := by
  cases flag
  · rfl
  · simp only [if_true]; exact byte_at buf a

/-! ### bridging: length-prefixed elements -/

/-- the length byte read at cursor `a` -/
theorem len_byte (buf : Bytes) (a : Nat) : readBits ((buf.drop a).take 1) 0 8 = byteD buf a := by
  have := readBits_byte (List.take 1 (List.drop a buf)) 0
  simp only [Nat.mul_zero] at this
  rw [this, byteD_take_drop _ _ _ _ (by omega)]; rfl

theorem lenPrefixed_ok (buf : Bytes) (a : Nat) (h : a + 1 ≤ buf.length) :
    lenPrefixed buf a = (ofOpt (readN buf (a + 1) (byteD buf a)), a + 1 + byteD buf a) := by
  unfold lenPrefixed; rw [readN_ok _ _ _ h]; simp only [len_byte]

theorem lenPrefixed_short (buf : Bytes) (a : Nat) (h : ¬ a + 1 ≤ buf.length) :
    lenPrefixed buf a = (.truncated, a + 1) := by
  unfold lenPrefixed; rw [readN_short _ _ _ h]

theorem priv_at (buf : Bytes) (a : Nat) :
    (do match ← Af.slice buf a (a + 1) with
        | .error e => pure (Except.error e)
        | .ok s => do
          let len ← byteAt s 0
          Af.slice buf (a + 1) (a + 1 + len) : R (Res Bytes))
      = .ok (toRes (lenPrefixed buf a).1) := by
  by_cases h : a + 1 ≤ buf.length
  · rw [slice_ok _ _ _ h, lenPrefixed_ok _ _ h]
    simp only [R.ok_bind]
    rw [byteAt_ok _ 0 (by rw [len_take_drop _ _ _ h]; omega), byteD_take_drop _ _ _ _ (by omega)]
    simp only [R.ok_bind, Nat.add_zero]
    by_cases h2 : a + 1 + byteD buf a ≤ buf.length
    · rw [slice_ok _ _ _ h2, readN_ok _ _ _ h2]; rfl
    · rw [slice_short _ _ _ h2, readN_short _ _ _ h2]; rfl
  · rw [slice_short _ _ _ h, lenPrefixed_short _ _ h]; rfl

theorem priv_field (buf : Bytes) (flag : Bool) (a : Nat) :
    (if flag = true then
        (do match ← Af.slice buf a (a + 1) with
            | .error e => pure (Except.error e)
            | .ok s => do
              let len ← byteAt s 0
              Af.slice buf (a + 1) (a + 1 + len))
      else pure (Except.error AfErr.fieldNotPresent) : R (Res Bytes))
      = .ok (toRes (optLenPrefixed flag buf a).1) := by
  cases flag
  · rfl
  · simp only [if_true]; exact priv_at buf a

/-- the code after `adaptation_field_extension_offset()?` -/
def extBody (buf : Bytes) (off : Nat) : R (Res Bytes) := do
  match ← Af.slice buf off (off + 1) with
  | .error e => pure (.error e)
  | .ok s => do
    let len ← byteAt s 0
    match ← Af.slice buf (off + 1) (off + 1 + len) with
    | .error e => pure (.error e)
    | .ok e => pure (extNew e)

theorem extNew_eq (e : Bytes) : extNew e = toRes (nonEmpty (.present e)) := by
  cases e <;> rfl

theorem ext_at (buf : Bytes) (a : Nat) : extBody buf a = .ok (toRes (nonEmpty (lenPrefixed buf a).1)) := by
  unfold extBody
  by_cases h : a + 1 ≤ buf.length
  · rw [slice_ok _ _ _ h, lenPrefixed_ok _ _ h]
    simp only [R.ok_bind]
    rw [byteAt_ok _ 0 (by rw [len_take_drop _ _ _ h]; omega), byteD_take_drop _ _ _ _ (by omega)]
    simp only [R.ok_bind, Nat.add_zero]
    by_cases h2 : a + 1 + byteD buf a ≤ buf.length
    · rw [slice_ok _ _ _ h2, readN_ok _ _ _ h2]
      simp only [R.ok_bind, R.pure_eq, extNew_eq]; rfl
    · rw [slice_short _ _ _ h2, readN_short _ _ _ h2]; rfl
  · rw [slice_short _ _ _ h, lenPrefixed_short _ _ h]; rfl

/-- `adaptation_field_extension_offset()` = the spec's cursor after the private-data element;
when the private-data length byte is missing the model reports not-enough-data, and the spec's cursor is
past the end so the extension is truncated as well -/
theorem ext_from (buf : Bytes) (pf : Bool) (a : Nat) :
    (do match ← (do
          if pf = true then
            match ← Af.slice buf a (a + 1) with
            | .error e => pure (Except.error e)
            | .ok s => do let len ← byteAt s 0; pure (Except.ok (a + (len + 1)))
          else pure (Except.ok (a + 0)) : R (Res Nat)) with
        | .error e => pure (Except.error e)
        | .ok off => extBody buf off : R (Res Bytes))
      = .ok (toRes (nonEmpty (lenPrefixed buf (optLenPrefixed pf buf a).2).1)) := by
  cases pf
  · simp only [Bool.false_eq_true, if_false, R.pure_eq, R.ok_bind, Nat.add_zero]
    exact ext_at buf a
  · simp only [if_true, optLenPrefixed]
    by_cases h : a + 1 ≤ buf.length
    · rw [slice_ok _ _ _ h, lenPrefixed_ok _ _ h]
      simp only [R.ok_bind]
      rw [byteAt_ok _ 0 (by rw [len_take_drop _ _ _ h]; omega), byteD_take_drop _ _ _ _ (by omega)]
      simp only [R.ok_bind, R.pure_eq, Nat.add_zero]
      rw [show a + (byteD buf a + 1) = a + 1 + byteD buf a by omega]
      exact ext_at buf _
    · rw [slice_short _ _ _ h, lenPrefixed_short _ _ h]
      simp only [R.ok_bind, R.pure_eq]
      rw [lenPrefixed_short _ _ (by omega)]; rfl

/-! ### extension value decoding -/

theorem ltw_decode (d : Bytes) (h : 2 ≤ d.length) :
    (do let d0 ← byteAt d 0
        let valid := d0 &&& 0b1000_0000 != 0
        if valid then do
          let d0' ← byteAt d 0
          let d1 ← byteAt d 1
          pure (Except.ok (some (((d0' &&& 0b0111_1111) <<< 8) ||| d1)))
        else pure (Except.ok none) : R (Res (Option Nat)))
      = .ok (.ok (ltwOf d)) := by
  rw [byteAt_ok d 0 (by omega), byteAt_ok d 1 (by omega)]
  simp only [R.ok_bind, R.pure_eq]
  unfold ltwOf
  rw [disc_flag d]
  cases hv : (byteD d 0 &&& 0b1000_0000 != 0)
  · simp
  · simp only [if_true]
    have e : readBits d 1 15 = readBits d (8*0+1) 7 * 2^8 + readBits d (8*1) 8 := by
      rw [show (15:Nat) = 7 + 8 from rfl, readBits_add]
    rw [e, readBits_sub d 0 1 7 (by omega), readBits_byte, and_7f _ (byteD_lt d 0), Nat.shiftLeft_eq,
      or_eq_add 8 (Nat.dvd_mul_left _ _) (byteD_lt d 1)]
    have x : byteD d 0 / 2 ^ (8 - 1 - 7) % 2 ^ 7 = byteD d 0 % 128 := by omega
    rw [x]

theorem pw_arith (d0 d1 d2 : Nat) (h1 : d1 < 256) (h2 : d2 < 256) :
    ((d0 % 64) <<< 16) ||| (d1 <<< 8) ||| d2 = ((d0 % 64) * 2^8 + d1) * 2^8 + d2 := by
  simp only [Nat.shiftLeft_eq]
  have a1 : d0 % 64 * 2^16 ||| d1 * 2^8 = d0 % 64 * 2^16 + d1 * 2^8 := or_eq_add 16 (Nat.dvd_mul_left _ _) (by omega)
  rw [a1]
  have a2 : (d0 % 64 * 2^16 + d1 * 2^8) ||| d2 = d0 % 64 * 2^16 + d1 * 2^8 + d2 := or_eq_add 8 (by omega) (by omega)
  rw [a2]; omega

theorem pw_decode (d : Bytes) (h : 3 ≤ d.length) :
    (do let d0 ← byteAt d 0; let d1 ← byteAt d 1; let d2 ← byteAt d 2
        pure (Except.ok (((d0 &&& 0b0011_1111) <<< 16) ||| (d1 <<< 8) ||| d2)) : R (Res Nat))
      = .ok (.ok (piecewiseOf d)) := by
  rw [byteAt_ok d 0 (by omega), byteAt_ok d 1 (by omega), byteAt_ok d 2 (by omega)]
  simp only [R.ok_bind, R.pure_eq]
  unfold piecewiseOf
  have e : readBits d 2 22 = (readBits d (8*0+2) 6 * 2^8 + readBits d (8*1) 8) * 2^8 + readBits d (8*2) 8 := by
    rw [show (22:Nat) = 6 + 8 + 8 from rfl, readBits_add, readBits_add]
  rw [e, readBits_sub d 0 2 6 (by omega)]
  simp only [readBits_byte]
  rw [and_3f _ (byteD_lt d 0), pw_arith _ _ _ (byteD_lt d 1) (byteD_lt d 2)]
  have x : byteD d 0 / 2 ^ (8 - 2 - 6) % 2 ^ 6 = byteD d 0 % 64 := by omega
  rw [x]

theorem ss_decode (d : Bytes) (h : 5 ≤ d.length) :
    (do let d0 ← byteAt d 0
        let spliceType := d0 >>> 4
        match ← fromBytes d with
        | .error e => pure (Except.error (AfErr.spliceTimestampError e))
        | .ok v => pure (Except.ok (spliceType, v)) : R (Res (Nat × Nat)))
      = .ok (toResSplice (.present (seamlessOf d))) := by
  rw [byteAt_ok d 0 (by omega), fromBytes_decode d h]
  simp only [R.ok_bind, splice_type_bits]
  unfold seamlessOf
  by_cases h7 : readBits d 7 1 = 1
  · by_cases h23 : readBits d 23 1 = 1
    · by_cases h39 : readBits d 39 1 = 1
      · simp only [h7, h23, h39, ne_eq, not_true_eq_false, if_false]; rfl
      · simp only [h7, h23, h39, ne_eq, not_true_eq_false, not_false_eq_true, if_false, if_true]; rfl
    · simp only [h7, h23, ne_eq, not_true_eq_false, not_false_eq_true, if_false, if_true]; rfl
  · simp only [h7, ne_eq, not_false_eq_true, if_true]; rfl

/-! ### bridging: extension elements -/

theorem ltw_field (e : Bytes) (flag : Bool) :
    (if flag = true then
        (do match ← Af.slice e 1 3 with
            | .error er => pure (Except.error er)
            | .ok dat => do
              let d0 ← byteAt dat 0
              let valid := d0 &&& 0b1000_0000 != 0
              if valid then do
                let d0' ← byteAt dat 0
                let d1 ← byteAt dat 1
                pure (Except.ok (some (((d0' &&& 0b0111_1111) <<< 8) ||| d1)))
              else pure (Except.ok none))
      else pure (Except.error AfErr.fieldNotPresent) : R (Res (Option Nat)))
      = .ok (toRes ((optElem flag e 1 2).1.map ltwOf)) := by
  cases flag
  · rfl
  · simp only [if_true, optElem]
    have s3 : Af.slice e 1 3 = Af.slice e 1 (1 + 2) := rfl
    rw [s3]
    by_cases h : 1 + 2 ≤ e.length
    · rw [slice_ok _ _ _ h, readN_ok _ _ _ h]
      simp only [R.ok_bind]
      rw [ltw_decode _ (by rw [len_take_drop _ _ _ h]; omega)]; rfl
    · rw [slice_short _ _ _ h, readN_short _ _ _ h]; rfl

theorem pw_field (e : Bytes) (flag : Bool) (a : Nat) :
    (if flag = true then
        (do match ← Af.slice e a (a + 3) with
            | .error er => pure (Except.error er)
            | .ok dat => do
              let d0 ← byteAt dat 0; let d1 ← byteAt dat 1; let d2 ← byteAt dat 2
              pure (Except.ok (((d0 &&& 0b0011_1111) <<< 16) ||| (d1 <<< 8) ||| d2)))
      else pure (Except.error AfErr.fieldNotPresent) : R (Res Nat))
      = .ok (toRes ((optElem flag e a 3).1.map piecewiseOf)) := by
  cases flag
  · rfl
  · simp only [if_true, optElem]
    by_cases h : a + 3 ≤ e.length
    · rw [slice_ok _ _ _ h, readN_ok _ _ _ h]
      simp only [R.ok_bind]
      rw [pw_decode _ (by rw [len_take_drop _ _ _ h]; omega)]; rfl
    · rw [slice_short _ _ _ h, readN_short _ _ _ h]; rfl

theorem ss_field (e : Bytes) (flag : Bool) (a : Nat) :
    (if flag = true then
        (do match ← Af.slice e a (a + 5) with
            | .error er => pure (Except.error er)
            | .ok dat => do
              let d0 ← byteAt dat 0
              let spliceType := d0 >>> 4
              match ← fromBytes dat with
              | .error er => pure (Except.error (AfErr.spliceTimestampError er))
              | .ok v => pure (Except.ok (spliceType, v)))
      else pure (Except.error AfErr.fieldNotPresent) : R (Res (Nat × Nat)))
      = .ok (toResSplice ((optElem flag e a 5).1.map seamlessOf)) := by
  cases flag
  · rfl
  · simp only [if_true, optElem]
    by_cases h : a + 5 ≤ e.length
    · rw [slice_ok _ _ _ h, readN_ok _ _ _ h]
      simp only [R.ok_bind]
      rw [ss_decode _ (by rw [len_take_drop _ _ _ h]; omega)]; rfl
    · rw [slice_short _ _ _ h, readN_short _ _ _ h]; rfl

/-! ### the spec's fields as "element at the cursor left by the preceding elements"

`specAf` threads the cursor through a chain of `let (field, cur) := …`; these equations (all by
`rfl`) name the intermediate cursors, and `cur*_eq` show that the model's flag-computed offsets are
exactly those cursors. -/

def cur1 (buf : Bytes) : Nat := (optElem (readBits buf 3 1 == 1) buf 1 6).2
def cur2 (buf : Bytes) : Nat := (optElem (readBits buf 4 1 == 1) buf (cur1 buf) 6).2
def cur3 (buf : Bytes) : Nat := (optElem (readBits buf 5 1 == 1) buf (cur2 buf) 1).2
def cur4 (buf : Bytes) : Nat := (optLenPrefixed (readBits buf 6 1 == 1) buf (cur3 buf)).2

theorem spec_pcr (buf : Bytes) :
    (specAf buf).pcr = (optElem (readBits buf 3 1 == 1) buf 1 6).1.map clockOf := rfl
theorem spec_opcr (buf : Bytes) :
    (specAf buf).opcr = (optElem (readBits buf 4 1 == 1) buf (cur1 buf) 6).1.map clockOf := rfl
theorem spec_splice (buf : Bytes) :
    (specAf buf).splice
      = (optElem (readBits buf 5 1 == 1) buf (cur2 buf) 1).1.map (fun b => readBits b 0 8) := rfl
theorem spec_priv (buf : Bytes) :
    (specAf buf).priv = (optLenPrefixed (readBits buf 6 1 == 1) buf (cur3 buf)).1 := rfl
theorem spec_ext (buf : Bytes) :
    (specAf buf).ext = nonEmpty (optLenPrefixed (readBits buf 7 1 == 1) buf (cur4 buf)).1 := rfl

theorem cur1_eq (buf : Bytes) : cur1 buf = opcrOffset (byteD buf 0) := by
  unfold cur1 opcrOffset optElem PCR_SIZE; rw [pcr_flag]; cases pcrFlag (byteD buf 0) <;> rfl
theorem cur2_eq (buf : Bytes) : cur2 buf = spliceOffset (byteD buf 0) := by
  unfold cur2 spliceOffset optElem PCR_SIZE; rw [cur1_eq, opcr_flag]; cases opcrFlag (byteD buf 0) <;> rfl
theorem cur3_eq (buf : Bytes) : cur3 buf = privOffset (byteD buf 0) := by
  unfold cur3 privOffset optElem; rw [cur2_eq, splice_flag]; cases spliceFlag (byteD buf 0) <;> rfl

theorem optLenPrefixed_true (buf : Bytes) (c : Nat) : optLenPrefixed true buf c = lenPrefixed buf c := rfl

def ecur1 (e : Bytes) : Nat := (optElem (readBits e 0 1 == 1) e 1 2).2
def ecur2 (e : Bytes) : Nat := (optElem (readBits e 1 1 == 1) e (ecur1 e) 3).2

theorem spec_ltw (e : Bytes) : (specExt e).ltw = (optElem (readBits e 0 1 == 1) e 1 2).1.map ltwOf := rfl
theorem spec_piecewise (e : Bytes) :
    (specExt e).piecewise = (optElem (readBits e 1 1 == 1) e (ecur1 e) 3).1.map piecewiseOf := rfl
theorem spec_seamless (e : Bytes) :
    (specExt e).seamless = (optElem (readBits e 2 1 == 1) e (ecur2 e) 5).1.map seamlessOf := rfl

theorem ecur1_eq (e : Bytes) : ecur1 e = piecewiseOffset (byteD e 0) := by
  unfold ecur1 piecewiseOffset optElem; rw [ltw_flag]; cases ltwFlag (byteD e 0) <;> rfl
theorem ecur2_eq (e : Bytes) : ecur2 e = seamlessOffset (byteD e 0) := by
  unfold ecur2 seamlessOffset optElem; rw [ecur1_eq, piecewise_flag]; cases piecewiseFlag (byteD e 0) <;> rfl

/-! ### where `present` values come from -/

theorem readN_inside (buf : Bytes) (cur n : Nat) (d : Bytes) (h : readN buf cur n = some d) :
    cur + n ≤ buf.length ∧ d = (buf.drop cur).take n ∧ d.length = n ∧
      ∀ i, i < n → byteD d i = byteD buf (cur + i) := by
  unfold readN at h
  by_cases hl : cur + n ≤ buf.length
  · rw [if_pos hl] at h
    have hd : d = (buf.drop cur).take n := by injection h with h; exact h.symm
    refine ⟨hl, hd, ?_, ?_⟩
    · rw [hd]; exact len_take_drop _ _ _ hl
    · intro i hi; rw [hd]; exact byteD_take_drop _ _ _ _ hi
  · rw [if_neg hl] at h; cases h

theorem ofOpt_present {α} (o : Option α) (v : α) (h : ofOpt o = .present v) : o = some v := by
  cases o with
  | none => cases h
  | some w => injection h with h; rw [h]

theorem optElem_present (flag : Bool) (buf : Bytes) (cur n : Nat) (v : Bytes)
    (h : (optElem flag buf cur n).1 = .present v) : flag = true ∧ readN buf cur n = some v := by
  cases flag
  · cases h
  · exact ⟨rfl, ofOpt_present _ _ h⟩

theorem map_present {α β} (f : α → β) (x : Field α) (w : β) (h : x.map f = .present w) :
    ∃ v, x = .present v ∧ w = f v := by
  cases x with
  | absent => cases h
  | truncated => cases h
  | present v => injection h with h; exact ⟨v, rfl, h.symm⟩

theorem lenPrefixed_present (buf : Bytes) (cur : Nat) (v : Bytes)
    (h : (lenPrefixed buf cur).1 = .present v) :
    cur + 1 ≤ buf.length ∧ readN buf (cur + 1) (byteD buf cur) = some v := by
  by_cases hl : cur + 1 ≤ buf.length
  · rw [lenPrefixed_ok _ _ hl] at h
    exact ⟨hl, ofOpt_present _ _ h⟩
  · rw [lenPrefixed_short _ _ hl] at h; cases h

theorem optLenPrefixed_present (flag : Bool) (buf : Bytes) (cur : Nat) (v : Bytes)
    (h : (optLenPrefixed flag buf cur).1 = .present v) :
    flag = true ∧ cur + 1 ≤ buf.length ∧ readN buf (cur + 1) (byteD buf cur) = some v := by
  cases flag
  · cases h
  · exact ⟨rfl, lenPrefixed_present _ _ _ h⟩

theorem nonEmpty_present (x : Field Bytes) (v : Bytes) (h : nonEmpty x = .present v) :
    x = .present v ∧ v ≠ [] := by
  cases x with
  | absent => cases h
  | truncated => cases h
  | present w =>
    cases w with
    | nil => cases h
    | cons a t => injection h with h; subst h; exact ⟨rfl, by simp⟩

theorem toRes_ok {α} (x : Field α) (v : α) (h : toRes x = .ok v) : x = .present v := by
  cases x with
  | absent => cases h
  | truncated => cases h
  | present w => injection h with h; rw [h]

theorem toRes_notEnough {α} (x : Field α) : toRes x = .error .notEnoughData ↔ x = .truncated := by
  cases x <;> simp [toRes]

theorem toRes_notPresent {α} (x : Field α) : toRes x = .error .fieldNotPresent ↔ x = .absent := by
  cases x <;> simp [toRes]

end Ts.Lemmas.C13
