import Ts.Model.App
import Ts.Lemmas.Demux
import Ts.Lemmas.C08
import Ts.Lemmas.C19
import Ts.Lemmas.C02b
/-!
# Per-consumer view of the application trace, part 1: the tag discipline

The application context `App.Ctx` hands out *tags* (`nextTag`) to the handlers it constructs and
records every callback in ONE shared trace.  This file proves the discipline that makes the shared
trace projectable:

* `tagOf`, `hTag`, `tagsIn`, `TagInv`: every tag held by a handler in the table is `< nextTag`,
  tags are pairwise distinct across slots, every tagged event in the trace has a tag `< nextTag`;
* `consume_facts`: what one `App.consume` of ANY handler does to the context (events only of its
  own tag, changes carry fresh increasing tags, PES handlers are inserted in their initial state);
* `specStep_facts`, `pushSpec_tagInv`, `push_tagInv`, `pushAll_tagInv`, `init_tagInv`;
* `esEvList`: the events `App.esEvents` appends, as a list (`esEvents_eq_list`).
-/
namespace Ts.Lemmas.Proj
open Ts Ts.Demux Ts.App
open Ts.Lemmas.C19 (R.bind_eq_ok R.ok_inj)

/-- `R` is a lawful monad (used only to unfold `List.mapM`) -/
local instance : LawfulMonad R := LawfulMonad.mk' (m := R)
  (id_map := by intro α x; cases x <;> rfl)
  (pure_bind := by intros; rfl)
  (bind_assoc := by intro α β γ x f g; cases x <;> rfl)

/-! ### tags -/

/-- the consumer tag an application event is attributed to -/
def tagOf : Ev → Option Nat
  | .pkt tag _ => some tag
  | .esStart tag => some tag
  | .esBegin tag _ => some tag
  | .esCont tag _ _ => some tag
  | .esEnd tag => some tag
  | .esCcErr tag => some tag
  | .construct _ _ => none
  | .scriptIns _ _ => none
  | .scriptRem _ => none

/-- the tag a handler holds -/
def hTag : Handler → Option Nat
  | .pes tag _ => some tag
  | .recorder tag => some tag
  | .pat _ _ => none
  | .pmt _ _ _ _ => none

/-- tags of the `.pes tag _` and `.recorder tag` handlers in the table, in slot order -/
def tagsIn (t : Tab Handler) : List Nat := t.filterMap (fun o => o.bind hTag)

/-- the elementary-stream callback an application event records, arguments erased (the protocol
acceptor of C08 looks at the constructor only: `protoStep_shape`) -/
def esShape : Ev → Option PesFilter.Ev
  | .esStart _ => some .start
  | .esBegin _ _ => some (.beginPkt 0 0)
  | .esCont _ _ _ => some (.cont 0 0)
  | .esEnd _ => some .endPkt
  | .esCcErr _ => some .ccErr
  | .pkt _ _ => none
  | .construct _ _ => none
  | .scriptIns _ _ => none
  | .scriptRem _ => none

theorem esShape_none_of_untagged (e : Ev) (h : tagOf e = none) : esShape e = none := by
  cases e <;> simp [tagOf] at h <;> rfl

/-- table part of the invariant, relative to a bound `n` -/
def TabTags (t : Tab Handler) (n : Nat) : Prop :=
  (∀ p h τ, t.get p = some h → hTag h = some τ → τ < n) ∧
  (∀ p q h h' τ, t.get p = some h → t.get q = some h' → hTag h = some τ → hTag h' = some τ → p = q)

/-- trace part of the invariant -/
def TraceTags (c : Ctx) : Prop := ∀ e ∈ c.trace, ∀ τ, tagOf e = some τ → τ < c.nextTag

/-- THE INVARIANT -/
def TagInv (tc : Tab Handler × Ctx) : Prop := TabTags tc.1 tc.2.nextTag ∧ TraceTags tc.2

theorem tabTags_mono {t : Tab Handler} {n m : Nat} (h : TabTags t n) (hnm : n ≤ m) : TabTags t m :=
  ⟨fun p hd τ hg ht => Nat.lt_of_lt_of_le (h.1 p hd τ hg ht) hnm, h.2⟩

theorem tabTags_nil (n : Nat) : TabTags ([] : Tab Handler) n := by
  refine ⟨?_, ?_⟩
  · intro p h τ hg; rw [Tab.get_of_ge _ _ (by simp)] at hg; cases hg
  · intro p q h h' τ hg; rw [Tab.get_of_ge _ _ (by simp)] at hg; cases hg

/-- inserting a handler whose tag (if any) is fresh -/
theorem tabTags_insert_fresh {t : Tab Handler} {n m : Nat} (p : Nat) (h : Handler)
    (ht : TabTags t n) (hnm : n ≤ m) (hf : ∀ τ, hTag h = some τ → n ≤ τ ∧ τ < m) :
    TabTags (t.insert p h) m := by
  refine ⟨?_, ?_⟩
  · intro q hd τ hg hτ
    rw [Tab.get_insert] at hg
    split at hg
    · injection hg with hg; subst hg; exact (hf τ hτ).2
    · exact Nat.lt_of_lt_of_le (ht.1 q hd τ hg hτ) hnm
  · intro q1 q2 h1 h2 τ hg1 hg2 hτ1 hτ2
    rw [Tab.get_insert] at hg1 hg2
    split at hg1 <;> split at hg2
    · rename_i e1 e2; rw [e1, e2]
    · injection hg1 with hg1; subst hg1
      have := (hf τ hτ1).1
      have := ht.1 q2 h2 τ hg2 hτ2
      omega
    · injection hg2 with hg2; subst hg2
      have := (hf τ hτ2).1
      have := ht.1 q1 h1 τ hg1 hτ1
      omega
    · exact ht.2 q1 q2 h1 h2 τ hg1 hg2 hτ1 hτ2

/-- storing back a handler with the tag of the one that was there -/
theorem tabTags_insert_same {t : Tab Handler} {n : Nat} (p : Nat) (h0 h : Handler)
    (ht : TabTags t n) (hg0 : t.get p = some h0) (hs : hTag h = hTag h0) :
    TabTags (t.insert p h) n := by
  refine ⟨?_, ?_⟩
  · intro q hd τ hg hτ
    rw [Tab.get_insert] at hg
    split at hg
    · injection hg with hg; subst hg; rw [hs] at hτ; exact ht.1 p h0 τ hg0 hτ
    · exact ht.1 q hd τ hg hτ
  · intro q1 q2 h1 h2 τ hg1 hg2 hτ1 hτ2
    rw [Tab.get_insert] at hg1 hg2
    split at hg1 <;> split at hg2
    · rename_i e1 e2; rw [e1, e2]
    · rename_i e1 _
      injection hg1 with hg1; subst hg1; rw [hs] at hτ1
      rw [e1]; exact ht.2 p q2 h0 h2 τ hg0 hg2 hτ1 hτ2
    · rename_i _ e2
      injection hg2 with hg2; subst hg2; rw [hs] at hτ2
      rw [e2]; exact ht.2 q1 p h1 h0 τ hg1 hg0 hτ1 hτ2
    · exact ht.2 q1 q2 h1 h2 τ hg1 hg2 hτ1 hτ2

theorem tabTags_remove {t : Tab Handler} {n : Nat} (p : Nat) (ht : TabTags t n) :
    TabTags (t.remove p) n := by
  refine ⟨?_, ?_⟩
  · intro q hd τ hg hτ
    rw [Tab.get_remove] at hg
    split at hg
    · cases hg
    · exact ht.1 q hd τ hg hτ
  · intro q1 q2 h1 h2 τ hg1 hg2 hτ1 hτ2
    rw [Tab.get_remove] at hg1 hg2
    split at hg1
    · cases hg1
    · split at hg2
      · cases hg2
      · exact ht.2 q1 q2 h1 h2 τ hg1 hg2 hτ1 hτ2

/-! ### queued changes carry fresh, increasing tags -/

/-- the tags of the handlers a change list inserts are increasing and lie in `[lo, hi)` -/
def ChgFresh : Nat → List (Change Handler) → Nat → Prop
  | lo, [], hi => lo ≤ hi
  | lo, .remove _ :: cs, hi => ChgFresh lo cs hi
  | lo, .insert _ h :: cs, hi =>
    match hTag h with
    | none => ChgFresh lo cs hi
    | some τ => lo ≤ τ ∧ ChgFresh (τ + 1) cs hi

theorem chgFresh_le : ∀ (cs : List (Change Handler)) (lo hi : Nat), ChgFresh lo cs hi → lo ≤ hi := by
  intro cs
  induction cs with
  | nil => intro lo hi h; exact h
  | cons a cs ih =>
    intro lo hi h
    cases a with
    | remove p => exact ih lo hi h
    | insert p hd =>
      simp only [ChgFresh] at h
      cases ht : hTag hd with
      | none => rw [ht] at h; exact ih lo hi h
      | some τ =>
        rw [ht] at h
        have := ih (τ + 1) hi h.2
        omega

theorem chgFresh_mono_lo : ∀ (cs : List (Change Handler)) (lo lo' hi : Nat), lo' ≤ lo →
    ChgFresh lo cs hi → ChgFresh lo' cs hi := by
  intro cs
  induction cs with
  | nil => intro lo lo' hi hl h; exact Nat.le_trans hl h
  | cons a cs ih =>
    intro lo lo' hi hl h
    cases a with
    | remove p => exact ih lo lo' hi hl h
    | insert p hd =>
      simp only [ChgFresh] at h ⊢
      cases ht : hTag hd with
      | none => rw [ht] at h; exact ih lo lo' hi hl h
      | some τ =>
        rw [ht] at h
        exact ⟨by omega, h.2⟩

theorem chgFresh_append : ∀ (a b : List (Change Handler)) (lo mid hi : Nat),
    ChgFresh lo a mid → ChgFresh mid b hi → ChgFresh lo (a ++ b) hi := by
  intro a
  induction a with
  | nil => intro b lo mid hi ha hb; exact chgFresh_mono_lo b mid lo hi ha hb
  | cons x a ih =>
    intro b lo mid hi ha hb
    cases x with
    | remove p => exact ih b lo mid hi ha hb
    | insert p hd =>
      simp only [List.cons_append, ChgFresh] at ha ⊢
      cases ht : hTag hd with
      | none => rw [ht] at ha; exact ih b lo mid hi ha hb
      | some τ =>
        rw [ht] at ha
        exact ⟨ha.1, ih b (τ + 1) mid hi ha.2 hb⟩

theorem chgFresh_removes : ∀ (cs : List (Change Handler)) (lo hi : Nat), lo ≤ hi →
    (∀ ch ∈ cs, ∃ q, ch = Change.remove q) → ChgFresh lo cs hi := by
  intro cs
  induction cs with
  | nil => intro lo hi h _; exact h
  | cons a cs ih =>
    intro lo hi h hr
    obtain ⟨q, hq⟩ := hr a List.mem_cons_self
    subst hq
    exact ih lo hi h (fun ch hch => hr ch (List.mem_cons_of_mem _ hch))

/-- every tagged handler a fresh change list inserts has its tag in `[lo, hi)` -/
theorem chgFresh_mem : ∀ (cs : List (Change Handler)) (lo hi : Nat), ChgFresh lo cs hi →
    ∀ q h τ, Change.insert q h ∈ cs → hTag h = some τ → lo ≤ τ ∧ τ < hi := by
  intro cs
  induction cs with
  | nil => intro lo hi _ q h τ hm; cases hm
  | cons a cs ih =>
    intro lo hi hf q h τ hm hτ
    cases a with
    | remove p =>
      rcases List.mem_cons.1 hm with e | e
      · cases e
      · exact ih lo hi hf q h τ e hτ
    | insert p hd =>
      simp only [ChgFresh] at hf
      rcases List.mem_cons.1 hm with e | e
      · injection e with e1 e2
        subst e2
        rw [hτ] at hf
        have := chgFresh_le cs _ _ hf.2
        exact ⟨hf.1, by omega⟩
      · cases ht : hTag hd with
        | none => rw [ht] at hf; exact ih lo hi hf q h τ e hτ
        | some σ =>
          rw [ht] at hf
          have := ih (σ + 1) hi hf.2 q h τ e hτ
          exact ⟨by omega, this.2⟩

theorem tabTags_applyChanges : ∀ (cs : List (Change Handler)) (t : Tab Handler) (lo hi : Nat),
    TabTags t lo → ChgFresh lo cs hi → TabTags (applyChanges t cs) hi := by
  intro cs
  induction cs with
  | nil => intro t lo hi ht hf; exact tabTags_mono ht hf
  | cons a cs ih =>
    intro t lo hi ht hf
    rw [applyChanges_cons]
    cases a with
    | remove p => exact ih _ lo hi (tabTags_remove p ht) hf
    | insert p hd =>
      simp only [ChgFresh] at hf
      cases hτ : hTag hd with
      | none =>
        rw [hτ] at hf
        refine ih _ lo hi (tabTags_insert_fresh p hd ht (Nat.le_refl _) ?_) hf
        intro τ h; rw [hτ] at h; cases h
      | some τ =>
        rw [hτ] at hf
        refine ih _ (τ + 1) hi (tabTags_insert_fresh p hd ht (by omega) ?_) hf.2
        intro σ h; rw [hτ] at h; injection h with h; omega

/-- where the content of a slot comes from after a change list has been applied -/
theorem get_applyChanges_cases : ∀ (cs : List (Change Handler)) (t : Tab Handler) (q : Nat) (h : Handler),
    (applyChanges t cs).get q = some h → t.get q = some h ∨ Change.insert q h ∈ cs := by
  intro cs
  induction cs with
  | nil => intro t q h hg; exact Or.inl hg
  | cons a cs ih =>
    intro t q h hg
    rw [applyChanges_cons] at hg
    rcases ih _ q h hg with h1 | h1
    · cases a with
      | remove p =>
        simp only [applyChange] at h1
        rw [Tab.get_remove] at h1
        split at h1
        · cases h1
        · exact Or.inl h1
      | insert p hd =>
        simp only [applyChange] at h1
        rw [Tab.get_insert] at h1
        split at h1
        · rename_i e
          injection h1 with h1
          subst h1 e
          exact Or.inr List.mem_cons_self
        · exact Or.inl h1
    · exact Or.inr (List.mem_cons_of_mem _ h1)

/-! ### what a piece of application code does to the context -/

/-- from `c` to `c'`: configuration untouched, tags only handed out, events only appended, each
new event satisfying `P` -/
def Emits (P : Ev → Prop) (c c' : Ctx) : Prop :=
  c'.cfg = c.cfg ∧ c.nextTag ≤ c'.nextTag ∧ ∃ out, c'.trace = out ++ c.trace ∧ ∀ e ∈ out, P e

theorem emits_refl (P : Ev → Prop) (c : Ctx) : Emits P c c := ⟨rfl, Nat.le_refl _, [], rfl, by simp⟩

theorem emits_trans {P : Ev → Prop} {a b c : Ctx} (h1 : Emits P a b) (h2 : Emits P b c) : Emits P a c := by
  obtain ⟨a1, a2, o1, a3, a4⟩ := h1
  obtain ⟨b1, b2, o2, b3, b4⟩ := h2
  refine ⟨by rw [b1, a1], by omega, o2 ++ o1, by rw [b3, a3, List.append_assoc], ?_⟩
  intro e he
  rcases List.mem_append.1 he with x | x
  · exact b4 e x
  · exact a4 e x

theorem emits_mono {P Q : Ev → Prop} {a b : Ctx} (hpq : ∀ e, P e → Q e) (h : Emits P a b) : Emits Q a b := by
  obtain ⟨a1, a2, o1, a3, a4⟩ := h
  exact ⟨a1, a2, o1, a3, fun e he => hpq e (a4 e he)⟩

/-- one event appended, no tag handed out -/
theorem emits_emit (P : Ev → Prop) (c : Ctx) (e : Ev) (he : P e) : Emits P c (c.emit e) :=
  ⟨rfl, Nat.le_refl _, [e], rfl, by simpa using he⟩

def Untagged (e : Ev) : Prop := tagOf e = none

/-- PES handlers are only ever inserted in their initial state -/
def FreshPes (cs : List (Change Handler)) : Prop :=
  ∀ ch ∈ cs, ∀ q σ f, ch = Change.insert q (Handler.pes σ f) → f = {}

/-- code that moves the context from `c` to `c'` and queues `chg` -/
def Produces (P : Ev → Prop) (c : Ctx) (chg : List (Change Handler)) (c' : Ctx) : Prop :=
  Emits P c c' ∧ ChgFresh c.nextTag chg c'.nextTag ∧ FreshPes chg

theorem produces_nil (P : Ev → Prop) (c : Ctx) : Produces P c [] c :=
  ⟨emits_refl P c, Nat.le_refl _, by intro ch h; cases h⟩

theorem produces_append {P : Ev → Prop} {a b c : Ctx} {x y : List (Change Handler)}
    (h1 : Produces P a x b) (h2 : Produces P b y c) : Produces P a (x ++ y) c := by
  refine ⟨emits_trans h1.1 h2.1, chgFresh_append x y _ _ _ h1.2.1 h2.2.1, ?_⟩
  intro ch hch
  rcases List.mem_append.1 hch with e | e
  · exact h1.2.2 ch e
  · exact h2.2.2 ch e

theorem produces_mono {P Q : Ev → Prop} {a b : Ctx} {x : List (Change Handler)} (hpq : ∀ e, P e → Q e)
    (h : Produces P a x b) : Produces Q a x b := ⟨emits_mono hpq h.1, h.2⟩

/-- only removals are queued, the context is untouched -/
theorem produces_removes (P : Ev → Prop) (c : Ctx) (cs : List (Change Handler))
    (hr : ∀ ch ∈ cs, ∃ q, ch = Change.remove q) : Produces P c cs c := by
  refine ⟨emits_refl P c, chgFresh_removes cs _ _ (Nat.le_refl _) hr, ?_⟩
  intro ch hch q σ f e
  obtain ⟨q', hq'⟩ := hr ch hch
  rw [hq'] at e; cases e

/-! ### `construct` -/

theorem construct_ctx (c : Ctx) (req : Req) :
    (construct c req).2 = { c with nextTag := c.nextTag + 1 }.emit (.construct req c.nextTag) := by
  unfold construct
  simp only []
  split
  · rfl
  · rfl
  · rfl
  · rfl
  · split <;> rfl

theorem construct_tag (c : Ctx) (req : Req) :
    hTag (construct c req).1 = none ∨ hTag (construct c req).1 = some c.nextTag := by
  unfold construct
  simp only []
  split
  · exact Or.inl rfl
  · exact Or.inr rfl
  · exact Or.inl rfl
  · exact Or.inr rfl
  · split
    · exact Or.inr rfl
    · exact Or.inr rfl

theorem construct_pes (c : Ctx) (req : Req) (σ : Nat) (f : PesFilter.F)
    (h : (construct c req).1 = .pes σ f) : f = {} ∧ σ = c.nextTag := by
  unfold construct at h
  simp only [] at h
  split at h
  · cases h
  · cases h
  · cases h
  · cases h
  · split at h
    · injection h with h1 h2; exact ⟨h2.symm, h1.symm⟩
    · cases h

theorem construct_emits (c : Ctx) (req : Req) : Emits Untagged c (construct c req).2 := by
  rw [construct_ctx]
  exact ⟨rfl, Nat.le_succ _, [.construct req c.nextTag], rfl, by
    intro e he; simp only [List.mem_singleton] at he; subst he; rfl⟩

theorem construct_nextTag (c : Ctx) (req : Req) : (construct c req).2.nextTag = c.nextTag + 1 := by
  rw [construct_ctx]; rfl

/-- `construct` followed by queueing the insertion of the handler -/
theorem construct_produces (c : Ctx) (req : Req) (pid : Nat) :
    Produces Untagged c [Change.insert pid (construct c req).1] (construct c req).2 := by
  refine ⟨construct_emits c req, ?_, ?_⟩
  · simp only [ChgFresh]
    rw [construct_nextTag]
    rcases construct_tag c req with h | h
    · rw [h]; exact Nat.le_succ _
    · rw [h]; exact ⟨Nat.le_refl _, Nat.le_refl _⟩
  · intro ch hch q σ f e
    simp only [List.mem_singleton] at hch
    rw [hch] at e
    injection e with _ e
    exact (construct_pes c req σ f e).1

/-- the fold with which `new_table` requests one handler per table entry -/
theorem foldl_construct_produces {α : Type} (req : α → Req) (pidOf : α → Nat)
    (g : Ctx × List (Change Handler) → α → Ctx × List (Change Handler))
    (hg : ∀ acc e, g acc e = ((construct acc.1 (req e)).2,
      acc.2 ++ [Change.insert (pidOf e) (construct acc.1 (req e)).1]))
    (c0 : Ctx) : ∀ (es : List α) (acc : Ctx × List (Change Handler)),
      Produces Untagged c0 acc.2 acc.1 → Produces Untagged c0 (es.foldl g acc).2 (es.foldl g acc).1 := by
  intro es
  induction es with
  | nil => intro acc h; exact h
  | cons e es ih =>
    intro acc h
    rw [List.foldl_cons]
    refine ih (g acc e) ?_
    rw [hg]
    exact produces_append h (construct_produces acc.1 (req e) (pidOf e))

theorem mapM_remove_shape : ∀ (l : List Nat) (r : List (Change Handler)),
    l.mapM (fun p => do let q ← Tables.pidNew p; pure (Change.remove (H := Handler) q)) = .ok r →
    ∀ ch ∈ r, ∃ q, ch = Change.remove q := by
  intro l
  induction l with
  | nil =>
    intro r h
    rw [List.mapM_nil] at h
    have := R.ok_inj h
    subst this
    simp
  | cons a l ih =>
    intro r h
    rw [List.mapM_cons] at h
    obtain ⟨x, hx, h⟩ := R.bind_eq_ok h
    obtain ⟨xs, hxs, h⟩ := R.bind_eq_ok h
    have := R.ok_inj h
    subst this
    obtain ⟨q, hq, hx⟩ := R.bind_eq_ok hx
    have := R.ok_inj hx
    subst this
    intro ch hch
    rcases List.mem_cons.1 hch with e' | e'
    · exact ⟨q, e'⟩
    · exact ih xs hxs ch e'

/-! ### the table processors -/

theorem patSection_produces (c : Ctx) (reg : List Nat) (data : Bytes) (c' : Ctx) (reg' : List Nat)
    (chg : List (Change Handler)) (h : patSection c reg data = .ok (c', reg', chg)) :
    Produces Untagged c chg c' := by
  unfold patSection at h
  dsimp only at h
  obtain ⟨end_, _, h⟩ := R.bind_eq_ok h
  obtain ⟨body, _, h⟩ := R.bind_eq_ok h
  obtain ⟨tid, _, h⟩ := R.bind_eq_ok h
  split at h
  · have := R.ok_inj h
    simp only [Prod.mk.injEq] at this
    obtain ⟨e1, _, e3⟩ := this
    subst e1 e3
    exact produces_nil _ _
  · obtain ⟨entries, hent, h⟩ := R.bind_eq_ok h
    obtain ⟨rem, hrem, h⟩ := R.bind_eq_ok h
    have := R.ok_inj h
    simp only [Prod.mk.injEq] at this
    obtain ⟨e1, _, e3⟩ := this
    have hf := foldl_construct_produces
      (fun e : Tables.PatEntry => match e with
        | .program pn pid => Req.pmt pid pn
        | .network pid => Req.nit pid) Tables.PatEntry.pid _ (fun _ _ => rfl) c entries (c, [])
      (produces_nil _ _)
    rw [← e1, ← e3]
    exact produces_append hf (produces_removes _ _ _ (mapM_remove_shape _ _ hrem))

theorem pmtSection_produces (c : Ctx) (pmtPid : Nat) (reg : List Nat) (data : Bytes) (c' : Ctx)
    (reg' : List Nat) (chg : List (Change Handler))
    (h : pmtSection c pmtPid reg data = .ok (c', reg', chg)) :
    Produces Untagged c chg c' := by
  unfold pmtSection at h
  dsimp only at h
  obtain ⟨end_, _, h⟩ := R.bind_eq_ok h
  obtain ⟨body, _, h⟩ := R.bind_eq_ok h
  obtain ⟨r, _, h⟩ := R.bind_eq_ok h
  have triv : ∀ {x : Ctx × List Nat × List (Change Handler)},
      x = (c, reg, []) → R.ok x = R.ok (c', reg', chg) → Produces Untagged c chg c' := by
    intro x hx h
    subst hx
    have := R.ok_inj h
    simp only [Prod.mk.injEq] at this
    obtain ⟨e1, _, e3⟩ := this
    subst e1 e3
    exact produces_nil _ _
  cases r with
  | none => exact triv rfl h
  | some sect =>
    dsimp only at h
    obtain ⟨tid, _, h⟩ := R.bind_eq_ok h
    split at h
    · exact triv rfl h
    · obtain ⟨streams, hst, h⟩ := R.bind_eq_ok h
      obtain ⟨pcr, _, h⟩ := R.bind_eq_ok h
      obtain ⟨progDesc, _, h⟩ := R.bind_eq_ok h
      split at h
      case' isTrue => obtain ⟨_, _, h⟩ := R.bind_eq_ok h
      all_goals (
        obtain ⟨rem, hrem, h⟩ := R.bind_eq_ok h
        have := R.ok_inj h
        simp only [Prod.mk.injEq] at this
        obtain ⟨e1, _, e3⟩ := this
        have hf := foldl_construct_produces
          (fun s : Tables.StreamInfo => Req.stream pmtPid s.streamType s.pid pcr s.descBytes progDesc)
          Tables.StreamInfo.pid _ (fun _ _ => rfl) c streams (c, []) (produces_nil _ _)
        rw [← e1, ← e3]
        exact produces_append hf (produces_removes _ _ _ (mapM_remove_shape _ _ hrem)))

theorem runDeliveries_produces
    (sect : Ctx → List Nat → Bytes → R (Ctx × List Nat × List (Change Handler)))
    (hsect : ∀ c reg d c' reg' chg, sect c reg d = .ok (c', reg', chg) → Produces Untagged c chg c') :
    ∀ (ds : List Psi.Delivery) (c : Ctx) (reg : List Nat) (c' : Ctx) (reg' : List Nat)
      (chg : List (Change Handler)),
      runDeliveries sect c reg ds = .ok (c', reg', chg) → Produces Untagged c chg c' := by
  intro ds
  induction ds with
  | nil =>
    intro c reg c' reg' chg h
    have := R.ok_inj h
    simp only [Prod.mk.injEq] at this
    obtain ⟨e1, _, e3⟩ := this
    subst e1 e3
    exact produces_nil _ _
  | cons d ds ih =>
    intro c reg c' reg' chg h
    unfold runDeliveries at h
    obtain ⟨b, _, h⟩ := R.bind_eq_ok h
    split at h
    · obtain ⟨r1, h1, h⟩ := R.bind_eq_ok h
      obtain ⟨c1, reg1, chg1⟩ := r1
      dsimp only at h
      obtain ⟨r2, h2, h⟩ := R.bind_eq_ok h
      obtain ⟨c2, reg2, chg2⟩ := r2
      have := R.ok_inj h
      simp only [Prod.mk.injEq] at this
      obtain ⟨e1, _, e3⟩ := this
      subst e1 e3
      exact produces_append (hsect _ _ _ _ _ _ h1) (ih _ _ _ _ _ h2)
    · exact ih _ _ _ _ _ h

theorem scriptChanges_produces : ∀ (ops : List ScriptOp) (c : Ctx),
    Produces Untagged c (scriptChanges c ops).2 (scriptChanges c ops).1 := by
  intro ops
  induction ops with
  | nil => intro c; exact produces_nil _ _
  | cons op ops ih =>
    intro c
    cases op with
    | ins pid =>
      have a := ih ({ c with nextTag := c.nextTag + 1 }.emit (.scriptIns pid c.nextTag))
      simp only [scriptChanges]
      have e0 : Emits Untagged c ({ c with nextTag := c.nextTag + 1 }.emit (.scriptIns pid c.nextTag)) :=
        ⟨rfl, Nat.le_succ _, [.scriptIns pid c.nextTag], rfl, by
          intro e he; simp only [List.mem_singleton] at he; subst he; rfl⟩
      refine ⟨emits_trans e0 a.1, ?_, ?_⟩
      · simp only [ChgFresh, hTag]
        exact ⟨Nat.le_refl _, a.2.1⟩
      · intro ch hch q σ f e
        rcases List.mem_cons.1 hch with x | x
        · rw [x] at e; cases e
        · exact a.2.2 ch x q σ f e
    | rem pid =>
      have a := ih (c.emit (.scriptRem pid))
      simp only [scriptChanges]
      have e0 : Emits Untagged c (c.emit (.scriptRem pid)) := emits_emit _ _ _ rfl
      refine ⟨emits_trans e0 a.1, ?_, ?_⟩
      · simp only [ChgFresh]
        exact a.2.1
      · intro ch hch q σ f e
        rcases List.mem_cons.1 hch with x | x
        · rw [x] at e; cases e
        · exact a.2.2 ch x q σ f e

/-! ### the elementary-stream callbacks, as a list -/

/-- the events `App.esEvents` appends for the callbacks `evs` of the packet `p` at stream offset
`base`, oldest first (`esEvents_eq_list`) -/
def esEvList (touch : Bool) (tag : Nat) (p : Bytes) (base : Nat) : List PesFilter.Ev → R (List Ev)
  | [] => .ok []
  | e :: es => do
    let a ← (match e with
      | .start => pure (Ev.esStart tag)
      | .beginPkt o l => do
        let bi ← beginInfo p base o l
        if touch then touchPesHeader (Packet.rangeBytes p (o, l))
        pure (Ev.esBegin tag bi)
      | .cont o l => pure (Ev.esCont tag (base + o) l)
      | .endPkt => pure (Ev.esEnd tag)
      | .ccErr => pure (Ev.esCcErr tag) : R Ev)
    let rest ← esEvList touch tag p base es
    pure (a :: rest)

/-- `App.esEvents` = append the list `esEvList` (most recent first) to the trace; it panics exactly
when `esEvList` does -/
theorem esEvents_eq_list (touch : Bool) (tag : Nat) (p : Bytes) (base : Nat) :
    ∀ (evs : List PesFilter.Ev) (c : Ctx),
      esEvents touch tag p base c evs =
        (esEvList touch tag p base evs >>= fun l => R.ok { c with trace := l.reverse ++ c.trace }) := by
  intro evs
  induction evs with
  | nil => intro c; rfl
  | cons e es ih =>
    intro c
    have fin : ∀ (a : Ev), (esEvents touch tag p base (c.emit a) es) =
        ((esEvList touch tag p base es >>= fun rest => (pure (a :: rest) : R (List Ev))) >>= fun l =>
          R.ok { c with trace := l.reverse ++ c.trace }) := by
      intro a
      rw [ih]
      cases esEvList touch tag p base es with
      | panic s => rfl
      | ok rest =>
        simp only [R.ok_bind, R.pure_eq, Ctx.emit, List.reverse_cons, List.append_assoc,
          List.singleton_append]
    cases e with
    | start => exact fin _
    | endPkt => exact fin _
    | ccErr => exact fin _
    | cont o l => exact fin _
    | beginPkt o l =>
      unfold esEvents esEvList
      dsimp only
      cases hb : beginInfo p base o l with
      | panic s => rfl
      | ok bi =>
        cases touch with
        | false => exact fin _
        | true =>
          cases ht : touchPesHeader (Packet.rangeBytes p (o, l)) with
          | panic s => rfl
          | ok u => exact fin _

/-- every event of `esEvList` is an elementary-stream event of this tag -/
theorem esEvList_tagged (touch : Bool) (tag : Nat) (p : Bytes) (base : Nat) :
    ∀ (evs : List PesFilter.Ev) (l : List Ev), esEvList touch tag p base evs = .ok l →
      ∀ e ∈ l, tagOf e = some tag ∧ (esShape e).isSome = true := by
  intro evs
  induction evs with
  | nil =>
    intro l h
    have := R.ok_inj h
    subst this
    simp
  | cons e es ih =>
    intro l h
    unfold esEvList at h
    obtain ⟨a, ha, h⟩ := R.bind_eq_ok h
    obtain ⟨rest, hrest, h⟩ := R.bind_eq_ok h
    have := R.ok_inj h
    subst this
    have key : tagOf a = some tag ∧ (esShape a).isSome = true := by
      cases e with
      | start => have := R.ok_inj ha; subst this; exact ⟨rfl, rfl⟩
      | endPkt => have := R.ok_inj ha; subst this; exact ⟨rfl, rfl⟩
      | ccErr => have := R.ok_inj ha; subst this; exact ⟨rfl, rfl⟩
      | cont o l => have := R.ok_inj ha; subst this; exact ⟨rfl, rfl⟩
      | beginPkt o l =>
        obtain ⟨bi, _, ha⟩ := R.bind_eq_ok ha
        cases touch with
        | false => have := R.ok_inj ha; subst this; exact ⟨rfl, rfl⟩
        | true =>
          simp only [if_true] at ha
          obtain ⟨_, _, ha⟩ := R.bind_eq_ok ha
          have := R.ok_inj ha; subst this; exact ⟨rfl, rfl⟩
    intro x hx
    rcases List.mem_cons.1 hx with e' | e'
    · subst e'; exact key
    · exact ih rest hrest x e'

/-- the callbacks, with arguments erased, are the filter's callbacks with arguments erased -/
def norm : PesFilter.Ev → PesFilter.Ev
  | .start => .start
  | .beginPkt _ _ => .beginPkt 0 0
  | .cont _ _ => .cont 0 0
  | .endPkt => .endPkt
  | .ccErr => .ccErr

theorem esEvList_shape (touch : Bool) (tag : Nat) (p : Bytes) (base : Nat) :
    ∀ (evs : List PesFilter.Ev) (l : List Ev), esEvList touch tag p base evs = .ok l →
      l.filterMap esShape = evs.map norm := by
  intro evs
  induction evs with
  | nil =>
    intro l h
    have := R.ok_inj h
    subst this
    rfl
  | cons e es ih =>
    intro l h
    unfold esEvList at h
    obtain ⟨a, ha, h⟩ := R.bind_eq_ok h
    obtain ⟨rest, hrest, h⟩ := R.bind_eq_ok h
    have := R.ok_inj h
    subst this
    have key : esShape a = some (norm e) := by
      cases e with
      | start => have := R.ok_inj ha; subst this; rfl
      | endPkt => have := R.ok_inj ha; subst this; rfl
      | ccErr => have := R.ok_inj ha; subst this; rfl
      | cont o l => have := R.ok_inj ha; subst this; rfl
      | beginPkt o l =>
        obtain ⟨bi, _, ha⟩ := R.bind_eq_ok ha
        cases touch with
        | false => have := R.ok_inj ha; subst this; rfl
        | true =>
          simp only [if_true] at ha
          obtain ⟨_, _, ha⟩ := R.bind_eq_ok ha
          have := R.ok_inj ha; subst this; rfl
    rw [List.filterMap_cons, key, List.map_cons, ih rest hrest]

/-- what `esEvents` does to the context, for ANY packet bytes -/
theorem esEvents_emits (touch : Bool) (tag : Nat) (p : Bytes) (base : Nat) (evs : List PesFilter.Ev)
    (c c' : Ctx) (h : esEvents touch tag p base c evs = .ok c') :
    ∃ l, esEvList touch tag p base evs = .ok l ∧ c' = { c with trace := l.reverse ++ c.trace } := by
  rw [esEvents_eq_list] at h
  obtain ⟨l, hl, h⟩ := R.bind_eq_ok h
  exact ⟨l, hl, (R.ok_inj h).symm⟩

/-! ### one `consume` of any handler -/

/-- the events a handler may emit -/
def EvBy : Handler → Ev → Prop
  | .pes τ _, e => tagOf e = some τ ∧ (esShape e).isSome = true
  | .recorder τ, e => (tagOf e = none ∨ tagOf e = some τ) ∧ esShape e = none
  | .pat _ _, e => tagOf e = none
  | .pmt _ _ _ _, e => tagOf e = none

theorem evBy_tag (h : Handler) (e : Ev) (σ : Nat) (hb : EvBy h e) (ht : tagOf e = some σ) :
    hTag h = some σ := by
  cases h with
  | pes τ f => simp only [EvBy] at hb; rw [hb.1] at ht; exact ht
  | recorder τ =>
    simp only [EvBy] at hb
    rcases hb.1 with x | x
    · rw [x] at ht; cases ht
    · rw [x] at ht; exact ht
  | pat s r => simp only [EvBy] at hb; rw [hb] at ht; cases ht
  | pmt a b s r => simp only [EvBy] at hb; rw [hb] at ht; cases ht

theorem evBy_shape (h : Handler) (e : Ev) (hb : EvBy h e) (hn : ∀ σ f, h ≠ .pes σ f) :
    esShape e = none := by
  cases h with
  | pes τ f => exact absurd rfl (hn τ f)
  | recorder τ => exact hb.2
  | pat s r => exact esShape_none_of_untagged e hb
  | pmt a b s r => exact esShape_none_of_untagged e hb

/-- ONE `consume` of ANY application handler on ANY packet: the context moves by events of the
handler's own tag only (`EvBy`), the queued changes carry fresh increasing tags and insert PES
handlers only in their initial state, the handler keeps its tag and its kind -/
theorem consume_facts (h : Handler) (c : Ctx) (pk : Pk) (h' : Handler) (c' : Ctx)
    (chg : List (Change Handler)) (hc : App.consume h c pk = .ok (h', c', chg)) :
    Produces (EvBy h) c chg c' ∧ hTag h' = hTag h ∧ (∀ σ f', h' = .pes σ f' → ∃ f, h = .pes σ f) := by
  cases h with
  | pat s reg =>
    unfold App.consume at hc
    dsimp only at hc
    obtain ⟨r1, h1, hc⟩ := R.bind_eq_ok hc
    obtain ⟨s', ds⟩ := r1
    dsimp only at hc
    obtain ⟨r2, h2, hc⟩ := R.bind_eq_ok hc
    obtain ⟨c2, reg2, chg2⟩ := r2
    have := R.ok_inj hc
    simp only [Prod.mk.injEq] at this
    obtain ⟨e1, e2, e3⟩ := this
    subst e1 e2 e3
    exact ⟨produces_mono (fun _ h => h) (runDeliveries_produces _ patSection_produces _ _ _ _ _ _ h2),
      rfl, fun σ f' e => by cases e⟩
  | pmt pid prog s reg =>
    unfold App.consume at hc
    dsimp only at hc
    obtain ⟨r1, h1, hc⟩ := R.bind_eq_ok hc
    obtain ⟨s', ds⟩ := r1
    dsimp only at hc
    obtain ⟨r2, h2, hc⟩ := R.bind_eq_ok hc
    obtain ⟨c2, reg2, chg2⟩ := r2
    have := R.ok_inj hc
    simp only [Prod.mk.injEq] at this
    obtain ⟨e1, e2, e3⟩ := this
    subst e1 e2 e3
    exact ⟨produces_mono (fun _ h => h)
        (runDeliveries_produces _ (fun c r d => pmtSection_produces c pid r d) _ _ _ _ _ _ h2),
      rfl, fun σ f' e => by cases e⟩
  | pes tag f =>
    unfold App.consume at hc
    simp only [] at hc
    obtain ⟨r, hr, hc⟩ := R.bind_eq_ok hc
    obtain ⟨f', evs⟩ := r
    obtain ⟨c1, hc1, hc⟩ := R.bind_eq_ok hc
    have := R.ok_inj hc
    simp only [Prod.mk.injEq] at this
    obtain ⟨e1, e2, e3⟩ := this
    subst e1 e2 e3
    obtain ⟨l, hl, hc1⟩ := esEvents_emits _ _ _ _ _ _ _ hc1
    subst hc1
    refine ⟨⟨⟨rfl, Nat.le_refl _, l.reverse, rfl, ?_⟩, Nat.le_refl _, by intro ch h; cases h⟩, rfl,
      fun σ f'' e => by injection e with e1 e2; subst e1; exact ⟨f, rfl⟩⟩
    intro e he
    exact esEvList_tagged _ _ _ _ _ _ hl e (List.mem_reverse.1 he)
  | recorder tag =>
    unfold App.consume at hc
    dsimp only at hc
    have key : (match c.cfg.script.lookup (pk.off / 188) with
        | some ops => pure (Handler.recorder tag, (scriptChanges (c.emit (.pkt tag pk.off)) ops).1,
            (scriptChanges (c.emit (.pkt tag pk.off)) ops).2)
        | none => pure (Handler.recorder tag, c.emit (.pkt tag pk.off), [])) = R.ok (h', c', chg) := by
      split at hc
      · obtain ⟨_, _, hc⟩ := R.bind_eq_ok hc
        exact hc
      · exact hc
    clear hc
    have e0 : Emits (EvBy (.recorder tag)) c (c.emit (.pkt tag pk.off)) :=
      emits_emit _ _ _ ⟨Or.inr rfl, rfl⟩
    have hun : ∀ e, Untagged e → EvBy (.recorder tag) e :=
      fun e he => ⟨Or.inl he, esShape_none_of_untagged e he⟩
    cases hl : c.cfg.script.lookup (pk.off / 188) with
    | none =>
      rw [hl] at key
      have := R.ok_inj key
      simp only [Prod.mk.injEq] at this
      obtain ⟨e1, e2, e3⟩ := this
      subst e1 e2 e3
      exact ⟨⟨e0, Nat.le_refl _, by intro ch h; cases h⟩, rfl, fun σ f' e => by cases e⟩
    | some ops =>
      rw [hl] at key
      have := R.ok_inj key
      simp only [Prod.mk.injEq] at this
      obtain ⟨e1, e2, e3⟩ := this
      subst e1 e2 e3
      have a := produces_mono hun (scriptChanges_produces ops (c.emit (.pkt tag pk.off)))
      exact ⟨⟨emits_trans e0 a.1, a.2.1, a.2.2⟩, rfl, fun σ f' e => by cases e⟩

/-! ### lookup-or-construct -/

theorem ensure_cases (t : Tab Handler) (c : Ctx) (pid : Nat) (t1 : Tab Handler) (c1 : Ctx)
    (h : ensure App.sem t c pid = .ok (t1, c1)) :
    (t.contains pid = true ∧ t1 = t ∧ c1 = c) ∨
    (t.get pid = none ∧ t1 = t.insert pid (construct c (.byPid pid)).1
      ∧ c1 = (construct c (.byPid pid)).2) := by
  unfold ensure at h
  split at h
  · rename_i hc
    have := R.ok_inj h
    simp only [Prod.mk.injEq] at this
    exact Or.inl ⟨hc, this.1.symm, this.2.symm⟩
  · rename_i hc
    have hc' : t.contains pid = false := by simpa using hc
    have h' : R.ok ((t.insert pid (construct c (.byPid pid)).1), (construct c (.byPid pid)).2)
        = R.ok (t1, c1) := h
    have := R.ok_inj h'
    simp only [Prod.mk.injEq] at this
    exact Or.inr ⟨(Tab.contains_eq_false_iff _ _).1 hc', this.1.symm, this.2.symm⟩

theorem traceTags_of_emits {c c' : Ctx} {P : Ev → Prop} (hc : TraceTags c) (he : Emits P c c')
    (hP : ∀ e, P e → ∀ τ, tagOf e = some τ → τ < c'.nextTag) : TraceTags c' := by
  obtain ⟨_, hn, out, ho, hall⟩ := he
  intro e hm τ hτ
  rw [ho] at hm
  rcases List.mem_append.1 hm with x | x
  · exact hP e (hall e x) τ hτ
  · exact Nat.lt_of_lt_of_le (hc e x τ hτ) hn

theorem ensure_tagInv (t : Tab Handler) (c : Ctx) (pid : Nat) (t1 : Tab Handler) (c1 : Ctx)
    (hi : TagInv (t, c)) (h : ensure App.sem t c pid = .ok (t1, c1)) :
    TagInv (t1, c1) ∧ Emits Untagged c c1 := by
  rcases ensure_cases t c pid t1 c1 h with ⟨_, e1, e2⟩ | ⟨_, e1, e2⟩
  · subst e1 e2; exact ⟨hi, emits_refl _ _⟩
  · subst e1 e2
    have he := construct_emits c (.byPid pid)
    refine ⟨⟨?_, ?_⟩, he⟩
    · show TabTags (t.insert pid _) (construct c (.byPid pid)).2.nextTag
      rw [construct_nextTag]
      refine tabTags_insert_fresh pid _ hi.1 (Nat.le_succ _) ?_
      intro τ hτ
      rcases construct_tag c (.byPid pid) with x | x
      · rw [x] at hτ; cases hτ
      · rw [x] at hτ; injection hτ with hτ; subst hτ
        exact ⟨Nat.le_refl _, Nat.lt_succ_self _⟩
    · refine traceTags_of_emits hi.2 he ?_
      intro e hu τ hτ
      rw [hu] at hτ; cases hτ

/-! ### one dispatcher step -/

/-- ONE step of the dispatcher under the application semantics, ANY packet: the invariant is
preserved; the configuration is untouched; the trace is only extended, and every new TAGGED event
carries the tag of the handler that was registered for the packet's PID before the step, or a tag
that did not exist before the step -/
theorem specStep_facts (t : Tab Handler) (c : Ctx) (pk : Pk) (t' : Tab Handler) (c' : Ctx)
    (hi : TagInv (t, c)) (h : specStep App.sem (t, c) pk = .ok (t', c')) :
    TagInv (t', c') ∧
    Emits (fun e => ∀ σ, tagOf e = some σ →
      (∃ h0, t.get pk.pid = some h0 ∧ hTag h0 = some σ) ∨ c.nextTag ≤ σ) c c' := by
  rw [specStep_eq] at h
  obtain ⟨r, hE, h⟩ := R.bind_eq_ok h
  obtain ⟨t1, c1⟩ := r
  obtain ⟨hi1, he1⟩ := ensure_tagInv t c pk.pid t1 c1 hi hE
  have he1' : Emits (fun e => ∀ σ, tagOf e = some σ →
      (∃ h0, t.get pk.pid = some h0 ∧ hTag h0 = some σ) ∨ c.nextTag ≤ σ) c c1 :=
    emits_mono (fun e hu σ hσ => by rw [hu] at hσ; cases hσ) he1
  dsimp only at h
  split at h
  · have := R.ok_inj h
    simp only [Prod.mk.injEq] at this
    rw [← this.1, ← this.2]
    exact ⟨hi1, he1'⟩
  · cases hg : t1.get pk.pid with
    | none => rw [hg] at h; cases h
    | some hd =>
      rw [hg] at h
      dsimp only at h
      obtain ⟨x, hx, h⟩ := R.bind_eq_ok h
      obtain ⟨h', c2, chg⟩ := x
      have := R.ok_inj h
      simp only [Prod.mk.injEq] at this
      obtain ⟨e1, e2⟩ := this
      subst e1 e2
      obtain ⟨⟨hem, hfr, _⟩, hsame, _⟩ := consume_facts hd c1 pk h' c2 chg hx
      have hlt : ∀ e, EvBy hd e → ∀ σ, tagOf e = some σ → σ < c1.nextTag :=
        fun e hb σ hσ => hi1.1.1 pk.pid hd σ hg (evBy_tag hd e σ hb hσ)
      refine ⟨⟨?_, ?_⟩, emits_trans he1' (emits_mono ?_ hem)⟩
      · exact tabTags_applyChanges chg _ _ _ (tabTags_insert_same pk.pid hd h' hi1.1 hg hsame) hfr
      · exact traceTags_of_emits hi1.2 hem
          (fun e hb σ hσ => Nat.lt_of_lt_of_le (hlt e hb σ hσ) hem.2.1)
      · intro e hb σ hσ
        have htag := evBy_tag hd e σ hb hσ
        rcases ensure_cases t c pk.pid t1 c1 hE with ⟨_, e1, _⟩ | ⟨_, e1, _⟩
        · subst e1; exact Or.inl ⟨hd, hg, htag⟩
        · subst e1
          rw [Tab.get_insert_self] at hg
          injection hg with hg
          subst hg
          rcases construct_tag c (.byPid pk.pid) with x | x
          · rw [x] at htag; cases htag
          · rw [x] at htag; injection htag with htag; exact Or.inr (Nat.le_of_eq htag)

theorem specStep_tagInv (t : Tab Handler) (c : Ctx) (pk : Pk) (t' : Tab Handler) (c' : Ctx)
    (hi : TagInv (t, c)) (h : specStep App.sem (t, c) pk = .ok (t', c')) : TagInv (t', c') :=
  (specStep_facts t c pk t' c' hi h).1

theorem pushSpec_tagInv : ∀ (pks : List Pk) (tc tc' : Tab Handler × Ctx), TagInv tc →
    pushSpec App.sem tc pks = .ok tc' → TagInv tc' ∧ Emits (fun _ => True) tc.2 tc'.2 := by
  intro pks
  induction pks with
  | nil =>
    intro tc tc' hi h
    have := R.ok_inj h
    rw [← this]; exact ⟨hi, emits_refl _ _⟩
  | cons pk pks ih =>
    intro tc tc' hi h
    rw [pushSpec_cons] at h
    obtain ⟨tc1, h1, h⟩ := R.bind_eq_ok h
    obtain ⟨t, c⟩ := tc
    obtain ⟨t1, c1⟩ := tc1
    obtain ⟨a1, a2⟩ := specStep_facts t c pk t1 c1 hi h1
    obtain ⟨b1, b2⟩ := ih (t1, c1) tc' a1 h
    exact ⟨b1, emits_trans (emits_mono (fun _ _ => trivial) a2) b2⟩

theorem push_tagInv (tc : Tab Handler × Ctx) (buf : Bytes) (base : Nat) (tc' : Tab Handler × Ctx)
    (hi : TagInv tc) (h : push App.sem tc buf base = .ok tc') : TagInv tc' := by
  unfold push at h
  obtain ⟨pks, hf, h⟩ := R.bind_eq_ok h
  rw [pushModel_eq_pushSpec] at h
  exact (pushSpec_tagInv pks tc tc' hi h).1

theorem pushAll_tagInv : ∀ (bufs : List Bytes) (tc : Tab Handler × Ctx) (base : Nat)
    (tc' : Tab Handler × Ctx), TagInv tc → pushAll App.sem tc bufs base = .ok tc' → TagInv tc' := by
  intro bufs
  induction bufs with
  | nil =>
    intro tc base tc' hi h
    have := R.ok_inj h
    rw [← this]; exact hi
  | cons b bs ih =>
    intro tc base tc' hi h
    unfold pushAll at h
    obtain ⟨tc1, h1, h⟩ := R.bind_eq_ok h
    exact ih tc1 _ tc' (push_tagInv tc b base tc1 hi h1) h

theorem init_tagInv (cfg : Cfg) : TagInv (App.init cfg) := by
  unfold App.init
  dsimp only
  refine ⟨?_, ?_⟩
  · show TabTags (Tab.insert [] 0 _) (construct { cfg := cfg } (.byPid 0)).2.nextTag
    rw [construct_nextTag]
    refine tabTags_insert_fresh 0 _ (tabTags_nil 0) (Nat.le_succ _) ?_
    intro τ hτ
    rcases construct_tag { cfg := cfg } (.byPid 0) with x | x
    · rw [x] at hτ; cases hτ
    · rw [x] at hτ; injection hτ with hτ; subst hτ; exact ⟨Nat.le_refl _, Nat.lt_succ_self _⟩
  · refine traceTags_of_emits (c := { cfg := cfg }) (by intro e he; cases he)
      (construct_emits { cfg := cfg } (.byPid 0)) ?_
    intro e hu τ hτ
    rw [hu] at hτ; cases hτ

/-! ### the invariant in terms of `tagsIn` -/

theorem tagsIn_mem (t : Tab Handler) (τ : Nat) :
    τ ∈ tagsIn t ↔ ∃ p h, t.get p = some h ∧ hTag h = some τ := by
  unfold tagsIn
  rw [List.mem_filterMap]
  constructor
  · rintro ⟨o, ho, hb⟩
    obtain ⟨i, hi, hio⟩ := List.getElem_of_mem ho
    cases o with
    | none => cases hb
    | some hd =>
      refine ⟨i, hd, ?_, hb⟩
      rw [Tab.get_eq, List.getElem?_eq_getElem hi, hio]; rfl
  · rintro ⟨p, hd, hg, hτ⟩
    have hp := Tab.lt_of_get_some t p hd hg
    rw [Tab.get_eq, List.getElem?_eq_getElem hp] at hg
    simp only [Option.getD_some] at hg
    exact ⟨t[p], List.getElem_mem hp, by rw [hg]; exact hτ⟩

/-- `TabTags`, said with the list of tags: all below the bound, no tag twice -/
theorem tabTags_iff (t : Tab Handler) (n : Nat) :
    TabTags t n ↔ (∀ τ ∈ tagsIn t, τ < n) ∧ (tagsIn t).Pairwise (· ≠ ·) := by
  have hget : ∀ (i : Nat) (hi : i < t.length), t.get i = t[i] := by
    intro i hi
    rw [Tab.get_eq, List.getElem?_eq_getElem hi]; rfl
  constructor
  · intro ⟨h1, h2⟩
    refine ⟨?_, ?_⟩
    · intro τ hτ
      obtain ⟨p, hd, hg, ht⟩ := (tagsIn_mem t τ).1 hτ
      exact h1 p hd τ hg ht
    · unfold tagsIn
      rw [List.pairwise_filterMap, List.pairwise_iff_getElem]
      intro i j hi hj hij a ha b hb hab
      subst hab
      cases hoi : t[i] with
      | none => rw [hoi] at ha; cases ha
      | some x =>
        cases hoj : t[j] with
        | none => rw [hoj] at hb; cases hb
        | some y =>
          rw [hoi] at ha; rw [hoj] at hb
          have := h2 i j x y a (by rw [hget i hi, hoi]) (by rw [hget j hj, hoj]) ha hb
          omega
  · intro ⟨h1, h2⟩
    refine ⟨?_, ?_⟩
    · intro p hd τ hg ht
      exact h1 τ ((tagsIn_mem t τ).2 ⟨p, hd, hg, ht⟩)
    · unfold tagsIn at h2
      rw [List.pairwise_filterMap, List.pairwise_iff_getElem] at h2
      intro p q hp hq τ hgp hgq htp htq
      have lp := Tab.lt_of_get_some t p hp hgp
      have lq := Tab.lt_of_get_some t q hq hgq
      rw [hget p lp] at hgp
      rw [hget q lq] at hgq
      rcases Nat.lt_trichotomy p q with x | x | x
      · exact absurd rfl (h2 p q lp lq x τ (by rw [hgp]; exact htp) τ (by rw [hgq]; exact htq))
      · exact x
      · exact absurd rfl (h2 q p lq lp x τ (by rw [hgq]; exact htq) τ (by rw [hgp]; exact htp))

end Ts.Lemmas.Proj
