import Ts.Basic
import Ts.Spec.Bits
import Ts.Spec.AfSpec
import Ts.Spec.PesSpec
import Ts.Spec.TableSpec
import Ts.Lemmas.BitOps
import Ts.Lemmas.C13
import Ts.Lemmas.C14c
import Ts.Lemmas.C15
import Ts.Lemmas.C17
/-!
# Helper lemmas for the review-C additions to C12, C13, C14, C16, C17

* `okVal` / `ok_of_okVal`: evaluate the model on concrete bytes in the kernel (`decide +kernel` on an
  `Option` equality) and turn the result into an `R.ok` equation;
* C13: the closed-form cursor positions of `Ts.Spec.AfSpec` equal the sequential parser's cursors;
  two's-complement reading of a byte;
* C14: trick-mode / ESCR / ES_rate mask facts, the position of the trick-mode byte;
* C17: `CoreDescriptors::from_bytes` on an arbitrary buffer.
-/
namespace Ts.Lemmas.RevC
open Ts Ts.Spec

/-! ### evaluating the model in the kernel -/

def okVal {α : Type} : R α → Option α
  | .ok a => some a
  | .panic _ => none

theorem ok_of_okVal {α : Type} {x : R α} {v : α} (h : okVal x = some v) : x = .ok v := by
  cases x with
  | ok a => simp [okVal] at h; rw [h]
  | panic s => simp [okVal] at h

/-! ### C13: closed-form positions = the sequential parser's cursors -/
section C13
open Ts.Spec.AfSpec Ts.Lemmas.C13

theorem byteD_ge (b : Bytes) (i : Nat) (h : b.length ≤ i) : byteD b i = 0 := by
  unfold byteD
  rw [List.getD_eq_getElem?_getD, List.getElem?_eq_none h]; rfl

theorem cur1_pos (buf : Bytes) : cur1 buf = posOpcr buf := by
  unfold cur1 posOpcr optElem
  by_cases h : readBits buf 3 1 = 1 <;> simp [h]

theorem cur2_pos (buf : Bytes) : cur2 buf = posSplice buf := by
  unfold cur2 posSplice optElem
  rw [cur1_pos]
  by_cases h : readBits buf 4 1 = 1 <;> simp [h]

theorem cur3_pos (buf : Bytes) : cur3 buf = posPriv buf := by
  unfold cur3 posPriv optElem
  rw [cur2_pos]
  by_cases h : readBits buf 5 1 = 1 <;> simp [h]

theorem cur4_pos (buf : Bytes) : cur4 buf = posExt buf := by
  unfold cur4 posExt optLenPrefixed
  rw [cur3_pos, readBits_byte]
  by_cases h : readBits buf 6 1 = 1
  · simp only [h, beq_self_eq_true, if_true]
    by_cases hl : posPriv buf + 1 ≤ buf.length
    · rw [lenPrefixed_ok _ _ hl]; omega
    · rw [lenPrefixed_short _ _ hl, byteD_ge buf _ (by omega)]
  · simp [h]

theorem ecur1_pos (e : Bytes) : ecur1 e = posPiecewise e := by
  unfold ecur1 posPiecewise optElem
  by_cases h : readBits e 0 1 = 1 <;> simp [h]

theorem ecur2_pos (e : Bytes) : ecur2 e = posSeamless e := by
  unfold ecur2 posSeamless optElem
  rw [ecur1_pos]
  by_cases h : readBits e 1 1 = 1 <;> simp [h]

/-- the signed conversion of an unsigned byte is the standard's `tcimsbf` reading of that byte -/
theorem spliceSigned_eq_readSigned (d : Bytes) (off : Nat) :
    spliceSigned (readBits d off 8) = readSigned d off 8 := by
  unfold spliceSigned readSigned
  have e : readBits d off 8 = readBits d off 1 * 2 ^ 7 + readBits d (off + 1) 7 := readBits_add d off 1 7
  have h1 := readBits_lt d off 1
  have h2 := readBits_lt d (off + 1) 7
  rw [e]
  simp only [Nat.reduceSub, Nat.reducePow] at *
  by_cases hb : readBits d off 1 = 0
  · rw [hb]; simp; omega
  · have : readBits d off 1 = 1 := by omega
    rw [this]
    have : ¬ (1 * 128 + readBits d (off + 1) 7 < 128) := by omega
    simp only [this, if_false]
    omega

end C13

/-! ### C14: trick mode, ESCR / ES_rate masks -/
section C14
open Ts.Spec.PesSpec Ts.Lemmas.C14

theorem trickPos_eq (F : Flags) : trickPos F = curTrick F := by
  obtain ⟨pd, e, r, t, a, k, x⟩ := F
  unfold trickPos curTrick curEsRate curEscr adv
  cases e <;> cases r <;> (match pd with | 0 | 1 | 2 | 3 | _ + 4 => rfl)

theorem trickAt_reserved (c : Bytes) (p : Nat) (h : 5 ≤ readBits c (8 * p) 3) :
    trickAt c p = .reserved (readBits c (8 * p) 3) := by
  unfold trickAt
  generalize readBits c (8 * p) 3 = k at h
  match k with
  | 0 | 1 | 2 | 3 | 4 => omega
  | _ + 5 => rfl

theorem trickAt_exposed (c : Bytes) (p : Nat) : trickAt c p = (trickStdAt c p).exposed := by
  unfold trickAt trickStdAt
  generalize readBits c (8 * p) 3 = k
  match k with
  | 0 | 1 | 2 | 3 | 4 | _ + 5 => rfl

/-- on every byte whose control code is reserved, the code's decode is `Reserved { control }` -/
theorem tbl_trick_reserved : ∀ b : Fin 256, 5 ≤ b.val / 32 →
    okVal (Pes.trickOfByte b.val) = some (.reserved (b.val / 32)) := by decide +kernel

theorem tbl_escr_masks : ∀ b : Fin 256,
    (b.val ||| 4) &&& 0b0011_1000 = b.val &&& 0b0011_1000 ∧
    (b.val ||| 4) &&& 0b0000_0011 = b.val &&& 0b0000_0011 ∧
    (b.val ||| 4) &&& 0b1111_1000 = b.val &&& 0b1111_1000 ∧
    (b.val ||| 1) &&& 0b1111_1110 = b.val &&& 0b1111_1110 ∧
    (b.val ||| 0x80) &&& 0b0111_1111 = b.val &&& 0b0111_1111 := by decide +kernel

/-- ESCR: setting the four marker bits (byte 0 mask 0x04, byte 2 mask 0x04, byte 4 mask 0x04,
byte 5 mask 0x01) does not change what the code computes -/
theorem escr_markers_masked (s0 s1 s2 s3 s4 s5 : Nat) (h0 : s0 < 256) (h2 : s2 < 256) (h4 : s4 < 256)
    (h5 : s5 < 256) :
    Pes.escrBase (s0 ||| 4) s1 (s2 ||| 4) s3 (s4 ||| 4) = Pes.escrBase s0 s1 s2 s3 s4 ∧
    Pes.escrExt (s4 ||| 4) (s5 ||| 1) = Pes.escrExt s4 s5 := by
  obtain ⟨a0, b0, _, _, _⟩ := tbl_escr_masks ⟨s0, h0⟩
  obtain ⟨_, b2, c2, _, _⟩ := tbl_escr_masks ⟨s2, h2⟩
  obtain ⟨_, b4, c4, _, _⟩ := tbl_escr_masks ⟨s4, h4⟩
  obtain ⟨_, _, _, d5, _⟩ := tbl_escr_masks ⟨s5, h5⟩
  simp only at a0 b0 b2 c2 b4 c4 d5
  unfold Pes.escrBase Pes.escrExt
  rw [a0, b0, b2, c2, b4, c4, d5]
  exact ⟨rfl, rfl⟩

/-- ES_rate: setting the two marker bits (byte 0 mask 0x80, byte 2 mask 0x01) does not change the
value -/
theorem esRate_markers_masked (s0 s1 s2 : Nat) (h0 : s0 < 256) (h2 : s2 < 256) :
    Pes.esRateVal (s0 ||| 0x80) s1 (s2 ||| 1) = Pes.esRateVal s0 s1 s2 := by
  obtain ⟨_, _, _, _, e0⟩ := tbl_escr_masks ⟨s0, h0⟩
  obtain ⟨_, _, _, d2, _⟩ := tbl_escr_masks ⟨s2, h2⟩
  simp only at e0 d2
  unfold Pes.esRateVal
  rw [e0, d2]

end C14

/-! ### C17: `CoreDescriptors::from_bytes` on an arbitrary buffer -/
section C17
open Ts.Tables Ts.Spec.TableSpec Ts.Lemmas.C17

theorem coreFromBytes_eq (buf : Bytes) :
    coreFromBytes buf = .ok (
      if buf.length < 2 then .err .bufferTooShort
      else if buf.length < 2 + byteD buf 1 then .err .tagTooLongForBuffer
      else classify (byteD buf 0, (buf.drop 2).take (byteD buf 1))) := by
  unfold coreFromBytes
  by_cases h2 : buf.length < 2
  · simp [h2]
  · rw [if_neg h2, if_neg h2, byteAt_ok buf 0 (by omega), byteAt_ok buf 1 (by omega)]
    simp only [R.ok_bind]
    by_cases h3 : buf.length < 2 + byteD buf 1
    · have : byteD buf 1 + 2 > buf.length := by omega
      simp [h3, this]
    · have : ¬ (byteD buf 1 + 2 > buf.length) := by omega
      rw [if_neg this, if_neg h3, Nat.add_comm, sliceR_ok buf 2 _ (by omega)]
      simp only [R.ok_bind, typedNew_eq, classify]
      generalize (buf.drop 2).take (byteD buf 1) = pl
      by_cases hm : pl.length < typedMinLength (byteD buf 0) <;> simp [hm]

end C17

end Ts.Lemmas.RevC
