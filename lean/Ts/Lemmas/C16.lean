import Ts.Spec.TableSpec
import Ts.Lemmas.BitOps
/-! Helper lemmas for C16 (PAT and PMT bodies). -/
namespace Ts.Lemmas.C16
open Ts Ts.Spec Ts.Tables Ts.Spec.TableSpec

theorem assertR_ok (c : Bool) (s : String) (h : c = true) : assertR c s = .ok () := by
  simp [assertR, h]

theorem pidNew_ok (v : Nat) (h : v ≤ 0x1fff) : pidNew v = .ok v := by
  unfold pidNew
  rw [assertR_ok _ _ (by simpa using h)]
  rfl

/-! ### code side: masks and shifts as arithmetic -/

theorem shl8_or (a b : Nat) (hb : b < 256) : (a <<< 8) ||| b = a * 256 + b := by
  rw [Nat.shiftLeft_eq, or_eq_add 8 (Nat.dvd_mul_left _ _) hb]

theorem mask13 (a b : Nat) (ha : a < 256) (hb : b < 256) :
    ((a &&& 0b0001_1111) <<< 8) ||| b = a % 32 * 256 + b := by
  rw [and_1f a ha, shl8_or _ _ hb]

theorem mask12 (a b : Nat) (ha : a < 256) (hb : b < 256) :
    ((a &&& 0b0000_1111) <<< 8) ||| b = a % 16 * 256 + b := by
  rw [and_0f a ha, shl8_or _ _ hb]

/-! ### spec side: `uimsbf` fields as byte arithmetic -/

theorem field_0_16 (g : Bytes) (i : Nat) : readBits g (8 * i) 16 = byteD g i * 256 + byteD g (i + 1) := by
  have e := readBits_add g (8 * i) 8 8
  have r1 := readBits_byte g i
  have r2 := readBits_byte g (i + 1)
  have : 8 * i + 8 = 8 * (i + 1) := by omega
  rw [this] at e
  rw [show (16 : Nat) = 8 + 8 from rfl, e, r1, r2]

theorem field_0_3 (g : Bytes) (i : Nat) : readBits g (8 * i) 3 = byteD g i / 32 := by
  have r := readBits_sub g i 0 3 (by omega)
  have := byteD_lt g i
  simp only [Nat.add_zero] at r
  rw [r]; omega

theorem field_0_4 (g : Bytes) (i : Nat) : readBits g (8 * i) 4 = byteD g i / 16 := by
  have r := readBits_sub g i 0 4 (by omega)
  have := byteD_lt g i
  simp only [Nat.add_zero] at r
  rw [r]; omega

theorem field_3_13 (g : Bytes) (i : Nat) :
    readBits g (8 * i + 3) 13 = byteD g i % 32 * 256 + byteD g (i + 1) := by
  have e := readBits_add g (8 * i + 3) 5 8
  have r1 := readBits_sub g i 3 5 (by omega)
  have r2 := readBits_byte g (i + 1)
  have : 8 * i + 3 + 5 = 8 * (i + 1) := by omega
  rw [this] at e
  rw [show (13 : Nat) = 5 + 8 from rfl, e, r1, r2]
  omega

theorem field_4_12 (g : Bytes) (i : Nat) :
    readBits g (8 * i + 4) 12 = byteD g i % 16 * 256 + byteD g (i + 1) := by
  have e := readBits_add g (8 * i + 4) 4 8
  have r1 := readBits_sub g i 4 4 (by omega)
  have r2 := readBits_byte g (i + 1)
  have : 8 * i + 4 + 4 = 8 * (i + 1) := by omega
  rw [this] at e
  rw [show (12 : Nat) = 4 + 8 from rfl, e, r1, r2]
  omega

theorem pat_pn (g : Bytes) : readBits g 0 16 = byteD g 0 * 256 + byteD g 1 := field_0_16 g 0
theorem pat_rsv (g : Bytes) : readBits g 16 3 = byteD g 2 / 32 := field_0_3 g 2
theorem pat_pid (g : Bytes) : readBits g 19 13 = byteD g 2 % 32 * 256 + byteD g 3 := field_3_13 g 2
theorem pmt_pcr (d : Bytes) : readBits d 3 13 = byteD d 0 % 32 * 256 + byteD d 1 := by
  have := field_3_13 d 0; simpa using this
theorem pmt_pil (d : Bytes) : readBits d 20 12 = byteD d 2 % 16 * 256 + byteD d 3 := field_4_12 d 2
theorem st_type (b : Bytes) : readBits b 0 8 = byteD b 0 := readBits_byte b 0
theorem st_rsv1 (b : Bytes) : readBits b 8 3 = byteD b 1 / 32 := field_0_3 b 1
theorem st_pid (b : Bytes) : readBits b 11 13 = byteD b 1 % 32 * 256 + byteD b 2 := field_3_13 b 1
theorem st_rsv2 (b : Bytes) : readBits b 24 4 = byteD b 3 / 16 := field_0_4 b 3
theorem st_esil (b : Bytes) : readBits b 28 12 = byteD b 3 % 16 * 256 + byteD b 4 := field_4_12 b 3

/-! ### PAT -/

theorem pat_if (pn pid : Nat) :
    (if (pn == 0) = true then (pure (PatEntry.network pid) : R PatEntry) else pure (.program pn pid))
      = .ok (if pn = 0 then .network pid else .program pn pid) := by
  by_cases h0 : pn = 0 <;> simp [h0]

theorem patEntry_ok (g : Bytes) (h : 4 ≤ g.length) : patEntryFromBytes g = .ok (patEntryOf g) := by
  unfold patEntryFromBytes patEntryOf
  rw [byteAt_ok g 0 (by omega), byteAt_ok g 1 (by omega), byteAt_ok g 2 (by omega),
    byteAt_ok g 3 (by omega)]
  simp only [R.ok_bind]
  rw [shl8_or _ _ (byteD_lt g 1), mask13 _ _ (byteD_lt g 2) (byteD_lt g 3), pat_pn, pat_pid]
  have := byteD_lt g 2
  have := byteD_lt g 3
  rw [pidNew_ok _ (by omega)]
  simp only [R.ok_bind, R.pure_eq]
  exact pat_if _ _

theorem chunks4_cons (a b c d : UInt8) (rest : Bytes) :
    chunks4 (a :: b :: c :: d :: rest) = [a, b, c, d] :: chunks4 rest := by rw [chunks4]

theorem chunks4_short (buf : Bytes) (h : buf.length < 4) : chunks4 buf = [] := by
  rcases buf with _ | ⟨a, _ | ⟨b, _ | ⟨c, _ | ⟨d, rest⟩⟩⟩⟩ <;> simp [chunks4] at *
  omega

theorem chunks4_length : ∀ (n : Nat) (buf : Bytes), buf.length < n → (chunks4 buf).length = buf.length / 4 := by
  intro n
  induction n with
  | zero => intro buf h; omega
  | succ n ih =>
    intro buf h
    rcases buf with _ | ⟨a, _ | ⟨b, _ | ⟨c, _ | ⟨d, rest⟩⟩⟩⟩
    · simp [chunks4]
    · simp [chunks4]
    · simp [chunks4]
    · simp [chunks4]
    · rw [chunks4_cons, List.length_cons, ih rest (by simp at h; omega)]
      simp only [List.length_cons]
      omega

theorem patPrograms_eq : ∀ (fuel : Nat) (buf : Bytes), buf.length < fuel →
    patPrograms fuel buf = .ok (specPat buf) := by
  intro fuel
  induction fuel with
  | zero => intro buf h; omega
  | succ n ih =>
    intro buf h
    rcases buf with _ | ⟨a, _ | ⟨b, _ | ⟨c, _ | ⟨d, rest⟩⟩⟩⟩
    · simp [patPrograms, specPat, chunks4]
    · simp [patPrograms, specPat, chunks4]
    · simp [patPrograms, specPat, chunks4]
    · simp [patPrograms, specPat, chunks4]
    · have hl : rest.length < n := by simp at h; omega
      have e : patPrograms (n + 1) (a :: b :: c :: d :: rest) = (do
          let e ← patEntryFromBytes [a, b, c, d]
          let r ← patPrograms n rest
          pure (e :: r)) := by
        simp [patPrograms]
        intro hh; omega
      rw [e, patEntry_ok _ (by simp), ih rest hl]
      simp [specPat, chunks4_cons]



/-! ### PAT encoder -/

theorem beByte_toNat (w k i : Nat) : (beByte w k i).toNat = w / 2 ^ (8 * (k - 1 - i)) % 256 := by
  unfold beByte
  simp

theorem byteD_cons_zero (a : UInt8) (l : Bytes) : byteD (a :: l) 0 = a.toNat := by simp [byteD]
theorem byteD_cons_succ (a : UInt8) (l : Bytes) (i : Nat) : byteD (a :: l) (i + 1) = byteD l i := by
  simp [byteD]

theorem pat_word (pn r pid : Nat) (hpn : pn < 65536) (hpid : pid ≤ 8191) :
    let w := cat (cat (cat 0 16 pn) 3 r) 13 pid
    (w / 2 ^ 24 % 256) * 256 + (w / 2 ^ 16 % 256) = pn ∧
    (w / 2 ^ 8 % 256) % 32 * 256 + w % 256 = pid ∧ w / 2 ^ 8 % 256 / 32 = r % 8 := by
  simp only [cat, Nat.reducePow]
  omega

theorem patEntryOf_encode (r : Nat) (e : PatEntry) (h : PatWf e) :
    patEntryOf (encodePatEntry r e) = e := by
  have hb : patProgramNumber e < 65536 ∧ e.pid ≤ 8191 := by
    cases e <;> simp [PatWf, patProgramNumber, PatEntry.pid] at * <;> omega
  have w := pat_word (patProgramNumber e) r e.pid hb.1 hb.2
  unfold patEntryOf encodePatEntry
  rw [pat_pn, pat_pid]
  simp only [byteD_cons_zero, byteD_cons_succ, beByte_toNat] at w ⊢
  simp only [Nat.reduceSub, Nat.reduceMul, Nat.pow_zero, Nat.div_one] at w ⊢
  rw [w.1, w.2.1]
  cases e with
  | network p => simp [patProgramNumber, PatEntry.pid]
  | program n p => have h1 : n ≠ 0 := h.1; simp [patProgramNumber, PatEntry.pid, h1]

/-- the reserved bits of an encoded entry are the ones given -/
theorem pat_rsv_encode (r : Nat) (e : PatEntry) (h : PatWf e) :
    readBits (encodePatEntry r e) 16 3 = r % 8 := by
  have hb : patProgramNumber e < 65536 ∧ e.pid ≤ 8191 := by
    cases e <;> simp [PatWf, patProgramNumber, PatEntry.pid] at * <;> omega
  have w := pat_word (patProgramNumber e) r e.pid hb.1 hb.2
  unfold encodePatEntry
  rw [pat_rsv]
  simp only [byteD_cons_zero, byteD_cons_succ, beByte_toNat] at w ⊢
  simp only [Nat.reduceSub, Nat.reduceMul] at w ⊢
  exact w.2.2

theorem encodePatEntry_shape (r : Nat) (e : PatEntry) :
    ∃ a b c d, encodePatEntry r e = [a, b, c, d] := ⟨_, _, _, _, rfl⟩

theorem specPat_encode (es : List (Nat × PatEntry)) (h : ∀ x ∈ es, PatWf x.2) :
    specPat (encodePat es) = es.map (·.2) := by
  induction es with
  | nil => simp [encodePat, specPat, chunks4]
  | cons x es ih =>
    obtain ⟨a, b, c, d, he⟩ := encodePatEntry_shape x.1 x.2
    have e1 := patEntryOf_encode x.1 x.2 (h x (by simp))
    rw [he] at e1
    have ih' := ih (fun y hy => h y (by simp [hy]))
    unfold specPat encodePat at *
    simp only [List.map_cons, List.flatten_cons, he, List.cons_append, List.nil_append,
      chunks4_cons, e1, ih']

/-! ### PMT header -/

theorem pmtFromBytes_eq (data : Bytes) :
    pmtFromBytes data = .ok (if specPmtAccept data then some data else none) := by
  unfold pmtFromBytes
  by_cases h4 : data.length < 4
  · have : ¬ specPmtAccept data := by unfold specPmtAccept; omega
    simp [h4, this]
  · rw [if_neg h4, byteAt_ok data 2 (by omega), byteAt_ok data 3 (by omega)]
    simp only [R.ok_bind]
    rw [mask12 _ _ (byteD_lt data 2) (byteD_lt data 3), ← pmt_pil]
    by_cases h2 : data.length < readBits data 20 12 + 4
    · have : ¬ specPmtAccept data := by unfold specPmtAccept pmtPil; omega
      simp [h2, this]
    · have : specPmtAccept data := by unfold specPmtAccept pmtPil; omega
      simp [h2, this]

theorem pmtPcrPid_eq (data : Bytes) (h : 2 ≤ data.length) : pmtPcrPid data = .ok (specPcrPid data) := by
  unfold pmtPcrPid specPcrPid
  rw [byteAt_ok data 0 (by omega), byteAt_ok data 1 (by omega)]
  simp only [R.ok_bind]
  rw [mask13 _ _ (byteD_lt data 0) (byteD_lt data 1), ← pmt_pcr]
  have := readBits_lt data 3 13
  exact pidNew_ok _ (by omega)

theorem pmtPil_eq (data : Bytes) (h : 4 ≤ data.length) : pmtProgramInfoLength data = .ok (pmtPil data) := by
  unfold pmtProgramInfoLength pmtPil
  rw [byteAt_ok data 2 (by omega), byteAt_ok data 3 (by omega)]
  simp only [R.ok_bind, R.pure_eq]
  rw [mask12 _ _ (byteD_lt data 2) (byteD_lt data 3), ← pmt_pil]

theorem pmtDescriptorBytes_eq (data : Bytes) (h : specPmtAccept data) :
    pmtDescriptorBytes data = .ok (specProgramDescBytes data) := by
  unfold pmtDescriptorBytes specProgramDescBytes
  rw [pmtPil_eq data h.1]
  simp only [R.ok_bind]
  exact sliceR_ok data 4 _ h.2

/-! ### PMT stream loop: model = spec -/

theorem streamInfo_eq (buf : Bytes) :
    streamInfoFromBytes buf
      = .ok (if streamFits buf then some ((streamAt buf).info, 5 + esInfoLength buf) else none) := by
  unfold streamInfoFromBytes
  by_cases h5 : buf.length < 5
  · have : ¬ streamFits buf := by unfold streamFits; omega
    simp [h5, this]
  · rw [if_neg h5, byteAt_ok buf 3 (by omega), byteAt_ok buf 4 (by omega)]
    simp only [R.ok_bind]
    rw [mask12 _ _ (byteD_lt buf 3) (byteD_lt buf 4), ← st_esil]
    by_cases h2 : 5 + readBits buf 28 12 > buf.length
    · have : ¬ streamFits buf := by unfold streamFits esInfoLength; omega
      simp [h2, this]
    · have hf : streamFits buf := by unfold streamFits esInfoLength; omega
      rw [if_neg h2, byteAt_ok buf 0 (by omega), byteAt_ok buf 1 (by omega), byteAt_ok buf 2 (by omega)]
      simp only [R.ok_bind]
      rw [mask13 _ _ (byteD_lt buf 1) (byteD_lt buf 2), ← st_pid]
      have := readBits_lt buf 11 13
      rw [pidNew_ok _ (by omega), sliceR_ok buf 5 _ (by omega)]
      simp [hf, streamAt, StreamEnc.info, st_type]

theorem specStreams_fits (buf : Bytes) (h : streamFits buf) :
    specStreams buf = (streamAt buf :: (specStreams (buf.drop (5 + esInfoLength buf))).1,
      (specStreams (buf.drop (5 + esInfoLength buf))).2) := by
  rw [specStreams]; simp [h]

theorem specStreams_stop (buf : Bytes) (h : ¬ streamFits buf) : specStreams buf = ([], buf) := by
  rw [specStreams]; simp [h]

theorem streamIter_eq : ∀ (fuel : Nat) (buf : Bytes), buf.length < fuel →
    streamIter fuel buf = .ok ((specStreams buf).1.map StreamEnc.info) := by
  intro fuel
  induction fuel with
  | zero => intro buf h; omega
  | succ n ih =>
    intro buf h
    unfold streamIter
    by_cases he : buf.isEmpty
    · have : buf = [] := by simpa using he
      subst this
      have : ¬ streamFits ([] : Bytes) := by unfold streamFits; simp
      simp [specStreams_stop _ this]
    · rw [if_neg he, streamInfo_eq]
      by_cases hf : streamFits buf
      · have hl : (buf.drop (5 + esInfoLength buf)).length < n := by
          have := hf.1; simp; omega
        simp only [hf, if_true, R.ok_bind]
        rw [sliceFrom_ok buf _ hf.2]
        simp only [R.ok_bind]
        rw [ih _ hl, specStreams_fits buf hf]
        simp
      · simp [hf, specStreams_stop buf hf]

theorem pmtStreams_eq (data : Bytes) (h : specPmtAccept data) :
    pmtStreams data = .ok ((specStreams (specStreamBytes data)).1.map StreamEnc.info) := by
  unfold pmtStreams specStreamBytes
  rw [pmtPil_eq data h.1]
  simp only [R.ok_bind]
  have : ¬ (4 + pmtPil data > data.length) := by have := h.2; omega
  rw [if_neg this, sliceFrom_ok data _ h.2]
  simp only [R.ok_bind]
  exact streamIter_eq _ _ (by omega)

/-! ### PMT stream entries: encoder against the bit fields -/

theorem stream_word (st r1 pid r2 len : Nat) (h1 : st < 256) (h2 : pid ≤ 8191) (h3 : len < 4096) :
    let w := cat (cat (cat (cat (cat 0 8 st) 3 r1) 13 pid) 4 r2) 12 len
    w / 2 ^ 32 % 256 = st ∧ w / 2 ^ 24 % 256 / 32 = r1 % 8 ∧
    w / 2 ^ 24 % 256 % 32 * 256 + w / 2 ^ 16 % 256 = pid ∧
    w / 2 ^ 8 % 256 / 16 = r2 % 16 ∧ w / 2 ^ 8 % 256 % 16 * 256 + w % 256 = len := by
  simp only [cat, Nat.reducePow]
  omega

theorem stream_word_inv (b0 b1 b2 b3 b4 : Nat) (h0 : b0 < 256) (h1 : b1 < 256) (h2 : b2 < 256)
    (h3 : b3 < 256) (h4 : b4 < 256) :
    let w := cat (cat (cat (cat (cat 0 8 b0) 3 (b1 / 32)) 13 (b1 % 32 * 256 + b2)) 4 (b3 / 16)) 12
      (b3 % 16 * 256 + b4)
    w / 2 ^ 32 % 256 = b0 ∧ w / 2 ^ 24 % 256 = b1 ∧ w / 2 ^ 16 % 256 = b2 ∧ w / 2 ^ 8 % 256 = b3 ∧
    w % 256 = b4 := by
  simp only [cat, Nat.reducePow]
  omega

theorem encodeStream_length (e : StreamEnc) : (encodeStream e).length = 5 + e.descBytes.length := by
  simp [encodeStream]; omega

theorem encodeStream_fields (e : StreamEnc) (h : StreamWf e) (rest : Bytes) :
    readBits (encodeStream e ++ rest) 0 8 = e.streamType ∧
    readBits (encodeStream e ++ rest) 8 3 = e.reserved1 ∧
    readBits (encodeStream e ++ rest) 11 13 = e.pid ∧
    readBits (encodeStream e ++ rest) 24 4 = e.reserved2 ∧
    readBits (encodeStream e ++ rest) 28 12 = e.descBytes.length := by
  obtain ⟨h1, h2, h3, h4, h5⟩ := h
  have w := stream_word e.streamType e.reserved1 e.pid e.reserved2 e.descBytes.length h1 h3 h5
  rw [st_type, st_rsv1, st_pid, st_rsv2, st_esil]
  unfold encodeStream
  simp only [List.cons_append, byteD_cons_zero, byteD_cons_succ, beByte_toNat] at w ⊢
  simp only [Nat.reduceSub, Nat.reduceMul, Nat.pow_zero, Nat.div_one] at w ⊢
  obtain ⟨w1, w2, w3, w4, w5⟩ := w
  refine ⟨w1, ?_, w3, ?_, w5⟩
  · rw [w2]; omega
  · rw [w4]; omega


theorem streamFits_encode (e : StreamEnc) (h : StreamWf e) (rest : Bytes) :
    streamFits (encodeStream e ++ rest) := by
  unfold streamFits esInfoLength
  rw [(encodeStream_fields e h rest).2.2.2.2, List.length_append, encodeStream_length]
  omega

theorem streamAt_encode (e : StreamEnc) (h : StreamWf e) (rest : Bytes) :
    streamAt (encodeStream e ++ rest) = e := by
  obtain ⟨f1, f2, f3, f4, f5⟩ := encodeStream_fields e h rest
  unfold streamAt esInfoLength
  rw [f1, f2, f3, f4, f5]
  have : ((encodeStream e ++ rest).drop 5).take e.descBytes.length = e.descBytes := by
    simp [encodeStream]
  rw [this]

theorem drop_encode (e : StreamEnc) (h : StreamWf e) (rest : Bytes) :
    (encodeStream e ++ rest).drop (5 + esInfoLength (encodeStream e ++ rest)) = rest := by
  unfold esInfoLength
  rw [(encodeStream_fields e h rest).2.2.2.2, ← encodeStream_length]
  simp

theorem specStreams_encode (es : List StreamEnc) (h : ∀ e ∈ es, StreamWf e) :
    specStreams ((es.map encodeStream).flatten) = (es, []) := by
  induction es with
  | nil =>
    have : ¬ streamFits ([] : Bytes) := by unfold streamFits; simp
    simpa using specStreams_stop _ this
  | cons e es ih =>
    have he := h e (by simp)
    have ih' := ih (fun y hy => h y (by simp [hy]))
    simp only [List.map_cons, List.flatten_cons]
    rw [specStreams_fits _ (streamFits_encode e he _), drop_encode e he, streamAt_encode e he, ih']

/-! ### PMT stream loop: the parse tiles the buffer -/

theorem streamAt_wf (buf : Bytes) (h : streamFits buf) : StreamWf (streamAt buf) := by
  unfold StreamWf streamAt
  have := readBits_lt buf 0 8
  have := readBits_lt buf 8 3
  have := readBits_lt buf 11 13
  have := readBits_lt buf 24 4
  have := readBits_lt buf 28 12
  have := h.2
  simp only [List.length_take, List.length_drop, esInfoLength] at *
  omega

theorem encode_streamAt (buf : Bytes) (h : streamFits buf) :
    encodeStream (streamAt buf) = buf.take (5 + esInfoLength buf) := by
  obtain ⟨h5, hl⟩ := h
  rcases buf with _ | ⟨a0, _ | ⟨a1, _ | ⟨a2, _ | ⟨a3, _ | ⟨a4, rest⟩⟩⟩⟩⟩ <;>
    simp only [List.length_cons, List.length_nil] at h5 <;> try omega
  have hlen : ((a0 :: a1 :: a2 :: a3 :: a4 :: rest).drop 5).take
      (esInfoLength (a0 :: a1 :: a2 :: a3 :: a4 :: rest)) = rest.take (esInfoLength (a0 :: a1 :: a2 :: a3 :: a4 :: rest)) := by
    simp
  have hl2 : esInfoLength (a0 :: a1 :: a2 :: a3 :: a4 :: rest) ≤ rest.length := by
    simp only [List.length_cons] at hl; omega
  have w := stream_word_inv a0.toNat a1.toNat a2.toNat a3.toNat a4.toNat (UInt8.toNat_lt _)
    (UInt8.toNat_lt _) (UInt8.toNat_lt _) (UInt8.toNat_lt _) (UInt8.toNat_lt _)
  obtain ⟨w0, w1, w2, w3, w4⟩ := w
  have hes : esInfoLength (a0 :: a1 :: a2 :: a3 :: a4 :: rest) = a3.toNat % 16 * 256 + a4.toNat := by
    unfold esInfoLength; rw [st_esil]; simp only [byteD_cons_zero, byteD_cons_succ]
  unfold encodeStream streamAt
  rw [hlen, List.length_take, Nat.min_eq_left hl2, hes, st_type, st_rsv1, st_pid, st_rsv2]
  simp only [byteD_cons_zero, byteD_cons_succ]
  unfold beByte
  simp only [Nat.reduceSub, Nat.reduceMul, Nat.pow_zero, Nat.div_one]
  rw [w0, w1, w2, w3, w4]
  simp only [UInt8.ofNat_toNat, List.cons_append, List.nil_append]
  rw [show 5 + (a3.toNat % 16 * 256 + a4.toNat) = (a3.toNat % 16 * 256 + a4.toNat) + 1 + 1 + 1 + 1 + 1 by omega]
  simp only [List.take_succ_cons]


theorem specStreams_props : ∀ (n : Nat) (buf : Bytes), buf.length < n →
    ((specStreams buf).1.map encodeStream).flatten ++ (specStreams buf).2 = buf ∧
    ¬ streamFits (specStreams buf).2 ∧ (∀ e ∈ (specStreams buf).1, StreamWf e) := by
  intro n
  induction n with
  | zero => intro buf h; omega
  | succ n ih =>
    intro buf h
    by_cases hf : streamFits buf
    · have hl : (buf.drop (5 + esInfoLength buf)).length < n := by
        have := hf.1; simp; omega
      obtain ⟨i1, i2, i3⟩ := ih _ hl
      rw [specStreams_fits buf hf]
      refine ⟨?_, i2, ?_⟩
      · simp only [List.map_cons, List.flatten_cons, List.append_assoc]
        rw [i1, encode_streamAt buf hf, List.take_append_drop]
      · intro e he
        simp only [List.mem_cons] at he
        rcases he with rfl | he
        · exact streamAt_wf buf hf
        · exact i3 e he
    · rw [specStreams_stop buf hf]
      simp [hf]

/-! ### PMT body encoder -/

theorem pmt_word (rA pcr rB len : Nat) (h1 : pcr ≤ 8191) (h2 : len < 4096) :
    let w := cat (cat (cat (cat 0 3 rA) 13 pcr) 4 rB) 12 len
    w / 2 ^ 24 % 256 % 32 * 256 + w / 2 ^ 16 % 256 = pcr ∧
    w / 2 ^ 8 % 256 % 16 * 256 + w % 256 = len := by
  simp only [cat, Nat.reducePow]
  omega

theorem encodePmt_fields (rA pcr rB : Nat) (pd : Bytes) (ss : List StreamEnc) (h1 : pcr ≤ 0x1fff)
    (h2 : pd.length < 4096) :
    specPcrPid (encodePmt rA pcr rB pd ss) = pcr ∧ pmtPil (encodePmt rA pcr rB pd ss) = pd.length := by
  have w := pmt_word rA pcr rB pd.length h1 h2
  unfold specPcrPid pmtPil
  rw [pmt_pcr, pmt_pil]
  unfold encodePmt
  simp only [List.cons_append, byteD_cons_zero, byteD_cons_succ, beByte_toNat] at w ⊢
  simp only [Nat.reduceSub, Nat.reduceMul, Nat.pow_zero, Nat.div_one] at w ⊢
  exact w

theorem encodePmt_length (rA pcr rB : Nat) (pd : Bytes) (ss : List StreamEnc) :
    (encodePmt rA pcr rB pd ss).length = 4 + pd.length + ((ss.map encodeStream).flatten).length := by
  simp [encodePmt]; omega

theorem encodePmt_accept (rA pcr rB : Nat) (pd : Bytes) (ss : List StreamEnc) (h1 : pcr ≤ 0x1fff)
    (h2 : pd.length < 4096) : specPmtAccept (encodePmt rA pcr rB pd ss) := by
  unfold specPmtAccept
  rw [(encodePmt_fields rA pcr rB pd ss h1 h2).2, encodePmt_length]
  omega

theorem encodePmt_desc (rA pcr rB : Nat) (pd : Bytes) (ss : List StreamEnc) (h1 : pcr ≤ 0x1fff)
    (h2 : pd.length < 4096) : specProgramDescBytes (encodePmt rA pcr rB pd ss) = pd := by
  unfold specProgramDescBytes
  rw [(encodePmt_fields rA pcr rB pd ss h1 h2).2]
  simp [encodePmt]

theorem encodePmt_streams (rA pcr rB : Nat) (pd : Bytes) (ss : List StreamEnc) (h1 : pcr ≤ 0x1fff)
    (h2 : pd.length < 4096) :
    specStreamBytes (encodePmt rA pcr rB pd ss) = (ss.map encodeStream).flatten := by
  unfold specStreamBytes
  rw [(encodePmt_fields rA pcr rB pd ss h1 h2).2]
  unfold encodePmt
  rw [show 4 + pd.length = pd.length + 1 + 1 + 1 + 1 by omega]
  simp

/-! ### position of the groups -/

theorem chunks4_get : ∀ (i : Nat) (buf : Bytes), i < buf.length / 4 →
    (chunks4 buf)[i]? = some ((buf.drop (4 * i)).take 4) := by
  intro i
  induction i with
  | zero =>
    intro buf h
    rcases buf with _ | ⟨a, _ | ⟨b, _ | ⟨c, _ | ⟨d, rest⟩⟩⟩⟩ <;> simp at h
    simp [chunks4_cons]
  | succ i ih =>
    intro buf h
    rcases buf with _ | ⟨a, _ | ⟨b, _ | ⟨c, _ | ⟨d, rest⟩⟩⟩⟩ <;>
      simp only [List.length_cons, List.length_nil] at h <;> try omega
    have hi : i < rest.length / 4 := by omega
    rw [chunks4_cons, List.getElem?_cons_succ, ih rest hi]
    rw [show 4 * (i + 1) = 4 * i + 1 + 1 + 1 + 1 by omega]
    simp only [List.drop_succ_cons]


end Ts.Lemmas.C16
