import Ts.Lemmas.C10b
import Ts.Props.C05History
/-!
# C10 helper lemmas, part 3: the full-strength statement, its two gaps (F8, F9), the partial theorem

* `ShortStart`, `short_start_spec`, `short_start_consume`: a unit-start payload with fewer than 3
  section bytes after the pointer bytes RESETS the whole `Psi.table` chain, including the dedup
  layer's remembered version (known finding F8).
* `appliedOn`, `lastAppliedOn`, `tablePid`, `RebuiltSinceLast`: "the version last applied on PID `p`"
  as a function of the HISTORY (`Ts.Spec.RoutingHistory.Event`s), not of a handler's state.
* `lastAppliedOn_split` / `lastAppliedOn_of_split`, `tableVersion_of_last`: the history-level
  version equals the handler instance's version provided no PAT listing `p` was applied since.
* `rep_noop_of_sim`: repetitions are a no-op on every (table, context) that agrees with a route.
* the F8 / F8 control / F9 probes (`/tmp/pr/cases.txt`, also in `/verif/known_findings.json`) as byte
  lists, framed, cut into histories, and evaluated by the kernel.
-/
namespace Ts.Lemmas.C10
open Ts Ts.Psi Ts.Spec Ts.Spec.SectionMux Ts.Lemmas.C03 Ts.App Ts.Demux Ts.Tables
open Ts.Spec.TableSpec Ts.Spec.Routing Ts.Spec.RoutingHistory Ts.Lemmas.C05H Ts.Lemmas.C05Run

/-! ### F8 mechanism: a short start resets the dedup layer -/

/-- the payload `b` of a unit-start packet carries fewer than 3 bytes after its `pointer_field`
bytes (`b[0]` = `pointer_field`): the 3-byte common section header straddles two packets, or the
pointer points at / beyond the end of the payload -/
def ShortStart (b : Bytes) : Prop := 1 ≤ b.length ∧ b.length < byteD b 0 + 4

instance (b : Bytes) : Decidable (ShortStart b) := by unfold ShortStart; infer_instance

/-- `reset()` through the whole `table` chain: buffer dropped, `Complete`, version forgotten -/
theorem procReset_table (s : St) :
    procReset Psi.table s
      = { s with buf := [], remaining := none, lastVersion := none, dedupIgnore := false } := rfl

/-- the pure form of `consume` on a short start: the pointer bytes (if any, and if they do not
cover the whole payload) go to the section being reassembled (at most one delivery, none when the
buffer layer is `Complete`); then the chain is reset -/
theorem short_start_spec (s : St) (hs : PsiInv .syntax s) (b : Bytes) (off : Nat)
    (hshort : ShortStart b) :
    ∃ s0 ds, consumeSpec Psi.table s true b off = (procReset Psi.table s0, ds)
      ∧ s0.ignoreRest = s.ignoreRest ∧ ds.length ≤ 1 ∧ (s.remaining = none → ds = []) := by
  obtain ⟨h1, h2⟩ := hshort
  unfold consumeSpec
  simp only [if_true]
  by_cases hres : 0 < byteD b 0 ∧ (b.drop 1).length ≤ byteD b 0
  · rw [if_pos hres]
    exact ⟨s, [], rfl, rfl, by simp, fun _ => rfl⟩
  · rw [if_neg hres]
    have hns : ((b.drop 1).drop (byteD b 0)).length < 3 := by
      simp only [List.length_drop]; omega
    simp only [hns, if_true]
    refine ⟨_, _, rfl, ?_, ?_, ?_⟩
    · split
      · unfold contSpec
        split
        · rfl
        · split
          · rfl
          · unfold bufContSpec
            cases s.remaining with
            | none => rfl
            | some n => simp only; split <;> rfl
      · rfl
    · split
      · exact (contSpec_deliveries_weak Psi.table .syntax s _ hs).1
      · simp
    · intro hidle
      split
      · rw [contSpec_idle _ _ _ (Or.inl hidle)]
      · rfl

/-- **F8 mechanism, payload level.**  Any unit-start payload with fewer than 3 bytes after the
pointer bytes, in any state satisfying the buffer invariant: `consume` does not panic, delivers at
most what the pointer bytes completed (nothing when the buffer layer is `Complete`), and leaves the
chain RESET: `lastVersion = none` — the dedup layer has forgotten the version it had applied. -/
theorem short_start_consume (s : St) (hs : PsiInv .syntax s) (b : Bytes) (off : Nat)
    (hshort : ShortStart b) :
    ∃ s' ds, consumePayload Psi.table s true b off = .ok (s', ds)
      ∧ s'.lastVersion = none ∧ s'.remaining = none ∧ s'.buf = [] ∧ s'.dedupIgnore = false
      ∧ s'.ignoreRest = s.ignoreRest ∧ ds.length ≤ 1 ∧ (s.remaining = none → ds = []) := by
  obtain ⟨s0, ds, h, hig, h1, h2⟩ := short_start_spec s hs b off hshort
  refine ⟨procReset Psi.table s0, ds, ?_, rfl, rfl, rfl, rfl, hig, h1, h2⟩
  rw [consumePayload_eq Psi.table cfgOk_table s true b off hshort.1 hs, h]

/-- the same for a 188-byte packet through `Psi.consume` -/
theorem short_start_packet (s : St) (hs : PsiInv .syntax s) (p : Bytes) (hl : p.length = 188) (q : Pl)
    (hq : plOf p = some q) (hus : q.us = true) (hshort : ShortStart q.bytes) :
    ∃ s' ds, Psi.consume Psi.table s p = .ok (s', ds)
      ∧ s'.lastVersion = none ∧ s'.remaining = none ∧ (s.remaining = none → ds = []) := by
  rw [consume_eq_plOf Psi.table s p hl, hq]
  simp only [hus]
  obtain ⟨s', ds, h, a, b, _, _, _, _, c⟩ := short_start_consume s hs q.bytes q.off hshort
  exact ⟨s', ds, h, a, b, c⟩

/-! ### "last applied on PID `p`" as a function of the history -/

/-- the version an event APPLIES on PID `p`: a PAT version on PID 0, a PMT version on `p ≠ 0` -/
def appliedOn (p : Nat) : Event → Option Nat
  | .patApplied v _ => if p = 0 then some v else none
  | .pmtApplied q v _ => if p ≠ 0 ∧ q = p then some v else none
  | _ => none

/-- `version_number` of the table last applied on PID `p` in the history `evs` (`none`: no table
was ever applied on `p`).  A function of the history alone — NOT of the state of whichever handler
instance currently sits in slot `p`. -/
def lastAppliedOn (p : Nat) (evs : List Event) : Option Nat := (evs.filterMap (appliedOn p)).getLast?

/-- after the history, `p` still carries tables: PID 0 is routed to the PAT filter / `p ≠ 0` is
routed to a PMT filter requested for program-map PID `p` -/
def tablePid (r : Route) (p : Nat) : Bool := if p = 0 then patRouted r else pmtRouted r p

/-- since the last table applied on `p`, a PAT version whose program loop lists `p` was applied
(the application then re-requests the PMT handler of `p`, known findings F7 / F9) -/
def RebuiltSinceLast (p : Nat) (evs : List Event) : Prop :=
  ∃ pre ev post, evs = pre ++ ev :: post ∧ (appliedOn p ev).isSome = true
    ∧ (∀ e ∈ post, appliedOn p e = none)
    ∧ ∃ e ∈ post, ∃ v es, e = .patApplied v es ∧ p ∈ es.map PatEntry.pid

theorem getLast?_filterMap_split {α β : Type} (f : α → Option β) (b : β) : ∀ (l : List α),
    (l.filterMap f).getLast? = some b →
    ∃ pre x post, l = pre ++ x :: post ∧ f x = some b ∧ ∀ y ∈ post, f y = none := by
  intro l
  induction l with
  | nil => intro h; cases h
  | cons x l ih =>
    intro h
    cases hl : (l.filterMap f).getLast? with
    | some w =>
      have hne : l.filterMap f ≠ [] := by intro e; rw [e] at hl; cases hl
      have : ((x :: l).filterMap f).getLast? = (l.filterMap f).getLast? := by
        rw [List.filterMap_cons]
        cases f x with
        | none => rfl
        | some a =>
          simp only
          cases hm : l.filterMap f with
          | nil => exact absurd hm hne
          | cons y ys => rfl
      rw [this] at h
      obtain ⟨pre, y, post, e1, e2, e3⟩ := ih h
      exact ⟨x :: pre, y, post, by rw [e1]; rfl, e2, e3⟩
    | none =>
      have hnil : l.filterMap f = [] := List.getLast?_eq_none_iff.1 hl
      have hall : ∀ y ∈ l, f y = none := List.filterMap_eq_nil_iff.1 hnil
      rw [List.filterMap_cons] at h
      cases hx : f x with
      | none => rw [hx, hnil] at h; cases h
      | some a =>
        rw [hx, hnil] at h
        simp only [List.getLast?_singleton, Option.some.injEq] at h
        subst h
        exact ⟨[], x, l, rfl, hx, hall⟩

theorem getLast?_filterMap_of_split {α β : Type} (f : α → Option β) (b : β) (pre post : List α) (x : α)
    (hx : f x = some b) (hpost : ∀ y ∈ post, f y = none) :
    ((pre ++ x :: post).filterMap f).getLast? = some b := by
  rw [List.filterMap_append, List.filterMap_cons, hx, List.filterMap_eq_nil_iff.2 hpost]
  simp

/-- the last application on `p`, exhibited: the history splits at it -/
theorem lastAppliedOn_split (p v : Nat) (evs : List Event) (h : lastAppliedOn p evs = some v) :
    ∃ pre ev post, evs = pre ++ ev :: post ∧ appliedOn p ev = some v ∧ ∀ e ∈ post, appliedOn p e = none :=
  getLast?_filterMap_split (appliedOn p) v evs h

theorem lastAppliedOn_of_split (p v : Nat) (pre post : List Event) (ev : Event)
    (hev : appliedOn p ev = some v) (hpost : ∀ e ∈ post, appliedOn p e = none) :
    lastAppliedOn p (pre ++ ev :: post) = some v :=
  getLast?_filterMap_of_split (appliedOn p) v pre post ev hev hpost

theorem patVersion_kept_run : ∀ (evs : List Event) (r : Route),
    (∀ ev ∈ evs, ∀ v es, ev ≠ .patApplied v es) → (run r evs).patVersion = r.patVersion := by
  intro evs
  induction evs with
  | nil => intro r _; rfl
  | cons ev evs ih =>
    intro r h
    rw [run_cons, ih _ (fun ev' hm => h ev' (List.mem_cons_of_mem _ hm))]
    cases ev with
    | patApplied v es => exact absurd rfl (h _ List.mem_cons_self v es)
    | pmtApplied p v b => rfl
    | esPacket q => cases hq : r.slots q <;> simp only [stepRoute, hq]
    | repetition q => rfl

/-- **history level ⇒ instance level.**  If the last table applied on `p` had version `v` and no
PAT version listing `p` was applied since, the handler instance currently on `p` is the one that
applied it: the route's per-instance version of `p` is `v`. -/
theorem tableVersion_of_last (r0 : Route) (pre post : List Event) (ev : Event) (p v : Nat)
    (hev : appliedOn p ev = some v)
    (hpost : ∀ e ∈ post, appliedOn p e = none ∧ ∀ v' es, e = .patApplied v' es → p ∉ es.map PatEntry.pid)
    (hrt : tablePid (run r0 (pre ++ ev :: post)) p = true) :
    tableVersion (run r0 (pre ++ ev :: post)) p = some v := by
  rw [run_append, run_cons] at hrt ⊢
  unfold tablePid at hrt
  by_cases hp : p = 0
  · subst hp
    rw [if_pos rfl] at hrt
    obtain ⟨tag, hs⟩ := (patRouted_iff _).1 hrt
    have htv : ∀ r : Route, r.slots 0 = some (.byPid 0, tag) → tableVersion r 0 = r.patVersion := by
      intro r h; simp only [tableVersion, h]
    rw [htv _ hs]
    cases ev with
    | patApplied v' es =>
      simp only [appliedOn, if_true, Option.some.injEq] at hev
      subst hev
      rw [patVersion_kept_run post _ ?_]
      · rfl
      · intro e he v'' es' heq
        have := (hpost e he).1
        rw [heq] at this
        simp [appliedOn] at this
    | pmtApplied q v' b => simp [appliedOn] at hev
    | esPacket q => simp [appliedOn] at hev
    | repetition q => simp [appliedOn] at hev
  · rw [if_neg hp] at hrt
    obtain ⟨prog, tag, hs⟩ := (pmtRouted_iff _ p).1 hrt
    have htv : ∀ r : Route, r.slots p = some (.pmt p prog, tag) → tableVersion r p = (r.pmt p).ver := by
      intro r h; simp only [tableVersion, h]
    rw [htv _ hs]
    cases ev with
    | patApplied v' es => simp [appliedOn, hp] at hev
    | pmtApplied q v' b =>
      simp only [appliedOn] at hev
      by_cases hq : p ≠ 0 ∧ q = p
      · rw [if_pos hq] at hev
        obtain ⟨_, rfl⟩ := hq
        simp only [Option.some.injEq] at hev
        subst hev
        rw [pmt_inst_kept_run q post _ ?_, stepRoute_pmt_pmt, if_pos rfl]
        intro e he
        refine ⟨?_, (hpost e he).2⟩
        intro v'' b' heq
        have := (hpost e he).1
        rw [heq] at this
        simp [appliedOn, hp] at this
      · rw [if_neg hq] at hev; cases hev
    | esPacket q => simp [appliedOn] at hev
    | repetition q => simp [appliedOn] at hev

/-! ### repetitions on a (table, context) that agrees with a route -/

/-- on every (table, context) that agrees with route `r`, in which `p` carries tables and the
handler INSTANCE on `p` last applied version `v`: any run of repetition packets of version `v` on `p`
returns the same context; every other slot is untouched; slot `p` holds an equivalent handler -/
theorem rep_noop_of_sim (r : Route) (t : Tab Handler) (c : Ctx) (hsim : Sim r t c) (p v : Nat)
    (hrt : tablePid r p = true) (htv : tableVersion r p = some v) (reps : List Pk)
    (hreps : ∀ pk ∈ reps, pk.pid = p ∧ pk.flagged = false ∧ RepPacket v pk.bytes) :
    ∃ t' h h', pushSpec App.sem (t, c) reps = .ok (t', c) ∧ pushModel App.sem (t, c) reps = .ok (t', c)
      ∧ (∀ q, q ≠ p → t'.get q = t.get q)
      ∧ t.get p = some h ∧ t'.get p = some h' ∧ RepRel v h h' := by
  have hh : ∃ h, t.get p = some h ∧ QuiescentH v h := by
    have hrel := hsim.slots p
    unfold tablePid at hrt
    by_cases hp : p = 0
    · subst hp
      rw [if_pos rfl] at hrt
      obtain ⟨tag, hs⟩ := (patRouted_iff _).1 hrt
      rw [hs] at hrel
      obtain ⟨_, s, hg, hidle⟩ := hrel
      have : tableVersion r 0 = r.patVersion := by simp only [tableVersion, hs]
      rw [this] at htv
      rw [htv] at hidle
      exact ⟨_, hg, hidle⟩
    · rw [if_neg hp] at hrt
      obtain ⟨prog, tag, hs⟩ := (pmtRouted_iff _ p).1 hrt
      rw [hs] at hrel
      obtain ⟨s, hg, hidle⟩ := hrel
      have : tableVersion r p = (r.pmt p).ver := by simp only [tableVersion, hs]
      rw [this] at htv
      rw [htv] at hidle
      exact ⟨_, hg, hidle⟩
  obtain ⟨h, hg, hq⟩ := hh
  obtain ⟨t', h1, h2, h3⟩ := run_rep_noop (fun _ => v) c reps t (by
    intro pk hm
    obtain ⟨a, b, d⟩ := hreps pk hm
    exact ⟨b, d, h, by rw [a]; exact hg, hq⟩)
  obtain ⟨h', hg', hr'⟩ := h3 p h hg hq
  refine ⟨t', h, h', h1, by rw [Ts.Props.C06.push_refines_spec]; exact h1, ?_, hg, hg', hr'⟩
  intro q hq'
  exact h2 q (fun pk hm => by rw [(hreps pk hm).1]; exact Ne.symm hq')

/-! ### the probes F8, F8 control, F9 (`/verif/known_findings.json`), packet by packet

Every packet below is written as its distinguishing bytes followed by `List.replicate` stuffing;
the concatenations `f8Bytes`, `f8cBytes`, `f9Bytes` are byte-for-byte the hex strings of the lines
`F8 demux b0t0 …`, `F8c …`, `F9 …` (checked outside Lean by printing `hexOfBytes`; hex string
literals do not reduce in the 4.33 kernel, so they are not used here). -/

/-- PAT section, version 0: program 1 → PMT PID 0x100 (= `C05HRun.patS0`) -/
def patSecV0 : Bytes := Ts.Lemmas.C05HRun.patS0

/-- PAT section, version 1, SAME program loop: program 1 → PMT PID 0x100 -/
def patSecV1 : Bytes :=
  [0x00, 0xb0, 0x0d, 0x00, 0x01, 0xc3, 0x00, 0x00, 0x00, 0x01, 0xe1, 0x00, 0x76, 0x57, 0x8e, 0x5f]

/-- PMT section of program 1, version 0: PCR PID 0x101, one stream: H.264 (0x1b) on 0x101 -/
def pmtSecV0 : Bytes :=
  [0x02, 0xb0, 0x12, 0x00, 0x01, 0xc1, 0x00, 0x00, 0xe1, 0x01, 0xf0, 0x00, 0x1b, 0xe1, 0x01, 0xf0, 0x00,
   0x4f, 0xc4, 0x3d, 0x1b]

/-- body of `pmtSecV0` (bytes `[8, len-4)`) -/
def pmtBodyV0 : Bytes := [0xe1, 0x01, 0xf0, 0x00, 0x1b, 0xe1, 0x01, 0xf0, 0x00]

/-- one packet on PID 0, unit start, `pointer_field = 0`, continuity counter `cc`, carrying `sec` -/
def patPkt (cc : Nat) (sec : Bytes) : Bytes :=
  [0x47, 0x40, 0x00, UInt8.ofNat (0x10 + cc), 0x00] ++ sec ++ List.replicate (183 - sec.length) 0xff

/-- the same on PID 0x100 -/
def pmtPkt (cc : Nat) (sec : Bytes) : Bytes :=
  [0x47, 0x41, 0x00, UInt8.ofNat (0x10 + cc), 0x00] ++ sec ++ List.replicate (183 - sec.length) 0xff

/-- PID 0x101, unit start: a PES header (stream id 0xe0, unbounded length, no optional fields)
followed by payload bytes — the elementary-stream packet that is OPEN while the tables repeat -/
def esStartPkt : Bytes :=
  [0x47, 0x41, 0x01, 0x10, 0x00, 0x00, 0x01, 0xe0, 0x00, 0x00, 0x80, 0x00, 0x00] ++ List.replicate 175 0x55

/-- PID 0x101, continuation of that PES packet (continuity counter 1) -/
def esContPkt : Bytes := [0x47, 0x01, 0x01, 0x11] ++ List.replicate 184 0x55

/-- **the straddling start** (PID 0, unit start, cc 2): `pointer_field = 181`, 181 stuffing bytes,
then only the first TWO bytes `00 b0` of PAT version 0 — its 3-byte header straddles two packets -/
def straddlePkt : Bytes :=
  [0x47, 0x40, 0x00, 0x12, 0xb5] ++ List.replicate 181 0xff ++ [0x00, 0xb0]

/-- the continuation packet carrying the remaining 14 bytes of that PAT (PID 0, cc 3) -/
def straddleTailPkt : Bytes :=
  [0x47, 0x00, 0x00, 0x13] ++ patSecV0.drop 2 ++ List.replicate 170 0xff

/-- probe F8: PAT v0, PMT v0, ES start, PAT v0, PMT v0, straddling PAT v0 (2 packets), PAT v0, PMT v0 -/
def f8Bytes : Bytes :=
  patPkt 0 patSecV0 ++ pmtPkt 0 pmtSecV0 ++ esStartPkt ++ patPkt 1 patSecV0 ++ pmtPkt 1 pmtSecV0 ++
    straddlePkt ++ straddleTailPkt ++ patPkt 4 patSecV0 ++ pmtPkt 2 pmtSecV0

/-- F8 up to and including the straddling transmission -/
def f8PrefixBytes : Bytes :=
  patPkt 0 patSecV0 ++ pmtPkt 0 pmtSecV0 ++ esStartPkt ++ patPkt 1 patSecV0 ++ pmtPkt 1 pmtSecV0 ++
    straddlePkt ++ straddleTailPkt

/-- control F8c: the same without the straddling transmission -/
def f8cBytes : Bytes :=
  patPkt 0 patSecV0 ++ pmtPkt 0 pmtSecV0 ++ esStartPkt ++ patPkt 1 patSecV0 ++ pmtPkt 1 pmtSecV0 ++
    patPkt 2 patSecV0 ++ pmtPkt 2 pmtSecV0

/-- probe F9: PAT v0, PMT v0, ES start, PAT v1 (same program), PMT v0 again -/
def f9Bytes : Bytes :=
  patPkt 0 patSecV0 ++ pmtPkt 0 pmtSecV0 ++ esStartPkt ++ patPkt 1 patSecV1 ++ pmtPkt 1 pmtSecV0

/-- F9 without the final PMT repetition -/
def f9PrefixBytes : Bytes :=
  patPkt 0 patSecV0 ++ pmtPkt 0 pmtSecV0 ++ esStartPkt ++ patPkt 1 patSecV1

/-! #### evaluation of the whole model (`runApp {}` = harness `demux b0t0`) on the probes -/

/-- the `construct` callbacks up to and including the first PMT (all probes) -/
def constructsA : List (Req × Nat) :=
  [(.byPid 0, 0), (.pmt 0x100 1, 1), (.stream 0x100 0x1b 0x101 0x101 [] [], 2)]

/-- elementary-stream callbacks, oldest first: (tag, 0 = start / 1 = begin / 2 = continue / 3 = end /
4 = continuity error) -/
def esCalls (c : Ctx) : List (Nat × Nat) :=
  c.trace.reverse.filterMap fun e => match e with
    | .esStart t => some (t, 0) | .esBegin t _ => some (t, 1) | .esCont t _ _ => some (t, 2)
    | .esEnd t => some (t, 3) | .esCcErr t => some (t, 4) | _ => none

/-- what the harness prints: requests with tags, ES callbacks, and the handlers in slots 0x100 / 0x101 -/
def observe10 : R (Tab Handler × Ctx) → Option (List (Req × Nat) × List (Nat × Nat) × Slot × Slot)
  | .ok (t, c) => some (constructs c, esCalls c, slotOf (t.get 0x100), slotOf (t.get 0x101))
  | .panic _ => none

theorem f8c_run : observe10 (runApp {} [f8cBytes])
    = some (constructsA, [(2, 0), (2, 1)], .pmt 0x100 1 [0x101], .pes 2) := by decide +kernel

theorem f8_prefix_run : observe10 (runApp {} [f8PrefixBytes])
    = some (constructsA, [(2, 0), (2, 1)], .pmt 0x100 1 [0x101], .pes 2) := by decide +kernel

theorem f8_run : observe10 (runApp {} [f8Bytes])
    = some (constructsA ++ [(.pmt 0x100 1, 3), (.stream 0x100 0x1b 0x101 0x101 [] [], 4)],
        [(2, 0), (2, 1)], .pmt 0x100 1 [0x101], .pes 4) := by decide +kernel

theorem f9_prefix_run : observe10 (runApp {} [f9PrefixBytes])
    = some (constructsA ++ [(.pmt 0x100 1, 3)], [(2, 0), (2, 1)], .pmt 0x100 1 [], .pes 2) := by
  decide +kernel

theorem f9_run : observe10 (runApp {} [f9Bytes])
    = some (constructsA ++ [(.pmt 0x100 1, 3), (.stream 0x100 0x1b 0x101 0x101 [] [], 4)],
        [(2, 0), (2, 1)], .pmt 0x100 1 [0x101], .pes 4) := by decide +kernel

theorem observe10_some (r : R (Tab Handler × Ctx)) (o) (h : observe10 r = some o) :
    ∃ t c, r = .ok (t, c) ∧ constructs c = o.1 ∧ esCalls c = o.2.1 ∧
      slotOf (t.get 0x100) = o.2.2.1 ∧ slotOf (t.get 0x101) = o.2.2.2 := by
  cases r with
  | panic s => cases h
  | ok tc =>
    obtain ⟨t, c⟩ := tc
    simp only [observe10, Option.some.injEq] at h
    subst h
    exact ⟨t, c, rfl, rfl, rfl, rfl, rfl⟩

/-! #### the probes framed into packets and cut into histories -/

/-- the `i`-th 188-byte packet of a push, on PID `pid`, not flagged -/
def pkAt (b : Bytes) (i pid : Nat) : Pk := ⟨b, 188 * i, pid, false, false⟩

/-- F9 before the final PMT repetition: PAT v0, PMT v0, ES start, PAT v1 -/
def f9Pks : List Pk :=
  [pkAt (patPkt 0 patSecV0) 0 0, pkAt (pmtPkt 0 pmtSecV0) 1 0x100, pkAt esStartPkt 2 0x101,
   pkAt (patPkt 1 patSecV1) 3 0]

/-- the final packet of F9: PMT version 0 again -/
def f9Rep : Pk := pkAt (pmtPkt 1 pmtSecV0) 4 0x100

theorem f9_frame : Demux.frame f9Bytes 0 = .ok (f9Pks ++ [f9Rep]) := by decide +kernel

/-- the history F9's first four packets realise -/
def f9Hist : List Event :=
  [.patApplied 0 [.program 1 0x100], .pmtApplied 0x100 0 pmtBodyV0, .esPacket 0x101,
   .patApplied 1 [.program 1 0x100]]

/-- the common prefix of all probes: PAT v0, PMT v0, ES start -/
def basePks : List Pk :=
  [pkAt (patPkt 0 patSecV0) 0 0, pkAt (pmtPkt 0 pmtSecV0) 1 0x100, pkAt esStartPkt 2 0x101]

def baseHist : List Event :=
  [.patApplied 0 [.program 1 0x100], .pmtApplied 0x100 0 pmtBodyV0, .esPacket 0x101]

theorem f9_wf : WF initRoute f9Hist := by decide +kernel
theorem base_wf : WF initRoute baseHist := by decide +kernel

theorem tx_patV0 (cc i : Nat) (hcc : cc < 16) : Transmits 0 patSecV0 [pkAt (patPkt cc patSecV0) i 0] := by
  have hpl : ∀ cc : Fin 16, plOf (patPkt cc.val patSecV0) = some ⟨true, (muxOf patSecV0).first patSecV0, 4⟩
      ∧ (patPkt cc.val patSecV0).length = 188 := by decide +kernel
  exact Ts.Lemmas.C05HRun.transmits_one 0 patSecV0 _ (by decide +kernel) (by decide +kernel)
    (by decide +kernel) ⟨rfl, rfl, (hpl ⟨cc, hcc⟩).2⟩ (by decide +kernel) (hpl ⟨cc, hcc⟩).1

theorem tx_patV1 (i : Nat) : Transmits 0 patSecV1 [pkAt (patPkt 1 patSecV1) i 0] :=
  Ts.Lemmas.C05HRun.transmits_one 0 patSecV1 _ (by decide +kernel) (by decide +kernel)
    (by decide +kernel) ⟨rfl, rfl, by show (patPkt 1 patSecV1).length = 188; decide +kernel⟩
    (by decide +kernel) (by show plOf (patPkt 1 patSecV1) = _; decide +kernel)

theorem tx_pmtV0 (cc i : Nat) (hcc : cc < 16) :
    Transmits 0x100 pmtSecV0 [pkAt (pmtPkt cc pmtSecV0) i 0x100] := by
  have hpl : ∀ cc : Fin 16, plOf (pmtPkt cc.val pmtSecV0) = some ⟨true, (muxOf pmtSecV0).first pmtSecV0, 4⟩
      ∧ (pmtPkt cc.val pmtSecV0).length = 188 := by decide +kernel
  exact Ts.Lemmas.C05HRun.transmits_one 0x100 pmtSecV0 _ (by decide +kernel) (by decide +kernel)
    (by decide +kernel) ⟨rfl, rfl, (hpl ⟨cc, hcc⟩).2⟩ (by decide +kernel) (hpl ⟨cc, hcc⟩).1

theorem re_patV0 (r : Route) (cc i : Nat) (hcc : cc < 16) :
    RealisesEv r (.patApplied 0 [.program 1 0x100]) [pkAt (patPkt cc patSecV0) i 0] :=
  ⟨patSecV0, tx_patV0 cc i hcc, by decide +kernel, by decide +kernel, by decide +kernel⟩

theorem re_patV1 (r : Route) (i : Nat) :
    RealisesEv r (.patApplied 1 [.program 1 0x100]) [pkAt (patPkt 1 patSecV1) i 0] :=
  ⟨patSecV1, tx_patV1 i, by decide +kernel, by decide +kernel, by decide +kernel⟩

theorem re_pmtV0 (r : Route) (cc i : Nat) (hcc : cc < 16) :
    RealisesEv r (.pmtApplied 0x100 0 pmtBodyV0) [pkAt (pmtPkt cc pmtSecV0) i 0x100] :=
  ⟨pmtSecV0, tx_pmtV0 cc i hcc, by decide +kernel, by decide +kernel, by decide +kernel, by decide +kernel⟩

theorem re_esStart (r : Route) (i : Nat) : RealisesEv r (.esPacket 0x101) [pkAt esStartPkt i 0x101] :=
  ⟨_, rfl, rfl, by show esStartPkt.length = 188; decide +kernel⟩

theorem base_realises : Realises initRoute baseHist basePks :=
  Realises.cons (re_patV0 _ 0 0 (by decide)) (Realises.cons (re_pmtV0 _ 0 1 (by decide))
    (Realises.cons (re_esStart _ 2) (Realises.nil _)))

theorem f9_realises : Realises initRoute f9Hist f9Pks :=
  Realises.cons (re_patV0 _ 0 0 (by decide)) (Realises.cons (re_pmtV0 _ 0 1 (by decide))
    (Realises.cons (re_esStart _ 2) (Realises.cons (re_patV1 _ 3) (Realises.nil _))))

/-- every ordinary PAT v0 packet of the probes is a repetition packet of version 0 … -/
theorem patPkt_rep (cc : Nat) (hcc : cc < 16) : RepPacket 0 (patPkt cc patSecV0) := by
  have hpl : ∀ cc : Fin 16, plOf (patPkt cc.val patSecV0) = some ⟨true, (muxOf patSecV0).first patSecV0, 4⟩
      ∧ (patPkt cc.val patSecV0).length = 188 := by decide +kernel
  refine ⟨(hpl ⟨cc, hcc⟩).2, ?_⟩
  intro q hq
  rw [(hpl ⟨cc, hcc⟩).1] at hq
  cases hq
  exact Or.inr ⟨patSecV0, muxOf patSecV0, by decide +kernel, by decide +kernel, by decide +kernel,
    by decide +kernel, rfl, rfl⟩

/-- … and every PMT v0 packet -/
theorem pmtPkt_rep (cc : Nat) (hcc : cc < 16) : RepPacket 0 (pmtPkt cc pmtSecV0) := by
  have hpl : ∀ cc : Fin 16, plOf (pmtPkt cc.val pmtSecV0) = some ⟨true, (muxOf pmtSecV0).first pmtSecV0, 4⟩
      ∧ (pmtPkt cc.val pmtSecV0).length = 188 := by decide +kernel
  refine ⟨(hpl ⟨cc, hcc⟩).2, ?_⟩
  intro q hq
  rw [(hpl ⟨cc, hcc⟩).1] at hq
  cases hq
  exact Or.inr ⟨pmtSecV0, muxOf pmtSecV0, by decide +kernel, by decide +kernel, by decide +kernel,
    by decide +kernel, rfl, rfl⟩

theorem f9_requests : historyRequests initRoute f9Hist =
    [.pmt 0x100 1, .stream 0x100 0x1b 0x101 0x101 [] [], .pmt 0x100 1] := by decide +kernel

/-! #### the straddling transmission as payloads -/

/-- the straddling packetisation of PAT v0: 181 pointer bytes, 2 section bytes in the first payload,
the other 14 in one continuation payload -/
def straddleMux : Mux :=
  ⟨List.replicate 181 0xff, 2, [], [patSecV0.drop 2 ++ List.replicate 170 0xff], []⟩

theorem straddle_plOf :
    plOf straddlePkt = some ⟨true, straddleMux.first patSecV0, 4⟩
    ∧ plOf straddleTailPkt = some ⟨false, patSecV0.drop 2 ++ List.replicate 170 0xff, 4⟩
    ∧ straddlePkt.length = 188 ∧ straddleTailPkt.length = 188 := by decide +kernel

theorem straddle_short : ShortStart (straddleMux.first patSecV0) := by decide +kernel

/-! ### a PMT that does not fit one packet (multi-packet repetition) -/

/-- PCR PID 0x101; one H.264 stream on PID 0x101 whose ES-info loop is one 180-byte user-private
descriptor (tag 0x80, 178 payload bytes) -/
def bigPmtBody : Bytes :=
  [0xe1, 0x01, 0xf0, 0x00, 0x1b, 0xe1, 0x01, 0xf0, 0xb4, 0x80, 0xb2] ++ List.replicate 178 0xaa

def bigPmtHead : Bytes := [0x02, 0xb0, 0xc6, 0x00, 0x01, 0xc1, 0x00, 0x00] ++ bigPmtBody

/-- the 201-byte PMT section, version 0, with its CRC-32 (checked against the bit-serial
specification in `bigPmt_facts`) -/
def bigPmt : Bytes := bigPmtHead ++ [0x33, 0x68, 0x7b, 0x79]

/-- 183 bytes in the unit-start packet, the remaining 18 (+ stuffing) in one continuation packet -/
def bigMux : Mux := ⟨[], 183, [], [bigPmt.drop 183 ++ List.replicate 166 0xff], []⟩

def bigPkt1 (cc : Nat) : Bytes := [0x47, 0x41, 0x00, UInt8.ofNat (0x10 + cc), 0x00] ++ bigPmt.take 183
def bigPkt2 (cc : Nat) : Bytes :=
  [0x47, 0x01, 0x00, UInt8.ofNat (0x10 + cc)] ++ bigPmt.drop 183 ++ List.replicate 166 0xff

theorem bigPmt_facts :
    WellFormedSection .syntax bigPmt ∧ bigPmt.length = 201 ∧ versionOf bigPmt = 0
    ∧ Ts.CrcSpec.crc bigPmt = 0 ∧ WellFormedMux .syntax bigPmt bigMux := by decide +kernel

theorem bigPkt_plOf :
    plOf (bigPkt1 1) = some ⟨true, bigMux.first bigPmt, 4⟩ ∧ (bigPkt1 1).length = 188
    ∧ plOf (bigPkt2 2) = some ⟨false, bigPmt.drop 183 ++ List.replicate 166 0xff, 4⟩
    ∧ (bigPkt2 2).length = 188
    ∧ plOf (bigPkt1 3) = some ⟨true, bigMux.first bigPmt, 4⟩ ∧ (bigPkt1 3).length = 188
    ∧ plOf (bigPkt2 4) = some ⟨false, bigPmt.drop 183 ++ List.replicate 166 0xff, 4⟩
    ∧ (bigPkt2 4).length = 188 := by decide +kernel

theorem bigPkt1_rep (cc : Nat) (h : plOf (bigPkt1 cc) = some ⟨true, bigMux.first bigPmt, 4⟩)
    (hl : (bigPkt1 cc).length = 188) : RepPacket 0 (bigPkt1 cc) := by
  refine ⟨hl, ?_⟩
  intro q hq
  rw [h] at hq
  cases hq
  exact Or.inr ⟨bigPmt, bigMux, bigPmt_facts.1, by rw [bigPmt_facts.2.1]; decide, bigPmt_facts.2.2.1,
    bigPmt_facts.2.2.2.2, rfl, rfl⟩

theorem bigPkt2_rep (cc : Nat) (b : Bytes) (h : plOf (bigPkt2 cc) = some ⟨false, b, 4⟩)
    (hl : (bigPkt2 cc).length = 188) : RepPacket 0 (bigPkt2 cc) := by
  refine ⟨hl, ?_⟩
  intro q hq
  rw [h] at hq
  cases hq
  exact Or.inl rfl

/-- the three requests of PAT v0 + the big PMT; the stream request carries the descriptor bytes -/
def bigConstructs : List (Req × Nat) :=
  [(.byPid 0, 0), (.pmt 0x100 1, 1),
   (.stream 0x100 0x1b 0x101 0x101 ([0x80, 0xb2] ++ List.replicate 178 0xaa) [], 2)]

/-- whole application: PAT v0, the two-packet PMT (3 requests: `ByPid(0)`, the PMT handler, the
stream), the ES start packet, then the two-packet PMT twice more, the second time with an ES
continuation packet BETWEEN its two packets: no further request, the ES handler (tag 2) keeps its
slot and sees start, begin, continue — no second start, no end, no continuity error -/
theorem bigPmt_run :
    observe10 (runApp {} [patPkt 0 patSecV0 ++ bigPkt1 0 ++ bigPkt2 1 ++ esStartPkt])
      = some (bigConstructs, [(2, 0), (2, 1)], .pmt 0x100 1 [0x101], .pes 2) := by
  decide +kernel

theorem bigPmt_rep_run :
    observe10 (runApp {} [patPkt 0 patSecV0 ++ bigPkt1 0 ++ bigPkt2 1 ++ esStartPkt ++ bigPkt1 2
          ++ bigPkt2 3 ++ bigPkt1 4 ++ esContPkt ++ bigPkt2 5])
      = some (bigConstructs, [(2, 0), (2, 1), (2, 2)], .pmt 0x100 1 [0x101], .pes 2) := by
  decide +kernel

/-! ### packetisations that may cut the section anywhere -/

/-- `WellFormedMux` WITHOUT its second clause (`minHeader kind ≤ …`): the section may be cut at any
byte, in particular inside its first 3 (common header) or first 8 (table-syntax header) bytes -/
def LegalMux (S : Bytes) (m : Mux) : Prop :=
  m.k ≤ S.length ∧ PayloadSize (m.first S)
  ∧ (m.k = S.length ∨ (m.k < S.length ∧ m.tailBytes = [] ∧ Carries (S.drop m.k) m.conts))
  ∧ (∀ c ∈ m.rest, PayloadSize c)

instance (S : Bytes) (m : Mux) : Decidable (LegalMux S m) := by unfold LegalMux; infer_instance

theorem wellFormedMux_iff_legal (kind : Kind) (S : Bytes) (m : Mux) :
    WellFormedMux kind S m ↔ (LegalMux S m ∧ minHeader kind ≤ (S.take m.k ++ m.tailBytes).length) := by
  unfold WellFormedMux LegalMux
  constructor
  · rintro ⟨a, b, c, d, e⟩; exact ⟨⟨a, c, d, e⟩, b⟩
  · rintro ⟨⟨a, c, d, e⟩, b⟩; exact ⟨a, b, c, d, e⟩

/-- the payloads of a packetisation, all at payload offset 4 (no adaptation field) -/
def muxPayloads (S : Bytes) (m : Mux) : List Pl :=
  (⟨true, m.first S, 4⟩ : Pl) :: m.rest.map (fun b => (⟨false, b, 4⟩ : Pl))

theorem straddleMux_legal :
    LegalMux patSecV0 straddleMux ∧ ¬ WellFormedMux .syntax patSecV0 straddleMux
    ∧ LegalMux patSecV0 (muxOf patSecV0) ∧ WellFormedSection .syntax patSecV0 ∧ patSecV0.length = 16
    ∧ versionOf patSecV0 = 0 := by decide +kernel

/-- the section filter, quiescent at version 0, fed the straddling transmission of PAT v0 and
then an ordinary one: the straddling start resets the chain, the ordinary copy is DELIVERED -/
theorem straddle_then_repeat_delivered :
    runPl Psi.table { lastVersion := some 0 } (muxPayloads patSecV0 straddleMux)
      = .ok ({ lastVersion := none }, [])
    ∧ runPl Psi.table { lastVersion := some 0 }
        (muxPayloads patSecV0 straddleMux ++ muxPayloads patSecV0 (muxOf patSecV0))
      = .ok ({ lastVersion := some 0 }, [⟨patSecV0, some 5⟩]) := by decide +kernel

/-! ### repetitions can be deleted from any interleaving with elementary-stream packets -/

/-- `tA` is `tB` after repetitions: equal slot by slot, except that on PIDs in `P` a table handler
may have been rewritten by an equivalent one (`RepRel`) -/
def RepTab (ver : Nat → Nat) (P : Nat → Prop) (tA tB : Tab Handler) : Prop :=
  ∀ q, tA.get q = tB.get q ∨
    (P q ∧ ∃ hA hB, tA.get q = some hA ∧ tB.get q = some hB ∧ RepRel (ver q) hB hA)

theorem reps_deletable_aux (ver : Nat → Nat) (isRep : Pk → Bool) (P : Nat → Prop) :
    ∀ (pks : List Pk) (tA tB : Tab Handler) (c : Ctx), RepTab ver P tA tB →
    (∀ pk ∈ pks, isRep pk = true → P pk.pid ∧ pk.flagged = false ∧ RepPacket (ver pk.pid) pk.bytes
        ∧ ∃ h, tB.get pk.pid = some h ∧ QuiescentH (ver pk.pid) h) →
    (∀ pk ∈ pks, isRep pk = false → ∃ tag f, tB.get pk.pid = some (.pes tag f)) →
    ∀ (tB' : Tab Handler) (cB : Ctx),
      pushSpec App.sem (tB, c) (pks.filter (fun pk => !isRep pk)) = .ok (tB', cB) →
      ∃ tA', pushSpec App.sem (tA, c) pks = .ok (tA', cB) ∧ RepTab ver P tA' tB' := by
  intro pks
  induction pks with
  | nil =>
    intro tA tB c hrel _ _ tB' cB h
    simp only [List.filter_nil, pushSpec_nil, R.ok.injEq, Prod.mk.injEq] at h
    obtain ⟨rfl, rfl⟩ := h
    exact ⟨tA, rfl, hrel⟩
  | cons pk pks ih =>
    intro tA tB c hrel hrep hoth tB' cB hB
    cases hr : isRep pk with
    | true =>
      have hfil : (pk :: pks).filter (fun pk => !isRep pk) = pks.filter (fun pk => !isRep pk) := by
        simp [hr]
      rw [hfil] at hB
      obtain ⟨hP, hf, hp, hB0, hgB, hqB⟩ := hrep pk List.mem_cons_self hr
      have hA : ∃ hA, tA.get pk.pid = some hA ∧ QuiescentH (ver pk.pid) hA ∧ RepRel (ver pk.pid) hB0 hA := by
        rcases hrel pk.pid with e | ⟨_, hA, hB1, e1, e2, e3⟩
        · exact ⟨hB0, by rw [e]; exact hgB, hqB, RepRel.refl hqB⟩
        · rw [hgB] at e2; cases e2; exact ⟨hA, e1, e3.quiescent, e3⟩
      obtain ⟨hA, hgA, hqA, hrA⟩ := hA
      obtain ⟨hA', hr1, hstep⟩ := step_rep_noop (ver pk.pid) tA c pk hA hgA hqA hf hp
      have hrel' : RepTab ver P (tA.insert pk.pid hA') tB := by
        intro q
        by_cases e : q = pk.pid
        · subst e; exact Or.inr ⟨hP, hA', hB0, Tab.get_insert_self _ _ _, hgB, hrA.trans hr1⟩
        · rw [Tab.get_insert_ne _ _ _ _ e]; exact hrel q
      obtain ⟨tA', h1, h2⟩ := ih _ tB c hrel' (fun pk' hm => hrep pk' (List.mem_cons_of_mem _ hm))
        (fun pk' hm => hoth pk' (List.mem_cons_of_mem _ hm)) tB' cB hB
      exact ⟨tA', by rw [pushSpec_cons, hstep]; exact h1, h2⟩
    | false =>
      have hfil : (pk :: pks).filter (fun pk => !isRep pk) = pk :: pks.filter (fun pk => !isRep pk) := by
        simp [hr]
      rw [hfil, pushSpec_cons] at hB
      obtain ⟨tag, f, hgB⟩ := hoth pk List.mem_cons_self hr
      cases h1 : specStep App.sem (tB, c) pk with
      | panic m => rw [h1] at hB; cases hB
      | ok tc1 =>
        obtain ⟨tB1, c1⟩ := tc1
        rw [h1] at hB
        simp only [R.ok_bind] at hB
        obtain ⟨f1, hg1, hne1, hX⟩ := pes_step_result tB c pk tag f hgB tB1 c1 h1
        have hgA : tA.get pk.pid = some (.pes tag f) := by
          rcases hrel pk.pid with e | ⟨_, hA, hB1, e1, e2, e3⟩
          · rw [e]; exact hgB
          · rw [hgB] at e2; cases e2; exact e3.elim
        obtain ⟨tA1, hA1, hgA1, hneA1⟩ := hX tA hgA
        have hrel' : RepTab ver P tA1 tB1 := by
          intro q
          by_cases e : q = pk.pid
          · subst e; exact Or.inl (by rw [hgA1, hg1])
          · rw [hneA1 q e, hne1 q e]; exact hrel q
        have hrep' : ∀ pk' ∈ pks, isRep pk' = true → P pk'.pid ∧ pk'.flagged = false
            ∧ RepPacket (ver pk'.pid) pk'.bytes
            ∧ ∃ h, tB1.get pk'.pid = some h ∧ QuiescentH (ver pk'.pid) h := by
          intro pk' hm hr'
          obtain ⟨a, b, d, h, hg, hq⟩ := hrep pk' (List.mem_cons_of_mem _ hm) hr'
          refine ⟨a, b, d, h, ?_, hq⟩
          by_cases e : pk'.pid = pk.pid
          · rw [e, hgB] at hg; cases hg; exact hq.elim
          · rw [hne1 _ e]; exact hg
        have hoth' : ∀ pk' ∈ pks, isRep pk' = false → ∃ tag f, tB1.get pk'.pid = some (.pes tag f) := by
          intro pk' hm hr'
          by_cases e : pk'.pid = pk.pid
          · rw [e]; exact ⟨tag, f1, hg1⟩
          · rw [hne1 _ e]; exact hoth pk' (List.mem_cons_of_mem _ hm) hr'
        obtain ⟨tA', h1', h2'⟩ := ih tA1 tB1 c1 hrel' hrep' hoth' tB' cB hB
        exact ⟨tA', by rw [pushSpec_cons, hA1]; exact h1', h2'⟩

/-! ### a hand-built table for instantiating the dispatcher theorems -/

/-- PAT filter (applied version 0, registered {0x100}) on PID 0, PMT filter of program 1 (applied
version 0, registered {0x101}) on PID 0x100, the PES filter with tag 2 — fresh — on PID 0x101 -/
def exTab : Tab Handler :=
  ((Tab.insert [] 0 (.pat { lastVersion := some 0 } [0x100])).insert 0x100
    (.pmt 0x100 1 { lastVersion := some 0 } [0x101])).insert 0x101 (.pes 2 {})

def exCtx : Ctx := { cfg := {}, nextTag := 3 }

theorem exTab_get :
    exTab.get 0 = some (.pat { lastVersion := some 0 } [0x100])
    ∧ exTab.get 0x100 = some (.pmt 0x100 1 { lastVersion := some 0 } [0x101])
    ∧ exTab.get 0x101 = some (.pes 2 {}) := by
  refine ⟨?_, ?_, ?_⟩
  · unfold exTab
    rw [Tab.get_insert_ne _ _ _ _ (by decide), Tab.get_insert_ne _ _ _ _ (by decide), Tab.get_insert_self]
  · unfold exTab
    rw [Tab.get_insert_ne _ _ _ _ (by decide), Tab.get_insert_self]
  · unfold exTab
    rw [Tab.get_insert_self]

def isOk {α : Type} : R α → Bool
  | .ok _ => true
  | .panic _ => false

theorem exists_of_isOk {α : Type} (r : R α) (h : isOk r = true) : ∃ a, r = .ok a := by
  cases r with
  | ok a => exact ⟨a, rfl⟩
  | panic m => cases h

end Ts.Lemmas.C10
