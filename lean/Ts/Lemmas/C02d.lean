import Ts.Lemmas.Projb
import Ts.Lemmas.C02c
import Ts.Props.C07
import Ts.Props.C01
/-!
# Helper lemmas for C02, part 4: the delivered bytes, read from the PUSHED BUFFER

`C02.es_consumer_conservation` describes what a consumer observes as events carrying GLOBAL ranges
(offsets into the concatenation of everything pushed).  Here the ranges are dereferenced in the
buffer the caller handed to `Demultiplex::push`:

1. `rangeBytes_window` / `slice_inBuf`: a range of a framed packet is that window of the buffer;
2. `sliceOf buf base e`: the bytes of `buf` (pushed after `base` earlier bytes) at the range an
   elementary-stream event `e` carries; `payloadGroups`: the slices grouped per PES packet (from an
   `esBegin` up to, excluding, the next `esBegin` / `esEnd` / `esCcErr`);
3. `stream_groups`: for the packets of a well-formed `PesStream`, sitting in the buffer, the groups
   are the payloads of the multiplexed PES packets, one group per packet, in order.
-/
namespace Ts.Lemmas.C02
open Ts Ts.Demux Ts.App Ts.Packet Ts.Lemmas.Proj Ts.Spec.PesMux
open Ts.Lemmas.C19 (R.bind_eq_ok R.ok_inj)

/-! ### ranges of a framed packet are windows of the buffer -/

theorem rangeBytes_window (buf : Bytes) (d o l : Nat) (h : o + l ≤ 188) :
    rangeBytes ((buf.drop d).take 188) (o, l) = (buf.drop (d + o)).take l := by
  simp only [rangeBytes, List.drop_take, List.drop_drop, List.take_take]
  congr 1
  omega

/-- the packet `q` sits in `buf` (pushed after `base` earlier bytes) at its recorded offset -/
def InBuf (buf : Bytes) (base : Nat) (q : Pk) : Prop :=
  base ≤ q.off ∧ q.bytes = (buf.drop (q.off - base)).take 188

theorem slice_inBuf {buf : Bytes} {base : Nat} {q : Pk} (h : InBuf buf base q) (o l : Nat)
    (hol : o + l ≤ 188) :
    (buf.drop (q.off + o - base)).take l = rangeBytes q.bytes (o, l) := by
  obtain ⟨h1, h2⟩ := h
  rw [h2, rangeBytes_window buf _ o l hol]
  congr 2
  omega

theorem inBuf_of_frame (buf : Bytes) (base : Nat) (pks : List Pk) (h : frame buf base = .ok pks) :
    ∀ pk ∈ pks, InBuf buf base pk := by
  intro pk hm
  obtain ⟨a, _, _, b, _⟩ := Ts.Lemmas.C19.frame_pk_props buf base pks h pk hm
  exact ⟨a, b⟩

/-! ### the bytes an event hands over, read from the buffer -/

/-- the bytes of `buf` (the buffer passed to `push` after `base` earlier bytes) at the GLOBAL range
an elementary-stream event carries: the exposed payload of `begin_packet` (nothing when the header
exposes none), the slice of `continue_packet`; no bytes for any other event -/
def sliceOf (buf : Bytes) (base : Nat) : Ev → Bytes
  | .esBegin _ bi =>
    match bi.pl with
    | some (off, len) => (buf.drop (off - base)).take len
    | none => []
  | .esCont _ off len => (buf.drop (off - base)).take len
  | _ => []

/-- the slices of one consumer's events grouped per PES packet: `esBegin` closes the group being
collected (if any) and opens a new one with its exposed payload; `esCont` appends its slice to the
open group (data outside a packet is dropped — by C08 there is none); `esEnd` and `esCcErr` close
the open group; every other event is skipped; at the end the open group is closed.  `cur` is the
group being collected. -/
def groupsFrom (buf : Bytes) (base : Nat) : Option Bytes → List Ev → List Bytes
  | cur, [] => cur.toList
  | cur, e :: es =>
    match e with
    | .esBegin _ _ => cur.toList ++ groupsFrom buf base (some (sliceOf buf base e)) es
    | .esCont _ _ _ => groupsFrom buf base (cur.map (· ++ sliceOf buf base e)) es
    | .esEnd _ => cur.toList ++ groupsFrom buf base none es
    | .esCcErr _ => cur.toList ++ groupsFrom buf base none es
    | _ => groupsFrom buf base cur es

/-- the bytes delivered per PES packet, read from the pushed buffer -/
def payloadGroups (buf : Bytes) (base : Nat) (es : List Ev) : List Bytes := groupsFrom buf base none es

/-- the application events of a continuation packet (cf. `esEvList_cont`) -/
def contOut (τ : Nat) (q : Pk) : List Ev :=
  match tpPayload q.bytes with
  | some (o, l) => [.esCont τ (q.off + o) l]
  | none => []

theorem esAll_conts (touch : Bool) (τ : Nat) : ∀ qs : List Pk,
    esAll touch τ qs (qs.map (fun q => contEvs q.bytes)) = .ok (qs.map (contOut τ)) := by
  intro qs
  induction qs with
  | nil => rfl
  | cons q qs ih =>
    simp only [List.map_cons, esAll_cons, esEvList_cont, ih, R.ok_bind]
    rfl

theorem esAll_append (touch : Bool) (τ : Nat) : ∀ (a b : List Pk) (ea eb : List (List PesFilter.Ev)),
    a.length = ea.length →
    esAll touch τ (a ++ b) (ea ++ eb) =
      (esAll touch τ a ea >>= fun x => esAll touch τ b eb >>= fun y => R.ok (x ++ y)) := by
  intro a
  induction a with
  | nil =>
    intro b ea eb h
    cases ea with
    | nil =>
      simp only [List.nil_append]
      show _ = (R.ok [] >>= _)
      simp only [R.ok_bind, List.nil_append]
      cases esAll touch τ b eb <;> rfl
    | cons e es => simp at h
  | cons q qs ih =>
    intro b ea eb h
    cases ea with
    | nil => simp at h
    | cons e es =>
      simp only [List.cons_append, esAll_cons]
      rw [ih b es eb (by simpa using h)]
      cases esEvList touch τ q.bytes q.off e with
      | panic s => rfl
      | ok x =>
        simp only [R.ok_bind]
        cases esAll touch τ qs es with
        | panic s => rfl
        | ok y =>
          simp only [R.ok_bind]
          cases esAll touch τ b eb with
          | panic s => rfl
          | ok z => rfl

theorem contOut_slices {buf : Bytes} {base : Nat} {q : Pk} (τ : Nat) (h : InBuf buf base q) :
    ((contOut τ q).map (sliceOf buf base)).flatten = tpPayloadBytes q.bytes := by
  unfold contOut tpPayloadBytes
  cases hp : tpPayload q.bytes with
  | none => rfl
  | some r =>
    obtain ⟨o, l⟩ := r
    have hs := Ts.Lemmas.C08.payOf_sound (by rw [← tpPayload_eq]; exact hp)
    simp only [List.map_cons, List.map_nil, List.flatten_cons, List.flatten_nil, List.append_nil,
      sliceOf]
    exact slice_inBuf h o l (by omega)

theorem contOuts_slices {buf : Bytes} {base : Nat} (τ : Nat) : ∀ (qs : List Pk),
    (∀ q ∈ qs, InBuf buf base q) →
    (((qs.map (contOut τ)).flatten).map (sliceOf buf base)).flatten
      = ((qs.map (·.bytes)).map tpPayloadBytes).flatten := by
  intro qs
  induction qs with
  | nil => intro _; rfl
  | cons q qs ih =>
    intro h
    simp only [List.map_cons, List.flatten_cons, List.map_append, List.flatten_append]
    rw [contOut_slices τ (h q List.mem_cons_self), ih (fun x hx => h x (List.mem_cons_of_mem _ hx))]

theorem contOut_cases (τ : Nat) (q : Pk) :
    contOut τ q = [] ∨ ∃ off len, contOut τ q = [.esCont τ off len] := by
  unfold contOut
  cases tpPayload q.bytes with
  | none => exact Or.inl rfl
  | some r => exact Or.inr ⟨_, _, rfl⟩

theorem groupsFrom_contOuts (buf : Bytes) (base τ : Nat) : ∀ (qs : List Pk) (b : Bytes) (rest : List Ev),
    groupsFrom buf base (some b) ((qs.map (contOut τ)).flatten ++ rest) =
      groupsFrom buf base (some (b ++ (((qs.map (contOut τ)).flatten).map (sliceOf buf base)).flatten)) rest := by
  intro qs
  induction qs with
  | nil => intro b rest; simp
  | cons q qs ih =>
    intro b rest
    simp only [List.map_cons, List.flatten_cons, List.map_append, List.flatten_append, List.append_assoc]
    rcases contOut_cases τ q with h | ⟨off, len, h⟩
    · rw [h]
      simp only [List.nil_append, List.map_nil, List.flatten_nil]
      exact ih b rest
    · rw [h]
      simp only [List.cons_append, List.nil_append, groupsFrom, Option.map_some, List.map_cons,
        List.map_nil, List.flatten_cons, List.flatten_nil, List.append_nil]
      rw [ih]
      simp only [List.append_assoc]

theorem groupsFrom_open (buf : Bytes) (base τ : Nat) (st : PesFilter.St) (bi : BeginInfo)
    (cur : Option Bytes) (es : List Ev) :
    groupsFrom buf base cur (esOpen τ st ++ .esBegin τ bi :: es) =
      cur.toList ++ groupsFrom buf base (some (sliceOf buf base (.esBegin τ bi))) es := by
  cases st <;> simp [esOpen, groupsFrom]

theorem esOpen_slices (buf : Bytes) (base τ : Nat) (st : PesFilter.St) :
    ((esOpen τ st).map (sliceOf buf base)).flatten = [] := by
  cases st <;> rfl

/-! ### one plan, a stream of plans -/

/-- the exposed payload of the first packet's `esBegin`, read from the buffer -/
theorem begin_slice {buf : Bytes} {base : Nat} {q : Pk} (h : InBuf buf base q) (pes : PesPkt) (τ o l : Nat)
    (hol : o + l = 188) (hk : headerLen pes ≤ l)
    (hh : rangeBytes q.bytes (o, l) = (encodePes pes).take l) :
    sliceOf buf base (.esBegin τ (expectedBegin pes q.off o l)) = pes.payload.take (l - headerLen pes) := by
  simp only [sliceOf, expectedBegin]
  rw [Nat.add_assoc, slice_inBuf h _ _ (by omega)]
  exact exposed_of_take pes q.bytes o l hk hh

/-- MAIN LEMMA.  `qs` are the packets (with stream offsets) of a well-formed `PesStream` `s`, all
sitting in `buf`; `outs` the application events of the expected callbacks.  Then grouping the
buffer slices per PES packet yields the payloads of `s` in order (after closing whatever group
`cur` was open), and all slices together are all payloads. -/
theorem stream_groups (buf : Bytes) (base : Nat) (touch : Bool) (τ : Nat) :
    ∀ (s : List (PesPkt × Plan)) (st : PesFilter.St) (cc : Option Nat) (qs : List Pk)
      (outs : List (List Ev)),
      PesStream cc s → qs.map (·.bytes) = streamPackets s → (∀ q ∈ qs, InBuf buf base q) →
      esAll touch τ qs (streamEvs st (s.map (·.2))) = .ok outs →
      (∀ cur, groupsFrom buf base cur outs.flatten = cur.toList ++ s.map (·.1.payload)) ∧
      (outs.flatten.map (sliceOf buf base)).flatten = (s.map (·.1.payload)).flatten := by
  intro s
  induction s with
  | nil =>
    intro st cc qs outs _ hq _ he
    have : qs = [] := by simpa [streamPackets] using hq
    subst this
    have : outs = [] := (R.ok_inj he).symm
    subst this
    exact ⟨fun cur => by simp [groupsFrom], rfl⟩
  | cons x rest ih =>
    intro st cc qs outs hs hq hin he
    obtain ⟨pes, pl⟩ := x
    simp only [PesStream] at hs
    obtain ⟨hw, hwf, _, hrest⟩ := hs
    have hsp : streamPackets ((pes, pl) :: rest) = pl.first :: (pl.conts ++ streamPackets rest) := by
      simp [streamPackets, Plan.packets]
    rw [hsp] at hq
    obtain ⟨q0, qs', rfl, h0, hq'⟩ := List.map_eq_cons_iff.1 hq
    obtain ⟨qc, qr, rfl, hc, hr⟩ := List.map_eq_append_iff.1 hq'
    obtain ⟨o, l, hr0, _, hkl, hol, hbytes, hk, hle⟩ := first_facts pes pl hwf
    obtain ⟨_, _, _, _, _, hconts⟩ := hwf
    have hin0 : InBuf buf base q0 := hin q0 List.mem_cons_self
    have hinc : ∀ q ∈ qc, InBuf buf base q := fun q hm =>
      hin q (List.mem_cons_of_mem _ (List.mem_append_left _ hm))
    have hinr : ∀ q ∈ qr, InBuf buf base q := fun q hm =>
      hin q (List.mem_cons_of_mem _ (List.mem_append_right _ hm))
    -- the events
    have hfe : firstEvs st pl.first = openEvs st ++ [PesFilter.Ev.beginPkt o l] := by
      unfold firstEvs; rw [hr0]
    have hfirst : esEvList touch τ q0.bytes q0.off (firstEvs st pl.first) =
        .ok (esOpen τ st ++ [.esBegin τ (expectedBegin pes q0.off o l)]) := by
      rw [hfe, h0]
      exact esEvList_first touch pes hw pl.first q0.off o l τ st hk hle hbytes
    have hce : pl.conts.map contEvs = qc.map (fun q => contEvs q.bytes) := by
      rw [← hc, List.map_map]; rfl
    simp only [List.map_cons, streamEvs, planEvs, List.cons_append, esAll_cons] at he
    rw [hfirst, hce, esAll_append touch τ qc qr _ _ (by simp), esAll_conts] at he
    simp only [R.ok_bind] at he
    obtain ⟨tl, htl, he⟩ := R.bind_eq_ok he
    obtain ⟨outsr, her, htl⟩ := R.bind_eq_ok htl
    have := R.ok_inj he
    subst this
    have := R.ok_inj htl
    subst this
    obtain ⟨ih1, ih2⟩ := ih .started (some pl.lastCc) qr outsr hrest hr hinr her
    -- the bytes
    have hb0 := begin_slice hin0 pes τ o l hol hk (by rw [h0]; exact hbytes)
    have hbc := contOuts_slices (buf := buf) (base := base) τ qc hinc
    rw [hc, (conts_run pl.conts _ _ hconts).2.1, hkl, drop_encode pes l hk] at hbc
    have hsum : sliceOf buf base (.esBegin τ (expectedBegin pes q0.off o l))
        ++ (((qc.map (contOut τ)).flatten).map (sliceOf buf base)).flatten = pes.payload := by
      rw [hb0, hbc]; exact List.take_append_drop _ _
    refine ⟨?_, ?_⟩
    · intro cur
      simp only [List.flatten_cons, List.flatten_append, List.append_assoc, List.cons_append,
        List.nil_append]
      rw [groupsFrom_open, groupsFrom_contOuts, hsum, ih1]
      simp
    · simp only [List.flatten_cons, List.flatten_append, List.map_append, List.map_cons,
        List.append_assoc, List.nil_append, List.cons_append]
      rw [esOpen_slices, ih2, ← hsum]
      simp

/-- a packet sitting in `b` (pushed after `a.length + base` bytes) sits in `a ++ b` (pushed after
`base` bytes) at the same stream offset -/
theorem inBuf_append {a b : Bytes} {base : Nat} {q : Pk} (h : InBuf b (base + a.length) q) :
    InBuf (a ++ b) base q := by
  obtain ⟨h1, h2⟩ := h
  refine ⟨by omega, ?_⟩
  have e : List.drop (q.off - base) a = [] := List.drop_of_length_le (by omega)
  rw [h2, List.drop_append, e, List.nil_append]
  congr 2
  omega

end Ts.Lemmas.C02
