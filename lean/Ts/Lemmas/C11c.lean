import Ts.Lemmas.C10
import Ts.Lemmas.C10b
import Ts.Lemmas.C05
import Ts.Props.C05
import Ts.Lemmas.DemuxB
/-!
# C11 helper lemmas, part 3

* short first share: `consumeSpec` on a unit-start payload whose new-section part has fewer than
  3 bytes (`reset`) — the 3..7-byte case is `Ts.Props.C03.rejected_start_ignored`;
* a table handler (PAT or PMT) fed a run of packets of its own PID through the DISPATCHER
  (`pushSpec App.sem`), when the section filter delivers nothing (`table_run_quiet`) or exactly one
  section that passes the CRC layer (`table_run_one`): the changes the table processor queues are
  applied by the dispatcher right after the completing packet, the following packets see them;
* `pushAll_append`;
* packet builders for the kernel-evaluated witnesses.
-/
namespace Ts.Lemmas.C11c
open Ts Ts.Psi Ts.Spec Ts.Spec.SectionMux Ts.Lemmas.C03 Ts.Lemmas.C10 Ts.App Ts.Demux

/-! ### the short first share: fewer than 3 bytes ⇒ `reset` -/

/-- what `reset()` does on the `Psi.table` chain: the buffer is dropped AND the de-duplication
layer forgets the version; the processor's `ignore_rest` flag is NOT touched -/
theorem procReset_table (s : St) :
    procReset Psi.table s
      = { s with buf := [], remaining := none, lastVersion := none, dedupIgnore := false } := rfl

/-- unit-start payload `pointer_field :: pre ++ D` with `D` (the bytes of the new section present
in this payload) shorter than a common header, and either no pointer bytes or at least one byte of
`D`: the pointer bytes are handed to the previous section, then everything is reset -/
theorem consumeSpec_short_reset (cfg : Psi.Cfg) (s : St) (pre D : Bytes) (off : Nat)
    (hp : pre.length < 256) (hD : D.length < 3) (hne : pre = [] ∨ 1 ≤ D.length) :
    consumeSpec cfg s true (UInt8.ofNat pre.length :: (pre ++ D)) off
      = (procReset cfg (preSpec cfg s pre).1, (preSpec cfg s pre).2) := by
  have hb : byteD (UInt8.ofNat pre.length :: (pre ++ D)) 0 = pre.length := by
    rw [byteD_cons_zero, UInt8.toNat_ofNat']
    exact Nat.mod_eq_of_lt hp
  unfold consumeSpec
  simp only [if_true, hb, List.drop_succ_cons, List.drop_zero, List.length_append,
    List.take_left', List.drop_left']
  have hno : ¬ (0 < pre.length ∧ pre.length + D.length ≤ pre.length) := by
    rcases hne with h | h
    · subst h; simp
    · omega
  simp only [hno, if_false, hD, if_true]
  unfold preSpec
  by_cases hpre : pre = []
  · subst hpre; simp
  · have : 0 < pre.length := List.length_pos_iff.2 hpre
    simp [hpre, this]

/-- `pointer_field` pointing at or beyond the end of the payload (`pre` non-empty, nothing after
it): reset at once, the pointer bytes are not even handed on -/
theorem consumeSpec_pointer_beyond (cfg : Psi.Cfg) (s : St) (pre : Bytes) (off : Nat)
    (hp : pre.length < 256) (hpre : pre ≠ []) :
    consumeSpec cfg s true (UInt8.ofNat pre.length :: pre) off = (procReset cfg s, []) := by
  have hb : byteD (UInt8.ofNat pre.length :: pre) 0 = pre.length := by
    rw [byteD_cons_zero, UInt8.toNat_ofNat']
    exact Nat.mod_eq_of_lt hp
  have : 0 < pre.length := List.length_pos_iff.2 hpre
  unfold consumeSpec
  simp only [if_true, hb, List.drop_succ_cons, List.drop_zero]
  simp [this]

/-! ### a table handler behind the dispatcher -/

/-- a table handler constructor (`.pat` or `.pmt pid prog`) together with its table processor -/
def IsTableHandler (sect : Sect) (mk : St → List Nat → Handler) : Prop :=
  ∀ s s' reg c pk ds, Psi.consume Psi.table s pk.bytes = .ok (s', ds) →
    App.consume (mk s reg) c pk =
      (runDeliveries sect c reg ds >>= fun r => R.ok (mk s' r.2.1, r.1, r.2.2))

theorem isTableHandler_pat : IsTableHandler patSection (fun s reg => .pat s reg) :=
  fun s s' reg c pk ds h => consume_pat_eq s s' reg c pk ds h

theorem isTableHandler_pmt (pid prog : Nat) :
    IsTableHandler (fun c r d => pmtSection c pid r d) (fun s reg => .pmt pid prog s reg) :=
  fun s s' reg c pk ds h => consume_pmt_eq pid prog s s' reg c pk ds h

/-- one dispatcher step on a table handler's slot, in terms of the section filter's deliveries -/
theorem step_table (sect : Sect) (mk : St → List Nat → Handler) (hmk : IsTableHandler sect mk)
    (t : Tab Handler) (c : Ctx) (pk : Pk) (s s' : St) (reg : List Nat) (ds : List Delivery)
    (hg : t.get pk.pid = some (mk s reg)) (hf : pk.flagged = false)
    (hpsi : Psi.consume Psi.table s pk.bytes = .ok (s', ds))
    (c' : Ctx) (reg' : List Nat) (chg : List (Change Handler))
    (hrun : runDeliveries sect c reg ds = .ok (c', reg', chg)) :
    specStep App.sem (t, c) pk = .ok (applyChanges (t.insert pk.pid (mk s' reg')) chg, c') := by
  rw [specStep_consume_of_contains App.sem t c pk _ (contains_of_get t pk.pid _ hg) hf hg]
  show (App.consume (mk s reg) c pk >>= _) = _
  rw [hmk s s' reg c pk ds hpsi, hrun]
  rfl

/-- packets of PID `p` on which the section filter delivers NOTHING: the dispatcher only rewrites
slot `p` with the filter's new state; context (trace, tag counter) and all other slots unchanged -/
theorem table_run_quiet (sect : Sect) (mk : St → List Nat → Handler) (hmk : IsTableHandler sect mk)
    (p : Nat) (c : Ctx) (reg : List Nat) : ∀ (pks : List Pk) (t : Tab Handler) (s sfin : St)
      (dss : List (List Delivery)),
    (∀ pk ∈ pks, pk.pid = p ∧ pk.flagged = false) →
    t.get p = some (mk s reg) →
    Psi.run Psi.table s (pks.map (·.bytes)) = .ok (sfin, dss) → dss.flatten = [] →
    ∃ t', pushSpec App.sem (t, c) pks = .ok (t', c) ∧ t'.get p = some (mk sfin reg)
      ∧ ∀ q, q ≠ p → t'.get q = t.get q := by
  intro pks
  induction pks with
  | nil =>
    intro t s sfin dss _ hg hrun _
    simp only [List.map_nil, Psi.run] at hrun
    cases hrun
    exact ⟨t, rfl, hg, fun _ _ => rfl⟩
  | cons pk pks ih =>
    intro t s sfin dss hall hg hrun hflat
    obtain ⟨hpid, hf⟩ := hall pk (List.mem_cons_self ..)
    simp only [List.map_cons, Psi.run] at hrun
    cases h1 : Psi.consume Psi.table s pk.bytes with
    | panic m => rw [h1] at hrun; cases hrun
    | ok r1 =>
      obtain ⟨s1, d1⟩ := r1
      rw [h1] at hrun
      simp only [R.ok_bind] at hrun
      cases h2 : Psi.run Psi.table s1 (pks.map (·.bytes)) with
      | panic m => rw [h2] at hrun; cases hrun
      | ok r2 =>
        obtain ⟨s2, d2⟩ := r2
        rw [h2] at hrun
        cases hrun
        simp only [List.flatten_cons, List.append_eq_nil_iff] at hflat
        obtain ⟨hd1, hd2⟩ := hflat
        subst hd1
        have hstep := step_table sect mk hmk t c pk s s1 reg [] (by rw [hpid]; exact hg) hf h1
          c reg [] rfl
        rw [hpid, applyChanges_nil] at hstep
        obtain ⟨t', hr, hgp, hne⟩ := ih (t.insert p (mk s1 reg)) s1 _ d2
          (fun pk' hm => hall pk' (List.mem_cons_of_mem _ hm)) (Tab.get_insert_self _ _ _) h2 hd2
        refine ⟨t', ?_, hgp, ?_⟩
        · rw [pushSpec_cons, hstep]; exact hr
        · intro q hq
          rw [hne q hq, Tab.get_insert_ne _ _ _ _ hq]

/-- packets of PID `p` over which the section filter delivers exactly ONE section `d`, which passes
the CRC layer and on which the table processor answers `(c', reg', chg)` with `chg` not touching
slot `p` itself: the dispatcher ends with context `c'`, slot `p` = the handler with the filter's
final state and `reg'`, and every other slot as after draining `chg` on the original table -/
theorem table_run_one (sect : Sect) (mk : St → List Nat → Handler) (hmk : IsTableHandler sect mk)
    (p : Nat) (c : Ctx) (reg : List Nat) (d : Delivery) (c' : Ctx) (reg' : List Nat)
    (chg : List (Change Handler))
    (hcrc : Psi.crcPass c.cfg.bypassCrc d.bytes = .ok true)
    (hsect : sect c reg d.bytes = .ok (c', reg', chg))
    (hself : ∀ ch ∈ chg, ch.pid ≠ p) : ∀ (pks : List Pk) (t : Tab Handler) (s sfin : St)
      (dss : List (List Delivery)),
    (∀ pk ∈ pks, pk.pid = p ∧ pk.flagged = false) →
    t.get p = some (mk s reg) →
    Psi.run Psi.table s (pks.map (·.bytes)) = .ok (sfin, dss) → dss.flatten = [d] →
    ∃ t', pushSpec App.sem (t, c) pks = .ok (t', c') ∧ t'.get p = some (mk sfin reg')
      ∧ ∀ q, q ≠ p → t'.get q = (applyChanges t chg).get q := by
  intro pks
  induction pks with
  | nil =>
    intro t s sfin dss _ hg hrun hflat
    simp only [List.map_nil, Psi.run] at hrun
    cases hrun
    cases hflat
  | cons pk pks ih =>
    intro t s sfin dss hall hg hrun hflat
    obtain ⟨hpid, hf⟩ := hall pk (List.mem_cons_self ..)
    simp only [List.map_cons, Psi.run] at hrun
    cases h1 : Psi.consume Psi.table s pk.bytes with
    | panic m => rw [h1] at hrun; cases hrun
    | ok r1 =>
      obtain ⟨s1, d1⟩ := r1
      rw [h1] at hrun
      simp only [R.ok_bind] at hrun
      cases h2 : Psi.run Psi.table s1 (pks.map (·.bytes)) with
      | panic m => rw [h2] at hrun; cases hrun
      | ok r2 =>
        obtain ⟨s2, d2⟩ := r2
        rw [h2] at hrun
        cases hrun
        simp only [List.flatten_cons] at hflat
        cases d1 with
        | nil =>
          simp only [List.nil_append] at hflat
          have hstep := step_table sect mk hmk t c pk s s1 reg [] (by rw [hpid]; exact hg) hf h1
            c reg [] rfl
          rw [hpid, applyChanges_nil] at hstep
          obtain ⟨t', hr, hgp, hne⟩ := ih (t.insert p (mk s1 reg)) s1 _ d2
            (fun pk' hm => hall pk' (List.mem_cons_of_mem _ hm)) (Tab.get_insert_self _ _ _) h2 hflat
          refine ⟨t', ?_, hgp, ?_⟩
          · rw [pushSpec_cons, hstep]; exact hr
          · intro q hq
            rw [hne q hq]
            exact Ts.Demux.get_applyChanges_congr chg _ _ q (Tab.get_insert_ne _ _ _ _ hq)
        | cons a d1' =>
          simp only [List.cons_append, List.cons.injEq, List.append_eq_nil_iff] at hflat
          obtain ⟨ha, hd1', hd2⟩ := hflat
          subst ha hd1'
          have hstep := step_table sect mk hmk t c pk s s1 reg [a] (by rw [hpid]; exact hg) hf h1
            c' reg' chg (Ts.Lemmas.C05.runDeliveries_one sect c reg a c' reg' chg hcrc hsect)
          rw [hpid] at hstep
          have hgp1 : (applyChanges (t.insert p (mk s1 reg')) chg).get p = some (mk s1 reg') := by
            rw [get_applyChanges_untouched chg _ p hself]; exact Tab.get_insert_self _ _ _
          obtain ⟨t', hr, hgp, hne⟩ := table_run_quiet sect mk hmk p c' reg' pks _ s1 _ d2
            (fun pk' hm => hall pk' (List.mem_cons_of_mem _ hm)) hgp1 h2 hd2
          refine ⟨t', ?_, hgp, ?_⟩
          · rw [pushSpec_cons, hstep]; exact hr
          · intro q hq
            rw [hne q hq]
            exact Ts.Demux.get_applyChanges_congr chg _ _ q (Tab.get_insert_ne _ _ _ _ hq)

/-! ### a whole well-formed transmission behind the dispatcher -/

/-- the pointer bytes deliver nothing when there are none, or when no section is in progress -/
theorem preSpec_quiet (s : St) (pre : Bytes) (h : pre = [] ∨ s.remaining = none) :
    preSpec Psi.table s pre = (s, []) := by
  rcases h with h | h
  · subst h; rfl
  · exact preSpec_idle _ _ _ h

/-- C11 (partial) through the dispatcher, generic in the table handler: the packets `pks` (all of
PID `p`, none flagged) of a well-formed transmission of an intact section `S` whose version
differs from the last STARTED one, with nothing completed by the pointer bytes; `(c', reg', chg)` =
the table processor's answer on `S`, `chg` not touching slot `p` -/
theorem table_applied_pushSpec (sect : Sect) (mk : St → List Nat → Handler)
    (hmk : IsTableHandler sect mk)
    (S : Bytes) (hS : WellFormedSection .syntax S) (h12 : 12 ≤ S.length)
    (hcrc : Ts.CrcSpec.crc S = 0) (m : Mux) (hm : WellFormedMux .syntax S m)
    (s : St) (hs : PsiInv .syntax s) (hv : s.lastVersion ≠ some (versionOf S))
    (hquiet : m.pre = [] ∨ s.remaining = none)
    (p : Nat) (t : Tab Handler) (c : Ctx) (reg : List Nat) (hg : t.get p = some (mk s reg))
    (pks : List Pk) (hpk : ∀ pk ∈ pks, pk.pid = p ∧ pk.flagged = false ∧ pk.bytes.length = 188)
    (off : Nat) (rest : List Pl)
    (hview : (pks.map (·.bytes)).filterMap plOf = ⟨true, m.first S, off⟩ :: rest)
    (hus : ∀ q ∈ rest, q.us = false) (hrest : rest.map (·.bytes) = m.rest)
    (c' : Ctx) (reg' : List Nat) (chg : List (Change Handler))
    (hsect : sect c reg S = .ok (c', reg', chg)) (hself : ∀ ch ∈ chg, ch.pid ≠ p) :
    ∃ t' sfin, pushSpec App.sem (t, c) pks = .ok (t', c') ∧ t'.get p = some (mk sfin reg')
      ∧ Quiescent (versionOf S) sfin ∧ ∀ q, q ≠ p → t'.get q = (applyChanges t chg).get q := by
  obtain ⟨sfin, h1, hq, _, _⟩ := table_applied S hS (by omega) m hm s hs hv off rest hus hrest
  have hlen' : ∀ b ∈ pks.map (·.bytes), b.length = 188 := by
    intro b hb
    obtain ⟨pk, hpk', e⟩ := List.mem_map.1 hb
    rw [← e]; exact (hpk pk hpk').2.2
  rw [← hview, preSpec_quiet s m.pre hquiet, List.nil_append] at h1
  obtain ⟨dss, hrun, hflat⟩ := run_of_runPl s (pks.map (·.bytes)) hlen' sfin _ h1
  obtain ⟨t', hr, hgp, hne⟩ := table_run_one sect mk hmk p c reg
    ⟨S, if m.k = S.length then some (off + 1 + m.pre.length) else none⟩ c' reg' chg
    (crcPass_valid _ S hS h12 hcrc) hsect hself pks t s sfin dss
    (fun pk hm' => ⟨(hpk pk hm').1, (hpk pk hm').2.1⟩) hg hrun hflat
  exact ⟨t', sfin, hr, hgp, hq, hne⟩

/-- F2 through the dispatcher, generic in the table handler: the packets of a well-formed
transmission of a section whose version EQUALS the last started one (nothing completed by the
pointer bytes) leave the context — trace and tag counter — and every other slot unchanged -/
theorem table_blocked_pushSpec (sect : Sect) (mk : St → List Nat → Handler)
    (hmk : IsTableHandler sect mk)
    (S : Bytes) (hS : WellFormedSection .syntax S) (h8 : 8 ≤ S.length)
    (m : Mux) (hm : WellFormedMux .syntax S m)
    (s : St) (hs : PsiInv .syntax s) (hv : s.lastVersion = some (versionOf S))
    (hquiet : m.pre = [] ∨ s.remaining = none)
    (p : Nat) (t : Tab Handler) (c : Ctx) (reg : List Nat) (hg : t.get p = some (mk s reg))
    (pks : List Pk) (hpk : ∀ pk ∈ pks, pk.pid = p ∧ pk.flagged = false ∧ pk.bytes.length = 188)
    (off : Nat) (rest : List Pl)
    (hview : (pks.map (·.bytes)).filterMap plOf = ⟨true, m.first S, off⟩ :: rest)
    (hus : ∀ q ∈ rest, q.us = false) (hrest : rest.map (·.bytes) = m.rest) :
    ∃ t' sfin, pushSpec App.sem (t, c) pks = .ok (t', c) ∧ t'.get p = some (mk sfin reg)
      ∧ sfin.lastVersion = some (versionOf S) ∧ ∀ q, q ≠ p → t'.get q = t.get q := by
  obtain ⟨sfin, h1, hl, _⟩ := table_blocked S hS h8 m hm s hs hv off rest hus hrest
  have hlen' : ∀ b ∈ pks.map (·.bytes), b.length = 188 := by
    intro b hb
    obtain ⟨pk, hpk', e⟩ := List.mem_map.1 hb
    rw [← e]; exact (hpk pk hpk').2.2
  rw [← hview, preSpec_quiet s m.pre hquiet] at h1
  obtain ⟨dss, hrun, hflat⟩ := run_of_runPl s (pks.map (·.bytes)) hlen' sfin _ h1
  obtain ⟨t', hr, hgp, hne⟩ := table_run_quiet sect mk hmk p c reg pks t s sfin dss
    (fun pk hm' => ⟨(hpk pk hm').1, (hpk pk hm').2.1⟩) hg hrun hflat
  exact ⟨t', sfin, hr, hgp, hl, hne⟩

/-! ### the `construct` requests recorded in a context -/

open Ts.Spec.Routing in
theorem filterMap_constructEvents : ∀ (reqs : List (Nat × Req)) (tag : Nat),
    (constructEvents tag reqs).filterMap (fun e => match e with | .construct r _ => some r | _ => none)
      = reqs.map (·.2) := by
  intro reqs
  induction reqs with
  | nil => intro _; rfl
  | cons x rest ih =>
    intro tag
    obtain ⟨p, r⟩ := x
    simp only [constructEvents, List.filterMap_cons, List.map_cons, ih]

open Ts.Spec.Routing in
/-- after the `construct` callbacks for `reqs`, the request list (oldest first) has grown by
exactly these requests, in order -/
theorem requests_ctxAfter (t t' : Tab Handler) (c : Ctx) (reqs : List (Nat × Req)) :
    requests (.ok (t', ctxAfter c reqs)) = requests (.ok (t, c)) ++ reqs.map (·.2) := by
  simp only [requests, ctxAfter, List.reverse_append, List.reverse_reverse, List.filterMap_append]
  congr 1
  exact filterMap_constructEvents reqs c.nextTag

/-! ### successive `push` calls -/

theorem pushAll_append {H C : Type} (sem : Sem H C) (a b : List Bytes) : ∀ (tc : Tab H × C) (base : Nat),
    pushAll sem tc (a ++ b) base =
      (pushAll sem tc a base >>= fun tc' => pushAll sem tc' b (base + (a.map List.length).sum)) := by
  induction a with
  | nil =>
    intro tc base
    simp only [List.nil_append, pushAll, R.ok_bind, List.map_nil, List.sum_nil, Nat.add_zero]
  | cons x a ih =>
    intro tc base
    simp only [List.cons_append, pushAll, List.map_cons, List.sum_cons]
    cases push sem tc x base with
    | panic m => rfl
    | ok tc1 =>
      simp only [R.ok_bind]
      rw [ih tc1 (base + x.length), Nat.add_assoc]

/-! ### changes queued by a table never touch a PID that is neither listed nor registered -/

open Ts.Tables Ts.Spec.Routing Ts.Spec.TableSpec in
theorem tableChanges_not_self (tag : Nat) (reqs : List (Nat × Req)) (reg seen : List Nat) (p : Nat)
    (hp : p ∉ reg) (hl : ∀ x ∈ reqs, x.1 ≠ p) :
    ∀ ch ∈ (built tag reqs).map (fun x => Change.insert x.1 x.2)
        ++ (outdated reg seen).map (Change.remove (H := Handler)), ch.pid ≠ p := by
  intro ch hch
  rcases List.mem_append.1 hch with h | h
  · obtain ⟨x, hx, rfl⟩ := List.mem_map.1 h
    have : x.1 ∈ (built tag reqs).map (·.1) := List.mem_map_of_mem hx
    rw [Ts.Lemmas.C05.built_pids] at this
    obtain ⟨y, hy, e⟩ := List.mem_map.1 this
    show x.1 ≠ p
    rw [← e]; exact hl y hy
  · obtain ⟨q, hq, rfl⟩ := List.mem_map.1 h
    show q ≠ p
    intro e
    subst e
    exact hp ((Ts.Lemmas.C05.mem_outdated reg seen q).1 hq).2.1

/-! ### "last applied", spelled out -/

theorem getLast?_filter_eq_some {α : Type} (p : α → Bool) (l : List α) (d : α) :
    (l.filter p).getLast? = some d ↔
      ∃ pre post, l = pre ++ d :: post ∧ p d = true ∧ ∀ x ∈ post, p x = false := by
  rw [List.getLast?_eq_head?_reverse, ← List.filter_reverse, List.head?_filter,
    List.find?_eq_some_iff_append]
  constructor
  · rintro ⟨hp, as, bs, e, h⟩
    refine ⟨bs.reverse, as.reverse, ?_, hp, ?_⟩
    · have := congrArg List.reverse e
      simpa using this
    · intro x hx
      have := h x (List.mem_reverse.1 hx)
      simpa using this
  · rintro ⟨pre, post, e, hp, h⟩
    refine ⟨hp, post.reverse, pre.reverse, ?_, ?_⟩
    · subst e; simp
    · intro x hx
      have := h x (List.mem_reverse.1 hx)
      simp [this]

theorem passes_iff (d : Delivery) : passes d = true ↔ Psi.crcPass false d.bytes = .ok true := by
  unfold passes
  cases h : Psi.crcPass false d.bytes with
  | panic m => simp
  | ok b => cases b <;> simp

/-! ### packet builders for the concrete witnesses (PID 0, no adaptation field) -/

/-- unit-start packet on PID 0, continuity counter `cc`: `pointer_field = ptr`, then `ptr` bytes
of `0xff` stuffing (legal after the end of the previous section), then `share` — the first bytes
of a section — filling the packet exactly when `1 + ptr + share.length = 184`, padded with `0xff`
otherwise -/
def startPkt (cc : UInt8) (ptr : Nat) (share : Bytes) : Bytes :=
  [0x47, 0x40, 0x00, 0x10 ||| cc, UInt8.ofNat ptr] ++ List.replicate ptr 0xff ++ share
    ++ List.replicate (183 - ptr - share.length) 0xff

/-- continuation packet on PID 0, continuity counter `cc`: `body` followed by `0xff` stuffing -/
def contPktOf (cc : UInt8) (body : Bytes) : Bytes :=
  [0x47, 0x00, 0x00, 0x10 ||| cc] ++ body ++ List.replicate (184 - body.length) 0xff

/-- a transmission of `sec` on PID 0 whose starting packet carries only the first `k` section
bytes, at the very end of its payload (`pointer_field = 183 - k`), the rest in one continuation
packet -/
def splitTx (sec : Bytes) (k : Nat) : Bytes :=
  startPkt 0 (183 - k) (sec.take k) ++ contPktOf 1 (sec.drop k)

/-- the PAT slot after a run, if slot 0 holds a PAT handler: section-filter state and registered PIDs -/
def patSlot : R (Tab Handler × Ctx) → Option (St × List Nat)
  | .ok (t, _) => match t.get 0 with
    | some (.pat s reg) => some (s, reg)
    | _ => none
  | .panic _ => none

theorem patSlot_eq_some (r : R (Tab Handler × Ctx)) (s : St) (reg : List Nat)
    (h : patSlot r = some (s, reg)) : ∃ t c, r = .ok (t, c) ∧ t.get 0 = some (.pat s reg) := by
  cases r with
  | panic m => cases h
  | ok tc =>
    obtain ⟨t, c⟩ := tc
    refine ⟨t, c, rfl, ?_⟩
    simp only [patSlot] at h
    cases hg : t.get 0 with
    | none => rw [hg] at h; cases h
    | some hd =>
      rw [hg] at h
      cases hd with
      | pat s' reg' =>
        simp only [Option.some.injEq, Prod.mk.injEq] at h
        rw [h.1, h.2]
      | pmt _ _ _ _ => cases h
      | pes _ _ => cases h
      | recorder _ => cases h

/-- a 21-byte PMT section (`table_id = 2`, program 1, version 0, PCR PID 0x100, no program
descriptors, one H.264 stream on PID 0x100), CRC appended -/
def pmtGood : Bytes :=
  [0x02, 0xb0, 0x12, 0x00, 0x01, 0xc1, 0x00, 0x00, 0xe1, 0x00, 0xf0, 0x00, 0x1b, 0xe1, 0x00, 0xf0, 0x00] ++
    Ts.CrcSpec.be32 (Ts.CrcSpec.crc
      [0x02, 0xb0, 0x12, 0x00, 0x01, 0xc1, 0x00, 0x00, 0xe1, 0x00, 0xf0, 0x00, 0x1b, 0xe1, 0x00, 0xf0, 0x00])

/-- `pktOf` on PID 0x20 -/
def pktOn32 (sec : Bytes) : Bytes :=
  [0x47, 0x40, 0x20, 0x10, 0x00] ++ sec ++ List.replicate (183 - sec.length) 0xff

end Ts.Lemmas.C11c
