import Ts.Lemmas.C14b
/-!
Helper lemmas for C14 (PES header), part 3: every accessor of the model equals the outcome of the
sequential parser, for every receiver of at least three bytes.
-/
namespace Ts.Lemmas.C14
open Ts Ts.Spec Ts.Spec.PesSpec

theorem ptsDts_exact (c : Bytes) (h3 : 3 ≤ c.length) :
    Pes.ptsDts c = .ok (resOf ptsDtsConv (parse c).ptsDts) := by
  have hf := byteD_lt c 1
  unfold Pes.ptsDts Pes.flagsByte
  rw [byteAt_ok c 1 (by omega)]
  simp only [R.ok_bind]
  rw [parse_ptsDts, flagsOf_eq, ptsDtsFlags_eq _ hf, ptsDtsEnd_eq _ hf]
  have hlt := ptsDts_lt (byteD c 1)
  unfold curEscr
  generalize flagsOfByte (byteD c 1) = F at *
  obtain ⟨pd, e, r, t, a, k, x⟩ := F
  simp only at hlt ⊢
  have hlen := limit_le c
  match pd, hlt with
  | 0, _ => rfl
  | 1, _ => rfl
  | 2, _ =>
    simp only [ptsDtsSize, R.ok_bind, Pes.FIXED]
    rw [headerSlice_eq c h3 3 5]
    unfold fieldAt
    by_cases hl : 3 + 5 ≤ limit c
    · simp only [hl, if_true, R.ok_bind]
      rw [ts_at c 3 5 (by omega) (by omega)]
      simp [resOf, ptsDtsConv]
    · simp [hl, resOf]
  | 3, _ =>
    simp only [ptsDtsSize, R.ok_bind, Pes.FIXED]
    rw [headerSlice_eq c h3 3 10]
    unfold fieldAt
    by_cases hl : 3 + 10 ≤ limit c
    · simp only [hl, if_true, R.ok_bind, Pes.TIMESTAMP_SIZE]
      rw [sliceTo_ok _ 5 (by rw [length_slice c 3 10 (by omega)]; omega),
        sliceFrom_ok _ 5 (by rw [length_slice c 3 10 (by omega)]; omega)]
      simp only [R.ok_bind, List.take_take, List.drop_take, List.drop_drop]
      have e1 : min 5 10 = 5 := by decide
      have e2 : 10 - 5 = 5 := by decide
      have e3 : 3 + 5 = 8 := by decide
      rw [e1, e2]
      rw [ts_at c 3 5 (by omega) (by omega)]
      simp only [R.ok_bind]
      rw [ts_at c (3 + 5) 5 (by omega) (by omega)]
      simp [resOf, ptsDtsConv]
    · simp [hl, resOf]

theorem escr_exact (c : Bytes) (h3 : 3 ≤ c.length) :
    Pes.escr c = .ok (resOf escrConv (parse c).escr) := by
  have hf := byteD_lt c 1
  unfold Pes.escr Pes.flagsByte
  rw [byteAt_ok c 1 (by omega)]
  simp only [R.ok_bind]
  rw [parse_escr, flagsOf_eq, escrFlag_eq _ hf, ptsDtsEnd_eq _ hf]
  generalize flagsOfByte (byteD c 1) = F
  simp only [R.ok_bind, Pes.ESCR_SIZE]
  rw [headerSlice_eq c h3]
  unfold fieldAt
  have hlen := limit_le c
  cases he : F.escr
  · simp [resOf]
  · by_cases hl : curEscr F + 6 ≤ limit c
    · simp only [hl, if_true, R.ok_bind]
      rw [byteAt_slice c _ 6 0 (by omega) (by omega), byteAt_slice c _ 6 1 (by omega) (by omega),
        byteAt_slice c _ 6 2 (by omega) (by omega), byteAt_slice c _ 6 3 (by omega) (by omega),
        byteAt_slice c _ 6 4 (by omega) (by omega), byteAt_slice c _ 6 5 (by omega) (by omega)]
      simp only [R.ok_bind, Nat.add_zero]
      rw [escr_val]
      simp [resOf]
    · simp [hl, resOf]

end Ts.Lemmas.C14
