import Ts.Lemmas.C14b
/-!
Helper lemmas for C14 (PES header), part 3: every accessor of the model equals the outcome of the
sequential parser, for every receiver of at least three bytes.
-/
namespace Ts.Lemmas.C14
open Ts Ts.Spec Ts.Spec.PesSpec

theorem ptsDts_exact (c : Bytes) (h3 : 3 ≤ c.length) :
    Pes.ptsDts c = .ok (resOf ptsDtsConv (parse c).ptsDts) := by
  have hf := byteD_lt c 1
  unfold Pes.ptsDts Pes.flagsByte
  rw [byteAt_ok c 1 (by omega)]
  simp only [R.ok_bind]
  rw [parse_ptsDts, flagsOf_eq, ptsDtsFlags_eq _ hf, ptsDtsEnd_eq _ hf]
  have hlt := ptsDts_lt (byteD c 1)
  unfold curEscr
  generalize flagsOfByte (byteD c 1) = F at *
  obtain ⟨pd, e, r, t, a, k, x⟩ := F
  simp only at hlt ⊢
  have hlen := limit_le c
  match pd, hlt with
  | 0, _ => rfl
  | 1, _ => rfl
  | 2, _ =>
    simp only [ptsDtsSize, R.ok_bind, Pes.FIXED]
    rw [headerSlice_eq c h3 3 5]
    unfold fieldAt
    by_cases hl : 3 + 5 ≤ limit c
    · simp only [hl, if_true, R.ok_bind]
      rw [ts_at c 3 5 (by omega) (by omega)]
      simp [resOf, ptsDtsConv]
    · simp [hl, resOf]
  | 3, _ =>
    simp only [ptsDtsSize, R.ok_bind, Pes.FIXED]
    rw [headerSlice_eq c h3 3 10]
    unfold fieldAt
    by_cases hl : 3 + 10 ≤ limit c
    · simp only [hl, if_true, R.ok_bind, Pes.TIMESTAMP_SIZE]
      rw [sliceTo_ok _ 5 (by rw [length_slice c 3 10 (by omega)]; omega),
        sliceFrom_ok _ 5 (by rw [length_slice c 3 10 (by omega)]; omega)]
      simp only [R.ok_bind, List.take_take, List.drop_take, List.drop_drop]
      have e1 : min 5 10 = 5 := by decide
      have e2 : 10 - 5 = 5 := by decide
      have e3 : 3 + 5 = 8 := by decide
      rw [e1, e2]
      rw [ts_at c 3 5 (by omega) (by omega)]
      simp only [R.ok_bind]
      rw [ts_at c (3 + 5) 5 (by omega) (by omega)]
      simp [resOf, ptsDtsConv]
    · simp [hl, resOf]

theorem escr_exact (c : Bytes) (h3 : 3 ≤ c.length) :
    Pes.escr c = .ok (resOf escrConv (parse c).escr) := by
  have hf := byteD_lt c 1
  unfold Pes.escr Pes.flagsByte
  rw [byteAt_ok c 1 (by omega)]
  simp only [R.ok_bind]
  rw [parse_escr, flagsOf_eq, escrFlag_eq _ hf, ptsDtsEnd_eq _ hf]
  generalize flagsOfByte (byteD c 1) = F
  simp only [R.ok_bind, Pes.ESCR_SIZE]
  rw [headerSlice_eq c h3]
  unfold fieldAt
  have hlen := limit_le c
  cases he : F.escr
  · simp [resOf]
  · by_cases hl : curEscr F + 6 ≤ limit c
    · simp only [hl, if_true, R.ok_bind]
      rw [byteAt_slice c _ 6 0 (by omega) (by omega), byteAt_slice c _ 6 1 (by omega) (by omega),
        byteAt_slice c _ 6 2 (by omega) (by omega), byteAt_slice c _ 6 3 (by omega) (by omega),
        byteAt_slice c _ 6 4 (by omega) (by omega), byteAt_slice c _ 6 5 (by omega) (by omega)]
      simp only [R.ok_bind, Nat.add_zero]
      rw [escr_val]
      simp [resOf]
    · simp [hl, resOf]

theorem esRate_exact (c : Bytes) (h3 : 3 ≤ c.length) :
    Pes.esRate c = .ok (resOf id (parse c).esRate) := by
  have hf := byteD_lt c 1
  unfold Pes.esRate Pes.flagsByte
  rw [byteAt_ok c 1 (by omega)]
  simp only [R.ok_bind]
  rw [parse_esRate, flagsOf_eq, esRateFlag_eq _ hf, escrEnd_eq _ hf]
  generalize flagsOfByte (byteD c 1) = F
  simp only [R.ok_bind, Pes.ES_RATE_SIZE]
  rw [headerSlice_eq c h3]
  unfold fieldAt
  have hlen := limit_le c
  cases he : F.esRate
  · simp [resOf]
  · by_cases hl : curEsRate F + 3 ≤ limit c
    · simp only [hl, if_true, R.ok_bind]
      rw [byteAt_slice c _ 3 0 (by omega) (by omega), byteAt_slice c _ 3 1 (by omega) (by omega),
        byteAt_slice c _ 3 2 (by omega) (by omega)]
      simp only [R.ok_bind, Nat.add_zero]
      rw [esRate_val]
      unfold assertR
      simp only [decide_eq_true (esRateAt_lt c (curEsRate F)), if_true, R.ok_bind]
      simp [resOf]
    · simp [hl, resOf]

theorem dsmTrickMode_exact (c : Bytes) (h3 : 3 ≤ c.length) :
    Pes.dsmTrickMode c = .ok (resOf trickConv (parse c).trick) := by
  have hf := byteD_lt c 1
  unfold Pes.dsmTrickMode Pes.flagsByte
  rw [byteAt_ok c 1 (by omega)]
  simp only [R.ok_bind]
  rw [parse_trick, flagsOf_eq, trickFlag_eq _ hf, esRateEnd_eq _ hf]
  generalize flagsOfByte (byteD c 1) = F
  simp only [R.ok_bind]
  rw [headerSlice_eq c h3]
  unfold fieldAt
  have hlen := limit_le c
  cases he : F.trick
  · simp [resOf]
  · by_cases hl : curTrick F + 1 ≤ limit c
    · simp only [hl, if_true, R.ok_bind]
      rw [byteAt_slice c _ 1 0 (by omega) (by omega)]
      simp only [R.ok_bind, Nat.add_zero]
      rw [trick_val]
      simp [resOf]
    · simp [hl, resOf]

theorem additionalCopyInfo_exact (c : Bytes) (h3 : 3 ≤ c.length) :
    Pes.additionalCopyInfo c = .ok (copyInfoRes (parse c).copyInfo) := by
  have hf := byteD_lt c 1
  unfold Pes.additionalCopyInfo Pes.flagsByte
  rw [byteAt_ok c 1 (by omega)]
  simp only [R.ok_bind]
  rw [parse_copyInfo, flagsOf_eq, aciFlag_eq _ hf, trickEnd_eq _ hf]
  generalize flagsOfByte (byteD c 1) = F
  simp only [R.ok_bind]
  rw [headerSlice_eq c h3]
  unfold fieldAt
  have hlen := limit_le c
  cases he : F.copyInfo
  · simp [copyInfoRes]
  · by_cases hl : curCopyInfo F + 1 ≤ limit c
    · simp only [hl, if_true, R.ok_bind]
      rw [byteAt_slice c _ 1 0 (by omega) (by omega)]
      simp only [R.ok_bind, Nat.add_zero]
      have v := aci_val c (curCopyInfo F)
      by_cases hm : (byteD c (curCopyInfo F) &&& 0b1000_0000 == 0) = true
      · simp only [hm, if_true] at v ⊢
        simp [← v]
      · simp only [hm] at v ⊢
        simp [← v]
    · simp [hl, copyInfoRes]

theorem previousCrc_exact (c : Bytes) (h3 : 3 ≤ c.length) :
    Pes.previousCrc c = .ok (resOf id (parse c).prevCrc) := by
  have hf := byteD_lt c 1
  unfold Pes.previousCrc Pes.flagsByte
  rw [byteAt_ok c 1 (by omega)]
  simp only [R.ok_bind]
  rw [parse_prevCrc, flagsOf_eq, crcFlag_eq _ hf, aciEnd_eq _ hf]
  generalize flagsOfByte (byteD c 1) = F
  simp only [R.ok_bind]
  rw [headerSlice_eq c h3]
  unfold fieldAt
  have hlen := limit_le c
  cases he : F.crc
  · simp [resOf]
  · by_cases hl : curCrc F + 2 ≤ limit c
    · simp only [hl, if_true, R.ok_bind]
      rw [byteAt_slice c _ 2 0 (by omega) (by omega), byteAt_slice c _ 2 1 (by omega) (by omega)]
      simp only [R.ok_bind, Nat.add_zero]
      rw [crc_val]
      simp [resOf]
    · simp [hl, resOf]

/-- `pes_extension()` slices `buf[crc_end .. 3 + hdl]`; the slice start may lie after its end
only for receivers `from_bytes` rejects, hence the hypothesis (implied by acceptance). -/
theorem pesExtension_exact (c : Bytes) (h3 : 3 ≤ c.length)
    (hx : fixedFieldsEnd (flagsOf c) ≤ 3 + hdl c ∨ c.length < 3 + hdl c) :
    Pes.pesExtension c = .ok (resOf id (parse c).extension) := by
  have hf := byteD_lt c 1
  unfold Pes.pesExtension Pes.flagsByte Pes.hdl
  rw [byteAt_ok c 1 (by omega), byteAt_ok c 2 (by omega)]
  simp only [R.ok_bind]
  rw [fixedFieldsEnd_eq, hdl_eq] at hx
  rw [parse_extension, hdl_eq]
  rw [flagsOf_eq] at hx ⊢
  rw [extFlag_eq _ hf, crcEnd_eq _ hf]
  generalize flagsOfByte (byteD c 1) = F at *
  simp only [R.ok_bind, Pes.FIXED]
  cases he : F.ext
  · simp [resOf]
  · simp only [if_true, Bool.not_true, Bool.false_eq_true, if_false]
    unfold Pes.headerSlice Pes.hdl
    rw [byteAt_ok c 2 (by omega)]
    simp only [R.ok_bind, Pes.FIXED, Nat.lt_irrefl, gt_iff_lt, if_false]
    by_cases h2 : c.length < byteD c 2 + 3
    · have : ¬ (curExt F ≤ 3 + byteD c 2 ∧ 3 + byteD c 2 ≤ c.length) := by omega
      simp [h2, this, resOf]
    · have h4 : curExt F ≤ 3 + byteD c 2 := by omega
      have : (curExt F ≤ 3 + byteD c 2 ∧ 3 + byteD c 2 ≤ c.length) := by omega
      have e : byteD c 2 + 3 = curExt F + (3 + byteD c 2 - curExt F) := by omega
      simp only [h2, if_false, this, and_self, if_true]
      rw [e, sliceR_ok c (curExt F) _ (by omega)]
      simp only [R.ok_bind, R.pure_eq, resOf, id]
      rw [length_slice c _ _ (by omega)]

theorem payloadOffset_exact (c : Bytes) (h3 : 3 ≤ c.length) (hh : 3 + hdl c ≤ c.length) :
    Pes.payloadOffset c = .ok (parse c).payloadOffset := by
  unfold Pes.payloadOffset Pes.hdl
  rw [parse_payloadOffset]
  rw [hdl_eq] at hh ⊢
  rw [byteAt_ok c 2 (by omega)]
  simp only [R.ok_bind, Pes.FIXED]
  rw [sliceFrom_ok c _ hh]
  rfl

/-! ### the single-bit accessors of byte 0 -/

theorem pesPriority_exact (c : Bytes) (h3 : 3 ≤ c.length) :
    Pes.pesPriority c = .ok (parse c).priority := by
  unfold Pes.pesPriority
  rw [byteAt_ok c 0 (by omega), (parse_bits c).1, rb c 4 0 4 1 (by omega) (by omega)]
  simp only [R.ok_bind, R.pure_eq, Nat.shiftRight_eq_div_pow, Nat.and_one_is_mod]

theorem dataAlignment_exact (c : Bytes) (h3 : 3 ≤ c.length) :
    Pes.dataAlignment c = .ok (parse c).dataAlignment := by
  unfold Pes.dataAlignment
  rw [byteAt_ok c 0 (by omega), (parse_bits c).2.1, flagBit_eq c 5 0 5 (by omega) (by omega)]
  simp only [R.ok_bind, R.pure_eq, and_04 _ (byteD_lt c 0)]

theorem copyright_pinned (c : Bytes) (h3 : 3 ≤ c.length) :
    Pes.copyrightUndefined c = .ok (flagBit c 6) := by
  unfold Pes.copyrightUndefined
  rw [byteAt_ok c 0 (by omega), flagBit_eq c 6 0 6 (by omega) (by omega)]
  simp only [R.ok_bind, R.pure_eq, and_02 _ (byteD_lt c 0)]

theorem original_exact (c : Bytes) (h3 : 3 ≤ c.length) :
    Pes.original c = .ok (parse c).original := by
  unfold Pes.original
  rw [byteAt_ok c 0 (by omega), (parse_bits c).2.2.2, flagBit_eq c 7 0 7 (by omega) (by omega)]
  simp only [R.ok_bind, R.pure_eq, and_01 _ (byteD_lt c 0), Nat.reduceSub, Nat.pow_zero, Nat.div_one]

/-! ### acceptance -/

theorem headerFromBytes_eq (buf : Bytes) :
    Pes.headerFromBytes buf = .ok (if 6 ≤ buf.length ∧ readBits buf 0 24 = 1 then some buf else none) := by
  unfold Pes.headerFromBytes Pes.HDR_FIXED
  by_cases hl : buf.length < 6
  · have : ¬ (6 ≤ buf.length ∧ readBits buf 0 24 = 1) := by omega
    simp [hl, this]
  · rw [byteAt_ok buf 0 (by omega), byteAt_ok buf 1 (by omega), byteAt_ok buf 2 (by omega)]
    rw [rb_8_8_8 buf 0 0 rfl]
    have h0 := byteD_lt buf 0; have h1 := byteD_lt buf 1; have h2 := byteD_lt buf 2
    simp only [hl, if_false, R.ok_bind, Nat.shiftLeft_eq, Nat.zero_add]
    have e : byteD buf 0 * 2 ^ 16 ||| byteD buf 1 * 2 ^ 8 ||| byteD buf 2
        = byteD buf 0 * 65536 + byteD buf 1 * 256 + byteD buf 2 := by
      simp (disch := omega) only [or_eq_add 8, or_eq_add 16]
    rw [e]
    by_cases hp : byteD buf 0 * 65536 + byteD buf 1 * 256 + byteD buf 2 = 1
    · have : 6 ≤ buf.length := by omega
      simp [hp, this]
    · simp [hp]

theorem parsedAccepted_iff (c : Bytes) : parsedAccepted c ↔
    (3 ≤ c.length ∧ byteD c 0 / 64 = 2 ∧ 3 + byteD c 2 ≤ c.length
      ∧ curExt (flagsOfByte (byteD c 1)) ≤ 3 + byteD c 2) := by
  unfold parsedAccepted
  rw [rb c 0 0 0 2 (by omega) (by omega), hdl_eq, fixedFieldsEnd_eq, flagsOf_eq]
  have h0 := byteD_lt c 0
  have e0 : byteD c 0 / 2 ^ (8 - 0 - 2) % 2 ^ 2 = byteD c 0 / 64 := by omega
  rw [e0]

theorem parsedFromBytes_eq (c : Bytes) :
    Pes.parsedFromBytes c = .ok (if parsedAccepted c then some c else none) := by
  have hacc := parsedAccepted_iff c
  unfold Pes.parsedFromBytes Pes.FIXED Pes.hdl Pes.flagsByte
  by_cases hl : c.length < 3
  · have : ¬ parsedAccepted c := by rw [hacc]; omega
    simp [hl, this]
  · have h3 : 3 ≤ c.length := by omega
    have hf := byteD_lt c 1
    rw [byteAt_ok c 0 (by omega), byteAt_ok c 1 (by omega), byteAt_ok c 2 (by omega)]
    simp only [hl, if_false, R.ok_bind, shr6 _ (byteD_lt c 0), crcEnd_eq _ hf]
    have hce := three_le_curExt (flagsOfByte (byteD c 1))
    generalize curExt (flagsOfByte (byteD c 1)) = ce at *
    by_cases hm : byteD c 0 / 64 = 2
    · by_cases hh : 3 + byteD c 2 > c.length
      · have : ¬ parsedAccepted c := by rw [hacc]; omega
        simp [hm, hh, this, subR, h3]
      · by_cases hc : ce > 3 + byteD c 2
        · have : ¬ parsedAccepted c := by rw [hacc]; omega
          simp [hm, hh, hc, this, subR, hce]
        · have : parsedAccepted c := by rw [hacc]; omega
          simp [hm, hh, hc, this]
    · have : ¬ parsedAccepted c := by rw [hacc]; omega
      simp [hm, this]

theorem isParsed_table : ∀ sid, sid < 256 → Pes.isParsed sid = !(noHeaderIds.contains sid) := by
  decide +kernel

theorem contents_eq (buf : Bytes) (h : 6 ≤ buf.length) :
    Pes.contents buf = .ok (if readBits buf 24 8 ∈ noHeaderIds then .payload (buf.drop 6)
      else .parsed (if parsedAccepted (buf.drop 6) then some (buf.drop 6) else none)) := by
  unfold Pes.contents Pes.streamId Pes.HDR_FIXED
  rw [sliceFrom_ok buf 6 h, byteAt_ok buf 3 (by omega), rb_byte buf 24 3 rfl]
  simp only [R.ok_bind, isParsed_table _ (byteD_lt buf 3), parsedFromBytes_eq]
  by_cases hm : byteD buf 3 ∈ noHeaderIds
  · simp [hm]
  · simp [hm]

end Ts.Lemmas.C14
