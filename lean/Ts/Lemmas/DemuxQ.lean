import Ts.Model.DemuxQ
import Ts.Lemmas.Demux
import Ts.Lemmas.DemuxB
/-!
# Lemmas about the dispatcher model with an explicit pending changeset (`Ts/Model/DemuxQ.lean`)

* `ensureQ` lemmas
* the refinement lemmas `innerQ_eq`, `outerQ_eq`, `pushModelQ_eq_pushSpecQ`: the two labelled loops
  of `Demultiplex::push`, with the pending changeset carried along, compute the one-packet-at-a-time
  fold `pushSpecQ` (equality in the panic monad `R`), for every handler semantics, every pending
  queue on entry and every packet list
* `pushSpecQ_append`: the fold distributes over `++`
* `pushQ_append`, `pushAllQ_flatten_dropLast`: byte level — an aligned cut into successive `push`
  calls (pending changes handed from one call to the next) is one `push` of the concatenation
* `pushSpecQ_ofSem`: when `construct` queues nothing and nothing is pending on entry, the fold is
  the fold `pushSpec` of `Ts/Model/Demux.lean`
-/
namespace Ts.Lemmas.DemuxQ
open Ts Ts.Demux Ts.DemuxQ

variable {H C : Type}

/-! ### `ensureQ` -/

theorem ensureQ_of_contains (sem : SemQ H C) (t : Tab H) (c : C) (q : List (Change H)) (pid : Nat)
    (h : t.contains pid = true) : ensureQ sem t c q pid = .ok (t, c, q) := by
  unfold ensureQ; simp only [h, if_true]

theorem ensureQ_of_absent (sem : SemQ H C) (t : Tab H) (c : C) (q : List (Change H)) (pid : Nat)
    (h : t.contains pid = false) :
    ensureQ sem t c q pid =
      (match sem.construct c pid with
       | .panic s => .panic s
       | .ok (hd, c', chg) => .ok (t.insert pid hd, c', q ++ chg)) := by
  unfold ensureQ; simp only [h, Bool.false_eq_true, if_false]; rfl

/-- `ensureQ` on an absent PID, `construct` succeeding -/
theorem ensureQ_of_absent_ok (sem : SemQ H C) (t : Tab H) (c : C) (q : List (Change H)) (pid : Nat)
    (hd : H) (c' : C) (chg : List (Change H))
    (h : t.contains pid = false) (hk : sem.construct c pid = .ok (hd, c', chg)) :
    ensureQ sem t c q pid = .ok (t.insert pid hd, c', q ++ chg) := by
  rw [ensureQ_of_absent sem t c q pid h, hk]

/-- after `ensureQ` succeeds the slot is occupied -/
theorem ensureQ_contains (sem : SemQ H C) (t : Tab H) (c : C) (q : List (Change H)) (pid : Nat)
    (t' : Tab H) (c' : C) (q' : List (Change H))
    (h : ensureQ sem t c q pid = .ok (t', c', q')) : t'.contains pid = true := by
  by_cases hc : t.contains pid = true
  · rw [ensureQ_of_contains sem t c q pid hc] at h
    cases h; exact hc
  · have hc' : t.contains pid = false := by simpa using hc
    rw [ensureQ_of_absent sem t c q pid hc'] at h
    cases hk : sem.construct c pid with
    | panic s => rw [hk] at h; cases h
    | ok r =>
      obtain ⟨hd, c1, chg⟩ := r
      rw [hk] at h
      cases h
      exact Tab.contains_insert_self _ _ _

/-! ### the spec step -/

theorem pushSpecQ_nil (sem : SemQ H C) (st : StQ H C) : pushSpecQ sem st [] = .ok st := rfl

theorem pushSpecQ_cons (sem : SemQ H C) (st : StQ H C) (pk : Pk) (rest : List Pk) :
    pushSpecQ sem st (pk :: rest) =
      (match specStepQ sem st pk with
       | .panic s => .panic s
       | .ok st' => pushSpecQ sem st' rest) := rfl

theorem specStepQ_eq (sem : SemQ H C) (t : Tab H) (c : C) (q : List (Change H)) (pk : Pk) :
    specStepQ sem (t, c, q) pk =
      (match ensureQ sem t c q pk.pid with
       | .panic s => .panic s
       | .ok (t1, c1, q1) =>
         if pk.flagged then .ok (t1, c1, q1)
         else
           match t1.get pk.pid with
           | none => .panic "called `Option::unwrap()` on a `None` value"
           | some h =>
             match sem.consume h c1 pk with
             | .panic s => .panic s
             | .ok (h', c', chg) => .ok (applyChanges (t1.insert pk.pid h') (q1 ++ chg), c', [])) := rfl

theorem specStepQ_flagged_of_contains (sem : SemQ H C) (t : Tab H) (c : C) (q : List (Change H))
    (pk : Pk) (hc : t.contains pk.pid = true) (hf : pk.flagged = true) :
    specStepQ sem (t, c, q) pk = .ok (t, c, q) := by
  rw [specStepQ_eq, ensureQ_of_contains sem t c q pk.pid hc]
  simp only [hf, if_true]

theorem specStepQ_consume_of_contains (sem : SemQ H C) (t : Tab H) (c : C) (q : List (Change H))
    (pk : Pk) (h : H) (hc : t.contains pk.pid = true) (hf : pk.flagged = false)
    (hg : t.get pk.pid = some h) :
    specStepQ sem (t, c, q) pk =
      (match sem.consume h c pk with
       | .panic s => .panic s
       | .ok (h', c', chg) => .ok (applyChanges (t.insert pk.pid h') (q ++ chg), c', [])) := by
  rw [specStepQ_eq, ensureQ_of_contains sem t c q pk.pid hc]
  simp only [hf, Bool.false_eq_true, if_false, hg]

/-- re-running `ensureQ` right after it succeeded is the identity, so the `ensureQ` done by `outerQ`
is the one done by `specStepQ` for the first packet of the run -/
theorem specStepQ_after_ensureQ (sem : SemQ H C) (t : Tab H) (c : C) (q : List (Change H)) (pk : Pk)
    (t1 : Tab H) (c1 : C) (q1 : List (Change H))
    (hE : ensureQ sem t c q pk.pid = .ok (t1, c1, q1)) :
    specStepQ sem (t1, c1, q1) pk = specStepQ sem (t, c, q) pk := by
  have hc := ensureQ_contains sem t c q pk.pid t1 c1 q1 hE
  rw [specStepQ_eq sem t c q, hE, specStepQ_eq sem t1 c1 q1, ensureQ_of_contains sem t1 c1 q1 pk.pid hc]

/-! ### refinement: the labelled loops compute the fold -/

/-- `innerQ` = spec, given the slot invariant (`thisPid = pk.pid`, slot occupied) -/
theorem innerQ_eq (sem : SemQ H C) (fuelO : Nat)
    (ihO : ∀ t c q pk rest, rest.length < fuelO →
      outerQ sem fuelO t c q pk rest = pushSpecQ sem (t, c, q) (pk :: rest)) :
    ∀ (fuel : Nat) (t : Tab H) (c : C) (q : List (Change H)) (pk : Pk) (rest : List Pk),
      rest.length < fuel → rest.length ≤ fuelO → t.contains pk.pid = true →
      innerQ sem pk.pid t c q pk rest (outerQ sem fuelO) fuel = pushSpecQ sem (t, c, q) (pk :: rest) := by
  intro fuel
  induction fuel with
  | zero => intro t c q pk rest h; omega
  | succ fuel ih =>
    intro t c q pk rest hf hfo hs
    unfold innerQ
    rw [pushSpecQ_cons]
    cases hfl : pk.flagged with
    | true =>
      simp only [if_true]
      rw [specStepQ_flagged_of_contains sem t c q pk hs hfl]
      cases rest with
      | nil => rfl
      | cons p rest' =>
        simp only [List.length_cons] at hf hfo
        show (if (p.pid != pk.pid) = true then _ else _) = _
        by_cases hp : p.pid = pk.pid
        · have hb : ¬ ((p.pid != pk.pid) = true) := by simp [hp]
          rw [if_neg hb, ← hp]
          exact ih t c q p rest' (by omega) (by omega) (by rw [hp]; exact hs)
        · have hb : (p.pid != pk.pid) = true := by simp [hp]
          rw [if_pos hb]
          exact ihO t c q p rest' (by omega)
    | false =>
      simp only [Bool.false_eq_true, if_false]
      obtain ⟨h, hh⟩ := (Tab.contains_eq_true_iff t pk.pid).1 hs
      rw [specStepQ_consume_of_contains sem t c q pk h hs hfl hh]
      simp only [hh]
      cases hcons : sem.consume h c pk with
      | panic s => rfl
      | ok x =>
        obtain ⟨h', c', chg⟩ := x
        simp only []
        cases hchg : (q ++ chg).isEmpty with
        | true =>
          simp only [if_true]
          rw [applyChanges_of_isEmpty _ (q ++ chg) hchg]
          cases rest with
          | nil => rfl
          | cons p rest' =>
            simp only [List.length_cons] at hf hfo
            show (if (p.pid != pk.pid) = true then _ else _) = _
            by_cases hp : p.pid = pk.pid
            · have hb : ¬ ((p.pid != pk.pid) = true) := by simp [hp]
              rw [if_neg hb, ← hp]
              exact ih _ c' [] p rest' (by omega) (by omega) (Tab.contains_insert_self _ _ _)
            · have hb : (p.pid != pk.pid) = true := by simp [hp]
              rw [if_pos hb]
              exact ihO _ c' [] p rest' (by omega)
        | false =>
          simp only [Bool.false_eq_true, if_false]
          cases rest with
          | nil => rfl
          | cons p rest' =>
            simp only [List.length_cons] at hf hfo
            exact ihO _ c' [] p rest' (by omega)

theorem outerQ_eq (sem : SemQ H C) :
    ∀ (fuel : Nat) (t : Tab H) (c : C) (q : List (Change H)) (pk : Pk) (rest : List Pk),
      rest.length < fuel → outerQ sem fuel t c q pk rest = pushSpecQ sem (t, c, q) (pk :: rest) := by
  intro fuel
  induction fuel with
  | zero => intro t c q pk rest h; omega
  | succ fuel ih =>
    intro t c q pk rest hf
    unfold outerQ
    rw [pushSpecQ_cons]
    cases hE : ensureQ sem t c q pk.pid with
    | panic s =>
      rw [specStepQ_eq, hE]
    | ok r =>
      obtain ⟨t1, c1, q1⟩ := r
      have hs := ensureQ_contains sem t c q pk.pid t1 c1 q1 hE
      show innerQ sem pk.pid t1 c1 q1 pk rest (outerQ sem fuel) (fuel+1) = _
      rw [innerQ_eq sem fuel ih (fuel+1) t1 c1 q1 pk rest (by omega) (by omega) hs, pushSpecQ_cons,
        specStepQ_after_ensureQ sem t c q pk t1 c1 q1 hE]

/-- the run-caching double loop equals the one-packet-at-a-time specification, for every handler
semantics, every pending queue and every packet list -/
theorem pushModelQ_eq_pushSpecQ (sem : SemQ H C) (st : StQ H C) (pks : List Pk) :
    pushModelQ sem st pks = pushSpecQ sem st pks := by
  cases pks with
  | nil => rfl
  | cons pk rest =>
    obtain ⟨t, c, q⟩ := st
    exact outerQ_eq sem _ t c q pk rest (by simp)

/-- fold over `++` -/
theorem pushSpecQ_append (sem : SemQ H C) (st : StQ H C) (a b : List Pk) :
    pushSpecQ sem st (a ++ b) =
      (match pushSpecQ sem st a with
       | .panic s => .panic s
       | .ok st' => pushSpecQ sem st' b) := by
  induction a generalizing st with
  | nil => rfl
  | cons pk a ih =>
    rw [List.cons_append, pushSpecQ_cons, pushSpecQ_cons]
    cases specStepQ sem st pk with
    | panic s => rfl
    | ok st' => exact ih st'

/-- … hence so do the real loops: stopping the double loop after `a` (with whatever is pending) and
restarting it on `b` changes nothing -/
theorem pushModelQ_append (sem : SemQ H C) (st : StQ H C) (a b : List Pk) :
    pushModelQ sem st (a ++ b) =
      (match pushModelQ sem st a with
       | .panic s => .panic s
       | .ok st' => pushModelQ sem st' b) := by
  rw [pushModelQ_eq_pushSpecQ, pushModelQ_eq_pushSpecQ, pushSpecQ_append]
  cases pushSpecQ sem st a with
  | panic s => rfl
  | ok st' => simp only [pushModelQ_eq_pushSpecQ]

/-! ### byte level: successive `push` calls -/

/-- framing never panics (`frame_eq_pure`), so `pushQ` is the double loop on the framed packets -/
theorem pushQ_eq (sem : SemQ H C) (st : StQ H C) (buf : Bytes) (base : Nat) :
    pushQ sem st buf base = pushModelQ sem st (framePure (chunks buf) base) := by
  unfold pushQ; rw [frame_eq_pure]

theorem pushQ_nil (sem : SemQ H C) (st : StQ H C) (base : Nat) : pushQ sem st [] base = .ok st := rfl

theorem pushAllQ_cons (sem : SemQ H C) (st : StQ H C) (b : Bytes) (bs : List Bytes) (base : Nat) :
    pushAllQ sem st (b :: bs) base =
      (match pushQ sem st b base with
       | .panic s => .panic s
       | .ok st' => pushAllQ sem st' bs (base + b.length)) := rfl

theorem pushAllQ_single (sem : SemQ H C) (st : StQ H C) (b : Bytes) (base : Nat) :
    pushAllQ sem st [b] base = pushQ sem st b base := by
  rw [pushAllQ_cons]
  cases pushQ sem st b base with
  | panic s => rfl
  | ok st' => rfl

/-- two successive pushes, the first one aligned = one push of the concatenation; what is pending
at the end of the first call is pending at the start of the second -/
theorem pushQ_append (sem : SemQ H C) (st : StQ H C) (a b : Bytes) (base : Nat)
    (ha : a.length % 188 = 0) :
    pushQ sem st (a ++ b) base =
      (match pushQ sem st a base with
       | .panic s => .panic s
       | .ok st' => pushQ sem st' b (base + a.length)) := by
  rw [pushQ_eq, pushQ_eq, frame_append_pure a b base ha, pushModelQ_append]
  cases pushModelQ sem st (framePure (chunks a) base) with
  | panic s => rfl
  | ok st' => simp only [pushQ_eq]

/-- General form: only the LAST buffer may have a length that is not a multiple of 188 (its
remainder is dropped by `chunks_exact` in both runs). -/
theorem pushAllQ_flatten_dropLast (sem : SemQ H C) :
    ∀ (bufs : List Bytes) (st : StQ H C) (base : Nat),
      (∀ c ∈ bufs.dropLast, c.length % 188 = 0) →
      pushAllQ sem st bufs base = pushQ sem st bufs.flatten base := by
  intro bufs
  induction bufs with
  | nil => intro st base _; rfl
  | cons b bs ih =>
    intro st base h
    rw [pushAllQ_cons, List.flatten_cons]
    cases bs with
    | nil =>
      simp only [List.flatten_nil, List.append_nil]
      cases pushQ sem st b base with
      | panic s => rfl
      | ok st' => rfl
    | cons b2 bs' =>
      have hb : b.length % 188 = 0 := h b (by simp [List.dropLast])
      have hrest : ∀ c ∈ (b2 :: bs').dropLast, c.length % 188 = 0 := by
        intro c hc
        apply h c
        rw [List.dropLast_cons_cons]
        exact List.mem_cons_of_mem _ hc
      rw [pushQ_append sem st b _ base hb]
      cases pushQ sem st b base with
      | panic s => rfl
      | ok st' => exact ih st' (base + b.length) hrest

/-! ### the old model is the special case "construct queues nothing, nothing pending on entry" -/

theorem ensureQ_ofSem (sem : Sem H C) (t : Tab H) (c : C) (pid : Nat) :
    ensureQ (SemQ.ofSem sem) t c [] pid =
      (match ensure sem t c pid with
       | .panic s => .panic s
       | .ok (t', c') => .ok (t', c', [])) := by
  cases hc : t.contains pid with
  | true => rw [ensureQ_of_contains _ t c [] pid hc, ensure_of_contains sem t c pid hc]
  | false =>
    rw [ensureQ_of_absent _ t c [] pid hc, ensure_of_absent sem t c pid hc]
    show (match (match sem.construct c pid with
        | .panic s => R.panic s
        | .ok (h, c') => R.ok (h, c', ([] : List (Change H)))) with
      | .panic s => R.panic s
      | .ok (hd, c', chg) => R.ok (t.insert pid hd, c', [] ++ chg)) = _
    cases sem.construct c pid with
    | panic s => rfl
    | ok r => rfl

theorem specStepQ_ofSem (sem : Sem H C) (t : Tab H) (c : C) (pk : Pk) :
    specStepQ (SemQ.ofSem sem) (t, c, []) pk =
      (match specStep sem (t, c) pk with
       | .panic s => .panic s
       | .ok (t', c') => .ok (t', c', [])) := by
  rw [specStepQ_eq, ensureQ_ofSem, specStep_eq]
  cases ensure sem t c pk.pid with
  | panic s => rfl
  | ok r =>
    obtain ⟨t1, c1⟩ := r
    simp only [R.ok_bind]
    cases pk.flagged with
    | true => rfl
    | false =>
      simp only [Bool.false_eq_true, if_false]
      cases t1.get pk.pid with
      | none => rfl
      | some h =>
        simp only []
        have e : (SemQ.ofSem sem).consume h c1 pk = sem.consume h c1 pk := rfl
        rw [e]
        cases sem.consume h c1 pk with
        | panic s => rfl
        | ok x => obtain ⟨h', c', chg⟩ := x; rfl

theorem pushSpecQ_ofSem (sem : Sem H C) (pks : List Pk) : ∀ (t : Tab H) (c : C),
    pushSpecQ (SemQ.ofSem sem) (t, c, []) pks =
      (match pushSpec sem (t, c) pks with
       | .panic s => .panic s
       | .ok (t', c') => .ok (t', c', [])) := by
  induction pks with
  | nil => intro t c; rfl
  | cons pk pks ih =>
    intro t c
    rw [pushSpecQ_cons, pushSpec_cons, specStepQ_ofSem]
    cases specStep sem (t, c) pk with
    | panic s => rfl
    | ok r =>
      obtain ⟨t1, c1⟩ := r
      exact ih t1 c1

end Ts.Lemmas.DemuxQ
