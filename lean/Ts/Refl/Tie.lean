import Ts.Refl.OrHom
/-!
# Tactics for the expression ties (`Ts/Props/Ties/Expr*.lean`)

`tie_linear n` proves `∀ l, l.length ≤ n → (∀ x ∈ l, x < 256) → f (envL l) = g (envL l)` for two
OR-linear bit-field expressions `f`, `g` (byte reads, masks, shifts, `% 2 ^ w`, `|||`) by the
extensionality principle of `Ts/Refl/OrHom.lean`: both are OR-homomorphisms (`orhom`), and they agree
on the `8 * n` single-bit environments (kernel evaluation).  The proof does not depend on how the
two expressions are written, only on what they compute.
-/
namespace Ts.Refl

macro "tie_linear " n:num : tactic =>
  `(tactic| exact OrHom.ext_list_of_agree (by orhom) (by orhom) $n (by decide +kernel))

/-- the byte values of a byte string, as an environment -/
def envB (b : List UInt8) : Env := envL (b.map (·.toNat))

theorem envB_lt (b : List UInt8) : ∀ x ∈ b.map (·.toNat), x < 256 := by
  intro x hx
  rcases List.mem_map.mp hx with ⟨u, _, rfl⟩
  exact UInt8.toNat_lt u

/-- `envB b` reads byte `i` of `b` (0 past the end).  The right-hand side is `Ts.byteD b i` unfolded
(this file does not import `Ts.Basic`; `Ts/Props/Ties/ExprSpec.lean` restates it with `byteD`). -/
theorem envB_apply (b : List UInt8) (i : Nat) : envB b i = (b.getD i 0).toNat := by
  unfold envB envL
  simp only [List.getD_eq_getElem?_getD, List.getElem?_map]
  cases b[i]? <;> rfl

end Ts.Refl
