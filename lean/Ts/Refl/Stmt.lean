import Ts.Basic
import Ts.Model.Psi
/-!
# Vocabulary of the statement-level translations (`Ts/Gen/PsiGen.lean`, written by `tools/gen_psi.py`)

The generated functions are Rust statements transcribed into the panic monad `R`.  What they
manipulate:

* `Slice` — a `&[u8]`: its bytes together with where it points (`src = some o`: the slice starts
  at byte `o` of the transport packet being consumed; `none`: it points into the section buffer
  `self.buf`).  Sub-slicing is checked (`upto`, `from`, `sub`, `at` panic exactly where Rust's
  slice / index operators do) and moves `src` along, so zero-copy is visible in the translation.
* `Pk` — what `SectionPacketConsumer::consume` observes of the packet: `payload()` and
  `payload_unit_start_indicator()`.
* the leaf constructors `SectionCommonHeader::new`, `TableSyntaxHeader::new`,
  `TableSyntaxHeader::version`, `mpegts_crc::sum32` are the model's functions (their bit-level
  expressions are translated and tied separately, `Ts/Props/Ties/ExprPsi.lean`).
-/
namespace Ts.Stmt
open Ts

structure Slice where
  bytes : Bytes
  src : Option Nat
  deriving DecidableEq, Repr

namespace Slice
def len (s : Slice) : Nat := s.bytes.length
/-- `s[i]` -/
def get (s : Slice) (i : Nat) : R Nat := byteAt s.bytes i
/-- `&s[..n]` -/
def upto (s : Slice) (n : Nat) : R Slice := do
  let b ← sliceTo s.bytes n
  pure ⟨b, s.src⟩
/-- `&s[n..]` -/
def «from» (s : Slice) (n : Nat) : R Slice := do
  let b ← sliceFrom s.bytes n
  pure ⟨b, s.src.map (· + n)⟩
/-- `&s[a..b]` -/
def sub (s : Slice) (a b : Nat) : R Slice := do
  let x ← sliceR s.bytes a b
  pure ⟨x, s.src.map (· + a)⟩
/-- `&self.buf[..]`: a view of the section buffer -/
def ofVec (b : Bytes) : Slice := ⟨b, none⟩
end Slice

structure Pk where
  payload : Option Slice
  pusi : Bool
  deriving DecidableEq, Repr

/-- `SectionCommonHeader::new(s)` -/
def headerNew (s : Slice) : R Psi.Header := Psi.headerNew s.bytes

/-- `TableSyntaxHeader::new(s)`: asserts `s.len() >= 5`, keeps the slice -/
def tshNew (s : Slice) : R Slice := do
  assertR (decide (s.bytes.length ≥ Psi.TSH)) "assert!(buf.len() >= Self::SIZE)"
  pure s

/-- `TableSyntaxHeader::version()` -/
def tshVersion (t : Slice) : R Nat := do
  let b2 ← byteAt t.bytes 2
  pure ((b2 >>> 1) &&& 0b0001_1111)

/-- `mpegts_crc::sum32(s)` -/
def sum32 (s : Slice) : R Nat := Crc.sum32 s.bytes

/-- header byte 3 of a transport packet (`adaptation_control()` / `continuity_counter()` derive from it) -/
def byte3 (s : Slice) : R Nat := byteAt s.bytes 3

/-- `AdaptationField::new(s)`: asserts a non-empty slice, keeps it -/
def afNew (s : Slice) : R Slice := do
  assertR (!s.bytes.isEmpty) "assert!(!buf.is_empty())"
  pure s

/-- `StreamInfo::es_info_length()`: the 12-bit length in bytes 3-4 of a stream entry -/
def esInfoLen (s : Slice) : R Nat := do
  let d3 ← byteAt s.bytes 3
  let d4 ← byteAt s.bytes 4
  pure (((d3 &&& 0b0000_1111) <<< 8) ||| d4)

/-- panics compare equal whatever their message: `x.erase = y.erase` is "same value, or both panic" -/
def erase {α : Type} : R α → R α
  | .ok a => .ok a
  | .panic _ => .panic ""

@[simp] theorem erase_ok {α} (a : α) : erase (R.ok a) = R.ok a := rfl
@[simp] theorem erase_panic {α} (s : String) : erase (R.panic s : R α) = R.panic "" := rfl
theorem erase_bind {α β} (x : R α) (f g : α → R β) (h : ∀ a, erase (f a) = erase (g a)) :
    erase (x >>= f) = erase (x >>= g) := by
  cases x with
  | ok a => exact h a
  | panic s => rfl

end Ts.Stmt
