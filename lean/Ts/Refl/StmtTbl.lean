import Ts.Refl.Stmt
import Ts.Model.Tables
/-!
# Vocabulary of the translated PMT table processor (`Ts/Gen/TablesGen.lean`)

* `RawReq` — a `FilterRequest` as the library builds it: the `ByStream` request carries *views* (the
  PMT section and the stream entry), not parsed values;
* `streamType`, `elementaryPid` — `StreamInfo::stream_type()` / `elementary_pid()` (`Pid::new` of the
  13-bit field; the bit-field expressions are translated and tied by `tools/gen_exprs.py`).
-/
namespace Ts.Stmt
open Ts

inductive RawReq where
  | byStream (programPid streamType : Nat) (pmt info : Slice)
  deriving DecidableEq, Repr

/-- `StreamInfo::stream_type()` -/
def streamType (s : Slice) : R Nat := byteAt s.bytes 0

/-- `StreamInfo::elementary_pid()` -/
def elementaryPid (s : Slice) : R Nat := do
  let d1 ← byteAt s.bytes 1
  let d2 ← byteAt s.bytes 2
  Tables.pidNew (((d1 &&& 0b0001_1111) <<< 8) ||| d2)

end Ts.Stmt
