/-
# OR-homomorphisms over byte environments

A reusable extensionality principle for bit-field extraction functions.  A function
`f : Env → Nat` built from byte reads, masks with literals, shifts, `% 2 ^ w` truncations and
`|||` is an *OR-homomorphism*: `f 0 = 0` and `f (a ||| b) = f a ||| f b`.  Two such functions that
agree on every single-bit environment agree on every environment of byte values
(`OrHom.ext`, `OrHom.ext_list`).  The single-bit hypothesis has a kernel-evaluable Boolean form
(`agreeOnSingles`, `agreeOnSingles_iff`), so an equation quantified over all byte values is
discharged by `8 * n` concrete evaluations.

Core + Std only.
-/
import Lean.Elab.Tactic

namespace Ts.Refl

/-- a byte environment: index ↦ value -/
abbrev Env := Nat → Nat

def Env.zero : Env := fun _ => 0
def Env.or (a b : Env) : Env := fun i => a i ||| b i
/-- the environment holding only bit `bit` of byte `i` -/
def single (i bit : Nat) : Env := fun j => if j = i then 2 ^ bit else 0
/-- environment from a list of byte values (index past the end reads 0) -/
def envL (l : List Nat) : Env := fun i => l.getD i 0

structure OrHom (f : Env → Nat) : Prop where
  zero : f Env.zero = 0
  or : ∀ a b : Env, f (a.or b) = f a ||| f b

/-! ## Closure properties -/

theorem OrHom.byte (i : Nat) : OrHom (fun e => e i) :=
  ⟨rfl, fun _ _ => rfl⟩

theorem OrHom.andLit {f} (hf : OrHom f) (m : Nat) : OrHom (fun e => f e &&& m) :=
  ⟨by simp [hf.zero], fun a b => by simp [hf.or, Nat.and_or_distrib_right]⟩

theorem OrHom.litAnd {f} (hf : OrHom f) (m : Nat) : OrHom (fun e => m &&& f e) :=
  ⟨by simp [hf.zero], fun a b => by simp [hf.or, Nat.and_or_distrib_left]⟩

theorem OrHom.lor {f g} (hf : OrHom f) (hg : OrHom g) : OrHom (fun e => f e ||| g e) :=
  ⟨by simp [hf.zero, hg.zero], fun a b => by
    simp only [hf.or, hg.or]
    apply Nat.eq_of_testBit_eq
    intro i
    simp only [Nat.testBit_or]
    cases (f a).testBit i <;> cases (f b).testBit i <;> cases (g a).testBit i <;>
      cases (g b).testBit i <;> rfl⟩

theorem OrHom.shl {f} (hf : OrHom f) (k : Nat) : OrHom (fun e => f e <<< k) :=
  ⟨by simp [hf.zero], fun a b => by simp [hf.or, Nat.shiftLeft_or_distrib]⟩

theorem OrHom.shr {f} (hf : OrHom f) (k : Nat) : OrHom (fun e => f e >>> k) :=
  ⟨by simp [hf.zero], fun a b => by simp [hf.or, Nat.shiftRight_or_distrib]⟩

theorem OrHom.modPow {f} (hf : OrHom f) (w : Nat) : OrHom (fun e => f e % 2 ^ w) :=
  ⟨by simp [hf.zero], fun a b => by simp [hf.or, Nat.or_mod_two_pow]⟩

/-! ## Decomposition of an environment into single-bit environments -/

/-- the environment holding value `v` at byte `i` and 0 elsewhere -/
def byteEnv (i v : Nat) : Env := fun j => if j = i then v else 0

/-- the OR of the single-bit environments for the set bits of `v` below `k`, at byte `i` -/
def bitsEnv (i v : Nat) : Nat → Env
  | 0 => Env.zero
  | k + 1 => (bitsEnv i v k).or (if v.testBit k then single i k else Env.zero)

/-- the first `n` bytes of `e`, 0 elsewhere -/
def truncEnv (e : Env) (n : Nat) : Env := fun j => if j < n then e j else 0

theorem mod_two_pow_succ_eq_or (v k : Nat) :
    v % 2 ^ (k + 1) = v % 2 ^ k ||| (if v.testBit k then 2 ^ k else 0) := by
  apply Nat.eq_of_testBit_eq
  intro j
  rw [Nat.testBit_or, Nat.testBit_mod_two_pow, Nat.testBit_mod_two_pow]
  by_cases hjk : j = k
  · subst hjk
    cases hv : v.testBit j <;> simp [Nat.testBit_two_pow_self]
  · have h2 : (if v.testBit k then 2 ^ k else 0).testBit j = false := by
      split
      · exact Nat.testBit_two_pow_of_ne (fun h => hjk h.symm)
      · exact Nat.zero_testBit j
    rw [h2, Bool.or_false]
    have : decide (j < k + 1) = decide (j < k) := by
      apply decide_eq_decide.mpr
      omega
    rw [this]

theorem bitsEnv_eq (i v k : Nat) : bitsEnv i v k = byteEnv i (v % 2 ^ k) := by
  induction k with
  | zero =>
    funext j
    simp [bitsEnv, byteEnv, Env.zero, Nat.mod_one]
  | succ k ih =>
    funext j
    simp only [bitsEnv, ih, Env.or, byteEnv, mod_two_pow_succ_eq_or v k]
    by_cases hj : j = i
    · cases hv : v.testBit k <;> simp [hj, single, Env.zero]
    · cases hv : v.testBit k <;> simp [hj, single, Env.zero]

theorem truncEnv_zero (e : Env) : truncEnv e 0 = Env.zero := by
  funext j
  simp [truncEnv, Env.zero]

theorem truncEnv_succ (e : Env) (n : Nat) :
    truncEnv e (n + 1) = (truncEnv e n).or (byteEnv n (e n)) := by
  funext j
  simp only [truncEnv, Env.or, byteEnv]
  by_cases h1 : j < n
  · have h2 : j < n + 1 := by omega
    have h3 : j ≠ n := by omega
    simp [h1, h2, h3]
  · by_cases h3 : j = n
    · subst h3
      simp
    · have h2 : ¬ j < n + 1 := by omega
      simp [h1, h2, h3]

theorem truncEnv_eq_self (e : Env) (n : Nat) (h : ∀ i, n ≤ i → e i = 0) : truncEnv e n = e := by
  funext j
  simp only [truncEnv]
  split
  · rfl
  · exact (h j (by omega)).symm

/-! ## The extensionality principle -/

section Ext

variable {f g : Env → Nat}

theorem OrHom.agree_zero (hf : OrHom f) (hg : OrHom g) : f Env.zero = g Env.zero := by
  rw [hf.zero, hg.zero]

theorem OrHom.agree_or (hf : OrHom f) (hg : OrHom g) {a b : Env}
    (ha : f a = g a) (hb : f b = g b) : f (a.or b) = g (a.or b) := by
  rw [hf.or, hg.or, ha, hb]

theorem OrHom.agree_bitsEnv (hf : OrHom f) (hg : OrHom g) (i v : Nat)
    (h : ∀ b, b < 8 → f (single i b) = g (single i b)) :
    ∀ k, k ≤ 8 → f (bitsEnv i v k) = g (bitsEnv i v k) := by
  intro k
  induction k with
  | zero => intro _; exact hf.agree_zero hg
  | succ k ih =>
    intro hk
    simp only [bitsEnv]
    apply hf.agree_or hg (ih (by omega))
    split
    · exact h k (by omega)
    · exact hf.agree_zero hg

theorem OrHom.agree_byteEnv (hf : OrHom f) (hg : OrHom g) (i v : Nat) (hv : v < 256)
    (h : ∀ b, b < 8 → f (single i b) = g (single i b)) :
    f (byteEnv i v) = g (byteEnv i v) := by
  have h8 := hf.agree_bitsEnv hg i v h 8 (Nat.le_refl 8)
  rw [bitsEnv_eq] at h8
  have : v % 2 ^ 8 = v := Nat.mod_eq_of_lt hv
  rw [this] at h8
  exact h8

/-- MAIN THEOREM: two OR-homomorphisms that agree on every single-bit environment of the first `n`
bytes agree on every environment of byte values supported on the first `n` indices. -/
theorem OrHom.ext {f g : Env → Nat} (hf : OrHom f) (hg : OrHom g) (n : Nat)
    (h : ∀ i, i < n → ∀ b, b < 8 → f (single i b) = g (single i b)) :
    ∀ e : Env, (∀ i, e i < 256) → (∀ i, n ≤ i → e i = 0) → f e = g e := by
  intro e hlt hsupp
  have key : ∀ m, m ≤ n → f (truncEnv e m) = g (truncEnv e m) := by
    intro m
    induction m with
    | zero => intro _; rw [truncEnv_zero]; exact hf.agree_zero hg
    | succ m ih =>
      intro hm
      rw [truncEnv_succ]
      exact hf.agree_or hg (ih (by omega)) (hf.agree_byteEnv hg m (e m) (hlt m) (h m (by omega)))
  have := key n (Nat.le_refl n)
  rw [truncEnv_eq_self e n hsupp] at this
  exact this

end Ext

theorem envL_lt (l : List Nat) (hl : ∀ x ∈ l, x < 256) (i : Nat) : envL l i < 256 := by
  simp only [envL, List.getD_eq_getElem?_getD]
  by_cases hi : i < l.length
  · rw [List.getElem?_eq_getElem hi]
    exact hl _ (List.getElem_mem hi)
  · rw [List.getElem?_eq_none (by omega)]
    decide

theorem envL_eq_zero (l : List Nat) (i : Nat) (hi : l.length ≤ i) : envL l i = 0 := by
  simp only [envL, List.getD_eq_getElem?_getD]
  rw [List.getElem?_eq_none hi]
  rfl

/-- convenient corollary for list environments -/
theorem OrHom.ext_list {f g : Env → Nat} (hf : OrHom f) (hg : OrHom g) (n : Nat)
    (h : ∀ i, i < n → ∀ b, b < 8 → f (single i b) = g (single i b)) :
    ∀ l : List Nat, l.length ≤ n → (∀ x ∈ l, x < 256) → f (envL l) = g (envL l) := by
  intro l hlen hl
  exact hf.ext hg n h (envL l) (envL_lt l hl) (fun i hi => envL_eq_zero l i (by omega))

/-- a decidable, kernel-evaluable form of the hypothesis `h` (so that users can discharge it by
`decide +kernel`): -/
def agreeOnSingles (f g : Env → Nat) (n : Nat) : Bool :=
  (List.range n).all fun i => (List.range 8).all fun b => f (single i b) == g (single i b)

theorem agreeOnSingles_iff (f g : Env → Nat) (n : Nat) :
    agreeOnSingles f g n = true ↔ ∀ i, i < n → ∀ b, b < 8 → f (single i b) = g (single i b) := by
  simp [agreeOnSingles, List.all_eq_true, List.mem_range]

/-- one-step packaging: OR-homomorphisms + Boolean check ⇒ equality on all byte lists -/
theorem OrHom.ext_list_of_agree {f g : Env → Nat} (hf : OrHom f) (hg : OrHom g) (n : Nat)
    (h : agreeOnSingles f g n = true) :
    ∀ l : List Nat, l.length ≤ n → (∀ x ∈ l, x < 256) → f (envL l) = g (envL l) :=
  hf.ext_list hg n ((agreeOnSingles_iff f g n).mp h)

/-! ## The `orhom` tactic -/

open Lean Meta Elab Tactic in
/-- `orhom_unfold` rewrites a goal `OrHom f` / `OrHom (fun e => c args)` whose function (body) is
headed by a user definition `c` into the goal with `c` delta-unfolded (and beta-reduced).  It
refuses to unfold operators (class projections such as `HAdd.hAdd`), so an unsupported shape is
left as the remaining goal instead of being unfolded into an instance implementation. -/
elab "orhom_unfold" : tactic => do
  let g ← getMainGoal
  g.withContext do
    let t ← whnfR (← instantiateMVars (← g.getType))
    unless t.isAppOfArity ``OrHom 1 do
      throwError "orhom: the goal is not of the form `OrHom f`"
    let unfoldHead (b : Expr) : MetaM Expr := do
      let some c := b.getAppFn.constName? | throwError "orhom: unsupported shape{indentExpr b}"
      -- operators (`HOr.hOr`, `HAdd.hAdd`, `OfNat.ofNat`, …) are structure projections: not ours
      if (← getProjectionFnInfo? c).isSome then throwError "orhom: unsupported shape{indentExpr b}"
      let some b' ← delta? b | throwError "orhom: cannot unfold{indentExpr b}"
      return b'.headBeta
    let f' ← match t.appArg!.eta with
      | .lam n d b bi => withLocalDecl n bi d fun x => do
          mkLambdaFVars #[x] (← unfoldHead (b.instantiate1 x))
      | f => unfoldHead f
    replaceMainGoal [← g.replaceTargetDefEq (mkApp t.appFn! f')]

/-- `orhom` proves `OrHom (fun e => t)` where `t` is built from byte reads `e i`, masks with
literals (either side), `|||`, `<<<`/`>>>` by a literal, and `% 2 ^ w`, by applying the closure
theorems `OrHom.byte/lor/shl/shr/modPow/andLit/litAnd` syntactically (reducible transparency: at
default transparency the unifier would try to evaluate `Nat.lor`/`<<<` on open terms and time
out).  A function given as a named definition is unfolded on the way (`orhom_unfold`), so
`orhom`, `unfold foo; orhom` and `show OrHom (fun e => _); orhom` all work. -/
syntax "orhom" : tactic

macro_rules
  | `(tactic| orhom) =>
    `(tactic|
      repeat' (first
        | with_reducible exact OrHom.byte _
        | with_reducible apply OrHom.lor
        | with_reducible apply OrHom.shl
        | with_reducible apply OrHom.shr
        | with_reducible apply OrHom.modPow
        | with_reducible apply OrHom.andLit
        | with_reducible apply OrHom.litAnd
        | orhom_unfold))

/-! ## Tests -/

section Test

def tsA (e : Env) : Nat :=
  ((e 0 &&& 0b0000_1110) <<< 29) ||| (e 1 <<< 22) ||| ((e 2 &&& 0b1111_1110) <<< 14) |||
    (e 3 <<< 7) ||| (e 4 >>> 1)

def tsB (e : Env) : Nat :=
  ((((e 0 >>> 1) &&& 7) <<< 30) % 2^64) ||| ((e 1 <<< 22) % 2^64) |||
    (((e 2 >>> 1) <<< 15) % 2^64) ||| ((e 3 <<< 7) % 2^64) ||| ((e 4 >>> 1) % 2^64)

/-- negative control: `tsA` with the wrong mask on byte 2 -/
def tsC (e : Env) : Nat :=
  ((e 0 &&& 0b0000_1110) <<< 29) ||| (e 1 <<< 22) ||| ((e 2 &&& 0b1111_1100) <<< 14) |||
    (e 3 <<< 7) ||| (e 4 >>> 1)

theorem tsA_orHom : OrHom tsA := by unfold tsA; orhom
theorem tsB_orHom : OrHom tsB := by unfold tsB; orhom

example : OrHom tsA := by show OrHom (fun e => _); orhom
example : OrHom tsA := by orhom
example : OrHom (fun e => 0xFF &&& e 3 ||| (e 1 &&& 0x1F) <<< 8) := by orhom

theorem tsA_tsB_agree : agreeOnSingles tsA tsB 5 = true := by decide +kernel

example : ∀ b0 b1 b2 b3 b4 : Nat, b0 < 256 → b1 < 256 → b2 < 256 → b3 < 256 → b4 < 256 →
    tsA (envL [b0,b1,b2,b3,b4]) = tsB (envL [b0,b1,b2,b3,b4]) := by
  intro b0 b1 b2 b3 b4 h0 h1 h2 h3 h4
  apply OrHom.ext_list tsA_orHom tsB_orHom 5 ((agreeOnSingles_iff _ _ _).mp tsA_tsB_agree)
  · simp
  · simp [h0, h1, h2, h3, h4]

/-- NEGATIVE control: the wrong mask is caught by the single-bit check -/
example : agreeOnSingles tsA tsC 5 = false := by decide +kernel

end Test

end Ts.Refl
