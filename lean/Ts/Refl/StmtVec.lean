import Ts.Basic
/-!
# Vocabulary of the statement-level translation of the PID table (`Ts/Gen/FiltersGen.lean`)

`Vec<T>` is a list; indexing and indexed assignment are checked (they panic where Rust's `v[i]` and
`v[i] = x` do); `for _ in a..=b` and `for x in v.drain(..)` are folds in the panic monad.
-/
namespace Ts.StmtVec
open Ts

/-- `v[i]` -/
def vecGet {α : Type} (v : List α) (i : Nat) : R α :=
  match v[i]? with
  | some x => .ok x
  | none => .panic "index out of bounds"

/-- `v[i] = x` -/
def vecSet {α : Type} (v : List α) (i : Nat) (x : α) : R (List α) :=
  if i < v.length then .ok (v.set i x) else .panic "index out of bounds"

/-- `for _ in 0..n { body }` on the mutable state `s` -/
def forN {σ : Type} : Nat → σ → (σ → R σ) → R σ
  | 0, s, _ => .ok s
  | n+1, s, f =>
    match f s with
    | .panic m => .panic m
    | .ok s' => forN n s' f

/-- `for x in v { body }` on the mutable state `s` -/
def forEach {α σ : Type} : List α → σ → (α → σ → R σ) → R σ
  | [], s, _ => .ok s
  | x :: xs, s, f =>
    match f x s with
    | .panic m => .panic m
    | .ok s' => forEach xs s' f

/-- `for x in <iterator> { body }`: the iterator's `next` and the loop body take turns (at most `fuel`
items; the iterators of this crate consume at least one byte per item) -/
def forIter {ι α σ : Type} (next : ι → R (ι × Option α)) : Nat → ι → σ → (α → σ → R σ) → R σ
  | 0, _, s, _ => .ok s
  | fuel+1, it, s, f =>
    match next it with
    | .panic m => .panic m
    | .ok (it', none) => .ok s
    | .ok (it', some x) =>
      match f x s with
      | .panic m => .panic m
      | .ok s' => forIter next fuel it' s' f

end Ts.StmtVec
