/-!
# Basic vocabulary of the model

* `Bytes` — byte strings are `List UInt8`.
* `R α` — the *panic monad*: every Rust operation that can unwind (index, slice, `unwrap`,
  `assert!`, asserting constructor, `usize` underflow …) is transcribed as a checked operation
  returning `R`.  Rust `Option`/`Result` values are ordinary data *inside* `R`.
  A functional theorem therefore has the shape `f x = R.ok (spec x)` and carries panic freedom.
-/
namespace Ts

abbrev Bytes := List UInt8

inductive R (α : Type) where
  | ok (a : α) : R α
  | panic (site : String) : R α
  deriving Repr

instance : Monad R where
  pure := R.ok
  bind x f := match x with
    | .ok a => f a
    | .panic s => .panic s

def R.isOk {α} : R α → Bool
  | .ok _ => true
  | .panic _ => false

@[simp] theorem R.pure_eq {α} (a : α) : (pure a : R α) = R.ok a := rfl
@[simp] theorem R.ok_bind {α β} (a : α) (f : α → R β) : (R.ok a >>= f) = f a := rfl
@[simp] theorem R.panic_bind {α β} (s : String) (f : α → R β) : (R.panic s >>= f) = R.panic s := rfl

/-- `b[i]` (bounds-checked index) as a number. -/
def byteAt (b : Bytes) (i : Nat) : R Nat :=
  match b[i]? with
  | some v => .ok v.toNat
  | none => .panic "index out of bounds"

/-- `&b[frm..to]` -/
def sliceR (b : Bytes) (frm to : Nat) : R Bytes :=
  if frm > to then .panic "slice index starts after end"
  else if to > b.length then .panic "range end index out of range"
  else .ok ((b.drop frm).take (to - frm))

/-- `&b[frm..]` -/
def sliceFrom (b : Bytes) (frm : Nat) : R Bytes :=
  if frm > b.length then .panic "range start index out of range" else .ok (b.drop frm)

/-- `&b[..to]` -/
def sliceTo (b : Bytes) (to : Nat) : R Bytes :=
  if to > b.length then .panic "range end index out of range" else .ok (b.take to)

/-- `assert!(c)` -/
def assertR (c : Bool) (site : String) : R Unit :=
  if c then .ok () else .panic site

/-- `a - b` on `usize` (debug builds / overflow checks panic on underflow) -/
def subR (a b : Nat) : R Nat :=
  if b ≤ a then .ok (a - b) else .panic "attempt to subtract with overflow"

/-- total byte read used only by *specifications* under an explicit length hypothesis -/
def byteD (b : Bytes) (i : Nat) : Nat := (b.getD i 0).toNat

theorem byteAt_ok (b : Bytes) (i : Nat) (h : i < b.length) : byteAt b i = .ok (byteD b i) := by
  unfold byteAt byteD
  simp [List.getElem?_eq_getElem h, List.getD_eq_getElem?_getD]

theorem byteD_lt (b : Bytes) (i : Nat) : byteD b i < 256 := by
  unfold byteD; exact UInt8.toNat_lt _

theorem sliceR_ok (b : Bytes) (a n : Nat) (h : a + n ≤ b.length) :
    sliceR b a (a + n) = .ok ((b.drop a).take n) := by
  unfold sliceR
  have h1 : ¬ (a > a + n) := by omega
  have h2 : ¬ (a + n > b.length) := by omega
  simp [h1, h2]

theorem sliceFrom_ok (b : Bytes) (a : Nat) (h : a ≤ b.length) : sliceFrom b a = .ok (b.drop a) := by
  unfold sliceFrom
  have : ¬ a > b.length := by omega
  simp [this]

theorem sliceTo_ok (b : Bytes) (a : Nat) (h : a ≤ b.length) : sliceTo b a = .ok (b.take a) := by
  unfold sliceTo
  have : ¬ a > b.length := by omega
  simp [this]

theorem byteD_drop (b : Bytes) (a i : Nat) : byteD (b.drop a) i = byteD b (a + i) := by
  unfold byteD; simp [List.getD_eq_getElem?_getD]

theorem byteD_take (b : Bytes) (n i : Nat) (h : i < n) : byteD (b.take n) i = byteD b i := by
  unfold byteD; simp [List.getD_eq_getElem?_getD, h]

/-! ### hexadecimal (driver I/O only) -/

def hexDigit (n : Nat) : Char :=
  if n < 10 then Char.ofNat (48 + n) else Char.ofNat (87 + n)

def hexOfBytes (b : Bytes) : String :=
  String.ofList (b.foldr (fun x acc => hexDigit (x.toNat / 16) :: hexDigit (x.toNat % 16) :: acc) [])

def hexVal (c : Char) : Nat :=
  let n := c.toNat
  if 48 ≤ n ∧ n ≤ 57 then n - 48
  else if 97 ≤ n ∧ n ≤ 102 then n - 87
  else if 65 ≤ n ∧ n ≤ 70 then n - 55
  else 0

def bytesOfHexAux : List Char → Bytes → Bytes
  | a :: b :: rest, acc => bytesOfHexAux rest (UInt8.ofNat (hexVal a * 16 + hexVal b) :: acc)
  | _, acc => acc.reverse

def bytesOfHex (s : String) : Bytes :=
  if s == "-" then [] else bytesOfHexAux s.toList []

end Ts
