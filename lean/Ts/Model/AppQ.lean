import Ts.Model.App
import Ts.Model.DemuxQ
/-!
# The concrete application with a `construct` that queues changes (`demuxq` / `cutsq` ops)

The harness application of `Ts/Model/App.lean`, plus a *construct script*: when the dispatcher asks
for a handler for an unannounced PID `p` (`FilterRequest::ByPid(p)`) and the script has an entry for
`p`, the application pushes those insert / remove requests on its `FilterChangeset` from inside
`construct` — which the library permits (`construct` receives the context).  Run on the dispatcher
with the pending changeset made explicit (`Ts/Model/DemuxQ.lean`).
-/
namespace Ts.AppQ
open Ts Ts.Demux Ts.DemuxQ Ts.App

/-- `HCtx::construct(ByPid(pid))` with the construct script `cs` -/
def constructP (cs : List (Nat × List ScriptOp)) (c : Ctx) (pid : Nat) : Handler × Ctx × List (Change Handler) :=
  let (h, c1) := construct c (.byPid pid)
  match cs.lookup pid with
  | some ops =>
    let (c2, chg) := scriptChanges c1 ops
    (h, c2, chg)
  | none => (h, c1, [])

def constructQ (cs : List (Nat × List ScriptOp)) (c : Ctx) (pid : Nat) : R (Handler × Ctx × List (Change Handler)) :=
  .ok (constructP cs c pid)

def semQ (cs : List (Nat × List ScriptOp)) : SemQ Handler Ctx where
  consume := App.consume
  construct := constructQ cs

/-- `Demultiplex::new`: the PAT handler is requested through the same `construct`; what it queues is
pending when the first `push` starts -/
def initQ (cfg : Cfg) (cs : List (Nat × List ScriptOp)) : StQ Handler Ctx :=
  let r := constructP cs { cfg := cfg } 0
  (Tab.insert [] 0 r.1, r.2.1, r.2.2)

def runAppQ (cfg : Cfg) (cs : List (Nat × List ScriptOp)) (pushes : List Bytes) : R (StQ Handler Ctx) :=
  pushAllQ (semQ cs) (initQ cfg cs) pushes 0

end Ts.AppQ
