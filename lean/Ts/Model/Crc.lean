import Ts.Basic
import Ts.Gen.CrcTable
/-!
# Model of `mpegts_crc::sum32` (`mpegts_crc.rs:38-49`)

The table, the preset and the shift/mask constants are *regenerated from the source on every run*
(`Ts/Gen/CrcTable.lean`), so every theorem about `sum32` is re-checked against what the code says now.
`u32` wrap-around of `crc << 8` is modelled by `% 2^32`.
-/
namespace Ts.Crc
open Ts

def M : Nat := 4294967296

/-- `CRC_TABLE[index as usize]` (bounds-checked) -/
def tableAt (i : Nat) : R Nat :=
  match Ts.Gen.crcTable[i]? with
  | some v => .ok v
  | none => .panic "index out of bounds"

/-- one iteration of the loop body -/
def step (crc d : Nat) : R Nat := do
  let index := ((crc >>> Ts.Gen.crcIdxShift) ^^^ d) &&& Ts.Gen.crcIdxMask
  let t ← tableAt index
  pure (((crc <<< Ts.Gen.crcUpdShift) % M) ^^^ t)

def sum32From (crc : Nat) : Bytes → R Nat
  | [] => .ok crc
  | d :: ds => do let c ← step crc d.toNat; sum32From c ds

def sum32 (data : Bytes) : R Nat := sum32From Ts.Gen.crcInit data

end Ts.Crc
