import Ts.Basic
import Ts.Model.Packet
import Ts.Model.Demux
/-!
# The dispatcher with the pending changeset made explicit (`demultiplex.rs`, `Demultiplex::push`)

`Ts/Model/Demux.lean` models `push` for applications whose `DemuxContext::construct` queues nothing
and whose `FilterChangeset` is empty whenever `push` is entered: there a handler's `consume` returns
the changes it queued and the loop applies them at once.  The real loop is more general: the
changeset lives in the application context, `construct` receives that context too and may queue
changes of its own (`add_pid_filter` → `ctx.construct(FilterRequest::ByPid(..))`), and the loop looks
at the changeset only after a packet has been *consumed* — so changes queued while constructing the
handler of a packet that is then dropped (transport_error_indicator / scrambled) stay pending, across
further dropped packets, across `continue 'outer`, and across the end of `push` into the next call,
until the next consumed packet; that packet is still dispatched by the table as it was.

This file transcribes exactly that: the state is `(table, context, pending changes)`.
`Ts/Lemmas/DemuxQ.lean` proves the refinement to the one-packet-at-a-time specification and
chunking irrelevance for it, and that it coincides with `Ts.Demux` when `construct` queues nothing
and nothing is pending on entry.
-/
namespace Ts.DemuxQ
open Ts Ts.Demux

structure SemQ (H C : Type) where
  /-- `handler.consume(ctx, pk)`: new handler state, new context, changes pushed on `ctx.filter_changeset()` -/
  consume : H → C → Pk → R (H × C × List (Change H))
  /-- `ctx.construct(FilterRequest::ByPid(pid))`: may push changes as well -/
  construct : C → Nat → R (H × C × List (Change H))

variable {H C : Type}

/-- table, context, pending changes (`ctx.filter_changeset().updates`, oldest first) -/
abbrev StQ (H C : Type) := Tab H × C × List (Change H)

/-- lookup-or-construct (`contains` / `add_pid_filter`); what `construct` queues stays pending -/
def ensureQ (sem : SemQ H C) (t : Tab H) (c : C) (q : List (Change H)) (pid : Nat) : R (StQ H C) :=
  if t.contains pid then .ok (t, c, q)
  else
    match sem.construct c pid with
    | .panic s => .panic s
    | .ok (h, c', chg) => .ok (t.insert pid h, c', q ++ chg)

/-! ### SPEC: one packet at a time -/

def specStepQ (sem : SemQ H C) (st : StQ H C) (pk : Pk) : R (StQ H C) :=
  match ensureQ sem st.1 st.2.1 st.2.2 pk.pid with
  | .panic s => .panic s
  | .ok (t, c, q) =>
    if pk.flagged then .ok (t, c, q)
    else
      match t.get pk.pid with
      | none => .panic "called `Option::unwrap()` on a `None` value"
      | some h =>
        match sem.consume h c pk with
        | .panic s => .panic s
        | .ok (h', c', chg) =>
          -- everything pending (from earlier `construct`s and from this `consume`) is applied, in order
          .ok (applyChanges (t.insert pk.pid h') (q ++ chg), c', [])

def pushSpecQ (sem : SemQ H C) (st : StQ H C) : List Pk → R (StQ H C)
  | [] => .ok st
  | pk :: rest =>
    match specStepQ sem st pk with
    | .panic s => .panic s
    | .ok st' => pushSpecQ sem st' rest

/-! ### MODEL: transcription of the two labelled loops -/

def innerQ (sem : SemQ H C) (thisPid : Nat) (t : Tab H) (c : C) (q : List (Change H)) (pk : Pk) (rest : List Pk)
    (outerK : Tab H → C → List (Change H) → Pk → List Pk → R (StQ H C)) : Nat → R (StQ H C)
  | 0 => .ok (t, c, q)
  | fuel+1 =>
    if pk.flagged then
      match rest with
      | [] => .ok (t, c, q)
      | p :: rest' =>
        if p.pid != thisPid then outerK t c q p rest'
        else innerQ sem thisPid t c q p rest' outerK fuel
    else
      match t.get thisPid with
      | none => .panic "called `Option::unwrap()` on a `None` value"
      | some h =>
        match sem.consume h c pk with
        | .panic s => .panic s
        | .ok (h', c', chg) =>
          let t' := t.insert thisPid h'
          let q' := q ++ chg
          if q'.isEmpty then
            match rest with
            | [] => .ok (t', c', [])
            | p :: rest' =>
              if p.pid != thisPid then outerK t' c' [] p rest'
              else innerQ sem thisPid t' c' [] p rest' outerK fuel
          else
            -- `break 'inner`; `apply` drains the changeset
            let t'' := applyChanges t' q'
            match rest with
            | [] => .ok (t'', c', [])
            | p :: rest' => outerK t'' c' [] p rest'

def outerQ (sem : SemQ H C) : Nat → Tab H → C → List (Change H) → Pk → List Pk → R (StQ H C)
  | 0, t, c, q, _, _ => .ok (t, c, q)
  | fuel+1, t, c, q, pk, rest =>
    match ensureQ sem t c q pk.pid with
    | .panic s => .panic s
    | .ok (t1, c1, q1) => innerQ sem pk.pid t1 c1 q1 pk rest (outerQ sem fuel) (fuel+1)

def pushModelQ (sem : SemQ H C) (st : StQ H C) : List Pk → R (StQ H C)
  | [] => .ok st
  | pk :: rest => outerQ sem (rest.length + 1) st.1 st.2.1 st.2.2 pk rest

/-- `Demultiplex::push` -/
def pushQ (sem : SemQ H C) (st : StQ H C) (buf : Bytes) (base : Nat) : R (StQ H C) :=
  match frame buf base with
  | .panic s => .panic s
  | .ok pks => pushModelQ sem st pks

/-- successive `push` calls; what is pending at the end of one call is pending at the start of the next -/
def pushAllQ (sem : SemQ H C) (st : StQ H C) : List Bytes → Nat → R (StQ H C)
  | [], _ => .ok st
  | b :: bs, base =>
    match pushQ sem st b base with
    | .panic s => .panic s
    | .ok st' => pushAllQ sem st' bs (base + b.length)

/-- an application whose `construct` queues nothing -/
def SemQ.ofSem (sem : Sem H C) : SemQ H C where
  consume := sem.consume
  construct := fun c pid =>
    match sem.construct c pid with
    | .panic s => .panic s
    | .ok (h, c') => .ok (h, c', [])

end Ts.DemuxQ
