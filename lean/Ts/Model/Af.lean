import Ts.Basic
import Ts.Model.Time
/-!
# Model of `packet::AdaptationField` and `AdaptationFieldExtension` (`packet.rs:158-389`)
-/
namespace Ts.Af
open Ts Ts.Time

inductive AfErr where
  | fieldNotPresent
  | notEnoughData
  | spliceTimestampError (e : TsErr)
  deriving DecidableEq, Repr

abbrev Res (α : Type) := Except AfErr α

/-- `AdaptationField::new`: asserts non-empty -/
def new (buf : Bytes) : R Bytes := do
  assertR (!buf.isEmpty) "assert!(!buf.is_empty())"
  pure buf

def flags (buf : Bytes) : R Nat := byteAt buf 0
def discontinuity (buf : Bytes) : R Bool := do let f ← flags buf; pure (f &&& 0b1000_0000 != 0)
def randomAccess (buf : Bytes) : R Bool := do let f ← flags buf; pure (f &&& 0b0100_0000 != 0)
def esPriority (buf : Bytes) : R Nat := do let f ← flags buf; pure ((f &&& 0b10_0000) >>> 5)
def pcrFlag (f : Nat) : Bool := f &&& 0b1_0000 != 0
def opcrFlag (f : Nat) : Bool := f &&& 0b1000 != 0
def spliceFlag (f : Nat) : Bool := f &&& 0b100 != 0
def privFlag (f : Nat) : Bool := f &&& 0b10 != 0
def extFlag (f : Nat) : Bool := f &&& 0b1 != 0

/-- `AdaptationField::slice` / `AdaptationFieldExtension::slice` -/
def slice (buf : Bytes) (frm to : Nat) : R (Res Bytes) :=
  if to > buf.length then .ok (.error .notEnoughData)
  else do let s ← sliceR buf frm to; pure (.ok s)

def PCR_SIZE : Nat := 6

def pcr (buf : Bytes) : R (Res ClockRef) := do
  let f ← flags buf
  if pcrFlag f then
    match ← slice buf 1 (1 + PCR_SIZE) with
    | .ok s => do let c ← crefFromSlice s; pure (.ok c)
    | .error e => pure (.error e)
  else pure (.error .fieldNotPresent)

def opcrOffset (f : Nat) : Nat := if pcrFlag f then 1 + PCR_SIZE else 1

def opcr (buf : Bytes) : R (Res ClockRef) := do
  let f ← flags buf
  if opcrFlag f then
    let off := opcrOffset f
    match ← slice buf off (off + PCR_SIZE) with
    | .ok s => do let c ← crefFromSlice s; pure (.ok c)
    | .error e => pure (.error e)
  else pure (.error .fieldNotPresent)

def spliceOffset (f : Nat) : Nat := opcrOffset f + if opcrFlag f then PCR_SIZE else 0

def spliceCountdown (buf : Bytes) : R (Res Nat) := do
  let f ← flags buf
  if spliceFlag f then
    let off := spliceOffset f
    match ← slice buf off (off + 1) with
    | .ok s => do let v ← byteAt s 0; pure (.ok v)
    | .error e => pure (.error e)
  else pure (.error .fieldNotPresent)

def privOffset (f : Nat) : Nat := spliceOffset f + if spliceFlag f then 1 else 0

def privateData (buf : Bytes) : R (Res Bytes) := do
  let f ← flags buf
  if privFlag f then
    let off := privOffset f
    match ← slice buf off (off + 1) with
    | .error e => pure (.error e)
    | .ok s => do
      let len ← byteAt s 0
      slice buf (off + 1) (off + 1 + len)
  else pure (.error .fieldNotPresent)

def extOffset (buf : Bytes) (f : Nat) : R (Res Nat) := do
  let off := privOffset f
  if privFlag f then
    match ← slice buf off (off + 1) with
    | .error e => pure (.error e)
    | .ok s => do let len ← byteAt s 0; pure (.ok (off + (len + 1)))
  else pure (.ok (off + 0))

/-- `AdaptationFieldExtension::new` -/
def extNew (buf : Bytes) : Res Bytes :=
  if buf.isEmpty then .error .notEnoughData else .ok buf

def extension (buf : Bytes) : R (Res Bytes) := do
  let f ← flags buf
  if extFlag f then
    match ← extOffset buf f with
    | .error e => pure (.error e)
    | .ok off =>
      match ← slice buf off (off + 1) with
      | .error e => pure (.error e)
      | .ok s => do
        let len ← byteAt s 0
        match ← slice buf (off + 1) (off + 1 + len) with
        | .error e => pure (.error e)
        | .ok e => pure (extNew e)
  else pure (.error .fieldNotPresent)

/-! ### extension -/

def ltwFlag (f : Nat) : Bool := f &&& 0b1000_0000 != 0
def piecewiseFlag (f : Nat) : Bool := f &&& 0b0100_0000 != 0
def seamlessFlag (f : Nat) : Bool := f &&& 0b0010_0000 != 0

/-- `ltw_offset`: `Ok(None)` when the valid flag is clear -/
def ltwOffset (buf : Bytes) : R (Res (Option Nat)) := do
  let f ← flags buf
  if ltwFlag f then
    match ← slice buf 1 3 with
    | .error e => pure (.error e)
    | .ok dat => do
      let d0 ← byteAt dat 0
      let valid := d0 &&& 0b1000_0000 != 0
      if valid then do
        let d0' ← byteAt dat 0
        let d1 ← byteAt dat 1
        pure (.ok (some (((d0' &&& 0b0111_1111) <<< 8) ||| d1)))
      else pure (.ok none)
  else pure (.error .fieldNotPresent)

def piecewiseOffset (f : Nat) : Nat := 1 + if ltwFlag f then 2 else 0

def piecewiseRate (buf : Bytes) : R (Res Nat) := do
  let f ← flags buf
  if piecewiseFlag f then
    let off := piecewiseOffset f
    match ← slice buf off (off + 3) with
    | .error e => pure (.error e)
    | .ok dat => do
      let d0 ← byteAt dat 0; let d1 ← byteAt dat 1; let d2 ← byteAt dat 2
      pure (.ok (((d0 &&& 0b0011_1111) <<< 16) ||| (d1 <<< 8) ||| d2))
  else pure (.error .fieldNotPresent)

def seamlessOffset (f : Nat) : Nat := piecewiseOffset f + if piecewiseFlag f then 3 else 0

/-- `seamless_splice`: `(splice_type, dts_next_au)` -/
def seamlessSplice (buf : Bytes) : R (Res (Nat × Nat)) := do
  let f ← flags buf
  if seamlessFlag f then
    let off := seamlessOffset f
    match ← slice buf off (off + 5) with
    | .error e => pure (.error e)
    | .ok dat => do
      let d0 ← byteAt dat 0
      let spliceType := d0 >>> 4
      match ← fromBytes dat with
      | .error e => pure (.error (.spliceTimestampError e))
      | .ok v => pure (.ok (spliceType, v))
  else pure (.error .fieldNotPresent)

end Ts.Af
