import Ts.Basic
import Ts.Model.Packet
/-!
# Model of the dispatcher: `Filters`, `FilterChangeset`, `Demultiplex::push`
(`demultiplex.rs:162-273, 599-680`, repaired tree: fix F6)

Generic in the handler type `H` and application context `C` (`Sem`).  A handler's `consume`
returns the changes it queued on the (empty on entry) `FilterChangeset`.
-/
namespace Ts.Demux
open Ts

/-- a transport packet that passed `try_new`, with the header fields `push` looks at -/
structure Pk where
  bytes : Bytes
  off : Nat          -- byte offset of the packet in the concatenation of everything pushed so far
  pid : Nat
  tei : Bool
  scrambled : Bool
  deriving DecidableEq, Repr

def Pk.flagged (p : Pk) : Bool := p.tei || p.scrambled

inductive Change (H : Type) where
  | insert (pid : Nat) (h : H)
  | remove (pid : Nat)

structure Sem (H C : Type) where
  consume : H → C → Pk → R (H × C × List (Change H))
  /-- `ctx.construct(FilterRequest::ByPid(pid))` -/
  construct : C → Nat → R (H × C)

/-- `Filters::filters_by_pid` -/
abbrev Tab (H : Type) := List (Option H)

variable {H C : Type}

def Tab.contains (t : Tab H) (pid : Nat) : Bool :=
  pid < t.length && (match t[pid]? with | some (some _) => true | _ => false)

def Tab.get (t : Tab H) (pid : Nat) : Option H :=
  if pid ≥ t.length then none else (match t[pid]? with | some o => o | none => none)

/-- `Filters::insert`: grow with `None` up to and including `pid`, then store -/
def Tab.insert (t : Tab H) (pid : Nat) (h : H) : Tab H :=
  let t' := if pid ≥ t.length then t ++ List.replicate (pid - t.length + 1) none else t
  t'.set pid (some h)

def Tab.remove (t : Tab H) (pid : Nat) : Tab H :=
  if pid < t.length then t.set pid none else t

def applyChange (t : Tab H) : Change H → Tab H
  | .insert p h => t.insert p h
  | .remove p => t.remove p

/-- `FilterChangeset::apply`: drain in order -/
def applyChanges (t : Tab H) (cs : List (Change H)) : Tab H := cs.foldl applyChange t

/-- lookup-or-construct (`contains` / `add_pid_filter`) -/
def ensure (sem : Sem H C) (t : Tab H) (c : C) (pid : Nat) : R (Tab H × C) :=
  if t.contains pid then .ok (t, c)
  else do
    let (h, c') ← sem.construct c pid
    pure (t.insert pid h, c')

/-! ### SPEC: one packet at a time -/

def specStep (sem : Sem H C) (tc : Tab H × C) (pk : Pk) : R (Tab H × C) := do
  let (t, c) ← ensure sem tc.1 tc.2 pk.pid
  if pk.flagged then pure (t, c)
  else
    match t.get pk.pid with
    | none => .panic "called `Option::unwrap()` on a `None` value"
    | some h => do
      let (h', c', chg) ← sem.consume h c pk
      pure (applyChanges (t.insert pk.pid h') chg, c')

def pushSpec (sem : Sem H C) (tc : Tab H × C) : List Pk → R (Tab H × C)
  | [] => .ok tc
  | pk :: rest => do
    let tc' ← specStep sem tc pk
    pushSpec sem tc' rest

/-! ### MODEL: transcription of the two labelled loops

`inner` works on the slot `thisPid` cached by `outer` (the `this_proc` borrow); `outerK` is the
continuation for `continue 'outer` / falling out of `'inner`. -/

def inner (sem : Sem H C) (thisPid : Nat) (t : Tab H) (c : C) (pk : Pk) (rest : List Pk)
    (outerK : Tab H → C → Pk → List Pk → R (Tab H × C)) : Nat → R (Tab H × C)
  | 0 => .ok (t, c)
  | fuel+1 =>
    if pk.flagged then
      match rest with
      | [] => .ok (t, c)
      | p :: rest' =>
        if p.pid != thisPid then outerK t c p rest'
        else inner sem thisPid t c p rest' outerK fuel
    else
      match t.get thisPid with
      | none => .panic "called `Option::unwrap()` on a `None` value"
      | some h =>
        match sem.consume h c pk with
        | .panic s => .panic s
        | .ok (h', c', chg) =>
          let t' := t.insert thisPid h'
          if chg.isEmpty then
            match rest with
            | [] => .ok (t', c')
            | p :: rest' =>
              if p.pid != thisPid then outerK t' c' p rest'
              else inner sem thisPid t' c' p rest' outerK fuel
          else
            let t'' := applyChanges t' chg
            match rest with
            | [] => .ok (t'', c')
            | p :: rest' => outerK t'' c' p rest'

def outer (sem : Sem H C) : Nat → Tab H → C → Pk → List Pk → R (Tab H × C)
  | 0, t, c, _, _ => .ok (t, c)
  | fuel+1, t, c, pk, rest =>
    match ensure sem t c pk.pid with
    | .panic s => .panic s
    | .ok (t1, c1) => inner sem pk.pid t1 c1 pk rest (outer sem fuel) (fuel+1)

def pushModel (sem : Sem H C) (tc : Tab H × C) : List Pk → R (Tab H × C)
  | [] => .ok tc
  | pk :: rest => outer sem (rest.length + 1) tc.1 tc.2 pk rest

/-! ### framing: `chunks_exact(188)` + `filter_map(try_new)` -/

/-- `chunks_exact(n)` (the remainder is dropped) -/
def chunksExact (n : Nat) : Nat → Bytes → List Bytes
  | 0, _ => []
  | fuel+1, b => if n == 0 then [] else if b.length < n then [] else b.take n :: chunksExact n fuel (b.drop n)

def mkPk (bytes : Bytes) (off : Nat) : R (Option Pk) := do
  match ← Packet.tryNew bytes with
  | none => pure none
  | some b => do
    let pid ← Packet.pid b
    let tei ← Packet.tei b
    let b3 ← Packet.byte3 b
    pure (some ⟨b, off, pid, tei, Packet.isScrambled b3⟩)

def framePks : List Bytes → Nat → R (List Pk)
  | [], _ => .ok []
  | ch :: chs, off => do
    let r ← mkPk ch off
    let rest ← framePks chs (off + 188)
    match r with
    | some pk => pure (pk :: rest)
    | none => pure rest

/-- the packets `push(buf)` iterates over; `base` = bytes pushed before this call -/
def frame (buf : Bytes) (base : Nat) : R (List Pk) :=
  framePks (chunksExact 188 (buf.length / 188 + 1) buf) base

/-- `Demultiplex::push` -/
def push (sem : Sem H C) (tc : Tab H × C) (buf : Bytes) (base : Nat) : R (Tab H × C) := do
  let pks ← frame buf base
  pushModel sem tc pks

/-- successive `push` calls -/
def pushAll (sem : Sem H C) (tc : Tab H × C) : List Bytes → Nat → R (Tab H × C)
  | [], _ => .ok tc
  | b :: bs, base => do
    let tc' ← push sem tc b base
    pushAll sem tc' bs (base + b.length)

end Ts.Demux
