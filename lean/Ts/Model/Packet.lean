import Ts.Basic
/-!
# Model of `packet.rs`: `Packet` fixed header, adaptation-field / payload split

Transcribed from `/repo/src/packet.rs:516-703`.  A packet is the 188-byte list `p`
(`Packet::new`/`try_new` assert the length); ranges are `(offset, length)` into `p`.
-/
namespace Ts.Packet
open Ts

def SIZE : Nat := 188
def FIXED_HEADER_SIZE : Nat := 4
def ADAPTATION_FIELD_OFFSET : Nat := FIXED_HEADER_SIZE + 1
def SYNC_BYTE : Nat := 0x47

/-- `Packet::try_new`: panics unless 188 bytes; `none` on a bad sync byte -/
def tryNew (buf : Bytes) : R (Option Bytes) := do
  assertR (buf.length == SIZE) "assert_eq!(buf.len(), Self::SIZE)"
  let b0 ← byteAt buf 0
  if b0 == SYNC_BYTE then pure (some buf) else pure none

def tei (p : Bytes) : R Bool := do let b ← byteAt p 1; pure (b &&& 0b1000_0000 != 0)
def pusi (p : Bytes) : R Bool := do let b ← byteAt p 1; pure (b &&& 0b0100_0000 != 0)
def prio (p : Bytes) : R Bool := do let b ← byteAt p 1; pure (b &&& 0b0010_0000 != 0)
/-- `Pid(u16::from(buf[1] & 0x1f) << 8 | u16::from(buf[2]))` -/
def pid (p : Bytes) : R Nat := do
  let b1 ← byteAt p 1; let b2 ← byteAt p 2
  pure (((b1 &&& 0b0001_1111) <<< 8) ||| b2)
/-- byte 3, from which scrambling control, adaptation control and the counter derive -/
def byte3 (p : Bytes) : R Nat := byteAt p 3
def isScrambled (b3 : Nat) : Bool := b3 &&& 0b1100_0000 != 0
/-- `scheme()`: `NonZeroU8::new(b3 >> 6)`; 0 stands for `None` -/
def scheme (b3 : Nat) : Nat := b3 >>> 6
/-- the byte an `AdaptationControl` value stores (what `==` compares and `Debug` prints): the two
bits of `adaptation_field_control` in place, every other bit of header byte 3 cleared (repaired
tree; the pinned tree stored the whole byte, finding F11) -/
def adaptationControlRepr (b3 : Nat) : Nat := b3 &&& 0b0011_0000
/-- likewise for `TransportScramblingControl`: the two scrambling bits in place -/
def scramblingControlRepr (b3 : Nat) : Nat := b3 &&& 0b1100_0000
def hasPayload (b3 : Nat) : Bool := b3 &&& 0b0001_0000 != 0
def hasAf (b3 : Nat) : Bool := b3 &&& 0b0010_0000 != 0
/-- `ContinuityCounter::new(buf[3] & 0xf)` (asserts `< 16`) -/
def cc (p : Bytes) : R Nat := do
  let b ← byteAt p 3
  let v := b &&& 0b0000_1111
  assertR (v < 0b10000) "assert!(count < 0b10000)"
  pure v
def afLen (p : Bytes) : R Nat := byteAt p 4

/-- `mk_af`: `AdaptationField::new(&buf[5..5+len])` asserts non-empty -/
def mkAf (p : Bytes) (len : Nat) : R (Nat × Nat) := do
  let s ← sliceR p ADAPTATION_FIELD_OFFSET (ADAPTATION_FIELD_OFFSET + len)
  assertR (!s.isEmpty) "assert!(!buf.is_empty())"
  pure (ADAPTATION_FIELD_OFFSET, len)

/-- `Packet::adaptation_field` as a range -/
def afRange (p : Bytes) : R (Option (Nat × Nat)) := do
  let b3 ← byte3 p
  if hasAf b3 then
    if hasPayload b3 then
      let len ← afLen p
      if len > 182 then pure none
      else if len == 0 then pure none
      else do let r ← mkAf p len; pure (some r)
    else
      let len ← afLen p
      if len != (SIZE - ADAPTATION_FIELD_OFFSET) then pure none
      else do let r ← mkAf p len; pure (some r)
  else pure none

def contentOffset (p : Bytes) : R Nat := do
  let b3 ← byte3 p
  if hasAf b3 then do let l ← afLen p; pure (ADAPTATION_FIELD_OFFSET + l)
  else pure FIXED_HEADER_SIZE

/-- `mk_payload` -/
def mkPayload (p : Bytes) : R (Option (Nat × Nat)) := do
  let offset ← contentOffset p
  let len := p.length
  if offset == len then pure none
  else if offset > len then pure none
  else do
    let _ ← sliceFrom p offset
    pure (some (offset, len - offset))

/-- `Packet::payload` as a range -/
def payloadRange (p : Bytes) : R (Option (Nat × Nat)) := do
  let b3 ← byte3 p
  if hasPayload b3 then mkPayload p else pure none

def rangeBytes (p : Bytes) (r : Nat × Nat) : Bytes := (p.drop r.1).take r.2

/-- `Packet::payload` as bytes -/
def payload (p : Bytes) : R (Option Bytes) := do
  match ← payloadRange p with
  | some r => pure (some (rangeBytes p r))
  | none => pure none

/-- `Packet::adaptation_field` as bytes -/
def af (p : Bytes) : R (Option Bytes) := do
  match ← afRange p with
  | some r => pure (some (rangeBytes p r))
  | none => pure none

/-- `ContinuityCounter::follows` : `(other.val + 1) & 0b1111 == self.val` -/
def follows (self other : Nat) : Bool := (other + 1) &&& 0b1111 == self

end Ts.Packet
