import Ts.Basic
import Ts.Model.Packet
import Ts.Model.Crc
/-!
# Model of `psi/mod.rs`: `SectionPacketConsumer` → `{Section,Compact}SyntaxSectionProcessor`
→ [`DedupSectionSyntaxPayloadParser`] → `Buffer{Section,Compact}SyntaxParser` → [`CrcCheck…`]

Whole-section callbacks are returned as a list of deliveries (at most two per transport packet:
one completed by the `pointer_field` remainder, one started in the packet).
-/
namespace Ts.Psi
open Ts Ts.Packet

structure Cfg where
  sectionSyntax : Bool   -- SectionSyntaxSectionProcessor vs CompactSyntaxSectionProcessor
  dedup : Bool           -- DedupSectionSyntaxPayloadParser in the chain
  deriving DecidableEq, Repr

def rawSection : Cfg := ⟨true, false⟩
def rawCompact : Cfg := ⟨false, false⟩
def table : Cfg := ⟨true, true⟩

structure St where
  ignoreRest : Bool := false          -- processor layer
  lastVersion : Option Nat := none    -- dedup layer
  dedupIgnore : Bool := false
  buf : Bytes := []                   -- buffer layer
  remaining : Option Nat := none      -- `Buffering(n)`; `none` = `Complete`
  deriving DecidableEq, Repr

structure Delivery where
  bytes : Bytes
  inplace : Option Nat      -- offset inside the transport packet when delivered without copying
  deriving DecidableEq, Repr

def SECTION_LIMIT : Nat := 1021
def COMMON : Nat := 3
def TSH : Nat := 5

structure Header where
  tableId : Nat
  syntaxInd : Bool
  privateInd : Bool
  sectionLength : Nat
  deriving DecidableEq, Repr

/-- `SectionCommonHeader::new` -/
def headerNew (b : Bytes) : R Header := do
  assertR (b.length == COMMON) "assert_eq!(buf.len(), Self::SIZE)"
  let b0 ← byteAt b 0; let b1 ← byteAt b 1; let b1' ← byteAt b 1; let b1'' ← byteAt b 1; let b2 ← byteAt b 2
  pure ⟨b0, b1 &&& 0b1000_0000 != 0, b1' &&& 0b0100_0000 != 0, ((b1'' &&& 0b0000_1111) <<< 8) ||| b2⟩

/-- `TableSyntaxHeader::new(..).version()` -/
def tshVersion (b : Bytes) : R Nat := do
  assertR (b.length ≥ TSH) "assert!(buf.len() >= Self::SIZE)"
  let b2 ← byteAt b 2
  pure ((b2 >>> 1) &&& 0b0001_1111)

/-- `Buffer…::start_*_section`; `off` = offset of `data` inside the packet -/
def bufStart (s : St) (h : Header) (data : Bytes) (off : Nat) : R (St × List Delivery) := do
  let slwh := h.sectionLength + COMMON
  if slwh ≤ data.length then do
    let d ← sliceTo data slwh
    pure ({ s with remaining := none }, [⟨d, some off⟩])
  else do
    let toRead ← subR slwh data.length
    pure ({ s with buf := data, remaining := some toRead }, [])

/-- `Buffer…::continue_*_section` -/
def bufContinue (cfg : Cfg) (s : St) (data : Bytes) : R (St × List Delivery) :=
  match s.remaining with
  | none => pure (s, [])
  | some remaining => do
    let newRemaining ← (if data.length > remaining then pure 0 else subR remaining data.length)
    if newRemaining == 0 then do
      let part ← sliceTo data remaining
      let buf := s.buf ++ part
      let hb ← sliceTo buf COMMON
      let _h ← headerNew hb
      if cfg.sectionSyntax then do
        let tb ← sliceFrom buf COMMON
        assertR (tb.length ≥ TSH) "assert!(buf.len() >= Self::SIZE)"
      pure ({ s with buf := buf, remaining := none }, [⟨buf, none⟩])
    else
      pure ({ s with buf := s.buf ++ data, remaining := some newRemaining }, [])

def bufReset (s : St) : St := { s with buf := [], remaining := none }

/-- dedup layer `start_syntax_section` (or straight through when not configured) -/
def dedupStart (cfg : Cfg) (s : St) (h : Header) (data : Bytes) (off : Nat) : R (St × List Delivery) := do
  if cfg.dedup then do
    let tb ← sliceFrom data COMMON
    let v ← tshVersion tb
    if s.lastVersion == some v then pure ({ s with dedupIgnore := true }, [])
    else bufStart { s with dedupIgnore := false, lastVersion := some v } h data off
  else bufStart s h data off

def dedupContinue (cfg : Cfg) (s : St) (data : Bytes) : R (St × List Delivery) :=
  if cfg.dedup && s.dedupIgnore then pure (s, []) else bufContinue cfg s data

def dedupReset (cfg : Cfg) (s : St) : St :=
  if cfg.dedup then { bufReset s with lastVersion := none, dedupIgnore := false } else bufReset s

/-- `{Section,Compact}SyntaxSectionProcessor::start_section` -/
def procStart (cfg : Cfg) (s : St) (h : Header) (data : Bytes) (off : Nat) : R (St × List Delivery) := do
  if cfg.sectionSyntax then do
    if !h.syntaxInd then pure ({ s with ignoreRest := true }, [])
    else if data.length < COMMON + TSH then pure ({ s with ignoreRest := true }, [])
    else if h.sectionLength > SECTION_LIMIT then pure ({ s with ignoreRest := true }, [])
    else do
      let tb ← sliceFrom data COMMON
      assertR (tb.length ≥ TSH) "assert!(buf.len() >= Self::SIZE)"
      dedupStart cfg { s with ignoreRest := false } h data off
  else do
    if h.syntaxInd then pure ({ s with ignoreRest := true }, [])
    else if data.length < COMMON then pure ({ s with ignoreRest := true }, [])
    else if h.sectionLength > SECTION_LIMIT then pure ({ s with ignoreRest := true }, [])
    else dedupStart cfg { s with ignoreRest := false } h data off

def procContinue (cfg : Cfg) (s : St) (data : Bytes) : R (St × List Delivery) :=
  if s.ignoreRest then pure (s, []) else dedupContinue cfg s data

def procReset (cfg : Cfg) (s : St) : St := dedupReset cfg s

/-- `SectionPacketConsumer::consume` -/
def consume (cfg : Cfg) (s : St) (p : Bytes) : R (St × List Delivery) := do
  match ← payloadRange p with
  | none => pure (s, [])
  | some r => do
    let pkBuf := rangeBytes p r
    let us ← pusi p
    if us then do
      let pointer ← byteAt pkBuf 0
      let sectionData ← sliceFrom pkBuf 1
      if pointer > 0 && pointer ≥ sectionData.length then
        pure (procReset cfg s, [])
      else do
        let (s1, d1) ← (if pointer > 0 then do
                          let remainder ← sliceTo sectionData pointer
                          procContinue cfg s remainder
                        else pure (s, []))
        let nextSect ← sliceFrom sectionData pointer
        if nextSect.length < COMMON then pure (procReset cfg s1, d1)
        else do
          let hb ← sliceTo nextSect COMMON
          let h ← headerNew hb
          let (s2, d2) ← procStart cfg s1 h nextSect (r.1 + 1 + pointer)
          pure (s2, d1 ++ d2)
    else procContinue cfg s pkBuf

/-- `CrcCheckWholeSectionSyntaxPayloadParser::section`: does the section reach the table processor? -/
def crcPass (bypassCrc : Bool) (data : Bytes) : R Bool := do
  let b1 ← byteAt data 1
  assertR (b1 &&& 0b1000_0000 != 0) "assert!(header.section_syntax_indicator)"
  if data.length < COMMON + TSH + 4 then pure false
  else if bypassCrc then pure true
  else do
    let c ← Crc.sum32 data
    pure (c == 0)

def run (cfg : Cfg) (s : St) : List Bytes → R (St × List (List Delivery))
  | [] => .ok (s, [])
  | p :: ps => do
    let (s1, d1) ← consume cfg s p
    let (s2, d2) ← run cfg s1 ps
    pure (s2, d1 :: d2)

end Ts.Psi
