import Ts.Basic
import Ts.Model.Psi
/-!
# Model of the small public value types and section headers not reached through the filters

`Pid::new` / `TryFrom<u16> for Pid`, `ContinuityCounter::new` (`packet.rs:417-512`),
`TableSyntaxHeader` accessors and `CurrentNext::from` (`psi/mod.rs:72-158`),
`SectionCommonHeader::new` (`psi/mod.rs:686-716`, = `Psi.headerNew`).
-/
namespace Ts.Values
open Ts

/-- `Pid::try_from(value: u16)` -/
def pidTryFrom (v : Nat) : Option Nat := if v ≤ 0x1fff then some v else none

/-- `Pid::new` (asserts `pid <= 0x1fff`) -/
def pidNew (v : Nat) : R Nat := do
  assertR (v ≤ 0x1fff) "assert!(pid <= 0x1fff)"
  pure v

/-- `ContinuityCounter::new` (asserts `count < 0b10000`) -/
def ccNew (v : Nat) : R Nat := do
  assertR (v < 0b10000) "assert!(count < 0b10000)"
  pure v

structure Tsh where
  id : Nat
  version : Nat
  current : Bool
  sectionNumber : Nat
  lastSectionNumber : Nat
  deriving DecidableEq, Repr

/-- `CurrentNext::from` with its `_ => panic!` arm -/
def currentNextFrom (v : Nat) : R Bool :=
  match v with
  | 0 => .ok false
  | 1 => .ok true
  | _ => .panic "invalid current_next_indicator value"

/-- `TableSyntaxHeader::new` + every accessor (as the Debug impl calls them) -/
def tshFields (b : Bytes) : R Tsh := do
  assertR (b.length ≥ 5) "assert!(buf.len() >= Self::SIZE)"
  let b0 ← byteAt b 0; let b1 ← byteAt b 1
  let id := (b0 <<< 8) ||| b1
  let b2 ← byteAt b 2
  let version := (b2 >>> 1) &&& 0b0001_1111
  let b2' ← byteAt b 2
  let cur ← currentNextFrom (b2' &&& 1)
  let b3 ← byteAt b 3; let b4 ← byteAt b 4
  pure ⟨id, version, cur, b3, b4⟩

end Ts.Values
