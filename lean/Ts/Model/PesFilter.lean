import Ts.Basic
import Ts.Model.Packet
import Ts.Model.Pes
/-!
# Model of `pes::PesPacketFilter::consume` (`pes.rs:88-160`, repaired tree: fixes F1a, F1b)

Callbacks to the `ElementaryStreamConsumer` are returned as a list of events; slices are ranges
`(offset, length)` into the packet.
-/
namespace Ts.PesFilter
open Ts Ts.Packet

inductive St where
  | begin | started | ignoreRest
  deriving DecidableEq, Repr

structure F where
  cc : Option Nat := none
  st : St := .begin
  deriving DecidableEq, Repr

inductive Ev where
  | start
  | beginPkt (off len : Nat)   -- `begin_packet(header)`: `header.buf` is this range of the packet
  | cont (off len : Nat)
  | endPkt
  | ccErr
  deriving DecidableEq, Repr

def isContinuous (f : F) (p : Bytes) : R Bool :=
  match f.cc with
  | some c => do
    let b3 ← byte3 p
    if hasPayload b3 then do let n ← cc p; pure (follows n c)
    else do let n ← cc p; pure (n == c)
  | none => pure true

def consume (f : F) (p : Bytes) : R (F × List Ev) := do
  let cont ← isContinuous f p
  let (st1, ev1) := if !cont then ((if f.st != .begin then St.ignoreRest else f.st), [Ev.ccErr]) else (f.st, [])
  let n ← cc p
  let us ← pusi p
  if us then do
    let ev2 := if st1 == .started then [Ev.endPkt] else if st1 == .begin then [Ev.start] else []
    match ← payloadRange p with
    | some r => do
      match ← Pes.headerFromBytes (rangeBytes p r) with
      | some _ => pure (⟨some n, .started⟩, ev1 ++ ev2 ++ [Ev.beginPkt r.1 r.2])
      | none => pure (⟨some n, .ignoreRest⟩, ev1 ++ ev2)
    | none => pure (⟨some n, .ignoreRest⟩, ev1 ++ ev2)
  else
    match st1 with
    | .started => do
      match ← payloadRange p with
      | some r => if r.2 != 0 then pure (⟨some n, st1⟩, ev1 ++ [Ev.cont r.1 r.2]) else pure (⟨some n, st1⟩, ev1)
      | none => pure (⟨some n, st1⟩, ev1)
    | .begin => do
      let _ ← pid p    -- `warn!("{:?}: Ignoring …", packet.pid())`
      pure (⟨some n, st1⟩, ev1)
    | .ignoreRest => pure (⟨some n, st1⟩, ev1)

def run (f : F) : List Bytes → R (F × List (List Ev))
  | [] => .ok (f, [])
  | p :: ps => do
    let (f1, e1) ← consume f p
    let (f2, e2) ← run f1 ps
    pure (f2, e1 :: e2)

end Ts.PesFilter
