import Ts.Basic
import Ts.Model.Time
/-!
# Model of `pes::PesHeader` / `PesParsedContents` (`pes.rs:280-853`)
-/
namespace Ts.Pes
open Ts Ts.Time

inductive PesErr where
  | fieldNotPresent
  | ptsDtsFlagsInvalid
  | notEnoughData
  | markerBitNotSet
  deriving DecidableEq, Repr

abbrev Res (α : Type) := Except PesErr α

def HDR_FIXED : Nat := 6

/-- `PesHeader::from_bytes` -/
def headerFromBytes (buf : Bytes) : R (Option Bytes) := do
  if buf.length < HDR_FIXED then pure none
  else do
    let b0 ← byteAt buf 0; let b1 ← byteAt buf 1; let b2 ← byteAt buf 2
    let pfx := (b0 <<< 16) ||| (b1 <<< 8) ||| b2
    if pfx != 1 then pure none else pure (some buf)

def streamId (buf : Bytes) : R Nat := byteAt buf 3

/-- `pes_packet_length`: 0 stands for `Unbounded` -/
def pesPacketLength (buf : Bytes) : R Nat := do
  let b4 ← byteAt buf 4; let b5 ← byteAt buf 5
  pure ((b4 <<< 8) ||| b5)

/-- `StreamId::is_parsed` -/
def isParsed (sid : Nat) : Bool :=
  !(sid == 0b1011_1100 || sid == 0b1011_1110 || sid == 0b1011_1111 || sid == 0b1111_0000
    || sid == 0b1111_0001 || sid == 0b1111_1111 || sid == 0b1111_0010 || sid == 0b1111_1000)

def FIXED : Nat := 3
def TIMESTAMP_SIZE : Nat := 5
def ESCR_SIZE : Nat := 6
def ES_RATE_SIZE : Nat := 3

def hdl (buf : Bytes) : R Nat := byteAt buf 2
def flagsByte (buf : Bytes) : R Nat := byteAt buf 1
def ptsDtsFlags (f : Nat) : Nat := f >>> 6
def escrFlag (f : Nat) : Bool := (f >>> 5) &&& 1 != 0
def esRateFlag (f : Nat) : Bool := (f >>> 4) &&& 1 != 0
def trickFlag (f : Nat) : Bool := (f >>> 3) &&& 1 != 0
def aciFlag (f : Nat) : Bool := (f >>> 2) &&& 1 != 0
def crcFlag (f : Nat) : Bool := (f >>> 1) &&& 1 != 0
def extFlag (f : Nat) : Bool := f &&& 1 != 0

/-- `pts_dts_end` with its `v => panic!` arm -/
def ptsDtsEnd (f : Nat) : R Nat :=
  match ptsDtsFlags f with
  | 0 => .ok FIXED
  | 1 => .ok FIXED
  | 2 => .ok (FIXED + TIMESTAMP_SIZE)
  | 3 => .ok (FIXED + TIMESTAMP_SIZE * 2)
  | _ => .panic "unexpected value"
def escrEnd (f : Nat) : R Nat := do let e ← ptsDtsEnd f; pure (e + if escrFlag f then ESCR_SIZE else 0)
def esRateEnd (f : Nat) : R Nat := do let e ← escrEnd f; pure (e + if esRateFlag f then ES_RATE_SIZE else 0)
def trickEnd (f : Nat) : R Nat := do let e ← esRateEnd f; pure (e + if trickFlag f then 1 else 0)
def aciEnd (f : Nat) : R Nat := do let e ← trickEnd f; pure (e + if aciFlag f then 1 else 0)
def crcEnd (f : Nat) : R Nat := do let e ← aciEnd f; pure (e + if crcFlag f then 2 else 0)

/-- `PesParsedContents::from_bytes` (the `warn!` arguments, incl. the subtractions, are evaluated) -/
def parsedFromBytes (buf : Bytes) : R (Option Bytes) := do
  if buf.length < FIXED then pure none
  else do
    let b0 ← byteAt buf 0
    let checkBits := b0 >>> 6
    if checkBits != 0b10 then pure none
    else do
      let h ← hdl buf
      if FIXED + h > buf.length then do
        let _ ← subR buf.length FIXED
        pure none
      else do
        let f ← flagsByte buf
        let ce ← crcEnd f
        if ce > FIXED + h then do
          let _ ← subR ce FIXED
          pure none
        else pure (some buf)

/-- `header_slice` -/
def headerSlice (buf : Bytes) (frm to : Nat) : R (Res Bytes) := do
  let h ← hdl buf
  if to > h + FIXED then pure (.error .notEnoughData)
  else if to > buf.length then pure (.error .notEnoughData)
  else do let s ← sliceR buf frm to; pure (.ok s)

def pesPriority (buf : Bytes) : R Nat := do let b ← byteAt buf 0; pure ((b >>> 3) &&& 1)
def dataAlignment (buf : Bytes) : R Bool := do let b ← byteAt buf 0; pure (b &&& 0b100 != 0)
/-- `copyright()`: `true` stands for `Copyright::Undefined` (pinned polarity, finding F5) -/
def copyrightUndefined (buf : Bytes) : R Bool := do let b ← byteAt buf 0; pure (b &&& 0b10 != 0)
def original (buf : Bytes) : R Bool := do let b ← byteAt buf 0; pure (b &&& 0b1 != 0)

inductive PtsDts where
  | ptsOnly (pts : TsRes)
  | both (pts dts : TsRes)
  deriving Repr

def ptsDts (buf : Bytes) : R (Res PtsDts) := do
  let f ← flagsByte buf
  match ptsDtsFlags f with
  | 0 => pure (.error .fieldNotPresent)
  | 1 => pure (.error .ptsDtsFlagsInvalid)
  | 2 => do
    let e ← ptsDtsEnd f
    match ← headerSlice buf FIXED e with
    | .error e => pure (.error e)
    | .ok s => do let t ← fromBytes s; pure (.ok (.ptsOnly t))
  | 3 => do
    let e ← ptsDtsEnd f
    match ← headerSlice buf FIXED e with
    | .error e => pure (.error e)
    | .ok s => do
      let s1 ← sliceTo s TIMESTAMP_SIZE
      let p ← fromBytes s1
      let s2 ← sliceFrom s TIMESTAMP_SIZE
      let d ← fromBytes s2
      pure (.ok (.both p d))
  | _ => .panic "unexpected value"

def escrBase (s0 s1 s2 s3 s4 : Nat) : Nat :=
  ((s0 &&& 0b0011_1000) <<< 27) ||| ((s0 &&& 0b0000_0011) <<< 28) ||| (s1 <<< 20)
    ||| ((s2 &&& 0b1111_1000) <<< 12) ||| ((s2 &&& 0b0000_0011) <<< 13) ||| (s3 <<< 5)
    ||| ((s4 &&& 0b1111_1000) >>> 3)
def escrExt (s4 s5 : Nat) : Nat := ((s4 &&& 0b0000_0011) <<< 7) ||| ((s5 &&& 0b1111_1110) >>> 1)

def escr (buf : Bytes) : R (Res ClockRef) := do
  let f ← flagsByte buf
  if escrFlag f then do
    let a ← ptsDtsEnd f
    match ← headerSlice buf a (a + ESCR_SIZE) with
    | .error e => pure (.error e)
    | .ok s => do
      let s0 ← byteAt s 0; let s1 ← byteAt s 1; let s2 ← byteAt s 2
      let s3 ← byteAt s 3; let s4 ← byteAt s 4; let s5 ← byteAt s 5
      let c ← crefFromParts (escrBase s0 s1 s2 s3 s4) (escrExt s4 s5)
      pure (.ok c)
  else pure (.error .fieldNotPresent)

def esRateVal (s0 s1 s2 : Nat) : Nat :=
  ((s0 &&& 0b0111_1111) <<< 15) ||| (s1 <<< 7) ||| ((s2 &&& 0b1111_1110) >>> 1)

def esRate (buf : Bytes) : R (Res Nat) := do
  let f ← flagsByte buf
  if esRateFlag f then do
    let a ← escrEnd f
    match ← headerSlice buf a (a + ES_RATE_SIZE) with
    | .error e => pure (.error e)
    | .ok s => do
      let s0 ← byteAt s 0; let s1 ← byteAt s 1; let s2 ← byteAt s 2
      let v := esRateVal s0 s1 s2
      assertR (v < 1 <<< 22) "assert!(es_rate < 1 << 22)"
      pure (.ok v)
  else pure (.error .fieldNotPresent)

/-- `EsRate::bytes_per_second`: `self.0 * 50` on `u32` (overflow checks on: a wrapped product would
panic; `esRate` only builds values below `2^22`, see `Ts.Props.C14.bytes_per_second_no_overflow`) -/
def bytesPerSecond (v : Nat) : Nat := v * 50

inductive Trick where
  | fastForward (fieldId : Nat) (intra : Bool) (freq : Nat)
  | slowMotion (rep : Nat)
  | freezeFrame (fieldId reserved : Nat)
  | fastReverse (fieldId : Nat) (intra : Bool) (freq : Nat)
  | slowReverse (rep : Nat)
  | reserved (r : Nat)
  deriving DecidableEq, Repr

/-- `FrequencyTruncationCoefficientSelection::from_id` with its panic arm -/
def freqFromId (id : Nat) : R Nat :=
  if id < 4 then .ok id else .panic "Invalid id"

def trickOfByte (b : Nat) : R Trick := do
  let ctrl := b >>> 5
  let data := b &&& 0b0001_1111
  match ctrl with
  | 0 => do let fq ← freqFromId (data &&& 0b11); pure (.fastForward (data >>> 3) ((data &&& 0b100) != 0) fq)
  | 1 => pure (.slowMotion data)
  | 2 => pure (.freezeFrame (data >>> 3) (data &&& 0b111))
  | 3 => do let fq ← freqFromId (data &&& 0b11); pure (.fastReverse (data >>> 3) ((data &&& 0b100) != 0) fq)
  | 4 => pure (.slowReverse data)
  | _ => pure (.reserved ctrl)

def dsmTrickMode (buf : Bytes) : R (Res Trick) := do
  let f ← flagsByte buf
  if trickFlag f then do
    let a ← esRateEnd f
    match ← headerSlice buf a (a + 1) with
    | .error e => pure (.error e)
    | .ok s => do let b ← byteAt s 0; let t ← trickOfByte b; pure (.ok t)
  else pure (.error .fieldNotPresent)

def additionalCopyInfo (buf : Bytes) : R (Res Nat) := do
  let f ← flagsByte buf
  if aciFlag f then do
    let a ← trickEnd f
    match ← headerSlice buf a (a + 1) with
    | .error e => pure (.error e)
    | .ok s => do
      let b ← byteAt s 0
      if b &&& 0b1000_0000 == 0 then pure (.error .markerBitNotSet)
      else pure (.ok (b &&& 0b0111_1111))
  else pure (.error .fieldNotPresent)

def previousCrc (buf : Bytes) : R (Res Nat) := do
  let f ← flagsByte buf
  if crcFlag f then do
    let a ← aciEnd f
    match ← headerSlice buf a (a + 2) with
    | .error e => pure (.error e)
    | .ok s => do let s0 ← byteAt s 0; let s1 ← byteAt s 1; pure (.ok ((s0 <<< 8) ||| s1))
  else pure (.error .fieldNotPresent)

/-- `pes_extension`: the extension bytes as a range `(off,len)` of `buf` -/
def pesExtension (buf : Bytes) : R (Res (Nat × Nat)) := do
  let f ← flagsByte buf
  if extFlag f then do
    let a ← crcEnd f
    let h ← hdl buf
    match ← headerSlice buf a (h + FIXED) with
    | .error e => pure (.error e)
    | .ok s => pure (.ok (a, s.length))
  else pure (.error .fieldNotPresent)

/-- `PesParsedContents::payload`: offset of the payload inside `buf` -/
def payloadOffset (buf : Bytes) : R Nat := do
  let h ← hdl buf
  let _ ← sliceFrom buf (FIXED + h)
  pure (FIXED + h)

inductive Contents where
  | parsed (c : Option Bytes)
  | payload (rest : Bytes)

/-- `PesHeader::contents` -/
def contents (buf : Bytes) : R Contents := do
  let rest ← sliceFrom buf HDR_FIXED
  let sid ← streamId buf
  if isParsed sid then do
    let c ← parsedFromBytes rest
    pure (.parsed c)
  else pure (.payload rest)

end Ts.Pes
