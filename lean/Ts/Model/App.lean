import Ts.Basic
import Ts.Model.Packet
import Ts.Model.Af
import Ts.Model.Pes
import Ts.Model.PesFilter
import Ts.Model.Psi
import Ts.Model.Tables
import Ts.Model.Demux
/-!
# The concrete application: library PAT / PMT / PES filters + the harness application

Mirrors `/verif/harness/src/app.rs` (the fuzz target's application made observable) and
`demultiplex.rs:318-534` (`PatProcessor`, `PmtProcessor`).
-/
namespace Ts.App
open Ts Ts.Demux Ts.Tables

inductive Req where
  | byPid (pid : Nat)
  | pmt (pid prog : Nat)
  | nit (pid : Nat)
  | stream (programPid streamType pid pcrPid : Nat) (esDesc progDesc : Bytes)
  deriving DecidableEq, Repr

/-- what `begin_packet` reports -/
structure BeginInfo where
  sid : Nat
  len : Nat
  kind : Nat                     -- 0 = raw payload, 1 = parsed, 2 = parsed contents rejected
  ptsDts : Option (Pes.Res Pes.PtsDts)
  pl : Option (Nat × Nat)        -- exposed payload, global range
  deriving Repr

inductive Ev where
  | construct (req : Req) (tag : Nat)
  | scriptIns (pid tag : Nat)
  | scriptRem (pid : Nat)
  | pkt (tag off : Nat)
  | esStart (tag : Nat)
  | esBegin (tag : Nat) (info : BeginInfo)
  | esCont (tag off len : Nat)
  | esEnd (tag : Nat)
  | esCcErr (tag : Nat)
  deriving Repr

inductive ScriptOp where
  | ins (pid : Nat)
  | rem (pid : Nat)
  deriving DecidableEq, Repr

structure Cfg where
  bypassCrc : Bool := false       -- the `cfg(fuzzing)` build
  touch : Bool := false           -- callbacks touch every accessor / Debug impl
  script : List (Nat × List ScriptOp) := []   -- packet index ↦ changes queued by the recorder that sees it
  deriving Repr

structure Ctx where
  cfg : Cfg
  nextTag : Nat := 0
  trace : List Ev := []    -- most recent first
  deriving Repr

inductive Handler where
  | pat (s : Psi.St) (reg : List Nat)
  | pmt (pid prog : Nat) (s : Psi.St) (reg : List Nat)
  | pes (tag : Nat) (f : PesFilter.F)
  | recorder (tag : Nat)
  deriving Repr

def Ctx.emit (c : Ctx) (e : Ev) : Ctx := { c with trace := e :: c.trace }

/-- `StreamType::is_pes` -/
def isPes (st : Nat) : Bool :=
  (1 ≤ st && st ≤ 0x1d && st != 0x05) || st == 0x24 || st == 0x42 || st == 0x81 || st == 0x95 || st == 0xc2

/-! ### "touch everything": the accessors the harness application calls / the Debug impls walk -/

def touchTs (r : R Time.TsRes) : R Unit := do let _ ← r; pure ()

def touchAf (af : Bytes) : R Unit := do
  let a ← Af.new af
  let _ ← Af.discontinuity a; let _ ← Af.randomAccess a; let _ ← Af.esPriority a
  let _ ← Af.pcr a; let _ ← Af.opcr a; let _ ← Af.spliceCountdown a; let _ ← Af.privateData a
  match ← Af.extension a with
  | .ok e => do
    let _ ← Af.ltwOffset e; let _ ← Af.piecewiseRate e; let _ ← Af.seamlessSplice e
    pure ()
  | .error _ => pure ()

def touchParsed (c : Bytes) : R Unit := do
  let _ ← Pes.pesPriority c; let _ ← Pes.dataAlignment c; let _ ← Pes.copyrightUndefined c; let _ ← Pes.original c
  let _ ← Pes.ptsDts c
  match ← Pes.escr c with
  | .ok cr => do let _ ← Time.crefTo27MHz cr; pure ()
  | .error _ => pure ()
  match ← Pes.esRate c with
  | .ok v => assertR (v * 50 < 2^32) "attempt to multiply with overflow"
  | .error _ => pure ()
  let _ ← Pes.dsmTrickMode c; let _ ← Pes.additionalCopyInfo c; let _ ← Pes.previousCrc c
  let _ ← Pes.pesExtension c; let _ ← Pes.payloadOffset c
  pure ()

def touchPesHeader (h : Bytes) : R Unit := do
  let _ ← Pes.streamId h; let _ ← Pes.pesPacketLength h
  match ← Pes.contents h with
  | .parsed (some c) => touchParsed c
  | _ => pure ()

def touchPacket (p : Bytes) : R Unit := do
  let _ ← Packet.tei p; let _ ← Packet.pusi p; let _ ← Packet.prio p; let _ ← Packet.pid p
  let _ ← Packet.cc p
  match ← Packet.af p with
  | some a => touchAf a
  | none => pure ()
  match ← Packet.payload p with
  | some pl => do
    match ← Pes.headerFromBytes pl with
    | some h => touchPesHeader h
    | none => pure ()
  | none => pure ()

def touchDescItem : DescItem → R Unit
  | .ok tag payload =>
    if tag == 5 then do let _ ← regFields payload; pure ()
    else if tag == 10 then do let _ ← languagesAll payload; pure ()
    else if tag == 14 then do let _ ← maxBitrateFields payload; pure ()
    else if tag == 40 then do let _ ← avcFields payload; pure ()
    else pure ()
  | .err _ => pure ()

def touchDescs (b : Bytes) : R Unit := do
  let items ← descIterAll b
  items.forM touchDescItem

/-- `format!("{:?}", pmt)`: pcr_pid, descriptors, streams with their descriptors -/
def touchPmt (data : Bytes) : R Unit := do
  let _ ← pmtPcrPid data
  let db ← pmtDescriptorBytes data
  touchDescs db
  let ss ← pmtStreams data
  ss.forM (fun s => touchDescs s.descBytes)

/-! ### the application's `do_construct` -/

def construct (c : Ctx) (req : Req) : Handler × Ctx :=
  let tag := c.nextTag
  let c' := { c with nextTag := tag + 1 }.emit (.construct req tag)
  match req with
  | .byPid 0 => (.pat {} [], c')
  | .byPid _ => (.recorder tag, c')
  | .pmt pid prog => (.pmt pid prog {} [], c')
  | .nit _ => (.recorder tag, c')
  | .stream _ st _ _ _ _ => if isPes st then (.pes tag {}, c') else (.recorder tag, c')

/-- PIDs of `registered \ seen`, ascending (`FixedBitSet::difference`) -/
def outdated (registered seen : List Nat) : List Nat :=
  (List.range 8192).filter (fun p => registered.contains p && !seen.contains p)

/-- `PatProcessor::section` + `new_table` -/
def patSection (c : Ctx) (reg : List Nat) (data : Bytes) : R (Ctx × List Nat × List (Change Handler)) := do
  let start := 8
  let end_ ← subR data.length 4
  let body ← sliceR data start end_
  let tableId ← byteAt data 0
  if tableId != 0 then pure (c, reg, [])
  else do
    let entries ← patProgramsAll body
    let (c1, chg) := entries.foldl (fun (acc : Ctx × List (Change Handler)) e =>
        let req := match e with
          | .program pn pid => Req.pmt pid pn
          | .network pid => Req.nit pid
        let (h, c') := construct acc.1 req
        (c', acc.2 ++ [Change.insert e.pid h])) (c, [])
    let seen := entries.map PatEntry.pid
    let rem ← (outdated (reg ++ seen) seen).mapM (fun p => do let q ← pidNew p; pure (Change.remove (H := Handler) q))
    pure (c1, seen, chg ++ rem)

/-- `PmtProcessor::section` + `new_table` -/
def pmtSection (c : Ctx) (pmtPid : Nat) (reg : List Nat) (data : Bytes) : R (Ctx × List Nat × List (Change Handler)) := do
  let start := 8
  let end_ ← subR data.length 4
  let body ← sliceR data start end_
  match ← pmtFromBytes body with
  | none => pure (c, reg, [])
  | some sect => do
    let tableId ← byteAt data 0
    if tableId != 2 then pure (c, reg, [])
    else do
      let streams ← pmtStreams sect
      let pcr ← pmtPcrPid sect
      let progDesc ← pmtDescriptorBytes sect
      if c.cfg.touch then touchPmt sect
      let (c1, chg) := streams.foldl (fun (acc : Ctx × List (Change Handler)) s =>
          let (h, c') := construct acc.1 (Req.stream pmtPid s.streamType s.pid pcr s.descBytes progDesc)
          (c', acc.2 ++ [Change.insert s.pid h])) (c, [])
      let seen := streams.map StreamInfo.pid
      let rem ← (outdated (reg ++ seen) seen).mapM (fun p => do let q ← pidNew p; pure (Change.remove (H := Handler) q))
      pure (c1, seen, chg ++ rem)

/-- deliveries that pass the CRC layer, handed to a table processor in order -/
def runDeliveries (sect : Ctx → List Nat → Bytes → R (Ctx × List Nat × List (Change Handler)))
    (c : Ctx) (reg : List Nat) : List Psi.Delivery → R (Ctx × List Nat × List (Change Handler))
  | [] => .ok (c, reg, [])
  | d :: ds => do
    if ← Psi.crcPass c.cfg.bypassCrc d.bytes then do
      let (c1, reg1, chg1) ← sect c reg d.bytes
      let (c2, reg2, chg2) ← runDeliveries sect c1 reg1 ds
      pure (c2, reg2, chg1 ++ chg2)
    else runDeliveries sect c reg ds

def beginInfo (p : Bytes) (base hoff hlen : Nat) : R BeginInfo := do
  let h := Packet.rangeBytes p (hoff, hlen)
  let sid ← Pes.streamId h
  let len ← Pes.pesPacketLength h
  match ← Pes.contents h with
  | .payload rest => pure ⟨sid, len, 0, none, some (base + hoff + Pes.HDR_FIXED, rest.length)⟩
  | .parsed none => pure ⟨sid, len, 2, none, none⟩
  | .parsed (some c) => do
    let pd ← Pes.ptsDts c
    let o ← Pes.payloadOffset c
    pure ⟨sid, len, 1, some pd, some (base + hoff + Pes.HDR_FIXED + o, c.length - o)⟩

def esEvents (touch : Bool) (tag : Nat) (p : Bytes) (base : Nat) (c : Ctx) : List PesFilter.Ev → R Ctx
  | [] => .ok c
  | e :: es => do
    let c1 ← (match e with
      | .start => pure (c.emit (.esStart tag))
      | .beginPkt o l => do
        let bi ← beginInfo p base o l
        if touch then touchPesHeader (Packet.rangeBytes p (o, l))
        pure (c.emit (.esBegin tag bi))
      | .cont o l => pure (c.emit (.esCont tag (base + o) l))
      | .endPkt => pure (c.emit (.esEnd tag))
      | .ccErr => pure (c.emit (.esCcErr tag)) : R Ctx)
    esEvents touch tag p base c1 es

def scriptChanges (c : Ctx) : List ScriptOp → Ctx × List (Change Handler)
  | [] => (c, [])
  | .ins pid :: ops =>
    let tag := c.nextTag
    let c1 := { c with nextTag := tag + 1 }.emit (.scriptIns pid tag)
    let (c2, chg) := scriptChanges c1 ops
    (c2, Change.insert pid (Handler.recorder tag) :: chg)
  | .rem pid :: ops =>
    let c1 := c.emit (.scriptRem pid)
    let (c2, chg) := scriptChanges c1 ops
    (c2, Change.remove pid :: chg)

def consume (h : Handler) (c : Ctx) (pk : Pk) : R (Handler × Ctx × List (Change Handler)) :=
  match h with
  | .pat s reg => do
    let (s', ds) ← Psi.consume Psi.table s pk.bytes
    let (c', reg', chg) ← runDeliveries patSection c reg ds
    pure (.pat s' reg', c', chg)
  | .pmt pid prog s reg => do
    let (s', ds) ← Psi.consume Psi.table s pk.bytes
    let (c', reg', chg) ← runDeliveries (fun c r d => pmtSection c pid r d) c reg ds
    pure (.pmt pid prog s' reg', c', chg)
  | .pes tag f => do
    let (f', evs) ← PesFilter.consume f pk.bytes
    let c' ← esEvents c.cfg.touch tag pk.bytes pk.off c evs
    pure (.pes tag f', c', [])
  | .recorder tag => do
    if c.cfg.touch then touchPacket pk.bytes
    let c1 := c.emit (.pkt tag pk.off)
    match c.cfg.script.lookup (pk.off / 188) with
    | some ops =>
      let (c2, chg) := scriptChanges c1 ops
      pure (.recorder tag, c2, chg)
    | none => pure (.recorder tag, c1, [])

def sem : Sem Handler Ctx where
  consume := consume
  construct := fun c pid => .ok (construct c (.byPid pid))

/-- `Demultiplex::new` -/
def init (cfg : Cfg) : Tab Handler × Ctx :=
  let (h, c) := construct { cfg := cfg } (.byPid 0)
  (Tab.insert [] 0 h, c)

/-- run the whole application over a list of `push` buffers -/
def runApp (cfg : Cfg) (pushes : List Bytes) : R (Tab Handler × Ctx) :=
  pushAll sem (init cfg) pushes 0

end Ts.App
