import Ts.Basic
/-!
# Model of `psi/pat.rs`, `psi/pmt.rs`, `descriptor/*.rs`
-/
namespace Ts.Tables
open Ts

/-- `Pid::new`: `assert!(pid <= 0x1fff)` -/
def pidNew (v : Nat) : R Nat := do
  assertR (v ≤ 0x1fff) "assert!(pid <= 0x1fff)"
  pure v

/-! ### PAT -/

inductive PatEntry where
  | network (pid : Nat)
  | program (programNumber pid : Nat)
  deriving DecidableEq, Repr

def PatEntry.pid : PatEntry → Nat
  | .network p => p
  | .program _ p => p

/-- `ProgramDescriptor::from_bytes` -/
def patEntryFromBytes (d : Bytes) : R PatEntry := do
  let d0 ← byteAt d 0; let d1 ← byteAt d 1
  let pn := (d0 <<< 8) ||| d1
  let d2 ← byteAt d 2; let d3 ← byteAt d 3
  let pid ← pidNew (((d2 &&& 0b0001_1111) <<< 8) ||| d3)
  if pn == 0 then pure (.network pid) else pure (.program pn pid)

/-- `ProgramIter` run to exhaustion; `fuel` bounds the number of `next()` calls -/
def patPrograms : Nat → Bytes → R (List PatEntry)
  | 0, _ => .ok []
  | fuel+1, buf =>
    if buf.isEmpty then .ok []
    else if buf.length < 4 then .ok []
    else do
      let e ← patEntryFromBytes (buf.take 4)
      let rest ← patPrograms fuel (buf.drop 4)
      pure (e :: rest)

def patProgramsAll (body : Bytes) : R (List PatEntry) := patPrograms (body.length + 1) body

/-! ### descriptors -/

inductive DescErr where
  | notEnoughData
  | tagTooLongForBuffer
  | bufferTooShort
  deriving DecidableEq, Repr

inductive DescItem where
  | ok (tag : Nat) (payload : Bytes)
  | err (e : DescErr)
  deriving DecidableEq, Repr

/-- `descriptor_len` -/
def descriptorLen (buf : Bytes) (len : Nat) : Except DescErr Unit :=
  if buf.length < len then .error .notEnoughData else .ok ()

/-- the typed constructor selected by `descriptor_enum!` for `tag` -/
def typedNew (tag : Nat) (payload : Bytes) : R (Except DescErr Unit) :=
  if tag == 5 then .ok (descriptorLen payload 4)
  else if tag == 10 then .ok (.ok ())
  else if tag == 14 then do
    assertR (tag == 14) "assert_eq!(tag, Self::TAG)"
    pure (descriptorLen payload 3)
  else if tag == 40 then do
    assertR (tag == 40) "assert_eq!(tag, Self::TAG)"
    pure (descriptorLen payload 4)
  else .ok (.ok ())

/-- `CoreDescriptors::from_bytes` -/
def coreFromBytes (buf : Bytes) : R DescItem := do
  if buf.length < 2 then pure (.err .bufferTooShort)
  else do
    let tag ← byteAt buf 0
    let len ← byteAt buf 1
    let tagEnd := len + 2
    if tagEnd > buf.length then pure (.err .tagTooLongForBuffer)
    else do
      let payload ← sliceR buf 2 tagEnd
      match ← typedNew tag payload with
      | .ok () => pure (.ok tag payload)
      | .error e => pure (.err e)

/-- `DescriptorIter` run to exhaustion -/
def descIter : Nat → Bytes → R (List DescItem)
  | 0, _ => .ok []
  | fuel+1, buf =>
    if buf.isEmpty then .ok []
    else if buf.length < 2 then .ok [.err .bufferTooShort]
    else do
      let _tag ← byteAt buf 0
      let len ← byteAt buf 1
      let remaining ← subR buf.length 2
      if len > remaining then pure [.err .notEnoughData]
      else do
        assertR (len + 2 ≤ buf.length) "split_at: mid > len"
        let item ← coreFromBytes (buf.take (len + 2))
        let rest ← descIter fuel (buf.drop (len + 2))
        pure (item :: rest)

def descIterAll (buf : Bytes) : R (List DescItem) := descIter (buf.length + 1) buf

/-- variant of `CoreDescriptors` selected for a tag (names as in the source) -/
def variantName (tag : Nat) : String :=
  if tag == 0 || tag == 1 || (57 ≤ tag && tag ≤ 62) then "Reserved"
  else if tag == 2 then "VideoStream" else if tag == 3 then "AudioStream"
  else if tag == 4 then "Hierarchy" else if tag == 5 then "Registration"
  else if tag == 6 then "DataStreamAlignment" else if tag == 7 then "TargetBackgroundGrid"
  else if tag == 8 then "VideoWindow" else if tag == 9 then "CA"
  else if tag == 10 then "ISO639Language" else if tag == 11 then "SystemClock"
  else if tag == 12 then "MultiplexBufferUtilization" else if tag == 13 then "Copyright"
  else if tag == 14 then "MaximumBitrate" else if tag == 15 then "PrivateDataIndicator"
  else if tag == 16 then "SmoothingBuffer" else if tag == 17 then "STD"
  else if tag == 18 then "IBP" else if 19 ≤ tag && tag ≤ 26 then "IsoIec13818dash6"
  else if tag == 27 then "MPEG4Video" else if tag == 28 then "MPEG4Audio"
  else if tag == 29 then "IOD" else if tag == 30 then "SL" else if tag == 31 then "FMC"
  else if tag == 32 then "ExternalESID" else if tag == 33 then "MuxCode"
  else if tag == 34 then "FmxBufferSize" else if tag == 35 then "MultiplexBuffer"
  else if tag == 36 then "MontentLabeling" else if tag == 37 then "MetadataPointer"
  else if tag == 38 then "Metadata" else if tag == 39 then "MetadataStd"
  else if tag == 40 then "AvcVideo" else if tag == 41 then "IPMP"
  else if tag == 42 then "AvcTimingAndHrd" else if tag == 43 then "Mpeg2AacAudio"
  else if tag == 44 then "FlexMuxTiming" else if tag == 45 then "Mpeg4Text"
  else if tag == 46 then "Mpeg4AudioExtension" else if tag == 47 then "AuxiliaryVideoStream"
  else if tag == 48 then "SvcExtension" else if tag == 49 then "MvcExtension"
  else if tag == 50 then "J2kVideo" else if tag == 51 then "MvcOperationPoint"
  else if tag == 52 then "Mpeg2StereoscopicVideoFormat" else if tag == 53 then "StereoscopicProgramInfo"
  else if tag == 54 then "StereoscopicVideoInfo" else if tag == 55 then "TransportProfile"
  else if tag == 56 then "HevcVideo" else if tag == 63 then "Extension"
  else "UserPrivate"

/-! typed descriptor accessors (receivers are payloads accepted by `typedNew`) -/

/-- `RegistrationDescriptor`: `(format_identifier bytes, additional_identification_info)` -/
def regFields (p : Bytes) : R (Bytes × Bytes) := do
  let f ← sliceR p 0 4
  let a ← sliceFrom p 4
  pure (f, a)

/-- `MaximumBitrateDescriptor`: `(maximum_bitrate, maximum_bits_per_second)` with `u32` overflow checks -/
def maxBitrateFields (p : Bytes) : R (Nat × Nat) := do
  let b0 ← byteAt p 0; let b1 ← byteAt p 1; let b2 ← byteAt p 2
  let r := ((b0 &&& 0b0011_1111) <<< 16) ||| (b1 <<< 8) ||| b2
  assertR (r * 50 < 2^32) "attempt to multiply with overflow"
  assertR (r * 50 * 8 < 2^32) "attempt to multiply with overflow"
  pure (r, r * 50 * 8)

structure AvcFields where
  profileIdc : Nat
  cs0 : Bool
  cs1 : Bool
  cs2 : Bool
  cs3 : Bool
  cs4 : Bool
  cs5 : Bool
  compat : Nat
  levelIdc : Nat
  still : Bool
  h24 : Bool
  fpSei : Bool
  deriving DecidableEq, Repr

def avcFields (p : Bytes) : R AvcFields := do
  let b0 ← byteAt p 0; let b1 ← byteAt p 1; let b2 ← byteAt p 2; let b3 ← byteAt p 3
  pure { profileIdc := b0,
         cs0 := b1 &&& 0b1000_0000 != 0, cs1 := b1 &&& 0b0100_0000 != 0, cs2 := b1 &&& 0b0010_0000 != 0,
         cs3 := b1 &&& 0b0001_0000 != 0, cs4 := b1 &&& 0b0000_1000 != 0, cs5 := b1 &&& 0b0000_0100 != 0,
         compat := b1 &&& 0b0000_0011, levelIdc := b2,
         still := b3 &&& 0b1000_0000 != 0, h24 := b3 &&& 0b0100_0000 != 0, fpSei := b3 &&& 0b0010_0000 != 0 }

inductive LangItem where
  | lang (code : Bytes) (audioType : Nat)
  | tooShort (actual : Nat)
  deriving DecidableEq, Repr

/-- `Language::code`: `encoding_rs::mem::decode_latin1` of the three code bytes — byte `b` becomes the
code point `U+00b` (ISO 8859-1 is the first 256 code points of Unicode) -/
def langCodePoints (code : Bytes) : List Nat := code.map (·.toNat)

/-- `AudioType::from(u8)` -/
inductive AudioType where
  | undefined | cleanEffects | hearingImpaired | visualImpairedCommentary
  | reserved (v : Nat)
  deriving DecidableEq, Repr

def audioTypeOf (v : Nat) : AudioType :=
  match v with
  | 0 => .undefined
  | 1 => .cleanEffects
  | 2 => .hearingImpaired
  | 3 => .visualImpairedCommentary
  | v => .reserved v

/-- `LanguageIterator` run to exhaustion (`Language::new` asserts 4 bytes) -/
def languages : Nat → Bytes → R (List LangItem)
  | 0, _ => .ok []
  | fuel+1, buf =>
    if buf.isEmpty then .ok []
    else if buf.length < 4 then .ok [.tooShort buf.length]
    else do
      let head := buf.take 4
      assertR (head.length == 4) "assert_eq!(buf.len(), 4)"
      let code ← sliceR head 0 3
      let at_ ← byteAt head 3
      let rest ← languages fuel (buf.drop 4)
      pure (.lang code at_ :: rest)

def languagesAll (p : Bytes) : R (List LangItem) := languages (p.length + 1) p

/-! ### PMT -/

/-- `PmtSection::from_bytes` (`none` = `Err(NotEnoughData)`) -/
def pmtFromBytes (data : Bytes) : R (Option Bytes) := do
  if data.length < 4 then pure none
  else do
    let d2 ← byteAt data 2; let d3 ← byteAt data 3
    let pil := ((d2 &&& 0b0000_1111) <<< 8) ||| d3
    let expected := pil + 4
    if data.length < expected then pure none else pure (some data)

def pmtPcrPid (data : Bytes) : R Nat := do
  let d0 ← byteAt data 0; let d1 ← byteAt data 1
  pidNew (((d0 &&& 0b0001_1111) <<< 8) ||| d1)

def pmtProgramInfoLength (data : Bytes) : R Nat := do
  let d2 ← byteAt data 2; let d3 ← byteAt data 3
  pure (((d2 &&& 0b0000_1111) <<< 8) ||| d3)

/-- bytes handed to `DescriptorIter` by `PmtSection::descriptors` -/
def pmtDescriptorBytes (data : Bytes) : R Bytes := do
  let pil ← pmtProgramInfoLength data
  sliceR data 4 (4 + pil)

structure StreamInfo where
  streamType : Nat
  pid : Nat
  descBytes : Bytes
  deriving DecidableEq, Repr

/-- `StreamInfo::from_bytes` + accessors; returns the entry and its encoded length -/
def streamInfoFromBytes (data : Bytes) : R (Option (StreamInfo × Nat)) := do
  if data.length < 5 then pure none
  else do
    let d3 ← byteAt data 3; let d4 ← byteAt data 4
    let esil := ((d3 &&& 0b0000_1111) <<< 8) ||| d4
    let descriptorEnd := 5 + esil
    if descriptorEnd > data.length then pure none
    else do
      let st ← byteAt data 0
      let d1 ← byteAt data 1; let d2 ← byteAt data 2
      let pid ← pidNew (((d1 &&& 0b0001_1111) <<< 8) ||| d2)
      let db ← sliceR data 5 descriptorEnd
      pure (some (⟨st, pid, db⟩, descriptorEnd))

/-- `StreamInfoIter` run to exhaustion -/
def streamIter : Nat → Bytes → R (List StreamInfo)
  | 0, _ => .ok []
  | fuel+1, buf =>
    if buf.isEmpty then .ok []
    else do
      match ← streamInfoFromBytes buf with
      | none => pure []
      | some (si, n) => do
        let rest0 ← sliceFrom buf n
        let rest ← streamIter fuel rest0
        pure (si :: rest)

/-- `PmtSection::streams` -/
def pmtStreams (data : Bytes) : R (List StreamInfo) := do
  let pil ← pmtProgramInfoLength data
  let descriptorEnd := 4 + pil
  if descriptorEnd > data.length then do
    let e ← sliceR data 0 0
    streamIter (e.length + 1) e
  else do
    let r ← sliceFrom data descriptorEnd
    streamIter (r.length + 1) r

end Ts.Tables
