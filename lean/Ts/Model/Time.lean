import Ts.Basic
/-!
# Model of `pes::Timestamp` (`pes.rs:877-955`) and `packet::ClockRef` (`packet.rs:86-139`)
-/
namespace Ts.Time
open Ts

inductive TsErr where
  | incorrectPrefix (expected actual : Nat)
  | markerBitNotSet (bit : Nat)
  deriving DecidableEq, Repr

abbrev TsRes := Except TsErr Nat

/-- `Timestamp::MAX.val` -/
def MAX : Nat := (1 <<< 33) - 1

/-- `check_prefix` -/
def checkPrefix (buf : Bytes) (expected : Nat) : R (Except TsErr Unit) := do
  assertR (expected ≤ 0b1111) "assert!(expected <= 0b1111)"
  let b0 ← byteAt buf 0
  let actual := b0 >>> 4
  if actual == expected then pure (.ok ()) else pure (.error (.incorrectPrefix expected actual))

/-- `check_marker_bit` -/
def checkMarkerBit (buf : Bytes) (bitNumber : Nat) : R (Except TsErr Unit) := do
  let byteIndex := bitNumber / 8
  let bitIndex := bitNumber % 8
  let bitMask := 1 <<< (7 - bitIndex)
  let b ← byteAt buf byteIndex
  if b &&& bitMask != 0 then pure (.ok ()) else pure (.error (.markerBitNotSet bitNumber))

/-- the value expression of `Timestamp::from_bytes` -/
def tsVal (b0 b1 b2 b3 b4 : Nat) : Nat :=
  ((b0 &&& 0b0000_1110) <<< 29) ||| (b1 <<< 22) ||| ((b2 &&& 0b1111_1110) <<< 14) ||| (b3 <<< 7) ||| (b4 >>> 1)

/-- `Timestamp::from_bytes` -/
def fromBytes (buf : Bytes) : R TsRes := do
  match ← checkMarkerBit buf 7 with
  | .error e => pure (.error e)
  | .ok () =>
  match ← checkMarkerBit buf 23 with
  | .error e => pure (.error e)
  | .ok () =>
  match ← checkMarkerBit buf 39 with
  | .error e => pure (.error e)
  | .ok () =>
    let b0 ← byteAt buf 0; let b1 ← byteAt buf 1; let b2 ← byteAt buf 2
    let b3 ← byteAt buf 3; let b4 ← byteAt buf 4
    pure (.ok (tsVal b0 b1 b2 b3 b4))

def fromPtsBytes (buf : Bytes) : R TsRes := do
  match ← checkPrefix buf 0b0010 with
  | .error e => pure (.error e)
  | .ok () => fromBytes buf

def fromDtsBytes (buf : Bytes) : R TsRes := do
  match ← checkPrefix buf 0b0001 with
  | .error e => pure (.error e)
  | .ok () => fromBytes buf

/-- `Timestamp::from_u64`: `assert!(val < BOUND)`.  The bound is regenerated from the source
(`Ts/Gen/Consts.lean`) and passed in by the caller. -/
def fromU64 (bound val : Nat) : R Nat := do
  assertR (val < bound) "assert!(val < 1 << 33)"
  pure val

/-- `likely_wrapped_since` -/
def likelyWrappedSince (self since : Nat) : Bool :=
  self ≤ since && since - self > MAX / 2

/-! ### ClockRef -/

structure ClockRef where
  base : Nat
  ext : Nat
  deriving DecidableEq, Repr

/-- `ClockRef::from_slice` -/
def crefFromSlice (d : Bytes) : R ClockRef := do
  let d0 ← byteAt d 0; let d1 ← byteAt d 1; let d2 ← byteAt d 2; let d3 ← byteAt d 3; let d4 ← byteAt d 4
  let base := (d0 <<< 25) ||| (d1 <<< 17) ||| (d2 <<< 9) ||| (d3 <<< 1) ||| (d4 >>> 7)
  let d4' ← byteAt d 4
  let d5 ← byteAt d 5
  let ext := ((d4' &&& 0b1) <<< 8) ||| d5
  pure ⟨base, ext⟩

/-- `ClockRef::from_parts` -/
def crefFromParts (base ext : Nat) : R ClockRef := do
  assertR (base < (1 <<< 33)) "assert!(base < (1 << 33))"
  assertR (ext < (1 <<< 9)) "assert!(extension < (1 << 9))"
  pure ⟨base, ext⟩

/-- `u64::from(ClockRef)`: `base * 300 + ext` (checked `u64` arithmetic) -/
def crefTo27MHz (c : ClockRef) : R Nat := do
  let v := c.base * 300 + c.ext
  assertR (v < 2^64) "attempt to multiply/add with overflow"
  pure v

end Ts.Time
