import Lean
/-!
Audit support: list every theorem declared in a given module together with the axioms it depends on.
Used by `/verif/check` (`obligations` = theorems found; `discharged` = those whose axioms are within
`{propext, Classical.choice, Quot.sound}`).
-/
open Lean

namespace Ts

def auditModule (modName : Name) : CoreM Unit := do
  let env ← getEnv
  let some idx := env.getModuleIdx? modName
    | IO.println s!"AUDIT-ERROR module {modName} not found"
  let mut names : Array Name := #[]
  for (n, ci) in env.constants.map₁.toList do
    if env.getModuleIdxFor? n == some idx then
      match ci with
      | .thmInfo _ => if !n.isInternal then names := names.push n
      | _ => pure ()
  let sorted := names.qsort (fun a b => a.toString < b.toString)
  for n in sorted do
    let axs ← collectAxioms n
    let axs := axs.qsort (fun a b => a.toString < b.toString)
    IO.println s!"AUDIT {modName} {n} [{", ".intercalate (axs.toList.map toString)}]"

end Ts
