import Ts.Model.Tables
import Ts.Spec.Bits
import Ts.Spec.TableSpec
import Ts.Lemmas.C16
import Ts.Gen.Consts
/-!
# C16 — PAT and PMT bodies

For every byte string taken as a PAT body, iteration (`ProgramIter`, `pat.rs`) yields one entry per
complete 4-byte group, classifying `program_number` 0 as the network PID and extracting 13-bit PIDs.
For every byte string taken as a PMT body, `PmtSection::from_bytes` succeeds exactly when the fixed
header and `program_info_length` fit, and the accessors / `StreamInfoIter` yield the PCR PID, the
program descriptor bytes and each stream's type, PID and descriptor bytes exactly as laid out,
stopping without panic at the first entry that does not fit.

All model results are `R.ok`: no index, slice or `Pid::new` assertion is reachable.
The specification (`Ts/Spec/TableSpec.lean`) is written with encoders and `readBits` fields.

Fuel (review C): the model's iterators `patPrograms` / `streamIter` take a fuel argument and return
`.ok []` when it runs out, so "the result is `R.ok`" alone says nothing about termination.  What
carries termination is (a) the equality with the fuel-free specification (`pat_entries`,
`pmt_streams_tile`) and (b) `pat_fuel_irrelevant` / `stream_iter_fuel_irrelevant`: every fuel above
the buffer length gives the same result, i.e. the fuel the model supplies (`length + 1`) is never
exhausted.

Readings (review C):
* `program_info_length` and `ES_info_length` are read as full 12-bit fields (`readBits … 12`), as
  the code does; the standard says their first two bits "shall be '00'" — a larger value is accepted
  here (lenient) and simply fails the fit test unless that many bytes are present.
* `current_next_indicator`, like the Boolean-encoded PES enums, is tied to its Rust variant only by
  the harness (`Ts/Props/C16Headers.lean`).
* Error details are not modelled: `pmtFromBytes` returns `none` for `Err(DemuxError::NotEnoughData
  { field, expected, actual })`.
* Ties to regenerated constants: the PAT entry size 4 is `Ts.Props.Ties.tie_pat_entry_size`
  (`Gen.patEntrySize` in the defining equation of `patPrograms`); the PMT header size 4 and the
  stream-info header size 5 are `Ts.Props.Ties.tie_pmt_header_size` / `tie_stream_info_header_size`
  (`pmtFromBytes`, `pmtDescriptorBytes`, `pmtStreams`, `streamInfoFromBytes` restated).  The two
  `tie_*` below are pins on the number only; `tie_*_enc` relate the SPEC's encoders to them.
  The 13-bit PID bound `0x1fff` of `Pid::new` is `Ts.Props.Ties.tie_pid_new`.  Masks and shifts
  (`& 0b0001_1111`, `& 0b0000_1111`, `<< 8`) have no regenerated counterpart.
-/
namespace Ts.Props.C16
open Ts Ts.Spec Ts.Tables Ts.Spec.TableSpec Ts.Lemmas.C16

/-! ### ties to the constants regenerated from `/repo/src/psi/pmt.rs` -/
/-- PIN ONLY: no model definition in the statement; see `Ts.Props.Ties.tie_pmt_header_size` -/
theorem tie_pmt_header : Ts.Gen.pmtHeaderSize = 4 := by decide
/-- PIN ONLY: see `Ts.Props.Ties.tie_stream_info_header_size` -/
theorem tie_stream_header : Ts.Gen.streamInfoHeaderSize = 5 := by decide
/-- the spec's encoders produce headers of exactly these sizes -/
theorem tie_pmt_header_enc (rA pcr rB : Nat) :
    (encodePmt rA pcr rB [] []).length = Ts.Gen.pmtHeaderSize := by
  simp [encodePmt, Ts.Gen.pmtHeaderSize]
theorem tie_stream_header_enc (e : StreamEnc) :
    (encodeStream e).length = Ts.Gen.streamInfoHeaderSize + e.descBytes.length := by
  rw [encodeStream_length]; rfl

/-! ### PAT -/

/-- `PatSection::programs()` run to exhaustion never panics and yields exactly the spec's list:
one entry per complete 4-byte group, every PID a legal 13-bit PID -/
theorem pat_entries (body : Bytes) :
    patProgramsAll body = .ok (specPat body) ∧
    (specPat body).length = body.length / 4 ∧
    (∀ e ∈ specPat body, e.pid ≤ 0x1fff) := by
  refine ⟨patPrograms_eq _ body (by omega), ?_, ?_⟩
  · unfold specPat
    rw [List.length_map]
    exact chunks4_length _ body (Nat.lt_succ_self _)
  · intro e he
    unfold specPat at he
    obtain ⟨g, -, rfl⟩ := List.mem_map.1 he
    have := readBits_lt g 19 13
    unfold patEntryOf
    split <;> simp only [PatEntry.pid] <;> omega

/-- the `i`-th entry is read from bytes `[4i, 4i+4)`: `program_number` = bits 0..16, PID = bits
19..32 of that group; `program_number` 0 is the network PID -/
theorem pat_entry_fields (body : Bytes) (i : Nat) (h : i < body.length / 4) :
    (specPat body)[i]? = some (
      let g := (body.drop (4 * i)).take 4
      if readBits g 0 16 = 0 then PatEntry.network (readBits g 19 13)
      else PatEntry.program (readBits g 0 16) (readBits g 19 13)) := by
  unfold specPat
  rw [List.getElem?_map, chunks4_get i body h]
  rfl

/-- nothing is yielded for an incomplete trailing group -/
theorem pat_entry_none (body : Bytes) (i : Nat) (h : body.length / 4 ≤ i) : (specPat body)[i]? = none := by
  rw [List.getElem?_eq_none_iff, (pat_entries body).2.1]; exact h

theorem pat_roundtrip (es : List (Nat × PatEntry)) (h : ∀ x ∈ es, PatWf x.2) :
    patProgramsAll (encodePat es) = .ok (es.map (·.2)) := by
  rw [(pat_entries _).1, specPat_encode es h]

/-- the encoder really writes the reserved bits it is given (so `pat_roundtrip` covers every bit
pattern of a PAT body whose length is a multiple of 4) -/
theorem pat_encode_reserved (r : Nat) (e : PatEntry) (h : PatWf e) :
    readBits (encodePatEntry r e) 16 3 = r % 8 ∧ (encodePatEntry r e).length = 4 :=
  ⟨pat_rsv_encode r e h, rfl⟩

/-! ### PMT -/

theorem pmt_accept_iff (data : Bytes) :
    pmtFromBytes data = .ok (if specPmtAccept data then some data else none) :=
  pmtFromBytes_eq data

theorem pmt_fields (data : Bytes) (h : specPmtAccept data) :
    pmtPcrPid data = .ok (readBits data 3 13) ∧ readBits data 3 13 ≤ 0x1fff ∧
    pmtProgramInfoLength data = .ok (readBits data 20 12) ∧
    pmtDescriptorBytes data = .ok ((data.drop 4).take (readBits data 20 12)) := by
  have := readBits_lt data 3 13
  exact ⟨pmtPcrPid_eq data (by have := h.1; omega), by omega, pmtPil_eq data h.1,
    pmtDescriptorBytes_eq data h⟩

/-- `PmtSection::streams()` run to exhaustion never panics; the yielded entries (with the reserved
bits as found) re-encode to a prefix of the bytes after the program descriptors, and the leftover is
empty or an incomplete entry: fewer than 5 bytes, or its `ES_info_length` overruns -/
theorem pmt_streams_tile (data : Bytes) (h : specPmtAccept data) :
    ∃ (es : List StreamEnc) (leftover : Bytes),
      specStreams (data.drop (4 + readBits data 20 12)) = (es, leftover) ∧
      pmtStreams data = .ok (es.map StreamEnc.info) ∧
      (es.map encodeStream).flatten ++ leftover = data.drop (4 + readBits data 20 12) ∧
      (leftover.length < 5 ∨ leftover.length < 5 + readBits leftover 28 12) ∧
      ∀ e ∈ es,
        e.streamType = readBits (encodeStream e) 0 8 ∧
        e.reserved1 = readBits (encodeStream e) 8 3 ∧
        e.pid = readBits (encodeStream e) 11 13 ∧ e.pid ≤ 0x1fff ∧
        e.reserved2 = readBits (encodeStream e) 24 4 ∧
        e.descBytes = ((encodeStream e).drop 5).take (readBits (encodeStream e) 28 12) ∧
        (encodeStream e).length = 5 + readBits (encodeStream e) 28 12 := by
  refine ⟨(specStreams (specStreamBytes data)).1, (specStreams (specStreamBytes data)).2, rfl,
    pmtStreams_eq data h, ?_⟩
  obtain ⟨p1, p2, p3⟩ := specStreams_props _ (specStreamBytes data) (Nat.lt_succ_self _)
  refine ⟨p1, ?_, ?_⟩
  · unfold streamFits esInfoLength at p2
    omega
  · intro e he
    have wf := p3 e he
    obtain ⟨f1, f2, f3, f4, f5⟩ := encodeStream_fields e wf []
    rw [List.append_nil] at f1 f2 f3 f4 f5
    rw [f1, f2, f3, f4, f5, encodeStream_length]
    refine ⟨rfl, rfl, rfl, wf.2.2.1, rfl, ?_, rfl⟩
    simp [encodeStream]

theorem pmt_roundtrip (rA pcr rB : Nat) (pd : Bytes) (ss : List StreamEnc)
    (hp : pcr ≤ 0x1fff) (hd : pd.length < 4096) (hs : ∀ e ∈ ss, StreamWf e) :
    pmtFromBytes (encodePmt rA pcr rB pd ss) = .ok (some (encodePmt rA pcr rB pd ss)) ∧
    pmtPcrPid (encodePmt rA pcr rB pd ss) = .ok pcr ∧
    pmtDescriptorBytes (encodePmt rA pcr rB pd ss) = .ok pd ∧
    pmtStreams (encodePmt rA pcr rB pd ss) = .ok (ss.map StreamEnc.info) ∧
    specStreams (specStreamBytes (encodePmt rA pcr rB pd ss)) = (ss, []) := by
  have acc := encodePmt_accept rA pcr rB pd ss hp hd
  have f := encodePmt_fields rA pcr rB pd ss hp hd
  have e3 := encodePmt_streams rA pcr rB pd ss hp hd
  have e4 := specStreams_encode ss hs
  refine ⟨?_, ?_, ?_, ?_, ?_⟩
  · rw [pmt_accept_iff, if_pos acc]
  · rw [pmtPcrPid_eq _ (by have := acc.1; omega), f.1]
  · rw [pmtDescriptorBytes_eq _ acc, encodePmt_desc rA pcr rB pd ss hp hd]
  · rw [pmtStreams_eq _ acc, e3, e4]
  · rw [e3, e4]

/-! ### fuel is never exhausted -/

/-- `ProgramIter`: every fuel greater than the body length gives the result of `patProgramsAll`
(which supplies `length + 1`), and one more unit of fuel changes nothing.  Hypothesis:
`body.length < fuel` (each step consumes 4 bytes, so this is generous). -/
theorem pat_fuel_irrelevant (body : Bytes) (fuel : Nat) (h : body.length < fuel) :
    patPrograms fuel body = patProgramsAll body ∧ patPrograms fuel body = patPrograms (fuel + 1) body := by
  unfold patProgramsAll
  rw [patPrograms_eq fuel body h, patPrograms_eq _ body (Nat.lt_succ_self _),
    patPrograms_eq (fuel + 1) body (by omega)]
  exact ⟨rfl, rfl⟩

/-- `StreamInfoIter`: the same.  `pmtStreams` calls `streamIter` with `length + 1`. -/
theorem stream_iter_fuel_irrelevant (buf : Bytes) (fuel : Nat) (h : buf.length < fuel) :
    streamIter fuel buf = streamIter (buf.length + 1) buf ∧ streamIter fuel buf = streamIter (fuel + 1) buf := by
  rw [streamIter_eq fuel buf h, streamIter_eq _ buf (Nat.lt_succ_self _),
    streamIter_eq (fuel + 1) buf (by omega)]
  exact ⟨rfl, rfl⟩

/-- the hypothesis is needed, and exhaustion is silent: with too little fuel the model returns a
proper prefix, still as `R.ok` -/
example : patPrograms 1 [0, 1, 0xe1, 0x00, 0, 2, 0xe1, 0x01] = .ok [.program 1 0x100]
    ∧ patProgramsAll [0, 1, 0xe1, 0x00, 0, 2, 0xe1, 0x01] = .ok [.program 1 0x100, .program 2 0x101] :=
  ⟨rfl, rfl⟩
example : streamIter 1 (pmtExample.drop 4) = .ok [⟨0x1b, 0x100, []⟩] := rfl
example : patPrograms 1000 [0, 1, 0xe1, 0x00, 0, 2, 0xe1, 0x01] = patProgramsAll [0, 1, 0xe1, 0x00, 0, 2, 0xe1, 0x01] :=
  (pat_fuel_irrelevant _ 1000 (by decide)).1

/-! ### non-vacuity -/

/-- a PAT body with a network entry, a program entry and one stray byte -/
example : patProgramsAll [0, 0, 0xe0, 0x10, 0, 1, 0xe1, 0x00, 0xff]
    = .ok [.network 0x10, .program 1 0x100] := by rfl
example : specPat [0, 0, 0xe0, 0x10, 0, 1, 0xe1, 0x00, 0xff] = [.network 0x10, .program 1 0x100] := by
  decide
example : encodePat [(7, .network 0x10), (7, .program 1 0x100)] = [0, 0, 0xe0, 0x10, 0, 1, 0xe1, 0x00] := by
  decide
example : PatWf (.network 0x10) ∧ PatWf (.program 1 0x100) := by decide

/-! `pmtExample` (`Ts/Spec/TableSpec.lean`): PCR PID 0x100, no program descriptors, an H.264 stream
without descriptors and an AAC stream with an ISO-639 descriptor -/

example : specPmtAccept pmtExample := by decide
example : pmtExample = encodePmt 7 0x100 15 []
    [⟨0x1b, 7, 0x100, 15, []⟩, ⟨0x0f, 7, 0x101, 15, [0x0a, 0x04, 0x65, 0x6e, 0x67, 0x00]⟩] := by decide
example : pmtStreams pmtExample
    = .ok [⟨0x1b, 0x100, []⟩, ⟨0x0f, 0x101, [0x0a, 0x04, 0x65, 0x6e, 0x67, 0x00]⟩] := by rfl
example : pmtPcrPid pmtExample = .ok 0x100 := by rfl
/-- a truncated body is rejected; a body whose last entry is cut short yields only the first -/
example : pmtFromBytes [0xe1, 0x00, 0xf0, 0x02, 0x00] = .ok none := by rfl
example : pmtStreams (pmtExample.take 18) = .ok [⟨0x1b, 0x100, []⟩] := by rfl
example : StreamWf ⟨0x1b, 7, 0x100, 15, []⟩ := by decide

end Ts.Props.C16
