import Ts.Props.C12
import Ts.Spec.SectionMux
import Ts.Lemmas.C03d
import Ts.Gen.Consts
/-!
# C03 — PSI section reassembly is exact

Observation point: the whole-section consumer directly below the buffer layer
(`Psi.rawSection` = `SectionSyntaxSectionProcessor<BufferSectionSyntaxParser<_>>`,
`Psi.rawCompact` = `CompactSyntaxSectionProcessor<BufferCompactSyntaxParser<_>>`).

* `consume_payload` reduces `Psi.consume` on a 188-byte packet to `consumePayload` on the payload
  that C12 characterises; `run_payloads` lifts this to packet sequences.
* `consume_total_inv` / `run_total_inv`: no panic for ARBITRARY packets, invariant preserved.
* `section_reassembled`: a well-formed section (`Spec.SectionMux.WellFormedSection`) in a
  well-formed packetisation (`WellFormedMux`) is delivered exactly once with exactly its bytes,
  after at most the completion of the previous section, from any prior state.
* `overlimit_never_delivered`, `at_most_two_per_packet`.
-/
namespace Ts.Props.C03
open Ts Ts.Psi Ts.Packet Ts.Spec Ts.Spec.SectionMux Ts.Lemmas.C03 Ts.Props.C12

/-! ### ties to the constants regenerated from `/repo/src/psi/mod.rs` -/
theorem tie_limit_syntax : Ts.Gen.sectionLimitSyntax = Psi.SECTION_LIMIT := by decide
theorem tie_limit_compact : Ts.Gen.sectionLimitCompact = Psi.SECTION_LIMIT := by decide
theorem tie_limit_1021 : Psi.SECTION_LIMIT = 1021 := by decide
theorem tie_limit_spec : Psi.SECTION_LIMIT = maxSectionLength := by decide
theorem tie_common_header : Ts.Gen.commonHeaderSize = Psi.COMMON := by decide
theorem tie_table_syntax_header : Ts.Gen.tableSyntaxHeaderSize = Psi.TSH := by decide
theorem tie_min_header :
    minHeader .syntax = Psi.COMMON + Psi.TSH ∧ minHeader .compact = Psi.COMMON := by decide

/-- the header fields the model decodes with masks and shifts are the standard's bit fields -/
theorem header_exact (d : Bytes) (h : 3 ≤ d.length) :
    ∃ hd, Psi.headerNew (d.take 3) = .ok hd ∧ hd.sectionLength = sectionLength d
      ∧ hd.syntaxInd = (syntaxBit d == 1) ∧ hd.tableId = readBits d 0 8 := by
  refine ⟨hdrOf d, headerNew_eq d h, (sectionLength_eq d).symm, ?_, ?_⟩
  · simp only [hdrOf, hdrSyn, syntaxBit_eq]
  · have := readBits_byte d 0
    simp only [Nat.mul_zero] at this
    simp only [hdrOf, this]

/-! ### from packets to payloads (via C12) -/

theorem consume_payload (cfg : Cfg) (s : St) (p : Bytes) (h : p.length = 188) :
    Psi.consume cfg s p =
      match (splitSpec (hasAf (byteD p 3)) (hasPayload (byteD p 3)) (byteD p 4)).2 with
      | none => .ok (s, [])
      | some r => consumePayload cfg s (readBits p 9 1 == 1) (rangeBytes p r) r.1 :=
  consume_eq_payload cfg s p h

/-- `plOf p` packages (pusi, payload bytes, payload offset); a payload has 1..184 bytes and ends
at the packet's last byte -/
theorem payload_view_size (p : Bytes) (h : p.length = 188) (q : Pl) (hq : plOf p = some q) :
    1 ≤ q.bytes.length ∧ q.bytes.length ≤ 184 ∧ q.off + q.bytes.length = 188 ∧ 4 ≤ q.off :=
  plOf_size p h q hq

/-- the model run over packets, deliveries concatenated, is the run over their payloads -/
theorem run_payloads (cfg : Cfg) (s : St) (ps : List Bytes) (h : ∀ p ∈ ps, p.length = 188) :
    flatR (Psi.run cfg s ps) = runPl cfg s (ps.filterMap plOf) :=
  run_flat cfg ps s h

/-! ### invariant, totality -/

theorem psiInv_init (kind : Kind) : PsiInv kind {} := psiInv_of_none kind {} rfl
theorem psiInvFull_init (kind : Kind) : PsiInvFull kind {} := psiInvFull_of_none kind {} rfl

/-- the statement of the invariant, spelled out -/
theorem psiInv_iff (kind : Kind) (s : St) :
    PsiInv kind s ↔ ∀ n, s.remaining = some n →
      0 < n ∧ minHeader kind ≤ s.buf.length ∧ s.buf.length + n ≤ 1024 := Iff.rfl

theorem psiInvFull_iff (kind : Kind) (s : St) :
    PsiInvFull kind s ↔ PsiInv kind s ∧ ∀ n, s.remaining = some n →
      s.buf.length + n = 3 + sectionLength s.buf := by
  unfold PsiInvFull
  simp only [sectionLength_eq]

/-- payload level: `consumePayload` never panics and equals the pure `consumeSpec` -/
theorem consumePayload_total (cfg : Cfg) (hc : CfgOk cfg) (s : St) (hs : PsiInv (kindOf cfg) s)
    (us : Bool) (pk : Bytes) (off : Nat) (hpk : 1 ≤ pk.length) :
    consumePayload cfg s us pk off = .ok (consumeSpec cfg s us pk off)
      ∧ PsiInv (kindOf cfg) (consumeSpec cfg s us pk off).1 :=
  ⟨consumePayload_eq cfg hc s us pk off hpk hs, consumeSpec_inv cfg s us pk off hs⟩

/-- for EVERY 188-byte packet and every state satisfying the invariant: no panic, invariant kept.
`CfgOk` covers `rawSection`, `rawCompact` and `table`. -/
theorem consume_total_inv (cfg : Cfg) (hc : CfgOk cfg) (s : St) (hs : PsiInv (kindOf cfg) s)
    (p : Bytes) (hp : p.length = 188) :
    ∃ s' ds, Psi.consume cfg s p = .ok (s', ds) ∧ PsiInv (kindOf cfg) s' := by
  rw [consume_eq_plOf cfg s p hp]
  cases hq : plOf p with
  | none => exact ⟨s, [], rfl, hs⟩
  | some q =>
    have hsz := plOf_size p hp q hq
    exact ⟨_, _, consumePayload_eq cfg hc s q.us q.bytes q.off hsz.1 hs, consumeSpec_inv cfg s _ _ _ hs⟩

theorem consume_total_inv_raw (kind : Kind) (s : St) (hs : PsiInv kind s) (p : Bytes) (hp : p.length = 188) :
    ∃ s' ds, Psi.consume (cfgOf kind) s p = .ok (s', ds) ∧ PsiInv kind s' := by
  have := consume_total_inv (cfgOf kind) (cfgOk_cfgOf kind) s (by rw [kindOf_cfgOf]; exact hs) p hp
  rw [kindOf_cfgOf] at this
  exact this

theorem consume_total_inv_rawSection (s : St) (hs : PsiInv .syntax s) (p : Bytes) (hp : p.length = 188) :
    ∃ s' ds, Psi.consume Psi.rawSection s p = .ok (s', ds) ∧ PsiInv .syntax s' :=
  consume_total_inv_raw .syntax s hs p hp

theorem consume_total_inv_rawCompact (s : St) (hs : PsiInv .compact s) (p : Bytes) (hp : p.length = 188) :
    ∃ s' ds, Psi.consume Psi.rawCompact s p = .ok (s', ds) ∧ PsiInv .compact s' :=
  consume_total_inv_raw .compact s hs p hp

theorem consume_total_inv_table (s : St) (hs : PsiInv .syntax s) (p : Bytes) (hp : p.length = 188) :
    ∃ s' ds, Psi.consume Psi.table s p = .ok (s', ds) ∧ PsiInv .syntax s' :=
  consume_total_inv Psi.table cfgOk_table s hs p hp

/-- the stronger invariant (owed bytes = announced length) is preserved as well, and under it
every delivery has exactly the length its own header announces -/
theorem consume_total_invFull (cfg : Cfg) (hc : CfgOk cfg) (s : St) (hs : PsiInvFull (kindOf cfg) s)
    (p : Bytes) (hp : p.length = 188) :
    ∃ s' ds, Psi.consume cfg s p = .ok (s', ds) ∧ PsiInvFull (kindOf cfg) s'
      ∧ ds.length ≤ 2
      ∧ ∀ d ∈ ds, d.bytes.length = 3 + sectionLength d.bytes ∧ d.bytes.length ≤ 1024 := by
  rw [consume_eq_plOf cfg s p hp]
  cases hq : plOf p with
  | none => exact ⟨s, [], rfl, hs, by simp, by simp⟩
  | some q =>
    have hsz := plOf_size p hp q hq
    have hd := consumeSpec_deliveries cfg s q.us q.bytes q.off hs
    refine ⟨_, _, consumePayload_eq cfg hc s q.us q.bytes q.off hsz.1 hs.1,
      consumeSpec_invFull cfg s _ _ _ hs, hd.1, ?_⟩
    intro d hdm
    have := hd.2 d hdm
    rw [sectionLength_eq]
    exact ⟨this.2, this.1⟩

/-- any single `consume` yields at most two whole-section callbacks; each has exactly the length
announced by its own `section_length` field and at most 1024 bytes.  (`PsiInvFull` holds in every
reachable state: `psiInvFull_init`, `consume_total_invFull`, `run_total_inv`.) -/
theorem at_most_two_per_packet (cfg : Cfg) (hc : CfgOk cfg) (s : St) (hs : PsiInvFull (kindOf cfg) s)
    (p : Bytes) (hp : p.length = 188) (s' : St) (ds : List Delivery)
    (h : Psi.consume cfg s p = .ok (s', ds)) :
    ds.length ≤ 2 ∧ ∀ d ∈ ds, d.bytes.length = 3 + sectionLength d.bytes ∧ d.bytes.length ≤ 1024 := by
  obtain ⟨s'', ds', h', _, h2, h3⟩ := consume_total_invFull cfg hc s hs p hp
  rw [h] at h'
  cases h'
  exact ⟨h2, h3⟩

/-- with the plain `PsiInv` only the count and the 1024-byte bound follow … -/
theorem at_most_two_per_packet_partial (cfg : Cfg) (hc : CfgOk cfg) (s : St) (hs : PsiInv (kindOf cfg) s)
    (p : Bytes) (hp : p.length = 188) (s' : St) (ds : List Delivery)
    (h : Psi.consume cfg s p = .ok (s', ds)) :
    ds.length ≤ 2 ∧ ∀ d ∈ ds, d.bytes.length ≤ 1024 := by
  rw [consume_eq_plOf cfg s p hp] at h
  cases hq : plOf p with
  | none => rw [hq] at h; cases h; simp
  | some q =>
    rw [hq] at h
    have hsz := plOf_size p hp q hq
    change consumePayload cfg s q.us q.bytes q.off = _ at h
    rw [consumePayload_eq cfg hc s q.us q.bytes q.off hsz.1 hs] at h
    have h' := R.ok.inj h
    have e : ds = (consumeSpec cfg s q.us q.bytes q.off).2 := by rw [h']
    rw [e]
    exact consumeSpec_deliveries_weak cfg s q.us q.bytes q.off hs

/-- … because `PsiInv` alone admits (unreachable) states whose buffered header disagrees with the
number of bytes owed: here 8 zero bytes (`section_length = 0`) with 1 byte owed give a 9-byte
delivery.  This is why `at_most_two_per_packet` assumes `PsiInvFull`. -/
theorem length_equation_needs_full :
    ∃ (s : St) (p : Bytes), PsiInv .syntax s ∧ p.length = 188 ∧
      ∃ s' d, Psi.consume Psi.rawSection s p = .ok (s', [d]) ∧ d.bytes.length = 9
        ∧ sectionLength d.bytes = 0 := by
  refine ⟨{ buf := List.replicate 8 0, remaining := some 1 },
    [0x47, 0x00, 0x00, 0x30, 182] ++ List.replicate 183 0, ?_, by decide +kernel, ?_⟩
  · intro n hn
    simp only [Option.some.injEq] at hn
    subst hn
    decide
  · have hl : ([0x47, 0x00, 0x00, 0x30, 182] ++ List.replicate 183 0 : Bytes).length = 188 := by
      decide +kernel
    have hq : plOf ([0x47, 0x00, 0x00, 0x30, 182] ++ List.replicate 183 0) = some ⟨false, [0], 187⟩ := by
      decide +kernel
    rw [consume_eq_plOf _ _ _ hl, hq]
    exact ⟨{ buf := List.replicate 9 0, remaining := none }, ⟨List.replicate 9 0, none⟩,
      by rfl, by decide, by decide⟩

/-- whole runs: from any state satisfying `PsiInvFull` (in particular the initial one), any
sequence of 188-byte packets is processed without panic, the invariant holds afterwards, and each
packet produced at most two deliveries, each of its announced length -/
theorem run_total_inv (cfg : Cfg) (hc : CfgOk cfg) (ps : List Bytes) :
    ∀ (s : St), PsiInvFull (kindOf cfg) s → (∀ p ∈ ps, p.length = 188) →
    ∃ s' dss, Psi.run cfg s ps = .ok (s', dss) ∧ PsiInvFull (kindOf cfg) s' ∧ dss.length = ps.length
      ∧ ∀ ds ∈ dss, ds.length ≤ 2
          ∧ ∀ d ∈ ds, d.bytes.length = 3 + sectionLength d.bytes ∧ d.bytes.length ≤ 1024 := by
  induction ps with
  | nil => intro s hs _; exact ⟨s, [], rfl, hs, rfl, by simp⟩
  | cons p ps ih =>
    intro s hs hl
    obtain ⟨s1, d1, h1, hs1, hc1, hd1⟩ :=
      consume_total_invFull cfg hc s hs p (hl p (List.mem_cons_self ..))
    obtain ⟨s2, d2, h2, hs2, hl2, hd2⟩ := ih s1 hs1 (fun p' hp' => hl p' (List.mem_cons_of_mem _ hp'))
    refine ⟨s2, d1 :: d2, ?_, hs2, by simp [hl2], ?_⟩
    · simp only [Psi.run, h1, R.ok_bind, h2]; rfl
    · intro ds hds
      rcases List.mem_cons.1 hds with e | e
      · subst e; exact ⟨hc1, hd1⟩
      · exact hd2 ds e

/-! ### what the `pointer_field` remainder does to the previous section -/

theorem preSpec_nil (cfg : Cfg) (st : St) : preSpec cfg st [] = (st, []) := rfl

/-- for `pre ≠ []`, `preSpec` is exactly what `procContinue st pre` returns -/
theorem preSpec_is_procContinue (kind : Kind) (st : St) (hst : PsiInv kind st) (pre : Bytes)
    (hpre : pre ≠ []) :
    Psi.procContinue (cfgOf kind) st pre = .ok (preSpec (cfgOf kind) st pre) := by
  have := procContinue_eq (cfgOf kind) st pre (by rw [kindOf_cfgOf]; exact hst)
  rw [this]; unfold preSpec; simp [hpre]

/-- closed form of the deliveries caused by `pre`: the previous section, iff one was being
buffered (and not ignored) and `pre` holds all the bytes it was still owed -/
theorem preSpec_deliveries (kind : Kind) (st : St) (pre : Bytes) :
    (preSpec (cfgOf kind) st pre).2 =
      if pre = [] ∨ st.ignoreRest = true then []
      else match st.remaining with
        | none => []
        | some n => if n ≤ pre.length then [⟨st.buf ++ pre.take n, none⟩] else [] := by
  have hdd : (cfgOf kind).dedup = false := by cases kind <;> rfl
  unfold preSpec contSpec bufContSpec
  by_cases h1 : pre = []
  · simp [h1]
  · by_cases h2 : st.ignoreRest = true
    · simp [h1, h2]
    · simp only [h1, if_false, h2, hdd, Bool.false_and, Bool.false_eq_true, or_self]
      cases st.remaining with
      | none => rfl
      | some n => by_cases h3 : n ≤ pre.length <;> simp [h3]

theorem preSpec_at_most_one (kind : Kind) (st : St) (pre : Bytes) :
    (preSpec (cfgOf kind) st pre).2.length ≤ 1 := by
  rw [preSpec_deliveries]
  split
  · simp
  · split
    · simp
    · split <;> simp

/-! ### the main theorem -/

/-- **C03.** Every well-formed section `S` of either kind (`section_length ≤ 1021`), in every
well-formed packetisation `m` (pointer_field = `m.pre.length`, first share `m.k` with at least the
fixed header's worth of bytes present, continuation payloads `m.conts` carrying the rest in any
split, then any stuffing payloads `m.extra`), from every prior state `st` satisfying the invariant
(idle, mid-section, abandoned, ignoring), with the payloads at arbitrary offsets: the model does not
panic, the deliveries are exactly those caused by `pre` on the previous section (at most one)
followed by `S` exactly once with exactly its bytes; `S` is delivered in place iff it ends in the
first payload (then at offset `off + 1 + pre.length`), otherwise from the buffer; the final state
is `Complete` and not ignoring. -/
theorem section_reassembled (kind : Kind) (S : Bytes) (hS : WellFormedSection kind S)
    (m : Mux) (hm : WellFormedMux kind S m)
    (st : St) (hst : PsiInv kind st)
    (off : Nat) (rest : List Pl) (hus : ∀ q ∈ rest, q.us = false)
    (hrest : rest.map (·.bytes) = m.rest) :
    ∃ sfin,
      runPl (cfgOf kind) st (⟨true, m.first S, off⟩ :: rest)
        = .ok (sfin, (preSpec (cfgOf kind) st m.pre).2
                      ++ [⟨S, if m.k = S.length then some (off + 1 + m.pre.length) else none⟩])
      ∧ sfin.remaining = none ∧ sfin.ignoreRest = false := by
  obtain ⟨hk, hmin, hsz, hcase, hrsz⟩ := hm
  have hst' : PsiInv (kindOf (cfgOf kind)) st := by rw [kindOf_cfgOf]; exact hst
  have hfl : (m.first S).length = 1 + m.pre.length + (S.take m.k ++ m.tailBytes).length := by
    simp only [Mux.first, List.length_cons, List.length_append]; omega
  have hmh := minHeader_ge kind
  -- no panic: the run is the pure run
  have hsizes : ∀ q ∈ (⟨true, m.first S, off⟩ :: rest : List Pl), 1 ≤ q.bytes.length := by
    intro q hq
    rcases List.mem_cons.1 hq with e | e
    · subst e; exact hsz.1
    · have : q.bytes ∈ m.rest := by rw [← hrest]; exact List.mem_map_of_mem e
      exact (hrsz _ this).1
  rw [runPl_eq (cfgOf kind) (cfgOk_cfgOf kind) _ st hst' hsizes]
  -- the first payload
  have hf := consumeSpec_first (cfgOf kind) st m.pre (S.take m.k ++ m.tailBytes) off
    (by have := hsz.2; omega) (by omega)
  have hcase' : m.k = S.length ∨ (m.k < S.length ∧ m.tailBytes = []) := by
    rcases hcase with h | ⟨h1, h2, _⟩
    · exact Or.inl h
    · exact Or.inr ⟨h1, h2⟩
  have hstart := startSpec_wf kind S hS (preSpec (cfgOf kind) st m.pre).1 m.k m.tailBytes
    (off + 1 + m.pre.length) hk hmin hcase'
  have hdd : ∀ b, ((cfgOf kind).dedup && b) = false := by intro b; cases kind <;> rfl
  simp only [runSpec]
  rw [runSpec_cont _ _ _ hus, hrest]
  have hfirst : m.first S = UInt8.ofNat m.pre.length :: (m.pre ++ (S.take m.k ++ m.tailBytes)) := rfl
  rw [hfirst, hf, hstart]
  by_cases hkS : m.k = S.length
  · simp only [hkS, if_true]
    rw [runCont_idle _ _ _ (Or.inl rfl)]
    simp only [List.append_nil]
    refine ⟨_, rfl, ?_, ?_⟩ <;> rfl
  · simp only [hkS, if_false]
    rcases hcase with h | ⟨h1, h2, h3⟩
    · exact absurd h hkS
    · have := reassemble (cfgOf kind) (preSpec (cfgOf kind) st m.pre).1.lastVersion
        (preSpec (cfgOf kind) st m.pre).1.dedupIgnore (hdd _) S m.extra m.conts m.k h1 h3
      unfold Mux.rest
      rw [this]
      simp only [List.append_nil]
      refine ⟨_, rfl, ?_, ?_⟩ <;> rfl

/-- the same at the level of 188-byte packets: if the payload views (C12) of the packets `pkts`
are the start payload followed by continuation payloads with the bytes of `m.rest`, the model's
run over the packets delivers, in total, the `pre` deliveries and then `S` exactly once -/
theorem section_reassembled_packets (kind : Kind) (S : Bytes) (hS : WellFormedSection kind S)
    (m : Mux) (hm : WellFormedMux kind S m)
    (st : St) (hst : PsiInv kind st)
    (pkts : List Bytes) (hlen : ∀ p ∈ pkts, p.length = 188)
    (off : Nat) (rest : List Pl)
    (hview : pkts.filterMap plOf = ⟨true, m.first S, off⟩ :: rest)
    (hus : ∀ q ∈ rest, q.us = false) (hrest : rest.map (·.bytes) = m.rest) :
    ∃ sfin dss,
      Psi.run (cfgOf kind) st pkts = .ok (sfin, dss)
      ∧ dss.flatten = (preSpec (cfgOf kind) st m.pre).2
                      ++ [⟨S, if m.k = S.length then some (off + 1 + m.pre.length) else none⟩]
      ∧ sfin.remaining = none ∧ sfin.ignoreRest = false := by
  obtain ⟨sfin, h1, h2, h3⟩ := section_reassembled kind S hS m hm st hst off rest hus hrest
  have hr := run_flat (cfgOf kind) pkts st hlen
  rw [hview, h1] at hr
  cases hrun : Psi.run (cfgOf kind) st pkts with
  | panic msg => rw [hrun] at hr; cases hr
  | ok x =>
    obtain ⟨s2, dss⟩ := x
    rw [hrun] at hr
    simp only [flatR, R.ok.injEq, Prod.mk.injEq] at hr
    obtain ⟨e1, e2⟩ := hr
    subst e1
    exact ⟨s2, dss, rfl, e2, h2, h3⟩

/-! ### rejected starts: over-limit sections, header straddling a packet boundary -/

/-- Any unit-start payload whose new section (3 or more bytes `D` after the `pointer_field` bytes)
is rejected by the processor's three checks (`startOk = false`: wrong syntax bit, fewer than the
fixed header's bytes present, or `section_length > 1021`) delivers nothing from that start — only
what `pre` completed of the previous section —, sets `ignore_rest`, and every following
continuation payload, whatever its bytes, delivers nothing and leaves the state unchanged. -/
theorem rejected_start_ignored (cfg : Cfg) (hc : CfgOk cfg) (st : St) (hst : PsiInv (kindOf cfg) st)
    (pre D : Bytes) (hD : 3 ≤ D.length) (hrej : startOk cfg D = false)
    (hsz : 1 + pre.length + D.length ≤ 184)
    (off : Nat) (rest : List Pl) (hus : ∀ q ∈ rest, q.us = false)
    (hne : ∀ q ∈ rest, 1 ≤ q.bytes.length) :
    ∃ sfin,
      consumePayload cfg st true (UInt8.ofNat pre.length :: (pre ++ D)) off
        = .ok (sfin, (preSpec cfg st pre).2)
      ∧ sfin.ignoreRest = true
      ∧ runPl cfg sfin rest = .ok (sfin, [])
      ∧ runPl cfg st (⟨true, UInt8.ofNat pre.length :: (pre ++ D), off⟩ :: rest)
          = .ok (sfin, (preSpec cfg st pre).2) := by
  have hf := consumeSpec_first cfg st pre D off (by omega) hD
  have hstart : ∀ s o, startSpec cfg s D o = ({ s with ignoreRest := true }, []) := by
    intro s o; unfold startSpec; simp [hrej]
  rw [hstart] at hf
  have h1 : consumePayload cfg st true (UInt8.ofNat pre.length :: (pre ++ D)) off
      = .ok ({ (preSpec cfg st pre).1 with ignoreRest := true }, (preSpec cfg st pre).2) := by
    rw [consumePayload_eq cfg hc st true _ off (by simp) hst, hf]
    simp
  have hinv : PsiInv (kindOf cfg) { (preSpec cfg st pre).1 with ignoreRest := true } :=
    psiInv_congr _ _ _ rfl rfl (preSpec_inv cfg _ st pre hst)
  have h2 : runPl cfg { (preSpec cfg st pre).1 with ignoreRest := true } rest
      = .ok ({ (preSpec cfg st pre).1 with ignoreRest := true }, []) := by
    rw [runPl_eq cfg hc rest _ hinv hne, runSpec_cont cfg rest _ hus, runCont_idle _ _ _ (Or.inr rfl)]
  refine ⟨_, h1, rfl, h2, ?_⟩
  simp only [runPl, h1, R.ok_bind, h2]
  simp

/-- A unit-start payload whose section header (any 3 or more bytes `D` after the `pointer_field`
bytes, whatever the syntax bit and however many bytes are present) declares
`section_length > 1021` delivers nothing from that start, sets `ignore_rest`, and every following
continuation payload, whatever its bytes, delivers nothing, until the next unit start.
Holds for every configuration incl. `Psi.table`. -/
theorem overlimit_never_delivered (cfg : Cfg) (hc : CfgOk cfg) (st : St) (hst : PsiInv (kindOf cfg) st)
    (pre D : Bytes) (hD : 3 ≤ D.length) (hover : sectionLength D > maxSectionLength)
    (hsz : 1 + pre.length + D.length ≤ 184)
    (off : Nat) (rest : List Pl) (hus : ∀ q ∈ rest, q.us = false)
    (hne : ∀ q ∈ rest, 1 ≤ q.bytes.length) :
    ∃ sfin,
      consumePayload cfg st true (UInt8.ofNat pre.length :: (pre ++ D)) off
        = .ok (sfin, (preSpec cfg st pre).2)
      ∧ sfin.ignoreRest = true
      ∧ runPl cfg sfin rest = .ok (sfin, [])
      ∧ runPl cfg st (⟨true, UInt8.ofNat pre.length :: (pre ++ D), off⟩ :: rest)
          = .ok (sfin, (preSpec cfg st pre).2) := by
  have hnok : startOk cfg D = false := by
    apply Bool.eq_false_iff.2
    intro h
    have := ((startOk_iff cfg D).1 h).2.2
    rw [sectionLength_eq] at hover
    simp only [maxSectionLength] at hover
    omega
  exact rejected_start_ignored cfg hc st hst pre D hD hnok hsz off rest hus hne

/-- the same for the well-formedness vocabulary of the spec: a would-be section whose header
announces more than 1021 bytes is never delivered, for both kinds -/
theorem overlimit_never_delivered_raw (kind : Kind) (st : St) (hst : PsiInv kind st)
    (pre D : Bytes) (hD : minHeader kind ≤ D.length) (hover : sectionLength D > maxSectionLength)
    (hsz : 1 + pre.length + D.length ≤ 184)
    (off : Nat) (rest : List Pl) (hus : ∀ q ∈ rest, q.us = false)
    (hne : ∀ q ∈ rest, 1 ≤ q.bytes.length) :
    ∃ sfin,
      runPl (cfgOf kind) st (⟨true, UInt8.ofNat pre.length :: (pre ++ D), off⟩ :: rest)
          = .ok (sfin, (preSpec (cfgOf kind) st pre).2)
      ∧ sfin.ignoreRest = true := by
  have hmh := minHeader_ge kind
  obtain ⟨sfin, _, h2, _, h4⟩ := overlimit_never_delivered (cfgOf kind) (cfgOk_cfgOf kind) st
    (by rw [kindOf_cfgOf]; exact hst) pre D (by omega) hover hsz off rest hus hne
  exact ⟨sfin, h4, h2⟩

/-- The hypothesis "the starting packet carries at least the fixed header" of
`section_reassembled` is necessary (documented `TODO: implement buffering` in the source, not a new
finding): a well-formed section-syntax section whose first share is 3..7 bytes at the end of the
payload is NOT delivered — the start is rejected and the continuations are ignored. -/
theorem header_straddling_dropped (S : Bytes) (_hS : WellFormedSection .syntax S)
    (st : St) (hst : PsiInv .syntax st) (pre : Bytes) (k : Nat) (hk3 : 3 ≤ k) (hk8 : k < 8)
    (hkS : k ≤ S.length) (hsz : 1 + pre.length + k ≤ 184)
    (off : Nat) (rest : List Pl) (hus : ∀ q ∈ rest, q.us = false)
    (hne : ∀ q ∈ rest, 1 ≤ q.bytes.length) :
    ∃ sfin,
      runPl Psi.rawSection st (⟨true, UInt8.ofNat pre.length :: (pre ++ S.take k), off⟩ :: rest)
          = .ok (sfin, (preSpec Psi.rawSection st pre).2)
      ∧ sfin.ignoreRest = true := by
  have hl : (S.take k).length = k := by simp; omega
  have hnok : startOk Psi.rawSection (S.take k) = false := by
    apply Bool.eq_false_iff.2
    intro h
    have := ((startOk_iff Psi.rawSection (S.take k)).1 h).2.1
    rw [hl] at this
    have e : minHeader (kindOf Psi.rawSection) = 8 := rfl
    omega
  obtain ⟨sfin, _, h2, _, h4⟩ := rejected_start_ignored Psi.rawSection (cfgOk_cfgOf .syntax) st hst
    pre (S.take k) (by omega) hnok (by omega) off rest hus hne
  exact ⟨sfin, h4, h2⟩

/-- consequence of `at_most_two_per_packet`: no delivery ever announces more than 1021 bytes -/
theorem delivered_within_limit (cfg : Cfg) (hc : CfgOk cfg) (s : St) (hs : PsiInvFull (kindOf cfg) s)
    (p : Bytes) (hp : p.length = 188) (s' : St) (ds : List Delivery)
    (h : Psi.consume cfg s p = .ok (s', ds)) :
    ∀ d ∈ ds, sectionLength d.bytes ≤ maxSectionLength := by
  intro d hd
  have := (at_most_two_per_packet cfg hc s hs p hp s' ds h).2 d hd
  simp only [maxSectionLength]
  omega

/-! ### non-vacuity -/

/-- a 12-byte section-syntax section (`section_length = 9`) -/
example : WellFormedSection .syntax [0x00, 0xB0, 0x09, 1, 2, 3, 4, 5, 6, 7, 8, 9] := by decide

/-- … in one payload, pointer_field 0, two stuffing bytes behind it: delivered in place at
payload offset + 1 -/
example : ∃ sfin, runPl Psi.rawSection {}
      [⟨true, [0x00, 0x00, 0xB0, 0x09, 1, 2, 3, 4, 5, 6, 7, 8, 9, 0xFF, 0xFF], 4⟩]
    = .ok (sfin, [⟨[0x00, 0xB0, 0x09, 1, 2, 3, 4, 5, 6, 7, 8, 9], some 5⟩]) := by
  have h := section_reassembled .syntax [0x00, 0xB0, 0x09, 1, 2, 3, 4, 5, 6, 7, 8, 9] (by decide)
    ⟨[], 12, [0xFF, 0xFF], [], []⟩ (by decide) {} (psiInv_init _) 4 [] (by simp) rfl
  obtain ⟨sfin, h1, _⟩ := h
  exact ⟨sfin, h1⟩

/-- a section split over 3 payloads (8 + 1 + 3 bytes, the last payload with trailing stuffing),
then one more stuffing payload, arriving while a previous (abandoned) section was being buffered:
delivered once, from the buffer -/
example : ∃ sfin, runPl Psi.rawSection { buf := List.replicate 8 0, remaining := some 100 }
      [⟨true, [0x00, 0x00, 0xB0, 0x09, 10, 11, 12, 13, 14], 183 - 4⟩,
       ⟨false, [15], 187⟩,
       ⟨false, [16, 17, 18, 0xFF, 0xFF], 183⟩,
       ⟨false, [0xFF], 187⟩]
    = .ok (sfin, [⟨[0x00, 0xB0, 0x09, 10, 11, 12, 13, 14, 15, 16, 17, 18], none⟩]) := by
  have hinv : PsiInv .syntax { buf := List.replicate 8 0, remaining := some 100 } := by
    intro n hn
    simp only [Option.some.injEq] at hn
    subst hn
    decide
  have h := section_reassembled .syntax [0x00, 0xB0, 0x09, 10, 11, 12, 13, 14, 15, 16, 17, 18] (by decide)
    ⟨[], 8, [], [[15], [16, 17, 18, 0xFF, 0xFF]], [[0xFF]]⟩ (by decide) _ hinv (183 - 4)
    [⟨false, [15], 187⟩, ⟨false, [16, 17, 18, 0xFF, 0xFF], 183⟩, ⟨false, [0xFF], 187⟩] (by decide) rfl
  obtain ⟨sfin, h1, _⟩ := h
  exact ⟨sfin, h1⟩

/-- compact syntax, with a `pointer_field` of 2 whose bytes complete the previous section: two
deliveries, the previous section from the buffer, then the new one in place -/
example : ∃ sfin, runPl Psi.rawCompact { buf := [0x70, 0x00, 0x03, 0xAA], remaining := some 2 }
      [⟨true, [0x02, 0xBB, 0xCC, 0x71, 0x00, 0x01, 0xDD], 4⟩]
    = .ok (sfin, [⟨[0x70, 0x00, 0x03, 0xAA, 0xBB, 0xCC], none⟩, ⟨[0x71, 0x00, 0x01, 0xDD], some 7⟩]) := by
  have hinv : PsiInv .compact { buf := [0x70, 0x00, 0x03, 0xAA], remaining := some 2 } := by
    intro n hn
    simp only [Option.some.injEq] at hn
    subst hn
    decide
  have h := section_reassembled .compact [0x71, 0x00, 0x01, 0xDD] (by decide)
    ⟨[0xBB, 0xCC], 4, [], [], []⟩ (by decide) _ hinv 4 [] (by simp) rfl
  obtain ⟨sfin, h1, _⟩ := h
  exact ⟨sfin, h1⟩

/-- every section has packetisations of every first-share size: the encoder `chop` produces
continuation payloads that `Carries` accepts -/
example (S : Bytes) (k n : Nat) : Carries (S.drop k) (chop n (S.drop k)) := carries_chop n _

/-- invariant instances: idle; buffering a section-syntax section -/
example : PsiInv .syntax {} := psiInv_init _
example : PsiInvFull .compact {} := psiInvFull_init _
example : PsiInv .syntax { buf := [0x00, 0xB0, 0x09, 1, 2, 3, 4, 5], remaining := some 4 } := by
  intro n hn
  simp only [Option.some.injEq] at hn
  subst hn
  decide

/-- an over-limit header (`section_length = 0x3FE = 1022`) exists -/
example : sectionLength [0x00, 0xB3, 0xFE] > maxSectionLength := by decide

end Ts.Props.C03
