import Ts.Model.Crc
import Ts.Spec.CrcSpec
import Ts.Lemmas.C04
import Ts.Lemmas.C04b
import Ts.Model.App
/-!
# C04 (checksum half) — `sum32` is exactly the CRC-32 of ISO/IEC 13818-1 Annex A

For **every** byte string the model of `mpegts_crc::sum32` (table driven, table and constants
regenerated from the Rust source) returns — without panicking — the value of the Annex A bit-serial
shift register `CrcSpec.crc` (polynomial `0x04C11DB7`, preset all ones, MSB first, no final xor,
no reflection).  Consequently a section followed by its CRC sums to zero, and a corruption
`xorBytes m e` of any message `m` of any length changes the checksum whenever the error pattern `e`
is a single bit, a burst confined to 32 consecutive bit positions, or two bits less than `2^16`
positions apart.

Bit positions: bit `i` of a byte string is bit `7 - i % 8` of byte `i / 8` (`CrcSpec.bitAt`),
i.e. transmission order.

Not claimed (and false for any 32-bit CRC): detection of two flipped bits arbitrarily far apart
(`x` has order `2^32 - 1` modulo the generator).

# C04 (gate half) — PAT / PMT handlers act only on sections whose CRC verifies

With the CRC check compiled in (`bypassCrc = false`, i.e. not `cfg(fuzzing)`):
* `gate_blocks`, `gate_filters` (+ `gate_filters_pat`, `gate_filters_pmt`): the run of the table
  processor over a list of deliveries, under the side condition that every delivery has the syntax
  bit set and ≥ 2 bytes;
* `table_handler_gated`, `table_handler_filtered`: ONE `App.consume` of a PAT / PMT handler on a
  188-byte packet; the side condition is discharged from the reassembly invariant
  `Lemmas.C04b.GateInv` (`gateInv_init`, `consume_table_gateInv`);
* `step_pat_gated`, `step_pmt_gated`: one dispatcher step;
* `requests_only_from_verified`, `requests_history`: every `construct` request in the trace of a
  successful `runApp` is a `ByPid` request or a request computed from a delivered section of at
  least 12 bytes with the syntax bit set and `crc = 0`.

Scope of the error-detection lemmas inside the gate half: they compare a span with a corruption
of THE SAME LENGTH.  A flipped bit in `section_length`, `pointer_field` or the syntax bit changes
WHICH bytes are delivered; the algebraic lemmas say nothing about that case.  It is covered only by
the gate theorems (whatever is delivered must verify before it is acted on), by the harness
enumeration, and by the concrete kernel-checked example `twoPacket_every_bit_blocked` below.
-/
namespace Ts.Props.C04
open Ts Ts.CrcSpec

/-! ### ties to `/repo/src/mpegts_crc.rs` (regenerated `Ts/Gen/CrcTable.lean`) -/

theorem tie_init : Ts.Gen.crcInit = 0xFFFFFFFF := by decide
theorem tie_idx_shift : Ts.Gen.crcIdxShift = 24 := by decide
theorem tie_idx_mask : Ts.Gen.crcIdxMask = 0xFF := by decide
theorem tie_upd_shift : Ts.Gen.crcUpdShift = 8 := by decide
theorem tie_table_size : Ts.Gen.crcTable.size = 256 := by decide +kernel
theorem tie_init_preset : Ts.Gen.crcInit = preset := by decide
theorem tie_modulus : Ts.Crc.M = 2^32 := by decide

/-- every row `i` of the source's `CRC_TABLE` is the bit-serial register after clocking the 8 bits
of byte `i` (MSB first) into a zero register -/
theorem table_ok : ∀ i : Fin 256, Ts.Gen.crcTable[i.val]? = some (run 0 (byteBits i.val)) := by
  decide +kernel

/-- the same, phrased with the public spec function on a one-byte message -/
theorem table_ok_crc0 (i : Fin 256) : Ts.Gen.crcTable[i.val]? = some (crc0 [UInt8.ofNat i.val]) := by
  rw [table_ok i]
  have : (UInt8.ofNat i.val).toNat = i.val := by
    rw [UInt8.toNat_ofNat']; exact Nat.mod_eq_of_lt i.isLt
  unfold crc0 crcFrom
  rw [bits_cons, bits_nil, List.append_nil, this]

/-! ### exactness -/

/-- **`sum32` = Annex A**, for every byte string, with panic freedom -/
theorem sum32_eq_bitserial (d : Bytes) : Ts.Crc.sum32 d = .ok (crc d) := by
  unfold Ts.Crc.sum32 crc
  rw [tie_init_preset]
  exact model_sum32From d preset (by decide) tie_idx_shift tie_idx_mask tie_upd_shift table_ok

theorem sum32_never_panics (d : Bytes) : (Ts.Crc.sum32 d).isOk = true := by
  rw [sum32_eq_bitserial]; rfl

/-- the checksum is a 32-bit value -/
theorem crc_lt (d : Bytes) : crc d < 2^32 := by
  have := crcFrom_lt preset d (by decide)
  rw [M_eq] at this; exact this

/-- transport between the model and the spec for the "sums to zero" test used by the section gate -/
theorem sum32_zero_iff (d : Bytes) : Ts.Crc.sum32 d = .ok 0 ↔ crc d = 0 := by
  rw [sum32_eq_bitserial]
  constructor
  · intro h; injection h
  · intro h; rw [h]

/-! ### a section followed by its CRC sums to zero -/

theorem sum32_append_self (m : Bytes) : crc (m ++ be32 (crc m)) = 0 := by
  unfold crc
  rw [crcFrom_append]
  exact crcFrom_be32_self _ (crcFrom_lt preset m (by decide))

/-- the same for the model: if `sum32 m` returns `v`, then `sum32 (m ++ be32 v)` returns 0 -/
theorem sum32_append_self_model (m : Bytes) (v : Nat) (h : Ts.Crc.sum32 m = .ok v) :
    Ts.Crc.sum32 (m ++ be32 v) = .ok 0 := by
  rw [sum32_eq_bitserial] at h
  injection h with h
  subst h
  rw [sum32_eq_bitserial, sum32_append_self]

/-! ### error detection, for every message length -/

/-- the checksum is affine: corrupting `m` by the pattern `e` xors the checksum with the
zero-preset register of `e` -/
theorem crc_affine (m e : Bytes) (hl : e.length = m.length) :
    crc (xorBytes m e) = crc m ^^^ crc0 e := by
  have := crcFrom_xor m e preset 0 hl (by decide) (by decide)
  rw [Nat.xor_zero] at this
  exact this

/-- core: a nonzero pattern whose set bits lie in a window of 32 bit positions is never a
codeword of the linear part -/
theorem crc0_burst_ne_zero (e : Bytes) (s : Nat) (hne : ∃ i, bitAt e i = 1)
    (hwin : ∀ i, bitAt e i = 1 → s ≤ i ∧ i < s + 32) : crc0 e ≠ 0 := by
  unfold crc0 crcFrom
  apply burst_run (bits e) (bits_allBits e) s
  · obtain ⟨i, hi⟩ := hne; exact ⟨i, by rw [bits_getD]; exact hi⟩
  · intro i hi; rw [bits_getD] at hi; exact hwin i hi

/-- **burst errors up to 32 bits change the checksum** (any message, any length, any position):
`e` is not all-zero and all its set bits lie in `[s, s+32)` -/
theorem detect_burst_le_32_any (m e : Bytes) (s : Nat) (hl : e.length = m.length)
    (hne : ∃ b ∈ e, b ≠ 0) (hwin : ∀ i, bitAt e i = 1 → s ≤ i ∧ i < s + 32) :
    crc (xorBytes m e) ≠ crc m := by
  rw [crc_affine m e hl]
  exact xor_ne_self _ _ (crc0_burst_ne_zero e s (exists_bit_of_nonzero e hne) hwin)

/-- **a valid section (residue 0) hit by a burst of at most 32 bits no longer sums to zero** -/
theorem detect_burst_le_32 (m e : Bytes) (s : Nat) (hl : e.length = m.length) (hm : crc m = 0)
    (hne : ∃ b ∈ e, b ≠ 0) (hwin : ∀ i, bitAt e i = 1 → s ≤ i ∧ i < s + 32) :
    crc (xorBytes m e) ≠ 0 := by
  have := detect_burst_le_32_any m e s hl hne hwin
  rw [hm] at this; exact this

/-- the same for the model's `sum32` -/
theorem sum32_detect_burst_le_32 (m e : Bytes) (s : Nat) (hl : e.length = m.length)
    (hm : Ts.Crc.sum32 m = .ok 0)
    (hne : ∃ b ∈ e, b ≠ 0) (hwin : ∀ i, bitAt e i = 1 → s ≤ i ∧ i < s + 32) :
    Ts.Crc.sum32 (xorBytes m e) ≠ .ok 0 := by
  rw [sum32_eq_bitserial] at hm ⊢
  injection hm with hm
  intro h; injection h with h
  exact detect_burst_le_32 m e s hl hm hne hwin h

/-- **single-bit errors**: `e` has exactly one set bit, at position `p` -/
theorem detect_single_bit (m e : Bytes) (p : Nat) (hl : e.length = m.length) (hm : crc m = 0)
    (hp : bitAt e p = 1) (honly : ∀ i, bitAt e i = 1 → i = p) : crc (xorBytes m e) ≠ 0 := by
  have h0 : crc0 e ≠ 0 :=
    crc0_burst_ne_zero e p ⟨p, hp⟩ (fun i hi => by have := honly i hi; omega)
  rw [crc_affine m e hl, hm, Nat.zero_xor]; exact h0

/-- single-bit errors, concretely: inverting any one bit of any message changes the checksum -/
theorem detect_single_bit_flip_any (m : Bytes) (p : Nat) (hp : p < 8 * m.length) :
    crc (flipBit m p) ≠ crc m := by
  unfold flipBit
  rw [crc_affine m _ (singleBit_length _ _)]
  apply xor_ne_self
  apply crc0_burst_ne_zero _ p
  · exact ⟨p, by rw [bitAt_singleBit _ _ _ hp]; simp⟩
  · intro i hi
    rw [bitAt_singleBit _ _ _ hp] at hi
    by_cases h : i = p
    · omega
    · simp [h] at hi

theorem detect_single_bit_flip (m : Bytes) (p : Nat) (hp : p < 8 * m.length) (hm : crc m = 0) :
    crc (flipBit m p) ≠ 0 := by
  have := detect_single_bit_flip_any m p hp
  rw [hm] at this; exact this

/-- core of double-bit detection -/
theorem crc0_double_ne_zero (e : Bytes) (p q : Nat) (hpq : p < q) (hd : q - p < 65536)
    (hp : bitAt e p = 1) (hq : bitAt e q = 1) (honly : ∀ i, bitAt e i = 1 → i = p ∨ i = q) :
    crc0 e ≠ 0 := by
  unfold crc0 crcFrom
  apply double_run (bits e) (bits_allBits e) p q hpq
  · rw [bits_getD]; exact hp
  · rw [bits_getD]; exact hq
  · intro i hi; rw [bits_getD] at hi; exact honly i hi
  · exact order_gt_2_16 (q - p) (by omega) hd

/-- **double-bit errors**: `e` has exactly two set bits, at positions `p < q` less than `2^16`
bit positions apart (this covers every pair inside a maximum-size 4096-byte section:
`detect_double_bit_section` discharges `hd` from `S.length ≤ 4096`) -/
theorem detect_double_bit (m e : Bytes) (p q : Nat) (hl : e.length = m.length) (hm : crc m = 0)
    (hpq : p < q) (hd : q - p < 65536)
    (hp : bitAt e p = 1) (hq : bitAt e q = 1) (honly : ∀ i, bitAt e i = 1 → i = p ∨ i = q) :
    crc (xorBytes m e) ≠ 0 := by
  rw [crc_affine m e hl, hm, Nat.zero_xor]
  exact crc0_double_ne_zero e p q hpq hd hp hq honly

/-- double-bit errors, concretely: inverting any two distinct bits less than `2^16` positions apart
changes the checksum of any message -/
theorem detect_double_bit_flip_any (m : Bytes) (p q : Nat) (hpq : p < q) (hq : q < 8 * m.length)
    (hd : q - p < 65536) : crc (flipBit (flipBit m p) q) ≠ crc m := by
  have hlen : (flipBit m p).length = m.length := xorBytes_length _ _ (singleBit_length _ _)
  unfold flipBit at hlen ⊢
  rw [crc_affine _ _ (by rw [singleBit_length]), crc_affine m _ (singleBit_length _ _), hlen,
    Nat.xor_assoc]
  apply xor_ne_self
  -- the two single-bit registers add up to the register of the two-bit pattern
  have hx := crcFrom_xor (singleBit m.length p) (singleBit m.length q) 0 0
    (by rw [singleBit_length, singleBit_length]) (by decide) (by decide)
  rw [Nat.xor_zero] at hx
  unfold crc0
  rw [← hx]
  have hb : ∀ i, bitAt (xorBytes (singleBit m.length p) (singleBit m.length q)) i
      = (if i = p then 1 else 0) ^^^ (if i = q then 1 else 0) := by
    intro i
    rw [bitAt_xorBytes _ _ (by rw [singleBit_length, singleBit_length]),
      bitAt_singleBit _ _ _ (by omega), bitAt_singleBit _ _ _ hq]
  apply crc0_double_ne_zero _ p q hpq hd
  · rw [hb]; have : ¬ p = q := by omega
    simp [this]
  · rw [hb]; have : ¬ q = p := by omega
    simp [this]
  · intro i hi
    rw [hb] at hi
    by_cases h1 : i = p
    · exact Or.inl h1
    · by_cases h2 : i = q
      · exact Or.inr h2
      · simp [h1, h2] at hi

theorem detect_double_bit_flip (m : Bytes) (p q : Nat) (hpq : p < q) (hq : q < 8 * m.length)
    (hd : q - p < 65536) (hm : crc m = 0) : crc (flipBit (flipBit m p) q) ≠ 0 := by
  have := detect_double_bit_flip_any m p q hpq hq hd
  rw [hm] at this; exact this

/-! ### non-vacuity -/

/-- a PAT section body (program 1 → PMT PID 0x1e0) and its CRC_32 -/
def patBody : Bytes := [0x00, 0xb0, 0x0d, 0x00, 0x01, 0xc1, 0x00, 0x00, 0x00, 0x01, 0xe1, 0xe0]
def patSection : Bytes := patBody ++ [0x2d, 0x50, 0x78, 0x04]

example : crc patBody = 0x2d507804 := by decide +kernel
example : Ts.Crc.sum32 patBody = .ok 0x2d507804 := by
  rw [sum32_eq_bitserial]; exact congrArg R.ok (by decide +kernel)
example : be32 0x2d507804 = [0x2d, 0x50, 0x78, 0x04] := by decide
example : crc patSection = 0 := by decide +kernel
example : patSection.length = 16 := by decide
/-- the empty message has the preset as checksum; the check value of "123456789" is 0x0376E6E7 -/
example : crc [] = 0xFFFFFFFF := by decide +kernel
example : crc [0x31, 0x32, 0x33, 0x34, 0x35, 0x36, 0x37, 0x38, 0x39] = 0x0376E6E7 := by decide +kernel
/-- a concrete single-bit corruption (bit 37 = bit 2 of byte 4) of the 16-byte section -/
example : flipBit patSection 37 =
    [0x00, 0xb0, 0x0d, 0x00, 0x05, 0xc1, 0x00, 0x00, 0x00, 0x01, 0xe1, 0xe0, 0x2d, 0x50, 0x78, 0x04] := by
  decide +kernel
example : crc (flipBit patSection 37) ≠ 0 := by decide +kernel
example : crc (flipBit patSection 37) ≠ 0 :=
  detect_single_bit_flip patSection 37 (by decide) (by decide +kernel)
/-- a 32-bit burst (pattern `ff 00 00 81` over bytes 3..6) and a double-bit error -/
example : crc (xorBytes patSection [0, 0, 0, 0xff, 0, 0, 0x81, 0, 0, 0, 0, 0, 0, 0, 0, 0]) ≠ 0 := by
  decide +kernel
example : crc (flipBit (flipBit patSection 0) 127) ≠ 0 :=
  detect_double_bit_flip patSection 0 127 (by decide) (by decide) (by decide) (by decide +kernel)
/-- the bound 32 is sharp: the generator itself, a 33-bit pattern, is undetected -/
example : crc0 [0x82, 0x60, 0x8e, 0xdb, 0x80] = 0 := by decide +kernel
/-- the window hypothesis is satisfiable: `singleBit 16 37` has exactly one set bit -/
example : bitAt (singleBit 16 37) 37 = 1 ∧ bitAt (singleBit 16 37) 36 = 0 := by decide +kernel

/-! ## The gate: PAT / PMT processing acts only on sections whose CRC verifies

`App.runDeliveries` is the only path from reassembled sections to `PatProcessor::new_table` /
`PmtProcessor::new_table` (handler requests, queued insertions / removals, `filters_registered`).
With the CRC check compiled in (`bypassCrc = false`, i.e. not `cfg(fuzzing)`) a section reaches
the table processor only if `sum32` of the whole section is zero.

The theorems of this first section are about `runDeliveries` alone and ASSUME, for every delivery,
that the syntax bit is set and that it has at least 2 bytes (otherwise `crcPass` panics on its
`assert!`).  The `Handler` section below discharges that assumption for the deliveries of
`Psi.consume Psi.table` and lifts the gate to `App.consume`, `specStep` and `runApp`. -/
section Gate
open Ts.App Ts.Psi

/-- the CRC layer passes a section iff it is long enough and sums to zero -/
theorem crcPass_iff (data : Bytes) (hs : byteD data 1 &&& 0b1000_0000 ≠ 0) (hl : 2 ≤ data.length) :
    Psi.crcPass false data = .ok (decide (12 ≤ data.length ∧ crc data = 0)) := by
  unfold Psi.crcPass
  rw [byteAt_ok data 1 (by omega)]
  have : (byteD data 1 &&& 0b1000_0000 != 0) = true := by simp [hs]
  simp only [R.ok_bind, assertR, this, if_true, Psi.COMMON, Psi.TSH]
  by_cases h12 : data.length < 3 + 5 + 4
  · have : ¬ 12 ≤ data.length := by omega
    simp [h12, this]
  · have h12' : 12 ≤ data.length := by omega
    simp only [h12, if_false, Bool.false_eq_true]
    rw [sum32_eq_bitserial]
    simp only [R.ok_bind, R.pure_eq]
    congr 1
    simp [h12']
    by_cases hz : crc data = 0 <;> simp [hz]

/-- sections that fail the CRC are invisible to the table processor: the run over all deliveries
equals the run over the verified ones only -/
theorem gate_filters (sect : Ctx → List Nat → Bytes → R (Ctx × List Nat × List (Demux.Change Handler)))
    (c : Ctx) (reg : List Nat) (hb : c.cfg.bypassCrc = false)
    (hcfg : ∀ c' r d c'' r'' ch, sect c' r d = .ok (c'', r'', ch) → c''.cfg = c'.cfg) :
    ∀ (ds : List Delivery),
      (∀ d ∈ ds, byteD d.bytes 1 &&& 0b1000_0000 ≠ 0 ∧ 2 ≤ d.bytes.length) →
      runDeliveries sect c reg ds =
        runDeliveries sect c reg (ds.filter (fun d => decide (12 ≤ d.bytes.length ∧ crc d.bytes = 0))) := by
  intro ds
  induction ds generalizing c reg with
  | nil => intro _; rfl
  | cons d ds ih =>
    intro h
    have hd := h d (List.mem_cons_self ..)
    have hrest : ∀ d' ∈ ds, byteD d'.bytes 1 &&& 0b1000_0000 ≠ 0 ∧ 2 ≤ d'.bytes.length :=
      fun d' hm => h d' (List.mem_cons_of_mem _ hm)
    by_cases hp : (12 ≤ d.bytes.length ∧ crc d.bytes = 0)
    · have hf : (d :: ds).filter (fun d => decide (12 ≤ d.bytes.length ∧ crc d.bytes = 0))
          = d :: ds.filter (fun d => decide (12 ≤ d.bytes.length ∧ crc d.bytes = 0)) := by
        simp [hp]
      rw [hf]
      simp only [runDeliveries, hb, crcPass_iff d.bytes hd.1 hd.2, hp, and_self, decide_true,
        R.ok_bind, if_true]
      cases hs : sect c reg d.bytes with
      | panic s => rfl
      | ok v =>
        obtain ⟨c1, reg1, chg1⟩ := v
        have hc1 : c1.cfg.bypassCrc = false := by rw [hcfg _ _ _ _ _ _ hs]; exact hb
        simp only [R.ok_bind]
        rw [ih c1 reg1 hc1 hrest]
    · have hf : (d :: ds).filter (fun d => decide (12 ≤ d.bytes.length ∧ crc d.bytes = 0))
          = ds.filter (fun d => decide (12 ≤ d.bytes.length ∧ crc d.bytes = 0)) := by
        simp [hp]
      rw [hf]
      simp only [runDeliveries, hb, crcPass_iff d.bytes hd.1 hd.2, hp, decide_false,
        R.ok_bind, Bool.false_eq_true, if_false]
      exact ih c reg hb hrest

/-- **No section whose CRC fails to verify ever causes a handler to be requested, replaced or
removed**: if every delivered section fails the check, the context (trace of `construct`
requests, tag counter), the registered set and the change queue are all untouched. -/
theorem gate_blocks (sect : Ctx → List Nat → Bytes → R (Ctx × List Nat × List (Demux.Change Handler)))
    (c : Ctx) (reg : List Nat) (hb : c.cfg.bypassCrc = false) :
    ∀ (ds : List Delivery),
      (∀ d ∈ ds, byteD d.bytes 1 &&& 0b1000_0000 ≠ 0 ∧ 2 ≤ d.bytes.length ∧ crc d.bytes ≠ 0) →
      runDeliveries sect c reg ds = .ok (c, reg, []) := by
  intro ds
  induction ds with
  | nil => intro _; rfl
  | cons d ds ih =>
    intro h
    have hd := h d (List.mem_cons_self ..)
    have hp : ¬ (12 ≤ d.bytes.length ∧ crc d.bytes = 0) := fun hh => hd.2.2 hh.2
    simp only [runDeliveries, hb, crcPass_iff d.bytes hd.1 hd.2.1, hp, decide_false, R.ok_bind,
      Bool.false_eq_true, if_false]
    exact ih (fun d' hm => h d' (List.mem_cons_of_mem _ hm))

/-- single-bit flip detection on a span of EQUAL length (this is literally
`detect_single_bit_flip`; the statement does not mention the gate): if `m` sums to zero then `m`
with bit `p` inverted does not.  Together with `gate_blocks` / `table_handler_gated` this blocks a
corrupted section only when the reassembler delivers a span of the same length as the original,
i.e. when the flipped bit is NOT in `section_length`, `pointer_field` or the syntax bit.  A flip in
one of those changes WHICH bytes are delivered (or whether anything is delivered); the algebraic
detection lemmas of this file do not apply to that case.  It is covered only by the gate theorems
(whatever span is delivered must itself verify), by the harness enumeration, and on one concrete
two-packet section by `twoPacket_every_bit_blocked`. -/
theorem corrupted_section_blocked (m : Bytes) (p : Nat) (hm : crc m = 0) (hp : p < 8 * m.length) :
    crc (flipBit m p) ≠ 0 := detect_single_bit_flip m p hp hm

end Gate

section Handler
open Ts.App Ts.Psi Ts.Demux Ts.Lemmas.C04b Ts.Lemmas.Proj

/-! ### the processors preserve the configuration: `gate_filters` instantiated -/

theorem patSection_cfg (c : Ctx) (reg : List Nat) (d : Bytes) (c' : Ctx) (reg' : List Nat)
    (chg : List (Change Handler)) (h : App.patSection c reg d = .ok (c', reg', chg)) : c'.cfg = c.cfg :=
  (patSection_produces c reg d c' reg' chg h).1.1

theorem pmtSection_cfg (c : Ctx) (pid : Nat) (reg : List Nat) (d : Bytes) (c' : Ctx) (reg' : List Nat)
    (chg : List (Change Handler)) (h : pmtSection c pid reg d = .ok (c', reg', chg)) : c'.cfg = c.cfg :=
  (pmtSection_produces c pid reg d c' reg' chg h).1.1

/-- `gate_filters` for `PatProcessor` (hypothesis `hcfg` discharged) -/
theorem gate_filters_pat (c : Ctx) (reg : List Nat) (hb : c.cfg.bypassCrc = false) (ds : List Delivery)
    (hds : ∀ d ∈ ds, byteD d.bytes 1 &&& 0b1000_0000 ≠ 0 ∧ 2 ≤ d.bytes.length) :
    runDeliveries App.patSection c reg ds =
      runDeliveries App.patSection c reg (ds.filter (fun d => decide (12 ≤ d.bytes.length ∧ crc d.bytes = 0))) :=
  gate_filters App.patSection c reg hb (fun c' r d c'' r'' ch h => patSection_cfg c' r d c'' r'' ch h) ds hds

/-- `gate_filters` for `PmtProcessor` on any PID (hypothesis `hcfg` discharged) -/
theorem gate_filters_pmt (pid : Nat) (c : Ctx) (reg : List Nat) (hb : c.cfg.bypassCrc = false)
    (ds : List Delivery)
    (hds : ∀ d ∈ ds, byteD d.bytes 1 &&& 0b1000_0000 ≠ 0 ∧ 2 ≤ d.bytes.length) :
    runDeliveries (fun c r d => pmtSection c pid r d) c reg ds =
      runDeliveries (fun c r d => pmtSection c pid r d) c reg
        (ds.filter (fun d => decide (12 ≤ d.bytes.length ∧ crc d.bytes = 0))) :=
  gate_filters _ c reg hb (fun c' r d c'' r'' ch h => pmtSection_cfg c' pid r d c'' r'' ch h) ds hds

/-- `gate_blocks` with the weakest "does not verify" hypothesis: a delivery is blocked as soon as
it is shorter than 12 bytes OR its CRC is not zero -/
theorem gate_blocks' (sect : Ctx → List Nat → Bytes → R (Ctx × List Nat × List (Demux.Change Handler)))
    (c : Ctx) (reg : List Nat) (hb : c.cfg.bypassCrc = false) :
    ∀ (ds : List Delivery),
      (∀ d ∈ ds, byteD d.bytes 1 &&& 0b1000_0000 ≠ 0 ∧ 2 ≤ d.bytes.length
        ∧ ¬ (12 ≤ d.bytes.length ∧ crc d.bytes = 0)) →
      runDeliveries sect c reg ds = .ok (c, reg, []) := by
  intro ds
  induction ds with
  | nil => intro _; rfl
  | cons d ds ih =>
    intro h
    have hd := h d (List.mem_cons_self ..)
    simp only [runDeliveries, hb, crcPass_iff d.bytes hd.1 hd.2.1, hd.2.2, decide_false, R.ok_bind,
      Bool.false_eq_true, if_false]
    exact ih (fun d' hm => h d' (List.mem_cons_of_mem _ hm))

/-! ### handler level: one `consume` of a PAT / PMT handler, side condition discharged -/

/-- **Handler-level gate.**  Hypotheses: the CRC check is compiled in (`hb`); the handler's
section-reassembly state satisfies `GateInv` (`hs`; holds for the initial state `{}` and is
preserved by every `Psi.consume Psi.table` on a 188-byte packet: `gateInv_init`,
`consume_table_gateInv`); the packet has 188 bytes (`hl`); the reassembler returns `(s', ds)` on
it (`hP`); and NO completed section of `ds` verifies (`hbad`: each is shorter than 12 bytes or its
Annex A CRC over the whole section is non-zero).
Conclusion: the PAT handler, and every PMT handler, in reassembly state `s` returns WITHOUT
panicking, with the context `c` literally unchanged (no `construct` request, no tag handed out, no
trace event of any kind — these handlers never emit a `pkt` event), the registered set `reg`
unchanged and an EMPTY change list (nothing inserted, replaced or removed); only the reassembly
state advances to `s'`, which again satisfies `GateInv`. -/
theorem table_handler_gated' (s : Psi.St) (reg : List Nat) (c : Ctx) (pk : Pk) (s' : Psi.St)
    (ds : List Psi.Delivery) (hb : c.cfg.bypassCrc = false) (hs : GateInv s)
    (hl : pk.bytes.length = 188) (hP : Psi.consume Psi.table s pk.bytes = .ok (s', ds))
    (hbad : ∀ d ∈ ds, ¬ (12 ≤ d.bytes.length ∧ crc d.bytes = 0)) :
    App.consume (.pat s reg) c pk = .ok (.pat s' reg, c, []) ∧
    (∀ pid prog, App.consume (.pmt pid prog s reg) c pk = .ok (.pmt pid prog s' reg, c, [])) ∧
    GateInv s' := by
  obtain ⟨hs', hds⟩ := consume_table_gateInv s hs pk.bytes hl s' ds hP
  have hside : ∀ d ∈ ds, byteD d.bytes 1 &&& 0b1000_0000 ≠ 0 ∧ 2 ≤ d.bytes.length
      ∧ ¬ (12 ≤ d.bytes.length ∧ crc d.bytes = 0) :=
    fun d hd => ⟨(hds d hd).1, by have := (hds d hd).2; omega, hbad d hd⟩
  refine ⟨?_, ?_, hs'⟩
  · simp only [App.consume, hP, R.ok_bind, gate_blocks' App.patSection c reg hb ds hside]
    rfl
  · intro pid prog
    simp only [App.consume, hP, R.ok_bind,
      gate_blocks' (fun c r d => pmtSection c pid r d) c reg hb ds hside]
    rfl

/-- the same with the hypothesis in the form "the CRC of every completed section is non-zero" -/
theorem table_handler_gated (s : Psi.St) (reg : List Nat) (c : Ctx) (pk : Pk) (s' : Psi.St)
    (ds : List Psi.Delivery) (hb : c.cfg.bypassCrc = false) (hs : GateInv s)
    (hl : pk.bytes.length = 188) (hP : Psi.consume Psi.table s pk.bytes = .ok (s', ds))
    (hbad : ∀ d ∈ ds, crc d.bytes ≠ 0) :
    App.consume (.pat s reg) c pk = .ok (.pat s' reg, c, []) ∧
    ∀ pid prog, App.consume (.pmt pid prog s reg) c pk = .ok (.pmt pid prog s' reg, c, []) :=
  have h := table_handler_gated' s reg c pk s' ds hb hs hl hP (fun d hd hh => hbad d hd hh.2)
  ⟨h.1, h.2.1⟩

/-- **Handler-level filter**: under the same hypotheses minus `hbad`, what a PAT / PMT handler does
on a packet is what its table processor does on the completed sections that verify (≥ 12 bytes and
Annex A CRC zero), in order; the others are invisible -/
theorem table_handler_filtered (s : Psi.St) (reg : List Nat) (c : Ctx) (pk : Pk) (s' : Psi.St)
    (ds : List Psi.Delivery) (hb : c.cfg.bypassCrc = false) (hs : GateInv s)
    (hl : pk.bytes.length = 188) (hP : Psi.consume Psi.table s pk.bytes = .ok (s', ds)) :
    App.consume (.pat s reg) c pk =
      (runDeliveries App.patSection c reg (ds.filter (fun d => decide (12 ≤ d.bytes.length ∧ crc d.bytes = 0)))
        >>= fun r => R.ok (.pat s' r.2.1, r.1, r.2.2)) ∧
    ∀ pid prog, App.consume (.pmt pid prog s reg) c pk =
      (runDeliveries (fun c r d => pmtSection c pid r d) c reg
          (ds.filter (fun d => decide (12 ≤ d.bytes.length ∧ crc d.bytes = 0)))
        >>= fun r => R.ok (.pmt pid prog s' r.2.1, r.1, r.2.2)) := by
  obtain ⟨_, hds⟩ := consume_table_gateInv s hs pk.bytes hl s' ds hP
  have hside : ∀ d ∈ ds, byteD d.bytes 1 &&& 0b1000_0000 ≠ 0 ∧ 2 ≤ d.bytes.length :=
    fun d hd => ⟨(hds d hd).1, by have := (hds d hd).2; omega⟩
  refine ⟨?_, ?_⟩
  · simp only [App.consume, hP, R.ok_bind, gate_filters_pat c reg hb ds hside]
    rfl
  · intro pid prog
    simp only [App.consume, hP, R.ok_bind, gate_filters_pmt pid c reg hb ds hside]
    rfl

/-! ### dispatcher level: one step -/

/-- one dispatcher step on an unflagged packet whose PID is served by the PAT handler: if no
section completed by this packet verifies, the step returns, the context is unchanged and the
table changes only in that the PAT handler's reassembly state advances -/
theorem step_pat_gated (t : Tab Handler) (c : Ctx) (pk : Pk) (s : Psi.St) (reg : List Nat) (s' : Psi.St)
    (ds : List Psi.Delivery) (hg : t.get pk.pid = some (.pat s reg)) (hf : pk.flagged = false)
    (hb : c.cfg.bypassCrc = false) (hs : GateInv s) (hl : pk.bytes.length = 188)
    (hP : Psi.consume Psi.table s pk.bytes = .ok (s', ds))
    (hbad : ∀ d ∈ ds, ¬ (12 ≤ d.bytes.length ∧ crc d.bytes = 0)) :
    specStep App.sem (t, c) pk = .ok (t.insert pk.pid (.pat s' reg), c) := by
  have hc : t.contains pk.pid = true := (Tab.contains_eq_true_iff t pk.pid).2 ⟨_, hg⟩
  rw [specStep_consume_of_contains App.sem t c pk _ hc hf hg]
  show (App.consume (.pat s reg) c pk >>= _) = _
  rw [(table_handler_gated' s reg c pk s' ds hb hs hl hP hbad).1]
  rfl

/-- the same for a PMT handler -/
theorem step_pmt_gated (t : Tab Handler) (c : Ctx) (pk : Pk) (pid prog : Nat) (s : Psi.St)
    (reg : List Nat) (s' : Psi.St) (ds : List Psi.Delivery)
    (hg : t.get pk.pid = some (.pmt pid prog s reg)) (hf : pk.flagged = false)
    (hb : c.cfg.bypassCrc = false) (hs : GateInv s) (hl : pk.bytes.length = 188)
    (hP : Psi.consume Psi.table s pk.bytes = .ok (s', ds))
    (hbad : ∀ d ∈ ds, ¬ (12 ≤ d.bytes.length ∧ crc d.bytes = 0)) :
    specStep App.sem (t, c) pk = .ok (t.insert pk.pid (.pmt pid prog s' reg), c) := by
  have hc : t.contains pk.pid = true := (Tab.contains_eq_true_iff t pk.pid).2 ⟨_, hg⟩
  rw [specStep_consume_of_contains App.sem t c pk _ hc hf hg]
  show (App.consume (.pmt pid prog s reg) c pk >>= _) = _
  rw [(table_handler_gated' s reg c pk s' ds hb hs hl hP hbad).2.1 pid prog]
  rfl

/-! ### stream level -/

/-- `Verified` (what `Psi.crcPass false` lets through, stated with the model's `sum32`) in terms of
the Annex A bit-serial CRC -/
theorem verified_iff (S : Bytes) :
    Verified S ↔ 12 ≤ S.length ∧ byteD S 1 &&& 0b1000_0000 ≠ 0 ∧ crc S = 0 := by
  unfold Verified
  rw [sum32_zero_iff]

/-- **Stream-level gate ("ever").**  For ANY configuration with the CRC check compiled in and ANY
list of pushed buffers (arbitrary bytes, arbitrary lengths) on which the application run returns
(it always does: C01), every handler request `construct req tag` recorded in the final trace is
either a `ByPid` request (the dispatcher's lookup-or-construct, or `Demultiplex::new`), or one of
the requests the PAT processor (`patRequests S`) or a PMT processor (`pmtRequests pid S`) computes
from a section `S` that has at least 12 bytes, `section_syntax_indicator = 1`, and whose Annex A
CRC over the whole section is zero (equivalently: the model of `mpegts_crc::sum32` returns 0).
The existential does not say WHERE `S` was delivered; `requests_history` does, for one push. -/
theorem requests_only_from_verified (cfg : App.Cfg) (hb : cfg.bypassCrc = false) (pushes : List Bytes)
    (t : Tab Handler) (c : Ctx) (h : runApp cfg pushes = .ok (t, c)) :
    ∀ req tag, Ev.construct req tag ∈ c.trace → (∃ p, req = Req.byPid p) ∨
      ∃ S, 12 ≤ S.length ∧ byteD S 1 &&& 0b1000_0000 ≠ 0 ∧ crc S = 0 ∧ Ts.Crc.sum32 S = .ok 0
        ∧ (req ∈ patRequests S ∨ ∃ pid, req ∈ pmtRequests pid S) := by
  unfold runApp at h
  obtain ⟨hcfg, _, out, hout, hall⟩ := pushAll_gated pushes (App.init cfg) 0 (t, c) hb h
  intro req tag hm
  rw [show (t, c).2 = c from rfl] at hout
  rw [hout, (init_trace cfg).1] at hm
  rcases List.mem_append.1 hm with hm | hm
  · rcases hall _ hm req tag rfl with hp | ⟨S, hv, hr⟩
    · exact Or.inl hp
    · exact Or.inr ⟨S, hv.1, hv.2.1, (sum32_zero_iff S).1 hv.2.2, hv.2.2, hr⟩
  · simp only [List.mem_singleton] at hm
    injection hm with hm _
    exact Or.inl ⟨0, hm⟩

/-- **History form, one push.**  Same hypotheses with a single pushed buffer `buf`: `pks` are the
packets `push` iterates over; every event of the final trace is the initial `ByPid(0)` request or
was appended by the dispatcher step on some packet `pk` of `pks` from the state `(t1, c1)` reached
after the packets before it, and satisfies `StepEv t1 c1 pk`: it is the `ByPid(pk.pid)` request,
or an event of the handler `h0` serving `pk.pid` in that step allowed by `GatedEv h0 pk` — for a
PAT / PMT handler with reassembly state `s`: a request computed from a section `d.bytes` with
`d ∈ ds`, `Psi.consume Psi.table s pk.bytes = .ok (s', ds)` and `Verified d.bytes`; for PES filters
and recorders: not a request. -/
theorem requests_history (cfg : App.Cfg) (hb : cfg.bypassCrc = false) (buf : Bytes)
    (t : Tab Handler) (c : Ctx) (h : runApp cfg [buf] = .ok (t, c)) :
    ∃ pks, frame buf 0 = .ok pks ∧ ∀ e ∈ c.trace, e = Ev.construct (.byPid 0) 0 ∨
      ∃ pre pk post t1 c1, pks = pre ++ pk :: post ∧
        pushSpec App.sem (App.init cfg) pre = .ok (t1, c1) ∧ StepEv t1 c1 pk e := by
  unfold runApp pushAll at h
  obtain ⟨tc1, h1, h⟩ := Ts.Lemmas.C19.R.bind_eq_ok h
  have : tc1 = (t, c) := Ts.Lemmas.C19.R.ok_inj h
  subst this
  unfold push at h1
  obtain ⟨pks, hf, h1⟩ := Ts.Lemmas.C19.R.bind_eq_ok h1
  rw [pushModel_eq_pushSpec] at h1
  obtain ⟨_, _, out, hout, hall⟩ := pushSpec_gated pks (App.init cfg) (t, c) hb h1
  refine ⟨pks, hf, ?_⟩
  intro e hm
  rw [show (t, c).2 = c from rfl] at hout
  rw [hout, (init_trace cfg).1] at hm
  rcases List.mem_append.1 hm with hm | hm
  · exact Or.inr (hall e hm)
  · simp only [List.mem_singleton] at hm
    exact Or.inl hm

end Handler

section Examples
open Ts.App Ts.Demux Ts.Lemmas.C04b
open scoped Ts.Lemmas.C08

/-! ### multi-packet clause: a PAT split over two transport packets, through the whole application
(`Demultiplex::new` + one `push`), by kernel evaluation -/

/-- append the CRC_32 computed by the MODEL of `mpegts_crc::sum32` -/
def sealSection (b : Bytes) : Bytes :=
  match Ts.Crc.sum32 b with
  | .ok v => b ++ be32 v
  | .panic _ => b

/-- first packet on PID 0: unit start, adaptation field of 173 bytes (all stuffing), then
`pointer_field = 0` and the first 9 bytes of `sec` -/
def splitPkt1 (sec : Bytes) : Bytes :=
  [0x47, 0x40, 0x00, 0x30, 173, 0x00] ++ List.replicate 172 0xff ++ [0x00] ++ sec.take 9

/-- second packet on PID 0: continuation, payload only: the rest of `sec`, then `0xff` stuffing -/
def splitPkt2 (sec : Bytes) : Bytes :=
  [0x47, 0x00, 0x00, 0x11] ++ sec.drop 9 ++ List.replicate (184 - (sec.length - 9)) 0xff

def splitStream (sec : Bytes) : Bytes := splitPkt1 sec ++ splitPkt2 sec

/-- the `q`-th payload bit of `splitStream sec` for a 16-byte `sec`: bits 0..79 are the
`pointer_field` and the 9 section bytes in packet 1, bits 80..135 the 7 section bytes in packet 2 -/
def splitBitPos (q : Nat) : Nat := if q < 80 then 8 * 178 + q else 8 * 192 + (q - 80)

/-- the PAT / PMT processor requests (everything except `ByPid`) of a run, oldest first;
`none` if the run panicked -/
def tableRequests : R (Tab Handler × Ctx) → Option (List Req)
  | .ok (_, c) => some (c.trace.reverse.filterMap (fun e =>
      match e with
      | .construct (.byPid _) _ => none
      | .construct r _ => some r
      | _ => none))
  | .panic _ => none

example : sealSection patBody = patSection := by decide +kernel
example : (splitPkt1 patSection).length = 188 ∧ (splitPkt2 patSection).length = 188 := by decide +kernel

/-- the intact two-packet PAT (CRC computed by the model's `sum32`): the run returns and the PAT
processor requests the PMT handler of program 1 -/
theorem twoPacket_intact :
    tableRequests (runApp {} [splitStream (sealSection patBody)]) = some [Req.pmt 0x1e0 1] := by
  decide +kernel

/-- one bit inverted in the SECOND packet (bit 37 of the packet = bit 5 of section byte 9): the run
returns and no PAT / PMT processor request is made -/
theorem twoPacket_second_packet_bit :
    tableRequests (runApp {} [splitPkt1 patSection ++ flipBit (splitPkt2 patSection) 37]) = some [] := by
  decide +kernel



/-- the payload-bit numbering used below: 80 bits in packet 1 (byte 178 = `pointer_field`, bytes
179..187 = section bytes 0..8), 56 bits in packet 2 (bytes 192..198 of the stream = section
bytes 9..15) -/
example : (List.range 136).map splitBitPos
    = (List.range 80).map (· + 8 * 178) ++ (List.range 56).map (· + 8 * 192) := by decide +kernel

theorem twoPacket_every_bit_blocked_a : ∀ q : Fin 68,
    tableRequests (runApp {} [flipBit (splitStream patSection) (splitBitPos q.val)]) = some [] := by
  decide +kernel

theorem twoPacket_every_bit_blocked_b : ∀ q : Fin 68,
    tableRequests (runApp {} [flipBit (splitStream patSection) (splitBitPos (68 + q.val))]) = some [] := by
  decide +kernel

/-- **multi-packet clause on a concrete section, every payload bit** (kernel evaluation of the whole
application model, not an instance of the algebraic lemmas): the 16-byte PAT `patSection` is sent
as 9 + 7 bytes in two packets on PID 0.  Inverting ANY ONE of the 136 payload bits — the
`pointer_field`, `table_id`, the syntax bit, `section_length`, version, the body, the CRC, in the
first or in the second packet — yields a run that returns and makes NO PAT / PMT processor request;
the intact stream makes exactly the request for program 1 (`twoPacket_intact`).  Bits of the
4-byte transport headers, of the adaptation field and of the trailing stuffing are not covered. -/
theorem twoPacket_every_bit_blocked (q : Nat) (hq : q < 136) :
    tableRequests (runApp {} [flipBit (splitStream patSection) (splitBitPos q)]) = some [] := by
  by_cases h : q < 68
  · exact twoPacket_every_bit_blocked_a ⟨q, h⟩
  · have := twoPacket_every_bit_blocked_b ⟨q - 68, by omega⟩
    rwa [show 68 + (q - 68) = q by omega] at this

/-! ### double-bit and burst detection, instantiated -/

theorem bitAt_lt (e : Bytes) (i : Nat) (h : bitAt e i = 1) : i < 8 * e.length := by
  apply Classical.byContradiction
  intro hn
  have h0 : byteD e (i / 8) = 0 := by
    unfold byteD
    rw [List.getD_eq_getElem?_getD, List.getElem?_eq_none (by omega)]
    rfl
  unfold bitAt at h
  rw [h0] at h
  simp at h

/-- **double-bit errors inside one section**: the distance bound `q - p < 65536` of
`detect_double_bit` follows from the section length limit (`S.length ≤ 4096`, i.e. at most
32768 bit positions; the reassembler of this crate even caps sections at 1024 bytes) -/
theorem detect_double_bit_section (S e : Bytes) (p q : Nat) (hl : e.length = S.length)
    (hS : S.length ≤ 4096) (hm : crc S = 0) (hpq : p < q)
    (hp : bitAt e p = 1) (hq : bitAt e q = 1) (honly : ∀ i, bitAt e i = 1 → i = p ∨ i = q) :
    crc (xorBytes S e) ≠ 0 := by
  have := bitAt_lt e q hq
  exact detect_double_bit S e p q hl hm hpq (by omega) hp hq honly

/-- the same for two concrete bit inversions -/
theorem detect_double_bit_flip_section (S : Bytes) (p q : Nat) (hpq : p < q) (hq : q < 8 * S.length)
    (hS : S.length ≤ 4096) (hm : crc S = 0) : crc (flipBit (flipBit S p) q) ≠ 0 :=
  detect_double_bit_flip S p q hpq hq (by omega) hm

example : crc (flipBit (flipBit patSection 3) 120) ≠ 0 :=
  detect_double_bit_flip_section patSection 3 120 (by decide) (by decide) (by decide) (by decide +kernel)

/-- a burst that is NOT a single bit: pattern `ff 00 00 81` over bytes 3..6 (bits 24..55) -/
def burstPattern : Bytes := [0, 0, 0, 0xff, 0, 0, 0x81, 0, 0, 0, 0, 0, 0, 0, 0, 0]

/-- the window hypothesis `hwin` of `detect_burst_le_32` holds for `burstPattern` with `s = 24` -/
theorem burstPattern_window : ∀ i, bitAt burstPattern i = 1 → 24 ≤ i ∧ i < 24 + 32 := by
  intro i hi
  have hlt : i < 128 := bitAt_lt burstPattern i hi
  have key : ∀ j : Fin 128, bitAt burstPattern j.val = 1 → 24 ≤ j.val ∧ j.val < 24 + 32 := by
    decide +kernel
  exact key ⟨i, hlt⟩ hi

/-- `detect_burst_le_32` instantiated on a 10-bit-heavy 32-bit burst -/
example : crc (xorBytes patSection burstPattern) ≠ 0 :=
  detect_burst_le_32 patSection burstPattern 24 (by decide) (by decide +kernel)
    ⟨0xff, by decide, by decide⟩ burstPattern_window

/-! ### non-vacuity of the handler-level gate, single- and multi-packet -/

/-- `patSection` with the last CRC bit inverted -/
def patBad : Bytes := flipBit patSection 127

/-- one transport packet on PID `pid`, unit start, no adaptation field, `pointer_field = 0`,
carrying the whole section `sec` followed by `0xff` stuffing -/
def onePkt (pid : Nat) (sec : Bytes) : Bytes :=
  [0x47, UInt8.ofNat (0x40 ||| (pid >>> 8)), UInt8.ofNat (pid &&& 0xff), 0x10, 0x00] ++ sec
    ++ List.replicate (183 - sec.length) 0xff

/-- **`table_handler_gated` instantiated, single packet**: the corrupt PAT is completed by the
packet (it IS delivered to the CRC layer) and the PAT handler does nothing, in ANY context -/
theorem gated_single_packet (c : Ctx) (hb : c.cfg.bypassCrc = false) (reg : List Nat) :
    App.consume (.pat {} reg) c ⟨onePkt 0 patBad, 0, 0, false, false⟩
      = .ok (.pat { lastVersion := some 0 } reg, c, []) :=
  (table_handler_gated {} reg c ⟨onePkt 0 patBad, 0, 0, false, false⟩ { lastVersion := some 0 }
    [⟨patBad, some 5⟩] hb gateInv_init (by decide +kernel) (by decide +kernel)
    (by intro d hd; simp only [List.mem_singleton] at hd; subst hd; decide +kernel)).1

/-- reassembly state after the first packet of the split PAT: 9 bytes buffered, 7 owed -/
def splitState : Psi.St := { lastVersion := some 0, buf := patSection.take 9, remaining := some 7 }

theorem splitState_reached :
    Psi.consume Psi.table {} (splitPkt1 patSection) = .ok (splitState, []) := by decide +kernel

theorem splitState_inv : GateInv splitState :=
  (consume_table_gateInv {} gateInv_init _ (by decide +kernel) _ _ splitState_reached).1

/-- **`table_handler_gated` instantiated, multi-packet section**: the second packet completes a
section whose last bit was inverted in transit; the handler (PAT, and any PMT handler in the same
reassembly state) does nothing, in ANY context -/
theorem gated_second_packet (c : Ctx) (hb : c.cfg.bypassCrc = false) (reg : List Nat) :
    App.consume (.pat splitState reg) c ⟨splitPkt2 patBad, 188, 0, false, false⟩
      = .ok (.pat { lastVersion := some 0, buf := patBad } reg, c, []) ∧
    ∀ pid prog, App.consume (.pmt pid prog splitState reg) c ⟨splitPkt2 patBad, 188, pid, false, false⟩
      = .ok (.pmt pid prog { lastVersion := some 0, buf := patBad } reg, c, []) := by
  have hP : Psi.consume Psi.table splitState (splitPkt2 patBad)
      = .ok ({ lastVersion := some 0, buf := patBad }, [⟨patBad, none⟩]) := by decide +kernel
  have hbad : ∀ d ∈ [(⟨patBad, none⟩ : Psi.Delivery)], crc d.bytes ≠ 0 := by
    intro d hd; simp only [List.mem_singleton] at hd; subst hd; decide +kernel
  have hlen : (splitPkt2 patBad).length = 188 := by decide +kernel
  refine ⟨(table_handler_gated splitState reg c ⟨splitPkt2 patBad, 188, 0, false, false⟩ _ _ hb
    splitState_inv hlen hP hbad).1, ?_⟩
  intro pid prog
  exact (table_handler_gated splitState reg c ⟨splitPkt2 patBad, 188, pid, false, false⟩ _ _ hb
    splitState_inv hlen hP hbad).2 pid prog

/-! ### the state hypothesis of `table_handler_gated` is needed -/

/-- a reassembly state that satisfies the buffer invariant `PsiInv .syntax` but NOT `SynInv`: eight
bytes buffered whose header has `section_syntax_indicator = 0`, one byte owed -/
def noSynState : Psi.St := { buf := [0x00, 0x30, 0x06, 0, 0, 0, 0, 0], remaining := some 1 }

/-- **`GateInv` cannot be weakened to `PsiInv .syntax`** in `table_handler_gated`: from `noSynState`
a continuation packet completes a 9-byte section without the syntax bit, whose CRC is non-zero,
and the PAT handler PANICS (on the `assert!` of the CRC layer) instead of returning.  (The state is
unreachable: `SynInv` is an invariant, `consume_table_gateInv`.) -/
theorem table_handler_gated_needs_synInv :
    Ts.Lemmas.C03.PsiInv .syntax noSynState ∧ (splitPkt2 []).length = 188
    ∧ Psi.consume Psi.table noSynState (splitPkt2 [])
        = .ok ({ buf := [0x00, 0x30, 0x06, 0, 0, 0, 0, 0, 0xff] },
               [⟨[0x00, 0x30, 0x06, 0, 0, 0, 0, 0, 0xff], none⟩])
    ∧ crc [0x00, 0x30, 0x06, 0, 0, 0, 0, 0, 0xff] ≠ 0
    ∧ (App.consume (.pat noSynState []) { cfg := {} } ⟨splitPkt2 [], 0, 0, false, false⟩).isOk
        = false := by
  refine ⟨?_, by decide +kernel, by decide +kernel, by decide +kernel, by decide +kernel⟩
  intro n hn
  have : n = 1 := by injection hn with hn; exact hn.symm
  subst this
  decide

/-! ### non-vacuity of the stream-level gate: PAT then PMT through the whole application -/

/-- a PMT for program 1 (PCR PID 0x100, one H.264 stream on PID 0x100), without CRC -/
def pmtBody : Bytes :=
  [0x02, 0xb0, 0x12, 0x00, 0x01, 0xc1, 0x00, 0x00, 0xe1, 0x00, 0xf0, 0x00, 0x1b, 0xe1, 0x00, 0xf0, 0x00]
def pmtSectionBytes : Bytes := sealSection pmtBody

example : Verified patSection ∧ patRequests patSection = [Req.pmt 0x1e0 1] := by
  rw [verified_iff]; decide +kernel
example : Verified pmtSectionBytes ∧ pmtRequests 0x1e0 pmtSectionBytes = [Req.stream 0x1e0 0x1b 0x100 0x100 [] []] := by
  rw [verified_iff]; decide +kernel

/-- intact PAT (split over two packets) then intact PMT: the run returns and the requests are
exactly those of `requests_only_from_verified`; with one bit of the PMT inverted the PMT's stream
request is never made -/
theorem app_pat_pmt :
    tableRequests (runApp {} [splitStream patSection ++ onePkt 0x1e0 pmtSectionBytes])
      = some [Req.pmt 0x1e0 1, Req.stream 0x1e0 0x1b 0x100 0x100 [] []]
    ∧ tableRequests (runApp {} [splitStream patSection ++ onePkt 0x1e0 (flipBit pmtSectionBytes 100)])
      = some [Req.pmt 0x1e0 1] := by
  decide +kernel

end Examples

end Ts.Props.C04
