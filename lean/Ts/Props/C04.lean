import Ts.Model.Crc
import Ts.Spec.CrcSpec
import Ts.Lemmas.C04
import Ts.Model.App
/-!
# C04 (checksum half) — `sum32` is exactly the CRC-32 of ISO/IEC 13818-1 Annex A

For **every** byte string the model of `mpegts_crc::sum32` (table driven, table and constants
regenerated from the Rust source) returns — without panicking — the value of the Annex A bit-serial
shift register `CrcSpec.crc` (polynomial `0x04C11DB7`, preset all ones, MSB first, no final xor,
no reflection).  Consequently a section followed by its CRC sums to zero, and a corruption
`xorBytes m e` of any message `m` of any length changes the checksum whenever the error pattern `e`
is a single bit, a burst confined to 32 consecutive bit positions, or two bits less than `2^16`
positions apart.

Bit positions: bit `i` of a byte string is bit `7 - i % 8` of byte `i / 8` (`CrcSpec.bitAt`),
i.e. transmission order.

Not claimed (and false for any 32-bit CRC): detection of two flipped bits arbitrarily far apart
(`x` has order `2^32 - 1` modulo the generator).
-/
namespace Ts.Props.C04
open Ts Ts.CrcSpec

/-! ### ties to `/repo/src/mpegts_crc.rs` (regenerated `Ts/Gen/CrcTable.lean`) -/

theorem tie_init : Ts.Gen.crcInit = 0xFFFFFFFF := by decide
theorem tie_idx_shift : Ts.Gen.crcIdxShift = 24 := by decide
theorem tie_idx_mask : Ts.Gen.crcIdxMask = 0xFF := by decide
theorem tie_upd_shift : Ts.Gen.crcUpdShift = 8 := by decide
theorem tie_table_size : Ts.Gen.crcTable.size = 256 := by decide +kernel
theorem tie_init_preset : Ts.Gen.crcInit = preset := by decide
theorem tie_modulus : Ts.Crc.M = 2^32 := by decide

/-- every row `i` of the source's `CRC_TABLE` is the bit-serial register after clocking the 8 bits
of byte `i` (MSB first) into a zero register -/
theorem table_ok : ∀ i : Fin 256, Ts.Gen.crcTable[i.val]? = some (run 0 (byteBits i.val)) := by
  decide +kernel

/-- the same, phrased with the public spec function on a one-byte message -/
theorem table_ok_crc0 (i : Fin 256) : Ts.Gen.crcTable[i.val]? = some (crc0 [UInt8.ofNat i.val]) := by
  rw [table_ok i]
  have : (UInt8.ofNat i.val).toNat = i.val := by
    rw [UInt8.toNat_ofNat']; exact Nat.mod_eq_of_lt i.isLt
  unfold crc0 crcFrom
  rw [bits_cons, bits_nil, List.append_nil, this]

/-! ### exactness -/

/-- **`sum32` = Annex A**, for every byte string, with panic freedom -/
theorem sum32_eq_bitserial (d : Bytes) : Ts.Crc.sum32 d = .ok (crc d) := by
  unfold Ts.Crc.sum32 crc
  rw [tie_init_preset]
  exact model_sum32From d preset (by decide) tie_idx_shift tie_idx_mask tie_upd_shift table_ok

theorem sum32_never_panics (d : Bytes) : (Ts.Crc.sum32 d).isOk = true := by
  rw [sum32_eq_bitserial]; rfl

/-- the checksum is a 32-bit value -/
theorem crc_lt (d : Bytes) : crc d < 2^32 := by
  have := crcFrom_lt preset d (by decide)
  rw [M_eq] at this; exact this

/-- transport between the model and the spec for the "sums to zero" test used by the section gate -/
theorem sum32_zero_iff (d : Bytes) : Ts.Crc.sum32 d = .ok 0 ↔ crc d = 0 := by
  rw [sum32_eq_bitserial]
  constructor
  · intro h; injection h
  · intro h; rw [h]

/-! ### a section followed by its CRC sums to zero -/

theorem sum32_append_self (m : Bytes) : crc (m ++ be32 (crc m)) = 0 := by
  unfold crc
  rw [crcFrom_append]
  exact crcFrom_be32_self _ (crcFrom_lt preset m (by decide))

/-- the same for the model: if `sum32 m` returns `v`, then `sum32 (m ++ be32 v)` returns 0 -/
theorem sum32_append_self_model (m : Bytes) (v : Nat) (h : Ts.Crc.sum32 m = .ok v) :
    Ts.Crc.sum32 (m ++ be32 v) = .ok 0 := by
  rw [sum32_eq_bitserial] at h
  injection h with h
  subst h
  rw [sum32_eq_bitserial, sum32_append_self]

/-! ### error detection, for every message length -/

/-- the checksum is affine: corrupting `m` by the pattern `e` xors the checksum with the
zero-preset register of `e` -/
theorem crc_affine (m e : Bytes) (hl : e.length = m.length) :
    crc (xorBytes m e) = crc m ^^^ crc0 e := by
  have := crcFrom_xor m e preset 0 hl (by decide) (by decide)
  rw [Nat.xor_zero] at this
  exact this

/-- core: a nonzero pattern whose set bits lie in a window of 32 bit positions is never a
codeword of the linear part -/
theorem crc0_burst_ne_zero (e : Bytes) (s : Nat) (hne : ∃ i, bitAt e i = 1)
    (hwin : ∀ i, bitAt e i = 1 → s ≤ i ∧ i < s + 32) : crc0 e ≠ 0 := by
  unfold crc0 crcFrom
  apply burst_run (bits e) (bits_allBits e) s
  · obtain ⟨i, hi⟩ := hne; exact ⟨i, by rw [bits_getD]; exact hi⟩
  · intro i hi; rw [bits_getD] at hi; exact hwin i hi

/-- **burst errors up to 32 bits change the checksum** (any message, any length, any position):
`e` is not all-zero and all its set bits lie in `[s, s+32)` -/
theorem detect_burst_le_32_any (m e : Bytes) (s : Nat) (hl : e.length = m.length)
    (hne : ∃ b ∈ e, b ≠ 0) (hwin : ∀ i, bitAt e i = 1 → s ≤ i ∧ i < s + 32) :
    crc (xorBytes m e) ≠ crc m := by
  rw [crc_affine m e hl]
  exact xor_ne_self _ _ (crc0_burst_ne_zero e s (exists_bit_of_nonzero e hne) hwin)

/-- **a valid section (residue 0) hit by a burst of at most 32 bits no longer sums to zero** -/
theorem detect_burst_le_32 (m e : Bytes) (s : Nat) (hl : e.length = m.length) (hm : crc m = 0)
    (hne : ∃ b ∈ e, b ≠ 0) (hwin : ∀ i, bitAt e i = 1 → s ≤ i ∧ i < s + 32) :
    crc (xorBytes m e) ≠ 0 := by
  have := detect_burst_le_32_any m e s hl hne hwin
  rw [hm] at this; exact this

/-- the same for the model's `sum32` -/
theorem sum32_detect_burst_le_32 (m e : Bytes) (s : Nat) (hl : e.length = m.length)
    (hm : Ts.Crc.sum32 m = .ok 0)
    (hne : ∃ b ∈ e, b ≠ 0) (hwin : ∀ i, bitAt e i = 1 → s ≤ i ∧ i < s + 32) :
    Ts.Crc.sum32 (xorBytes m e) ≠ .ok 0 := by
  rw [sum32_eq_bitserial] at hm ⊢
  injection hm with hm
  intro h; injection h with h
  exact detect_burst_le_32 m e s hl hm hne hwin h

/-- **single-bit errors**: `e` has exactly one set bit, at position `p` -/
theorem detect_single_bit (m e : Bytes) (p : Nat) (hl : e.length = m.length) (hm : crc m = 0)
    (hp : bitAt e p = 1) (honly : ∀ i, bitAt e i = 1 → i = p) : crc (xorBytes m e) ≠ 0 := by
  have h0 : crc0 e ≠ 0 :=
    crc0_burst_ne_zero e p ⟨p, hp⟩ (fun i hi => by have := honly i hi; omega)
  rw [crc_affine m e hl, hm, Nat.zero_xor]; exact h0

/-- single-bit errors, concretely: inverting any one bit of any message changes the checksum -/
theorem detect_single_bit_flip_any (m : Bytes) (p : Nat) (hp : p < 8 * m.length) :
    crc (flipBit m p) ≠ crc m := by
  unfold flipBit
  rw [crc_affine m _ (singleBit_length _ _)]
  apply xor_ne_self
  apply crc0_burst_ne_zero _ p
  · exact ⟨p, by rw [bitAt_singleBit _ _ _ hp]; simp⟩
  · intro i hi
    rw [bitAt_singleBit _ _ _ hp] at hi
    by_cases h : i = p
    · omega
    · simp [h] at hi

theorem detect_single_bit_flip (m : Bytes) (p : Nat) (hp : p < 8 * m.length) (hm : crc m = 0) :
    crc (flipBit m p) ≠ 0 := by
  have := detect_single_bit_flip_any m p hp
  rw [hm] at this; exact this

/-- core of double-bit detection -/
theorem crc0_double_ne_zero (e : Bytes) (p q : Nat) (hpq : p < q) (hd : q - p < 65536)
    (hp : bitAt e p = 1) (hq : bitAt e q = 1) (honly : ∀ i, bitAt e i = 1 → i = p ∨ i = q) :
    crc0 e ≠ 0 := by
  unfold crc0 crcFrom
  apply double_run (bits e) (bits_allBits e) p q hpq
  · rw [bits_getD]; exact hp
  · rw [bits_getD]; exact hq
  · intro i hi; rw [bits_getD] at hi; exact honly i hi
  · exact order_gt_2_16 (q - p) (by omega) hd

/-- **double-bit errors**: `e` has exactly two set bits, at positions `p < q` less than `2^16`
bit positions apart (covers every pair inside a maximum-size 4096-byte section) -/
theorem detect_double_bit (m e : Bytes) (p q : Nat) (hl : e.length = m.length) (hm : crc m = 0)
    (hpq : p < q) (hd : q - p < 65536)
    (hp : bitAt e p = 1) (hq : bitAt e q = 1) (honly : ∀ i, bitAt e i = 1 → i = p ∨ i = q) :
    crc (xorBytes m e) ≠ 0 := by
  rw [crc_affine m e hl, hm, Nat.zero_xor]
  exact crc0_double_ne_zero e p q hpq hd hp hq honly

/-- double-bit errors, concretely: inverting any two distinct bits less than `2^16` positions apart
changes the checksum of any message -/
theorem detect_double_bit_flip_any (m : Bytes) (p q : Nat) (hpq : p < q) (hq : q < 8 * m.length)
    (hd : q - p < 65536) : crc (flipBit (flipBit m p) q) ≠ crc m := by
  have hlen : (flipBit m p).length = m.length := xorBytes_length _ _ (singleBit_length _ _)
  unfold flipBit at hlen ⊢
  rw [crc_affine _ _ (by rw [singleBit_length]), crc_affine m _ (singleBit_length _ _), hlen,
    Nat.xor_assoc]
  apply xor_ne_self
  -- the two single-bit registers add up to the register of the two-bit pattern
  have hx := crcFrom_xor (singleBit m.length p) (singleBit m.length q) 0 0
    (by rw [singleBit_length, singleBit_length]) (by decide) (by decide)
  rw [Nat.xor_zero] at hx
  unfold crc0
  rw [← hx]
  have hb : ∀ i, bitAt (xorBytes (singleBit m.length p) (singleBit m.length q)) i
      = (if i = p then 1 else 0) ^^^ (if i = q then 1 else 0) := by
    intro i
    rw [bitAt_xorBytes _ _ (by rw [singleBit_length, singleBit_length]),
      bitAt_singleBit _ _ _ (by omega), bitAt_singleBit _ _ _ hq]
  apply crc0_double_ne_zero _ p q hpq hd
  · rw [hb]; have : ¬ p = q := by omega
    simp [this]
  · rw [hb]; have : ¬ q = p := by omega
    simp [this]
  · intro i hi
    rw [hb] at hi
    by_cases h1 : i = p
    · exact Or.inl h1
    · by_cases h2 : i = q
      · exact Or.inr h2
      · simp [h1, h2] at hi

theorem detect_double_bit_flip (m : Bytes) (p q : Nat) (hpq : p < q) (hq : q < 8 * m.length)
    (hd : q - p < 65536) (hm : crc m = 0) : crc (flipBit (flipBit m p) q) ≠ 0 := by
  have := detect_double_bit_flip_any m p q hpq hq hd
  rw [hm] at this; exact this

/-! ### non-vacuity -/

/-- a PAT section body (program 1 → PMT PID 0x1e0) and its CRC_32 -/
def patBody : Bytes := [0x00, 0xb0, 0x0d, 0x00, 0x01, 0xc1, 0x00, 0x00, 0x00, 0x01, 0xe1, 0xe0]
def patSection : Bytes := patBody ++ [0x2d, 0x50, 0x78, 0x04]

example : crc patBody = 0x2d507804 := by decide +kernel
example : Ts.Crc.sum32 patBody = .ok 0x2d507804 := by
  rw [sum32_eq_bitserial]; exact congrArg R.ok (by decide +kernel)
example : be32 0x2d507804 = [0x2d, 0x50, 0x78, 0x04] := by decide
example : crc patSection = 0 := by decide +kernel
example : patSection.length = 16 := by decide
/-- the empty message has the preset as checksum; the check value of "123456789" is 0x0376E6E7 -/
example : crc [] = 0xFFFFFFFF := by decide +kernel
example : crc [0x31, 0x32, 0x33, 0x34, 0x35, 0x36, 0x37, 0x38, 0x39] = 0x0376E6E7 := by decide +kernel
/-- a concrete single-bit corruption (bit 37 = bit 2 of byte 4) of the 16-byte section -/
example : flipBit patSection 37 =
    [0x00, 0xb0, 0x0d, 0x00, 0x05, 0xc1, 0x00, 0x00, 0x00, 0x01, 0xe1, 0xe0, 0x2d, 0x50, 0x78, 0x04] := by
  decide +kernel
example : crc (flipBit patSection 37) ≠ 0 := by decide +kernel
example : crc (flipBit patSection 37) ≠ 0 :=
  detect_single_bit_flip patSection 37 (by decide) (by decide +kernel)
/-- a 32-bit burst (pattern `ff 00 00 81` over bytes 3..6) and a double-bit error -/
example : crc (xorBytes patSection [0, 0, 0, 0xff, 0, 0, 0x81, 0, 0, 0, 0, 0, 0, 0, 0, 0]) ≠ 0 := by
  decide +kernel
example : crc (flipBit (flipBit patSection 0) 127) ≠ 0 :=
  detect_double_bit_flip patSection 0 127 (by decide) (by decide) (by decide) (by decide +kernel)
/-- the bound 32 is sharp: the generator itself, a 33-bit pattern, is undetected -/
example : crc0 [0x82, 0x60, 0x8e, 0xdb, 0x80] = 0 := by decide +kernel
/-- the window hypothesis is satisfiable: `singleBit 16 37` has exactly one set bit -/
example : bitAt (singleBit 16 37) 37 = 1 ∧ bitAt (singleBit 16 37) 36 = 0 := by decide +kernel

/-! ## The gate: PAT / PMT processing acts only on sections whose CRC verifies

`App.runDeliveries` is the only path from reassembled sections to `PatProcessor::new_table` /
`PmtProcessor::new_table` (handler requests, queued insertions / removals, `filters_registered`).
With the CRC check compiled in (`bypassCrc = false`, i.e. not `cfg(fuzzing)`) a section reaches
the table processor only if `sum32` of the whole section is zero. -/
section Gate
open Ts.App Ts.Psi

/-- the CRC layer passes a section iff it is long enough and sums to zero -/
theorem crcPass_iff (data : Bytes) (hs : byteD data 1 &&& 0b1000_0000 ≠ 0) (hl : 2 ≤ data.length) :
    Psi.crcPass false data = .ok (decide (12 ≤ data.length ∧ crc data = 0)) := by
  unfold Psi.crcPass
  rw [byteAt_ok data 1 (by omega)]
  have : (byteD data 1 &&& 0b1000_0000 != 0) = true := by simp [hs]
  simp only [R.ok_bind, assertR, this, if_true, Psi.COMMON, Psi.TSH]
  by_cases h12 : data.length < 3 + 5 + 4
  · have : ¬ 12 ≤ data.length := by omega
    simp [h12, this]
  · have h12' : 12 ≤ data.length := by omega
    simp only [h12, if_false, Bool.false_eq_true]
    rw [sum32_eq_bitserial]
    simp only [R.ok_bind, R.pure_eq]
    congr 1
    simp [h12']
    by_cases hz : crc data = 0 <;> simp [hz]

/-- sections that fail the CRC are invisible to the table processor: the run over all deliveries
equals the run over the verified ones only -/
theorem gate_filters (sect : Ctx → List Nat → Bytes → R (Ctx × List Nat × List (Demux.Change Handler)))
    (c : Ctx) (reg : List Nat) (hb : c.cfg.bypassCrc = false)
    (hcfg : ∀ c' r d c'' r'' ch, sect c' r d = .ok (c'', r'', ch) → c''.cfg = c'.cfg) :
    ∀ (ds : List Delivery),
      (∀ d ∈ ds, byteD d.bytes 1 &&& 0b1000_0000 ≠ 0 ∧ 2 ≤ d.bytes.length) →
      runDeliveries sect c reg ds =
        runDeliveries sect c reg (ds.filter (fun d => decide (12 ≤ d.bytes.length ∧ crc d.bytes = 0))) := by
  intro ds
  induction ds generalizing c reg with
  | nil => intro _; rfl
  | cons d ds ih =>
    intro h
    have hd := h d (List.mem_cons_self ..)
    have hrest : ∀ d' ∈ ds, byteD d'.bytes 1 &&& 0b1000_0000 ≠ 0 ∧ 2 ≤ d'.bytes.length :=
      fun d' hm => h d' (List.mem_cons_of_mem _ hm)
    by_cases hp : (12 ≤ d.bytes.length ∧ crc d.bytes = 0)
    · have hf : (d :: ds).filter (fun d => decide (12 ≤ d.bytes.length ∧ crc d.bytes = 0))
          = d :: ds.filter (fun d => decide (12 ≤ d.bytes.length ∧ crc d.bytes = 0)) := by
        simp [hp]
      rw [hf]
      simp only [runDeliveries, hb, crcPass_iff d.bytes hd.1 hd.2, hp, and_self, decide_true,
        R.ok_bind, if_true]
      cases hs : sect c reg d.bytes with
      | panic s => rfl
      | ok v =>
        obtain ⟨c1, reg1, chg1⟩ := v
        have hc1 : c1.cfg.bypassCrc = false := by rw [hcfg _ _ _ _ _ _ hs]; exact hb
        simp only [R.ok_bind]
        rw [ih c1 reg1 hc1 hrest]
    · have hf : (d :: ds).filter (fun d => decide (12 ≤ d.bytes.length ∧ crc d.bytes = 0))
          = ds.filter (fun d => decide (12 ≤ d.bytes.length ∧ crc d.bytes = 0)) := by
        simp [hp]
      rw [hf]
      simp only [runDeliveries, hb, crcPass_iff d.bytes hd.1 hd.2, hp, decide_false,
        R.ok_bind, Bool.false_eq_true, if_false]
      exact ih c reg hb hrest

/-- **No section whose CRC fails to verify ever causes a handler to be requested, replaced or
removed**: if every delivered section fails the check, the context (trace of `construct`
requests, tag counter), the registered set and the change queue are all untouched. -/
theorem gate_blocks (sect : Ctx → List Nat → Bytes → R (Ctx × List Nat × List (Demux.Change Handler)))
    (c : Ctx) (reg : List Nat) (hb : c.cfg.bypassCrc = false) :
    ∀ (ds : List Delivery),
      (∀ d ∈ ds, byteD d.bytes 1 &&& 0b1000_0000 ≠ 0 ∧ 2 ≤ d.bytes.length ∧ crc d.bytes ≠ 0) →
      runDeliveries sect c reg ds = .ok (c, reg, []) := by
  intro ds
  induction ds with
  | nil => intro _; rfl
  | cons d ds ih =>
    intro h
    have hd := h d (List.mem_cons_self ..)
    have hp : ¬ (12 ≤ d.bytes.length ∧ crc d.bytes = 0) := fun hh => hd.2.2 hh.2
    simp only [runDeliveries, hb, crcPass_iff d.bytes hd.1 hd.2.1, hp, decide_false, R.ok_bind,
      Bool.false_eq_true, if_false]
    exact ih (fun d' hm => h d' (List.mem_cons_of_mem _ hm))

/-- every single-bit corruption of a verified section is blocked by the gate (combines
`detect_single_bit_flip` with `gate_blocks`) -/
theorem corrupted_section_blocked (m : Bytes) (p : Nat) (hm : crc m = 0) (hp : p < 8 * m.length) :
    crc (flipBit m p) ≠ 0 := detect_single_bit_flip m p hp hm

end Gate

end Ts.Props.C04
