import Ts.Model.Crc
import Ts.Spec.CrcSpec
import Ts.Lemmas.C04
import Ts.Lemmas.C04b
import Ts.Lemmas.C04c
import Ts.Model.App
/-!
# C04 (checksum half) — `sum32` is exactly the CRC-32 of ISO/IEC 13818-1 Annex A

For **every** byte string the model of `mpegts_crc::sum32` (table driven, table and constants
regenerated from the Rust source) returns — without panicking — the value of the Annex A bit-serial
shift register `CrcSpec.crc` (polynomial `0x04C11DB7`, preset all ones, MSB first, no final xor,
no reflection).  Consequently a section followed by its CRC sums to zero, and a corruption
`xorBytes m e` of any message `m` of any length changes the checksum whenever the error pattern `e`
is a single bit, a burst confined to 32 consecutive bit positions, or two bits less than `2^16`
positions apart.

Bit positions: bit `i` of a byte string is bit `7 - i % 8` of byte `i / 8` (`CrcSpec.bitAt`),
i.e. transmission order.

Not claimed (and false for any 32-bit CRC): detection of two flipped bits arbitrarily far apart
(`x` has order `2^32 - 1` modulo the generator).

# C04 (gate half) — PAT / PMT handlers act only on sections whose CRC verifies

With the CRC check compiled in (`bypassCrc = false`, i.e. not `cfg(fuzzing)`):
* `gate_blocks`, `gate_filters` (+ `gate_filters_pat`, `gate_filters_pmt`): the run of the table
  processor over a list of deliveries, under the side condition that every delivery has the syntax
  bit set and ≥ 2 bytes;
* `table_handler_gated`, `table_handler_filtered`: ONE `App.consume` of a PAT / PMT handler on a
  188-byte packet; the side condition is discharged from the reassembly invariant
  `Lemmas.C04b.GateInv` (`gateInv_init`, `consume_table_gateInv`);
* `step_pat_gated`, `step_pmt_gated`: one dispatcher step;
* `requests_from_verified_delivery` (= `GateStatement cfg pushes` for every `pushes`), built on
  `requests_history_run` and `runApp_is_fold`: for ANY list of pushes (any chunking) every PAT / PMT
  processor request in the trace of a successful `runApp` was computed, at an identified framed
  packet `pk` of the run and in the state reached after the packets before it, from a section that
  the requesting handler's own reassembler delivered on `pk` and that has at least 12 bytes, the
  syntax bit set and `crc = 0`.  `requests_history` is the one-push special case.
  `gate_statement_fails_without_crc_check`: the same statement is FALSE for `bypassCrc = true`.
* `requests_only_from_verified`: the WEAK existential corollary (`∃ S, Verified S ∧ …` with `S` not
  tied to the input); by `reseal` it does not by itself distinguish a working gate
  (`weak_form_holds_without_crc_check`).  Do not rely on it as the gate statement.
* `blocked_run_keeps_table`: along any run, a stretch of packets served by PAT / PMT handlers that
  complete only sections failing the gate leaves the context and every table slot (up to
  reassembly state) unchanged — nothing requested, inserted, replaced or removed.
* `crc_fail_causes_reapplication` (KNOWN FINDING F12): the property sentence's causal reading
  ("no section whose CRC fails ever CAUSES …") is false on the pinned code: a CRC-failing copy with a
  flipped `version_number` bit makes the next intact, unchanged copy be applied again.  What is
  proved is the statement above: every request is computed from a verified, delivered section.

Scope of the error-detection lemmas inside the gate half: they compare a span with a corruption
of THE SAME LENGTH.  A flipped bit in `section_length`, `pointer_field` or the syntax bit changes
WHICH bytes are delivered; the algebraic lemmas say nothing about that case.  It is covered only by
the gate theorems (whatever is delivered must verify before it is acted on), by the harness
enumeration, and by the concrete kernel-checked example `twoPacket_every_bit_blocked` below.
-/
namespace Ts.Props.C04
open Ts Ts.CrcSpec

/-! ### ties to `/repo/src/mpegts_crc.rs` (regenerated `Ts/Gen/CrcTable.lean`) -/

theorem tie_init : Ts.Gen.crcInit = 0xFFFFFFFF := by decide
theorem tie_idx_shift : Ts.Gen.crcIdxShift = 24 := by decide
theorem tie_idx_mask : Ts.Gen.crcIdxMask = 0xFF := by decide
theorem tie_upd_shift : Ts.Gen.crcUpdShift = 8 := by decide
theorem tie_table_size : Ts.Gen.crcTable.size = 256 := by decide +kernel
theorem tie_init_preset : Ts.Gen.crcInit = preset := by decide
theorem tie_modulus : Ts.Crc.M = 2^32 := by decide

/-- every row `i` of the source's `CRC_TABLE` is the bit-serial register after clocking the 8 bits
of byte `i` (MSB first) into a zero register -/
theorem table_ok : ∀ i : Fin 256, Ts.Gen.crcTable[i.val]? = some (run 0 (byteBits i.val)) := by
  decide +kernel

/-- the same, phrased with the public spec function on a one-byte message -/
theorem table_ok_crc0 (i : Fin 256) : Ts.Gen.crcTable[i.val]? = some (crc0 [UInt8.ofNat i.val]) := by
  rw [table_ok i]
  have : (UInt8.ofNat i.val).toNat = i.val := by
    rw [UInt8.toNat_ofNat']; exact Nat.mod_eq_of_lt i.isLt
  unfold crc0 crcFrom
  rw [bits_cons, bits_nil, List.append_nil, this]

/-! ### exactness -/

/-- **`sum32` = Annex A**, for every byte string, with panic freedom -/
theorem sum32_eq_bitserial (d : Bytes) : Ts.Crc.sum32 d = .ok (crc d) := by
  unfold Ts.Crc.sum32 crc
  rw [tie_init_preset]
  exact model_sum32From d preset (by decide) tie_idx_shift tie_idx_mask tie_upd_shift table_ok

theorem sum32_never_panics (d : Bytes) : (Ts.Crc.sum32 d).isOk = true := by
  rw [sum32_eq_bitserial]; rfl

/-- the checksum is a 32-bit value -/
theorem crc_lt (d : Bytes) : crc d < 2^32 := by
  have := crcFrom_lt preset d (by decide)
  rw [M_eq] at this; exact this

/-- transport between the model and the spec for the "sums to zero" test used by the section gate -/
theorem sum32_zero_iff (d : Bytes) : Ts.Crc.sum32 d = .ok 0 ↔ crc d = 0 := by
  rw [sum32_eq_bitserial]
  constructor
  · intro h; injection h
  · intro h; rw [h]

/-! ### a section followed by its CRC sums to zero -/

theorem sum32_append_self (m : Bytes) : crc (m ++ be32 (crc m)) = 0 := by
  unfold crc
  rw [crcFrom_append]
  exact crcFrom_be32_self _ (crcFrom_lt preset m (by decide))

/-- the same for the model: if `sum32 m` returns `v`, then `sum32 (m ++ be32 v)` returns 0 -/
theorem sum32_append_self_model (m : Bytes) (v : Nat) (h : Ts.Crc.sum32 m = .ok v) :
    Ts.Crc.sum32 (m ++ be32 v) = .ok 0 := by
  rw [sum32_eq_bitserial] at h
  injection h with h
  subst h
  rw [sum32_eq_bitserial, sum32_append_self]

/-! ### error detection, for every message length -/

/-- the checksum is affine: corrupting `m` by the pattern `e` xors the checksum with the
zero-preset register of `e` -/
theorem crc_affine (m e : Bytes) (hl : e.length = m.length) :
    crc (xorBytes m e) = crc m ^^^ crc0 e := by
  have := crcFrom_xor m e preset 0 hl (by decide) (by decide)
  rw [Nat.xor_zero] at this
  exact this

/-- core: a nonzero pattern whose set bits lie in a window of 32 bit positions is never a
codeword of the linear part -/
theorem crc0_burst_ne_zero (e : Bytes) (s : Nat) (hne : ∃ i, bitAt e i = 1)
    (hwin : ∀ i, bitAt e i = 1 → s ≤ i ∧ i < s + 32) : crc0 e ≠ 0 := by
  unfold crc0 crcFrom
  apply burst_run (bits e) (bits_allBits e) s
  · obtain ⟨i, hi⟩ := hne; exact ⟨i, by rw [bits_getD]; exact hi⟩
  · intro i hi; rw [bits_getD] at hi; exact hwin i hi

/-- **burst errors up to 32 bits change the checksum** (any message, any length, any position):
`e` is not all-zero and all its set bits lie in `[s, s+32)` -/
theorem detect_burst_le_32_any (m e : Bytes) (s : Nat) (hl : e.length = m.length)
    (hne : ∃ b ∈ e, b ≠ 0) (hwin : ∀ i, bitAt e i = 1 → s ≤ i ∧ i < s + 32) :
    crc (xorBytes m e) ≠ crc m := by
  rw [crc_affine m e hl]
  exact xor_ne_self _ _ (crc0_burst_ne_zero e s (exists_bit_of_nonzero e hne) hwin)

/-- **a valid section (residue 0) hit by a burst of at most 32 bits no longer sums to zero** -/
theorem detect_burst_le_32 (m e : Bytes) (s : Nat) (hl : e.length = m.length) (hm : crc m = 0)
    (hne : ∃ b ∈ e, b ≠ 0) (hwin : ∀ i, bitAt e i = 1 → s ≤ i ∧ i < s + 32) :
    crc (xorBytes m e) ≠ 0 := by
  have := detect_burst_le_32_any m e s hl hne hwin
  rw [hm] at this; exact this

/-- the same for the model's `sum32` -/
theorem sum32_detect_burst_le_32 (m e : Bytes) (s : Nat) (hl : e.length = m.length)
    (hm : Ts.Crc.sum32 m = .ok 0)
    (hne : ∃ b ∈ e, b ≠ 0) (hwin : ∀ i, bitAt e i = 1 → s ≤ i ∧ i < s + 32) :
    Ts.Crc.sum32 (xorBytes m e) ≠ .ok 0 := by
  rw [sum32_eq_bitserial] at hm ⊢
  injection hm with hm
  intro h; injection h with h
  exact detect_burst_le_32 m e s hl hm hne hwin h

/-- **single-bit errors**: `e` has exactly one set bit, at position `p` -/
theorem detect_single_bit (m e : Bytes) (p : Nat) (hl : e.length = m.length) (hm : crc m = 0)
    (hp : bitAt e p = 1) (honly : ∀ i, bitAt e i = 1 → i = p) : crc (xorBytes m e) ≠ 0 := by
  have h0 : crc0 e ≠ 0 :=
    crc0_burst_ne_zero e p ⟨p, hp⟩ (fun i hi => by have := honly i hi; omega)
  rw [crc_affine m e hl, hm, Nat.zero_xor]; exact h0

/-- single-bit errors, concretely: inverting any one bit of any message changes the checksum -/
theorem detect_single_bit_flip_any (m : Bytes) (p : Nat) (hp : p < 8 * m.length) :
    crc (flipBit m p) ≠ crc m := by
  unfold flipBit
  rw [crc_affine m _ (singleBit_length _ _)]
  apply xor_ne_self
  apply crc0_burst_ne_zero _ p
  · exact ⟨p, by rw [bitAt_singleBit _ _ _ hp]; simp⟩
  · intro i hi
    rw [bitAt_singleBit _ _ _ hp] at hi
    by_cases h : i = p
    · omega
    · simp [h] at hi

theorem detect_single_bit_flip (m : Bytes) (p : Nat) (hp : p < 8 * m.length) (hm : crc m = 0) :
    crc (flipBit m p) ≠ 0 := by
  have := detect_single_bit_flip_any m p hp
  rw [hm] at this; exact this

/-- core of double-bit detection -/
theorem crc0_double_ne_zero (e : Bytes) (p q : Nat) (hpq : p < q) (hd : q - p < 65536)
    (hp : bitAt e p = 1) (hq : bitAt e q = 1) (honly : ∀ i, bitAt e i = 1 → i = p ∨ i = q) :
    crc0 e ≠ 0 := by
  unfold crc0 crcFrom
  apply double_run (bits e) (bits_allBits e) p q hpq
  · rw [bits_getD]; exact hp
  · rw [bits_getD]; exact hq
  · intro i hi; rw [bits_getD] at hi; exact honly i hi
  · exact order_gt_2_16 (q - p) (by omega) hd

/-- **double-bit errors**: `e` has exactly two set bits, at positions `p < q` less than `2^16`
bit positions apart (this covers every pair inside a maximum-size 4096-byte section:
`detect_double_bit_section` discharges `hd` from `S.length ≤ 4096`) -/
theorem detect_double_bit (m e : Bytes) (p q : Nat) (hl : e.length = m.length) (hm : crc m = 0)
    (hpq : p < q) (hd : q - p < 65536)
    (hp : bitAt e p = 1) (hq : bitAt e q = 1) (honly : ∀ i, bitAt e i = 1 → i = p ∨ i = q) :
    crc (xorBytes m e) ≠ 0 := by
  rw [crc_affine m e hl, hm, Nat.zero_xor]
  exact crc0_double_ne_zero e p q hpq hd hp hq honly

/-- double-bit errors, concretely: inverting any two distinct bits less than `2^16` positions apart
changes the checksum of any message -/
theorem detect_double_bit_flip_any (m : Bytes) (p q : Nat) (hpq : p < q) (hq : q < 8 * m.length)
    (hd : q - p < 65536) : crc (flipBit (flipBit m p) q) ≠ crc m := by
  have hlen : (flipBit m p).length = m.length := xorBytes_length _ _ (singleBit_length _ _)
  unfold flipBit at hlen ⊢
  rw [crc_affine _ _ (by rw [singleBit_length]), crc_affine m _ (singleBit_length _ _), hlen,
    Nat.xor_assoc]
  apply xor_ne_self
  -- the two single-bit registers add up to the register of the two-bit pattern
  have hx := crcFrom_xor (singleBit m.length p) (singleBit m.length q) 0 0
    (by rw [singleBit_length, singleBit_length]) (by decide) (by decide)
  rw [Nat.xor_zero] at hx
  unfold crc0
  rw [← hx]
  have hb : ∀ i, bitAt (xorBytes (singleBit m.length p) (singleBit m.length q)) i
      = (if i = p then 1 else 0) ^^^ (if i = q then 1 else 0) := by
    intro i
    rw [bitAt_xorBytes _ _ (by rw [singleBit_length, singleBit_length]),
      bitAt_singleBit _ _ _ (by omega), bitAt_singleBit _ _ _ hq]
  apply crc0_double_ne_zero _ p q hpq hd
  · rw [hb]; have : ¬ p = q := by omega
    simp [this]
  · rw [hb]; have : ¬ q = p := by omega
    simp [this]
  · intro i hi
    rw [hb] at hi
    by_cases h1 : i = p
    · exact Or.inl h1
    · by_cases h2 : i = q
      · exact Or.inr h2
      · simp [h1, h2] at hi

theorem detect_double_bit_flip (m : Bytes) (p q : Nat) (hpq : p < q) (hq : q < 8 * m.length)
    (hd : q - p < 65536) (hm : crc m = 0) : crc (flipBit (flipBit m p) q) ≠ 0 := by
  have := detect_double_bit_flip_any m p q hpq hq hd
  rw [hm] at this; exact this

/-! ### non-vacuity -/

/-- a PAT section body (program 1 → PMT PID 0x1e0) and its CRC_32 -/
def patBody : Bytes := [0x00, 0xb0, 0x0d, 0x00, 0x01, 0xc1, 0x00, 0x00, 0x00, 0x01, 0xe1, 0xe0]
def patSection : Bytes := patBody ++ [0x2d, 0x50, 0x78, 0x04]

example : crc patBody = 0x2d507804 := by decide +kernel
example : Ts.Crc.sum32 patBody = .ok 0x2d507804 := by
  rw [sum32_eq_bitserial]; exact congrArg R.ok (by decide +kernel)
example : be32 0x2d507804 = [0x2d, 0x50, 0x78, 0x04] := by decide
example : crc patSection = 0 := by decide +kernel
example : patSection.length = 16 := by decide
/-- the empty message has the preset as checksum; the check value of "123456789" is 0x0376E6E7 -/
example : crc [] = 0xFFFFFFFF := by decide +kernel
example : crc [0x31, 0x32, 0x33, 0x34, 0x35, 0x36, 0x37, 0x38, 0x39] = 0x0376E6E7 := by decide +kernel
/-- a concrete single-bit corruption (bit 37 = bit 2 of byte 4) of the 16-byte section -/
example : flipBit patSection 37 =
    [0x00, 0xb0, 0x0d, 0x00, 0x05, 0xc1, 0x00, 0x00, 0x00, 0x01, 0xe1, 0xe0, 0x2d, 0x50, 0x78, 0x04] := by
  decide +kernel
example : crc (flipBit patSection 37) ≠ 0 := by decide +kernel
example : crc (flipBit patSection 37) ≠ 0 :=
  detect_single_bit_flip patSection 37 (by decide) (by decide +kernel)
/-- a 32-bit burst (pattern `ff 00 00 81` over bytes 3..6) and a double-bit error -/
example : crc (xorBytes patSection [0, 0, 0, 0xff, 0, 0, 0x81, 0, 0, 0, 0, 0, 0, 0, 0, 0]) ≠ 0 := by
  decide +kernel
example : crc (flipBit (flipBit patSection 0) 127) ≠ 0 :=
  detect_double_bit_flip patSection 0 127 (by decide) (by decide) (by decide) (by decide +kernel)
/-- the bound 32 is sharp: the generator itself, a 33-bit pattern, is undetected -/
example : crc0 [0x82, 0x60, 0x8e, 0xdb, 0x80] = 0 := by decide +kernel
/-- the window hypothesis is satisfiable: `singleBit 16 37` has exactly one set bit -/
example : bitAt (singleBit 16 37) 37 = 1 ∧ bitAt (singleBit 16 37) 36 = 0 := by decide +kernel

/-! ## The gate: PAT / PMT processing acts only on sections whose CRC verifies

`App.runDeliveries` is the only path from reassembled sections to `PatProcessor::new_table` /
`PmtProcessor::new_table` (handler requests, queued insertions / removals, `filters_registered`).
With the CRC check compiled in (`bypassCrc = false`, i.e. not `cfg(fuzzing)`) a section reaches
the table processor only if `sum32` of the whole section is zero.

The theorems of this first section are about `runDeliveries` alone and ASSUME, for every delivery,
that the syntax bit is set and that it has at least 2 bytes (otherwise `crcPass` panics on its
`assert!`).  The `Handler` section below discharges that assumption for the deliveries of
`Psi.consume Psi.table` and lifts the gate to `App.consume`, `specStep` and `runApp`. -/
section Gate
open Ts.App Ts.Psi

/-- the CRC layer passes a section iff it is long enough and sums to zero -/
theorem crcPass_iff (data : Bytes) (hs : byteD data 1 &&& 0b1000_0000 ≠ 0) (hl : 2 ≤ data.length) :
    Psi.crcPass false data = .ok (decide (12 ≤ data.length ∧ crc data = 0)) := by
  unfold Psi.crcPass
  rw [byteAt_ok data 1 (by omega)]
  have : (byteD data 1 &&& 0b1000_0000 != 0) = true := by simp [hs]
  simp only [R.ok_bind, assertR, this, if_true, Psi.COMMON, Psi.TSH]
  by_cases h12 : data.length < 3 + 5 + 4
  · have : ¬ 12 ≤ data.length := by omega
    simp [h12, this]
  · have h12' : 12 ≤ data.length := by omega
    simp only [h12, if_false, Bool.false_eq_true]
    rw [sum32_eq_bitserial]
    simp only [R.ok_bind, R.pure_eq]
    congr 1
    simp [h12']
    by_cases hz : crc data = 0 <;> simp [hz]

/-- sections that fail the CRC are invisible to the table processor: the run over all deliveries
equals the run over the verified ones only -/
theorem gate_filters (sect : Ctx → List Nat → Bytes → R (Ctx × List Nat × List (Demux.Change Handler)))
    (c : Ctx) (reg : List Nat) (hb : c.cfg.bypassCrc = false)
    (hcfg : ∀ c' r d c'' r'' ch, sect c' r d = .ok (c'', r'', ch) → c''.cfg = c'.cfg) :
    ∀ (ds : List Delivery),
      (∀ d ∈ ds, byteD d.bytes 1 &&& 0b1000_0000 ≠ 0 ∧ 2 ≤ d.bytes.length) →
      runDeliveries sect c reg ds =
        runDeliveries sect c reg (ds.filter (fun d => decide (12 ≤ d.bytes.length ∧ crc d.bytes = 0))) := by
  intro ds
  induction ds generalizing c reg with
  | nil => intro _; rfl
  | cons d ds ih =>
    intro h
    have hd := h d (List.mem_cons_self ..)
    have hrest : ∀ d' ∈ ds, byteD d'.bytes 1 &&& 0b1000_0000 ≠ 0 ∧ 2 ≤ d'.bytes.length :=
      fun d' hm => h d' (List.mem_cons_of_mem _ hm)
    by_cases hp : (12 ≤ d.bytes.length ∧ crc d.bytes = 0)
    · have hf : (d :: ds).filter (fun d => decide (12 ≤ d.bytes.length ∧ crc d.bytes = 0))
          = d :: ds.filter (fun d => decide (12 ≤ d.bytes.length ∧ crc d.bytes = 0)) := by
        simp [hp]
      rw [hf]
      simp only [runDeliveries, hb, crcPass_iff d.bytes hd.1 hd.2, hp, and_self, decide_true,
        R.ok_bind, if_true]
      cases hs : sect c reg d.bytes with
      | panic s => rfl
      | ok v =>
        obtain ⟨c1, reg1, chg1⟩ := v
        have hc1 : c1.cfg.bypassCrc = false := by rw [hcfg _ _ _ _ _ _ hs]; exact hb
        simp only [R.ok_bind]
        rw [ih c1 reg1 hc1 hrest]
    · have hf : (d :: ds).filter (fun d => decide (12 ≤ d.bytes.length ∧ crc d.bytes = 0))
          = ds.filter (fun d => decide (12 ≤ d.bytes.length ∧ crc d.bytes = 0)) := by
        simp [hp]
      rw [hf]
      simp only [runDeliveries, hb, crcPass_iff d.bytes hd.1 hd.2, hp, decide_false,
        R.ok_bind, Bool.false_eq_true, if_false]
      exact ih c reg hb hrest

/-- ONE call of `runDeliveries` (the CRC layer in front of a table processor `sect`), nothing
more: with the check compiled in (`hb`), if EVERY section of the list `ds` has the syntax bit set,
at least 2 bytes and a non-zero Annex A CRC over the whole section, the call returns with the
context (trace of `construct` requests, tag counter), the registered set and the change queue all
untouched — `sect` is never invoked.  This says nothing about later calls (a later, intact section
is processed as usual, and whether the reassembler DELIVERS it may depend on the failed one: known
finding F12, `crc_fail_causes_reapplication`), nothing about where `ds` comes from (see
`table_handler_gated`), and nothing about a list in which some section verifies (see
`gate_filters`).  Run-level statements: `requests_from_verified_delivery`,
`blocked_run_keeps_table`. -/
theorem gate_blocks (sect : Ctx → List Nat → Bytes → R (Ctx × List Nat × List (Demux.Change Handler)))
    (c : Ctx) (reg : List Nat) (hb : c.cfg.bypassCrc = false) :
    ∀ (ds : List Delivery),
      (∀ d ∈ ds, byteD d.bytes 1 &&& 0b1000_0000 ≠ 0 ∧ 2 ≤ d.bytes.length ∧ crc d.bytes ≠ 0) →
      runDeliveries sect c reg ds = .ok (c, reg, []) := by
  intro ds
  induction ds with
  | nil => intro _; rfl
  | cons d ds ih =>
    intro h
    have hd := h d (List.mem_cons_self ..)
    have hp : ¬ (12 ≤ d.bytes.length ∧ crc d.bytes = 0) := fun hh => hd.2.2 hh.2
    simp only [runDeliveries, hb, crcPass_iff d.bytes hd.1 hd.2.1, hp, decide_false, R.ok_bind,
      Bool.false_eq_true, if_false]
    exact ih (fun d' hm => h d' (List.mem_cons_of_mem _ hm))

/-- single-bit flip detection on a span of EQUAL length (this is literally
`detect_single_bit_flip`; the statement does not mention the gate): if `m` sums to zero then `m`
with bit `p` inverted does not.  Together with `gate_blocks` / `table_handler_gated` this blocks a
corrupted section only when the reassembler delivers a span of the same length as the original,
i.e. when the flipped bit is NOT in `section_length`, `pointer_field` or the syntax bit.  A flip in
one of those changes WHICH bytes are delivered (or whether anything is delivered); the algebraic
detection lemmas of this file do not apply to that case.  It is covered only by the gate theorems
(whatever span is delivered must itself verify), by the harness enumeration, and on one concrete
two-packet section by `twoPacket_every_bit_blocked`. -/
theorem corrupted_section_blocked (m : Bytes) (p : Nat) (hm : crc m = 0) (hp : p < 8 * m.length) :
    crc (flipBit m p) ≠ 0 := detect_single_bit_flip m p hp hm

end Gate

section Handler
open Ts.App Ts.Psi Ts.Demux Ts.Lemmas.C04b Ts.Lemmas.C04c Ts.Lemmas.Proj

/-! ### the processors preserve the configuration: `gate_filters` instantiated -/

theorem patSection_cfg (c : Ctx) (reg : List Nat) (d : Bytes) (c' : Ctx) (reg' : List Nat)
    (chg : List (Change Handler)) (h : App.patSection c reg d = .ok (c', reg', chg)) : c'.cfg = c.cfg :=
  (patSection_produces c reg d c' reg' chg h).1.1

theorem pmtSection_cfg (c : Ctx) (pid : Nat) (reg : List Nat) (d : Bytes) (c' : Ctx) (reg' : List Nat)
    (chg : List (Change Handler)) (h : pmtSection c pid reg d = .ok (c', reg', chg)) : c'.cfg = c.cfg :=
  (pmtSection_produces c pid reg d c' reg' chg h).1.1

/-- `gate_filters` for `PatProcessor` (hypothesis `hcfg` discharged) -/
theorem gate_filters_pat (c : Ctx) (reg : List Nat) (hb : c.cfg.bypassCrc = false) (ds : List Delivery)
    (hds : ∀ d ∈ ds, byteD d.bytes 1 &&& 0b1000_0000 ≠ 0 ∧ 2 ≤ d.bytes.length) :
    runDeliveries App.patSection c reg ds =
      runDeliveries App.patSection c reg (ds.filter (fun d => decide (12 ≤ d.bytes.length ∧ crc d.bytes = 0))) :=
  gate_filters App.patSection c reg hb (fun c' r d c'' r'' ch h => patSection_cfg c' r d c'' r'' ch h) ds hds

/-- `gate_filters` for `PmtProcessor` on any PID (hypothesis `hcfg` discharged) -/
theorem gate_filters_pmt (pid : Nat) (c : Ctx) (reg : List Nat) (hb : c.cfg.bypassCrc = false)
    (ds : List Delivery)
    (hds : ∀ d ∈ ds, byteD d.bytes 1 &&& 0b1000_0000 ≠ 0 ∧ 2 ≤ d.bytes.length) :
    runDeliveries (fun c r d => pmtSection c pid r d) c reg ds =
      runDeliveries (fun c r d => pmtSection c pid r d) c reg
        (ds.filter (fun d => decide (12 ≤ d.bytes.length ∧ crc d.bytes = 0))) :=
  gate_filters _ c reg hb (fun c' r d c'' r'' ch h => pmtSection_cfg c' pid r d c'' r'' ch h) ds hds

/-- `gate_blocks` with the weakest "does not verify" hypothesis: a delivery is blocked as soon as
it is shorter than 12 bytes OR its CRC is not zero -/
theorem gate_blocks' (sect : Ctx → List Nat → Bytes → R (Ctx × List Nat × List (Demux.Change Handler)))
    (c : Ctx) (reg : List Nat) (hb : c.cfg.bypassCrc = false) :
    ∀ (ds : List Delivery),
      (∀ d ∈ ds, byteD d.bytes 1 &&& 0b1000_0000 ≠ 0 ∧ 2 ≤ d.bytes.length
        ∧ ¬ (12 ≤ d.bytes.length ∧ crc d.bytes = 0)) →
      runDeliveries sect c reg ds = .ok (c, reg, []) := by
  intro ds
  induction ds with
  | nil => intro _; rfl
  | cons d ds ih =>
    intro h
    have hd := h d (List.mem_cons_self ..)
    simp only [runDeliveries, hb, crcPass_iff d.bytes hd.1 hd.2.1, hd.2.2, decide_false, R.ok_bind,
      Bool.false_eq_true, if_false]
    exact ih (fun d' hm => h d' (List.mem_cons_of_mem _ hm))

/-! ### handler level: one `consume` of a PAT / PMT handler, side condition discharged -/

/-- **Handler-level gate.**  Hypotheses: the CRC check is compiled in (`hb`); the handler's
section-reassembly state satisfies `GateInv` (`hs`; holds for the initial state `{}` and is
preserved by every `Psi.consume Psi.table` on a 188-byte packet: `gateInv_init`,
`consume_table_gateInv`); the packet has 188 bytes (`hl`); the reassembler returns `(s', ds)` on
it (`hP`); and NO completed section of `ds` verifies (`hbad`: each is shorter than 12 bytes or its
Annex A CRC over the whole section is non-zero).
Conclusion: the PAT handler, and every PMT handler, in reassembly state `s` returns WITHOUT
panicking, with the context `c` literally unchanged (no `construct` request, no tag handed out, no
trace event of any kind — these handlers never emit a `pkt` event), the registered set `reg`
unchanged and an EMPTY change list (nothing inserted, replaced or removed); only the reassembly
state advances to `s'`, which again satisfies `GateInv`. -/
theorem table_handler_gated' (s : Psi.St) (reg : List Nat) (c : Ctx) (pk : Pk) (s' : Psi.St)
    (ds : List Psi.Delivery) (hb : c.cfg.bypassCrc = false) (hs : GateInv s)
    (hl : pk.bytes.length = 188) (hP : Psi.consume Psi.table s pk.bytes = .ok (s', ds))
    (hbad : ∀ d ∈ ds, ¬ (12 ≤ d.bytes.length ∧ crc d.bytes = 0)) :
    App.consume (.pat s reg) c pk = .ok (.pat s' reg, c, []) ∧
    (∀ pid prog, App.consume (.pmt pid prog s reg) c pk = .ok (.pmt pid prog s' reg, c, [])) ∧
    GateInv s' := by
  obtain ⟨hs', hds⟩ := consume_table_gateInv s hs pk.bytes hl s' ds hP
  have hside : ∀ d ∈ ds, byteD d.bytes 1 &&& 0b1000_0000 ≠ 0 ∧ 2 ≤ d.bytes.length
      ∧ ¬ (12 ≤ d.bytes.length ∧ crc d.bytes = 0) :=
    fun d hd => ⟨(hds d hd).1, by have := (hds d hd).2; omega, hbad d hd⟩
  refine ⟨?_, ?_, hs'⟩
  · simp only [App.consume, hP, R.ok_bind, gate_blocks' App.patSection c reg hb ds hside]
    rfl
  · intro pid prog
    simp only [App.consume, hP, R.ok_bind,
      gate_blocks' (fun c r d => pmtSection c pid r d) c reg hb ds hside]
    rfl

/-- the same with the hypothesis in the form "the CRC of every completed section is non-zero" -/
theorem table_handler_gated (s : Psi.St) (reg : List Nat) (c : Ctx) (pk : Pk) (s' : Psi.St)
    (ds : List Psi.Delivery) (hb : c.cfg.bypassCrc = false) (hs : GateInv s)
    (hl : pk.bytes.length = 188) (hP : Psi.consume Psi.table s pk.bytes = .ok (s', ds))
    (hbad : ∀ d ∈ ds, crc d.bytes ≠ 0) :
    App.consume (.pat s reg) c pk = .ok (.pat s' reg, c, []) ∧
    ∀ pid prog, App.consume (.pmt pid prog s reg) c pk = .ok (.pmt pid prog s' reg, c, []) :=
  have h := table_handler_gated' s reg c pk s' ds hb hs hl hP (fun d hd hh => hbad d hd hh.2)
  ⟨h.1, h.2.1⟩

/-- **Handler-level filter**: under the same hypotheses minus `hbad`, what a PAT / PMT handler does
on a packet is what its table processor does on the completed sections that verify (≥ 12 bytes and
Annex A CRC zero), in order; the others are invisible -/
theorem table_handler_filtered (s : Psi.St) (reg : List Nat) (c : Ctx) (pk : Pk) (s' : Psi.St)
    (ds : List Psi.Delivery) (hb : c.cfg.bypassCrc = false) (hs : GateInv s)
    (hl : pk.bytes.length = 188) (hP : Psi.consume Psi.table s pk.bytes = .ok (s', ds)) :
    App.consume (.pat s reg) c pk =
      (runDeliveries App.patSection c reg (ds.filter (fun d => decide (12 ≤ d.bytes.length ∧ crc d.bytes = 0)))
        >>= fun r => R.ok (.pat s' r.2.1, r.1, r.2.2)) ∧
    ∀ pid prog, App.consume (.pmt pid prog s reg) c pk =
      (runDeliveries (fun c r d => pmtSection c pid r d) c reg
          (ds.filter (fun d => decide (12 ≤ d.bytes.length ∧ crc d.bytes = 0)))
        >>= fun r => R.ok (.pmt pid prog s' r.2.1, r.1, r.2.2)) := by
  obtain ⟨_, hds⟩ := consume_table_gateInv s hs pk.bytes hl s' ds hP
  have hside : ∀ d ∈ ds, byteD d.bytes 1 &&& 0b1000_0000 ≠ 0 ∧ 2 ≤ d.bytes.length :=
    fun d hd => ⟨(hds d hd).1, by have := (hds d hd).2; omega⟩
  refine ⟨?_, ?_⟩
  · simp only [App.consume, hP, R.ok_bind, gate_filters_pat c reg hb ds hside]
    rfl
  · intro pid prog
    simp only [App.consume, hP, R.ok_bind, gate_filters_pmt pid c reg hb ds hside]
    rfl

/-! ### dispatcher level: one step -/

/-- one dispatcher step on an unflagged packet whose PID is served by the PAT handler: if no
section completed by this packet verifies, the step returns, the context is unchanged and the
table changes only in that the PAT handler's reassembly state advances -/
theorem step_pat_gated (t : Tab Handler) (c : Ctx) (pk : Pk) (s : Psi.St) (reg : List Nat) (s' : Psi.St)
    (ds : List Psi.Delivery) (hg : t.get pk.pid = some (.pat s reg)) (hf : pk.flagged = false)
    (hb : c.cfg.bypassCrc = false) (hs : GateInv s) (hl : pk.bytes.length = 188)
    (hP : Psi.consume Psi.table s pk.bytes = .ok (s', ds))
    (hbad : ∀ d ∈ ds, ¬ (12 ≤ d.bytes.length ∧ crc d.bytes = 0)) :
    specStep App.sem (t, c) pk = .ok (t.insert pk.pid (.pat s' reg), c) := by
  have hc : t.contains pk.pid = true := (Tab.contains_eq_true_iff t pk.pid).2 ⟨_, hg⟩
  rw [specStep_consume_of_contains App.sem t c pk _ hc hf hg]
  show (App.consume (.pat s reg) c pk >>= _) = _
  rw [(table_handler_gated' s reg c pk s' ds hb hs hl hP hbad).1]
  rfl

/-- the same for a PMT handler -/
theorem step_pmt_gated (t : Tab Handler) (c : Ctx) (pk : Pk) (pid prog : Nat) (s : Psi.St)
    (reg : List Nat) (s' : Psi.St) (ds : List Psi.Delivery)
    (hg : t.get pk.pid = some (.pmt pid prog s reg)) (hf : pk.flagged = false)
    (hb : c.cfg.bypassCrc = false) (hs : GateInv s) (hl : pk.bytes.length = 188)
    (hP : Psi.consume Psi.table s pk.bytes = .ok (s', ds))
    (hbad : ∀ d ∈ ds, ¬ (12 ≤ d.bytes.length ∧ crc d.bytes = 0)) :
    specStep App.sem (t, c) pk = .ok (t.insert pk.pid (.pmt pid prog s' reg), c) := by
  have hc : t.contains pk.pid = true := (Tab.contains_eq_true_iff t pk.pid).2 ⟨_, hg⟩
  rw [specStep_consume_of_contains App.sem t c pk _ hc hf hg]
  show (App.consume (.pmt pid prog s reg) c pk >>= _) = _
  rw [(table_handler_gated' s reg c pk s' ds hb hs hl hP hbad).2.1 pid prog]
  rfl

/-! ### stream level -/

/-- `Verified` (what `Psi.crcPass false` lets through, stated with the model's `sum32`) in terms of
the Annex A bit-serial CRC -/
theorem verified_iff (S : Bytes) :
    Verified S ↔ 12 ≤ S.length ∧ byteD S 1 &&& 0b1000_0000 ≠ 0 ∧ crc S = 0 := by
  unfold Verified
  rw [sum32_zero_iff]

/-- the whole application run is the packet-at-a-time fold `pushSpec` over `framedAll pushes 0`, the
concatenation, in order, of the packets each `push` frames out of its own buffer (incomplete tails
dropped); any number of pushes, any lengths -/
theorem runApp_is_fold (cfg : App.Cfg) (pushes : List Bytes) :
    runApp cfg pushes = pushSpec App.sem (App.init cfg) (framedAll pushes 0) :=
  runApp_eq_pushSpec cfg pushes

/-- **History form, any run.**  For ANY configuration with the CRC check compiled in (`hb`) and ANY
list of pushed buffers on which the application run returns (`h`): every event of the final trace
is the initial `ByPid(0)` request of `Demultiplex::new`, or was appended by the dispatcher step on
some packet `pk` of `framedAll pushes 0` (all framed packets of all pushes, in order) from the state
`(t1, c1)` that the run had reached after the packets before it, and satisfies `StepEv t1 c1 pk`:
it is the `ByPid(pk.pid)` request, or an event of the handler `h0` serving `pk.pid` in that step
allowed by `GatedEv h0 pk` — for a PAT / PMT handler with reassembly state `s`: a request computed
from a section `d.bytes` with `d ∈ ds`, `Psi.consume Psi.table s pk.bytes = .ok (s', ds)` and
`Verified d.bytes`; for PES filters and recorders: not a request. -/
theorem requests_history_run (cfg : App.Cfg) (hb : cfg.bypassCrc = false) (pushes : List Bytes)
    (t : Tab Handler) (c : Ctx) (h : runApp cfg pushes = .ok (t, c)) :
    ∀ e ∈ c.trace, e = Ev.construct (.byPid 0) 0 ∨
      ∃ pre pk post t1 c1, framedAll pushes 0 = pre ++ pk :: post ∧
        pushSpec App.sem (App.init cfg) pre = .ok (t1, c1) ∧ StepEv t1 c1 pk e :=
  runApp_history cfg hb pushes t c h

/-- The gate statement for one run `runApp cfg pushes`, as a proposition about `cfg` and `pushes`
(no hypothesis on `cfg.bypassCrc`, so that it can be refuted for a build without the check:
`gate_statement_fails_without_crc_check`): if the run returns, every handler request
`construct req tag` in its final trace is a `ByPid` request, or there is a framed packet `pk` of the
run such that, in the state `(t1, c1)` reached after the packets before `pk`, `req` is
`FromVerifiedDelivery t1 c1 pk`: the handler serving `pk.pid` in `t1` is a PAT (resp. PMT) handler
with reassembly state `s`, `Psi.consume Psi.table s pk.bytes = .ok (s', ds)`, and `req` is one of
`patRequests d.bytes` (resp. `pmtRequests pid d.bytes`) for a section `d ∈ ds` delivered ON THAT
PACKET with `Verified d.bytes` (≥ 12 bytes, syntax bit set, `sum32` of the whole section is 0). -/
def GateStatement (cfg : App.Cfg) (pushes : List Bytes) : Prop :=
  ∀ t c, runApp cfg pushes = .ok (t, c) → ∀ req tag, Ev.construct req tag ∈ c.trace →
    (∃ p, req = Req.byPid p) ∨
      ∃ pre pk post t1 c1, framedAll pushes 0 = pre ++ pk :: post ∧
        pushSpec App.sem (App.init cfg) pre = .ok (t1, c1) ∧ FromVerifiedDelivery t1 c1 pk req

/-- **Stream-level gate ("ever"), strong form.**  With the CRC check compiled in, `GateStatement`
holds for EVERY list of pushed buffers (arbitrary bytes, lengths and chunking): every PAT / PMT
processor request of the run is computed from a section that the requesting handler's own
reassembler delivered, on an identified packet of the run, in the reachable state at that point,
and that section satisfies `Verified`.
What this does NOT say: that a section which failed the check has no influence on WHICH later
sections are delivered.  It has (known finding F12, `crc_fail_causes_reapplication`): the
reassembler records `version_number` before the CRC is known. -/
theorem requests_from_verified_delivery (cfg : App.Cfg) (hb : cfg.bypassCrc = false)
    (pushes : List Bytes) : GateStatement cfg pushes := by
  intro t c h req tag hm
  rcases requests_history_run cfg hb pushes t c h _ hm with he | ⟨pre, pk, post, t1, c1, h1, h2, h3⟩
  · injection he with he _
    exact Or.inl ⟨0, he⟩
  · rcases fromVerifiedDelivery_of_stepEv t1 c1 pk req tag h3 with hp | hv
    · exact Or.inl ⟨pk.pid, hp⟩
    · exact Or.inr ⟨pre, pk, post, t1, c1, h1, h2, hv⟩

/-- the table body `&data[8 .. data.len() - 4]` (all a table processor reads besides `table_id`)
does not contain the last four bytes -/
theorem secBody_append (m x : Bytes) (hx : x.length = 4) (hm : 8 ≤ m.length) :
    secBody (m ++ x) = m.drop 8 := by
  unfold secBody
  rw [List.length_append, hx, List.drop_append_of_le_length hm]
  have : m.length + 4 - 4 - 8 = (m.drop 8).length := by rw [List.length_drop]; omega
  rw [this, List.take_left]

/-- **Why the existential form below is weak: `reseal`.**  For ANY byte string `S` of at least 12
bytes with the syntax bit set — whatever its last four bytes, i.e. CRC right or wrong — the string
`S'` obtained by replacing the last four bytes by the Annex A CRC of the rest satisfies `Verified`
and yields exactly the same PAT requests and, on every PID, the same PMT requests (the processors
never read the CRC bytes).  So `∃ S, Verified S ∧ req ∈ patRequests S` holds as soon as
`req ∈ patRequests S₀` for ANY `S₀` of ≥ 12 bytes with the syntax bit set. -/
theorem reseal (S : Bytes) (h12 : 12 ≤ S.length) (hsyn : byteD S 1 &&& 0b1000_0000 ≠ 0) :
    ∃ S', Verified S' ∧ S'.length = S.length ∧ S'.take (S.length - 4) = S.take (S.length - 4)
      ∧ patRequests S' = patRequests S ∧ ∀ pid, pmtRequests pid S' = pmtRequests pid S := by
  have hm : (S.take (S.length - 4)).length = S.length - 4 := by rw [List.length_take]; omega
  have hS : S = S.take (S.length - 4) ++ S.drop (S.length - 4) := (List.take_append_drop _ _).symm
  have hd : (S.drop (S.length - 4)).length = 4 := by rw [List.length_drop]; omega
  have hb : (be32 (crc (S.take (S.length - 4)))).length = 4 := rfl
  have hbody : secBody (S.take (S.length - 4) ++ be32 (crc (S.take (S.length - 4)))) = secBody S := by
    rw [secBody_append _ _ hb (by omega)]
    conv => rhs; rw [hS]
    rw [secBody_append _ _ hd (by omega)]
  have hbyte : ∀ i, i < 8 → byteD (S.take (S.length - 4) ++ be32 (crc (S.take (S.length - 4)))) i
      = byteD S i := by
    intro i hi
    rw [Ts.Lemmas.C03.byteD_append_left _ _ _ (by omega), byteD_take _ _ _ (by omega)]
  refine ⟨S.take (S.length - 4) ++ be32 (crc (S.take (S.length - 4))), ?_, ?_, ?_, ?_, ?_⟩
  · rw [verified_iff]
    refine ⟨by rw [List.length_append, hm, hb]; omega, by rw [hbyte 1 (by omega)]; exact hsyn,
      sum32_append_self _⟩
  · rw [List.length_append, hm, hb]; omega
  · exact List.take_left' hm
  · unfold patRequests
    rw [hbyte 0 (by omega), hbody]
  · intro pid
    unfold pmtRequests
    rw [hbyte 0 (by omega), hbody]

/-- **Stream-level gate, WEAK existential corollary** (kept for its users; the statement to rely on
is `requests_from_verified_delivery`, of which this is a consequence obtained by forgetting where
the section was delivered).  For any configuration with the CRC check compiled in and any list of
pushed buffers on which the run returns, every handler request `construct req tag` in the final
trace is a `ByPid` request, or one of the requests the PAT processor (`patRequests S`) or a PMT
processor (`pmtRequests pid S`) computes from SOME byte string `S` with at least 12 bytes,
`section_syntax_indicator = 1` and Annex A CRC zero.
WARNING: `S` is not tied to the input.  By `reseal`, any `S₀` of ≥ 12 bytes with the syntax bit
set can be replaced by a verified `S` with the same requests, so this statement BY ITSELF does not
distinguish a working CRC gate from one that lets every such section through
(`weak_form_holds_without_crc_check` exhibits it on a run without the check); it only excludes
requests that no section at all could produce. -/
theorem requests_only_from_verified (cfg : App.Cfg) (hb : cfg.bypassCrc = false) (pushes : List Bytes)
    (t : Tab Handler) (c : Ctx) (h : runApp cfg pushes = .ok (t, c)) :
    ∀ req tag, Ev.construct req tag ∈ c.trace → (∃ p, req = Req.byPid p) ∨
      ∃ S, 12 ≤ S.length ∧ byteD S 1 &&& 0b1000_0000 ≠ 0 ∧ crc S = 0 ∧ Ts.Crc.sum32 S = .ok 0
        ∧ (req ∈ patRequests S ∨ ∃ pid, req ∈ pmtRequests pid S) := by
  intro req tag hm
  rcases requests_from_verified_delivery cfg hb pushes t c h req tag hm with hp
    | ⟨_, pk, _, t1, c1, _, _, hv⟩
  · exact Or.inl hp
  · obtain ⟨S, hv, hr⟩ := fromVerifiedDelivery_weaken t1 c1 pk req hv
    exact Or.inr ⟨S, hv.1, hv.2.1, (sum32_zero_iff S).1 hv.2.2, hv.2.2, hr⟩

/-- **History form, one push** (the special case `pushes = [buf]` of `requests_history_run`, kept
for its users; `framedAll [buf] 0 = pks` by `framedAll_single`).  Same hypotheses with a single
pushed buffer `buf`: `pks` are the
packets `push` iterates over; every event of the final trace is the initial `ByPid(0)` request or
was appended by the dispatcher step on some packet `pk` of `pks` from the state `(t1, c1)` reached
after the packets before it, and satisfies `StepEv t1 c1 pk`: it is the `ByPid(pk.pid)` request,
or an event of the handler `h0` serving `pk.pid` in that step allowed by `GatedEv h0 pk` — for a
PAT / PMT handler with reassembly state `s`: a request computed from a section `d.bytes` with
`d ∈ ds`, `Psi.consume Psi.table s pk.bytes = .ok (s', ds)` and `Verified d.bytes`; for PES filters
and recorders: not a request. -/
theorem requests_history (cfg : App.Cfg) (hb : cfg.bypassCrc = false) (buf : Bytes)
    (t : Tab Handler) (c : Ctx) (h : runApp cfg [buf] = .ok (t, c)) :
    ∃ pks, frame buf 0 = .ok pks ∧ ∀ e ∈ c.trace, e = Ev.construct (.byPid 0) 0 ∨
      ∃ pre pk post t1 c1, pks = pre ++ pk :: post ∧
        pushSpec App.sem (App.init cfg) pre = .ok (t1, c1) ∧ StepEv t1 c1 pk e := by
  unfold runApp pushAll at h
  obtain ⟨tc1, h1, h⟩ := Ts.Lemmas.C19.R.bind_eq_ok h
  have : tc1 = (t, c) := Ts.Lemmas.C19.R.ok_inj h
  subst this
  unfold push at h1
  obtain ⟨pks, hf, h1⟩ := Ts.Lemmas.C19.R.bind_eq_ok h1
  rw [pushModel_eq_pushSpec] at h1
  obtain ⟨_, _, out, hout, hall⟩ := pushSpec_gated pks (App.init cfg) (t, c) hb h1
  refine ⟨pks, hf, ?_⟩
  intro e hm
  rw [show (t, c).2 = c from rfl] at hout
  rw [hout, (init_trace cfg).1] at hm
  rcases List.mem_append.1 hm with hm | hm
  · exact Or.inr (hall e hm)
  · simp only [List.mem_singleton] at hm
    exact Or.inl hm

/-! ### run level: the table ("replaced or removed") -/

/-- a completed section that the CRC layer (check compiled in) does not let through: shorter than
12 bytes, or Annex A CRC over the whole section non-zero -/
def FailsGate (b : Bytes) : Prop := ¬ (12 ≤ b.length ∧ crc b = 0)

/-- `step_pat_gated` / `step_pmt_gated` in one statement: the handler `h` serving `pk.pid` is a PAT
or PMT handler (`tableSt h = some s`) -/
theorem step_table_gated (t : Tab Handler) (c : Ctx) (pk : Pk) (h : Handler) (s s' : Psi.St)
    (ds : List Psi.Delivery) (hb : c.cfg.bypassCrc = false) (hg : t.get pk.pid = some h)
    (hst : tableSt h = some s) (hs : GateInv s) (hf : pk.flagged = false)
    (hl : pk.bytes.length = 188) (hP : Psi.consume Psi.table s pk.bytes = .ok (s', ds))
    (hbad : ∀ d ∈ ds, FailsGate d.bytes) :
    specStep App.sem (t, c) pk = .ok (t.insert pk.pid (withSt h s'), c) := by
  cases h with
  | pat s0 reg =>
    injection hst with hst; subst hst
    exact step_pat_gated t c pk s0 reg s' ds hg hf hb hs hl hP hbad
  | pmt pid prog s0 reg =>
    injection hst with hst; subst hst
    exact step_pmt_gated t c pk pid prog s0 reg s' ds hg hf hb hs hl hP hbad
  | pes _ _ => cases hst
  | recorder _ => cases hst

/-- **Run-level gate for the table ("replaced or removed").**  Take ANY run with the CRC check
compiled in (`hb`), split its framed packets as `pre ++ bad ++ post` (`hsplit`), let `(t1, c1)` be
the state the run has reached after `pre` (`hpre`), and suppose `BlockedRun FailsGate t1 bad`
(`hbad`): every packet of `bad` is unflagged and — in the table as it stands when the packet is
reached — is served by a PAT or PMT handler whose reassembler returns on it and completes ONLY
sections that fail the gate (`FailsGate`: < 12 bytes or non-zero CRC; possibly none at all).
Then the run over `bad` returns (`pushSpec … = .ok (t2, c1)`), the context `c1` is literally
unchanged (no request, no tag, no event), every slot of the table holds the same handler as before
up to its section-reassembly state (`forgetSt`: same kind, same PMT PID / program number, same
`reg` = `filters_registered`; PES filters and recorders identical; empty slots stay empty) — so
nothing was inserted, replaced or removed — and slots of PIDs that do not occur in `bad` are
identical.  `blockedRun_of_check` reduces `hbad` to an evaluation.
NOT claimed: that the packets of `post` are then treated as if `bad` had not been sent — the
reassembly state (in particular `lastVersion`) did advance: F12, `crc_fail_causes_reapplication`. -/
theorem blocked_run_keeps_table (cfg : App.Cfg) (hb : cfg.bypassCrc = false) (pushes : List Bytes)
    (pre bad post : List Pk) (hsplit : framedAll pushes 0 = pre ++ bad ++ post)
    (t1 : Tab Handler) (c1 : Ctx) (hpre : pushSpec App.sem (App.init cfg) pre = .ok (t1, c1))
    (hbad : BlockedRun FailsGate t1 bad) :
    ∃ t2, pushSpec App.sem (t1, c1) bad = .ok (t2, c1)
      ∧ (∀ q, (t2.get q).map forgetSt = (t1.get q).map forgetSt)
      ∧ (∀ q, (∀ pk ∈ bad, pk.pid ≠ q) → t2.get q = t1.get q) := by
  have hb1 : c1.cfg.bypassCrc = false := by
    have := (pushSpec_gated pre (App.init cfg) (t1, c1) hb hpre).1
    rw [show (t1, c1).2.cfg = c1.cfg from rfl] at this
    rw [this]; exact hb
  have hgate : TabGate t1 :=
    reachable_tabGate cfg pushes pre (bad ++ post) (by rw [hsplit, List.append_assoc]) t1 c1 hpre
  have hlen : ∀ pk ∈ bad, pk.bytes.length = 188 := fun pk hm =>
    framedAll_len pushes 0 pk (by
      rw [hsplit]; exact List.mem_append_left _ (List.mem_append_right _ hm))
  exact pushSpec_blocked FailsGate
    (fun t c pk h s s' ds hb hg hst hs hf hl hP hbad =>
      step_table_gated t c pk h s s' ds hb hg hst hs hf hl hP hbad)
    bad t1 c1 hb1 hgate hlen hbad

/-- a Boolean evaluator for the hypothesis `BlockedRun FailsGate t pks` -/
def blockedRunB : Tab Handler → List Pk → Bool
  | _, [] => true
  | t, pk :: rest => !pk.flagged &&
    (match t.get pk.pid with
      | none => false
      | some h =>
        match tableSt h with
        | none => false
        | some s =>
          match Psi.consume Psi.table s pk.bytes with
          | .panic _ => false
          | .ok (s', ds) =>
            ds.all (fun d => !(decide (12 ≤ d.bytes.length) && crc d.bytes == 0))
              && blockedRunB (t.insert pk.pid (withSt h s')) rest)

theorem blockedRun_of_check : ∀ (pks : List Pk) (t : Tab Handler), blockedRunB t pks = true →
    BlockedRun FailsGate t pks := by
  intro pks
  induction pks with
  | nil => intro t _; trivial
  | cons pk rest ih =>
    intro t h
    unfold blockedRunB at h
    rw [Bool.and_eq_true] at h
    obtain ⟨hf, h⟩ := h
    have hf' : pk.flagged = false := by simpa using hf
    cases hg : t.get pk.pid with
    | none => rw [hg] at h; cases h
    | some hd =>
      rw [hg] at h; dsimp only at h
      cases hs : tableSt hd with
      | none => rw [hs] at h; cases h
      | some s =>
        rw [hs] at h; dsimp only at h
        cases hP : Psi.consume Psi.table s pk.bytes with
        | panic _ => rw [hP] at h; cases h
        | ok r =>
          obtain ⟨s', ds⟩ := r
          rw [hP] at h; dsimp only at h
          rw [Bool.and_eq_true, List.all_eq_true] at h
          refine ⟨hf', hd, s, s', ds, hg, hs, hP, ?_, ih _ h.2⟩
          intro d hdm hh
          have := h.1 d hdm
          simp [hh.1, hh.2] at this

end Handler

section Examples
open Ts.App Ts.Demux Ts.Lemmas.C04b Ts.Lemmas.C04c
open scoped Ts.Lemmas.C08

/-! ### multi-packet clause: a PAT split over two transport packets, through the whole application
(`Demultiplex::new` + one `push`), by kernel evaluation -/

/-- append the CRC_32 computed by the MODEL of `mpegts_crc::sum32` -/
def sealSection (b : Bytes) : Bytes :=
  match Ts.Crc.sum32 b with
  | .ok v => b ++ be32 v
  | .panic _ => b

/-- first packet on PID 0: unit start, adaptation field of 173 bytes (all stuffing), then
`pointer_field = 0` and the first 9 bytes of `sec` -/
def splitPkt1 (sec : Bytes) : Bytes :=
  [0x47, 0x40, 0x00, 0x30, 173, 0x00] ++ List.replicate 172 0xff ++ [0x00] ++ sec.take 9

/-- second packet on PID 0: continuation, payload only: the rest of `sec`, then `0xff` stuffing -/
def splitPkt2 (sec : Bytes) : Bytes :=
  [0x47, 0x00, 0x00, 0x11] ++ sec.drop 9 ++ List.replicate (184 - (sec.length - 9)) 0xff

def splitStream (sec : Bytes) : Bytes := splitPkt1 sec ++ splitPkt2 sec

/-- the `q`-th payload bit of `splitStream sec` for a 16-byte `sec`: bits 0..79 are the
`pointer_field` and the 9 section bytes in packet 1, bits 80..135 the 7 section bytes in packet 2 -/
def splitBitPos (q : Nat) : Nat := if q < 80 then 8 * 178 + q else 8 * 192 + (q - 80)

/-- the PAT / PMT processor requests (everything except `ByPid`) of a run, oldest first;
`none` if the run panicked -/
def tableRequests : R (Tab Handler × Ctx) → Option (List Req)
  | .ok (_, c) => some (c.trace.reverse.filterMap (fun e =>
      match e with
      | .construct (.byPid _) _ => none
      | .construct r _ => some r
      | _ => none))
  | .panic _ => none

example : sealSection patBody = patSection := by decide +kernel
example : (splitPkt1 patSection).length = 188 ∧ (splitPkt2 patSection).length = 188 := by decide +kernel

/-- the intact two-packet PAT (CRC computed by the model's `sum32`): the run returns and the PAT
processor requests the PMT handler of program 1 -/
theorem twoPacket_intact :
    tableRequests (runApp {} [splitStream (sealSection patBody)]) = some [Req.pmt 0x1e0 1] := by
  decide +kernel

/-- one bit inverted in the SECOND packet (bit 37 of the packet = bit 5 of section byte 9): the run
returns and no PAT / PMT processor request is made -/
theorem twoPacket_second_packet_bit :
    tableRequests (runApp {} [splitPkt1 patSection ++ flipBit (splitPkt2 patSection) 37]) = some [] := by
  decide +kernel



/-- the payload-bit numbering used below: 80 bits in packet 1 (byte 178 = `pointer_field`, bytes
179..187 = section bytes 0..8), 56 bits in packet 2 (bytes 192..198 of the stream = section
bytes 9..15) -/
example : (List.range 136).map splitBitPos
    = (List.range 80).map (· + 8 * 178) ++ (List.range 56).map (· + 8 * 192) := by decide +kernel

theorem twoPacket_every_bit_blocked_a : ∀ q : Fin 68,
    tableRequests (runApp {} [flipBit (splitStream patSection) (splitBitPos q.val)]) = some [] := by
  decide +kernel

theorem twoPacket_every_bit_blocked_b : ∀ q : Fin 68,
    tableRequests (runApp {} [flipBit (splitStream patSection) (splitBitPos (68 + q.val))]) = some [] := by
  decide +kernel

/-- **multi-packet clause on a concrete section, every payload bit** (kernel evaluation of the whole
application model, not an instance of the algebraic lemmas): the 16-byte PAT `patSection` is sent
as 9 + 7 bytes in two packets on PID 0.  Inverting ANY ONE of the 136 payload bits — the
`pointer_field`, `table_id`, the syntax bit, `section_length`, version, the body, the CRC, in the
first or in the second packet — yields a run that returns and makes NO PAT / PMT processor request;
the intact stream makes exactly the request for program 1 (`twoPacket_intact`).  Bits of the
4-byte transport headers, of the adaptation field and of the trailing stuffing are not covered. -/
theorem twoPacket_every_bit_blocked (q : Nat) (hq : q < 136) :
    tableRequests (runApp {} [flipBit (splitStream patSection) (splitBitPos q)]) = some [] := by
  by_cases h : q < 68
  · exact twoPacket_every_bit_blocked_a ⟨q, h⟩
  · have := twoPacket_every_bit_blocked_b ⟨q - 68, by omega⟩
    rwa [show 68 + (q - 68) = q by omega] at this

/-! ### double-bit and burst detection, instantiated -/

theorem bitAt_lt (e : Bytes) (i : Nat) (h : bitAt e i = 1) : i < 8 * e.length := by
  apply Classical.byContradiction
  intro hn
  have h0 : byteD e (i / 8) = 0 := by
    unfold byteD
    rw [List.getD_eq_getElem?_getD, List.getElem?_eq_none (by omega)]
    rfl
  unfold bitAt at h
  rw [h0] at h
  simp at h

/-- **double-bit errors inside one section**: the distance bound `q - p < 65536` of
`detect_double_bit` follows from the section length limit (`S.length ≤ 4096`, i.e. at most
32768 bit positions; the reassembler of this crate even caps sections at 1024 bytes) -/
theorem detect_double_bit_section (S e : Bytes) (p q : Nat) (hl : e.length = S.length)
    (hS : S.length ≤ 4096) (hm : crc S = 0) (hpq : p < q)
    (hp : bitAt e p = 1) (hq : bitAt e q = 1) (honly : ∀ i, bitAt e i = 1 → i = p ∨ i = q) :
    crc (xorBytes S e) ≠ 0 := by
  have := bitAt_lt e q hq
  exact detect_double_bit S e p q hl hm hpq (by omega) hp hq honly

/-- the same for two concrete bit inversions -/
theorem detect_double_bit_flip_section (S : Bytes) (p q : Nat) (hpq : p < q) (hq : q < 8 * S.length)
    (hS : S.length ≤ 4096) (hm : crc S = 0) : crc (flipBit (flipBit S p) q) ≠ 0 :=
  detect_double_bit_flip S p q hpq hq (by omega) hm

example : crc (flipBit (flipBit patSection 3) 120) ≠ 0 :=
  detect_double_bit_flip_section patSection 3 120 (by decide) (by decide) (by decide) (by decide +kernel)

/-- a burst that is NOT a single bit: pattern `ff 00 00 81` over bytes 3..6 (bits 24..55) -/
def burstPattern : Bytes := [0, 0, 0, 0xff, 0, 0, 0x81, 0, 0, 0, 0, 0, 0, 0, 0, 0]

/-- the window hypothesis `hwin` of `detect_burst_le_32` holds for `burstPattern` with `s = 24` -/
theorem burstPattern_window : ∀ i, bitAt burstPattern i = 1 → 24 ≤ i ∧ i < 24 + 32 := by
  intro i hi
  have hlt : i < 128 := bitAt_lt burstPattern i hi
  have key : ∀ j : Fin 128, bitAt burstPattern j.val = 1 → 24 ≤ j.val ∧ j.val < 24 + 32 := by
    decide +kernel
  exact key ⟨i, hlt⟩ hi

/-- `detect_burst_le_32` instantiated on a 10-bit-heavy 32-bit burst -/
example : crc (xorBytes patSection burstPattern) ≠ 0 :=
  detect_burst_le_32 patSection burstPattern 24 (by decide) (by decide +kernel)
    ⟨0xff, by decide, by decide⟩ burstPattern_window

/-! ### non-vacuity of the handler-level gate, single- and multi-packet -/

/-- `patSection` with the last CRC bit inverted -/
def patBad : Bytes := flipBit patSection 127

/-- one transport packet on PID `pid`, unit start, no adaptation field, `pointer_field = 0`,
carrying the whole section `sec` followed by `0xff` stuffing -/
def onePkt (pid : Nat) (sec : Bytes) : Bytes :=
  [0x47, UInt8.ofNat (0x40 ||| (pid >>> 8)), UInt8.ofNat (pid &&& 0xff), 0x10, 0x00] ++ sec
    ++ List.replicate (183 - sec.length) 0xff

/-- **`table_handler_gated` instantiated, single packet**: the corrupt PAT is completed by the
packet (it IS delivered to the CRC layer) and the PAT handler does nothing, in ANY context -/
theorem gated_single_packet (c : Ctx) (hb : c.cfg.bypassCrc = false) (reg : List Nat) :
    App.consume (.pat {} reg) c ⟨onePkt 0 patBad, 0, 0, false, false⟩
      = .ok (.pat { lastVersion := some 0 } reg, c, []) :=
  (table_handler_gated {} reg c ⟨onePkt 0 patBad, 0, 0, false, false⟩ { lastVersion := some 0 }
    [⟨patBad, some 5⟩] hb gateInv_init (by decide +kernel) (by decide +kernel)
    (by intro d hd; simp only [List.mem_singleton] at hd; subst hd; decide +kernel)).1

/-- reassembly state after the first packet of the split PAT: 9 bytes buffered, 7 owed -/
def splitState : Psi.St := { lastVersion := some 0, buf := patSection.take 9, remaining := some 7 }

theorem splitState_reached :
    Psi.consume Psi.table {} (splitPkt1 patSection) = .ok (splitState, []) := by decide +kernel

theorem splitState_inv : GateInv splitState :=
  (consume_table_gateInv {} gateInv_init _ (by decide +kernel) _ _ splitState_reached).1

/-- **`table_handler_gated` instantiated, multi-packet section**: the second packet completes a
section whose last bit was inverted in transit; the handler (PAT, and any PMT handler in the same
reassembly state) does nothing, in ANY context -/
theorem gated_second_packet (c : Ctx) (hb : c.cfg.bypassCrc = false) (reg : List Nat) :
    App.consume (.pat splitState reg) c ⟨splitPkt2 patBad, 188, 0, false, false⟩
      = .ok (.pat { lastVersion := some 0, buf := patBad } reg, c, []) ∧
    ∀ pid prog, App.consume (.pmt pid prog splitState reg) c ⟨splitPkt2 patBad, 188, pid, false, false⟩
      = .ok (.pmt pid prog { lastVersion := some 0, buf := patBad } reg, c, []) := by
  have hP : Psi.consume Psi.table splitState (splitPkt2 patBad)
      = .ok ({ lastVersion := some 0, buf := patBad }, [⟨patBad, none⟩]) := by decide +kernel
  have hbad : ∀ d ∈ [(⟨patBad, none⟩ : Psi.Delivery)], crc d.bytes ≠ 0 := by
    intro d hd; simp only [List.mem_singleton] at hd; subst hd; decide +kernel
  have hlen : (splitPkt2 patBad).length = 188 := by decide +kernel
  refine ⟨(table_handler_gated splitState reg c ⟨splitPkt2 patBad, 188, 0, false, false⟩ _ _ hb
    splitState_inv hlen hP hbad).1, ?_⟩
  intro pid prog
  exact (table_handler_gated splitState reg c ⟨splitPkt2 patBad, 188, pid, false, false⟩ _ _ hb
    splitState_inv hlen hP hbad).2 pid prog

/-! ### the state hypothesis of `table_handler_gated` is needed -/

/-- a reassembly state that satisfies the buffer invariant `PsiInv .syntax` but NOT `SynInv`: eight
bytes buffered whose header has `section_syntax_indicator = 0`, one byte owed -/
def noSynState : Psi.St := { buf := [0x00, 0x30, 0x06, 0, 0, 0, 0, 0], remaining := some 1 }

/-- **`GateInv` cannot be weakened to `PsiInv .syntax`** in `table_handler_gated`: from `noSynState`
a continuation packet completes a 9-byte section without the syntax bit, whose CRC is non-zero,
and the PAT handler PANICS (on the `assert!` of the CRC layer) instead of returning.  (The state is
unreachable: `SynInv` is an invariant, `consume_table_gateInv`.) -/
theorem table_handler_gated_needs_synInv :
    Ts.Lemmas.C03.PsiInv .syntax noSynState ∧ (splitPkt2 []).length = 188
    ∧ Psi.consume Psi.table noSynState (splitPkt2 [])
        = .ok ({ buf := [0x00, 0x30, 0x06, 0, 0, 0, 0, 0, 0xff] },
               [⟨[0x00, 0x30, 0x06, 0, 0, 0, 0, 0, 0xff], none⟩])
    ∧ crc [0x00, 0x30, 0x06, 0, 0, 0, 0, 0, 0xff] ≠ 0
    ∧ (App.consume (.pat noSynState []) { cfg := {} } ⟨splitPkt2 [], 0, 0, false, false⟩).isOk
        = false := by
  refine ⟨?_, by decide +kernel, by decide +kernel, by decide +kernel, by decide +kernel⟩
  intro n hn
  have : n = 1 := by injection hn with hn; exact hn.symm
  subst this
  decide

/-! ### non-vacuity of the stream-level gate: PAT then PMT through the whole application -/

/-- a PMT for program 1 (PCR PID 0x100, one H.264 stream on PID 0x100), without CRC -/
def pmtBody : Bytes :=
  [0x02, 0xb0, 0x12, 0x00, 0x01, 0xc1, 0x00, 0x00, 0xe1, 0x00, 0xf0, 0x00, 0x1b, 0xe1, 0x00, 0xf0, 0x00]
def pmtSectionBytes : Bytes := sealSection pmtBody

example : Verified patSection ∧ patRequests patSection = [Req.pmt 0x1e0 1] := by
  rw [verified_iff]; decide +kernel
example : Verified pmtSectionBytes ∧ pmtRequests 0x1e0 pmtSectionBytes = [Req.stream 0x1e0 0x1b 0x100 0x100 [] []] := by
  rw [verified_iff]; decide +kernel

/-- intact PAT (split over two packets) then intact PMT: the run returns and the requests are
exactly those of `requests_only_from_verified`; with one bit of the PMT inverted the PMT's stream
request is never made -/
theorem app_pat_pmt :
    tableRequests (runApp {} [splitStream patSection ++ onePkt 0x1e0 pmtSectionBytes])
      = some [Req.pmt 0x1e0 1, Req.stream 0x1e0 0x1b 0x100 0x100 [] []]
    ∧ tableRequests (runApp {} [splitStream patSection ++ onePkt 0x1e0 (flipBit pmtSectionBytes 100)])
      = some [Req.pmt 0x1e0 1] := by
  decide +kernel

/-! ### helpers for the evaluated examples below -/

/-- a successful Boolean check on a run yields the run's result -/
theorem ok_of_check {α : Type} (r : R α) (b : α → Bool)
    (h : (match r with | .ok a => b a | .panic _ => false) = true) : ∃ a, r = .ok a ∧ b a = true := by
  cases r with
  | ok a => exact ⟨a, rfl, h⟩
  | panic s => cases h

/-- the run returned and its trace contains `construct req tag` (Boolean, for `decide +kernel`) -/
def hasConstruct (r : R (Tab Handler × Ctx)) (req : Req) (tag : Nat) : Bool :=
  match r with
  | .ok (_, c) => c.trace.any (fun e =>
      match e with
      | .construct r t => r == req && t == tag
      | _ => false)
  | .panic _ => false

theorem hasConstruct_elim (r : R (Tab Handler × Ctx)) (req : Req) (tag : Nat)
    (h : hasConstruct r req tag = true) : ∃ t c, r = .ok (t, c) ∧ Ev.construct req tag ∈ c.trace := by
  cases r with
  | panic s => cases h
  | ok tc =>
    obtain ⟨t, c⟩ := tc
    refine ⟨t, c, rfl, ?_⟩
    simp only [hasConstruct, List.any_eq_true] at h
    obtain ⟨e, he, hb⟩ := h
    cases e with
    | construct r0 t0 =>
      simp only [Bool.and_eq_true, beq_iff_eq] at hb
      rw [← hb.1, ← hb.2]; exact he
    | _ => cases hb

/-- all handler requests of a run with their tags, oldest first; `none` if the run panicked -/
def constructs : R (Tab Handler × Ctx) → Option (List (Req × Nat))
  | .ok (_, c) => some (c.trace.reverse.filterMap (fun e =>
      match e with
      | .construct r tag => some (r, tag)
      | _ => none))
  | .panic _ => none

/-! ### negative control: without the CRC check the strong statement is false, the weak one is not -/

/-- **`GateStatement` distinguishes a working gate from none.**  In the `cfg(fuzzing)` build
(`bypassCrc = true`) the statement proved for `bypassCrc = false` by
`requests_from_verified_delivery` is FALSE: push the single packet `onePkt 0 patBad` (the PAT of
program 1 with its last CRC bit inverted).  The run returns and requests the PMT handler
(`construct (pmt 0x1e0 1) 1`, kernel-evaluated); the only framed packet is this one, the only
section the PAT handler's reassembler delivers on it is `patBad`, and `patBad` is not `Verified`. -/
theorem gate_statement_fails_without_crc_check :
    ¬ GateStatement { bypassCrc := true } [onePkt 0 patBad] := by
  intro hG
  obtain ⟨t, c, hrun, hm⟩ := hasConstruct_elim
    (runApp { bypassCrc := true } [onePkt 0 patBad]) (Req.pmt 0x1e0 1) 1 (by decide +kernel)
  rcases hG t c hrun _ _ hm with ⟨p, hp⟩ | ⟨pre, pk, post, t1, c1, hsplit, hpre, hv⟩
  · cases hp
  · have hfr : framedAll [onePkt 0 patBad] 0 = [⟨onePkt 0 patBad, 0, 0, false, false⟩] := by
      decide +kernel
    rw [hfr] at hsplit
    cases pre with
    | cons a pre' =>
      rw [List.cons_append] at hsplit
      injection hsplit with _ hnil
      cases pre' <;> cases hnil
    | nil =>
      rw [List.nil_append] at hsplit
      injection hsplit with hpk _
      subst hpk
      have hst := Ts.Lemmas.C19.R.ok_inj hpre
      have ht1 : t1 = (App.init { bypassCrc := true }).1 := by rw [hst]
      subst ht1
      obtain ⟨h0, hserv, hcase⟩ := hv
      have hget : (App.init { bypassCrc := true }).1.get 0 = some (.pat {} []) := rfl
      have hh0 : h0 = .pat {} [] := by
        rcases hserv with e | ⟨e, _⟩
        · exact (Option.some.inj (hget.symm.trans e)).symm
        · exact absurd (hget.symm.trans e) (by intro h; cases h)
      subst hh0
      have hcons : Psi.consume Psi.table {} (onePkt 0 patBad)
          = .ok ({ lastVersion := some 0 }, [⟨patBad, some 5⟩]) := by decide +kernel
      have hnv : ¬ Verified patBad := by
        rw [verified_iff]
        intro hh
        exact absurd hh.2.2 (by decide +kernel)
      rcases hcase with ⟨s, reg, s', ds, d, e0, hP, hd, hver, _⟩
        | ⟨pid, prog, s, reg, s', ds, d, e0, _⟩
      · injection e0 with e1 _
        subst e1
        have hP' : Psi.consume Psi.table {} (onePkt 0 patBad) = .ok (s', ds) := hP
        rw [hcons] at hP'
        have := Ts.Lemmas.C19.R.ok_inj hP'
        simp only [Prod.mk.injEq] at this
        rw [← this.2] at hd
        simp only [List.mem_singleton] at hd
        subst hd
        exact hnv hver
      · cases e0

/-- …while the WEAK existential form (the conclusion of `requests_only_from_verified`) holds for
that very request of that very run without the check, by `reseal`: it cannot tell the difference -/
theorem weak_form_holds_without_crc_check :
    ¬ Verified patBad ∧ Req.pmt 0x1e0 1 ∈ patRequests patBad ∧
    ∃ S, 12 ≤ S.length ∧ byteD S 1 &&& 0b1000_0000 ≠ 0 ∧ crc S = 0 ∧ Ts.Crc.sum32 S = .ok 0
      ∧ (Req.pmt 0x1e0 1 ∈ patRequests S ∨ ∃ pid, Req.pmt 0x1e0 1 ∈ pmtRequests pid S) := by
  have hreq : Req.pmt 0x1e0 1 ∈ patRequests patBad := by decide +kernel
  refine ⟨?_, hreq, ?_⟩
  · rw [verified_iff]
    intro hh
    exact absurd hh.2.2 (by decide +kernel)
  · obtain ⟨S, hv, _, _, hpat, _⟩ := reseal patBad (by decide +kernel) (by decide +kernel)
    exact ⟨S, hv.1, hv.2.1, (sum32_zero_iff S).1 hv.2.2, hv.2.2, Or.inl (by rw [hpat]; exact hreq)⟩

/-! ### known finding F12: a section that fails the CRC changes what happens to later, intact ones -/

/-- one transport packet on PID `pid` with continuity counter `cc`: unit start, no adaptation
field, `pointer_field = 0`, the whole section `sec`, then `0xff` stuffing -/
def secPkt (pid cc : Nat) (sec : Bytes) : Bytes :=
  [0x47, UInt8.ofNat (0x40 ||| (pid >>> 8)), UInt8.ofNat (pid &&& 0xff), UInt8.ofNat (0x10 ||| cc), 0x00]
    ++ sec ++ List.replicate (183 - sec.length) 0xff

/-- the probe's PAT (program 1 → PMT PID 0x100, version 0), its copy with ONE flipped bit in
`version_number` (byte 5: `c1` → `c3`; CRC bytes unchanged, so the check fails), and its PMT
(PCR PID 0x101, one H.264 stream on PID 0x101) -/
def f12Pat : Bytes :=
  [0x00, 0xb0, 0x0d, 0x00, 0x01, 0xc1, 0x00, 0x00, 0x00, 0x01, 0xe1, 0x00, 0xe8, 0xf9, 0x5e, 0x7d]
def f12PatBad : Bytes := flipBit f12Pat 46
def f12Pmt : Bytes :=
  [0x02, 0xb0, 0x12, 0x00, 0x01, 0xc1, 0x00, 0x00, 0xe1, 0x01, 0xf0, 0x00, 0x1b, 0xe1, 0x01, 0xf0,
   0x00, 0x4f, 0xc4, 0x3d, 0x1b]
/-- PID 0x101: start of a PES packet, then a continuation packet -/
def f12Es1 : Bytes := [0x47, 0x41, 0x01, 0x10, 0, 0, 1, 0xe0, 0, 0, 0x80, 0, 0] ++ List.replicate 175 0x55
def f12Es2 : Bytes := [0x47, 0x01, 0x01, 0x11] ++ List.replicate 184 0x66

/-- the probe stream of known finding F12 (`G1 demux b0t0 …` of the second review; with
`second = f12PatBad`) and its control (`G1c`; `second = f12Pat`): PAT, PMT, ES packet, a SECOND PAT
copy, a third (intact, unchanged) PAT copy, the PMT again, an ES continuation -/
def f12Stream (second : Bytes) : Bytes :=
  secPkt 0 0 f12Pat ++ secPkt 0x100 0 f12Pmt ++ f12Es1 ++ secPkt 0 1 second ++ secPkt 0 2 f12Pat
    ++ secPkt 0x100 1 f12Pmt ++ f12Es2

/-- **Known finding F12 (the causal reading of C04's gate sentence FAILS on the pinned code).**
Kernel evaluation of the whole application model, check compiled in, on the exact probe bytes and
on the control.  Control (three intact copies of the same PAT): the requests are `ByPid(0)` (tag 0),
the PMT handler (tag 1) and the ES handler (tag 2); the repeats are dropped as duplicates.  Probe
(the second copy has one flipped bit in `version_number`, hence a failing CRC — it is NOT applied):
the third, intact and unchanged copy is applied AGAIN: the PMT handler is re-requested (tag 3) and,
on the repeated PMT, the ES handler is requested again (tag 4) and replaces the one in the middle of
its PES packet.  So a section whose CRC failed DID cause handlers to be requested and replaced —
through the reassembler, which records `version_number` at section start, before the CRC is known.
Every one of these requests is nevertheless computed from a verified section delivered on an
identified packet: `requests_from_verified_delivery` holds for this run like for any other (the
re-requests come from the intact third copy and the intact PMT).  That theorem, not the property
sentence's "ever causes", is what is proved about the pinned code. -/
theorem crc_fail_causes_reapplication :
    f12PatBad = [0x00, 0xb0, 0x0d, 0x00, 0x01, 0xc3, 0x00, 0x00, 0x00, 0x01, 0xe1, 0x00, 0xe8, 0xf9, 0x5e, 0x7d]
    ∧ crc f12Pat = 0 ∧ crc f12PatBad ≠ 0 ∧ crc f12Pmt = 0
    ∧ constructs (runApp {} [f12Stream f12Pat])
        = some [(Req.byPid 0, 0), (Req.pmt 0x100 1, 1), (Req.stream 0x100 0x1b 0x101 0x101 [] [], 2)]
    ∧ constructs (runApp {} [f12Stream f12PatBad])
        = some [(Req.byPid 0, 0), (Req.pmt 0x100 1, 1), (Req.stream 0x100 0x1b 0x101 0x101 [] [], 2),
                (Req.pmt 0x100 1, 3), (Req.stream 0x100 0x1b 0x101 0x101 [] [], 4)] := by
  decide +kernel

/-! ### non-vacuity of the run-level theorems: a two-push run -/

/-- two pushes: the PAT split over two packets followed by two stray bytes (dropped by `push`),
then the PMT in a second push (its packet therefore sits at byte offset 378) -/
def twoPush : List Bytes := [splitStream patSection ++ [0x47, 0x00], onePkt 0x1e0 pmtSectionBytes]

theorem twoPush_framed : framedAll twoPush 0 =
    [⟨splitPkt1 patSection, 0, 0, false, false⟩, ⟨splitPkt2 patSection, 188, 0, false, false⟩,
     ⟨onePkt 0x1e0 pmtSectionBytes, 378, 0x1e0, false, false⟩] := by decide +kernel

/-- **`requests_history_run` / `requests_from_verified_delivery` instantiated on the two-push run**:
the run returns, its trace contains the ES handler request (tag 2), and the theorem yields the
packet and the reachable state in which a verified, actually delivered section produced it -/
example : ∃ t c, runApp {} twoPush = .ok (t, c)
    ∧ Ev.construct (Req.stream 0x1e0 0x1b 0x100 0x100 [] []) 2 ∈ c.trace
    ∧ (∀ e ∈ c.trace, e = Ev.construct (.byPid 0) 0 ∨
        ∃ pre pk post t1 c1, framedAll twoPush 0 = pre ++ pk :: post ∧
          pushSpec App.sem (App.init {}) pre = .ok (t1, c1) ∧ StepEv t1 c1 pk e)
    ∧ ∃ pre pk post t1 c1, framedAll twoPush 0 = pre ++ pk :: post ∧
        pushSpec App.sem (App.init {}) pre = .ok (t1, c1) ∧
        FromVerifiedDelivery t1 c1 pk (Req.stream 0x1e0 0x1b 0x100 0x100 [] []) := by
  obtain ⟨t, c, hrun, hm⟩ := hasConstruct_elim (runApp {} twoPush)
    (Req.stream 0x1e0 0x1b 0x100 0x100 [] []) 2 (by decide +kernel)
  refine ⟨t, c, hrun, hm, requests_history_run {} rfl twoPush t c hrun, ?_⟩
  rcases requests_from_verified_delivery {} rfl twoPush t c hrun _ _ hm with ⟨p, hp⟩ | h
  · cases hp
  · exact h

/-- **`requests_history` (one push) instantiated** on the split PAT -/
example : ∃ t c, runApp {} [splitStream patSection] = .ok (t, c)
    ∧ Ev.construct (Req.pmt 0x1e0 1) 1 ∈ c.trace
    ∧ ∃ pks, frame (splitStream patSection) 0 = .ok pks ∧
        ∀ e ∈ c.trace, e = Ev.construct (.byPid 0) 0 ∨
          ∃ pre pk post t1 c1, pks = pre ++ pk :: post ∧
            pushSpec App.sem (App.init {}) pre = .ok (t1, c1) ∧ StepEv t1 c1 pk e := by
  obtain ⟨t, c, hrun, hm⟩ := hasConstruct_elim
    (runApp {} [splitStream patSection]) (Req.pmt 0x1e0 1) 1 (by decide +kernel)
  exact ⟨t, c, hrun, hm, requests_history {} rfl _ t c hrun⟩

/-- a PAT for program 1 with `version_number = 1` -/
def patV1 : Bytes := sealSection [0x00, 0xb0, 0x0d, 0x00, 0x01, 0xc3, 0x00, 0x00, 0x00, 0x01, 0xe1, 0xe0]

/-- PID 0, unit start, `pointer_field = 7`: the last 7 bytes of the CORRUPTED `patBad` (completing
the section begun by `splitPkt1`), then the whole intact `patV1`, then stuffing -/
def finishAndStartPkt : Bytes :=
  [0x47, 0x40, 0x00, 0x11, 7] ++ patBad.drop 9 ++ patV1 ++ List.replicate 160 0xff

/-- **`table_handler_filtered` instantiated** on a packet that completes TWO sections, the first
failing the CRC, the second verifying: the PAT handler does exactly what its processor does on the
second one alone, in any context with the check compiled in -/
example (c : Ctx) (hb : c.cfg.bypassCrc = false) (reg : List Nat) :
    App.consume (.pat splitState reg) c ⟨finishAndStartPkt, 188, 0, false, false⟩ =
      (runDeliveries App.patSection c reg [⟨patV1, some 12⟩]
        >>= fun r => R.ok (.pat { lastVersion := some 1, buf := patBad } r.2.1, r.1, r.2.2)) := by
  have hP : Psi.consume Psi.table splitState finishAndStartPkt
      = .ok ({ lastVersion := some 1, buf := patBad }, [⟨patBad, none⟩, ⟨patV1, some 12⟩]) := by
    decide +kernel
  have hfilt : [(⟨patBad, none⟩ : Psi.Delivery), ⟨patV1, some 12⟩].filter
      (fun d => decide (12 ≤ d.bytes.length ∧ crc d.bytes = 0)) = [⟨patV1, some 12⟩] := by
    decide +kernel
  have h := (table_handler_filtered splitState reg c ⟨finishAndStartPkt, 188, 0, false, false⟩ _ _ hb
    splitState_inv (by decide +kernel) hP).1
  rw [hfilt] at h
  exact h

/-- **`step_pmt_gated` instantiated**: a table whose slot 0x1e0 holds the PMT handler of program 1,
and the PMT with bit 100 inverted: the dispatcher step only advances that handler's reassembly
state, in any context with the check compiled in -/
example (c : Ctx) (hb : c.cfg.bypassCrc = false) :
    specStep App.sem (Tab.insert [] 0x1e0 (.pmt 0x1e0 1 {} []), c)
        ⟨onePkt 0x1e0 (flipBit pmtSectionBytes 100), 376, 0x1e0, false, false⟩
      = .ok ((Tab.insert [] 0x1e0 (.pmt 0x1e0 1 {} [])).insert 0x1e0
          (.pmt 0x1e0 1 { lastVersion := some 0 } []), c) :=
  step_pmt_gated _ c ⟨onePkt 0x1e0 (flipBit pmtSectionBytes 100), 376, 0x1e0, false, false⟩
    0x1e0 1 {} [] { lastVersion := some 0 } [⟨flipBit pmtSectionBytes 100, some 5⟩]
    (Tab.get_insert_self _ _ _) rfl hb gateInv_init (by decide +kernel) (by decide +kernel)
    (by intro d hd; simp only [List.mem_singleton] at hd; subst hd; decide +kernel)

/-- two pushes: the intact split PAT and two stray bytes; then, in one buffer, the PMT with bit 100
inverted and a PAT copy with one flipped `version_number` bit (both ARE completed and delivered to
the CRC layer, both fail) -/
def twoPushBad : List Bytes :=
  [splitStream patSection ++ [0x47, 0x00],
   onePkt 0x1e0 (flipBit pmtSectionBytes 100) ++ onePkt 0 (flipBit patSection 46)]

/-- **`blocked_run_keeps_table` instantiated on a two-push run**: after the two PAT packets
(state `(t1, c1)`, PMT handler in slot 0x1e0), the two damaged packets of the second push leave the
context untouched and every slot's handler unchanged up to reassembly state -/
example : ∃ t1 c1 t2,
    pushSpec App.sem (App.init {}) [⟨splitPkt1 patSection, 0, 0, false, false⟩,
      ⟨splitPkt2 patSection, 188, 0, false, false⟩] = .ok (t1, c1)
    ∧ (∃ s, t1.get 0x1e0 = some (.pmt 0x1e0 1 s []))
    ∧ pushSpec App.sem (t1, c1) [⟨onePkt 0x1e0 (flipBit pmtSectionBytes 100), 378, 0x1e0, false, false⟩,
        ⟨onePkt 0 (flipBit patSection 46), 566, 0, false, false⟩] = .ok (t2, c1)
    ∧ (∀ q, (t2.get q).map forgetSt = (t1.get q).map forgetSt)
    ∧ (∀ q, q ≠ 0x1e0 → q ≠ 0 → t2.get q = t1.get q) := by
  have hsplit : framedAll twoPushBad 0 =
      [⟨splitPkt1 patSection, 0, 0, false, false⟩, ⟨splitPkt2 patSection, 188, 0, false, false⟩]
      ++ [⟨onePkt 0x1e0 (flipBit pmtSectionBytes 100), 378, 0x1e0, false, false⟩,
          ⟨onePkt 0 (flipBit patSection 46), 566, 0, false, false⟩] ++ [] := by decide +kernel
  obtain ⟨⟨t1, c1⟩, hpre, hchk⟩ := ok_of_check
    (pushSpec App.sem (App.init {}) [⟨splitPkt1 patSection, 0, 0, false, false⟩,
      ⟨splitPkt2 patSection, 188, 0, false, false⟩])
    (fun tc => blockedRunB tc.1 [⟨onePkt 0x1e0 (flipBit pmtSectionBytes 100), 378, 0x1e0, false, false⟩,
        ⟨onePkt 0 (flipBit patSection 46), 566, 0, false, false⟩]
      && (match tc.1.get 0x1e0 with
          | some (.pmt pid prog _ reg) => pid == 0x1e0 && prog == 1 && reg.isEmpty
          | _ => false))
    (by decide +kernel)
  rw [Bool.and_eq_true] at hchk
  obtain ⟨t2, h2, k1, k2⟩ := blocked_run_keeps_table {} rfl twoPushBad _ _ _ hsplit t1 c1 hpre
    (blockedRun_of_check _ _ hchk.1)
  refine ⟨t1, c1, t2, hpre, ?_, h2, k1, ?_⟩
  · have h3 := hchk.2
    dsimp only at h3
    cases hg : t1.get 0x1e0 with
    | none => rw [hg] at h3; cases h3
    | some h =>
      rw [hg] at h3
      cases h with
      | pmt pid prog s reg =>
        simp only [Bool.and_eq_true, beq_iff_eq, List.isEmpty_iff] at h3
        obtain ⟨⟨e1, e2⟩, e3⟩ := h3
        subst e1 e2 e3
        exact ⟨s, rfl⟩
      | _ => cases h3
  · intro q h1 h0
    apply k2
    intro pk hm
    simp only [List.mem_cons, List.mem_nil_iff, or_false] at hm
    rcases hm with e | e
    · rw [e]; exact fun x => h1 x.symm
    · rw [e]; exact fun x => h0 x.symm

end Examples

end Ts.Props.C04
