import Ts.Lemmas.C08
/-!
# C08 — elementary-stream consumer notifications are well nested

"For any packet sequence on an elementary-stream PID, valid or not, the consumer's notifications are
well nested: stream-start occurs exactly once and before any packet-begin; continuation data and
packet-end occur only while a packet opened by packet-begin is open, and each packet is closed at
most once, by packet-end or by a continuity error.  Data of a PES packet whose header could not be
recognised is not delivered."

* model: `PesFilter.consume` / `PesFilter.run` (`pes.rs:88-160`, repaired tree);
* spec : the acceptor `Ts.Spec.Protocol.accepts` written from the trait documentation alone.

"packet" = any `p : Bytes` with `p.length = 188`; nothing else is assumed about its bytes.

READING of "stream-start occurs exactly once".  What is proved is: stream-start occurs AT MOST once
in every run (`start_at_most_once`), BEFORE any packet-begin (`start_before_begin`), and EXACTLY once
in every run that delivers a packet-begin at all (`start_exactly_once`, hypothesis `hb`).  ZERO
stream-starts do occur: on a PID that never carries a payload_unit_start packet the consumer is never
started (evaluated example after `start_exactly_once`: two continuation packets, no callback at all),
so the literal "exactly once for any packet sequence" is false of the code and is not claimed.

READING of the last clause (a choice, stated here so nobody has to infer it).  "Could not be
recognised" is read as: the unit-start packet produced no `begin_packet`, which happens exactly when
the packet has no payload or `PesHeader::from_bytes` returned `None` (fewer than 6 payload bytes or a
start-code prefix other than `00 00 01`; `stepPure_begin_mem` in `Ts/Lemmas/C08.lean`).  It is NOT
read as "the optional PES header (flags, `PES_header_data_length`, PTS/DTS …) is inconsistent": for
a stream id with an optional header whose `PesParsedContents::from_bytes` fails, the filter still
delivers `begin_packet` (the consumer sees `PesContents::Parsed(None)`) and the continuation data —
that is the code's behaviour on the pinned and the repaired tree, proved on concrete packets in
`Ts/Props/C02.lean` (`exSplit`: "header split over two packets ⇒ begin with `parsed:none`, data
still delivered").  Under the stricter reading the clause would be false of the code; the
reviewers and I judged the lenient reading to be the intended one because the trait hands the
consumer the `PesHeader` precisely so that it can decide.  The choice is recorded as a THEOREM:
`rejected_optional_header_still_delivered` (end of this file: two concrete packets, `from_bytes` =
`Some`, `contents` = `Parsed(None)`, `begin_packet` and the continuation data delivered) and
`Ts.Props.C02Trace.rejected_optional_header_still_delivered_split` (the `exSplit` packets of
`Ts/Props/C02.lean`: a PES header split over two transport packets).
-/
namespace Ts.Props.C08
open Ts Ts.Packet Ts.PesFilter Ts.Spec Ts.Spec.Protocol Ts.Lemmas.C08

/-! ### panic freedom -/

/-- `consume` never panics, whatever the 188 bytes are and whatever state the filter is in -/
theorem consume_total (f : F) (p : Bytes) (h : p.length = 188) :
    ∃ f' evs, consume f p = .ok (f', evs) :=
  ⟨_, _, consume_eq f p h⟩

theorem run_total (f : F) (ps : List Bytes) (h : ∀ p ∈ ps, p.length = 188) :
    ∃ f' evss, run f ps = .ok (f', evss) :=
  ⟨_, _, run_eq f ps h⟩

/-! ### refinement of the protocol acceptor -/

/-- filter state ↦ protocol state -/
abbrev abs : St → PState := Ts.Lemmas.C08.abs

example : abs .begin = .notStarted ∧ abs .started = .open_ ∧ abs .ignoreRest = .idle := ⟨rfl, rfl, rfl⟩

/-- one packet: the callbacks emitted are legal from the abstract state, and lead to the abstract
state of the new filter -/
theorem step_ok (f f' : F) (p : Bytes) (evs : List Ev) (h : p.length = 188)
    (hc : consume f p = .ok (f', evs)) : accepts (abs f.st) evs = some (abs f'.st) := by
  obtain ⟨rfl, rfl⟩ := consume_inv h hc
  exact stepOf_accepts f p

/-- any number of arbitrary packets, from any filter state -/
theorem callbacks_well_nested (f f' : F) (ps : List Bytes) (evss : List (List Ev))
    (h : ∀ p ∈ ps, p.length = 188) (hr : run f ps = .ok (f', evss)) :
    accepts (abs f.st) evss.flatten = some (abs f'.st) := by
  obtain ⟨rfl, rfl⟩ := run_inv h hr
  exact runPure_accepts f ps

/-- from the freshly constructed filter the whole callback trace is accepted from `notStarted` -/
theorem callbacks_well_nested_init (f' : F) (ps : List Bytes) (evss : List (List Ev))
    (h : ∀ p ∈ ps, p.length = 188) (hr : run {} ps = .ok (f', evss)) :
    accepts .notStarted evss.flatten = some (abs f'.st) :=
  callbacks_well_nested {} f' ps evss h hr

/-! ### the clauses of the property, read off the accepted trace -/

section clauses
variable {f' : F} {ps : List Bytes} {evss : List (List Ev)}
  (h : ∀ p ∈ ps, p.length = 188) (hr : run {} ps = .ok (f', evss))
include h hr

/-- stream-start is signalled AT MOST once in the whole run from the freshly constructed filter — this,
not "exactly once", is what holds for EVERY packet sequence: the count is 0 when no packet of the run
has `payload_unit_start_indicator` set (and in general until the first such packet) … -/
theorem start_at_most_once : evss.flatten.count .start ≤ 1 :=
  Protocol.start_at_most_once (callbacks_well_nested_init f' ps evss h hr)

/-- … and before any packet-begin (so: exactly once as soon as there is a packet-begin) -/
theorem start_before_begin (pre post : List Ev) (o l : Nat)
    (hs : evss.flatten = pre ++ .beginPkt o l :: post) : Ev.start ∈ pre ∧ Ev.start ∉ post := by
  have hacc := callbacks_well_nested_init f' ps evss h hr
  rw [hs] at hacc
  refine ⟨Protocol.start_before_begin hacc, ?_⟩
  obtain ⟨m, _, hpost⟩ := accepts_append_some hacc
  obtain ⟨m', hm', hrest⟩ := accepts_cons_some hpost
  have := (step_begin hm').2; subst this
  exact (no_start_after_started hrest (by simp)).1

/-- "exactly once", CONDITIONALLY: stream-start occurs exactly once in any run whose trace contains a
`begin_packet` (hypothesis `hb`).  Without `hb` only `start_at_most_once` holds; a run with no
`begin_packet` may contain one stream-start (unit start with an unrecognisable header) or none (no
unit start on the PID: example below). -/
theorem start_exactly_once (o l : Nat) (hb : Ev.beginPkt o l ∈ evss.flatten) :
    evss.flatten.count .start = 1 := by
  obtain ⟨pre, post, hs⟩ := List.append_of_mem hb
  have hmem : Ev.start ∈ evss.flatten := by
    rw [hs]; exact List.mem_append_left _ (start_before_begin h hr pre post o l hs).1
  have h1 := start_at_most_once h hr
  have h2 : 0 < evss.flatten.count .start := List.count_pos_iff.mpr hmem
  omega

/-- ZERO stream-starts: a PID that carries only continuation packets (no unit start) — no callback at
all, in particular no `start`; ONE stream-start without any `begin_packet`: a unit start whose payload
has no PES start code.  So `hb` in `start_exactly_once` cannot be dropped. -/
example :
    run {} [mkPkt 0x00 0x10 [], mkPkt 0x00 0x11 []] = .ok (⟨some 1, .begin⟩, [[], []])
    ∧ ([[], []] : List (List Ev)).flatten.count .start = 0
    ∧ run {} [mkPkt 0x40 0x10 [0, 0, 2, 0xe0, 0, 0], mkPkt 0x00 0x11 []]
        = .ok (⟨some 1, .ignoreRest⟩, [[.start], []]) := by decide +kernel

/-- continuation data and packet-end occur only while a packet opened by packet-begin is open:
the nearest preceding non-continuation callback is a packet-begin -/
theorem data_and_end_only_while_open (pre post : List Ev) (e : Ev)
    (hs : evss.flatten = pre ++ e :: post) (he : (∃ o l, e = .cont o l) ∨ e = .endPkt) :
    ∃ pre' o l mid, pre = pre' ++ .beginPkt o l :: mid ∧ ∀ x ∈ mid, ∃ o' l', x = .cont o' l' := by
  have hacc := callbacks_well_nested_init f' ps evss h hr
  rw [hs] at hacc
  obtain ⟨pre', o, l, mid, h1, h2⟩ := cont_end_preceded_by_begin hacc (by simp) he
  refine ⟨pre', o, l, mid, h1, fun x hx => ?_⟩
  have := h2 x hx
  cases x <;> simp [isCont] at this ⊢

/-- each packet is closed at most once, by packet-end or by a continuity error: after either, no
packet-end (and no data) until another packet-begin -/
theorem closed_at_most_once (pre mid post : List Ev) (c e : Ev)
    (hs : evss.flatten = pre ++ c :: (mid ++ e :: post))
    (hc : c = .endPkt ∨ c = .ccErr) (he : (∃ o l, e = .cont o l) ∨ e = .endPkt) :
    ∃ o l, Ev.beginPkt o l ∈ mid := by
  have hacc := callbacks_well_nested_init f' ps evss h hr
  rw [hs] at hacc
  exact Protocol.closed_at_most_once hacc hc he

/-- packet-begin only when no packet is open: between two packet-begins there is a closing callback -/
theorem begin_only_when_closed (pre mid post : List Ev) (o l o' l' : Nat)
    (hs : evss.flatten = pre ++ .beginPkt o l :: (mid ++ .beginPkt o' l' :: post)) :
    Ev.endPkt ∈ mid ∨ Ev.ccErr ∈ mid := by
  have hacc := callbacks_well_nested_init f' ps evss h hr
  rw [hs] at hacc
  obtain ⟨m, _, hpost⟩ := accepts_append_some hacc
  obtain ⟨m', hm', hrest⟩ := accepts_cons_some hpost
  have := (step_begin hm').2; subst this
  obtain ⟨m2, hmid, hb⟩ := accepts_append_some hrest
  obtain ⟨m3, hm3, _⟩ := accepts_cons_some hb
  have := (step_begin hm3).1; subst this
  -- `mid` leads from `open_` to `idle`: it cannot consist of continuation data only
  clear hs hacc hpost hrest hb hm3 hm'
  induction mid with
  | nil => simp at hmid
  | cons x xs ih =>
    obtain ⟨q, hq, hxs⟩ := accepts_cons_some hmid
    cases x with
    | endPkt => simp
    | ccErr => simp
    | start => simp [protoStep] at hq
    | beginPkt a b => simp [protoStep] at hq
    | cont a b =>
      have := (step_cont hq).2; subst this
      rcases ih hxs with h' | h' <;> simp [h']

end clauses

/-! ### an unrecognised PES header: nothing of that packet is delivered -/

/-- a unit-start packet that did not produce `begin_packet` leaves the filter with no open packet
(and, like every unit-start packet, carries no continuation callback itself) -/
theorem unrecognised_header_not_delivered (f f' : F) (p : Bytes) (evs : List Ev) (h : p.length = 188)
    (hc : consume f p = .ok (f', evs)) (hus : readBits p 9 1 = 1)
    (hnb : ∀ o l, Ev.beginPkt o l ∉ evs) :
    f'.st ≠ .started ∧ ∀ o l, Ev.cont o l ∉ evs := by
  obtain ⟨rfl, rfl⟩ := consume_inv h hc
  have hu : usOf p = true := (usOf_true_iff p).mpr hus
  constructor
  · intro hst
    rcases (stepPure_started_iff ..).mp hst with ⟨_, hpay, hhdr⟩ | ⟨hu', _⟩
    · cases hpo : payOf p with
      | none => rw [hpo] at hpay; cases hpay
      | some r => exact hnb r.1 r.2 ((stepPure_begin_mem ..).mpr ⟨hu, hpo, hhdr⟩)
    · rw [hu] at hu'; cases hu'
  · intro o l hm
    have := ((stepPure_cont_mem ..).mp hm).1
    rw [hu] at this; cases this

/-- general form, for any run from any filter state: between a unit-start packet that produced no
`begin_packet` and the next `begin_packet`, no continuation data and no `end_packet` is delivered -/
theorem unrecognised_header_not_delivered_run (f f' : F) (p : Bytes) (ps : List Bytes)
    (e1 : List Ev) (evss : List (List Ev))
    (hp : p.length = 188) (hps : ∀ q ∈ ps, q.length = 188)
    (hr : run f (p :: ps) = .ok (f', e1 :: evss)) (hus : readBits p 9 1 = 1)
    (hnb : ∀ o l, Ev.beginPkt o l ∉ e1)
    (mid rest : List Ev) (hsplit : evss.flatten = mid ++ rest) (hmid : ∀ o l, Ev.beginPkt o l ∉ mid) :
    (∀ o l, Ev.cont o l ∉ e1 ++ mid) ∧ Ev.endPkt ∉ mid := by
  have hall : ∀ q ∈ p :: ps, q.length = 188 := by
    intro q hq; rcases List.mem_cons.mp hq with rfl | hq
    · exact hp
    · exact hps q hq
  obtain ⟨_, he⟩ := run_inv hall hr
  simp only [runPure, List.cons.injEq] at he
  obtain ⟨rfl, rfl⟩ := he
  have ⟨hst, hnc⟩ := unrecognised_header_not_delivered f _ p _ hp (consume_eq' f p hp) hus hnb
  have hacc := runPure_accepts (stepOf f p).1 ps
  rw [hsplit] at hacc
  obtain ⟨m, hm, _⟩ := accepts_append_some hacc
  have hno : abs (stepOf f p).1.st ≠ .open_ := fun x => hst ((abs_open_iff _).mp x)
  have ⟨h1, h2, _⟩ := closed_without_begin hm hno hmid
  refine ⟨?_, h2⟩
  intro o l hx
  rcases List.mem_append.mp hx with hx | hx
  · exact hnc o l hx
  · exact h1 o l hx

/-- the same after an arbitrary prefix of packets fed to the freshly constructed filter -/
theorem unrecognised_header_not_delivered_anywhere (pre : List Bytes) (p : Bytes) (ps : List Bytes)
    (f' : F) (evss : List (List Ev))
    (hpre : ∀ q ∈ pre, q.length = 188) (hp : p.length = 188) (hps : ∀ q ∈ ps, q.length = 188)
    (hr : run {} (pre ++ p :: ps) = .ok (f', evss)) (hus : readBits p 9 1 = 1) :
    ∃ epre e1 epost, evss = epre ++ e1 :: epost ∧ epre.length = pre.length ∧
      ((∀ o l, Ev.beginPkt o l ∉ e1) →
        ∀ mid rest, epost.flatten = mid ++ rest → (∀ o l, Ev.beginPkt o l ∉ mid) →
          (∀ o l, Ev.cont o l ∉ e1 ++ mid) ∧ Ev.endPkt ∉ mid) := by
  have hall : ∀ q ∈ pre ++ p :: ps, q.length = 188 := by
    intro q hq
    rcases List.mem_append.mp hq with hq | hq
    · exact hpre q hq
    · rcases List.mem_cons.mp hq with rfl | hq
      · exact hp
      · exact hps q hq
  obtain ⟨_, rfl⟩ := run_inv hall hr
  rw [runPure_append]
  refine ⟨(runPure {} pre).2, (stepOf (runPure {} pre).1 p).2,
    (runPure (stepOf (runPure {} pre).1 p).1 ps).2, rfl, runPure_length _ _, ?_⟩
  intro hnb mid rest hsplit hmid
  have hall' : ∀ q ∈ p :: ps, q.length = 188 := by
    intro q hq; rcases List.mem_cons.mp hq with rfl | hq
    · exact hp
    · exact hps q hq
  exact unrecognised_header_not_delivered_run (runPure {} pre).1 _ p ps _ _ hp hps
    (run_eq' _ (p :: ps) hall') hus hnb mid rest hsplit hmid

/-- NON-VACUITY of `unrecognised_header_not_delivered_anywhere`: prefix = a good unit start (PES packet
opened); `p` = a unit start whose payload has start code `00 00 02` (not recognised: it closes the open
packet with `end_packet` and produces no `begin_packet`); then a continuation packet and a good unit
start.  The run is evaluated, the theorem APPLIED to it: the block `e1` of `p` is `[endPkt]`, and with
`mid` = the (empty) block of the continuation packet it yields: no continuation data in `e1 ++ mid`,
no `end_packet` in `mid` — the continuation packet's 184 bytes are not delivered. -/
example : ∃ f' evss epre e1 epost,
    run {} ([mkPkt 0x40 0x10 pesStart] ++ mkPkt 0x40 0x11 [0, 0, 2, 0xe0, 0, 0]
        :: [mkPkt 0x00 0x12 [], mkPkt 0x40 0x13 pesStart]) = .ok (f', evss)
    ∧ evss = [[.start, .beginPkt 4 184], [.endPkt], [], [.beginPkt 4 184]]
    ∧ evss = epre ++ e1 :: epost ∧ epre.length = 1 ∧ e1 = [.endPkt]
    ∧ (∀ o l, Ev.cont o l ∉ e1 ++ ([] : List Ev)) ∧ Ev.endPkt ∉ ([] : List Ev) := by
  have hr : run {} ([mkPkt 0x40 0x10 pesStart] ++ mkPkt 0x40 0x11 [0, 0, 2, 0xe0, 0, 0]
        :: [mkPkt 0x00 0x12 [], mkPkt 0x40 0x13 pesStart])
      = .ok (⟨some 3, .started⟩, [[.start, .beginPkt 4 184], [.endPkt], [], [.beginPkt 4 184]]) := by
    decide +kernel
  obtain ⟨epre, e1, epost, he, hl, hcl⟩ := unrecognised_header_not_delivered_anywhere
    [mkPkt 0x40 0x10 pesStart] (mkPkt 0x40 0x11 [0, 0, 2, 0xe0, 0, 0])
    [mkPkt 0x00 0x12 [], mkPkt 0x40 0x13 pesStart] _ _ (by decide +kernel) (by decide +kernel)
    (by decide +kernel) hr (by decide +kernel)
  -- `epre` has one block, so `e1` is the second block of the evaluated trace
  obtain ⟨x, rfl⟩ : ∃ x, epre = [x] := by
    cases epre with
    | nil => cases hl
    | cons x xs => cases xs with
      | nil => exact ⟨x, rfl⟩
      | cons _ _ => simp at hl
  simp only [List.cons_append, List.nil_append, List.cons.injEq] at he
  obtain ⟨rfl, rfl, rfl⟩ := he
  have := hcl (by intro o l h; simp at h) [] [Ev.beginPkt 4 184] (by simp) (by simp)
  exact ⟨_, _, [[.start, .beginPkt 4 184]], [.endPkt], [[], [.beginPkt 4 184]], hr, rfl, rfl, rfl, rfl,
    this.1, this.2⟩

/-! ### exactly when `begin_packet` is delivered, and with which bytes -/

/-- `begin_packet` with header range `(o,l)` is delivered iff the packet has the unit-start flag,
`(o,l)` is exactly its payload range, and `PesHeader::from_bytes` accepts those bytes -/
theorem begin_iff (f f' : F) (p : Bytes) (evs : List Ev) (o l : Nat) (h : p.length = 188)
    (hc : consume f p = .ok (f', evs)) :
    Ev.beginPkt o l ∈ evs ↔
      (readBits p 9 1 = 1 ∧ payloadRange p = .ok (some (o, l)) ∧
        Pes.headerFromBytes (rangeBytes p (o, l)) = .ok (some (rangeBytes p (o, l)))) := by
  obtain ⟨rfl, rfl⟩ := consume_inv h hc
  rw [show (stepOf f p).2 = (stepPure f (usOf p) (hpOf p) (ccOf p) (payOf p) (hdrOf p)).2 from rfl,
    stepPure_begin_mem, usOf_true_iff, payloadRange_eq p h, headerFromBytes_some_iff]
  constructor
  · rintro ⟨h1, h2, h3⟩
    refine ⟨h1, by rw [h2], ?_⟩
    simpa [hdrOf, h2] using h3
  · rintro ⟨h1, h2, h3⟩
    have h2' : payOf p = some (o, l) := by injection h2
    refine ⟨h1, h2', ?_⟩
    simpa [hdrOf, h2'] using h3

/-- … i.e. at least the 6 fixed header bytes are present and begin with the start code `00 00 01`;
the range reaches the packet's last byte -/
theorem begin_iff_bytes (f f' : F) (p : Bytes) (evs : List Ev) (o l : Nat) (h : p.length = 188)
    (hc : consume f p = .ok (f', evs)) :
    Ev.beginPkt o l ∈ evs ↔
      (readBits p 9 1 = 1 ∧ payloadRange p = .ok (some (o, l)) ∧ o + l = 188 ∧
        6 ≤ l ∧ byteD p o = 0 ∧ byteD p (o + 1) = 0 ∧ byteD p (o + 2) = 1) := by
  rw [begin_iff f f' p evs o l h hc, headerFromBytes_some_iff]
  constructor
  · rintro ⟨h1, h2, h3⟩
    have h2' : payOf p = some (o, l) := by rw [payloadRange_eq p h] at h2; injection h2
    have hs := (payOf_sound h2').2.1
    exact ⟨h1, h2, hs, (hdrOk_range p o l (by omega)).mp h3⟩
  · rintro ⟨h1, h2, hs, h3⟩
    exact ⟨h1, h2, (hdrOk_range p o l (by omega)).mpr h3⟩

/-- at most one `begin_packet` per transport packet, and it is the last callback of that packet -/
theorem begin_unique (f f' : F) (p : Bytes) (evs : List Ev) (o l o' l' : Nat) (h : p.length = 188)
    (hc : consume f p = .ok (f', evs)) (h1 : Ev.beginPkt o l ∈ evs) (h2 : Ev.beginPkt o' l' ∈ evs) :
    o = o' ∧ l = l' := by
  have a := ((begin_iff f f' p evs o l h hc).mp h1).2.1
  have b := ((begin_iff f f' p evs o' l' h hc).mp h2).2.1
  rw [a] at b; injection b with b; injection b with b
  simpa using b

/-! ### pinned behaviour before the fix commits, for the record

`consumeOld` is `PesPacketFilter::consume` of the pinned tree (snapshot `7f24334`, before
`efbc9c9` = fix F1a and `b2c46bd` = fix F1b): on a continuity error the state ALWAYS becomes
`IgnoreRest` (also from `Begin`), and on a unit start the state becomes `Started` regardless of
whether a PES header was recognised.  It is NOT the model; it is kept only to show that the two
defects are real violations of the protocol acceptor, on concrete 188-byte packets. -/

def consumeOld (f : F) (p : Bytes) : R (F × List Ev) := do
  let cont ← isContinuous f p
  let (st1, ev1) := if !cont then (St.ignoreRest, [Ev.ccErr]) else (f.st, [])
  let n ← cc p
  let us ← pusi p
  if us then do
    let (st2, ev2) :=
      if st1 == .started then (st1, [Ev.endPkt])
      else (St.started, if st1 == .begin then [Ev.start] else [])
    match ← payloadRange p with
    | some r => do
      match ← Pes.headerFromBytes (rangeBytes p r) with
      | some _ => pure (⟨some n, st2⟩, ev1 ++ ev2 ++ [Ev.beginPkt r.1 r.2])
      | none => pure (⟨some n, st2⟩, ev1 ++ ev2)
    | none => pure (⟨some n, st2⟩, ev1 ++ ev2)
  else
    match st1 with
    | .started => do
      match ← payloadRange p with
      | some r => if r.2 != 0 then pure (⟨some n, st1⟩, ev1 ++ [Ev.cont r.1 r.2]) else pure (⟨some n, st1⟩, ev1)
      | none => pure (⟨some n, st1⟩, ev1)
    | .begin => do
      let _ ← pid p
      pure (⟨some n, st1⟩, ev1)
    | .ignoreRest => pure (⟨some n, st1⟩, ev1)

def runOld (f : F) : List Bytes → R (F × List (List Ev))
  | [] => .ok (f, [])
  | p :: ps => do
    let (f1, e1) ← consumeOld f p
    let (f2, e2) ← runOld f1 ps
    pure (f2, e1 :: e2)

/-! concrete packets: `mkPkt b1 b3 pay` = `47 b1 00 b3 pay… ff…` (188 bytes; `b1 = 0x40` unit start,
`b3 = 0x10 + counter` payload only), `pesStart = 00 00 01 e0 00 00` (see `Ts.Lemmas.C08`) -/

/-- **F1a** (pre-fix): `[no unit start, cc=0] [no unit start, cc=5] [unit start, good header, cc=6]`
gives `ccerr, begin` — `begin_packet` without any `start_stream`; the acceptor rejects it. -/
example :
    runOld {} [mkPkt 0x00 0x10 [], mkPkt 0x00 0x15 [], mkPkt 0x40 0x16 pesStart]
      = .ok (⟨some 6, .started⟩, [[], [.ccErr], [.beginPkt 4 184]]) := by decide +kernel
example : accepts .notStarted ([[], [Ev.ccErr], [Ev.beginPkt 4 184]] : List (List Ev)).flatten = none := by
  decide
/-- the repaired model on the same packets: `ccerr, start, begin` — accepted -/
example :
    run {} [mkPkt 0x00 0x10 [], mkPkt 0x00 0x15 [], mkPkt 0x40 0x16 pesStart]
      = .ok (⟨some 6, .started⟩, [[], [.ccErr], [.start, .beginPkt 4 184]]) := by decide +kernel

/-- **F1b** (pre-fix): `[unit start, payload without 00 00 01] [continuation] [unit start, good]`
gives `start, cont, end, begin` — data and `end_packet` for a packet never begun; rejected. -/
example :
    runOld {} [mkPkt 0x40 0x10 [], mkPkt 0x00 0x11 [], mkPkt 0x40 0x12 pesStart]
      = .ok (⟨some 2, .started⟩, [[.start], [.cont 4 184], [.endPkt, .beginPkt 4 184]]) := by
  decide +kernel
example :
    accepts .notStarted
      ([[Ev.start], [Ev.cont 4 184], [Ev.endPkt, Ev.beginPkt 4 184]] : List (List Ev)).flatten = none := by
  decide
/-- the repaired model on the same packets: `start, begin` — the unrecognised packet's data is dropped -/
example :
    run {} [mkPkt 0x40 0x10 [], mkPkt 0x00 0x11 [], mkPkt 0x40 0x12 pesStart]
      = .ok (⟨some 2, .started⟩, [[.start], [], [.beginPkt 4 184]]) := by decide +kernel

/-! ### non-vacuity -/

example : (mkPkt 0x40 0x10 pesStart).length = 188 := by decide +kernel
example : readBits (mkPkt 0x40 0x10 pesStart) 9 1 = 1 := by decide +kernel

/-- a run exhibiting every callback: start, begin, data, end, a continuity error closing a packet,
a packet with an adaptation field (payload range `(12,176)`), an unrecognised header -/
example :
    run {} [mkPkt 0x40 0x10 pesStart, mkPkt 0x00 0x11 [], mkPkt 0x40 0x12 pesStart,
            mkPkt 0x00 0x14 [], mkPkt 0x00 0x15 [],
            mkPkt 0x40 0x36 ([7, 0, 0xff, 0xff, 0xff, 0xff, 0xff, 0xff] ++ pesStart),
            mkPkt 0x40 0x17 [], mkPkt 0x00 0x18 []]
      = .ok (⟨some 8, .ignoreRest⟩,
          [[.start, .beginPkt 4 184], [.cont 4 184], [.endPkt, .beginPkt 4 184],
           [.ccErr], [], [.beginPkt 12 176], [.endPkt], []]) := by decide +kernel

/-- the hypotheses of `unrecognised_header_not_delivered` are satisfiable -/
example : consume {} (mkPkt 0x40 0x10 []) = .ok (⟨some 0, .ignoreRest⟩, [.start]) := by decide +kernel

/-- arbitrary garbage (not even a sync byte) is handled without panic -/
example : consume ⟨some 3, .started⟩ (List.replicate 188 0xff)
    = .ok (⟨some 15, .ignoreRest⟩, [.ccErr]) := by decide +kernel

/-! ### the READING of "header could not be recognised", as a theorem -/

/-- helper: read `PesHeader::contents = Parsed(None)` off a Boolean evaluation -/
theorem contents_parsed_none_of_check (h : Bytes)
    (hc : (match Pes.contents h with | .ok (.parsed none) => true | _ => false) = true) :
    Pes.contents h = .ok (.parsed none) := by
  cases hh : Pes.contents h with
  | panic s => rw [hh] at hc; cases hc
  | ok c =>
    cases c with
    | payload r => rw [hh] at hc; cases hc
    | parsed o =>
      cases o with
      | none => rfl
      | some x => rw [hh] at hc; cases hc

/-- a unit-start packet whose payload starts with the recognisable PES header `00 00 01 e0 00 00`
(stream id `e0`: a stream id WITH an optional header) followed by `00`: the optional header's
marker bits are not `'10'`, so `PesParsedContents::from_bytes` rejects it -/
def rejFirst : Bytes := mkPkt 0x40 0x10 (pesStart ++ [0x00])
/-- a continuation packet (counter 1, 184 payload bytes) -/
def rejCont : Bytes := mkPkt 0x00 0x11 []

/-- **THE READING, witnessed.**  There are two 188-byte packets — a unit start whose payload is
accepted by `PesHeader::from_bytes` (`00 00 01` prefix, ≥ 6 bytes) but whose OPTIONAL header is
rejected (`PesHeader::contents` = `Parsed(None)`, what `App.beginInfo` reports as `kind = 2`), then a
continuation — on which the filter delivers `start_stream`, `begin_packet` AND the continuation
data.  So "data of a PES packet whose header could not be recognised is not delivered" holds of the
code only when "could not be recognised" is read as "`PesHeader::from_bytes` = `None`" (then
`unrecognised_header_not_delivered…` apply: no `begin_packet`, no data), NOT as "the optional header
was rejected".  (`Ts/Props/C02Trace.lean`, `rejected_optional_header_still_delivered_split`, shows
the same on a PES header split over two transport packets.) -/
theorem rejected_optional_header_still_delivered :
    ∃ p0 p1 : Bytes, p0.length = 188 ∧ p1.length = 188 ∧ ∃ f' o l o' l',
      run {} [p0, p1] = .ok (f', [[.start, .beginPkt o l], [.cont o' l']]) ∧
      Pes.headerFromBytes (rangeBytes p0 (o, l)) = .ok (some (rangeBytes p0 (o, l))) ∧
      Pes.contents (rangeBytes p0 (o, l)) = .ok (.parsed none) := by
  refine ⟨rejFirst, rejCont, by decide +kernel, by decide +kernel, ⟨some 1, .started⟩, 4, 184, 4, 184,
    by decide +kernel, by decide +kernel, ?_⟩
  exact contents_parsed_none_of_check _ (by decide +kernel)

/-- the contrast: the same two packets with the start-code prefix destroyed (`00 00 02`):
`PesHeader::from_bytes` = `None`, and NOTHING of the packet is delivered — neither `begin_packet` nor
the continuation data (an instance of `unrecognised_header_not_delivered_run`) -/
example : run {} [mkPkt 0x40 0x10 [0, 0, 2, 0xe0, 0, 0, 0x00], rejCont]
      = .ok (⟨some 1, .ignoreRest⟩, [[.start], []])
    ∧ Pes.headerFromBytes (rangeBytes (mkPkt 0x40 0x10 [0, 0, 2, 0xe0, 0, 0, 0x00]) (4, 184)) = .ok none := by
  decide +kernel

end Ts.Props.C08
