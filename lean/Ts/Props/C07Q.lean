import Ts.Lemmas.DemuxQ
import Ts.Props.C07
/-!
# C06/C07 for the dispatcher with the pending changeset made explicit (`Ts/Model/DemuxQ.lean`)

`Ts/Model/Demux.lean` (C06, C07, C18) cannot express an application whose `construct` queues
filter changes, nor a `FilterChangeset` that is non-empty when `push` is entered (see "MODEL
RESTRICTION" in `Ts/Props/C06.lean`).  `Ts/Model/DemuxQ.lean` lifts that restriction: the state is
`(table, context, pending changes)`, both `consume` and `construct` may queue changes.  All theorems
here hold for EVERY `sem : SemQ H C`, every state — in particular every pending queue — and every
input.

* `push_refines_specQ`: `Demultiplex::push` (framing, then the run-caching double loop) equals
  framing followed by the one-packet-at-a-time fold `pushSpecQ`.
* `chunking_irrelevantQ` (+ `_general`, `_aligned`, `_unaligned_last`, `any_two_cuttings_agreeQ`):
  cutting the stream at packet boundaries into successive `push` calls is irrelevant — including
  for whatever is pending at the cut.
* `ofSem_agrees`: the old model is the special case "construct queues nothing, nothing pending on
  entry".
* `construct_changes_wait_for_consumed_packet`, `pending_survives_dropped_packet`,
  `pending_applied_by_next_consumed_packet`, `pending_empty_after_consumed`: the reading of one step
  of `pushSpecQ` as the property "changes are applied only after a packet has been consumed".
-/
namespace Ts.Props.C07Q
open Ts Ts.Demux Ts.DemuxQ Ts.Lemmas.DemuxQ

variable {H C : Type}

/-! ### refinement -/

/-- **REFINEMENT (packet level).**  The transcription of the two labelled loops of
`Demultiplex::push`, carrying the pending changeset, equals the one-packet-at-a-time fold — same
final table, context and pending queue, and a panic in one iff the same panic in the other — for
every handler semantics, every pending queue on entry and every packet list. -/
theorem pushModel_refines_specQ (sem : SemQ H C) (st : StQ H C) (pks : List Pk) :
    pushModelQ sem st pks = pushSpecQ sem st pks :=
  pushModelQ_eq_pushSpecQ sem st pks

/-- **REFINEMENT (byte level).**  `Demultiplex::push` on a buffer = frame the buffer
(`chunks_exact(188)` + `try_new`), then run the one-packet-at-a-time specification over the framed
packets. -/
theorem push_refines_specQ (sem : SemQ H C) (st : StQ H C) (buf : Bytes) (base : Nat) :
    pushQ sem st buf base =
      (match frame buf base with
       | .panic s => .panic s
       | .ok pks => pushSpecQ sem st pks) := by
  unfold pushQ
  cases frame buf base with
  | panic s => rfl
  | ok pks => exact pushModelQ_eq_pushSpecQ sem st pks

/-- … and framing never panics (`C07.frame_total`), so there always ARE framed packets (those
characterised byte by byte by `C07.frame_spec`) and `push` is the specification run over them. -/
theorem push_refines_specQ_framed (sem : SemQ H C) (st : StQ H C) (buf : Bytes) (base : Nat) :
    ∃ pks, frame buf base = .ok pks ∧ pushQ sem st buf base = pushSpecQ sem st pks := by
  obtain ⟨pks, h⟩ := C07.frame_total buf base
  exact ⟨pks, h, by rw [push_refines_specQ, h]⟩

/-- the fold distributes over `++`: the state handed over — pending queue included — is all that
the rest of the run depends on -/
theorem spec_appendQ (sem : SemQ H C) (st : StQ H C) (a b : List Pk) :
    pushSpecQ sem st (a ++ b) =
      (match pushSpecQ sem st a with
       | .panic s => .panic s
       | .ok st' => pushSpecQ sem st' b) :=
  pushSpecQ_append sem st a b

/-! ### chunking irrelevance -/

/-- two successive pushes, the first one packet-aligned = one push of the concatenation (the pending
changes at the end of the first call are the pending changes at the start of the second) -/
theorem push_appendQ (sem : SemQ H C) (st : StQ H C) (a b : Bytes) (base : Nat)
    (ha : a.length % 188 = 0) :
    pushQ sem st (a ++ b) base =
      (match pushQ sem st a base with
       | .panic s => .panic s
       | .ok st' => pushQ sem st' b (base + a.length)) :=
  pushQ_append sem st a b base ha

/-- **CHUNKING IRRELEVANCE, one cut.**  For every handler semantics (whose `construct` and `consume`
may both queue filter changes), every table, context and pending queue, and every two buffers the
first of which ends at a packet boundary: pushing them one after the other gives the same table,
context and pending queue (or the same panic) as pushing their concatenation — although at the cut
the cached handler slot is lost, `contains` is re-run, and changes queued by a `construct` for a
dropped packet may still be pending. -/
theorem chunking_irrelevantQ (sem : SemQ H C) (st : StQ H C) (a b : Bytes) (base : Nat)
    (ha : a.length % 188 = 0) :
    pushAllQ sem st [a, b] base = pushAllQ sem st [a ++ b] base := by
  rw [pushAllQ_single, pushQ_append sem st a b base ha, pushAllQ_cons]
  cases pushQ sem st a base with
  | panic s => rfl
  | ok st' => exact pushAllQ_single sem st' b (base + a.length)

/-- **CHUNKING IRRELEVANCE, general form.**  Any list of buffers all of which except possibly the
last have a length divisible by 188 (empty and single-packet buffers included; the remainder of the
last one is dropped by `chunks_exact` in both runs): one `push` per buffer = one `push` of the
concatenation. -/
theorem chunking_irrelevantQ_general (sem : SemQ H C) (st : StQ H C) (bufs : List Bytes) (base : Nat)
    (h : ∀ c ∈ bufs.dropLast, c.length % 188 = 0) :
    pushAllQ sem st bufs base = pushAllQ sem st [bufs.flatten] base := by
  rw [pushAllQ_single]
  exact pushAllQ_flatten_dropLast sem bufs st base h

/-- all buffers packet-aligned (the form of `C07.chunking_irrelevant`) -/
theorem chunking_irrelevantQ_aligned (sem : SemQ H C) (st : StQ H C) (bufs : List Bytes) (base : Nat)
    (h : ∀ c ∈ bufs, c.length % 188 = 0) :
    pushAllQ sem st bufs base = pushAllQ sem st [bufs.flatten] base :=
  chunking_irrelevantQ_general sem st bufs base (fun c hc => h c (List.dropLast_subset bufs hc))

/-- only the last buffer may be unaligned (the form of `C07.chunking_irrelevant_unaligned_last`) -/
theorem chunking_irrelevantQ_unaligned_last (sem : SemQ H C) (st : StQ H C)
    (init : List Bytes) (last : Bytes) (base : Nat)
    (h : ∀ c ∈ init, c.length % 188 = 0) :
    pushAllQ sem st (init ++ [last]) base = pushAllQ sem st [init.flatten ++ last] base := by
  have := chunking_irrelevantQ_general sem st (init ++ [last]) base
    (by rw [List.dropLast_concat]; exact h)
  rw [this]
  simp

/-- two arbitrary aligned cuttings of the same stream agree -/
theorem any_two_cuttings_agreeQ (sem : SemQ H C) (st : StQ H C) (cs1 cs2 : List Bytes) (base : Nat)
    (h1 : ∀ c ∈ cs1, c.length % 188 = 0) (h2 : ∀ c ∈ cs2, c.length % 188 = 0)
    (he : cs1.flatten = cs2.flatten) :
    pushAllQ sem st cs1 base = pushAllQ sem st cs2 base := by
  rw [chunking_irrelevantQ_aligned sem st cs1 base h1, chunking_irrelevantQ_aligned sem st cs2 base h2, he]

/-! ### the model without a pending queue is a special case -/

/-- **CONSERVATIVITY.**  For an application whose `construct` queues nothing (`SemQ.ofSem sem`) and
with nothing pending on entry, the double loop with the explicit pending queue computes exactly what
the double loop of `Ts/Model/Demux.lean` computes, and ends with nothing pending: C06/C07/C18 are
statements about this special case. -/
theorem ofSem_agrees (sem : Sem H C) (tc : Tab H × C) (pks : List Pk) :
    pushModelQ (SemQ.ofSem sem) (tc.1, tc.2, []) pks =
      (match pushModel sem tc pks with
       | .ok (t, c) => .ok (t, c, [])
       | .panic s => .panic s) := by
  obtain ⟨t, c⟩ := tc
  rw [pushModelQ_eq_pushSpecQ, pushModel_eq_pushSpec, pushSpecQ_ofSem]
  cases pushSpec sem (t, c) pks with
  | panic s => rfl
  | ok r => rfl

/-- the same on raw bytes, for `Demultiplex::push` -/
theorem ofSem_agrees_push (sem : Sem H C) (tc : Tab H × C) (buf : Bytes) (base : Nat) :
    pushQ (SemQ.ofSem sem) (tc.1, tc.2, []) buf base =
      (match push sem tc buf base with
       | .ok (t, c) => .ok (t, c, [])
       | .panic s => .panic s) := by
  unfold pushQ push
  cases frame buf base with
  | panic s => rfl
  | ok pks => exact ofSem_agrees sem tc pks

/-! ### when pending changes are applied -/

/-- **Changes queued by `construct` wait.**  A flagged packet (transport error / scrambled) on a PID
without handler: the handler is constructed and installed, the packet is dropped, and the changes
`construct` queued are appended to the pending queue — NOT applied to the table. -/
theorem construct_changes_wait_for_consumed_packet (sem : SemQ H C) (t : Tab H) (c : C)
    (q : List (Change H)) (pk : Pk) (h : H) (c' : C) (chg : List (Change H))
    (hf : pk.flagged = true) (hc : t.contains pk.pid = false)
    (hk : sem.construct c pk.pid = .ok (h, c', chg)) :
    specStepQ sem (t, c, q) pk = .ok (t.insert pk.pid h, c', q ++ chg) := by
  rw [specStepQ_eq, ensureQ_of_absent_ok sem t c q pk.pid h c' chg hc hk]
  simp only [hf, if_true]

/-- a flagged packet on a PID that has a handler changes nothing: table, context and pending queue
stay as they are (so pending changes survive any run of dropped packets) -/
theorem pending_survives_dropped_packet (sem : SemQ H C) (t : Tab H) (c : C)
    (q : List (Change H)) (pk : Pk) (hf : pk.flagged = true) (hc : t.contains pk.pid = true) :
    specStepQ sem (t, c, q) pk = .ok (t, c, q) :=
  specStepQ_flagged_of_contains sem t c q pk hc hf

/-- … and they survive the end of `push`: a buffer all of whose packets are dropped hands the
pending queue on to the next call (here: the empty buffer; in general by `push_refines_specQ` and
`pending_survives_dropped_packet`) -/
theorem pending_survives_empty_push (sem : SemQ H C) (st : StQ H C) (base : Nat) :
    pushQ sem st [] base = .ok st := rfl

/-- **Pending changes are applied by the next consumed packet.**  An unflagged packet whose PID has
handler `h` in the table AS IT IS BEFORE the pending changes are applied is consumed by `h` (even if
a pending change would remove or replace `h`); afterwards everything pending — the old queue, then
what this `consume` queued — is applied in order, and the queue is empty. -/
theorem pending_applied_by_next_consumed_packet (sem : SemQ H C) (t : Tab H) (c : C)
    (q : List (Change H)) (pk : Pk) (h h' : H) (c' : C) (chg : List (Change H))
    (hf : pk.flagged = false) (hg : t.get pk.pid = some h)
    (hk : sem.consume h c pk = .ok (h', c', chg)) :
    specStepQ sem (t, c, q) pk = .ok (applyChanges (t.insert pk.pid h') (q ++ chg), c', []) := by
  have hc : t.contains pk.pid = true := (Tab.contains_eq_true_iff t pk.pid).2 ⟨h, hg⟩
  rw [specStepQ_consume_of_contains sem t c q pk h hc hf hg, hk]

/-- the same when the PID has no handler yet: `construct` runs first, its changes join the queue,
the packet is consumed by the handler just constructed, and then everything is applied -/
theorem pending_applied_by_next_consumed_packet_constructed (sem : SemQ H C) (t : Tab H) (c : C)
    (q : List (Change H)) (pk : Pk) (h0 h' : H) (c0 c' : C) (chg0 chg : List (Change H))
    (hf : pk.flagged = false) (hc : t.contains pk.pid = false)
    (hk0 : sem.construct c pk.pid = .ok (h0, c0, chg0))
    (hk : sem.consume h0 c0 pk = .ok (h', c', chg)) :
    specStepQ sem (t, c, q) pk =
      .ok (applyChanges ((t.insert pk.pid h0).insert pk.pid h') ((q ++ chg0) ++ chg), c', []) := by
  rw [specStepQ_eq, ensureQ_of_absent_ok sem t c q pk.pid h0 c0 chg0 hc hk0]
  simp only [hf, Bool.false_eq_true, if_false, Tab.get_insert_self, hk]

/-- after ANY unflagged packet (whether or not its handler had to be constructed) nothing is
pending -/
theorem pending_empty_after_consumed (sem : SemQ H C) (st st' : StQ H C) (pk : Pk)
    (hf : pk.flagged = false) (hs : specStepQ sem st pk = .ok st') : st'.2.2 = [] := by
  obtain ⟨t, c, q⟩ := st
  rw [specStepQ_eq] at hs
  cases hE : ensureQ sem t c q pk.pid with
  | panic s => rw [hE] at hs; cases hs
  | ok r =>
    obtain ⟨t1, c1, q1⟩ := r
    rw [hE] at hs
    simp only [hf, Bool.false_eq_true, if_false] at hs
    cases hg : t1.get pk.pid with
    | none => rw [hg] at hs; cases hs
    | some h =>
      rw [hg] at hs
      simp only [] at hs
      cases hk : sem.consume h c1 pk with
      | panic s => rw [hk] at hs; cases hs
      | ok x =>
        obtain ⟨h', c', chg⟩ := x
        rw [hk] at hs
        cases hs
        rfl

/-- hence after a whole run that ends with an unflagged packet nothing is pending -/
theorem pending_empty_after_run_ending_consumed (sem : SemQ H C) (st st' : StQ H C)
    (pre : List Pk) (pk : Pk) (hf : pk.flagged = false)
    (hs : pushModelQ sem st (pre ++ [pk]) = .ok st') : st'.2.2 = [] := by
  rw [pushModelQ_eq_pushSpecQ, pushSpecQ_append] at hs
  cases hp : pushSpecQ sem st pre with
  | panic s => rw [hp] at hs; cases hs
  | ok st1 =>
    rw [hp] at hs
    simp only [] at hs
    rw [pushSpecQ_cons] at hs
    cases h1 : specStepQ sem st1 pk with
    | panic s => rw [h1] at hs; cases hs
    | ok st2 =>
      rw [h1] at hs
      have e : st2 = st' := by injection hs
      subst e
      exact pending_empty_after_consumed sem st1 st2 pk hf h1

/-! ### non-vacuity -/

/-- a tiny application: the handler state counts consumed packets, the context counts callbacks
(+1 per `construct`, +10 per `consume`); `construct` for PID `p` QUEUES the insertion of a handler
in state 7 on PID `p+1`; `consume` on PID 9 queues the removal of PID 9 -/
private def exQ : SemQ Nat Nat where
  consume h c pk := .ok (h + 1, c + 10, if pk.pid == 9 then [.remove 9] else [])
  construct c pid := .ok (0, c + 1, [.insert (pid + 1) 7])

/-- a dropped packet on the unknown PID 5: handler constructed, its queued insert stays pending … -/
example : pushModelQ exQ ([], 0, []) [exPk 5 true false]
    = .ok ([none, none, none, none, none, some 0], 1, [.insert 6 7]) := rfl

/-- … across a further dropped packet, and is applied after the next consumed packet (which may be
on another PID, here 2, whose own `construct` queues the insert of PID 3) -/
example : pushModelQ exQ ([], 0, []) [exPk 5 true false, exPk 5 false true, exPk 2 false false]
    = .ok ([none, none, some 1, some 7, none, some 0, some 7], 12, []) := rfl

/-- chunking at the packet-list level with a NON-EMPTY pending queue at the cut: the two-call run and
the one-call run agree (both evaluated) -/
example :
    (match pushModelQ exQ ([], 0, []) [exPk 5 true false] with
     | .panic s => R.panic s
     | .ok st' => pushModelQ exQ st' [exPk 5 false false])
      = .ok ([none, none, none, none, none, some 1, some 7], 11, [])
    ∧ pushModelQ exQ ([], 0, []) [exPk 5 true false, exPk 5 false false]
      = .ok ([none, none, none, none, none, some 1, some 7], 11, []) := ⟨rfl, rfl⟩

/-- a run entered with something pending (`remove 5` queued before `push`): the packet on PID 5 is
still dispatched to PID 5's handler (state 3 → 4, context +10), and only then is the handler removed -/
example : pushModelQ exQ ([none, none, none, none, none, some 3], 0, [.remove 5]) [exPk 5 false false]
    = .ok ([none, none, none, none, none, none], 10, []) := rfl

/-- the spec computes the same (instance of `pushModel_refines_specQ`) -/
example : pushSpecQ exQ ([], 0, []) [exPk 5 true false, exPk 5 false true, exPk 2 false false]
    = .ok ([none, none, some 1, some 7, none, some 0, some 7], 12, []) := rfl

/-- a 188-byte packet: sync byte, PID 5, not scrambled -/
private def pkt5 : Bytes := [0x47, 0x00, 0x05, 0x10] ++ List.replicate 184 0
/-- a 188-byte packet on PID 5 with transport_error_indicator set (dropped by `push`) -/
private def pkt5e : Bytes := [0x47, 0x80, 0x05, 0x10] ++ List.replicate 184 0

private theorem pkt5_len : pkt5.length = 188 := by
  unfold pkt5; rw [List.length_append, List.length_replicate]; rfl
private theorem pkt5e_len : pkt5e.length = 188 := by
  unfold pkt5e; rw [List.length_append, List.length_replicate]; rfl

/-- byte level: pushing the dropped packet alone leaves `construct`'s insert pending at the end of
`push` … -/
example : pushQ exQ ([], 0, []) pkt5e 0
    = .ok ([none, none, none, none, none, some 0], 1, [.insert 6 7]) := by
  have hf : frame pkt5e 0 = .ok [⟨pkt5e, 0, 5, true, false⟩] := by
    rw [C07.frame_spec]; exact congrArg R.ok (by decide +kernel)
  unfold pushQ; rw [hf]; rfl

/-- … the next `push` (entered with that pending queue) consumes a packet and then applies it … -/
example : pushQ exQ ([none, none, none, none, none, some 0], 1, [.insert 6 7]) pkt5 188
    = .ok ([none, none, none, none, none, some 1, some 7], 11, []) := by
  have hf : frame pkt5 188 = .ok [⟨pkt5, 188, 5, false, false⟩] := by
    rw [C07.frame_spec]; exact congrArg R.ok (by decide +kernel)
  unfold pushQ; rw [hf]; rfl

/-- … and `chunking_irrelevantQ` applies to this cut (its hypothesis holds): two calls = one call,
with the value computed above -/
example : pushAllQ exQ ([], 0, []) [pkt5e, pkt5] 0 = pushAllQ exQ ([], 0, []) [pkt5e ++ pkt5] 0
    ∧ pushAllQ exQ ([], 0, []) [pkt5e ++ pkt5] 0
      = .ok ([none, none, none, none, none, some 1, some 7], 11, []) := by
  have hf : frame (pkt5e ++ pkt5) 0 = .ok [⟨pkt5e, 0, 5, true, false⟩, ⟨pkt5, 188, 5, false, false⟩] := by
    rw [C07.frame_spec]; exact congrArg R.ok (by decide +kernel)
  refine ⟨chunking_irrelevantQ exQ _ pkt5e pkt5 0 (by rw [pkt5e_len]), ?_⟩
  rw [pushAllQ_single]
  unfold pushQ; rw [hf]; rfl

/-- the hypothesis of the general form is satisfiable with empty, single-packet, multi-packet and a
trailing unaligned buffer -/
example : pushAllQ exQ ([], 0, []) [[], pkt5e, [], pkt5 ++ pkt5e, pkt5 ++ [0x47, 1]] 0
    = pushAllQ exQ ([], 0, []) [pkt5e ++ (pkt5 ++ pkt5e) ++ (pkt5 ++ [0x47, 1])] 0 := by
  have := chunking_irrelevantQ_general exQ ([], 0, []) [[], pkt5e, [], pkt5 ++ pkt5e, pkt5 ++ [0x47, 1]] 0
    (by
      intro c hc
      simp only [List.dropLast, List.mem_cons, List.not_mem_nil, or_false] at hc
      rcases hc with e | e | e | e <;> subst e <;>
        simp only [List.length_append, pkt5_len, pkt5e_len, List.length_nil])
  rw [this]
  simp only [List.flatten_cons, List.flatten_nil, List.nil_append, List.append_nil, List.append_assoc]

/-- the hypotheses of `construct_changes_wait_for_consumed_packet` and
`pending_applied_by_next_consumed_packet` are satisfiable (by `exQ`) -/
example : specStepQ exQ ([], 0, [.remove 3]) (exPk 5 true false)
    = .ok (Tab.insert [] 5 0, 1, [.remove 3] ++ [.insert 6 7]) :=
  construct_changes_wait_for_consumed_packet exQ [] 0 [.remove 3] (exPk 5 true false) 0 1 [.insert 6 7]
    rfl rfl rfl

example : specStepQ exQ ([none, some 4], 0, [.remove 1, .insert 0 2]) (exPk 1 false false)
    = .ok (applyChanges (Tab.insert [none, some 4] 1 5) ([.remove 1, .insert 0 2] ++ []), 10, []) :=
  pending_applied_by_next_consumed_packet exQ [none, some 4] 0 [.remove 1, .insert 0 2]
    (exPk 1 false false) 4 5 10 [] rfl rfl rfl

/-- `ofSem_agrees` on a concrete run of `exSem` (the example application of C06/C07) -/
example : pushModelQ (SemQ.ofSem exSem) ([], [], []) [exPk 1 false false, exPk 2 false false]
    = .ok ([none, none, some 51], [9001, 100, 250], []) := rfl

end Ts.Props.C07Q
