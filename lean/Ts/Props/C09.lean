import Ts.Lemmas.C08
/-!
# C09 — continuity errors exactly at counter breaks; quarantine until the next PES packet

"For each elementary-stream PID a continuity error is reported for a packet if and only if its
continuity_counter is not the expected successor of the previous packet delivered on that PID
(unchanged when the packet carries no payload, plus one modulo 16 when it does); the first packet is
never an error.  After a continuity error no continuation data is delivered until a packet starts a
new PES packet."

`readBits p 28 4` is the `continuity_counter` field, `readBits p 27 1` the "payload present" bit of
`adaptation_field_control`, `readBits p 9 1` the `payload_unit_start_indicator` (ISO/IEC 13818-1
2.4.3.2; tied to the model's accessors by C12).  "packet" = any `p : Bytes` with `p.length = 188`.
-/
namespace Ts.Props.C09
open Ts Ts.Packet Ts.PesFilter Ts.Spec Ts.Spec.Protocol Ts.Lemmas.C08

/-! ### the successor relation on counters -/

/-- `ContinuityCounter::follows` is "plus one modulo 16" -/
theorem follows_spec : ∀ n c, n < 16 → c < 16 → (Packet.follows n c = true ↔ n = (c + 1) % 16) :=
  fun n c _ _ => follows_iff n c

/-- including the wrap 15 → 0 -/
example : Packet.follows 0 15 = true ∧ Packet.follows 1 15 = false ∧ Packet.follows 15 15 = false := by
  decide

/-- the expected counter of a packet, given the previous packet's counter `c` -/
abbrev expected (p : Bytes) (c : Nat) : Nat := if readBits p 27 1 = 1 then (c + 1) % 16 else c

/-! ### one packet -/

/-- a continuity error is reported iff there is a previous counter and this packet's counter is not
its expected successor -/
theorem ccerr_iff (f f' : F) (p : Bytes) (evs : List Ev) (h : p.length = 188)
    (hc : consume f p = .ok (f', evs)) :
    Ev.ccErr ∈ evs ↔
      ∃ c, f.cc = some c ∧ readBits p 28 4 ≠ (if readBits p 27 1 = 1 then (c + 1) % 16 else c) := by
  obtain ⟨rfl, rfl⟩ := consume_inv h hc
  rw [show (stepOf f p).2 = (stepPure f (usOf p) (hpOf p) (ccOf p) (payOf p) (hdrOf p)).2 from rfl,
    stepPure_ccErr_mem, continuous_false_iff, hpOf_eq]
  simp only [beq_iff_eq, ccOf]

/-- the filter remembers this packet's counter (error or not) -/
theorem cc_stored (f f' : F) (p : Bytes) (evs : List Ev) (h : p.length = 188)
    (hc : consume f p = .ok (f', evs)) : f'.cc = some (readBits p 28 4) := by
  obtain ⟨rfl, rfl⟩ := consume_inv h hc
  exact stepPure_cc ..

/-- invariant established by `consume`: stored counters are 4-bit values -/
theorem cc_invariant (f f' : F) (p : Bytes) (evs : List Ev) (h : p.length = 188)
    (hc : consume f p = .ok (f', evs)) : ∀ c, f'.cc = some c → c < 16 := by
  intro c hcc
  rw [cc_stored f f' p evs h hc] at hcc
  injection hcc with hcc
  rw [← hcc]; exact ccOf_lt p

/-- the initial filter satisfies the invariant trivially, and `run` preserves it -/
theorem cc_invariant_run (f f' : F) (ps : List Bytes) (evss : List (List Ev))
    (h : ∀ p ∈ ps, p.length = 188) (hinv : ∀ c, f.cc = some c → c < 16)
    (hr : run f ps = .ok (f', evss)) : ∀ c, f'.cc = some c → c < 16 := by
  obtain ⟨rfl, -⟩ := run_inv h hr
  clear hr
  induction ps generalizing f with
  | nil => exact hinv
  | cons p ps ih =>
    have hp : p.length = 188 := h p (by simp)
    exact ih (stepOf f p).1 (fun q hq => h q (List.mem_cons_of_mem _ hq))
      (cc_invariant f _ p _ hp (consume_eq' f p hp))

/-- under the invariant, the equivalence with the model's own `follows` test -/
theorem ccerr_iff_follows (f f' : F) (p : Bytes) (evs : List Ev) (h : p.length = 188)
    (hinv : ∀ c, f.cc = some c → c < 16) (hc : consume f p = .ok (f', evs)) :
    Ev.ccErr ∈ evs ↔
      ∃ c, c < 16 ∧ f.cc = some c ∧
        (if readBits p 27 1 = 1 then Packet.follows (readBits p 28 4) c = false
         else readBits p 28 4 ≠ c) := by
  rw [ccerr_iff f f' p evs h hc]
  constructor
  · rintro ⟨c, h1, h2⟩
    refine ⟨c, hinv c h1, h1, ?_⟩
    by_cases hb : readBits p 27 1 = 1
    · simp only [hb, if_true] at h2 ⊢
      cases hf : Packet.follows (readBits p 28 4) c
      · rfl
      · exact absurd ((follows_iff _ _).mp hf) h2
    · simpa only [hb, if_false] using h2
  · rintro ⟨c, _, h1, h2⟩
    refine ⟨c, h1, ?_⟩
    by_cases hb : readBits p 27 1 = 1
    · simp only [hb, if_true] at h2 ⊢
      intro he
      rw [(follows_iff _ _).mpr he] at h2; cases h2
    · simpa only [hb, if_false] using h2

/-- the error callback occurs only as the first callback of a packet … -/
theorem ccerr_only_first (f f' : F) (p : Bytes) (evs : List Ev) (h : p.length = 188)
    (hc : consume f p = .ok (f', evs)) : Ev.ccErr ∉ evs.tail := by
  obtain ⟨rfl, rfl⟩ := consume_inv h hc
  exact stepPure_ccErr_not_tail _ _ _ _ _ _

/-- … hence at most once per packet -/
theorem ccerr_at_most_once (f f' : F) (p : Bytes) (evs : List Ev) (h : p.length = 188)
    (hc : consume f p = .ok (f', evs)) : evs.count .ccErr ≤ 1 := by
  have := ccerr_only_first f f' p evs h hc
  cases evs with
  | nil => simp
  | cons e es =>
    simp only [List.tail_cons] at this
    rw [List.count_cons, List.count_eq_zero_of_not_mem this]
    split <;> omega

/-- positional form: wherever `ccErr` sits in the packet's callbacks, nothing precedes it -/
theorem ccerr_position (f f' : F) (p : Bytes) (evs : List Ev) (h : p.length = 188)
    (hc : consume f p = .ok (f', evs)) (pre post : List Ev) (hs : evs = pre ++ .ccErr :: post) :
    pre = [] ∧ Ev.ccErr ∉ post := by
  have := ccerr_only_first f f' p evs h hc
  subst hs
  cases pre with
  | nil => simpa using this
  | cons x xs => simp at this

/-- the first packet seen on a PID is never an error -/
theorem first_packet_never_error (f f' : F) (p : Bytes) (evs : List Ev) (h : p.length = 188)
    (hnone : f.cc = none) (hc : consume f p = .ok (f', evs)) : Ev.ccErr ∉ evs := by
  rw [ccerr_iff f f' p evs h hc, hnone]
  rintro ⟨c, hc', _⟩; cases hc'

theorem first_packet_never_error_init (f' : F) (p : Bytes) (evs : List Ev) (h : p.length = 188)
    (hc : consume {} p = .ok (f', evs)) : Ev.ccErr ∉ evs :=
  first_packet_never_error {} f' p evs h rfl hc

/-! ### runs: packet `k` against packet `k-1` -/

/-- from any filter state: packet `j+1` of a run reports an error iff its counter is not the
expected successor of packet `j`'s counter -/
theorem run_ccerr_succ (f f' : F) (ps : List Bytes) (evss : List (List Ev))
    (h : ∀ p ∈ ps, p.length = 188) (hr : run f ps = .ok (f', evss))
    (j : Nat) (q p : Bytes) (evs : List Ev)
    (hq : ps[j]? = some q) (hp : ps[j + 1]? = some p) (he : evss[j + 1]? = some evs) :
    Ev.ccErr ∈ evs ↔
      readBits p 28 4 ≠
        (if readBits p 27 1 = 1 then (readBits q 28 4 + 1) % 16 else readBits q 28 4) := by
  obtain ⟨_, rfl⟩ := run_inv h hr
  rw [runPure_getElem? f ps (j + 1) p hp] at he
  injection he with he
  subst he
  have hp188 : p.length = 188 := h p (List.mem_of_getElem? hp)
  have key := ccerr_iff (runPure f (ps.take (j + 1))).1 _ p _ hp188 (consume_eq' _ p hp188)
  rw [runPure_take_succ_cc f ps j q hq] at key
  simpa [ccOf] using key

/-- packet 0 of a run: an error iff the start state already holds a counter that does not fit -/
theorem run_ccerr_zero (f f' : F) (ps : List Bytes) (evss : List (List Ev))
    (h : ∀ p ∈ ps, p.length = 188) (hr : run f ps = .ok (f', evss))
    (p : Bytes) (evs : List Ev) (hp : ps[0]? = some p) (he : evss[0]? = some evs) :
    Ev.ccErr ∈ evs ↔
      ∃ c, f.cc = some c ∧ readBits p 28 4 ≠ (if readBits p 27 1 = 1 then (c + 1) % 16 else c) := by
  obtain ⟨_, rfl⟩ := run_inv h hr
  rw [runPure_getElem? f ps 0 p hp] at he
  injection he with he
  subst he
  have hp188 : p.length = 188 := h p (List.mem_of_getElem? hp)
  exact ccerr_iff _ _ p _ hp188 (consume_eq' _ p hp188)

/-- **C09, run form.** From the freshly constructed filter, packet `k` reports a continuity error iff
`k ≥ 1` and its counter differs from the expected successor of packet `k-1`'s counter. -/
theorem run_ccerr_iff (f' : F) (ps : List Bytes) (evss : List (List Ev))
    (h : ∀ p ∈ ps, p.length = 188) (hr : run {} ps = .ok (f', evss))
    (k : Nat) (p : Bytes) (evs : List Ev) (hp : ps[k]? = some p) (he : evss[k]? = some evs) :
    Ev.ccErr ∈ evs ↔
      ∃ j q, k = j + 1 ∧ ps[j]? = some q ∧
        readBits p 28 4 ≠
          (if readBits p 27 1 = 1 then (readBits q 28 4 + 1) % 16 else readBits q 28 4) := by
  cases k with
  | zero =>
    rw [run_ccerr_zero {} f' ps evss h hr p evs hp he]
    constructor
    · rintro ⟨c, hc, _⟩; cases hc
    · rintro ⟨j, _, hk, _⟩; omega
  | succ j =>
    have hj : j < ps.length := by
      rcases Nat.lt_or_ge (j + 1) ps.length with hlt | hge
      · omega
      · rw [List.getElem?_eq_none hge] at hp; cases hp
    have hq : ps[j]? = some ps[j] := List.getElem?_eq_getElem hj
    rw [run_ccerr_succ {} f' ps evss h hr j ps[j] p evs hq hp he]
    constructor
    · intro hne; exact ⟨j, ps[j], rfl, hq, hne⟩
    · rintro ⟨j', q, hk, hq', hne⟩
      have : j' = j := by omega
      subst this
      rw [hq] at hq'; injection hq' with hq'
      rw [hq']; exact hne

/-- every packet of a run has its list of callbacks (so `evss[k]?` above is never vacuous) -/
theorem run_length (f f' : F) (ps : List Bytes) (evss : List (List Ev))
    (h : ∀ p ∈ ps, p.length = 188) (hr : run f ps = .ok (f', evss)) : evss.length = ps.length := by
  obtain ⟨_, rfl⟩ := run_inv h hr
  exact runPure_length f ps

/-! ### quarantine -/

/-- a continuity error on a packet that does not start a PES packet leaves no packet open, and the
packet's own data is not delivered -/
theorem quarantine_step (f f' : F) (p : Bytes) (evs : List Ev) (h : p.length = 188)
    (hc : consume f p = .ok (f', evs)) (herr : Ev.ccErr ∈ evs) (hnus : readBits p 9 1 ≠ 1) :
    f'.st ≠ .started ∧ ∀ o l, Ev.cont o l ∉ evs := by
  obtain ⟨rfl, rfl⟩ := consume_inv h hc
  have hu : usOf p = false := (usOf_false_iff p).mpr hnus
  have hcont := (stepPure_ccErr_mem ..).mp herr
  constructor
  · intro hst
    rcases (stepPure_started_iff ..).mp hst with ⟨hu', _⟩ | ⟨_, _, hc'⟩
    · rw [hu] at hu'; cases hu'
    · rw [hcont] at hc'; cases hc'
  · intro o l hm
    have := ((stepPure_cont_mem ..).mp hm).2.2.2.2
    rw [hcont] at this; cases this

/-- with no packet open, packets without the unit-start flag deliver no continuation data at all and
never open a packet -/
theorem quarantine_run (f f' : F) (ps : List Bytes) (evss : List (List Ev))
    (hst : f.st ≠ .started) (h : ∀ p ∈ ps, p.length = 188) (hnus : ∀ p ∈ ps, readBits p 9 1 ≠ 1)
    (hr : run f ps = .ok (f', evss)) :
    (∀ o l, Ev.cont o l ∉ evss.flatten) ∧ f'.st ≠ .started := by
  obtain ⟨rfl, rfl⟩ := run_inv h hr
  exact runPure_quarantine f ps hst (fun p hp => (usOf_false_iff p).mpr (hnus p hp))

/-- **C09, quarantine.** After a continuity error at a packet (not itself a unit start), no
continuation data is delivered by that packet nor by any following packets as long as none of them
has the unit-start flag -/
theorem quarantine (f f' : F) (p : Bytes) (ps : List Bytes) (e1 : List Ev) (evss : List (List Ev))
    (hp : p.length = 188) (hps : ∀ q ∈ ps, q.length = 188)
    (hr : run f (p :: ps) = .ok (f', e1 :: evss))
    (herr : Ev.ccErr ∈ e1) (hnus : readBits p 9 1 ≠ 1) (hnus' : ∀ q ∈ ps, readBits q 9 1 ≠ 1) :
    (∀ o l, Ev.cont o l ∉ (e1 :: evss).flatten) ∧ f'.st ≠ .started := by
  have hall : ∀ q ∈ p :: ps, q.length = 188 := by
    intro q hq; rcases List.mem_cons.mp hq with rfl | hq
    · exact hp
    · exact hps q hq
  obtain ⟨rfl, he⟩ := run_inv hall hr
  simp only [runPure, List.cons.injEq] at he
  obtain ⟨rfl, rfl⟩ := he
  have ⟨h1, h2⟩ := quarantine_step f _ p _ hp (consume_eq' f p hp) herr hnus
  have ⟨h3, h4⟩ := quarantine_run (stepOf f p).1 _ ps _ h1 hps hnus' (run_eq' _ ps hps)
  refine ⟨?_, h4⟩
  intro o l hm
  rw [List.flatten_cons] at hm
  rcases List.mem_append.mp hm with hm | hm
  · exact h2 o l hm
  · exact h3 o l hm

/-- … and, whatever follows, continuation data reappears only after a `begin_packet` (which only a
unit-start packet with a recognised PES header produces, `C08.begin_iff`) -/
theorem quarantine_until_begin (f f' : F) (p : Bytes) (ps : List Bytes) (e1 : List Ev)
    (evss : List (List Ev)) (hp : p.length = 188) (hps : ∀ q ∈ ps, q.length = 188)
    (hr : run f (p :: ps) = .ok (f', e1 :: evss))
    (herr : Ev.ccErr ∈ e1) (hnus : readBits p 9 1 ≠ 1)
    (mid rest : List Ev) (hsplit : evss.flatten = mid ++ rest) (hmid : ∀ o l, Ev.beginPkt o l ∉ mid) :
    (∀ o l, Ev.cont o l ∉ e1 ++ mid) ∧ Ev.endPkt ∉ mid := by
  have hall : ∀ q ∈ p :: ps, q.length = 188 := by
    intro q hq; rcases List.mem_cons.mp hq with rfl | hq
    · exact hp
    · exact hps q hq
  obtain ⟨_, he⟩ := run_inv hall hr
  simp only [runPure, List.cons.injEq] at he
  obtain ⟨rfl, rfl⟩ := he
  have ⟨hst, hnc⟩ := quarantine_step f _ p _ hp (consume_eq' f p hp) herr hnus
  have hacc := runPure_accepts (stepOf f p).1 ps
  rw [hsplit] at hacc
  obtain ⟨m, hm, _⟩ := accepts_append_some hacc
  have hno : Ts.Lemmas.C08.abs (stepOf f p).1.st ≠ .open_ := fun x => hst ((abs_open_iff _).mp x)
  have ⟨h1, h2, _⟩ := closed_without_begin hm hno hmid
  refine ⟨?_, h2⟩
  intro o l hx
  rcases List.mem_append.mp hx with hx | hx
  · exact hnc o l hx
  · exact h1 o l hx

/-- whenever an error is reported it is the packet's first callback and it alone closes the open
packet: no `end_packet` is delivered for a packet already closed by the error (also when the packet is
a unit start, which then begins a new PES packet in the ordinary way, `C08.begin_iff`) -/
theorem error_then_restart (f f' : F) (p : Bytes) (evs : List Ev) (h : p.length = 188)
    (hc : consume f p = .ok (f', evs)) (herr : Ev.ccErr ∈ evs) :
    evs.head? = some .ccErr ∧ Ev.endPkt ∉ evs := by
  obtain ⟨rfl, rfl⟩ := consume_inv h hc
  have hcont := (stepPure_ccErr_mem ..).mp herr
  revert hcont
  show continuous f.cc (hpOf p) (ccOf p) = false →
    (stepPure f (usOf p) (hpOf p) (ccOf p) (payOf p) (hdrOf p)).2.head? = some .ccErr ∧
      Ev.endPkt ∉ (stepPure f (usOf p) (hpOf p) (ccOf p) (payOf p) (hdrOf p)).2
  unfold stepPure
  generalize continuous f.cc (hpOf p) (ccOf p) = b
  intro hb; subst hb
  rcases f with ⟨fc, st⟩
  cases st <;> cases usOf p <;> rcases payOf p with _ | r <;> cases hdrOf p <;> simp

/-! ### non-vacuity -/

/-! concrete packets: `mkPkt b1 b3 pay` = `47 b1 00 b3 pay… ff…` (188 bytes; `b1 = 0x40` unit start;
`b3`: 0x10 payload flag, 0x20 adaptation-field flag, low nibble = counter), `pesStart = 00 00 01 e0 00 00`
(see `Ts.Lemmas.C08`) -/

example : (mkPkt 0x00 0x1f []).length = 188 := by decide +kernel
example : readBits (mkPkt 0x00 0x1f []) 28 4 = 15 ∧ readBits (mkPkt 0x00 0x1f []) 27 1 = 1
    ∧ readBits (mkPkt 0x00 0x1f []) 9 1 = 0 := by decide +kernel

/-- counters 14, 15, 0 (wrap), 0 again on an adaptation-field-only packet (no increment expected),
then 1: no error anywhere -/
example :
    run {} [mkPkt 0x40 0x1e pesStart, mkPkt 0x00 0x1f [], mkPkt 0x00 0x10 [],
            mkPkt 0x00 0x20 [183], mkPkt 0x00 0x11 []]
      = .ok (⟨some 1, .started⟩,
          [[.start, .beginPkt 4 184], [.cont 4 184], [.cont 4 184], [], [.cont 4 184]]) := by
  decide +kernel

/-- a duplicate counter on a payload packet, a gap, and a changed counter on a payload-less packet
are errors; after the first error the continuation data of later packets is withheld until the
next unit start, which is delivered normally -/
example :
    run {} [mkPkt 0x40 0x13 pesStart, mkPkt 0x00 0x13 [], mkPkt 0x00 0x14 [],
            mkPkt 0x00 0x16 [], mkPkt 0x00 0x27 [183], mkPkt 0x40 0x18 pesStart, mkPkt 0x00 0x19 []]
      = .ok (⟨some 9, .started⟩,
          [[.start, .beginPkt 4 184], [.ccErr], [], [.ccErr], [.ccErr], [.beginPkt 4 184],
           [.cont 4 184]]) := by
  decide +kernel

/-- an error on a unit-start packet while a packet is open: `ccErr` closes it, no `endPkt` -/
example :
    run {} [mkPkt 0x40 0x13 pesStart, mkPkt 0x40 0x15 pesStart]
      = .ok (⟨some 5, .started⟩, [[.start, .beginPkt 4 184], [.ccErr, .beginPkt 4 184]]) := by
  decide +kernel

/-- an error before the stream has started is reported, and the stream still starts properly -/
example :
    run {} [mkPkt 0x00 0x13 [], mkPkt 0x00 0x15 [], mkPkt 0x40 0x16 pesStart]
      = .ok (⟨some 6, .started⟩, [[], [.ccErr], [.start, .beginPkt 4 184]]) := by
  decide +kernel

end Ts.Props.C09
