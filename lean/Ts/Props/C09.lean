import Ts.Lemmas.C08
import Ts.Lemmas.C09b
import Ts.Props.C02Trace
/-!
# C09 — continuity errors exactly at counter breaks; quarantine until the next PES packet

"For each elementary-stream PID a continuity error is reported for a packet if and only if its
continuity_counter is not the expected successor of the previous packet delivered on that PID
(unchanged when the packet carries no payload, plus one modulo 16 when it does); the first packet is
never an error.  After a continuity error no continuation data is delivered until a packet starts a
new PES packet."

`readBits p 28 4` is the `continuity_counter` field, `readBits p 27 1` the "payload present" bit of
`adaptation_field_control`, `readBits p 9 1` the `payload_unit_start_indicator` (ISO/IEC 13818-1
2.4.3.2; tied to the model's accessors by C12).  "packet" = any `p : Bytes` with `p.length = 188`.

READING of "carries no payload" (`expected_uses_afc_bit`).  The successor rule looks at the payload
BIT of `adaptation_field_control` (`Packet.hasPayload` = bit `0x10` of header byte 3), as ISO/IEC
13818-1 2.4.3.3 does, NOT at whether C12's `Packet.payload` returned a payload.  The two differ on
the illegal packet `adaptation_field_control = 11`, `adaptation_field_length = 183`: C12 returns no
payload (and no adaptation field), yet the counter is expected to ADVANCE (+1) — evaluated example
after `expected_uses_afc_bit`.

Layout.
* one packet / runs of ONE filter instance: `ccerr_iff`, `run_ccerr_iff` (from `{}`),
  `run_ccerr_iff_from` / `run_ccerr_total` (from ANY state, against the independent counter rule
  `breaks` / `BreakAt`);
* quarantine, one filter instance: `quarantine`, `quarantine_until_begin` (erroring packet not a unit
  start), `quarantine_unified` / `quarantine_unified_packets` (ANY state, ANY erroring packet);
* APPLICATION LEVEL (through the dispatcher, per consumer instance = per tag):
  `app_ccerr_iff` … `app_ccerr_iff_push_benign`, `app_ccerr_count_trace` (errors exactly at the
  breaks among the delivered packets of the PID), `quarantine_app` / `quarantine_app_trace` (every
  tag of every `runApp`, hostile input included), `first_after_replacement_never_error`
  ("first packet" is read PER CONSUMER INSTANCE: see there).
-/
namespace Ts.Props.C09
open Ts Ts.Packet Ts.PesFilter Ts.Spec Ts.Spec.Protocol Ts.Lemmas.C08

/-! ### the successor relation on counters -/

/-- `ContinuityCounter::follows` is "plus one modulo 16" -/
theorem follows_spec : ∀ n c, n < 16 → c < 16 → (Packet.follows n c = true ↔ n = (c + 1) % 16) :=
  fun n c _ _ => follows_iff n c

/-- including the wrap 15 → 0 -/
example : Packet.follows 0 15 = true ∧ Packet.follows 1 15 = false ∧ Packet.follows 15 15 = false := by
  decide

/-- the expected counter of a packet, given the previous packet's counter `c` -/
abbrev expected (p : Bytes) (c : Nat) : Nat := if readBits p 27 1 = 1 then (c + 1) % 16 else c

/-- **READING: which bit `expected` looks at.**  "Carries payload" in C09's successor rule is the
low bit of `adaptation_field_control` — bit 27 of the packet = bit `0x10` of header byte 3 = the
model's `Packet.hasPayload (byte 3)`, the very test `PesPacketFilter::is_continuous` makes
(`pes.rs:88-103`: `adaptation_control().has_payload()`) — and nothing else: not the adaptation-field
bit, not `adaptation_field_length`, not whether `Packet::payload()` (C12 `Packet.payload`) returns
`Some`.  For legal packets the two notions coincide (C12: a payload is returned whenever the bit is
set and the lengths are legal); they differ exactly on illegal control/length combinations — see the
evaluated example below. -/
theorem expected_uses_afc_bit (p : Bytes) (c : Nat) :
    expected p c = (if Packet.hasPayload (byteD p 3) = true then (c + 1) % 16 else c)
      ∧ (Packet.hasPayload (byteD p 3) = true ↔ readBits p 27 1 = 1)
      ∧ (Packet.hasPayload (byteD p 3) = true ↔ byteD p 3 &&& 0x10 ≠ 0) := by
  have h : Packet.hasPayload (byteD p 3) = (readBits p 27 1 == 1) := hpOf_eq p
  refine ⟨?_, ?_, ?_⟩
  · unfold expected
    rw [h]
    by_cases hb : readBits p 27 1 = 1 <;> simp [hb]
  · rw [h]; exact beq_iff_eq
  · simp [Packet.hasPayload]

/-- the illegal packet `adaptation_field_control = 11`, `adaptation_field_length = 183`
(`47 00 00 31 b7 ff …`: byte 3 = `0x30 | continuity_counter`, here counter 1): 188 bytes, payload
bit SET, and C12's accessors return neither a payload nor an adaptation field -/
example : (mkPkt 0x00 0x31 [183]).length = 188 ∧ readBits (mkPkt 0x00 0x31 [183]) 26 2 = 3
    ∧ byteD (mkPkt 0x00 0x31 [183]) 4 = 183
    ∧ Packet.hasPayload (byteD (mkPkt 0x00 0x31 [183]) 3) = true
    ∧ Packet.payload (mkPkt 0x00 0x31 [183]) = .ok none
    ∧ Packet.af (mkPkt 0x00 0x31 [183]) = .ok none
    ∧ expected (mkPkt 0x00 0x31 [183]) 0 = 1 := by decide +kernel

/-- … and C09 expects its counter to ADVANCE: after a packet with counter 0, this packet with
counter 1 is NOT an error (nothing is delivered for it: there is no payload), with counter 0
(unchanged, as for a packet "without payload" in C12's sense) it IS an error.  Contrast the legal
adaptation-field-only packet (`adaptation_field_control = 10`, length 183): unchanged counter, no
error. -/
example :
    run {} [mkPkt 0x40 0x10 pesStart, mkPkt 0x00 0x31 [183]]
      = .ok (⟨some 1, .started⟩, [[.start, .beginPkt 4 184], []])
    ∧ run {} [mkPkt 0x40 0x10 pesStart, mkPkt 0x00 0x30 [183]]
      = .ok (⟨some 0, .ignoreRest⟩, [[.start, .beginPkt 4 184], [.ccErr]])
    ∧ run {} [mkPkt 0x40 0x10 pesStart, mkPkt 0x00 0x20 [183]]
      = .ok (⟨some 0, .started⟩, [[.start, .beginPkt 4 184], []]) := by decide +kernel

/-! ### one packet -/

/-- a continuity error is reported iff there is a previous counter and this packet's counter is not
its expected successor -/
theorem ccerr_iff (f f' : F) (p : Bytes) (evs : List Ev) (h : p.length = 188)
    (hc : consume f p = .ok (f', evs)) :
    Ev.ccErr ∈ evs ↔
      ∃ c, f.cc = some c ∧ readBits p 28 4 ≠ (if readBits p 27 1 = 1 then (c + 1) % 16 else c) := by
  obtain ⟨rfl, rfl⟩ := consume_inv h hc
  rw [show (stepOf f p).2 = (stepPure f (usOf p) (hpOf p) (ccOf p) (payOf p) (hdrOf p)).2 from rfl,
    stepPure_ccErr_mem, continuous_false_iff, hpOf_eq]
  simp only [beq_iff_eq, ccOf]

/-- the filter remembers this packet's counter (error or not) -/
theorem cc_stored (f f' : F) (p : Bytes) (evs : List Ev) (h : p.length = 188)
    (hc : consume f p = .ok (f', evs)) : f'.cc = some (readBits p 28 4) := by
  obtain ⟨rfl, rfl⟩ := consume_inv h hc
  exact stepPure_cc ..

/-- invariant established by `consume`: stored counters are 4-bit values -/
theorem cc_invariant (f f' : F) (p : Bytes) (evs : List Ev) (h : p.length = 188)
    (hc : consume f p = .ok (f', evs)) : ∀ c, f'.cc = some c → c < 16 := by
  intro c hcc
  rw [cc_stored f f' p evs h hc] at hcc
  injection hcc with hcc
  rw [← hcc]; exact ccOf_lt p

/-- the initial filter satisfies the invariant trivially, and `run` preserves it -/
theorem cc_invariant_run (f f' : F) (ps : List Bytes) (evss : List (List Ev))
    (h : ∀ p ∈ ps, p.length = 188) (hinv : ∀ c, f.cc = some c → c < 16)
    (hr : run f ps = .ok (f', evss)) : ∀ c, f'.cc = some c → c < 16 := by
  obtain ⟨rfl, -⟩ := run_inv h hr
  clear hr
  induction ps generalizing f with
  | nil => exact hinv
  | cons p ps ih =>
    have hp : p.length = 188 := h p (by simp)
    exact ih (stepOf f p).1 (fun q hq => h q (List.mem_cons_of_mem _ hq))
      (cc_invariant f _ p _ hp (consume_eq' f p hp))

/-- under the invariant, the equivalence with the model's own `follows` test -/
theorem ccerr_iff_follows (f f' : F) (p : Bytes) (evs : List Ev) (h : p.length = 188)
    (hinv : ∀ c, f.cc = some c → c < 16) (hc : consume f p = .ok (f', evs)) :
    Ev.ccErr ∈ evs ↔
      ∃ c, c < 16 ∧ f.cc = some c ∧
        (if readBits p 27 1 = 1 then Packet.follows (readBits p 28 4) c = false
         else readBits p 28 4 ≠ c) := by
  rw [ccerr_iff f f' p evs h hc]
  constructor
  · rintro ⟨c, h1, h2⟩
    refine ⟨c, hinv c h1, h1, ?_⟩
    by_cases hb : readBits p 27 1 = 1
    · simp only [hb, if_true] at h2 ⊢
      cases hf : Packet.follows (readBits p 28 4) c
      · rfl
      · exact absurd ((follows_iff _ _).mp hf) h2
    · simpa only [hb, if_false] using h2
  · rintro ⟨c, _, h1, h2⟩
    refine ⟨c, h1, ?_⟩
    by_cases hb : readBits p 27 1 = 1
    · simp only [hb, if_true] at h2 ⊢
      intro he
      rw [(follows_iff _ _).mpr he] at h2; cases h2
    · simpa only [hb, if_false] using h2

/-- the error callback occurs only as the first callback of a packet … -/
theorem ccerr_only_first (f f' : F) (p : Bytes) (evs : List Ev) (h : p.length = 188)
    (hc : consume f p = .ok (f', evs)) : Ev.ccErr ∉ evs.tail := by
  obtain ⟨rfl, rfl⟩ := consume_inv h hc
  exact stepPure_ccErr_not_tail _ _ _ _ _ _

/-- … hence at most once per packet -/
theorem ccerr_at_most_once (f f' : F) (p : Bytes) (evs : List Ev) (h : p.length = 188)
    (hc : consume f p = .ok (f', evs)) : evs.count .ccErr ≤ 1 := by
  have := ccerr_only_first f f' p evs h hc
  cases evs with
  | nil => simp
  | cons e es =>
    simp only [List.tail_cons] at this
    rw [List.count_cons, List.count_eq_zero_of_not_mem this]
    split <;> omega

/-- positional form: wherever `ccErr` sits in the packet's callbacks, nothing precedes it -/
theorem ccerr_position (f f' : F) (p : Bytes) (evs : List Ev) (h : p.length = 188)
    (hc : consume f p = .ok (f', evs)) (pre post : List Ev) (hs : evs = pre ++ .ccErr :: post) :
    pre = [] ∧ Ev.ccErr ∉ post := by
  have := ccerr_only_first f f' p evs h hc
  subst hs
  cases pre with
  | nil => simpa using this
  | cons x xs => simp at this

/-- the first packet seen on a PID is never an error -/
theorem first_packet_never_error (f f' : F) (p : Bytes) (evs : List Ev) (h : p.length = 188)
    (hnone : f.cc = none) (hc : consume f p = .ok (f', evs)) : Ev.ccErr ∉ evs := by
  rw [ccerr_iff f f' p evs h hc, hnone]
  rintro ⟨c, hc', _⟩; cases hc'

theorem first_packet_never_error_init (f' : F) (p : Bytes) (evs : List Ev) (h : p.length = 188)
    (hc : consume {} p = .ok (f', evs)) : Ev.ccErr ∉ evs :=
  first_packet_never_error {} f' p evs h rfl hc

/-! ### runs: packet `k` against packet `k-1` -/

/-- from any filter state: packet `j+1` of a run reports an error iff its counter is not the
expected successor of packet `j`'s counter -/
theorem run_ccerr_succ (f f' : F) (ps : List Bytes) (evss : List (List Ev))
    (h : ∀ p ∈ ps, p.length = 188) (hr : run f ps = .ok (f', evss))
    (j : Nat) (q p : Bytes) (evs : List Ev)
    (hq : ps[j]? = some q) (hp : ps[j + 1]? = some p) (he : evss[j + 1]? = some evs) :
    Ev.ccErr ∈ evs ↔
      readBits p 28 4 ≠
        (if readBits p 27 1 = 1 then (readBits q 28 4 + 1) % 16 else readBits q 28 4) := by
  obtain ⟨_, rfl⟩ := run_inv h hr
  rw [runPure_getElem? f ps (j + 1) p hp] at he
  injection he with he
  subst he
  have hp188 : p.length = 188 := h p (List.mem_of_getElem? hp)
  have key := ccerr_iff (runPure f (ps.take (j + 1))).1 _ p _ hp188 (consume_eq' _ p hp188)
  rw [runPure_take_succ_cc f ps j q hq] at key
  simpa [ccOf] using key

/-- packet 0 of a run: an error iff the start state already holds a counter that does not fit -/
theorem run_ccerr_zero (f f' : F) (ps : List Bytes) (evss : List (List Ev))
    (h : ∀ p ∈ ps, p.length = 188) (hr : run f ps = .ok (f', evss))
    (p : Bytes) (evs : List Ev) (hp : ps[0]? = some p) (he : evss[0]? = some evs) :
    Ev.ccErr ∈ evs ↔
      ∃ c, f.cc = some c ∧ readBits p 28 4 ≠ (if readBits p 27 1 = 1 then (c + 1) % 16 else c) := by
  obtain ⟨_, rfl⟩ := run_inv h hr
  rw [runPure_getElem? f ps 0 p hp] at he
  injection he with he
  subst he
  have hp188 : p.length = 188 := h p (List.mem_of_getElem? hp)
  exact ccerr_iff _ _ p _ hp188 (consume_eq' _ p hp188)

/-- **C09, run form.** From the freshly constructed filter, packet `k` reports a continuity error iff
`k ≥ 1` and its counter differs from the expected successor of packet `k-1`'s counter. -/
theorem run_ccerr_iff (f' : F) (ps : List Bytes) (evss : List (List Ev))
    (h : ∀ p ∈ ps, p.length = 188) (hr : run {} ps = .ok (f', evss))
    (k : Nat) (p : Bytes) (evs : List Ev) (hp : ps[k]? = some p) (he : evss[k]? = some evs) :
    Ev.ccErr ∈ evs ↔
      ∃ j q, k = j + 1 ∧ ps[j]? = some q ∧
        readBits p 28 4 ≠
          (if readBits p 27 1 = 1 then (readBits q 28 4 + 1) % 16 else readBits q 28 4) := by
  cases k with
  | zero =>
    rw [run_ccerr_zero {} f' ps evss h hr p evs hp he]
    constructor
    · rintro ⟨c, hc, _⟩; cases hc
    · rintro ⟨j, _, hk, _⟩; omega
  | succ j =>
    have hj : j < ps.length := by
      rcases Nat.lt_or_ge (j + 1) ps.length with hlt | hge
      · omega
      · rw [List.getElem?_eq_none hge] at hp; cases hp
    have hq : ps[j]? = some ps[j] := List.getElem?_eq_getElem hj
    rw [run_ccerr_succ {} f' ps evss h hr j ps[j] p evs hq hp he]
    constructor
    · intro hne; exact ⟨j, ps[j], rfl, hq, hne⟩
    · rintro ⟨j', q, hk, hq', hne⟩
      have : j' = j := by omega
      subst this
      rw [hq] at hq'; injection hq' with hq'
      rw [hq']; exact hne

/-- every packet of a run has its list of callbacks (so `evss[k]?` above is never vacuous) -/
theorem run_length (f f' : F) (ps : List Bytes) (evss : List (List Ev))
    (h : ∀ p ∈ ps, p.length = 188) (hr : run f ps = .ok (f', evss)) : evss.length = ps.length := by
  obtain ⟨_, rfl⟩ := run_inv h hr
  exact runPure_length f ps

/-! ### runs from ANY state, against the counter rule written as a function of the packets -/

/-- the counter rule for ONE packet, given the counter of the previous packet delivered to the same
consumer instance (if any): `true` = the counter is NOT the expected successor (`expected`) -/
def isBreak (prev : Option Nat) (p : Bytes) : Bool :=
  match prev with
  | some c => decide (readBits p 28 4 ≠ expected p c)
  | none => false

/-- the counter rule over a packet list, starting from an optional previous counter: one Boolean
per packet.  Reads the packets only (bits 27 and 28-31); knows nothing about the filter. -/
def breaks : Option Nat → List Bytes → List Bool
  | _, [] => []
  | prev, p :: ps => isBreak prev p :: breaks (some (readBits p 28 4)) ps

/-- index form of the same rule: packet `k` exists, a previous counter exists (`prev` for `k = 0`,
else the counter of packet `k-1`), and packet `k`'s counter is not its expected successor -/
def BreakAt (prev : Option Nat) (ps : List Bytes) (k : Nat) : Prop :=
  ∃ p c, ps[k]? = some p ∧
    (match k with
     | 0 => prev
     | j + 1 => ps[j]?.map (fun q => readBits q 28 4)) = some c ∧
    readBits p 28 4 ≠ expected p c

theorem isBreak_iff (prev : Option Nat) (p : Bytes) :
    isBreak prev p = true ↔ ∃ c, prev = some c ∧ readBits p 28 4 ≠ expected p c := by
  cases prev with
  | none => simp [isBreak]
  | some c => simp [isBreak]

theorem breaks_length (prev : Option Nat) (ps : List Bytes) : (breaks prev ps).length = ps.length := by
  induction ps generalizing prev with
  | nil => rfl
  | cons p ps ih => simp [breaks, ih]

/-- the two forms of the rule agree -/
theorem breaks_getElem?_iff (prev : Option Nat) (ps : List Bytes) (k : Nat) :
    (breaks prev ps)[k]? = some true ↔ BreakAt prev ps k := by
  induction ps generalizing prev k with
  | nil => simp [breaks, BreakAt]
  | cons p ps ih =>
    cases k with
    | zero =>
      simp only [breaks, List.getElem?_cons_zero, Option.some.injEq, isBreak_iff, BreakAt]
      constructor
      · rintro ⟨c, h1, h2⟩; exact ⟨p, c, rfl, h1, h2⟩
      · rintro ⟨p', c, h0, h1, h2⟩
        subst h0; exact ⟨c, h1, h2⟩
    | succ j =>
      simp only [breaks, List.getElem?_cons_succ]
      rw [ih]
      unfold BreakAt
      cases j with
      | zero => simp
      | succ i => simp

/-- without a previous counter the first packet is never a break -/
theorem not_breakAt_none_zero (ps : List Bytes) : ¬ BreakAt none ps 0 := by
  rintro ⟨_, _, _, h, _⟩; cases h

/-- with the same vocabulary, `run_ccerr_iff`'s right-hand side is `BreakAt none` -/
theorem breakAt_none_iff (ps : List Bytes) (k : Nat) (p : Bytes) (hp : ps[k]? = some p) :
    BreakAt none ps k ↔ ∃ j q, k = j + 1 ∧ ps[j]? = some q ∧
      readBits p 28 4 ≠
        (if readBits p 27 1 = 1 then (readBits q 28 4 + 1) % 16 else readBits q 28 4) := by
  constructor
  · rintro ⟨p', c, h1, h2, h3⟩
    rw [hp] at h1; injection h1 with h1; subst h1
    cases k with
    | zero => cases h2
    | succ j =>
      simp only [Option.map_eq_some_iff] at h2
      obtain ⟨q, hq, rfl⟩ := h2
      exact ⟨j, q, rfl, hq, h3⟩
  · rintro ⟨j, q, rfl, hq, h3⟩
    exact ⟨p, readBits q 28 4, hp, by simp [hq], h3⟩

/-- one packet, as a count: `ccErr` occurs once if the rule says "break", else not at all -/
theorem consume_ccerr_count (f f' : F) (p : Bytes) (evs : List Ev) (h : p.length = 188)
    (hc : consume f p = .ok (f', evs)) :
    evs.count .ccErr = if isBreak f.cc p then 1 else 0 := by
  have h1 := ccerr_iff f f' p evs h hc
  have h2 := ccerr_at_most_once f f' p evs h hc
  by_cases hb : isBreak f.cc p = true
  · rw [if_pos hb]
    have : 0 < evs.count .ccErr := List.count_pos_iff.mpr (h1.mpr ((isBreak_iff _ _).mp hb))
    omega
  · rw [if_neg hb]
    exact List.count_eq_zero_of_not_mem (fun hm => hb ((isBreak_iff _ _).mpr (h1.mp hm)))

/-- a run from ANY filter state `f`, packet by packet: the number of `ccErr` callbacks of packet `k`
is 1 if the counter rule (started from `f.cc`) reports a break at `k`, else 0 -/
theorem run_ccerr_counts (f f' : F) (ps : List Bytes) (evss : List (List Ev))
    (h : ∀ p ∈ ps, p.length = 188) (hr : run f ps = .ok (f', evss)) :
    evss.map (List.count .ccErr) = (breaks f.cc ps).map (fun b => if b then 1 else 0) := by
  obtain ⟨-, rfl⟩ := run_inv h hr
  clear hr
  induction ps generalizing f with
  | nil => rfl
  | cons p ps ih =>
    have hp : p.length = 188 := h p (by simp)
    simp only [runPure, breaks, List.map_cons, List.cons.injEq]
    refine ⟨consume_ccerr_count f _ p _ hp (consume_eq' f p hp), ?_⟩
    have := ih (stepOf f p).1 (fun q hq => h q (List.mem_cons_of_mem _ hq))
    rw [cc_stored f _ p _ hp (consume_eq' f p hp)] at this
    exact this

theorem sum_ite_eq_count (bs : List Bool) :
    (bs.map (fun b => if b then 1 else 0)).sum = bs.count true := by
  induction bs with
  | nil => rfl
  | cons b bs ih => cases b <;> simp [ih] <;> omega

/-- **C09, run form, from ANY filter state** (generalises `run_ccerr_iff`, which is the case
`f = {}`, see `breakAt_none_iff`): packet `k` reports a continuity error iff the counter rule started
from `f.cc` has a break at `k`; and it reports it at most once -/
theorem run_ccerr_iff_from (f f' : F) (ps : List Bytes) (evss : List (List Ev))
    (h : ∀ p ∈ ps, p.length = 188) (hr : run f ps = .ok (f', evss))
    (k : Nat) (evs : List Ev) (he : evss[k]? = some evs) :
    (Ev.ccErr ∈ evs ↔ BreakAt f.cc ps k) ∧ evs.count .ccErr ≤ 1 := by
  have hc := run_ccerr_counts f f' ps evss h hr
  have hk : (evss.map (List.count .ccErr))[k]? = some (evs.count .ccErr) := by
    rw [List.getElem?_map, he]; rfl
  rw [hc, List.getElem?_map] at hk
  cases hb : (breaks f.cc ps)[k]? with
  | none => rw [hb] at hk; cases hk
  | some b =>
    rw [hb] at hk
    simp only [Option.map_some, Option.some.injEq] at hk
    rw [← breaks_getElem?_iff, hb, ← List.count_pos_iff, ← hk]
    cases b <;> simp

/-- … hence the total number of continuity errors of a run is the number of breaks -/
theorem run_ccerr_total (f f' : F) (ps : List Bytes) (evss : List (List Ev))
    (h : ∀ p ∈ ps, p.length = 188) (hr : run f ps = .ok (f', evss)) :
    evss.flatten.count .ccErr = (breaks f.cc ps).count true := by
  rw [List.count_flatten, run_ccerr_counts f f' ps evss h hr, sum_ite_eq_count]

/-! ### quarantine -/

/-- a continuity error on a packet that does not start a PES packet leaves no packet open, and the
packet's own data is not delivered -/
theorem quarantine_step (f f' : F) (p : Bytes) (evs : List Ev) (h : p.length = 188)
    (hc : consume f p = .ok (f', evs)) (herr : Ev.ccErr ∈ evs) (hnus : readBits p 9 1 ≠ 1) :
    f'.st ≠ .started ∧ ∀ o l, Ev.cont o l ∉ evs := by
  obtain ⟨rfl, rfl⟩ := consume_inv h hc
  have hu : usOf p = false := (usOf_false_iff p).mpr hnus
  have hcont := (stepPure_ccErr_mem ..).mp herr
  constructor
  · intro hst
    rcases (stepPure_started_iff ..).mp hst with ⟨hu', _⟩ | ⟨_, _, hc'⟩
    · rw [hu] at hu'; cases hu'
    · rw [hcont] at hc'; cases hc'
  · intro o l hm
    have := ((stepPure_cont_mem ..).mp hm).2.2.2.2
    rw [hcont] at this; cases this

/-- with no packet open, packets without the unit-start flag deliver no continuation data at all and
never open a packet -/
theorem quarantine_run (f f' : F) (ps : List Bytes) (evss : List (List Ev))
    (hst : f.st ≠ .started) (h : ∀ p ∈ ps, p.length = 188) (hnus : ∀ p ∈ ps, readBits p 9 1 ≠ 1)
    (hr : run f ps = .ok (f', evss)) :
    (∀ o l, Ev.cont o l ∉ evss.flatten) ∧ f'.st ≠ .started := by
  obtain ⟨rfl, rfl⟩ := run_inv h hr
  exact runPure_quarantine f ps hst (fun p hp => (usOf_false_iff p).mpr (hnus p hp))

/-- **C09, quarantine.** After a continuity error at a packet (not itself a unit start), no
continuation data is delivered by that packet nor by any following packets as long as none of them
has the unit-start flag -/
theorem quarantine (f f' : F) (p : Bytes) (ps : List Bytes) (e1 : List Ev) (evss : List (List Ev))
    (hp : p.length = 188) (hps : ∀ q ∈ ps, q.length = 188)
    (hr : run f (p :: ps) = .ok (f', e1 :: evss))
    (herr : Ev.ccErr ∈ e1) (hnus : readBits p 9 1 ≠ 1) (hnus' : ∀ q ∈ ps, readBits q 9 1 ≠ 1) :
    (∀ o l, Ev.cont o l ∉ (e1 :: evss).flatten) ∧ f'.st ≠ .started := by
  have hall : ∀ q ∈ p :: ps, q.length = 188 := by
    intro q hq; rcases List.mem_cons.mp hq with rfl | hq
    · exact hp
    · exact hps q hq
  obtain ⟨rfl, he⟩ := run_inv hall hr
  simp only [runPure, List.cons.injEq] at he
  obtain ⟨rfl, rfl⟩ := he
  have ⟨h1, h2⟩ := quarantine_step f _ p _ hp (consume_eq' f p hp) herr hnus
  have ⟨h3, h4⟩ := quarantine_run (stepOf f p).1 _ ps _ h1 hps hnus' (run_eq' _ ps hps)
  refine ⟨?_, h4⟩
  intro o l hm
  rw [List.flatten_cons] at hm
  rcases List.mem_append.mp hm with hm | hm
  · exact h2 o l hm
  · exact h3 o l hm

/-- … and, whatever follows, continuation data reappears only after a `begin_packet` (which only a
unit-start packet with a recognised PES header produces, `C08.begin_iff`) -/
theorem quarantine_until_begin (f f' : F) (p : Bytes) (ps : List Bytes) (e1 : List Ev)
    (evss : List (List Ev)) (hp : p.length = 188) (hps : ∀ q ∈ ps, q.length = 188)
    (hr : run f (p :: ps) = .ok (f', e1 :: evss))
    (herr : Ev.ccErr ∈ e1) (hnus : readBits p 9 1 ≠ 1)
    (mid rest : List Ev) (hsplit : evss.flatten = mid ++ rest) (hmid : ∀ o l, Ev.beginPkt o l ∉ mid) :
    (∀ o l, Ev.cont o l ∉ e1 ++ mid) ∧ Ev.endPkt ∉ mid := by
  have hall : ∀ q ∈ p :: ps, q.length = 188 := by
    intro q hq; rcases List.mem_cons.mp hq with rfl | hq
    · exact hp
    · exact hps q hq
  obtain ⟨_, he⟩ := run_inv hall hr
  simp only [runPure, List.cons.injEq] at he
  obtain ⟨rfl, rfl⟩ := he
  have ⟨hst, hnc⟩ := quarantine_step f _ p _ hp (consume_eq' f p hp) herr hnus
  have hacc := runPure_accepts (stepOf f p).1 ps
  rw [hsplit] at hacc
  obtain ⟨m, hm, _⟩ := accepts_append_some hacc
  have hno : Ts.Lemmas.C08.abs (stepOf f p).1.st ≠ .open_ := fun x => hst ((abs_open_iff _).mp x)
  have ⟨h1, h2, _⟩ := closed_without_begin hm hno hmid
  refine ⟨?_, h2⟩
  intro o l hx
  rcases List.mem_append.mp hx with hx | hx
  · exact hnc o l hx
  · exact h1 o l hx

/-- whenever an error is reported it is the packet's first callback and it alone closes the open
packet: no `end_packet` is delivered for a packet already closed by the error (also when the packet is
a unit start, which then begins a new PES packet in the ordinary way, `C08.begin_iff`) -/
theorem error_then_restart (f f' : F) (p : Bytes) (evs : List Ev) (h : p.length = 188)
    (hc : consume f p = .ok (f', evs)) (herr : Ev.ccErr ∈ evs) :
    evs.head? = some .ccErr ∧ Ev.endPkt ∉ evs := by
  obtain ⟨rfl, rfl⟩ := consume_inv h hc
  have hcont := (stepPure_ccErr_mem ..).mp herr
  revert hcont
  show continuous f.cc (hpOf p) (ccOf p) = false →
    (stepPure f (usOf p) (hpOf p) (ccOf p) (payOf p) (hdrOf p)).2.head? = some .ccErr ∧
      Ev.endPkt ∉ (stepPure f (usOf p) (hpOf p) (ccOf p) (payOf p) (hdrOf p)).2
  unfold stepPure
  generalize continuous f.cc (hpOf p) (ccOf p) = b
  intro hb; subst hb
  rcases f with ⟨fc, st⟩
  cases st <;> cases usOf p <;> rcases payOf p with _ | r <;> cases hdrOf p <;> simp

/-- **C09, quarantine, unified form.**  From ANY filter state, for ANY erroring packet (unit start or
not): in the callback sequence of a run, continuation data that comes after a `ccErr` is preceded by
a `beginPkt` lying AFTER that `ccErr`, with nothing but continuation data between that `beginPkt` and
it.  (`pre`, `mid`, `post` are arbitrary: this speaks about every `ccErr` and every later `cont`.) -/
theorem quarantine_unified (f f' : F) (ps : List Bytes) (evss : List (List Ev))
    (h : ∀ p ∈ ps, p.length = 188) (hr : run f ps = .ok (f', evss))
    (pre mid post : List Ev) (o l : Nat)
    (hs : evss.flatten = pre ++ .ccErr :: (mid ++ .cont o l :: post)) :
    ∃ m1 o' l' m2, mid = m1 ++ .beginPkt o' l' :: m2 ∧ ∀ x ∈ m2, isCont x := by
  obtain ⟨-, rfl⟩ := run_inv h hr
  have hacc := runPure_accepts f ps
  rw [hs] at hacc
  exact Ts.Lemmas.C09b.no_cont_after_ccErr hacc

/-- … packet by packet.  From ANY filter state: if packet `k` reports a continuity error and packet
`j ≥ k` delivers continuation data, then some packet `i` with `k ≤ i < j` has the unit-start flag and
delivered `beginPkt` (so it carries a recognised PES header, `C08.begin_iff`).  `i = k` is the case of
an erroring unit start; `j = k` is impossible (an erroring packet delivers no continuation data). -/
theorem quarantine_unified_packets (f f' : F) (ps : List Bytes) (evss : List (List Ev))
    (h : ∀ p ∈ ps, p.length = 188) (hr : run f ps = .ok (f', evss))
    (k j : Nat) (ek ej : List Ev) (o l : Nat) (hkj : k ≤ j)
    (hk : evss[k]? = some ek) (hj : evss[j]? = some ej)
    (herr : Ev.ccErr ∈ ek) (hcont : Ev.cont o l ∈ ej) :
    ∃ i q ei o' l', k ≤ i ∧ i < j ∧ ps[i]? = some q ∧ evss[i]? = some ei ∧
      readBits q 9 1 = 1 ∧ Ev.beginPkt o' l' ∈ ei := by
  obtain ⟨-, rfl⟩ := run_inv h hr
  have hlen := runPure_length f ps
  have getp : ∀ (n : Nat) (evs : List Ev), (runPure f ps).2[n]? = some evs →
      ∃ q, ps[n]? = some q := by
    intro n evs hn
    have : n < ps.length := by
      rcases Nat.lt_or_ge n ps.length with x | x
      · exact x
      · rw [List.getElem?_eq_none (by omega)] at hn; cases hn
    exact ⟨ps[n], List.getElem?_eq_getElem this⟩
  obtain ⟨pk, hpk⟩ := getp k ek hk
  obtain ⟨pj, hpj⟩ := getp j ej hj
  rw [runPure_getElem? f ps k pk hpk] at hk
  rw [runPure_getElem? f ps j pj hpj] at hj
  injection hk with hk
  injection hj with hj
  subst hk hj
  have hbrk := (stepPure_ccErr_mem ..).mp herr
  obtain ⟨-, -, -, hst, hok⟩ := (stepPure_cont_mem ..).mp hcont
  have hne : k ≠ j := by
    rintro rfl
    rw [hpk] at hpj; injection hpj with hpj; subst hpj
    rw [hbrk] at hok; cases hok
  by_cases hbeg : (stepOf (runPure f (ps.take k)).1 pk).1.st = .started
  · rcases (stepPure_started_iff ..).mp hbeg with ⟨hu, hp, hh⟩ | ⟨_, _, hc⟩
    · cases hpay : payOf pk with
      | none => rw [hpay] at hp; cases hp
      | some r =>
        exact ⟨k, pk, _, r.1, r.2, Nat.le_refl _, by omega, hpk, runPure_getElem? f ps k pk hpk,
          (usOf_true_iff pk).mp hu, (stepPure_begin_mem ..).mpr ⟨hu, hpay, hh⟩⟩
    · rw [hbrk] at hc; cases hc
  · rw [← Ts.Lemmas.C09b.runPure_take_succ f ps k pk hpk] at hbeg
    obtain ⟨i, q, o', l', x1, x2, x3, x4, x5⟩ :=
      Ts.Lemmas.C09b.started_needs_begin f ps (k + 1) j (by omega) hbeg hst
    exact ⟨i, q, _, o', l', by omega, x2, x3, runPure_getElem? f ps i q x3,
      (usOf_true_iff q).mp x4, x5⟩

/-! ### non-vacuity -/

/-! concrete packets: `mkPkt b1 b3 pay` = `47 b1 00 b3 pay… ff…` (188 bytes; `b1 = 0x40` unit start;
`b3`: 0x10 payload flag, 0x20 adaptation-field flag, low nibble = counter), `pesStart = 00 00 01 e0 00 00`
(see `Ts.Lemmas.C08`) -/

example : (mkPkt 0x00 0x1f []).length = 188 := by decide +kernel
example : readBits (mkPkt 0x00 0x1f []) 28 4 = 15 ∧ readBits (mkPkt 0x00 0x1f []) 27 1 = 1
    ∧ readBits (mkPkt 0x00 0x1f []) 9 1 = 0 := by decide +kernel

/-- counters 14, 15, 0 (wrap), 0 again on an adaptation-field-only packet (no increment expected),
then 1: no error anywhere -/
example :
    run {} [mkPkt 0x40 0x1e pesStart, mkPkt 0x00 0x1f [], mkPkt 0x00 0x10 [],
            mkPkt 0x00 0x20 [183], mkPkt 0x00 0x11 []]
      = .ok (⟨some 1, .started⟩,
          [[.start, .beginPkt 4 184], [.cont 4 184], [.cont 4 184], [], [.cont 4 184]]) := by
  decide +kernel

/-- a duplicate counter on a payload packet, a gap, and a changed counter on a payload-less packet
are errors; after the first error the continuation data of later packets is withheld until the
next unit start, which is delivered normally -/
example :
    run {} [mkPkt 0x40 0x13 pesStart, mkPkt 0x00 0x13 [], mkPkt 0x00 0x14 [],
            mkPkt 0x00 0x16 [], mkPkt 0x00 0x27 [183], mkPkt 0x40 0x18 pesStart, mkPkt 0x00 0x19 []]
      = .ok (⟨some 9, .started⟩,
          [[.start, .beginPkt 4 184], [.ccErr], [], [.ccErr], [.ccErr], [.beginPkt 4 184],
           [.cont 4 184]]) := by
  decide +kernel

/-- an error on a unit-start packet while a packet is open: `ccErr` closes it, no `endPkt` -/
example :
    run {} [mkPkt 0x40 0x13 pesStart, mkPkt 0x40 0x15 pesStart]
      = .ok (⟨some 5, .started⟩, [[.start, .beginPkt 4 184], [.ccErr, .beginPkt 4 184]]) := by
  decide +kernel

/-- an error before the stream has started is reported, and the stream still starts properly -/
example :
    run {} [mkPkt 0x00 0x13 [], mkPkt 0x00 0x15 [], mkPkt 0x40 0x16 pesStart]
      = .ok (⟨some 6, .started⟩, [[], [.ccErr], [.start, .beginPkt 4 184]]) := by
  decide +kernel

/-- the counter rule evaluated on the second run above: breaks at packets 1, 3, 4 only -/
example : breaks none [mkPkt 0x40 0x13 pesStart, mkPkt 0x00 0x13 [], mkPkt 0x00 0x14 [],
      mkPkt 0x00 0x16 [], mkPkt 0x00 0x27 [183], mkPkt 0x40 0x18 pesStart, mkPkt 0x00 0x19 []]
    = [false, true, false, true, true, false, false] := by decide +kernel

/-- `run_ccerr_iff_from` / `quarantine_unified` / `quarantine_unified_packets` from a state that is NOT
the initial one, with an erroring UNIT-START packet (the case `quarantine` excludes): stored counter
3, packet open; the unit start has counter 5 (break), its successor 6.  The error is packet 0's
first callback, the `beginPkt` that re-opens delivery is in packet 0 itself (`i = k = 0 < j = 1`). -/
example :
    run ⟨some 3, .started⟩ [mkPkt 0x40 0x15 pesStart, mkPkt 0x00 0x16 []]
      = .ok (⟨some 6, .started⟩, [[.ccErr, .beginPkt 4 184], [.cont 4 184]])
    ∧ breaks (some 3) [mkPkt 0x40 0x15 pesStart, mkPkt 0x00 0x16 []] = [true, false]
    ∧ [[Ev.ccErr, .beginPkt 4 184], [.cont 4 184]].flatten
        = [] ++ .ccErr :: ([.beginPkt 4 184] ++ .cont 4 184 :: []) := by
  decide +kernel

/-- … and the theorem applied to that run (`k = 0`, `j = 1`): it finds the unit start `i = 0` -/
example : ∃ i q ei o' l', 0 ≤ i ∧ i < 1 ∧
    [mkPkt 0x40 0x15 pesStart, mkPkt 0x00 0x16 []][i]? = some q ∧
    [[Ev.ccErr, .beginPkt 4 184], [.cont 4 184]][i]? = some ei ∧
    readBits q 9 1 = 1 ∧ Ev.beginPkt o' l' ∈ ei :=
  quarantine_unified_packets ⟨some 3, .started⟩ ⟨some 6, .started⟩ _ _
    (by decide +kernel) (by decide +kernel) 0 1 _ _ 4 184 (by omega) rfl rfl (by simp) (by simp)

/-! ## application level: through the dispatcher, per consumer instance -/
section app
open Ts.Demux Ts.Lemmas.Proj
open Ts.Lemmas.C02 (Benign)
open Ts.Lemmas.C10 (RepPacket QuiescentH)

/-- `ReportsBreaks touch τ f qs new`: `new` is what consumer `τ` (in filter state `f`) records for its
own packets `qs`, and it contains `.esCcErr τ` exactly at the counter breaks of `qs`:
* `new = outs.flatten` where `outs` has one block per packet of `qs`, block `k` being the events of
  the callbacks `PesFilter.run f` makes for packet `k` (`esAll`: with packet `k`'s bytes and offset);
* block `k` contains `.esCcErr τ` iff the counter rule (`BreakAt`: from `f.cc` for `k = 0`, else from
  packet `k-1`; successor = `expected`) has a break at `k`, and contains it at most once;
* in total `new` contains `.esCcErr τ` as often as `breaks` has `true`s. -/
def ReportsBreaks (touch : Bool) (τ : Nat) (f : F) (qs : List Pk) (new : List App.Ev) : Prop :=
  ∃ f' evss outs,
    run f (qs.map (·.bytes)) = .ok (f', evss) ∧
    esAll touch τ qs evss = .ok outs ∧
    new = outs.flatten ∧ outs.length = qs.length ∧
    (∀ k out, outs[k]? = some out →
      (App.Ev.esCcErr τ ∈ out ↔ BreakAt f.cc (qs.map (·.bytes)) k) ∧
      out.count (App.Ev.esCcErr τ) ≤ 1) ∧
    new.count (App.Ev.esCcErr τ) = (breaks f.cc (qs.map (·.bytes))).count true

/-- the filter-level result transported along `esAll` -/
theorem reportsBreaks_of_view (touch : Bool) (τ : Nat) (f f' : F) (qs : List Pk)
    (evss : List (List Ev)) (outs : List (List App.Ev))
    (h188 : ∀ b ∈ qs.map (·.bytes), b.length = 188)
    (hr : run f (qs.map (·.bytes)) = .ok (f', evss))
    (ha : esAll touch τ qs evss = .ok outs) : ReportsBreaks touch τ f qs outs.flatten := by
  have hlen : evss.length = qs.length := by
    rw [run_length f f' _ evss h188 hr, List.length_map]
  have hcnt := Ts.Lemmas.C09b.esAll_counts touch τ qs evss outs hlen.symm ha
  have hol : outs.length = qs.length := by
    have := congrArg List.length hcnt
    simp only [List.length_map] at this
    omega
  refine ⟨f', evss, outs, hr, ha, rfl, hol, ?_, ?_⟩
  · intro k out hk
    have h1 : (outs.map (List.count (App.Ev.esCcErr τ)))[k]? = some (out.count (App.Ev.esCcErr τ)) := by
      rw [List.getElem?_map, hk]; rfl
    rw [hcnt, List.getElem?_map] at h1
    cases he : evss[k]? with
    | none => rw [he] at h1; cases h1
    | some evs =>
      rw [he] at h1
      simp only [Option.map_some, Option.some.injEq] at h1
      obtain ⟨x1, x2⟩ := run_ccerr_iff_from f f' _ evss h188 hr k evs he
      rw [← x1, ← List.count_pos_iff, ← List.count_pos_iff, h1]
      exact ⟨Iff.rfl, by omega⟩
  · rw [List.count_flatten, hcnt, ← List.count_flatten, run_ccerr_total f f' _ evss h188 hr]

/-- **C09 at the application level.**  `pks` is ANY interleaving of packets (any PIDs, flagged or
not).  Hypotheses: `TagInv (t, c)`; slot `p` holds the PES handler tagged `τ` in filter state `f`;
the unflagged PID-`p` packets are 188 bytes; along the actual run consumer `τ` is not replaced or
removed (`hK : Keeps`; discharged from hypotheses on the input in `app_ccerr_iff_benign` /
`app_ccerr_iff_es_and_repeated_tables`); the run succeeds.  Then what the run appends to consumer
`τ`'s view of the trace is `new` with `ReportsBreaks … f (own p pks) new`: it contains `.esCcErr τ`
exactly at the breaks of the counter rule over `own p pks` — the delivered (unflagged) packets of
PID `p`, in order, whatever is interleaved with them — started from `f.cc`. -/
theorem app_ccerr_iff (p τ : Nat) (pks : List Pk) (t : Tab App.Handler) (c : App.Ctx)
    (f : F) (t' : Tab App.Handler) (c' : App.Ctx)
    (hi : TagInv (t, c)) (hg : t.get p = some (.pes τ f))
    (h188 : ∀ pk ∈ pks, pk.pid = p → pk.flagged = false → pk.bytes.length = 188)
    (hK : Keeps p τ (t, c) pks = true)
    (hrun : pushSpec App.sem (t, c) pks = .ok (t', c')) :
    ∃ new, proj τ c' = proj τ c ++ new ∧ ReportsBreaks c.cfg.touch τ f (own p pks) new := by
  obtain ⟨f', evss, outs, a1, a2, a3, _, _⟩ :=
    C02Trace.pes_trace_is_filter_run_kept p τ pks t c f t' c' hi hg h188 hK hrun
  refine ⟨outs.flatten, a3, reportsBreaks_of_view _ τ f f' _ evss outs ?_ a1 a2⟩
  intro b hb
  simp only [List.mem_map, own, List.mem_filter] at hb
  obtain ⟨pk, ⟨hm, hp⟩, rfl⟩ := hb
  simp only [Bool.and_eq_true, beq_iff_eq, Bool.not_eq_true'] at hp
  exact h188 pk hm hp.1 hp.2

/-- … in terms of the SHARED application trace: the number of `continuity_error` callbacks recorded
for consumer `τ` grows by exactly the number of counter breaks among its delivered packets.
Hypotheses as in `app_ccerr_iff`. -/
theorem app_ccerr_count_trace (p τ : Nat) (pks : List Pk) (t : Tab App.Handler) (c : App.Ctx)
    (f : F) (t' : Tab App.Handler) (c' : App.Ctx)
    (hi : TagInv (t, c)) (hg : t.get p = some (.pes τ f))
    (h188 : ∀ pk ∈ pks, pk.pid = p → pk.flagged = false → pk.bytes.length = 188)
    (hK : Keeps p τ (t, c) pks = true)
    (hrun : pushSpec App.sem (t, c) pks = .ok (t', c')) :
    c'.trace.count (App.Ev.esCcErr τ) =
      c.trace.count (App.Ev.esCcErr τ) + (breaks f.cc ((own p pks).map (·.bytes))).count true := by
  obtain ⟨new, h1, _, _, _, _, _, _, _, _, h2⟩ := app_ccerr_iff p τ pks t c f t' c' hi hg h188 hK hrun
  rw [← Ts.Lemmas.C09b.count_ccErr_proj, ← Ts.Lemmas.C09b.count_ccErr_proj, h1, List.count_append, h2]

/-- … for `Demultiplex::push` on RAW BYTES: `pks` are the packets framed out of `buf` (188 bytes by
construction) -/
theorem app_ccerr_iff_push (p τ : Nat) (buf : Bytes) (base : Nat) (pks : List Pk)
    (t : Tab App.Handler) (c : App.Ctx) (f : F) (t' : Tab App.Handler) (c' : App.Ctx)
    (hi : TagInv (t, c)) (hg : t.get p = some (.pes τ f))
    (hf : frame buf base = .ok pks)
    (hK : Keeps p τ (t, c) pks = true)
    (hrun : push App.sem (t, c) buf base = .ok (t', c')) :
    ∃ new, proj τ c' = proj τ c ++ new ∧ ReportsBreaks c.cfg.touch τ f (own p pks) new := by
  unfold push at hrun
  rw [hf] at hrun
  have hrun : pushModel App.sem (t, c) pks = .ok (t', c') := hrun
  rw [C06.push_refines_spec] at hrun
  exact app_ccerr_iff p τ pks t c f t' c' hi hg
    (fun pk hm _ _ => (Ts.Lemmas.C19.frame_pk_props buf base pks hf pk hm).2.2.2.2.1) hK hrun

/-- … with hypotheses on the INPUT only, general form: every packet on another PID is `Benign` for
the table and script at the START of the run (`C02.benign_iff`: other elementary streams; flagged
or repetition packets on quiescent PAT / PMT handlers; recorder / unregistered-PID traffic without
scripted action) -/
theorem app_ccerr_iff_benign (ver : Nat → Nat) (p τ : Nat) (pks : List Pk) (t : Tab App.Handler)
    (c : App.Ctx) (f : F) (t' : Tab App.Handler) (c' : App.Ctx)
    (hi : TagInv (t, c)) (hg : t.get p = some (.pes τ f))
    (h188 : ∀ pk ∈ pks, pk.pid = p → pk.flagged = false → pk.bytes.length = 188)
    (hB : ∀ pk ∈ pks, pk.pid ≠ p → Benign ver c.cfg.script t pk)
    (hrun : pushSpec App.sem (t, c) pks = .ok (t', c')) :
    ∃ new, proj τ c' = proj τ c ++ new ∧ ReportsBreaks c.cfg.touch τ f (own p pks) new :=
  app_ccerr_iff p τ pks t c f t' c' hi hg h188
    (C02Trace.keeps_of_benign_traffic ver p τ pks t c f hg hB) hrun

/-- … with hypotheses on the INPUT only, written out ("any interleaving with other elementary streams
and repeated tables"): every packet on another PID `q` finds a PES handler in slot `q` of the table
at the start of the run, or is an unflagged repetition packet (C10 `RepPacket (ver q)`) for a PAT /
PMT handler in slot `q` that is quiescent at that version (C10 `QuiescentH`) -/
theorem app_ccerr_iff_es_and_repeated_tables (ver : Nat → Nat) (p τ : Nat) (pks : List Pk)
    (t : Tab App.Handler) (c : App.Ctx) (f : F) (t' : Tab App.Handler) (c' : App.Ctx)
    (hi : TagInv (t, c)) (hg : t.get p = some (.pes τ f))
    (h188 : ∀ pk ∈ pks, pk.pid = p → pk.flagged = false → pk.bytes.length = 188)
    (hO : ∀ pk ∈ pks, pk.pid ≠ p →
      (∃ σ g, t.get pk.pid = some (.pes σ g))
      ∨ (pk.flagged = false ∧ RepPacket (ver pk.pid) pk.bytes
          ∧ ∃ h, t.get pk.pid = some h ∧ QuiescentH (ver pk.pid) h))
    (hrun : pushSpec App.sem (t, c) pks = .ok (t', c')) :
    ∃ new, proj τ c' = proj τ c ++ new ∧ ReportsBreaks c.cfg.touch τ f (own p pks) new :=
  app_ccerr_iff p τ pks t c f t' c' hi hg h188
    (C02Trace.keeps_of_es_and_repeated_tables ver p τ pks t c f hg hO) hrun

/-- … `Demultiplex::push` on raw bytes with hypotheses on the input only -/
theorem app_ccerr_iff_push_benign (ver : Nat → Nat) (p τ : Nat) (buf : Bytes) (base : Nat)
    (pks : List Pk) (t : Tab App.Handler) (c : App.Ctx) (f : F) (t' : Tab App.Handler) (c' : App.Ctx)
    (hi : TagInv (t, c)) (hg : t.get p = some (.pes τ f))
    (hf : frame buf base = .ok pks)
    (hB : ∀ pk ∈ pks, pk.pid ≠ p → Benign ver c.cfg.script t pk)
    (hrun : push App.sem (t, c) buf base = .ok (t', c')) :
    ∃ new, proj τ c' = proj τ c ++ new ∧ ReportsBreaks c.cfg.touch τ f (own p pks) new :=
  app_ccerr_iff_push p τ buf base pks t c f t' c' hi hg hf
    (C02Trace.keeps_of_benign_traffic ver p τ pks t c f hg hB) hrun

/-! ### quarantine for every consumer instance of every run -/

/-- **C09, quarantine, application level.**  For EVERY configuration, EVERY sequence of pushed byte
strings (hostile input included) on which the application does not panic, and EVERY tag `τ`: in the
elementary-stream callbacks attributed to `τ` (`esTrace`: all of them, oldest first, arguments
erased), continuation data after a `ccErr` is preceded by a `beginPkt` lying after that `ccErr`,
with nothing but continuation data in between.  No hypothesis on the input, on which packet erred
(unit start or not), or on the filter state. -/
theorem quarantine_app (cfg : App.Cfg) (pushes : List Bytes) (t : Tab App.Handler) (c : App.Ctx)
    (h : App.runApp cfg pushes = .ok (t, c)) (τ : Nat) (pre mid post : List Ev) (o l : Nat)
    (hs : esTrace τ c = pre ++ .ccErr :: (mid ++ .cont o l :: post)) :
    ∃ m1 o' l' m2, mid = m1 ++ .beginPkt o' l' :: m2 ∧ ∀ x ∈ m2, isCont x := by
  obtain ⟨s, hacc, _⟩ := C02Trace.es_consumer_well_nested cfg pushes t c h τ
  rw [hs] at hacc
  exact Ts.Lemmas.C09b.no_cont_after_ccErr hacc

/-- … on the SHARED application trace itself (oldest first = `c.trace.reverse`), whatever other
consumers' events are interleaved: between a `continuity_error` of consumer `τ` and a later
`continue_packet` of consumer `τ` there is a `begin_packet` of consumer `τ` -/
theorem quarantine_app_trace (cfg : App.Cfg) (pushes : List Bytes) (t : Tab App.Handler)
    (c : App.Ctx) (h : App.runApp cfg pushes = .ok (t, c)) (τ : Nat)
    (pre mid post : List App.Ev) (off len : Nat)
    (hs : c.trace.reverse = pre ++ App.Ev.esCcErr τ :: (mid ++ App.Ev.esCont τ off len :: post)) :
    ∃ bi, App.Ev.esBegin τ bi ∈ mid := by
  have he : esTrace τ c =
      (pre.filter (fun e => decide (tagOf e = some τ))).filterMap esShape
        ++ .ccErr :: ((mid.filter (fun e => decide (tagOf e = some τ))).filterMap esShape
          ++ .cont 0 0 :: (post.filter (fun e => decide (tagOf e = some τ))).filterMap esShape) := by
    unfold esTrace proj
    rw [hs]
    simp [List.filter_append, List.filterMap_append, tagOf, esShape]
  obtain ⟨m1, o', l', m2, hm, _⟩ := quarantine_app cfg pushes t c h τ _ _ _ 0 0 he
  have hmem : Ev.beginPkt o' l' ∈
      (mid.filter (fun e => decide (tagOf e = some τ))).filterMap esShape := by
    rw [hm]; simp
  rw [List.mem_filterMap] at hmem
  obtain ⟨e, hm, hsh⟩ := hmem
  rw [List.mem_filter] at hm
  have htag : tagOf e = some τ := by simpa using hm.2
  cases e <;> simp [esShape] at hsh
  simp only [tagOf, Option.some.injEq] at htag
  subst htag
  exact ⟨_, hm.1⟩

/-! ### "the first packet is never an error" is per consumer INSTANCE -/

/-- a consumer instance that has not yet consumed a packet (`f.cc = none`; every consumed packet
stores its counter, `cc_stored`) never reports an error for the first packet delivered to it,
whatever that packet's counter.  Hypotheses as in `app_ccerr_iff`. -/
theorem fresh_instance_first_never_error (p τ : Nat) (pks : List Pk) (t : Tab App.Handler)
    (c : App.Ctx) (f : F) (t' : Tab App.Handler) (c' : App.Ctx)
    (hi : TagInv (t, c)) (hg : t.get p = some (.pes τ f)) (hfresh : f.cc = none)
    (h188 : ∀ pk ∈ pks, pk.pid = p → pk.flagged = false → pk.bytes.length = 188)
    (hK : Keeps p τ (t, c) pks = true)
    (hrun : pushSpec App.sem (t, c) pks = .ok (t', c')) :
    ∃ f' evss outs,
      run f ((own p pks).map (·.bytes)) = .ok (f', evss) ∧
      esAll c.cfg.touch τ (own p pks) evss = .ok outs ∧
      proj τ c' = proj τ c ++ outs.flatten ∧ outs.length = (own p pks).length ∧
      ∀ out, outs[0]? = some out → App.Ev.esCcErr τ ∉ out := by
  obtain ⟨new, h1, f', evss, outs, a1, a2, a3, a4, a5, _⟩ :=
    app_ccerr_iff p τ pks t c f t' c' hi hg h188 hK hrun
  subst a3
  refine ⟨f', evss, outs, a1, a2, h1, a4, ?_⟩
  intro out h0 hm
  have := ((a5 0 out h0).1).mp hm
  rw [hfresh] at this
  exact not_breakAt_none_zero _ this

/-- ONE dispatcher step on ANY packet: a PES handler that sits in the table after the step under a
tag that did not exist before the step (`c.nextTag ≤ τ'`: a NEW consumer instance — installed by a
PMT (re-)application or any other queued change) is in the initial filter state `{}`.  It inherits
neither the counter nor the open/closed state of the handler it replaces. -/
theorem replacement_installs_fresh_filter (t : Tab App.Handler) (c : App.Ctx) (pk : Pk)
    (t' : Tab App.Handler) (c' : App.Ctx) (hi : TagInv (t, c))
    (h : specStep App.sem (t, c) pk = .ok (t', c'))
    (q τ' : Nat) (f' : F) (hg : t'.get q = some (.pes τ' f')) (hnew : c.nextTag ≤ τ') : f' = {} :=
  Ts.Lemmas.C09b.specStep_new_pes_fresh t c pk t' c' hi h q τ' f' hg hnew

/-- **"First packet" is per consumer INSTANCE.**  Let a dispatcher step on ANY packet `pk0` (e.g. a
PMT section with a new version re-listing PID `p`) leave in slot `p` a PES handler whose tag `τ'` did
not exist before the step — whatever slot `p` held before, in particular a PES handler `τ` with a
stored counter.  Then the new handler is in state `{}`, and over ANY continuation `pks` during which
it is kept, the first unflagged PID-`p` packet yields NO `.esCcErr τ'`, whatever its counter — also
when that counter does not follow the last packet delivered to the replaced handler `τ` (and `τ`
itself stays silent for ever: `C02Trace.tag_never_reissued`).

READING.  C09 says "the first packet seen on a PID is never an error".  The implementation (and this
model) keeps the counter in the consumer instance, and a table re-application REPLACES the instance
(finding F7), so what is proved is: "the first packet seen BY A CONSUMER INSTANCE is never an
error".  The two readings differ exactly here: a counter discontinuity across a replacement is NOT
reported to anyone.  This is the documented reading, not a defect of the proof; see the evaluated
witness below (`ES cc=0, PMT v1, ES cc=7`: no `esCcErr` in the whole trace; without the PMT: one). -/
theorem first_after_replacement_never_error (p τ' : Nat) (pk0 : Pk) (pks : List Pk)
    (t0 : Tab App.Handler) (c0 : App.Ctx) (t : Tab App.Handler) (c : App.Ctx) (f : F)
    (t' : Tab App.Handler) (c' : App.Ctx)
    (hi : TagInv (t0, c0))
    (hstep : specStep App.sem (t0, c0) pk0 = .ok (t, c))
    (hnew : c0.nextTag ≤ τ') (hg : t.get p = some (.pes τ' f))
    (h188 : ∀ pk ∈ pks, pk.pid = p → pk.flagged = false → pk.bytes.length = 188)
    (hK : Keeps p τ' (t, c) pks = true)
    (hrun : pushSpec App.sem (t, c) pks = .ok (t', c')) :
    f = {} ∧
    ∃ f' evss outs,
      run {} ((own p pks).map (·.bytes)) = .ok (f', evss) ∧
      esAll c.cfg.touch τ' (own p pks) evss = .ok outs ∧
      proj τ' c' = proj τ' c ++ outs.flatten ∧ outs.length = (own p pks).length ∧
      ∀ out, outs[0]? = some out → App.Ev.esCcErr τ' ∉ out := by
  have hf : f = {} := replacement_installs_fresh_filter t0 c0 pk0 t c hi hstep p τ' f hg hnew
  subst hf
  exact ⟨rfl, fresh_instance_first_never_error p τ' pks t c {} t' c'
    (C02Trace.tagInv_step t0 c0 pk0 t c hi hstep).1 hg rfl h188 hK hrun⟩

end app

/-! ### non-vacuity, application level (kernel-evaluated) -/
section appExamples
open Ts.Demux Ts.Lemmas.Proj
open Ts.Spec.PesMux (mkTp)
open Ts.Lemmas.C02 (Benign exPat_rep exPmt2_rep)
open Ts.Lemmas.C10 (RepPacket QuiescentH)

/-- PID 0x21, no unit start, counter 5: NOT the successor of `exA0`'s counter 0 -/
def brkA1 : Bytes := mkTp false 0x21 5 none (List.replicate 184 0x12)
/-- PID 0x21, unit start with a PES header, counter 6 = successor of 5 -/
def brkA2 : Bytes := mkTp true 0x21 6 none (pesHead ++ List.replicate 175 0x13)

/-- the interleaving `A0 PAT B0 A1' PMT B1 A2'` (376 bytes pushed before): two elementary-stream PIDs
0x21 (`A`, counters 0, 5, 6: ONE break) and 0x22 (`B`, counters 7, 8: none), a repeated PAT and a
repeated PMT in between -/
def brkPks : List Pk :=
  [⟨exA0, 376, 0x21, false, false⟩, ⟨exPat, 564, 0, false, false⟩, ⟨exB0, 752, 0x22, false, false⟩,
   ⟨brkA1, 940, 0x21, false, false⟩, ⟨exPmt2, 1128, 0x20, false, false⟩,
   ⟨exB1, 1316, 0x22, false, false⟩, ⟨brkA2, 1504, 0x21, false, false⟩]

/-- the same as raw bytes -/
def brkBuf : Bytes := exA0 ++ exPat ++ exB0 ++ brkA1 ++ exPmt2 ++ exB1 ++ brkA2

/-- the input-level hypothesis `hO` of `app_ccerr_iff_es_and_repeated_tables` holds for `brkPks`, for
both elementary-stream PIDs: only table lookups are evaluated -/
theorem brkPks_input : ∀ pk ∈ brkPks,
    (∃ σ g, exTab0.get pk.pid = some (.pes σ g))
    ∨ (pk.flagged = false ∧ RepPacket 0 pk.bytes
        ∧ ∃ h, exTab0.get pk.pid = some h ∧ QuiescentH 0 h) := by
  have g21 : exTab0.get 0x21 = some (.pes 2 {}) := by decide +kernel
  have g22 : exTab0.get 0x22 = some (.pes 3 {}) := by decide +kernel
  have g0 : exTab0.get 0 = some (.pat { lastVersion := some 0 } [0x20]) := by decide +kernel
  have g20 : exTab0.get 0x20 = some (.pmt 0x20 1 { lastVersion := some 0 } [0x21, 0x22]) := by
    decide +kernel
  intro pk hm
  simp only [brkPks, List.mem_cons, List.not_mem_nil, or_false] at hm
  rcases hm with rfl | rfl | rfl | rfl | rfl | rfl | rfl
  · exact Or.inl ⟨_, _, g21⟩
  · exact Or.inr ⟨rfl, exPat_rep, _, g0, ⟨rfl, rfl⟩⟩
  · exact Or.inl ⟨_, _, g22⟩
  · exact Or.inl ⟨_, _, g21⟩
  · exact Or.inr ⟨rfl, exPmt2_rep, _, g20, ⟨rfl, rfl⟩⟩
  · exact Or.inl ⟨_, _, g22⟩
  · exact Or.inl ⟨_, _, g21⟩

/-- the counter rule on the two streams of `brkPks` (a function of the packets only) -/
theorem brkPks_breaks :
    breaks none ((own 0x21 brkPks).map (·.bytes)) = [false, true, false]
    ∧ breaks none ((own 0x22 brkPks).map (·.bytes)) = [false, false] := by decide +kernel

/-- NON-VACUITY of `app_ccerr_iff_es_and_repeated_tables` (hence of `app_ccerr_iff`): from the state
after PAT and PMT (`exTab0`, `exCtx0`: PES filters tagged 2 / 3 on PIDs 0x21 / 0x22, both in state
`{}`), over the interleaving `brkPks`.  The hypotheses are discharged from the INPUT
(`brkPks_input`); only the success of the run and the packet lengths are evaluated.  The theorem
then yields: consumer 2 records exactly ONE `esCcErr 2`, in the block of its own packet 1 (the rule
says `[false, true, false]`), consumer 3 none. -/
example : ∃ t' c' new2 new3,
    pushSpec App.sem (exTab0, exCtx0) brkPks = .ok (t', c') ∧
    proj 2 c' = proj 2 exCtx0 ++ new2 ∧ ReportsBreaks false 2 {} (own 0x21 brkPks) new2 ∧
    proj 3 c' = proj 3 exCtx0 ++ new3 ∧ ReportsBreaks false 3 {} (own 0x22 brkPks) new3 ∧
    new2.count (.esCcErr 2) = 1 ∧ new3.count (.esCcErr 3) = 0 := by
  have hok : ((pushSpec App.sem (exTab0, exCtx0) brkPks).isOk
      && brkPks.all (fun pk => pk.bytes.length == 188)) = true := by decide +kernel
  simp only [Bool.and_eq_true, List.all_eq_true, beq_iff_eq] at hok
  obtain ⟨hok, hlen⟩ := hok
  cases hrun : pushSpec App.sem (exTab0, exCtx0) brkPks with
  | panic s => rw [hrun] at hok; cases hok
  | ok r =>
    obtain ⟨t', c'⟩ := r
    obtain ⟨new2, a1, a2⟩ := app_ccerr_iff_es_and_repeated_tables (fun _ => 0) 0x21 2 brkPks exTab0
      exCtx0 {} t' c' C02Trace.exState_inv.1 (by decide +kernel) (fun pk hm _ _ => hlen pk hm)
      (fun pk hm _ => brkPks_input pk hm) hrun
    obtain ⟨new3, b1, b2⟩ := app_ccerr_iff_es_and_repeated_tables (fun _ => 0) 0x22 3 brkPks exTab0
      exCtx0 {} t' c' C02Trace.exState_inv.1 (by decide +kernel) (fun pk hm _ _ => hlen pk hm)
      (fun pk hm _ => brkPks_input pk hm) hrun
    refine ⟨t', c', new2, new3, rfl, a1, a2, b1, b2, ?_, ?_⟩
    · obtain ⟨_, _, _, _, _, _, _, _, h⟩ := a2
      rw [h, show ({} : F).cc = none from rfl, brkPks_breaks.1]; decide
    · obtain ⟨_, _, _, _, _, _, _, _, h⟩ := b2
      rw [h, show ({} : F).cc = none from rfl, brkPks_breaks.2]; decide

/-- NON-VACUITY of `app_ccerr_count_trace`: the theorem APPLIED to the same run (hypothesis `hK : Keeps`
discharged from the input by `C02Trace.keeps_of_es_and_repeated_tables`): on the shared trace the
count of `esCcErr 2` grows by exactly the number of breaks of the counter rule over consumer 2's own
packets — `[false, true, false]`, i.e. ONE — and that of `esCcErr 3` by none -/
example : ∃ t' c', pushSpec App.sem (exTab0, exCtx0) brkPks = .ok (t', c')
    ∧ c'.trace.count (.esCcErr 2) = exCtx0.trace.count (.esCcErr 2) + 1
    ∧ c'.trace.count (.esCcErr 3) = exCtx0.trace.count (.esCcErr 3) + 0 := by
  have hok : ((pushSpec App.sem (exTab0, exCtx0) brkPks).isOk
      && brkPks.all (fun pk => pk.bytes.length == 188)) = true := by decide +kernel
  simp only [Bool.and_eq_true, List.all_eq_true, beq_iff_eq] at hok
  obtain ⟨hok, hlen⟩ := hok
  cases hrun : pushSpec App.sem (exTab0, exCtx0) brkPks with
  | panic s => rw [hrun] at hok; cases hok
  | ok r =>
    obtain ⟨t', c'⟩ := r
    have g21 : exTab0.get 0x21 = some (.pes 2 {}) := by decide +kernel
    have g22 : exTab0.get 0x22 = some (.pes 3 {}) := by decide +kernel
    have a := app_ccerr_count_trace 0x21 2 brkPks exTab0 exCtx0 {} t' c' C02Trace.exState_inv.1 g21
      (fun pk hm _ _ => hlen pk hm)
      (C02Trace.keeps_of_es_and_repeated_tables (fun _ => 0) 0x21 2 brkPks exTab0 exCtx0 {} g21
        (fun pk hm _ => brkPks_input pk hm)) hrun
    have b := app_ccerr_count_trace 0x22 3 brkPks exTab0 exCtx0 {} t' c' C02Trace.exState_inv.1 g22
      (fun pk hm _ _ => hlen pk hm)
      (C02Trace.keeps_of_es_and_repeated_tables (fun _ => 0) 0x22 3 brkPks exTab0 exCtx0 {} g22
        (fun pk hm _ => brkPks_input pk hm)) hrun
    rw [show ({} : F).cc = none from rfl, brkPks_breaks.1] at a
    rw [show ({} : F).cc = none from rfl, brkPks_breaks.2] at b
    exact ⟨t', c', rfl, a, b⟩

/-- … the same run, evaluated: consumer 2 (PID 0x21) gets `continuity_error` for its packet `A1'`, whose
data is withheld, and a fresh `begin_packet` (no `end_packet`) for `A2'`; consumer 3 (PID 0x22) is
unaffected by the break on the other PID; `app_ccerr_count_trace`'s count for tag 2 is 1 -/
example : (match pushSpec App.sem (exTab0, exCtx0) brkPks with
    | .ok (_, c) => decide (
        proj 2 c = [.esStart 2, .esBegin 2 (exBi 389), .esCcErr 2, .esBegin 2 (exBi 1517)]
        ∧ proj 3 c = [.esStart 3, .esBegin 3 (exBi 765), .esCont 3 1404 100]
        ∧ c.trace.count (.esCcErr 2) = 1 ∧ c.trace.count (.esCcErr 3) = 0)
    | .panic _ => false) = true := by decide +kernel

/-- NON-VACUITY of `app_ccerr_iff_push_benign` (hence `app_ccerr_iff_push`, `app_ccerr_iff_benign`): the
same interleaving as raw bytes handed to `Demultiplex::push`; `frame` yields exactly `brkPks` -/
example : ∃ t' c' new2,
    push App.sem (exTab0, exCtx0) brkBuf 376 = .ok (t', c') ∧
    proj 2 c' = proj 2 exCtx0 ++ new2 ∧ ReportsBreaks false 2 {} (own 0x21 brkPks) new2 := by
  have ok1 : (push App.sem (exTab0, exCtx0) brkBuf 376).isOk = true := by decide +kernel
  obtain ⟨pks, hf, hb⟩ := C02Trace.ok_of_check (frame brkBuf 376) (fun pks => decide (pks = brkPks))
    (by decide +kernel)
  have hpks : pks = brkPks := of_decide_eq_true hb
  subst hpks
  cases hrun : push App.sem (exTab0, exCtx0) brkBuf 376 with
  | panic s => rw [hrun] at ok1; cases ok1
  | ok r =>
    obtain ⟨t', c'⟩ := r
    have hB : ∀ pk ∈ brkPks, pk.pid ≠ 0x21 → Benign (fun _ => 0) exCtx0.cfg.script exTab0 pk := by
      intro pk hm _
      rcases brkPks_input pk hm with h | ⟨_, hr, hq⟩
      · exact Or.inl h
      · exact Or.inr (Or.inl ⟨hq, Or.inr hr⟩)
    obtain ⟨new2, a1, a2⟩ := app_ccerr_iff_push_benign (fun _ => 0) 0x21 2 brkBuf 376 _ exTab0 exCtx0
      {} t' c' C02Trace.exState_inv.1 (by decide +kernel) hf hB hrun
    exact ⟨t', c', new2, rfl, a1, a2⟩

/-- continuation packets for PID 0x21 after `exA0 brkA1`: counter 6 without unit start (withheld), a
unit start with a PES header (counter 7), its continuation (counter 8) -/
def qA6 : Bytes := mkTp false 0x21 6 none (List.replicate 184 0x16)
def qA7 : Bytes := mkTp true 0x21 7 none (pesHead ++ List.replicate 175 0x17)
def qA8 : Bytes := mkTp false 0x21 8 none (List.replicate 184 0x18)

/-- NON-VACUITY of `quarantine_app` / `quarantine_app_trace`: a whole `runApp` (two pushes) in which
consumer 2 gets a `ccErr` and LATER continuation data.  Counters on PID 0x21: 0, 5 (break; data
withheld), 6 (no unit start: still withheld), 7 (unit start: `begin_packet`), 8 (delivered).  The
hypothesis `hs` of `quarantine_app` holds with `pre = [start, beginPkt]`, `mid = [beginPkt]`,
`post = []`, and the `beginPkt` it promises is there. -/
example : (match App.runApp { bypassCrc := true } [exPat ++ exPmt2 ++ exA0 ++ brkA1, qA6 ++ qA7 ++ qA8] with
    | .ok (_, c) => decide (
        esTrace 2 c = [.start, .beginPkt 0 0] ++ .ccErr :: ([.beginPkt 0 0] ++ .cont 0 0 :: [])
        ∧ proj 2 c = [.esStart 2, .esBegin 2 (exBi 389), .esCcErr 2, .esBegin 2 (exBi 953),
                      .esCont 2 1132 184])
    | .panic _ => false) = true := by decide +kernel

/-- … and both theorems APPLIED to that run: all hypotheses hold (evaluated: the run succeeds, the
per-consumer callbacks and the whole shared trace have the shape `pre ++ ccErr :: (mid ++ cont :: post)`),
and the conclusions exhibit the `begin_packet` in `mid` -/
example : ∃ t c, App.runApp { bypassCrc := true } [exPat ++ exPmt2 ++ exA0 ++ brkA1, qA6 ++ qA7 ++ qA8]
      = .ok (t, c) ∧
    (∃ m1 o' l' m2, [Ev.beginPkt 0 0] = m1 ++ .beginPkt o' l' :: m2 ∧ ∀ x ∈ m2, isCont x) ∧
    (∃ bi, App.Ev.esBegin 2 bi ∈ [App.Ev.esBegin 2 (exBi 953)]) := by
  obtain ⟨⟨t, c⟩, h, hb⟩ := C02Trace.ok_of_check
    (App.runApp { bypassCrc := true } [exPat ++ exPmt2 ++ exA0 ++ brkA1, qA6 ++ qA7 ++ qA8])
    (fun tc =>
      decide (esTrace 2 tc.2 = [.start, .beginPkt 0 0] ++ .ccErr :: ([.beginPkt 0 0] ++ .cont 0 0 :: []))
      && decide (tc.2.trace.reverse =
          [.construct (.byPid 0) 0, .construct (.pmt 0x20 1) 1,
           .construct (.stream 0x20 0x1B 0x21 0x21 [] []) 2, .construct (.stream 0x20 0x0F 0x22 0x21 [] []) 3,
           .esStart 2, .esBegin 2 (exBi 389)]
          ++ .esCcErr 2 :: ([.esBegin 2 (exBi 953)] ++ .esCont 2 1132 184 :: [])))
    (by decide +kernel)
  simp only [Bool.and_eq_true, decide_eq_true_eq] at hb
  exact ⟨t, c, h, quarantine_app _ _ t c h 2 _ _ _ 0 0 hb.1,
    quarantine_app_trace _ _ t c h 2 _ _ _ 1132 184 hb.2⟩

/-- a unit start on PID 0x21 with counter 7 -/
def repA7 : Bytes := mkTp true 0x21 7 none (pesHead ++ List.replicate 175 0x15)

def isEsCcErr : App.Ev → Bool
  | .esCcErr _ => true
  | _ => false

/-- WITNESS for the per-instance reading (`first_after_replacement_never_error`), whole application,
evaluated.  Run 1: PAT, PMT (version 0), ES packet on PID 0x21 with counter 0, the PMT again with
version 1 re-listing PID 0x21 (and 0x22), ES packet on PID 0x21 with counter 7.  The PES filter of
PID 0x21 (tag 2, stored counter 0) is replaced by a fresh instance (tag 4); the counter jump 0 → 7 is
reported to NO ONE: there is no `esCcErr` event anywhere in the trace; consumer 4 starts with its own
`start_stream`.  Run 2: the same WITHOUT the second PMT: consumer 2 gets `esCcErr 2`. -/
example : (match App.runApp { bypassCrc := true } [exPat ++ exPmt2 ++ exA0 ++ exPmt2v1 ++ repA7],
      App.runApp { bypassCrc := true } [exPat ++ exPmt2 ++ exA0 ++ repA7] with
    | .ok (t1, c1), .ok (t2, c2) => decide (
        tagsIn t1 = [4, 5] ∧ c1.trace.any isEsCcErr = false
        ∧ proj 2 c1 = [.esStart 2, .esBegin 2 (exBi 389)]
        ∧ proj 4 c1 = [.esStart 4, .esBegin 4 (exBi 765)]
        ∧ tagsIn t2 = [2, 3]
        ∧ proj 2 c2 = [.esStart 2, .esBegin 2 (exBi 389), .esCcErr 2, .esBegin 2 (exBi 577)])
    | _, _ => false) = true := by decide +kernel

/-- NON-VACUITY of `first_after_replacement_never_error` (and of `replacement_installs_fresh_filter`,
`fresh_instance_first_never_error`): `(t0, c0)` = the state after PAT, PMT and the ES packet with
counter 0 (slot 0x21 holds tag 2 with STORED COUNTER 0); `pk0` = the PMT packet with version 1; after
that step slot 0x21 holds tag 4 ≥ `c0.nextTag` = 4; `pks` = the ES packet with counter 7.  All
hypotheses hold (evaluated), so the theorem applies: the new filter is `{}` and the packet with
counter 7 yields no `esCcErr 4`. -/
example : ∃ t0 c0 t c f t' c',
    pushSpec App.sem (exTab0, exCtx0) [⟨exA0, 376, 0x21, false, false⟩] = .ok (t0, c0) ∧
    t0.get 0x21 = some (.pes 2 ⟨some 0, .started⟩) ∧
    specStep App.sem (t0, c0) ⟨exPmt2v1, 564, 0x20, false, false⟩ = .ok (t, c) ∧
    t.get 0x21 = some (.pes 4 f) ∧
    pushSpec App.sem (t, c) [⟨repA7, 752, 0x21, false, false⟩] = .ok (t', c') ∧
    f = {} ∧
    ∃ f' evss outs,
      run {} ((own 0x21 [⟨repA7, 752, 0x21, false, false⟩]).map (·.bytes)) = .ok (f', evss) ∧
      esAll c.cfg.touch 4 (own 0x21 [⟨repA7, 752, 0x21, false, false⟩]) evss = .ok outs ∧
      proj 4 c' = proj 4 c ++ outs.flatten ∧ outs.length = 1 ∧
      ∀ out, outs[0]? = some out → App.Ev.esCcErr 4 ∉ out := by
  obtain ⟨⟨t0, c0⟩, h0, hb⟩ := C02Trace.ok_of_check
    (pushSpec App.sem (exTab0, exCtx0) [⟨exA0, 376, 0x21, false, false⟩])
    (fun tc0 =>
      decide (tc0.1.get 0x21 = some (.pes 2 ⟨some 0, .started⟩)) && decide (tc0.2.nextTag ≤ 4) &&
      (match specStep App.sem tc0 ⟨exPmt2v1, 564, 0x20, false, false⟩ with
       | .ok tc =>
         holdsPes tc.1 0x21 4 && Keeps 0x21 4 tc [⟨repA7, 752, 0x21, false, false⟩] &&
         (match pushSpec App.sem tc [⟨repA7, 752, 0x21, false, false⟩] with
          | .ok _ => true
          | .panic _ => false)
       | .panic _ => false))
    (by decide +kernel)
  simp only [Bool.and_eq_true, decide_eq_true_eq] at hb
  obtain ⟨⟨g0, hn⟩, hb⟩ := hb
  have hi0 : TagInv (t0, c0) := (C02Trace.tagInv_pushSpec _ _ _ C02Trace.exState_inv.1 h0).1
  have hlen : ∀ pk ∈ [(⟨repA7, 752, 0x21, false, false⟩ : Pk)], pk.pid = 0x21 → pk.flagged = false →
      pk.bytes.length = 188 := by
    intro pk hm _ _
    simp only [List.mem_cons, List.not_mem_nil, or_false] at hm
    subst hm
    decide +kernel
  cases h1 : specStep App.sem (t0, c0) ⟨exPmt2v1, 564, 0x20, false, false⟩ with
  | panic s => rw [h1] at hb; cases hb
  | ok tc =>
    rw [h1] at hb
    obtain ⟨t, c⟩ := tc
    simp only [Bool.and_eq_true] at hb
    obtain ⟨⟨hh, hK⟩, hb⟩ := hb
    cases h2 : pushSpec App.sem (t, c) [⟨repA7, 752, 0x21, false, false⟩] with
    | panic s => rw [h2] at hb; cases hb
    | ok tc' =>
      obtain ⟨t', c'⟩ := tc'
      obtain ⟨f, hg⟩ := (holdsPes_iff t 0x21 4).mp hh
      obtain ⟨x1, f', evss, outs, x2, x3, x4, x5, x6⟩ :=
        first_after_replacement_never_error 0x21 4 _ _ t0 c0 t c f t' c' hi0 h1 hn hg hlen hK h2
      exact ⟨t0, c0, t, c, f, t', c', h0, g0, h1, hg, h2, x1, f', evss, outs, x2, x3, x4, x5, x6⟩

end appExamples

end Ts.Props.C09
